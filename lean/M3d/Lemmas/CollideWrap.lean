import M3d.Lemmas.CollideSlab
import M3d.Lemmas.CollideTri
/-!
# C07 — capsule phantom removal, `profileCollider`, parity for convex cells, ball queries, cone normal
-/
set_option linter.unusedSectionVars false
set_option linter.unusedVariables false
namespace M3d.Col

variable {K : Type} [Field K] [LinearOrder K] [IsStrictOrderedRing K]

/-! ## `Capsule.RayCollisions`: selection of the first / last candidate -/

section Capsule
variable {H : Type}

/-- A collider whose callbacks are selected by `capsuleSelect` from a candidate list and whose
`FirstRayCollision` is the min-callback over `RayCollisions` (as `Capsule` is). -/
def capsuleLike {R : Type} (tOf : H → K) (cands : R → List H) (inside : R → Bool) : Collider R H :=
  { ray := fun r cb => capsuleSelect tOf (cands r) (inside r) cb,
    first := fun r => minFirst tOf (capsuleSelect tOf (cands r) (inside r) true).2 none }

theorem capsuleSelect_calls_mem (tOf : H → K) (colls : List H) (ins : Bool) (h : H)
    (hm : h ∈ (capsuleSelect tOf colls ins true).2) : h ∈ colls := by
  unfold capsuleSelect at hm
  match colls, hm with
  | [], hm => simp at hm
  | [x], hm => simpa using hm
  | x :: y :: rest, hm =>
    simp only [if_true] at hm
    have hperm := sortByT_perm tOf (x :: y :: rest)
    rcases List.mem_append.1 hm with h1 | h1
    · cases ins
      · simp only [Bool.not_false, if_true, Option.mem_toList] at h1
        exact hperm.mem_iff.1 (List.mem_of_mem_head? h1)
      · simp at h1
    · simp only [Option.mem_toList] at h1
      exact hperm.mem_iff.1 (List.mem_of_getLast? h1)

/-- **`capsule_phantom_contract`**: whatever candidates the end spheres and the side produce (all with
non-negative parameters), the capsule's selection satisfies the contract: count = callbacks = count
without callback, parameters non-negative, first = minimum of the callbacks, present iff count ≠ 0. -/
theorem capsuleLike_contract {R : Type} (tOf : H → K) (cands : R → List H) (inside : R → Bool) (r : R)
    (hnn : ∀ h ∈ cands r, 0 ≤ tOf h) : Contract tOf (capsuleLike tOf cands inside) r := by
  have hlen : ∀ cb, (capsuleSelect tOf (cands r) (inside r) cb).1 =
      (capsuleSelect tOf (cands r) (inside r) true).2.length ∧
      (cb = false → (capsuleSelect tOf (cands r) (inside r) cb).2 = []) := by
    intro cb
    unfold capsuleSelect
    match hc : cands r with
    | [] => simp
    | [x] => cases cb <;> simp
    | x :: y :: rest =>
      have hperm := sortByT_perm tOf (x :: y :: rest)
      have hne : sortByT tOf (x :: y :: rest) ≠ [] := by
        intro h0; rw [h0] at hperm; exact absurd hperm.symm.length_eq (by simp)
      obtain ⟨l, hl⟩ := Option.isSome_iff_exists.1 (by
        show (sortByT tOf (x :: y :: rest)).getLast?.isSome = true
        cases hs : sortByT tOf (x :: y :: rest) with
        | nil => exact absurd hs hne
        | cons a as => simp [List.getLast?_cons])
      obtain ⟨f, hf⟩ := Option.isSome_iff_exists.1 (by
        show (sortByT tOf (x :: y :: rest)).head?.isSome = true
        cases hs : sortByT tOf (x :: y :: rest) with
        | nil => exact absurd hs hne
        | cons a as => simp)
      cases inside r <;> cases cb <;> simp [hl, hf]
  refine ⟨(hlen true).1, ?_, (hlen false).2 rfl, ?_, ?_, ?_⟩
  · show (capsuleSelect tOf (cands r) (inside r) false).1 = (capsuleSelect tOf (cands r) (inside r) true).1
    rw [(hlen false).1, (hlen true).1]
  · intro h hm
    exact hnn h (capsuleSelect_calls_mem tOf _ _ h hm)
  · show (minFirst tOf (capsuleSelect tOf (cands r) (inside r) true).2 none).isSome = true ↔
      (capsuleSelect tOf (cands r) (inside r) true).1 ≠ 0
    rw [minFirst_none_isSome, (hlen true).1]
    simp [List.length_eq_zero_iff]
  · intro h hh
    obtain ⟨h1, h2⟩ := minFirst_none_spec tOf _ h hh
    exact ⟨⟨h, h1, rfl⟩, h2⟩

/-- With two or more candidates the last callback is a candidate of maximal parameter and — when the origin
is outside — the first callback a candidate of minimal parameter: everything in between is dropped. -/
theorem capsuleSelect_extremes (tOf : H → K) (x y : H) (rest : List H) (ins : Bool) :
    ∃ lo hi, lo ∈ x :: y :: rest ∧ hi ∈ x :: y :: rest ∧
      (∀ h ∈ x :: y :: rest, tOf lo ≤ tOf h ∧ tOf h ≤ tOf hi) ∧
      (capsuleSelect tOf (x :: y :: rest) ins true).2 = (if ins then [] else [lo]) ++ [hi] := by
  have hperm := sortByT_perm tOf (x :: y :: rest)
  have hsorted := sortByT_sorted tOf (x :: y :: rest)
  have hne : sortByT tOf (x :: y :: rest) ≠ [] := by
    intro h0; rw [h0] at hperm; exact absurd hperm.symm.length_eq (by simp)
  obtain ⟨hi, hhi⟩ := Option.isSome_iff_exists.1 (by
    show (sortByT tOf (x :: y :: rest)).getLast?.isSome = true
    cases hs : sortByT tOf (x :: y :: rest) with
    | nil => exact absurd hs hne
    | cons a as => simp [List.getLast?_cons])
  obtain ⟨lo, hlo⟩ := Option.isSome_iff_exists.1 (by
    show (sortByT tOf (x :: y :: rest)).head?.isSome = true
    cases hs : sortByT tOf (x :: y :: rest) with
    | nil => exact absurd hs hne
    | cons a as => simp)
  refine ⟨lo, hi, hperm.mem_iff.1 (List.mem_of_mem_head? hlo), hperm.mem_iff.1 (List.mem_of_getLast? hhi), ?_, ?_⟩
  · intro h hm
    have hm' := hperm.mem_iff.2 hm
    exact ⟨sorted_head_le tOf _ hsorted lo hlo h hm', sorted_le_last tOf _ hsorted hi hhi h hm'⟩
  · unfold capsuleSelect
    cases ins <;> simp [hlo, hhi]

/-- A point of an end sphere whose axial coordinate lies between the end points is within `radius` of the
axis: the "phantom" collisions with the inner hemispheres are inside the (convex) capsule, hence between
its entry and exit.  (`v = P2 - P1`, not normalised; squared form.) -/
theorem capsule_phantom_inside (p1 v p : V3 K) (radius : K)
    (hon : (p.sub p1).dot (p.sub p1) = radius * radius) :
    (p.sub p1).dot (p.sub p1) * v.dot v - (p.sub p1).dot v * (p.sub p1).dot v ≤ radius * radius * v.dot v := by
  rw [hon]
  have : 0 ≤ (p.sub p1).dot v * (p.sub p1).dot v := mul_self_nonneg _
  linarith

end Capsule

/-! ## `profileCollider` -/

theorem profFlat_spec (colls : List (Hit K)) (cb : Bool) (hnn : ∀ h ∈ colls, 0 ≤ h.t) :
    (profFlat colls cb).1 = (profFlat colls true).2.length ∧
      (cb = false → (profFlat colls cb).2 = []) ∧ ∀ h ∈ (profFlat colls true).2, 0 ≤ h.t := by
  refine ⟨by simp [profFlat], fun h => by simp [profFlat, h], by simpa [profFlat] using hnn⟩

theorem profGeneral_spec (f0 f1 : Bool) (sides : List (Hit K)) (h0 h1 : Hit K) (cb : Bool)
    (hf0 : f0 = true → 0 ≤ h0.t) (hf1 : f1 = true → 0 ≤ h1.t) (hs : ∀ h ∈ sides, 0 ≤ h.t) :
    (profGeneral f0 f1 sides h0 h1 cb).1 = (profGeneral f0 f1 sides h0 h1 true).2.length ∧
      (cb = false → (profGeneral f0 f1 sides h0 h1 cb).2 = []) ∧
      ∀ h ∈ (profGeneral f0 f1 sides h0 h1 true).2, 0 ≤ h.t := by
  refine ⟨?_, fun h => by simp [profGeneral, h], ?_⟩
  · cases f0 <;> cases f1 <;> simp [profGeneral] <;> omega
  · intro h hm
    simp only [profGeneral, if_true, List.mem_append] at hm
    rcases hm with (hm | hm) | hm
    · cases f0
      · simp at hm
      · simp only [if_true, List.mem_singleton] at hm; subst hm; exact hf0 rfl
    · exact hs h hm
    · cases f1
      · simp at hm
      · simp only [if_true, List.mem_singleton] at hm; subst hm; exact hf1 rfl

/-- **`profile_contract`**: given the 2-D collider's callbacks for the projected ray have non-negative
parameters (its contract), `profileCollider` satisfies the contract in all three cases (vertical ray,
flat ray, general ray with its two face tests and the side filter). -/
theorem profile_contract' (ray2 : V2 K → V2 K → List (Hit2 K)) (solid2 : V2 K → Bool) (minZ maxZ : K)
    (r : V3 K × V3 K) (h2 : ∀ rc ∈ ray2 r.1.xy r.2.xy, 0 ≤ rc.t) :
    Contract Hit.t (profileCollider ray2 solid2 minZ maxZ) r := by
  have key : ∀ cb, (profileRay ray2 solid2 minZ maxZ r.1 r.2 cb).1 =
        (profileRay ray2 solid2 minZ maxZ r.1 r.2 true).2.length ∧
      (cb = false → (profileRay ray2 solid2 minZ maxZ r.1 r.2 cb).2 = []) ∧
      ∀ h ∈ (profileRay ray2 solid2 minZ maxZ r.1 r.2 true).2, 0 ≤ h.t := by
    intro cb
    have hcolls : ∀ rc ∈ (if (isZero r.2.x && isZero r.2.y) = true then [] else ray2 r.1.xy r.2.xy), 0 ≤ rc.t := by
      intro rc hrc
      split at hrc
      · simp at hrc
      · exact h2 rc hrc
    unfold profileRay
    simp only []
    split
    · simp
    · split
      · split
        · simp
        · refine profFlat_spec _ cb ?_
          intro h hm
          obtain ⟨rc, hrc, rfl⟩ := List.mem_map.1 hm
          exact hcolls rc hrc
      · refine profGeneral_spec _ _ _ _ _ cb ?_ ?_ ?_
        · intro hf; simp only [Bool.and_eq_true, decide_eq_true_eq] at hf ⊢; exact hf.1
        · intro hf; simp only [Bool.and_eq_true, decide_eq_true_eq] at hf ⊢; exact hf.1
        · intro h hm
          obtain ⟨rc, hrc, rfl⟩ := List.mem_map.1 hm
          exact hcolls rc (List.mem_filter.1 hrc).1
  refine ⟨(key true).1, ?_, (key false).2.1 rfl, (key true).2.2, ?_, ?_⟩
  · show (profileRay ray2 solid2 minZ maxZ r.1 r.2 false).1 = (profileRay ray2 solid2 minZ maxZ r.1 r.2 true).1
    rw [(key false).1, (key true).1]
  · show (minFirst Hit.t (profileRay ray2 solid2 minZ maxZ r.1 r.2 true).2 none).isSome = true ↔
      (profileRay ray2 solid2 minZ maxZ r.1 r.2 true).1 ≠ 0
    rw [minFirst_none_isSome, (key true).1]
    simp [List.length_eq_zero_iff]
  · intro h hh
    obtain ⟨h1, h2'⟩ := minFirst_none_spec Hit.t _ h hh
    exact ⟨⟨h, h1, rfl⟩, h2'⟩

/-- The side filter of `profileCollider` is the z-range test: for `d.z ≠ 0`, `minT ≤ t ≤ maxT` iff the ray
point at `t` has `minZ ≤ z ≤ maxZ`; and the face parameters put the ray point on the planes `z = minZ`,
`z = maxZ`. -/
theorem profile_z_range (minZ maxZ oz dz t : K) (hdz : dz ≠ 0) (hz : minZ ≤ maxZ) :
    let t0 := (minZ - oz) / dz
    let t1 := (maxZ - oz) / dz
    ((if t1 < t0 then t1 else t0) ≤ t ∧ t ≤ (if t1 < t0 then t0 else t1) ↔ minZ ≤ oz + dz * t ∧ oz + dz * t ≤ maxZ) ∧
    oz + dz * t0 = minZ ∧ oz + dz * t1 = maxZ := by
  intro t0 t1
  have hax := axIn_iff (⟨oz, dz, minZ, maxZ⟩ : Ax K) t hdz hz
  simp only [AxIn] at hax
  refine ⟨hax.symm, ?_, ?_⟩
  · show oz + dz * ((minZ - oz) / dz) = minZ
    field_simp; ring
  · show oz + dz * ((maxZ - oz) / dz) = maxZ
    field_simp; ring

/-! ## parity for convex cells -/

/-- **Parity, box cell** (`parity_inside` for the single convex cell `Rect`): when the origin is not on
the entry plane (`mn ≠ 0`: general position), the number of collisions is odd iff the origin is in the box. -/
theorem parity_box (lo hi o d : V3 K) (hbox : lo.x ≤ hi.x ∧ lo.y ≤ hi.y ∧ lo.z ≤ hi.z) (mn mx : K)
    (h : slabLoop (axes3 o d lo hi) none none = (some mn, some mx)) (hgen : mn ≠ 0) :
    (rectTs lo hi o d).length % 2 = 1 ↔ InBox lo hi o := by
  have hint := rect_interval lo hi o d hbox mn mx h 0 le_rfl
  have ho : o.along d 0 = o := by
    simp [V3.along, V3.add, V3.scale]
  rw [ho] at hint
  rw [hint, rectTs_eq lo hi o d mn mx h]
  by_cases h1 : mx < mn ∨ mx < 0
  · simp only [h1, if_true, List.length_nil, Nat.zero_mod, zero_ne_one, false_iff, not_and, not_le]
    intro hmn
    rcases h1 with h1 | h1
    · linarith
    · exact h1
  · have h1' := not_or.1 h1
    simp only [h1, if_false]
    by_cases h2 : mn < 0
    · simp only [h2, if_true, List.length_singleton, Nat.one_mod, true_iff]
      exact ⟨le_of_lt h2, not_lt.1 h1'.2⟩
    · simp only [h2, if_false, List.length_cons, List.length_nil, Nat.zero_add, Nat.reduceAdd, Nat.mod_self,
        zero_ne_one, false_iff, not_and, not_le]
      intro hmn
      exact absurd (le_antisymm hmn (not_lt.1 h2)) hgen

/-- **Parity, ball cell** (`Sphere`): when the origin is not on the sphere (general position), the number
of reported collisions is odd iff the origin is strictly inside. -/
theorem parity_sphere {sqrtF : K → K} (hs : SqrtOK sqrtF) (center : V3 K) (radius : K) (o d : V3 K)
    (hd : d.dot d ≠ 0) (hgen : o.distSq center ≠ radius * radius) :
    (sphereHits sqrtF center radius o d).length % 2 = 1 ↔ o.distSq center < radius * radius := by
  have hlen : (sphereHits sqrtF center radius o d).length = ((sphereHits sqrtF center radius o d).map Hit.t).length := by simp
  rw [hlen, sphereHits_ts]
  have hC : sphC center radius o = o.distSq center - radius * radius := by
    simp only [sphC, V3.dot, V3.sub, V3.distSq]
  have hapos : 0 < sphA d := lt_of_le_of_ne (V3.dot_self_nonneg d) (Ne.symm hd)
  cases hr : sphereRoots sqrtF center radius o d with
  | none =>
    simp only [List.length_nil, Nat.zero_mod, zero_ne_one, false_iff, not_lt]
    have hdisc := (sphereRoots_none_iff sqrtF center radius o d).1 hr
    by_contra hcon
    have hcneg : sphC center radius o < 0 := by rw [hC]; linarith [not_le.1 hcon]
    have : 0 < sphDisc center radius o d := by
      unfold sphDisc
      have : 0 ≤ sphB center o d * sphB center o d := mul_self_nonneg _
      nlinarith [mul_pos hapos (neg_pos.2 hcneg)]
    linarith
  | some p =>
    obtain ⟨t1, t2⟩ := p
    obtain ⟨_, h12, _, _, _, hprod⟩ := sphereRoots_some hs center radius o d hd t1 t2 hr
    have hcne : sphC center radius o ≠ 0 := by rw [hC]; exact sub_ne_zero.2 hgen
    simp only [List.filter]
    by_cases ht1 : 0 ≤ t1
    · have ht2 : 0 ≤ t2 := le_trans ht1 h12
      simp only [ht1, ht2, decide_true, List.length_cons, List.length_nil, Nat.zero_add, Nat.reduceAdd,
        Nat.mod_self, zero_ne_one, false_iff, not_lt]
      have : 0 ≤ sphC center radius o := by
        rw [← hprod]; exact mul_nonneg (mul_nonneg ht1 ht2) (le_of_lt hapos)
      rw [hC] at this; linarith
    · have ht1' : t1 < 0 := not_le.1 ht1
      by_cases ht2 : 0 ≤ t2
      · simp only [ht1, ht2, decide_true, decide_false, List.length_cons, List.length_nil, Nat.zero_add, Nat.one_mod, true_iff]
        have : sphC center radius o ≤ 0 := by
          rw [← hprod]
          exact mul_nonpos_of_nonpos_of_nonneg (mul_nonpos_of_nonpos_of_nonneg (le_of_lt ht1') ht2) (le_of_lt hapos)
        have : sphC center radius o < 0 := lt_of_le_of_ne this hcne
        rw [hC] at this; linarith
      · have ht2' : t2 < 0 := not_le.1 ht2
        simp only [ht1, ht2, decide_false, List.length_nil, Nat.zero_mod, zero_ne_one, false_iff, not_lt]
        have : 0 < sphC center radius o := by
          rw [← hprod]; exact mul_pos (mul_pos_of_neg_of_neg ht1' ht2') hapos
        rw [hC] at this; linarith

/-! ## ball queries -/

/-- The one-dimensional closest-point lemma: if some point `s0 + λ·v` (`0 ≤ λ ≤ 1`) of a segment is within
squared distance `q` of `c`, then so is an end point, or the foot of the perpendicular lies on the segment
and is within `q`.  (`frac` is the parameter of the foot.) -/
theorem seg_closest (vv wv ww q lam : K) (hvv : 0 < vv) (hl0 : 0 ≤ lam) (hl1 : lam ≤ 1)
    (hq : lam * lam * vv - 2 * lam * wv + ww < q) :
    ww < q ∨ vv - 2 * wv + ww < q ∨
      (0 ≤ wv / vv ∧ wv / vv ≤ 1 ∧ (wv / vv) * (wv / vv) * vv - 2 * (wv / vv) * wv + ww < q) := by
  -- f(λ) = λ² vv - 2 λ wv + ww, minimal at frac = wv / vv
  by_cases h0 : wv < 0
  · left
    nlinarith [mul_nonneg hl0 (le_of_lt hvv), mul_nonneg (mul_nonneg hl0 hl0) (le_of_lt hvv)]
  · by_cases h1 : vv < wv
    · right; left
      have e : lam * lam * vv - 2 * lam * wv + ww - (vv - 2 * wv + ww) = (1 - lam) * (2 * wv - (1 + lam) * vv) := by
        ring
      have : 0 ≤ (1 - lam) * (2 * wv - (1 + lam) * vv) :=
        mul_nonneg (sub_nonneg.2 hl1) (by nlinarith)
      linarith
    · right; right
      have hf0 : 0 ≤ wv / vv := div_nonneg (not_lt.1 h0) (le_of_lt hvv)
      have hf1 : wv / vv ≤ 1 := (div_le_one hvv).2 (not_lt.1 h1)
      refine ⟨hf0, hf1, ?_⟩
      have hmin : (wv / vv) * (wv / vv) * vv - 2 * (wv / vv) * wv + ww ≤ lam * lam * vv - 2 * lam * wv + ww := by
        have e : lam * lam * vv - 2 * lam * wv + ww - ((wv / vv) * (wv / vv) * vv - 2 * (wv / vv) * wv + ww) =
            vv * ((lam - wv / vv) * (lam - wv / vv)) := by
          field_simp; ring
        have : 0 ≤ vv * ((lam - wv / vv) * (lam - wv / vv)) := mul_nonneg (le_of_lt hvv) (mul_self_nonneg _)
        linarith
      linarith

/-- squared distance from `c` to the point `s0 + λ·(s1 - s0)` in terms of the dot products the code uses -/
theorem seg2_param_distSq (s0 s1 c : V2 K) (lam : K) :
    ((s0.add ((s1.sub s0).scale lam)).distSq c) =
      lam * lam * (s1.sub s0).dot (s1.sub s0) - 2 * lam * (c.dot (s1.sub s0) - s0.dot (s1.sub s0)) + s0.distSq c := by
  simp only [V2.add, V2.scale, V2.sub, V2.distSq, V2.dot]; ring

/-- **`ball_touches_iff`, 2-D `Segment.CircleCollision`**: it answers true exactly when some point of the
segment is at distance `< r` from the centre (open disc — the library's convention for segments and
triangles is the strict inequality), for a non-degenerate segment and `r ≥ 0`. -/
theorem seg2Circle_iff {sqrtF : K → K} (hs : SqrtOK sqrtF) (s0 s1 c : V2 K) (r : K) (hr : 0 ≤ r)
    (hne : (s1.sub s0).dot (s1.sub s0) ≠ 0) :
    seg2Circle sqrtF s0 s1 c r = true ↔
      ∃ lam, 0 ≤ lam ∧ lam ≤ 1 ∧ (s0.add ((s1.sub s0).scale lam)).distSq c < r * r := by
  have hvv : 0 < (s1.sub s0).dot (s1.sub s0) :=
    lt_of_le_of_ne (add_nonneg (mul_self_nonneg _) (mul_self_nonneg _)) (Ne.symm hne)
  have hsq : ∀ p : V2 K, p.dist sqrtF c < r ↔ p.distSq c < r * r := fun p =>
    sqrt_lt_iff hs (V2.distSq_nonneg _ _) hr
  simp only [seg2Circle, Bool.or_eq_true, Bool.and_eq_true, decide_eq_true_eq, hsq]
  have hend1 : (s0.add ((s1.sub s0).scale 1)).distSq c = s1.distSq c := by
    simp only [V2.add, V2.scale, V2.sub, V2.distSq]; ring
  have hend0 : (s0.add ((s1.sub s0).scale 0)).distSq c = s0.distSq c := by
    simp only [V2.add, V2.scale, V2.sub, V2.distSq]; ring
  constructor
  · rintro ((h | h) | ⟨⟨h0, h1⟩, h2⟩)
    · exact ⟨0, le_rfl, zero_le_one, by rw [hend0]; exact h⟩
    · exact ⟨1, zero_le_one, le_rfl, by rw [hend1]; exact h⟩
    · exact ⟨_, h0, h1, h2⟩
  · rintro ⟨lam, hl0, hl1, hq⟩
    rw [seg2_param_distSq] at hq
    rcases seg_closest _ _ _ _ lam hvv hl0 hl1 hq with h | h | ⟨h0, h1, h2⟩
    · exact Or.inl (Or.inl h)
    · refine Or.inl (Or.inr ?_)
      rw [← hend1, seg2_param_distSq]; linarith
    · refine Or.inr ⟨⟨h0, h1⟩, ?_⟩
      rw [seg2_param_distSq]; exact h2

/-- Cauchy–Schwarz, squared. -/
theorem cauchy3 (u w : V3 K) : u.dot w * u.dot w ≤ u.dot u * w.dot w := by
  simp only [V3.dot]
  nlinarith [mul_self_nonneg (u.x * w.y - u.y * w.x), mul_self_nonneg (u.x * w.z - u.z * w.x),
    mul_self_nonneg (u.y * w.z - u.z * w.y)]

/-- **`ball_touches_iff`, primitives with `SphereCollision = |SDF| ≤ r`, instance `Sphere`**
(`|R - dist(c, center)| ≤ r`): true exactly when some point of the sphere *surface* is within distance `r`
of `c` (closed ball), for `R ≥ 0`, `r ≥ 0`. -/
theorem sphere_ball_iff {sqrtF : K → K} (hs : SqrtOK sqrtF) (center : V3 K) (R : K) (c : V3 K) (r : K)
    (hR : 0 ≤ R) (hr : 0 ≤ r) :
    |R - c.dist sqrtF center| ≤ r ↔
      ∃ p : V3 K, p.distSq center = R * R ∧ p.distSq c ≤ r * r := by
  obtain ⟨hρ0, hρ1⟩ := hs (c.distSq center) (V3.distSq_nonneg _ _)
  simp only [V3.dist]
  set ρ := sqrtF (c.distSq center) with hρ
  constructor
  · intro h
    have habs : (R - ρ) * (R - ρ) ≤ r * r := by
      have := abs_le.1 h
      nlinarith [this.1, this.2]
    by_cases hz : ρ = 0
    · -- c is the centre: take any point at distance R
      have hc0 : c.distSq center = 0 := by rw [← hρ1, hz]; ring
      refine ⟨⟨center.x + R, center.y, center.z⟩, by simp only [V3.distSq]; ring, ?_⟩
      have e : (⟨center.x + R, center.y, center.z⟩ : V3 K).distSq c =
          R * R + 2 * R * (center.x - c.x) + c.distSq center := by
        simp only [V3.distSq]; ring
      have hx : c.x - center.x = 0 := by
        have : (c.x - center.x) * (c.x - center.x) ≤ 0 := by
          simp only [V3.distSq] at hc0
          nlinarith [mul_self_nonneg (c.y - center.y), mul_self_nonneg (c.z - center.z)]
        exact mul_self_eq_zero.1 (le_antisymm this (mul_self_nonneg _))
      rw [e, hc0, show center.x - c.x = 0 by linarith]
      rw [hz] at habs; linarith
    · have hρpos : 0 < ρ := lt_of_le_of_ne hρ0 (Ne.symm hz)
      -- p = center + (R/ρ)(c - center)
      refine ⟨⟨center.x + R / ρ * (c.x - center.x), center.y + R / ρ * (c.y - center.y),
        center.z + R / ρ * (c.z - center.z)⟩, ?_, ?_⟩
      · have hk : R / ρ * ρ = R := div_mul_cancel₀ R hz
        have e1 : (⟨center.x + R / ρ * (c.x - center.x), center.y + R / ρ * (c.y - center.y),
            center.z + R / ρ * (c.z - center.z)⟩ : V3 K).distSq center = (R / ρ) * (R / ρ) * c.distSq center := by
          simp only [V3.distSq]; ring
        rw [e1, ← hρ1]
        calc R / ρ * (R / ρ) * (ρ * ρ) = (R / ρ * ρ) * (R / ρ * ρ) := by ring
          _ = R * R := by rw [hk]
      · have e : (⟨center.x + R / ρ * (c.x - center.x), center.y + R / ρ * (c.y - center.y),
            center.z + R / ρ * (c.z - center.z)⟩ : V3 K).distSq c = (R / ρ - 1) * (R / ρ - 1) * c.distSq center := by
          simp only [V3.distSq]; ring
        rw [e, ← hρ1]
        have : (R / ρ - 1) * (R / ρ - 1) * (ρ * ρ) = (R - ρ) * (R - ρ) := by field_simp
        rw [this]; exact habs
  · rintro ⟨p, hp, hpc⟩
    -- reverse triangle inequality via Cauchy–Schwarz
    have hcs := cauchy3 (p.sub center) (c.sub center)
    have hpp : (p.sub center).dot (p.sub center) = R * R := by
      rw [← hp]; simp only [V3.dot, V3.sub, V3.distSq]
    have hcc : (c.sub center).dot (c.sub center) = ρ * ρ := by
      rw [hρ1]; simp only [V3.dot, V3.sub, V3.distSq]
    rw [hpp, hcc] at hcs
    have hdot : (p.sub center).dot (c.sub center) ≤ R * ρ := by
      by_contra hcon
      have hlt := not_le.1 hcon
      have h0 : 0 ≤ R * ρ := mul_nonneg hR hρ0
      nlinarith [mul_lt_mul'' hlt hlt h0 h0]
    have hexp : p.distSq c = R * R - 2 * (p.sub center).dot (c.sub center) + ρ * ρ := by
      rw [← hpp, ← hcc]; simp only [V3.dot, V3.sub, V3.distSq]; ring
    have hsq : (R - ρ) * (R - ρ) ≤ r * r := by nlinarith
    rw [abs_le]
    constructor
    · by_contra hcon
      have := not_le.1 hcon
      nlinarith
    · by_contra hcon
      have := not_le.1 hcon
      nlinarith

/-! ## the cone normal -/

/-- **The (repaired) `Cone.RayCollisions` normal is perpendicular to the cone's surface**: for a unit radial
direction `radial ⟂ axis` and `H = Tip - Base`, `|H| = h > 0`, the vector `radial·h + H·(R/h)` is orthogonal
to the generator from the base rim point to the tip and to the tangent of the base circle, and points away
from the axis. -/
theorem coneNormal_orthogonal (radial hv tang : V3 K) (h radius : K) (hh : 0 < h)
    (hunit : radial.dot radial = 1) (horth : radial.dot hv = 0) (hnorm : hv.dot hv = h * h)
    (ht1 : tang.dot radial = 0) (ht2 : tang.dot hv = 0) (hR : 0 ≤ radius) :
    (coneNormalDir radial hv h radius).dot (hv.sub (radial.scale radius)) = 0 ∧
    (coneNormalDir radial hv h radius).dot tang = 0 ∧
    0 < (coneNormalDir radial hv h radius).dot radial := by
  have hne : h ≠ 0 := ne_of_gt hh
  simp only [coneNormalDir, V3.dot, V3.add, V3.scale, V3.sub] at *
  refine ⟨?_, ?_, ?_⟩
  · field_simp
    linear_combination (-(radius * h * h)) * hunit + (h * h - radius * radius) * horth + radius * hnorm
  · field_simp
    linear_combination (h * h) * ht1 + radius * ht2
  · have : (radial.x * h + hv.x * (radius / h)) * radial.x + (radial.y * h + hv.y * (radius / h)) * radial.y +
        (radial.z * h + hv.z * (radius / h)) * radial.z = h := by
      field_simp
      linear_combination (h * h) * hunit + radius * horth
    rw [this]; exact hh

/-- The unrepaired formula `radial·R + H` is perpendicular to the generator only when `R = h`. -/
theorem coneNormal_old_wrong (radial hv : V3 K) (h radius : K)
    (hunit : radial.dot radial = 1) (horth : radial.dot hv = 0) (hnorm : hv.dot hv = h * h) :
    ((radial.scale radius).add hv).dot (hv.sub (radial.scale radius)) = h * h - radius * radius := by
  simp only [V3.dot, V3.add, V3.scale, V3.sub] at *
  linear_combination (-(radius * radius)) * hunit + hnorm

end M3d.Col
