import M3d.Lemmas.CollideTriTri
/-!
# C07 — segment queries: `Triangle.SegmentCollision`, 2-D `Segment.SegmentCollision`, and the mesh colliders'
`SegmentCollision` (bounds test through `rayCollisionWithBounds`)
-/
set_option linter.unusedSectionVars false
namespace M3d.Col

variable {K : Type} [Field K] [LinearOrder K] [IsStrictOrderedRing K]

/-- **`Triangle.SegmentCollision`** (`FirstRayCollision` along `s1 - s0` with `Scale ≤ 1`) is true iff the segment is
not rejected as near-parallel to the triangle's plane, the determinant is non-zero and the (unique) solution of
`s0 + t·(s1 - s0) = a + u(b-a) + v(c-a)` has `u, v ≥ 0`, `u + v ≤ 1`, `0 ≤ t ≤ 1`. -/
theorem triSegment_iff (sqrtF : K → K) (eps : K) (a b c s0 s1 : V3 K) :
    triSegment sqrtF eps a b c s0 s1 = true ↔
      ¬ triNearPar sqrtF eps a b c (s1.sub s0) ∧ triDet a b c (s1.sub s0) ≠ 0 ∧
        ∃ t u v, TriEq a b c s0 (s1.sub s0) t u v ∧ 0 ≤ u ∧ 0 ≤ v ∧ u + v ≤ 1 ∧ 0 ≤ t ∧ t ≤ 1 := by
  unfold triSegment triFirst
  cases hr : triRay sqrtF eps a b c s0 (s1.sub s0) with
  | none =>
    simp only [Bool.false_eq_true, false_iff, not_and, not_exists]
    intro hp hd t u v he hu hv huv _ _
    have := (triRay_iff sqrtF eps a b c s0 (s1.sub s0) ⟨u, v, t⟩).2 ⟨hp, hd, he, hu, hv, huv⟩
    rw [hr] at this; cases this
  | some s =>
    obtain ⟨hp, hd, he, hu, hv, huv⟩ := (triRay_iff sqrtF eps a b c s0 (s1.sub s0) s).1 hr
    simp only []
    by_cases h0 : 0 ≤ s.t
    · simp only [h0, if_true, decide_eq_true_eq]
      constructor
      · intro h1; exact ⟨hp, hd, s.t, s.u, s.v, he, hu, hv, huv, h0, h1⟩
      · rintro ⟨_, _, t, u, v, he', _, _, _, _, ht1⟩
        have := (tri_solution_unique a b c s0 (s1.sub s0) hd _ _ _ _ _ _ he he').1
        rw [this]; exact ht1
    · simp only [h0, if_false, Bool.false_eq_true, false_iff, not_and, not_exists]
      intro _ _ t u v he' _ _ _ ht0 _
      have := (tri_solution_unique a b c s0 (s1.sub s0) hd _ _ _ _ _ _ he he').1
      rw [this] at h0; exact h0 ht0

/-- the bounds test of `joinedMultiCollider.SegmentCollision` admits a segment that has a point (`0 ≤ t ≤ 1`) within
the bounds -/
theorem segAdmits_of_point (axes : List (Ax K)) (t : K) (h0 : 0 ≤ t) (h1 : t ≤ 1) (hin : ∀ a ∈ axes, AxIn a t) :
    segAdmits axes = true := by
  have hbox : ∀ a ∈ axes, a.lo ≤ a.hi := fun a ha => le_trans (hin a ha).1 (hin a ha).2
  have hw := (slabLoop_spec axes none none t h0 hbox).2 ⟨⟨by simp, by simp⟩, hin⟩
  obtain ⟨w1, w2⟩ := hw
  unfold segAdmits
  simp only []
  cases hmn : (slabLoop axes none none).1 with
  | none =>
    cases hmx : (slabLoop axes none none).2 with
    | none => simp
    | some mx =>
      have := w2 mx hmx
      simp only [Bool.false_or, Bool.or_false, Bool.not_eq_true', decide_eq_false_iff_not, not_lt]
      linarith
  | some mn =>
    have e1 := w1 mn hmn
    cases hmx : (slabLoop axes none none).2 with
    | none =>
      simp only [Bool.false_or, Bool.not_eq_true', decide_eq_false_iff_not, not_lt]
      linarith
    | some mx =>
      have e2 := w2 mx hmx
      simp only [Bool.not_eq_true', Bool.or_eq_false_iff, decide_eq_false_iff_not, not_lt]
      exact ⟨⟨by linarith, by linarith⟩, by linarith⟩

/-- the 3-D box/box bounds test passes iff the two closed boxes share a point -/
theorem rectOverlap3_iff (lo hi jlo jhi : V3 K) :
    rectOverlap3 lo hi jlo jhi = true ↔ ∃ x, InBox lo hi x ∧ InBox jlo jhi x := by
  simp only [rectOverlap3, V3.min, V3.max, Bool.and_eq_true, eqB_iff, minS_eq, maxS_eq, min_eq_left_iff]
  constructor
  · rintro ⟨⟨e1, e2⟩, e3⟩
    exact ⟨⟨max lo.x jlo.x, max lo.y jlo.y, max lo.z jlo.z⟩,
      ⟨⟨le_max_left _ _, le_trans e1 (min_le_left _ _)⟩, ⟨le_max_left _ _, le_trans e2 (min_le_left _ _)⟩,
        le_max_left _ _, le_trans e3 (min_le_left _ _)⟩,
      ⟨⟨le_max_right _ _, le_trans e1 (min_le_right _ _)⟩, ⟨le_max_right _ _, le_trans e2 (min_le_right _ _)⟩,
        le_max_right _ _, le_trans e3 (min_le_right _ _)⟩⟩
  · rintro ⟨x, ⟨⟨a1, a2⟩, ⟨a3, a4⟩, a5, a6⟩, ⟨b1, b2⟩, ⟨b3, b4⟩, b5, b6⟩
    exact ⟨⟨le_trans (max_le a1 b1) (le_min a2 b2), le_trans (max_le a3 b3) (le_min a4 b4)⟩,
      le_trans (max_le a5 b5) (le_min a6 b6)⟩

variable {L : Type}

/-- **A Boolean query over a hierarchy is the disjunction over its leaves**, provided no bounds test rejects a node
that holds a leaf answering true. -/
theorem treeAny_iff (gate : BTree L → Bool) (leafQ : L → Bool) (t : BTree L)
    (hadm : ∀ n : BTree L, (∀ l ∈ n.leaves, l ∈ t.leaves) → ∀ l ∈ n.leaves, leafQ l = true → gate n = true) :
    treeAny gate leafQ t = true ↔ ∃ l ∈ t.leaves, leafQ l = true := by
  induction t with
  | leaf l => simp [treeAny, BTree.leaves]
  | node a b iha ihb =>
    have ha : ∀ l ∈ a.leaves, l ∈ (BTree.node a b).leaves := fun l hl => by simp [BTree.leaves, hl]
    have hb : ∀ l ∈ b.leaves, l ∈ (BTree.node a b).leaves := fun l hl => by simp [BTree.leaves, hl]
    simp only [treeAny, Bool.and_eq_true, Bool.or_eq_true,
      iha (fun n hn => hadm n (fun l hl => ha l (hn l hl))),
      ihb (fun n hn => hadm n (fun l hl => hb l (hn l hl))), BTree.leaves, List.mem_append]
    constructor
    · rintro ⟨_, ⟨l, hl, h⟩ | ⟨l, hl, h⟩⟩
      · exact ⟨l, Or.inl hl, h⟩
      · exact ⟨l, Or.inr hl, h⟩
    · rintro ⟨l, hl, h⟩
      have hl' : l ∈ (BTree.node a b).leaves := by simpa [BTree.leaves] using hl
      refine ⟨hadm _ (fun _ h => h) l hl' h, ?_⟩
      rcases hl with hl | hl
      · exact Or.inl ⟨l, hl, h⟩
      · exact Or.inr ⟨l, hl, h⟩

theorem axes2_in (lo hi o d : V2 K) (t : K) :
    (∀ a ∈ axes2 o d lo hi, AxIn a t) ↔ InRect2 lo hi (o.along d t) := by
  simp only [axes2, List.mem_cons, List.not_mem_nil, or_false, forall_eq_or_imp, forall_eq, AxIn, InRect2,
    V2.along, V2.add, V2.scale]
  constructor
  · rintro ⟨⟨h1, h2⟩, h3, h4⟩; exact ⟨h1, h2, h3, h4⟩
  · rintro ⟨h1, h2, h3, h4⟩; exact ⟨⟨h1, h2⟩, h3, h4⟩

end M3d.Col
