import M3d.Model.ParamExt
import M3d.Lemmas.ParamHist
import Mathlib.Algebra.Order.Field.Basic
import Mathlib.Tactic.Linarith
import Mathlib.Tactic.Ring
import Mathlib.Tactic.FieldSimp
import Mathlib.Tactic.Positivity
import Mathlib.Tactic.LinearCombination
/-!
# Lemmas about the model of `ExtendBoundaryUVs` (`M3d/Model/ParamExt.lean`)

`math.Sqrt` is the uninterpreted `HasSqrt.sqrt` with the hypothesis `SqrtSpec`: on non-negative arguments it
is the non-negative square root.
-/
namespace M3d.Param
open M3d.Surface M3d.GenPrelude

set_option linter.unusedSectionVars false

variable {K : Type} [Field K] [LinearOrder K] [IsStrictOrderedRing K] [HasSqrt K]

/-- What the theorems assume of `math.Sqrt`. -/
def SqrtSpec (K : Type) [Field K] [LinearOrder K] [HasSqrt K] : Prop :=
  ∀ x : K, 0 ≤ x → HasSqrt.sqrt x * HasSqrt.sqrt x = x ∧ 0 ≤ HasSqrt.sqrt x

theorem sqrt_unique (hs : SqrtSpec K) (x r : K) (hr : 0 ≤ r) (hx : r * r = x) : HasSqrt.sqrt x = r := by
  have hx0 : 0 ≤ x := by rw [← hx]; exact mul_self_nonneg r
  obtain ⟨h1, h2⟩ := hs x hx0
  have h3 : HasSqrt.sqrt x * HasSqrt.sqrt x = r * r := by rw [h1, hx]
  rcases mul_self_eq_mul_self_iff.1 h3 with h | h
  · exact h
  · have : HasSqrt.sqrt x = 0 := by linarith
    have : r = 0 := by linarith
    linarith

theorem sqrt_pos_of_pos (hs : SqrtSpec K) (x : K) (hx : 0 < x) : 0 < HasSqrt.sqrt x := by
  obtain ⟨h1, h2⟩ := hs x (le_of_lt hx)
  rcases lt_or_eq_of_le h2 with h | h
  · exact h
  · rw [← h] at h1; simp at h1; linarith

/-- The arithmetic core of `ProjectOut` + `Normalize`: with `E = |e|`, `o = cross(e, u)`, `s = ±1` the sign of `o`. -/
theorem pushDir_core (hs : SqrtSpec K) (E ex ey ux uy sg : K) (hEpos : 0 < E) (hE2 : E * E = ex * ex + ey * ey)
    (hsg : sg * sg = 1) (hso : 0 < sg * (ex * uy - ey * ux)) :
    let wx := ux - ex * (1 / E) * (ex * (1 / E) * ux + ey * (1 / E) * uy)
    let wy := uy - ey * (1 / E) * (ex * (1 / E) * ux + ey * (1 / E) * uy)
    wx * (1 / HasSqrt.sqrt (wx * wx + wy * wy)) = sg * (-ey / E) ∧
    wy * (1 / HasSqrt.sqrt (wx * wx + wy * wy)) = sg * (ex / E) := by
  intro wx wy
  have hne : E ≠ 0 := ne_of_gt hEpos
  have hwx : wx = -ey * (ex * uy - ey * ux) / (E * E) := by
    simp only [wx]
    field_simp
    linear_combination ux * hE2
  have hwy : wy = ex * (ex * uy - ey * ux) / (E * E) := by
    simp only [wy]
    field_simp
    linear_combination uy * hE2
  generalize ex * uy - ey * ux = o at hso hwx hwy
  have hn : HasSqrt.sqrt (wx * wx + wy * wy) = sg * o / E := by
    apply sqrt_unique hs _ _ (le_of_lt (div_pos hso hEpos))
    rw [hwx, hwy]
    have h1 : -ey * o / (E * E) * (-ey * o / (E * E)) + ex * o / (E * E) * (ex * o / (E * E)) =
        (ex * ex + ey * ey) * (o * o) / ((E * E) * (E * E)) := by ring
    rw [h1, ← hE2]
    field_simp
    linear_combination (o ^ 2) * hsg
  have hone : sg * o ≠ 0 := ne_of_gt hso
  have ho : o ≠ 0 := fun h => hone (by rw [h, mul_zero])
  have hsg0 : sg ≠ 0 := fun h => hone (by rw [h, zero_mul])
  rw [hn, hwx, hwy]
  constructor
  · field_simp
    linear_combination ey * hsg
  · field_simp
    linear_combination (-ex) * hsg

/-- The explicit position of the pushed apex: with `e = uv2 − uv0`, `L = |e|` and `o = originCross`, the
direction `uv1.ProjectOut(e).Normalize()` is the unit normal `(−e.y, e.x)/L` for `o > 0` and its opposite for
`o < 0` (`sg` is the sign of `o`). -/
theorem pushOut_eq (hs : SqrtSpec K) (uv0 uv1 uv2 : V2 K) (extra sg : K)
    (he : 0 < dot2 (uv2.sub uv0) (uv2.sub uv0)) (hsg : sg * sg = 1) (ho : 0 < sg * originCross uv0 uv1 uv2) :
    pushOut uv0 uv1 uv2 extra =
      ⟨uv1.x + sg * (-(uv2.y - uv0.y) / norm2 (uv2.sub uv0)) * extra,
       uv1.y + sg * ((uv2.x - uv0.x) / norm2 (uv2.sub uv0)) * extra⟩ := by
  obtain ⟨ax, ay⟩ := uv0
  obtain ⟨ux, uy⟩ := uv1
  obtain ⟨cx, cy⟩ := uv2
  simp only [dot2, V2.sub, originCross] at he ho
  have hE2 := (hs _ (le_of_lt he)).1
  have hEpos := sqrt_pos_of_pos hs _ he
  obtain ⟨h1, h2⟩ := pushDir_core hs _ (cx - ax) (cy - ay) ux uy sg hEpos hE2 hsg ho
  simp only [pushOut, normalize2, projectOut2, norm2, V2.add, V2.scale, V2.sub, dot2]
  rw [h1, h2]

/-- Cross product with the opposite edge, foot on the opposite edge and displacement of the pushed apex. -/
theorem pushOut_spec (hs : SqrtSpec K) (uv0 uv1 uv2 : V2 K) (extra sg : K)
    (he : 0 < dot2 (uv2.sub uv0) (uv2.sub uv0)) (hsg : sg * sg = 1) (ho : 0 < sg * originCross uv0 uv1 uv2) :
    earCross uv0 (pushOut uv0 uv1 uv2 extra) uv2 = earCross uv0 uv1 uv2 + sg * extra * norm2 (uv2.sub uv0) ∧
    dot2 (uv2.sub uv0) ((pushOut uv0 uv1 uv2 extra).sub uv0) = dot2 (uv2.sub uv0) (uv1.sub uv0) ∧
    dist2 (pushOut uv0 uv1 uv2 extra) uv1 = extra * extra := by
  rw [pushOut_eq hs uv0 uv1 uv2 extra sg he hsg ho]
  obtain ⟨ax, ay⟩ := uv0
  obtain ⟨ux, uy⟩ := uv1
  obtain ⟨cx, cy⟩ := uv2
  simp only [dot2, V2.sub] at he
  have hE2 := (hs _ (le_of_lt he)).1
  have hEpos := sqrt_pos_of_pos hs _ he
  simp only [earCross, dot2, dist2, V2.sub, norm2]
  generalize HasSqrt.sqrt ((cx - ax) * (cx - ax) + (cy - ay) * (cy - ay)) = E at hE2 hEpos
  have hne : E ≠ 0 := ne_of_gt hEpos
  refine ⟨?_, ?_, ?_⟩
  · field_simp
    linear_combination (-(sg * extra)) * hE2
  · field_simp
    ring
  · field_simp
    linear_combination (-(extra ^ 2 * sg ^ 2)) * hE2 + (extra ^ 2 * E ^ 2) * hsg

/-- **The pushed apex moves straight away from the opposite edge**, by exactly `extra`: if the ear apex `uv1`
lies on the same side of the line through the ORIGIN parallel to the opposite edge as it lies of the opposite
edge itself (`earCross` and `originCross` of the same sign), then for `extra ≥ 0` the ear keeps its strict
orientation, its height over the opposite edge grows by `extra` (twice the area by `extra · |uv2 − uv0|`), the
foot on the opposite edge does not move, and the apex moves by exactly `extra`. -/
theorem pushOut_away (hs : SqrtSpec K) (uv0 uv1 uv2 : V2 K) (extra : K) (h0 : 0 ≤ extra)
    (he : 0 < dot2 (uv2.sub uv0) (uv2.sub uv0))
    (hside : 0 < earCross uv0 uv1 uv2 * originCross uv0 uv1 uv2) :
    0 < earCross uv0 uv1 uv2 * earCross uv0 (pushOut uv0 uv1 uv2 extra) uv2 ∧
    |earCross uv0 (pushOut uv0 uv1 uv2 extra) uv2| = |earCross uv0 uv1 uv2| + extra * norm2 (uv2.sub uv0) ∧
    dot2 (uv2.sub uv0) ((pushOut uv0 uv1 uv2 extra).sub uv0) = dot2 (uv2.sub uv0) (uv1.sub uv0) ∧
    dist2 (pushOut uv0 uv1 uv2 extra) uv1 = extra * extra := by
  have hLpos : 0 < norm2 (uv2.sub uv0) := by
    unfold norm2; exact sqrt_pos_of_pos hs _ (by simpa [dot2] using he)
  have hadd : 0 ≤ extra * norm2 (uv2.sub uv0) := mul_nonneg h0 (le_of_lt hLpos)
  rcases lt_trichotomy (earCross uv0 uv1 uv2) 0 with hneg | hz | hpos
  · have ho : originCross uv0 uv1 uv2 < 0 := by
      by_contra hc
      have := mul_nonpos_of_nonpos_of_nonneg (le_of_lt hneg) (not_lt.1 hc)
      linarith
    obtain ⟨a1, a2, a3⟩ := pushOut_spec hs uv0 uv1 uv2 extra (-1) he (by ring) (by linarith)
    refine ⟨?_, ?_, a2, a3⟩
    · rw [a1]; nlinarith
    · rw [a1, abs_of_neg hneg, abs_of_neg (by nlinarith)]; ring
  · rw [hz, zero_mul] at hside; exact absurd hside (lt_irrefl _)
  · have ho : 0 < originCross uv0 uv1 uv2 := by
      by_contra hc
      have := mul_nonpos_of_nonneg_of_nonpos (le_of_lt hpos) (not_lt.1 hc)
      linarith
    obtain ⟨a1, a2, a3⟩ := pushOut_spec hs uv0 uv1 uv2 extra 1 he (by ring) (by linarith)
    refine ⟨?_, ?_, a2, a3⟩
    · rw [a1]; nlinarith
    · rw [a1, abs_of_pos hpos, abs_of_pos (by nlinarith)]; ring

omit [HasSqrt K] in
/-- **Where the origin has to be.**  With the turn `t = cross(uv1 − uv0, uv2 − uv1)` of the boundary polygon
at the apex and the positions `s0 = cross(uv1 − uv0, O − uv0)`, `s2 = cross(uv2 − uv1, O − uv1)` of the origin
`O` relative to the two boundary edges at the apex: `earCross · originCross = t · (s0 + s2)`.  So the side
condition of `pushOut_away` holds whenever the origin is on the inner side of (or on) both boundary edges at
the apex and not on both lines — in particular for every vertex of a convex boundary polygon that has the origin
in its interior, whether the polygon runs counter-clockwise (`t > 0`) or clockwise (`t < 0`). -/
theorem earCross_mul_originCross (uv0 uv1 uv2 : V2 K) :
    earCross uv0 uv1 uv2 * originCross uv0 uv1 uv2 =
      ((uv1.x - uv0.x) * (uv2.y - uv1.y) - (uv1.y - uv0.y) * (uv2.x - uv1.x)) *
      (((uv1.x - uv0.x) * (0 - uv0.y) - (uv1.y - uv0.y) * (0 - uv0.x)) +
       ((uv2.x - uv1.x) * (0 - uv1.y) - (uv2.y - uv1.y) * (0 - uv1.x))) := by
  simp only [earCross, originCross]
  ring

/-- The amount: `0 < extraDist ≤ maxDist` when the ear is flatter in UV than in 3-D. -/
theorem extraDist_bounds (uv0 uv2 : V2 K) (r3 r2 maxDist : K) (hmd : 0 < maxDist) (hr : r2 < r3)
    (hL : 0 < segLen2 uv0 uv2) :
    0 < extraDist uv0 uv2 r3 r2 maxDist ∧ extraDist uv0 uv2 r3 r2 maxDist ≤ maxDist := by
  have hp : 0 < (r3 - r2) * segLen2 uv0 uv2 := mul_pos (by linarith) hL
  unfold extraDist mn
  split
  · rename_i h; exact ⟨hp, le_of_lt h⟩
  · exact ⟨hmd, le_refl _⟩

/-- `extendEar` stores a value only for an ear that is flatter in UV than in 3-D, and then it is `pushOut` by `extraDist`. -/
theorem extendEar_some (p0 p1 p2 : V3 K) (uv0 uv1 uv2 : V2 K) (maxDist : K) (q : V2 K)
    (h : extendEar p0 p1 p2 uv0 uv1 uv2 maxDist = some q) :
    ratio2 uv0 uv1 uv2 < ratio3 p0 p1 p2 ∧
    q = pushOut uv0 uv1 uv2 (extraDist uv0 uv2 (ratio3 p0 p1 p2) (ratio2 uv0 uv1 uv2) maxDist) := by
  unfold extendEar at h
  simp only at h
  split at h
  · exact absurd h (by simp)
  · rename_i hle
    exact ⟨not_le.1 hle, by simpa using h.symm⟩

/-! ### The loop: only ear apexes are written -/

omit [IsStrictOrderedRing K] in
theorem extendStep_load (ts : List Tri) (pos : Nat → V3 K) (seq : List Nat) (maxDist : K) (param : AMap (V2 K))
    (i v : Nat) (hv : isEarTri ts (earTriple seq i).1 (earTriple seq i).2.1 (earTriple seq i).2.2 = true → v ≠ (earTriple seq i).2.1) :
    (extendStep ts pos seq maxDist param i).load v = param.load v := by
  unfold extendStep
  generalize earTriple seq i = tr at hv
  obtain ⟨a, b, c⟩ := tr
  simp only
  split
  · rename_i hear
    split
    · exact AMap.load_store_ne _ _ _ _ (hv hear)
    · rfl
  · rfl

omit [IsStrictOrderedRing K] in
/-- `ExtendBoundaryUVs` writes no entry of `param` other than the ear apexes of the boundary cycle. -/
theorem extendBoundary_frame (ts : List Tri) (pos : Nat → V3 K) (seq : List Nat) (maxDist : K) (param : AMap (V2 K))
    (v : Nat) (hv : v ∉ earApexes ts seq) :
    (extendBoundary ts pos seq maxDist param).load v = param.load v := by
  unfold extendBoundary
  have key : ∀ (l : List Nat) (m : AMap (V2 K)), (∀ i ∈ l, i ∈ List.range seq.length) →
      (l.foldl (extendStep ts pos seq maxDist) m).load v = m.load v := by
    intro l
    induction l with
    | nil => intro m _; rfl
    | cons i r ih =>
      intro m hl
      rw [List.foldl_cons, ih _ (fun j hj => hl j (List.mem_cons_of_mem _ hj))]
      apply extendStep_load
      intro hear heq
      apply hv
      unfold earApexes
      rw [List.mem_map]
      refine ⟨i, List.mem_filter.2 ⟨hl i List.mem_cons_self, ?_⟩, heq.symm⟩
      simpa using hear
  exact key _ param (fun i hi => hi)

/-! ### `ExtendBoundaryUVs` commutes with every linear isometry of the UV plane

Rotations about the origin and reflections in lines through the origin: the matrix `(a b; c d)` with orthonormal
columns.  Everything the function computes from the UV side is made of dot products, which such a map
preserves; the pushed point is a linear combination of `uv1` and `uv2 − uv0`.  No property of `sqrt` is used. -/

/-- the matrix `(a b; c d)` has orthonormal columns -/
structure Ortho (a b c d : K) : Prop where
  c1 : a * a + c * c = 1
  c2 : b * b + d * d = 1
  c12 : a * b + c * d = 0

section Iso
variable {a b c d : K} (hO : Ortho a b c d)
include hO

theorem dot2_lin (u v : V2 K) : dot2 (V2.lin a b c d u) (V2.lin a b c d v) = dot2 u v := by
  simp only [dot2, V2.lin]
  linear_combination (u.x * v.x) * hO.c1 + (u.y * v.y) * hO.c2 + (u.x * v.y + u.y * v.x) * hO.c12

omit hO in
theorem lin_sub (u v : V2 K) : (V2.lin a b c d u).sub (V2.lin a b c d v) = V2.lin a b c d (u.sub v) := by
  simp only [V2.lin, V2.sub, V2.mk.injEq]; constructor <;> ring

omit hO in
theorem lin_add (u v : V2 K) : (V2.lin a b c d u).add (V2.lin a b c d v) = V2.lin a b c d (u.add v) := by
  simp only [V2.lin, V2.add, V2.mk.injEq]; constructor <;> ring

omit hO in
theorem lin_scale (u : V2 K) (s : K) : (V2.lin a b c d u).scale s = V2.lin a b c d (u.scale s) := by
  simp only [V2.lin, V2.scale, V2.mk.injEq]; constructor <;> ring

theorem norm2_lin (u : V2 K) : norm2 (V2.lin a b c d u) = norm2 u := by
  show HasSqrt.sqrt (dot2 (V2.lin a b c d u) (V2.lin a b c d u)) = HasSqrt.sqrt (dot2 u u)
  rw [dot2_lin hO]

theorem distE2_lin (u v : V2 K) : distE2 (V2.lin a b c d u) (V2.lin a b c d v) = distE2 u v := by
  show norm2 ((V2.lin a b c d u).sub (V2.lin a b c d v)) = norm2 (u.sub v)
  rw [lin_sub, norm2_lin hO]

theorem normalize2_lin (u : V2 K) : normalize2 (V2.lin a b c d u) = V2.lin a b c d (normalize2 u) := by
  unfold normalize2; rw [norm2_lin hO, lin_scale]

theorem projectOut2_lin (u v : V2 K) :
    projectOut2 (V2.lin a b c d u) (V2.lin a b c d v) = V2.lin a b c d (projectOut2 u v) := by
  unfold projectOut2
  simp only [normalize2_lin hO, dot2_lin hO, lin_scale, lin_sub]

theorem segClosest2_lin (e0 e1 u : V2 K) :
    segClosest2 (V2.lin a b c d e0) (V2.lin a b c d e1) (V2.lin a b c d u) = V2.lin a b c d (segClosest2 e0 e1 u) := by
  unfold segClosest2
  simp only [lin_sub, norm2_lin hO, lin_scale, dot2_lin hO, lin_add]
  split_ifs <;> rfl

theorem ratio2_lin (uv0 uv1 uv2 : V2 K) :
    ratio2 (V2.lin a b c d uv0) (V2.lin a b c d uv1) (V2.lin a b c d uv2) = ratio2 uv0 uv1 uv2 := by
  unfold ratio2 segDist2 segLen2
  rw [segClosest2_lin hO, distE2_lin hO, lin_sub, norm2_lin hO]

theorem pushOut_lin (uv0 uv1 uv2 : V2 K) (extra : K) :
    pushOut (V2.lin a b c d uv0) (V2.lin a b c d uv1) (V2.lin a b c d uv2) extra =
      V2.lin a b c d (pushOut uv0 uv1 uv2 extra) := by
  unfold pushOut
  rw [lin_sub, projectOut2_lin hO, normalize2_lin hO, lin_scale, lin_add]

/-- One ear: the value stored for the transformed map is the transform of the value stored for the map. -/
theorem extendEar_lin (p0 p1 p2 : V3 K) (uv0 uv1 uv2 : V2 K) (maxDist : K) :
    extendEar p0 p1 p2 (V2.lin a b c d uv0) (V2.lin a b c d uv1) (V2.lin a b c d uv2) maxDist =
      (extendEar p0 p1 p2 uv0 uv1 uv2 maxDist).map (V2.lin a b c d) := by
  unfold extendEar
  simp only [ratio2_lin hO, pushOut_lin hO]
  have hx : extraDist (V2.lin a b c d uv0) (V2.lin a b c d uv2) (ratio3 p0 p1 p2) (ratio2 uv0 uv1 uv2) maxDist =
      extraDist uv0 uv2 (ratio3 p0 p1 p2) (ratio2 uv0 uv1 uv2) maxDist := by
    unfold extraDist segLen2
    rw [lin_sub, norm2_lin hO]
  rw [hx]
  split_ifs <;> rfl

/-- a `CoordMap` with every value transformed -/
def AMap.mapVals {β γ : Type} (f : β → γ) (m : AMap β) : AMap γ := m.map fun kv => (kv.1, f kv.2)

omit hO in
theorem AMap.load_mapVals {β γ : Type} (f : β → γ) : ∀ (m : AMap β) (k : Nat),
    (AMap.mapVals f m).load k = (m.load k).map f
  | [], _ => rfl
  | (k', v) :: r, k => by
    simp only [AMap.mapVals, List.map_cons, AMap.load]
    split
    · rfl
    · exact AMap.load_mapVals f r k

omit hO in
theorem AMap.store_mapVals {β γ : Type} (f : β → γ) : ∀ (m : AMap β) (k : Nat) (v : β),
    AMap.mapVals f (m.store k v) = (AMap.mapVals f m).store k (f v)
  | [], _, _ => rfl
  | (k', v') :: r, k, v => by
    simp only [AMap.mapVals, List.map_cons, AMap.store]
    split
    · rfl
    · simp only [List.map_cons, List.cons.injEq, true_and]
      exact AMap.store_mapVals f r k v

omit hO in
theorem AMap.value_mapVals (m : AMap (V2 K)) (k : Nat) :
    AMap.value (AMap.mapVals (V2.lin a b c d) m) k = V2.lin a b c d (AMap.value m k) := by
  unfold AMap.value
  rw [AMap.load_mapVals]
  cases m.load k with
  | none => simp [V2.lin]
  | some v => rfl

theorem extendStep_lin (ts : List Tri) (pos : Nat → V3 K) (seq : List Nat) (maxDist : K) (param : AMap (V2 K)) (i : Nat) :
    extendStep ts pos seq maxDist (AMap.mapVals (V2.lin a b c d) param) i =
      AMap.mapVals (V2.lin a b c d) (extendStep ts pos seq maxDist param i) := by
  unfold extendStep
  generalize earTriple seq i = tr
  obtain ⟨x, y, z⟩ := tr
  simp only [AMap.value_mapVals, extendEar_lin hO]
  split
  · cases extendEar (pos x) (pos y) (pos z) (AMap.value param x) (AMap.value param y) (AMap.value param z) maxDist with
    | none => rfl
    | some q => simp only [Option.map_some, AMap.store_mapVals]
  · rfl

/-- The whole loop: extending the transformed map gives the transform of the extended map. -/
theorem extendBoundary_lin (ts : List Tri) (pos : Nat → V3 K) (seq : List Nat) (maxDist : K) (param : AMap (V2 K)) :
    extendBoundary ts pos seq maxDist (AMap.mapVals (V2.lin a b c d) param) =
      AMap.mapVals (V2.lin a b c d) (extendBoundary ts pos seq maxDist param) := by
  unfold extendBoundary
  generalize List.range seq.length = l
  induction l generalizing param with
  | nil => rfl
  | cons i r ih => rw [List.foldl_cons, List.foldl_cons, extendStep_lin hO, ih]

end Iso

end M3d.Param
