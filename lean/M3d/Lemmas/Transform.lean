import M3d.Model.Transform
import Mathlib.Tactic.Ring
import Mathlib.Tactic.FieldSimp
import Mathlib.Tactic.LinearCombination
import Mathlib.Tactic.Linarith
import Mathlib.Tactic.Positivity
import Mathlib.Algebra.Order.Field.Basic
/-!
Helper lemmas for C05 (`M3d/Props/C05.lean`): the models of `M3d/Model/Transform.lean` instantiated at an
arbitrary linear ordered field `K`.
-/
namespace M3d.Tf

set_option linter.unusedSectionVars false

section Field
variable {K : Type} [Field K]

/-! ### matrices -/

theorem M3.inverse_mul (m : M3 K) (h : m.det ≠ 0) : m.inverse.mul m = M3.one := by
  have hi : m.det * (1 / m.det) = 1 := mul_one_div_cancel h
  unfold M3.inverse
  generalize 1 / m.det = i at hi ⊢
  ext <;> simp only [M3.mul, M3.scale, M3.adj, M3.det, M3.one] at hi ⊢ <;>
    first | ring1 | linear_combination hi

theorem M3.mul_inverse (m : M3 K) (h : m.det ≠ 0) : m.mul m.inverse = M3.one := by
  have hi : m.det * (1 / m.det) = 1 := mul_one_div_cancel h
  unfold M3.inverse
  generalize 1 / m.det = i at hi ⊢
  ext <;> simp only [M3.mul, M3.scale, M3.adj, M3.det, M3.one] at hi ⊢ <;>
    first | ring1 | linear_combination hi

theorem M2.inverse_mul (m : M2 K) (h : m.det ≠ 0) : m.inverse.mul m = M2.one := by
  have hi : m.det * (1 / m.det) = 1 := mul_one_div_cancel h
  unfold M2.inverse
  generalize 1 / m.det = i at hi ⊢
  ext <;> simp only [M2.mul, M2.scale, M2.adj, M2.det, M2.one] at hi ⊢ <;>
    first | ring1 | linear_combination hi

theorem M2.mul_inverse (m : M2 K) (h : m.det ≠ 0) : m.mul m.inverse = M2.one := by
  have hi : m.det * (1 / m.det) = 1 := mul_one_div_cancel h
  unfold M2.inverse
  generalize 1 / m.det = i at hi ⊢
  ext <;> simp only [M2.mul, M2.scale, M2.adj, M2.det, M2.one] at hi ⊢ <;>
    first | ring1 | linear_combination hi

theorem M3.inverse_mulColumn (m : M3 K) (h : m.det ≠ 0) (c : V3 K) :
    m.inverse.mulColumn (m.mulColumn c) = c := by
  have hi : m.det * (1 / m.det) = 1 := mul_one_div_cancel h
  unfold M3.inverse
  generalize 1 / m.det = i at hi ⊢
  ext <;> simp only [M3.mulColumn, M3.scale, M3.adj, M3.det] at hi ⊢
  · linear_combination c.x * hi
  · linear_combination c.y * hi
  · linear_combination c.z * hi

theorem M3.mulColumn_inverse (m : M3 K) (h : m.det ≠ 0) (c : V3 K) :
    m.mulColumn (m.inverse.mulColumn c) = c := by
  have hi : m.det * (1 / m.det) = 1 := mul_one_div_cancel h
  unfold M3.inverse
  generalize 1 / m.det = i at hi ⊢
  ext <;> simp only [M3.mulColumn, M3.scale, M3.adj, M3.det] at hi ⊢
  · linear_combination c.x * hi
  · linear_combination c.y * hi
  · linear_combination c.z * hi

/-- `MulColumnInv(c, det)` is multiplication by `Inverse()`. -/
theorem M3.mulColumnInv_eq (m : M3 K) (c : V3 K) : m.mulColumnInv c m.det = m.inverse.mulColumn c := by
  ext <;> simp only [M3.mulColumnInv, M3.inverse, M3.mulColumn, M3.scale, M3.adj, V3.scale] <;> ring

theorem M2.mulColumnInv_eq (m : M2 K) (c : V2 K) : m.mulColumnInv c m.det = m.inverse.mulColumn c := by
  ext <;> simp only [M2.mulColumnInv, M2.inverse, M2.mulColumn, M2.scale, M2.adj] <;> ring

/-- `det (mᵀ m) = (det m)²`. -/
theorem M3.det_transpose_mul (m : M3 K) : (m.transpose.mul m).det = m.det * m.det := by
  simp only [M3.det, M3.mul, M3.transpose]; ring

theorem M3.det_ne_zero_of_ortho (m : M3 K) (h : m.transpose.mul m = M3.one) : m.det ≠ 0 := by
  have h1 := M3.det_transpose_mul m
  rw [h] at h1
  have h2 : (M3.one : M3 K).det = 1 := by simp [M3.det, M3.one]
  rw [h2] at h1
  intro h0
  rw [h0] at h1
  simp at h1

/-! ### matrix algebra used for rotations -/

theorem M3.mul_assoc (a b c : M3 K) : (a.mul b).mul c = a.mul (b.mul c) := by
  ext <;> simp only [M3.mul] <;> ring

theorem M3.one_mul (a : M3 K) : M3.one.mul a = a := by
  ext <;> simp only [M3.mul, M3.one] <;> ring

theorem M3.mul_one (a : M3 K) : a.mul M3.one = a := by
  ext <;> simp only [M3.mul, M3.one] <;> ring

theorem M3.transpose_mul (a b : M3 K) : (a.mul b).transpose = b.transpose.mul a.transpose := by
  ext <;> simp only [M3.mul, M3.transpose] <;> ring

theorem M3.transpose_transpose (a : M3 K) : a.transpose.transpose = a := rfl

theorem M3.det_mul (a b : M3 K) : (a.mul b).det = a.det * b.det := by
  simp only [M3.det, M3.mul]; ring

theorem M3.det_transpose (a : M3 K) : a.transpose.det = a.det := by
  simp only [M3.det, M3.transpose]; ring

theorem M3.det_one : (M3.one : M3 K).det = 1 := by simp [M3.det, M3.one]

/-- A left-orthogonal square matrix is right-orthogonal. -/
theorem M3.mul_transpose_of_ortho (b : M3 K) (h : b.transpose.mul b = M3.one) : b.mul b.transpose = M3.one := by
  have hd := M3.det_ne_zero_of_ortho b h
  have e : b.transpose = b.inverse := by
    calc b.transpose = b.transpose.mul M3.one := (M3.mul_one _).symm
      _ = b.transpose.mul (b.mul b.inverse) := by rw [M3.mul_inverse b hd]
      _ = (b.transpose.mul b).mul b.inverse := (M3.mul_assoc _ _ _).symm
      _ = b.inverse := by rw [h, M3.one_mul]
  rw [e]
  exact M3.mul_inverse b hd

theorem rotX_ortho (c s : K) (h : c * c + s * s = 1) :
    (rotX c s).transpose.mul (rotX c s) = M3.one ∧ (rotX c s).det = 1 := by
  constructor
  · ext <;> simp only [M3.mul, M3.transpose, rotX, M3.one] <;> first | ring1 | linear_combination h
  · simp only [M3.det, rotX]; linear_combination h

/-- `B·X·Bᵀ` is orthogonal with determinant 1 when `B` is orthogonal and `X` is a rotation about the first axis. -/
theorem conj_ortho (b x : M3 K) (hb : b.transpose.mul b = M3.one) (hx : x.transpose.mul x = M3.one) (hdx : x.det = 1) :
    ((b.mul x).mul b.transpose).transpose.mul ((b.mul x).mul b.transpose) = M3.one ∧
      ((b.mul x).mul b.transpose).det = 1 := by
  have hb' := M3.mul_transpose_of_ortho b hb
  constructor
  · rw [M3.transpose_mul, M3.transpose_mul, M3.transpose_transpose]
    calc (b.mul (x.transpose.mul b.transpose)).mul ((b.mul x).mul b.transpose)
        = b.mul (x.transpose.mul ((b.transpose.mul b).mul (x.mul b.transpose))) := by
          simp only [M3.mul_assoc]
      _ = b.mul ((x.transpose.mul x).mul b.transpose) := by rw [hb, M3.one_mul, M3.mul_assoc]
      _ = M3.one := by rw [hx, M3.one_mul, hb']
  · rw [M3.det_mul, M3.det_mul, M3.det_transpose, hdx]
    have h1 := M3.det_transpose_mul b
    rw [hb, M3.det_one] at h1
    linear_combination -h1

theorem ofColumns_ortho (a b1 b2 : V3 K) (haa : a.dot a = 1) (h11 : b1.dot b1 = 1) (h22 : b2.dot b2 = 1)
    (ha1 : a.dot b1 = 0) (ha2 : a.dot b2 = 0) (h12 : b1.dot b2 = 0) :
    (M3.ofColumns a b1 b2).transpose.mul (M3.ofColumns a b1 b2) = M3.one := by
  simp only [V3.dot] at *
  ext <;> simp only [M3.mul, M3.transpose, M3.ofColumns, M3.one]
  · linear_combination haa
  · linear_combination ha1
  · linear_combination ha2
  · linear_combination ha1
  · linear_combination h11
  · linear_combination h12
  · linear_combination ha2
  · linear_combination h12
  · linear_combination h22

/-- `NewMatrix3Rotation` in any orthonormal basis `(axis, b1, b2)` with `c² + s² = 1` is orthogonal, `det = 1`,
and fixes the axis. -/
theorem rotationIn_ortho (a b1 b2 : V3 K) (c s : K) (haa : a.dot a = 1) (h11 : b1.dot b1 = 1) (h22 : b2.dot b2 = 1)
    (ha1 : a.dot b1 = 0) (ha2 : a.dot b2 = 0) (h12 : b1.dot b2 = 0) (hcs : c * c + s * s = 1) :
    (rotationIn a b1 b2 c s).transpose.mul (rotationIn a b1 b2 c s) = M3.one ∧ (rotationIn a b1 b2 c s).det = 1 ∧
      (rotationIn a b1 b2 c s).mulColumn a = a := by
  have hb := ofColumns_ortho a b1 b2 haa h11 h22 ha1 ha2 h12
  obtain ⟨hx, hdx⟩ := rotX_ortho c s hcs
  obtain ⟨h1, h2⟩ := conj_ortho _ _ hb hx hdx
  refine ⟨h1, h2, ?_⟩
  simp only [V3.dot] at haa ha1 ha2
  ext <;> simp only [rotationIn, M3.mul, M3.transpose, M3.ofColumns, rotX, M3.mulColumn]
  · linear_combination a.x * haa + (b1.x * c - b2.x * s) * ha1 + (b1.x * s + b2.x * c) * ha2
  · linear_combination a.y * haa + (b1.y * c - b2.y * s) * ha1 + (b1.y * s + b2.y * c) * ha2
  · linear_combination a.z * haa + (b1.z * c - b2.z * s) * ha1 + (b1.z * s + b2.z * c) * ha2

theorem M2.rotation_ortho (c s : K) (h : c * c + s * s = 1) :
    (M2.rotation c s).transpose.mul (M2.rotation c s) = M2.one ∧ (M2.rotation c s).det = 1 := by
  constructor
  · ext <;> simp only [M2.mul, M2.transpose, M2.rotation, M2.one] <;> first | ring1 | linear_combination h
  · simp only [M2.det, M2.rotation]; linear_combination h

end Field

section Ordered
variable {K : Type} [Field K] [LinearOrder K] [IsStrictOrderedRing K]

/-! ### get / set along an axis -/

@[simp] theorem V3.get_set (c : V3 K) (ax : Nat) (v : K) : (c.set ax v).get ax = v := by
  rcases ax with _ | _ | ax <;> rfl

@[simp] theorem V3.set_get (c : V3 K) (ax : Nat) : c.set ax (c.get ax) = c := by
  rcases ax with _ | _ | ax <;> rfl

@[simp] theorem V3.set_set (c : V3 K) (ax : Nat) (v w : K) : (c.set ax v).set ax w = c.set ax w := by
  rcases ax with _ | _ | ax <;> rfl

/-! ### the squeeze along one axis -/

/-- `AxisSqueeze.Apply` on the squeezed coordinate. -/
def sq1 (lo hi r v : K) : K :=
  if v < lo then v else if hi < v then v - (hi - lo) * (1 - r) else v - (v - lo) * (1 - r)

theorem Xf.squeezeApply_eq (ax : Nat) (lo hi r : K) (c : V3 K) :
    Xf.squeezeApply ax lo hi r c = c.set ax (sq1 lo hi r (c.get ax)) := by
  unfold Xf.squeezeApply sq1
  by_cases h1 : c.get ax < lo
  · simp [h1]
  · by_cases h2 : hi < c.get ax <;> simp [h1, h2]

theorem sq1_inv (lo hi r v : K) (hlh : lo ≤ hi) (hr : 0 < r) :
    sq1 lo (lo + (hi - lo) * r) (1 / r) (sq1 lo hi r v) = v := by
  have hr' : r ≠ 0 := ne_of_gt hr
  have hd : 0 ≤ (hi - lo) * r := mul_nonneg (sub_nonneg.mpr hlh) hr.le
  unfold sq1
  by_cases h1 : v < lo
  · simp [h1]
  · have h1' : lo ≤ v := not_lt.mp h1
    by_cases h2 : hi < v
    · simp only [h1, h2, if_false, if_true]
      have e : v - (hi - lo) * (1 - r) = lo + (hi - lo) * r + (v - hi) := by ring
      have hlt : ¬ (v - (hi - lo) * (1 - r) < lo) := by
        rw [e]; have : 0 < v - hi := sub_pos.mpr h2; linarith
      have hgt : lo + (hi - lo) * r < v - (hi - lo) * (1 - r) := by
        rw [e]; have : 0 < v - hi := sub_pos.mpr h2; linarith
      simp only [hlt, hgt, if_false, if_true]
      field_simp
      ring
    · have h2' : v ≤ hi := not_lt.mp h2
      simp only [h1, h2, if_false]
      have e : v - (v - lo) * (1 - r) = lo + (v - lo) * r := by ring
      have hvr : 0 ≤ (v - lo) * r := mul_nonneg (sub_nonneg.mpr h1') hr.le
      have hle : (v - lo) * r ≤ (hi - lo) * r := mul_le_mul_of_nonneg_right (by linarith) hr.le
      have hlt : ¬ (v - (v - lo) * (1 - r) < lo) := by rw [e]; linarith
      have hgt : ¬ (lo + (hi - lo) * r < v - (v - lo) * (1 - r)) := by rw [e]; linarith
      simp only [hlt, hgt, if_false]
      field_simp
      ring

theorem sq1_inv' (lo hi r v : K) (hlh : lo ≤ hi) (hr : 0 < r) :
    sq1 lo hi r (sq1 lo (lo + (hi - lo) * r) (1 / r) v) = v := by
  have hr' : r ≠ 0 := ne_of_gt hr
  have h := sq1_inv lo (lo + (hi - lo) * r) (1 / r) v
    (by have := mul_nonneg (sub_nonneg.mpr hlh) hr.le; linarith) (by positivity)
  have e1 : lo + (lo + (hi - lo) * r - lo) * (1 / r) = hi := by field_simp; ring
  have e2 : 1 / (1 / r) = r := by field_simp
  rw [e1, e2] at h
  exact h

theorem sq1_mono (lo hi r : K) (hlh : lo ≤ hi) (hr : 0 ≤ r) {v w : K} (hvw : v ≤ w) :
    sq1 lo hi r v ≤ sq1 lo hi r w := by
  unfold sq1
  have hd : 0 ≤ (hi - lo) * r := mul_nonneg (sub_nonneg.mpr hlh) hr
  rcases lt_or_ge v lo with hv1 | hv1
  · rw [if_pos hv1]
    rcases lt_or_ge w lo with hw1 | hw1
    · rw [if_pos hw1]; exact hvw
    · rw [if_neg (not_lt.mpr hw1)]
      rcases lt_or_ge hi w with hw2 | hw2
      · rw [if_pos hw2]; nlinarith
      · rw [if_neg (not_lt.mpr hw2)]; nlinarith [mul_nonneg (sub_nonneg.mpr hw1) hr]
  · have hw1 : lo ≤ w := le_trans hv1 hvw
    rw [if_neg (not_lt.mpr hv1), if_neg (not_lt.mpr hw1)]
    rcases lt_or_ge hi v with hv2 | hv2
    · have hw2 : hi < w := lt_of_lt_of_le hv2 hvw
      rw [if_pos hv2, if_pos hw2]; linarith
    · rw [if_neg (not_lt.mpr hv2)]
      rcases lt_or_ge hi w with hw2 | hw2
      · rw [if_pos hw2]; nlinarith [mul_nonneg (sub_nonneg.mpr hv2) hr]
      · rw [if_neg (not_lt.mpr hw2)]; nlinarith [mul_nonneg (sub_nonneg.mpr hvw) hr]

/-! ### validity, composition, round trips -/

/-- The transform is invertible by the library's own `Inverse()`: non-zero scale factors, non-zero
determinant, a squeeze with `Min ≤ Max` and positive ratio. -/
def Xf.Valid : Xf K → Prop
  | .translate _ => True
  | .scale s => s ≠ 0
  | .vecScale v => v.x ≠ 0 ∧ v.y ≠ 0 ∧ v.z ≠ 0
  | .matrix m => m.det ≠ 0
  | .ortho m => m.det ≠ 0
  | .squeeze _ lo hi r => lo ≤ hi ∧ 0 < r
  | .jnil => True
  | .jcons t r => t.Valid ∧ r.Valid

theorem Xf.apply_snoc (r t : Xf K) (p : V3 K) : (r.snoc t).apply p = t.apply (r.apply p) := by
  induction r generalizing p with
  | jnil => rfl
  | jcons a r _ ih => simp only [Xf.snoc, Xf.apply, ih]
  | _ => rfl

theorem Xf.valid_snoc (r t : Xf K) (hr : r.Valid) (ht : t.Valid) : (r.snoc t).Valid := by
  induction r with
  | jnil => exact ⟨ht, trivial⟩
  | jcons a r _ ih => exact ⟨hr.1, ih hr.2⟩
  | _ => exact ⟨hr, ht, trivial⟩

theorem Xf.inverse_apply (t : Xf K) (h : t.Valid) (p : V3 K) : t.inverse.apply (t.apply p) = p := by
  induction t generalizing p with
  | translate o => ext <;> simp only [Xf.inverse, Xf.apply, V3.add, V3.scale] <;> ring
  | scale s =>
      have hs : s ≠ 0 := h
      ext <;> simp only [Xf.inverse, Xf.apply, V3.scale] <;> field_simp
  | vecScale v =>
      obtain ⟨hx, hy, hz⟩ := h
      ext <;> simp only [Xf.inverse, Xf.apply, V3.mul, V3.recip] <;> field_simp
  | matrix m => exact M3.inverse_mulColumn m h p
  | ortho m => exact M3.inverse_mulColumn m h p
  | squeeze ax lo hi r =>
      obtain ⟨hlh, hr⟩ := h
      simp only [Xf.inverse, Xf.apply, Xf.squeezeApply_eq, V3.get_set, V3.set_set, sq1_inv lo hi r _ hlh hr, V3.set_get]
  | jnil => rfl
  | jcons t r iht ihr =>
      simp only [Xf.inverse, Xf.apply, Xf.apply_snoc, ihr h.2, iht h.1]

theorem Xf.apply_inverse (t : Xf K) (h : t.Valid) (p : V3 K) : t.apply (t.inverse.apply p) = p := by
  induction t generalizing p with
  | translate o => ext <;> simp only [Xf.inverse, Xf.apply, V3.add, V3.scale] <;> ring
  | scale s =>
      have hs : s ≠ 0 := h
      ext <;> simp only [Xf.inverse, Xf.apply, V3.scale] <;> field_simp
  | vecScale v =>
      obtain ⟨hx, hy, hz⟩ := h
      ext <;> simp only [Xf.inverse, Xf.apply, V3.mul, V3.recip] <;> field_simp
  | matrix m => exact M3.mulColumn_inverse m h p
  | ortho m => exact M3.mulColumn_inverse m h p
  | squeeze ax lo hi r =>
      obtain ⟨hlh, hr⟩ := h
      simp only [Xf.inverse, Xf.apply, Xf.squeezeApply_eq, V3.get_set, V3.set_set, sq1_inv' lo hi r _ hlh hr, V3.set_get]
  | jnil => rfl
  | jcons t r iht ihr =>
      simp only [Xf.inverse, Xf.apply, Xf.apply_snoc, iht h.1, ihr h.2]

/-! ### boxes -/

theorem mn_eq_min (a b : K) : mn a b = min a b := (min_def a b).symm
theorem mx_eq_max (a b : K) : mx a b = max a b := (max_def a b).symm

/-- `p` lies in the axis-aligned box `[lo, hi]`. -/
def Box (lo hi p : V3 K) : Prop :=
  (lo.x ≤ p.x ∧ p.x ≤ hi.x) ∧ (lo.y ≤ p.y ∧ p.y ≤ hi.y) ∧ (lo.z ≤ p.z ∧ p.z ≤ hi.z)

theorem V3.beq_iff (a b : V3 K) : a.beq b = true ↔ a = b := by
  simp only [V3.beq, Bool.and_eq_true, beq_iff_eq, V3.ext_iff]
  tauto

theorem inBounds_iff (c lo hi : V3 K) : inBounds c lo hi = true ↔ Box lo hi c := by
  simp only [inBounds, Bool.and_eq_true, V3.beq_iff, V3.ext_iff, V3.min, V3.max, mn_eq_min, mx_eq_max,
    min_eq_right_iff, max_eq_right_iff, Box]
  tauto

theorem scale_between (lo hi p s : K) (h0 : lo ≤ p) (h1 : p ≤ hi) :
    min (lo * s) (hi * s) ≤ p * s ∧ p * s ≤ max (hi * s) (lo * s) := by
  rcases le_total 0 s with hs | hs
  · exact ⟨le_trans (min_le_left _ _) (mul_le_mul_of_nonneg_right h0 hs),
      le_trans (mul_le_mul_of_nonneg_right h1 hs) (le_max_left _ _)⟩
  · exact ⟨le_trans (min_le_right _ _) (mul_le_mul_of_nonpos_right h1 hs),
      le_trans (mul_le_mul_of_nonpos_right h0 hs) (le_max_right _ _)⟩

theorem lin_lower (a x0 x1 x : K) (h0 : x0 ≤ x) (h1 : x ≤ x1) :
    ∃ cx, (cx = x0 ∨ cx = x1) ∧ a * cx ≤ a * x := by
  rcases le_total 0 a with ha | ha
  · exact ⟨x0, Or.inl rfl, mul_le_mul_of_nonneg_left h0 ha⟩
  · exact ⟨x1, Or.inr rfl, mul_le_mul_of_nonpos_left h1 ha⟩

theorem lin_upper (a x0 x1 x : K) (h0 : x0 ≤ x) (h1 : x ≤ x1) :
    ∃ cx, (cx = x0 ∨ cx = x1) ∧ a * x ≤ a * cx := by
  rcases le_total 0 a with ha | ha
  · exact ⟨x1, Or.inr rfl, mul_le_mul_of_nonneg_left h1 ha⟩
  · exact ⟨x0, Or.inl rfl, mul_le_mul_of_nonpos_left h0 ha⟩

/-- A linear functional on a box is at least the running minimum over the 8 corners (loop order of
`Matrix3Transform.ApplyBounds`). -/
theorem min8_le_lin (a b c x0 x1 y0 y1 z0 z1 x y z : K)
    (hx : x0 ≤ x ∧ x ≤ x1) (hy : y0 ≤ y ∧ y ≤ y1) (hz : z0 ≤ z ∧ z ≤ z1) :
    min (min (min (min (min (min (min (a * x0 + b * y0 + c * z0) (a * x0 + b * y0 + c * z1))
      (a * x0 + b * y1 + c * z0)) (a * x0 + b * y1 + c * z1)) (a * x1 + b * y0 + c * z0))
      (a * x1 + b * y0 + c * z1)) (a * x1 + b * y1 + c * z0)) (a * x1 + b * y1 + c * z1)
      ≤ a * x + b * y + c * z := by
  obtain ⟨cx, hcx, hx'⟩ := lin_lower a x0 x1 x hx.1 hx.2
  obtain ⟨cy, hcy, hy'⟩ := lin_lower b y0 y1 y hy.1 hy.2
  obtain ⟨cz, hcz, hz'⟩ := lin_lower c z0 z1 z hz.1 hz.2
  refine le_trans ?_ (add_le_add (add_le_add hx' hy') hz')
  rcases hcx with rfl | rfl <;> rcases hcy with rfl | rfl <;> rcases hcz with rfl | rfl <;>
    simp only [min_le_iff, le_refl, true_or, or_true]

theorem lin_le_max8 (a b c x0 x1 y0 y1 z0 z1 x y z : K)
    (hx : x0 ≤ x ∧ x ≤ x1) (hy : y0 ≤ y ∧ y ≤ y1) (hz : z0 ≤ z ∧ z ≤ z1) :
    a * x + b * y + c * z ≤
    max (max (max (max (max (max (max (a * x0 + b * y0 + c * z0) (a * x0 + b * y0 + c * z1))
      (a * x0 + b * y1 + c * z0)) (a * x0 + b * y1 + c * z1)) (a * x1 + b * y0 + c * z0))
      (a * x1 + b * y0 + c * z1)) (a * x1 + b * y1 + c * z0)) (a * x1 + b * y1 + c * z1) := by
  obtain ⟨cx, hcx, hx'⟩ := lin_upper a x0 x1 x hx.1 hx.2
  obtain ⟨cy, hcy, hy'⟩ := lin_upper b y0 y1 y hy.1 hy.2
  obtain ⟨cz, hcz, hz'⟩ := lin_upper c z0 z1 z hz.1 hz.2
  refine le_trans (add_le_add (add_le_add hx' hy') hz') ?_
  rcases hcx with rfl | rfl <;> rcases hcy with rfl | rfl <;> rcases hcz with rfl | rfl <;>
    simp only [le_max_iff, le_refl, true_or, or_true]

theorem Xf.matrixBounds_encloses (m : M3 K) (lo hi p : V3 K) (h : Box lo hi p) :
    Box (Xf.matrixBounds m lo hi).1 (Xf.matrixBounds m lo hi).2 (m.mulColumn p) := by
  obtain ⟨hx, hy, hz⟩ := h
  simp only [Xf.matrixBounds, Xf.cornerImages, List.foldl, V3.min, V3.max, M3.mulColumn, mn_eq_min, mx_eq_max, Box]
  exact ⟨⟨min8_le_lin _ _ _ _ _ _ _ _ _ _ _ _ hx hy hz, lin_le_max8 _ _ _ _ _ _ _ _ _ _ _ _ hx hy hz⟩,
    ⟨min8_le_lin _ _ _ _ _ _ _ _ _ _ _ _ hx hy hz, lin_le_max8 _ _ _ _ _ _ _ _ _ _ _ _ hx hy hz⟩,
    ⟨min8_le_lin _ _ _ _ _ _ _ _ _ _ _ _ hx hy hz, lin_le_max8 _ _ _ _ _ _ _ _ _ _ _ _ hx hy hz⟩⟩

/-- What `ApplyBounds` needs: a squeeze with `Min ≤ Max` and non-negative ratio (monotone). -/
def Xf.BoundsOK : Xf K → Prop
  | .squeeze _ lo hi r => lo ≤ hi ∧ 0 ≤ r
  | .jcons t r => t.BoundsOK ∧ r.BoundsOK
  | _ => True

theorem Xf.valid_boundsOK (t : Xf K) (h : t.Valid) : t.BoundsOK := by
  induction t with
  | squeeze ax lo hi r => exact ⟨h.1, h.2.le⟩
  | jcons t r iht ihr => exact ⟨iht h.1, ihr h.2⟩
  | _ => trivial

theorem Box.set_axis {lo hi p : V3 K} (h : Box lo hi p) (ax : Nat) {a b c : K} (h0 : a ≤ b) (h1 : b ≤ c) :
    Box (lo.set ax a) (hi.set ax c) (p.set ax b) := by
  obtain ⟨hx, hy, hz⟩ := h
  rcases ax with _ | _ | ax <;> simp only [V3.set, Box] <;> exact ⟨by tauto, by tauto, by tauto⟩

theorem Box.get_axis {lo hi p : V3 K} (h : Box lo hi p) (ax : Nat) : lo.get ax ≤ p.get ax ∧ p.get ax ≤ hi.get ax := by
  obtain ⟨hx, hy, hz⟩ := h
  rcases ax with _ | _ | ax <;> simp only [V3.get] <;> assumption

theorem Xf.applyBounds_encloses (t : Xf K) (h : t.BoundsOK) (lo hi p : V3 K) (hb : Box lo hi p) :
    Box (t.applyBounds lo hi).1 (t.applyBounds lo hi).2 (t.apply p) := by
  induction t generalizing lo hi p with
  | translate o =>
      obtain ⟨hx, hy, hz⟩ := hb
      simp only [Xf.applyBounds, Xf.apply, V3.add, Box]
      exact ⟨⟨by linarith [hx.1], by linarith [hx.2]⟩, ⟨by linarith [hy.1], by linarith [hy.2]⟩,
        ⟨by linarith [hz.1], by linarith [hz.2]⟩⟩
  | scale s =>
      obtain ⟨hx, hy, hz⟩ := hb
      simp only [Xf.applyBounds, Xf.apply, V3.scale, V3.min, V3.max, mn_eq_min, mx_eq_max, Box]
      exact ⟨scale_between _ _ _ s hx.1 hx.2, scale_between _ _ _ s hy.1 hy.2, scale_between _ _ _ s hz.1 hz.2⟩
  | vecScale v =>
      obtain ⟨hx, hy, hz⟩ := hb
      simp only [Xf.applyBounds, Xf.apply, V3.mul, V3.min, V3.max, mn_eq_min, mx_eq_max, Box]
      exact ⟨scale_between _ _ _ v.x hx.1 hx.2, scale_between _ _ _ v.y hy.1 hy.2, scale_between _ _ _ v.z hz.1 hz.2⟩
  | matrix m => exact Xf.matrixBounds_encloses m lo hi p hb
  | ortho m => exact Xf.matrixBounds_encloses m lo hi p hb
  | squeeze ax l u r =>
      obtain ⟨hlu, hr⟩ := h
      have hg := hb.get_axis ax
      simp only [Xf.applyBounds, Xf.apply, Xf.squeezeApply_eq]
      exact hb.set_axis ax (sq1_mono l u r hlu hr hg.1) (sq1_mono l u r hlu hr hg.2)
  | jnil => exact hb
  | jcons t r iht ihr =>
      simp only [Xf.applyBounds, Xf.apply]
      exact ihr h.2 _ _ _ (iht h.1 lo hi p hb)

/-! ### small vector algebra -/

theorem V3.zero_add' (d : V3 K) : (V3.zero : V3 K).add d = d := by
  ext <;> simp [V3.add, V3.zero]

theorem V3.add_sub_cancel_left' (a b : V3 K) : (a.add b).sub a = b := by
  ext <;> simp [V3.add, V3.sub]

theorem V3.add_sub_cancel' (p q : V3 K) : q.add (p.sub q) = p := by
  ext <;> simp [V3.add, V3.sub]

theorem V3.normSq_eq_dot (v : V3 K) : v.normSq = v.dot v := rfl

/-! ### affine transforms and their linear part -/

/-- The image of a direction (difference of points) under the linear part of `t`:
`t.Apply(d).Sub(t.Apply(zero))`. -/
def Xf.lin (t : Xf K) (d : V3 K) : V3 K := (t.apply d).sub (t.apply V3.zero)

/-- No squeeze inside: the transform is an affine map. -/
def Xf.Affine : Xf K → Prop
  | .squeeze _ _ _ _ => False
  | .jcons t r => t.Affine ∧ r.Affine
  | _ => True

theorem Xf.lin_jcons_aux (t r : Xf K)
    (ht : ∀ p d : V3 K, t.apply (p.add d) = (t.apply p).add (t.lin d))
    (hr : ∀ p d : V3 K, r.apply (p.add d) = (r.apply p).add (r.lin d)) (d : V3 K) :
    (Xf.jcons t r).lin d = r.lin (t.lin d) := by
  have h1 : t.apply d = (t.apply V3.zero).add (t.lin d) := by
    have := ht V3.zero d
    rwa [V3.zero_add'] at this
  show (r.apply (t.apply d)).sub (r.apply (t.apply V3.zero)) = r.lin (t.lin d)
  rw [h1, hr, V3.add_sub_cancel_left']

theorem Xf.apply_add (t : Xf K) (h : t.Affine) (p d : V3 K) :
    t.apply (p.add d) = (t.apply p).add (t.lin d) := by
  induction t generalizing p d with
  | translate o => ext <;> simp only [Xf.lin, Xf.apply, V3.add, V3.sub, V3.zero] <;> ring
  | scale s => ext <;> simp only [Xf.lin, Xf.apply, V3.add, V3.sub, V3.scale, V3.zero] <;> ring
  | vecScale v => ext <;> simp only [Xf.lin, Xf.apply, V3.add, V3.sub, V3.mul, V3.zero] <;> ring
  | matrix m => ext <;> simp only [Xf.lin, Xf.apply, V3.add, V3.sub, M3.mulColumn, V3.zero] <;> ring
  | ortho m => ext <;> simp only [Xf.lin, Xf.apply, V3.add, V3.sub, M3.mulColumn, V3.zero] <;> ring
  | squeeze ax l u r => exact absurd h id
  | jnil => ext <;> simp only [Xf.lin, Xf.apply, V3.add, V3.sub, V3.zero] <;> ring
  | jcons t r iht ihr =>
      rw [Xf.lin_jcons_aux t r (iht h.1) (ihr h.2)]
      show r.apply (t.apply (p.add d)) = (r.apply (t.apply p)).add (r.lin (t.lin d))
      rw [iht h.1, ihr h.2]

theorem Xf.lin_jcons (t r : Xf K) (ht : t.Affine) (hr : r.Affine) (d : V3 K) :
    (Xf.jcons t r).lin d = r.lin (t.lin d) :=
  Xf.lin_jcons_aux t r (Xf.apply_add t ht) (Xf.apply_add r hr) d

theorem Xf.lin_scale (t : Xf K) (h : t.Affine) (d : V3 K) (k : K) :
    t.lin (d.scale k) = (t.lin d).scale k := by
  induction t generalizing d with
  | translate o => ext <;> simp only [Xf.lin, Xf.apply, V3.add, V3.sub, V3.scale, V3.zero] <;> ring
  | scale s => ext <;> simp only [Xf.lin, Xf.apply, V3.sub, V3.scale, V3.zero] <;> ring
  | vecScale v => ext <;> simp only [Xf.lin, Xf.apply, V3.sub, V3.mul, V3.scale, V3.zero] <;> ring
  | matrix m => ext <;> simp only [Xf.lin, Xf.apply, V3.sub, M3.mulColumn, V3.scale, V3.zero] <;> ring
  | ortho m => ext <;> simp only [Xf.lin, Xf.apply, V3.sub, M3.mulColumn, V3.scale, V3.zero] <;> ring
  | squeeze ax l u r => exact absurd h id
  | jnil => ext <;> simp only [Xf.lin, Xf.apply, V3.sub, V3.scale, V3.zero] <;> ring
  | jcons t r iht ihr => rw [Xf.lin_jcons t r h.1 h.2, Xf.lin_jcons t r h.1 h.2, iht h.1, ihr h.2]

theorem Xf.affine_snoc (r t : Xf K) (hr : r.Affine) (ht : t.Affine) : (r.snoc t).Affine := by
  induction r with
  | jnil => exact ⟨ht, trivial⟩
  | jcons a r _ ih => exact ⟨hr.1, ih hr.2⟩
  | squeeze ax l u r => exact absurd hr id
  | _ => exact ⟨hr, ht, trivial⟩

theorem Xf.affine_inverse (t : Xf K) (h : t.Affine) : t.inverse.Affine := by
  induction t with
  | squeeze ax l u r => exact absurd h id
  | jcons t r iht ihr => exact Xf.affine_snoc _ _ (ihr h.2) (iht h.1)
  | _ => trivial

/-- `L (L⁻¹ d) = d` for the linear parts of `t` and `t.Inverse()`. -/
theorem Xf.lin_lin_inverse (t : Xf K) (hv : t.Valid) (ha : t.Affine) (d : V3 K) :
    t.lin (t.inverse.lin d) = d := by
  have h := Xf.lin_jcons t.inverse t (Xf.affine_inverse t ha) ha d
  rw [← h]
  simp only [Xf.lin, Xf.apply, Xf.apply_inverse t hv]
  ext <;> simp [V3.sub, V3.zero]

theorem Xf.lin_inverse_lin (t : Xf K) (hv : t.Valid) (ha : t.Affine) (d : V3 K) :
    t.inverse.lin (t.lin d) = d := by
  have h := Xf.lin_jcons t t.inverse ha (Xf.affine_inverse t ha) d
  rw [← h]
  simp only [Xf.lin, Xf.apply, Xf.inverse_apply t hv]
  ext <;> simp [V3.sub, V3.zero]

/-! ### distance-preserving-up-to-a-factor transforms (`DistTransform`) -/

theorem absS_eq_abs (a : K) : absS a = |a| := by
  unfold absS
  split_ifs with h
  · exact (abs_of_nonneg h).symm
  · exact (abs_of_neg (not_le.mp h)).symm

/-- The factor by which the transform changes distances. -/
def Xf.factor : Xf K → K
  | .scale s => |s|
  | .jcons t r => t.factor * r.factor
  | _ => 1

/-- A `DistTransform` built from translations, non-zero uniform scales, orthogonal matrices, and joins. -/
def Xf.DistValid : Xf K → Prop
  | .translate _ => True
  | .scale s => s ≠ 0
  | .ortho m => m.transpose.mul m = M3.one
  | .jnil => True
  | .jcons t r => t.DistValid ∧ r.DistValid
  | _ => False

theorem Xf.distValid_valid (t : Xf K) (h : t.DistValid) : t.Valid := by
  induction t with
  | ortho m => exact M3.det_ne_zero_of_ortho m h
  | jcons t r iht ihr => exact ⟨iht h.1, ihr h.2⟩
  | vecScale v => exact absurd h id
  | matrix m => exact absurd h id
  | squeeze ax l u r => exact absurd h id
  | _ => exact h

theorem Xf.distValid_affine (t : Xf K) (h : t.DistValid) : t.Affine := by
  induction t with
  | jcons t r iht ihr => exact ⟨iht h.1, ihr h.2⟩
  | squeeze ax l u r => exact absurd h id
  | _ => trivial

theorem Xf.distValid_isDist (t : Xf K) (h : t.DistValid) : t.isDist = true := by
  induction t with
  | jcons t r iht ihr => simp [Xf.isDist, iht h.1, ihr h.2]
  | vecScale v => exact absurd h id
  | matrix m => exact absurd h id
  | squeeze ax l u r => exact absurd h id
  | _ => rfl

theorem Xf.applyDistance_eq (t : Xf K) (d : K) : t.applyDistance d = d * t.factor := by
  induction t generalizing d with
  | scale s => simp only [Xf.applyDistance, Xf.factor, absS_eq_abs]
  | jcons t r iht ihr => simp only [Xf.applyDistance, Xf.factor, iht, ihr]; ring
  | _ => simp only [Xf.applyDistance, Xf.factor, mul_one]

theorem Xf.factor_pos (t : Xf K) (h : t.DistValid) : 0 < t.factor := by
  induction t with
  | scale s => exact abs_pos.mpr h
  | jcons t r iht ihr => exact mul_pos (iht h.1) (ihr h.2)
  | _ => exact one_pos

theorem Xf.factor_snoc (r t : Xf K) : (r.snoc t).factor = r.factor * t.factor := by
  induction r with
  | jnil => simp [Xf.snoc, Xf.factor]
  | jcons a r _ ih => simp only [Xf.snoc, Xf.factor, ih]; ring
  | _ => simp [Xf.snoc, Xf.factor]

theorem Xf.factor_inverse (t : Xf K) (h : t.DistValid) : t.inverse.factor = 1 / t.factor := by
  induction t with
  | scale s => simp only [Xf.inverse, Xf.factor, one_div, abs_inv]
  | jcons t r iht ihr =>
      have h1 := ne_of_gt (Xf.factor_pos t h.1)
      have h2 := ne_of_gt (Xf.factor_pos r h.2)
      simp only [Xf.inverse, Xf.factor, Xf.factor_snoc, iht h.1, ihr h.2]
      field_simp
  | _ => simp [Xf.inverse, Xf.factor]

/-- Similarity: the linear part multiplies inner products by `factor²`. -/
theorem Xf.dot_lin (t : Xf K) (h : t.DistValid) (a b : V3 K) :
    (t.lin a).dot (t.lin b) = t.factor * t.factor * a.dot b := by
  induction t generalizing a b with
  | translate o => simp only [Xf.lin, Xf.apply, Xf.factor, V3.add, V3.sub, V3.dot, V3.zero]; ring
  | scale s =>
      have e : |s| * |s| = s * s := abs_mul_abs_self s
      simp only [Xf.lin, Xf.apply, Xf.factor, V3.scale, V3.sub, V3.dot, V3.zero, e]; ring
  | ortho m =>
      have h' : m.transpose.mul m = M3.one := h
      simp only [M3.ext_iff, M3.mul, M3.transpose, M3.one] at h'
      obtain ⟨h0, h1, h2, h3, h4, h5, h6, h7, h8⟩ := h'
      simp only [Xf.lin, Xf.apply, Xf.factor, M3.mulColumn, V3.sub, V3.dot, V3.zero]
      linear_combination a.x * b.x * h0 + a.x * b.y * h1 + a.x * b.z * h2 + a.y * b.x * h3 + a.y * b.y * h4
        + a.y * b.z * h5 + a.z * b.x * h6 + a.z * b.y * h7 + a.z * b.z * h8
  | jnil => simp only [Xf.lin, Xf.apply, Xf.factor, V3.sub, V3.dot, V3.zero]; ring
  | jcons t r iht ihr =>
      rw [Xf.lin_jcons t r (Xf.distValid_affine t h.1) (Xf.distValid_affine r h.2),
        Xf.lin_jcons t r (Xf.distValid_affine t h.1) (Xf.distValid_affine r h.2), ihr h.2, iht h.1]
      simp only [Xf.factor]; ring
  | vecScale v => exact absurd h id
  | matrix m => exact absurd h id
  | squeeze ax l u r => exact absurd h id

theorem Xf.apply_sub_apply (t : Xf K) (h : t.Affine) (p q : V3 K) :
    (t.apply p).sub (t.apply q) = t.lin (p.sub q) := by
  have e := Xf.apply_add t h q (p.sub q)
  rw [V3.add_sub_cancel'] at e
  rw [e, V3.add_sub_cancel_left']

theorem Xf.normSq_apply_sub (t : Xf K) (h : t.DistValid) (p q : V3 K) :
    ((t.apply p).sub (t.apply q)).normSq = t.factor * t.factor * (p.sub q).normSq := by
  rw [Xf.apply_sub_apply t (Xf.distValid_affine t h), V3.normSq_eq_dot, Xf.dot_lin t h, V3.normSq_eq_dot]

/-! ### `AxisPinch` -/

/-- `AxisPinch.Apply` on the pinched coordinate. -/
def pinch1 (powF : K → K) (lo hi v : K) : K :=
  if v < lo ∨ hi < v then v
  else
    (if (v - (lo + hi) / 2) / ((hi - lo) / 2) < 0
      then -(powF (-((v - (lo + hi) / 2) / ((hi - lo) / 2))))
      else powF ((v - (lo + hi) / 2) / ((hi - lo) / 2))) * ((hi - lo) / 2) + (lo + hi) / 2

theorem Pinch.apply_eq (powF : K → K) (a : Pinch K) (c : V3 K) :
    a.apply powF c = c.set a.axis (pinch1 powF a.lo a.hi (c.get a.axis)) := by
  unfold Pinch.apply pinch1
  by_cases h : c.get a.axis < a.lo ∨ a.hi < c.get a.axis
  · simp [h]
  · by_cases hn : (c.get a.axis - (a.lo + a.hi) / 2) / ((a.hi - a.lo) / 2) < 0 <;> simp [h, hn]

/-- `powF` behaves like `t ↦ t^p` (`p > 0`) on `[0,1]`: maps it into itself, vanishes only at 0. -/
def PowLike (powF : K → K) : Prop :=
  ∀ u, 0 ≤ u → u ≤ 1 → 0 ≤ powF u ∧ powF u ≤ 1 ∧ (0 < u → 0 < powF u)

/-- the signed, normalised coordinate after the pinch -/
theorem pinch1_spec (powF : K → K) (hp : PowLike powF) (lo hi v : K) (hlh : lo < hi) (h0 : lo ≤ v) (h1 : v ≤ hi) :
    ∃ t t3 : K, t = (v - (lo + hi) / 2) / ((hi - lo) / 2) ∧ -1 ≤ t ∧ t ≤ 1 ∧
      pinch1 powF lo hi v = t3 * ((hi - lo) / 2) + (lo + hi) / 2 ∧
      ((t < 0 ∧ t3 = -powF (-t) ∧ t3 < 0) ∨ (0 ≤ t ∧ t3 = powF t ∧ 0 ≤ t3)) ∧ -1 ≤ t3 ∧ t3 ≤ 1 := by
  have hs : 0 < (hi - lo) / 2 := by linarith
  have hin : ¬ (v < lo ∨ hi < v) := by
    rintro (h | h) <;> linarith
  have ht0 : -1 ≤ (v - (lo + hi) / 2) / ((hi - lo) / 2) := by
    rw [le_div_iff₀ hs]; linarith
  have ht1 : (v - (lo + hi) / 2) / ((hi - lo) / 2) ≤ 1 := by
    rw [div_le_iff₀ hs]; linarith
  unfold pinch1
  rw [if_neg hin]
  generalize (v - (lo + hi) / 2) / ((hi - lo) / 2) = t at ht0 ht1 ⊢
  by_cases hn : t < 0
  · obtain ⟨a, b, c⟩ := hp (-t) (by linarith) (by linarith)
    have hc := c (by linarith)
    exact ⟨t, -powF (-t), rfl, ht0, ht1, by rw [if_pos hn], Or.inl ⟨hn, rfl, by linarith⟩, by linarith, by linarith⟩
  · have hn' : 0 ≤ t := not_lt.mp hn
    obtain ⟨a, b, c⟩ := hp t hn' ht1
    exact ⟨t, powF t, rfl, ht0, ht1, by rw [if_neg hn], Or.inr ⟨hn', rfl, a⟩, by linarith, b⟩

theorem pinch1_inv (powF powG : K → K) (hp : PowLike powF) (hg : ∀ u, 0 ≤ u → u ≤ 1 → powG (powF u) = u)
    (lo hi v : K) (hlh : lo < hi) :
    pinch1 powG lo hi (pinch1 powF lo hi v) = v := by
  have fixed : ∀ (pw : K → K) (x : K), (x < lo ∨ hi < x) → pinch1 pw lo hi x = x := by
    intro pw x hx; unfold pinch1; rw [if_pos hx]
  by_cases hout : v < lo ∨ hi < v
  · rw [fixed powF v hout, fixed powG v hout]
  · have h0 : lo ≤ v := not_lt.mp (fun h => hout (Or.inl h))
    have h1 : v ≤ hi := not_lt.mp (fun h => hout (Or.inr h))
    have hs : 0 < (hi - lo) / 2 := by linarith
    obtain ⟨t, t3, ht, ht0, ht1, hv', hcase, h30, h31⟩ := pinch1_spec powF hp lo hi v hlh h0 h1
    have hvt : v = t * ((hi - lo) / 2) + (lo + hi) / 2 := by
      rw [ht]; field_simp; ring
    generalize pinch1 powF lo hi v = x at hv'
    have hxlo : lo ≤ x := by rw [hv']; nlinarith
    have hxhi : x ≤ hi := by rw [hv']; nlinarith
    have hin' : ¬ (x < lo ∨ hi < x) := by
      rintro (h | h) <;> linarith
    have ht' : (x - (lo + hi) / 2) / ((hi - lo) / 2) = t3 := by
      rw [hv']; field_simp; ring
    unfold pinch1
    rw [if_neg hin', ht']
    rcases hcase with ⟨hneg, h3, h3neg⟩ | ⟨hpos, h3, h3pos⟩
    · rw [if_pos h3neg, h3, neg_neg, hg (-t) (by linarith) (by linarith), neg_neg]
      exact hvt.symm
    · rw [if_neg (not_lt.mpr h3pos), h3, hg t hpos ht1]
      exact hvt.symm

theorem pinch1_mono (powF : K → K) (hp : PowLike powF)
    (hm : ∀ u w, 0 ≤ u → u ≤ w → w ≤ 1 → powF u ≤ powF w) (lo hi : K) (hlh : lo < hi) {v w : K} (hvw : v ≤ w) :
    pinch1 powF lo hi v ≤ pinch1 powF lo hi w := by
  have hs : 0 < (hi - lo) / 2 := by linarith
  -- values in range stay in range; out of range values are fixed
  have range : ∀ x, lo ≤ x → x ≤ hi → lo ≤ pinch1 powF lo hi x ∧ pinch1 powF lo hi x ≤ hi := by
    intro x hx0 hx1
    obtain ⟨t, t3, _, _, _, hv', _, h30, h31⟩ := pinch1_spec powF hp lo hi x hlh hx0 hx1
    rw [hv']; constructor <;> nlinarith
  have fixed : ∀ x, (x < lo ∨ hi < x) → pinch1 powF lo hi x = x := by
    intro x hx; unfold pinch1; rw [if_pos hx]
  rcases lt_or_ge v lo with hv | hv
  · rw [fixed v (Or.inl hv)]
    rcases lt_or_ge w lo with hw | hw
    · rw [fixed w (Or.inl hw)]; exact hvw
    · rcases lt_or_ge hi w with hw' | hw'
      · rw [fixed w (Or.inr hw')]; exact hvw
      · linarith [(range w hw hw').1]
  · rcases lt_or_ge hi v with hv' | hv'
    · rw [fixed v (Or.inr hv'), fixed w (Or.inr (lt_of_lt_of_le hv' hvw))]; exact hvw
    · rcases lt_or_ge hi w with hw' | hw'
      · rw [fixed w (Or.inr hw')]; linarith [(range v hv hv').2]
      · have hw : lo ≤ w := le_trans hv hvw
        obtain ⟨t, t3, ht, ht0, ht1, hv1, hc, _, _⟩ := pinch1_spec powF hp lo hi v hlh hv hv'
        obtain ⟨u, u3, hu, hu0, hu1, hw1, hd, _, _⟩ := pinch1_spec powF hp lo hi w hlh hw hw'
        have htu : t ≤ u := by rw [ht, hu]; exact div_le_div_of_nonneg_right (by linarith) hs.le
        rw [hv1, hw1]
        have : t3 ≤ u3 := by
          rcases hc with ⟨a1, a2, a3⟩ | ⟨a1, a2, a3⟩ <;> rcases hd with ⟨b1, b2, b3⟩ | ⟨b1, b2, b3⟩
          · rw [a2, b2]; have := hm (-u) (-t) (by linarith) (by linarith) (by linarith); linarith
          · linarith
          · linarith
          · rw [a2, b2]; exact hm t u a1 htu hu1
        nlinarith

/-! ### `OrthoBasis` and `NewMatrix3Rotation` -/

theorem V3.normalize_unit (sqrtF : K → K) (v : V3 K) (hv : 0 < v.normSq)
    (hs : ∀ x, 0 < x → sqrtF x * sqrtF x = x) : (v.normalize sqrtF).dot (v.normalize sqrtF) = 1 := by
  have hs' := hs _ hv
  have h0 : sqrtF v.normSq ≠ 0 := by
    intro h; rw [h, zero_mul] at hs'; exact (ne_of_gt hv) hs'.symm
  unfold V3.normalize
  generalize sqrtF v.normSq = r at hs' h0 ⊢
  simp only [V3.normSq, V3.scale, V3.dot] at hs' ⊢
  have : (v.x * v.x + v.y * v.y + v.z * v.z) * (1 / r * (1 / r)) = 1 := by
    rw [← hs']; field_simp
  linear_combination this

theorem V3.dot_normalize (sqrtF : K → K) (v w : V3 K) (h : v.dot w = 0) :
    (v.normalize sqrtF).dot (w.normalize sqrtF) = 0 := by
  simp only [V3.normalize, V3.scale, V3.dot] at h ⊢
  linear_combination (1 / sqrtF v.normSq) * (1 / sqrtF w.normSq) * h

theorem V3.dot_normalize_right (sqrtF : K → K) (v w : V3 K) (h : v.dot w = 0) :
    v.dot (w.normalize sqrtF) = 0 := by
  simp only [V3.normalize, V3.scale, V3.dot] at h ⊢
  linear_combination (1 / sqrtF w.normSq) * h

/-- The two vectors `OrthoBasis` normalises: some `u ⟂ c`, `u ≠ 0`, and `u × c`. -/
theorem orthoBasis_raw (sqrtF : K → K) (c : V3 K) (hc : c.normSq = 1) :
    ∃ u : V3 K, u.dot c = 0 ∧ 0 < u.normSq ∧
      orthoBasis sqrtF c = (u.normalize sqrtF,
        (⟨u.y * c.z - u.z * c.y, u.z * c.x - u.x * c.z, u.x * c.y - u.y * c.x⟩ : V3 K).normalize sqrtF) := by
  simp only [V3.normSq] at hc
  by_cases h1 : |c.y| < |c.x| ∧ |c.z| < |c.x|
  · have hx : 0 < |c.x| := lt_of_le_of_lt (abs_nonneg _) h1.1
    have hx0 : c.x ≠ 0 := abs_pos.mp hx
    refine ⟨⟨c.y / |c.x|, (-c.x) / |c.x|, 0⟩, ?_, ?_, ?_⟩
    · simp only [V3.dot]; field_simp; ring
    · simp only [V3.normSq]
      have : 0 < (-c.x) / |c.x| * ((-c.x) / |c.x|) := mul_self_pos.mpr (div_ne_zero (neg_ne_zero.mpr hx0) (ne_of_gt hx))
      nlinarith [mul_self_nonneg (c.y / |c.x|)]
    · simp only [orthoBasis, absS_eq_abs, if_pos h1]
  · have hk : 0 < (if |c.z| < |c.y| then |c.y| else |c.z|) ∧
        (c.y ≠ 0 ∨ c.z ≠ 0) := by
      by_cases h2 : |c.z| < |c.y|
      · have : 0 < |c.y| := lt_of_le_of_lt (abs_nonneg _) h2
        exact ⟨by rw [if_pos h2]; exact this, Or.inl (abs_pos.mp this)⟩
      · rw [if_neg h2]
        have hzy : |c.y| ≤ |c.z| := not_lt.mp h2
        have hz : 0 < |c.z| := by
          rcases (abs_nonneg c.z).lt_or_eq with h | h
          · exact h
          · exfalso
            have hz0 : c.z = 0 := abs_eq_zero.mp h.symm
            have hy0 : c.y = 0 := abs_eq_zero.mp (le_antisymm (by rw [← h] at hzy; exact hzy) (abs_nonneg _))
            rw [hy0, hz0] at hc h1
            have hx1 : c.x * c.x = 1 := by linarith
            have : 0 < |c.x| := by
              apply abs_pos.mpr; intro h0; rw [h0] at hx1; simp at hx1
            exact h1 ⟨by simpa using this, by simpa using this⟩
        exact ⟨hz, Or.inr (abs_pos.mp hz)⟩
    obtain ⟨hkpos, hyz⟩ := hk
    generalize hkdef : (if |c.z| < |c.y| then |c.y| else |c.z|) = k at hkpos
    have hk0 : k ≠ 0 := ne_of_gt hkpos
    refine ⟨⟨0, c.z / k, (-c.y) / k⟩, ?_, ?_, ?_⟩
    · simp only [V3.dot]; field_simp; ring
    · simp only [V3.normSq]
      rcases hyz with hy | hz
      · have : 0 < (-c.y) / k * ((-c.y) / k) := mul_self_pos.mpr (div_ne_zero (neg_ne_zero.mpr hy) hk0)
        nlinarith [mul_self_nonneg (c.z / k)]
      · have : 0 < c.z / k * (c.z / k) := mul_self_pos.mpr (div_ne_zero hz hk0)
        nlinarith [mul_self_nonneg ((-c.y) / k)]
    · simp only [orthoBasis, absS_eq_abs, if_neg h1, hkdef]

/-- **`OrthoBasis` of a unit vector completes it to an orthonormal basis** (given a square-root function). -/
theorem orthoBasis_orthonormal (sqrtF : K → K) (hs : ∀ x, 0 < x → sqrtF x * sqrtF x = x) (c : V3 K)
    (hc : c.normSq = 1) :
    let b := orthoBasis sqrtF c
    b.1.dot b.1 = 1 ∧ b.2.dot b.2 = 1 ∧ c.dot b.1 = 0 ∧ c.dot b.2 = 0 ∧ b.1.dot b.2 = 0 := by
  obtain ⟨u, huc, hu, e⟩ := orthoBasis_raw sqrtF c hc
  simp only [e]
  have hcross : (⟨u.y * c.z - u.z * c.y, u.z * c.x - u.x * c.z, u.x * c.y - u.y * c.x⟩ : V3 K).normSq = u.normSq := by
    simp only [V3.normSq, V3.dot] at hc huc ⊢
    linear_combination (u.x * u.x + u.y * u.y + u.z * u.z) * hc - (u.x * c.x + u.y * c.y + u.z * c.z) * huc
  refine ⟨V3.normalize_unit sqrtF u hu hs, V3.normalize_unit sqrtF _ (by rw [hcross]; exact hu) hs, ?_, ?_, ?_⟩
  · apply V3.dot_normalize_right
    simp only [V3.dot] at huc ⊢; linear_combination huc
  · apply V3.dot_normalize_right
    simp only [V3.dot]; ring
  · apply V3.dot_normalize
    simp only [V3.dot]; ring

end Ordered
end M3d.Tf
