import M3d.Model.SearchSpec
import M3d.Lemmas.LookupEdge
/-!
# The edge lookup on a lattice that is only NEARLY evenly spaced (C02, floating-point lattices)

A coordinate is written `origin + (z + t)·δ` with `z` an integer and `0 ≤ t < 1` its fractional position in
the ideal grid.  `math.Mod`'s window `(δ/4, 3δ/4)` accepts it iff `1/4 < t < 3/4`, whatever `z`; so a stored
lattice value that drifted by less than a quarter step is rejected, the midpoint of two such values is
accepted, and `int(x/δ)` is the index of the lower end.  `lookupEdgeArr` then returns the STORED values
`values[idx]`, `values[idx+1]`; the window of `msSearch` returns re-computed ends.
-/
namespace M3d.Bisect

theorem fmod_nonneg_frac (d t : Rat) (hd : 0 < d) (n : Nat) (ht0 : 0 ≤ t) (ht1 : t < 1) :
    fmod (((n : Rat) + t) * d) d = t * d := by
  unfold fmod; rw [truncDiv_nonneg d t hd n ht0 ht1]; push_cast; ring

theorem fmod_neg_frac (d t : Rat) (hd : 0 < d) (z : Int) (hz : z < 0) (ht0 : 0 < t) (ht1 : t < 1) :
    fmod (((z : Rat) + t) * d) d = (t - 1) * d := by
  unfold fmod; rw [truncDiv_neg d t hd z hz ht0 ht1]; push_cast; ring

/-- `|Mod((z + t)·δ, δ)|` is `t·δ` right of the origin and `(1 − t)·δ` left of it -/
theorem rabs_fmod_frac (d t : Rat) (hd : 0 < d) (z : Int) (ht0 : 0 ≤ t) (ht1 : t < 1) :
    rabs (fmod (((z : Rat) + t) * d) d) = if 0 ≤ z ∨ t = 0 then t * d else (1 - t) * d := by
  by_cases hz : 0 ≤ z
  · obtain ⟨n, rfl⟩ := Int.eq_ofNat_of_zero_le hz
    have hc : (((n : Int) : Rat)) = (n : Rat) := by push_cast; rfl
    rw [hc, fmod_nonneg_frac d t hd n ht0 ht1, if_pos (Or.inl hz)]
    unfold rabs
    have : ¬ (t * d < 0) := not_lt.2 (mul_nonneg ht0 (le_of_lt hd))
    rw [if_neg this]
  · have hz' : z < 0 := by omega
    by_cases ht : t = 0
    · subst ht
      have : ((z : Rat) + 0) * d = (z : Rat) * d := by ring
      rw [this]
      have : fmod ((z : Rat) * d) d = 0 := by unfold fmod; rw [truncDiv_int d hd z]; ring
      rw [this, if_pos (Or.inr rfl)]
      unfold rabs; simp
    · have ht0' : 0 < t := lt_of_le_of_ne ht0 (Ne.symm ht)
      rw [fmod_neg_frac d t hd z hz' ht0' ht1, if_neg (by rintro (h | h); exacts [hz h, ht h])]
      unfold rabs
      have : (t - 1) * d < 0 := mul_neg_of_neg_of_pos (by linarith) hd
      rw [if_pos this]; ring

theorem inWindow_mul (d t : Rat) (hd : 0 < d) : inWindow (t * d) d = (decide (1 / 4 < t) && decide (t < 3 / 4)) := by
  unfold inWindow
  have h1 : d / 4 < t * d ↔ 1 / 4 < t := by
    constructor
    · intro h; by_contra hc; have hc' := not_lt.1 hc; nlinarith
    · intro h; nlinarith
  have h2 : t * d < 3 * d / 4 ↔ t < 3 / 4 := by
    constructor
    · intro h; by_contra hc; have hc' := not_lt.1 hc; nlinarith
    · intro h; nlinarith
  simp only [h1, h2]

/-- the window accepts `origin + (z + t)·δ` iff `1/4 < t < 3/4` -/
theorem window_frac (d t : Rat) (hd : 0 < d) (z : Int) (ht0 : 0 ≤ t) (ht1 : t < 1) :
    inWindow (rabs (fmod (((z : Rat) + t) * d) d)) d = (decide (1 / 4 < t) && decide (t < 3 / 4)) := by
  rw [rabs_fmod_frac d t hd z ht0 ht1]
  split
  · exact inWindow_mul d t hd
  · rw [inWindow_mul d (1 - t) hd]
    have e1 : (1 / 4 < 1 - t) ↔ (t < 3 / 4) := by constructor <;> intro h <;> linarith
    have e2 : (1 - t < 3 / 4) ↔ (1 / 4 < t) := by constructor <;> intro h <;> linarith
    rw [decide_eq_decide.2 e1, decide_eq_decide.2 e2, Bool.and_comm]

theorem truncDiv_toNat (d t : Rat) (hd : 0 < d) (n : Nat) (ht0 : 0 ≤ t) (ht1 : t < 1) :
    (truncDiv (((n : Rat) + t) * d) d).toNat = n := by
  rw [truncDiv_nonneg d t hd n ht0 ht1]; rfl

end M3d.Bisect

namespace M3d.SearchSpec
open M3d.Bisect

/-- the loop of `lookupEdgeArr`: axes before `k` are rejected by the window, axis `k` is accepted and its index
is the lower end's -/
theorem lookupEdgeArr_go (d : Rat) (hd : 0 < d) :
    ∀ (k : Nat) (vals : List (List Rat)) (c : List Rat) (i : Nat) (n : Nat → Nat) (t : Nat → Rat),
      k < vals.length → k < c.length →
      (∀ j, j < k → c.getD j 0 - (vals.getD j []).getD 0 0 = ((n j : Rat) + t j) * d ∧
        0 ≤ t j ∧ t j < 1 ∧ ¬ (1 / 4 < t j ∧ t j < 3 / 4)) →
      c.getD k 0 - (vals.getD k []).getD 0 0 = ((n k : Rat) + t k) * d → 1 / 4 < t k → t k < 3 / 4 →
      n k + 1 < (vals.getD k []).length →
      lookupEdgeArr.go d i vals c =
        some (i + k, (vals.getD k []).getD (n k) 0, (vals.getD k []).getD (n k + 1) 0) := by
  intro k
  induction k with
  | zero =>
    intro vals c i n t hv hc _ hmid h1 h2 hlen
    match vals, c, hv, hc with
    | xs :: rest, v :: vs, _, _ =>
      simp only [List.getD_cons_zero] at hmid hlen ⊢
      unfold lookupEdgeArr.go
      simp only
      have hw := window_frac d (t 0) hd (n 0 : Int) (by linarith) (by linarith)
      have hcast : (((n 0 : Int) : Rat)) = (n 0 : Rat) := by push_cast; rfl
      rw [hcast] at hw
      rw [hmid, hw]
      simp only [h1, h2, decide_true, Bool.and_self, if_true]
      rw [truncDiv_toNat d (t 0) hd (n 0) (by linarith) (by linarith)]
      have e1 : xs[n 0]? = some (xs.getD (n 0) 0) := by
        rw [List.getD_eq_getElem?_getD, List.getElem?_eq_getElem (by omega)]; rfl
      have e2 : xs[n 0 + 1]? = some (xs.getD (n 0 + 1) 0) := by
        rw [List.getD_eq_getElem?_getD, List.getElem?_eq_getElem (by omega)]; rfl
      rw [e1, e2]
      simp
  | succ k ih =>
    intro vals c i n t hv hc hlat hmid h1 h2 hlen
    match vals, c, hv, hc with
    | xs :: rest, v :: vs, hv, hc =>
      have h0 := hlat 0 (Nat.succ_pos k)
      simp only [List.getD_cons_zero] at h0
      unfold lookupEdgeArr.go
      simp only
      have hw := window_frac d (t 0) hd (n 0 : Int) h0.2.1 h0.2.2.1
      have hcast : (((n 0 : Int) : Rat)) = (n 0 : Rat) := by push_cast; rfl
      rw [hcast] at hw
      rw [h0.1, hw]
      have hrej : (decide (1 / 4 < t 0) && decide (t 0 < 3 / 4)) = false := by
        rw [Bool.and_eq_false_iff, decide_eq_false_iff_not, decide_eq_false_iff_not]
        by_cases a : 1 / 4 < t 0
        · exact Or.inr (fun b => h0.2.2.2 ⟨a, b⟩)
        · exact Or.inl a
      rw [hrej]
      simp only [Bool.false_eq_true, if_false]
      have := ih rest vs (i + 1) (fun j => n (j + 1)) (fun j => t (j + 1))
        (by simpa using hv) (by simpa using hc)
        (fun j hj => by
          have := hlat (j + 1) (by omega)
          simpa [List.getD_cons_succ] using this)
        (by simpa [List.getD_cons_succ] using hmid) h1 h2
        (by simpa [List.getD_cons_succ] using hlen)
      rw [this]
      simp only [List.getD_cons_succ]
      congr 2
      omega

/-- **`LookupEdgePoint` on a nearly evenly spaced stored lattice returns the STORED ends.** -/
theorem lookupEdgeArr_recovers (vals : List (List Rat)) (c : List Rat) (k : Nat) (n : Nat → Nat) (t : Nat → Rat)
    (hd : 0 < (vals.getD 0 []).getD 1 0 - (vals.getD 0 []).getD 0 0)
    (hv : k < vals.length) (hc : k < c.length)
    (hlat : ∀ j, j < k → c.getD j 0 - (vals.getD j []).getD 0 0 =
        ((n j : Rat) + t j) * ((vals.getD 0 []).getD 1 0 - (vals.getD 0 []).getD 0 0) ∧
        0 ≤ t j ∧ t j < 1 ∧ ¬ (1 / 4 < t j ∧ t j < 3 / 4))
    (hmid : c.getD k 0 - (vals.getD k []).getD 0 0 =
        ((n k : Rat) + t k) * ((vals.getD 0 []).getD 1 0 - (vals.getD 0 []).getD 0 0))
    (h1 : 1 / 4 < t k) (h2 : t k < 3 / 4) (hlen : n k + 1 < (vals.getD k []).length) :
    lookupEdgeArr vals c = some (k, (vals.getD k []).getD (n k) 0, (vals.getD k []).getD (n k + 1) 0) := by
  unfold lookupEdgeArr
  simp only
  rw [lookupEdgeArr_go _ hd k vals c 0 n t hv hc hlat hmid h1 h2 hlen, Nat.zero_add]

end M3d.SearchSpec

namespace M3d.Bisect

/-- the window of `msSearch` at a point whose coordinates are `Min + (z + t)·δ`: axes before `k` are
rejected, axis `k` is accepted; the re-computed lower end is the ideal lattice value `Min_k + z·δ` right of
`Min` and `Min_k + (z + 2t − 1)·δ` left of it -/
theorem msLookup_go_drift (d : Rat) (hd : 0 < d) :
    ∀ (k : Nat) (os vs : List Rat) (i : Nat) (z : Nat → Int) (t : Nat → Rat),
      k < os.length → k < vs.length →
      (∀ j, j < k → vs.getD j 0 - os.getD j 0 = ((z j : Rat) + t j) * d ∧
        0 ≤ t j ∧ t j < 1 ∧ ¬ (1 / 4 < t j ∧ t j < 3 / 4)) →
      vs.getD k 0 - os.getD k 0 = ((z k : Rat) + t k) * d → 1 / 4 < t k → t k < 3 / 4 →
      msLookup.go d i os vs =
        some (i + k,
          os.getD k 0 + ((z k : Rat) + (if 0 ≤ z k then 0 else 2 * t k - 1)) * d,
          os.getD k 0 + ((z k : Rat) + (if 0 ≤ z k then 0 else 2 * t k - 1)) * d + d) := by
  intro k
  induction k with
  | zero =>
    intro os vs i z t ho hv _ hmid h1 h2
    match os, vs, ho, hv with
    | o :: os, v :: vs, _, _ =>
      simp only [List.getD_cons_zero] at hmid ⊢
      unfold msLookup.go
      simp only
      have hw := window_frac d (t 0) hd (z 0) (by linarith) (by linarith)
      rw [hmid, hw]
      simp only [h1, h2, decide_true, Bool.and_self, if_true]
      rw [rabs_fmod_frac d (t 0) hd (z 0) (by linarith) (by linarith)]
      have ht0 : t 0 ≠ 0 := by intro h; rw [h] at h1; norm_num at h1
      have hv' : v = o + ((z 0 : Rat) + t 0) * d := by linarith
      by_cases hz : 0 ≤ z 0
      · rw [if_pos (Or.inl hz), if_pos hz]
        simp only [Nat.add_zero, Option.some.injEq, Prod.mk.injEq, true_and]
        constructor <;> (rw [hv']; ring)
      · rw [if_neg (by rintro (h | h); exacts [hz h, ht0 h]), if_neg hz]
        simp only [Nat.add_zero, Option.some.injEq, Prod.mk.injEq, true_and]
        constructor <;> (rw [hv']; ring)
  | succ k ih =>
    intro os vs i z t ho hv hlat hmid h1 h2
    match os, vs, ho, hv with
    | o :: os, v :: vs, ho, hv =>
      have h0 := hlat 0 (Nat.succ_pos k)
      simp only [List.getD_cons_zero] at h0
      unfold msLookup.go
      simp only
      have hw := window_frac d (t 0) hd (z 0) h0.2.1 h0.2.2.1
      rw [h0.1, hw]
      have hrej : (decide (1 / 4 < t 0) && decide (t 0 < 3 / 4)) = false := by
        rw [Bool.and_eq_false_iff, decide_eq_false_iff_not, decide_eq_false_iff_not]
        by_cases a : 1 / 4 < t 0
        · exact Or.inr (fun b => h0.2.2.2 ⟨a, b⟩)
        · exact Or.inl a
      rw [hrej]
      simp only [Bool.false_eq_true, if_false]
      have := ih os vs (i + 1) (fun j => z (j + 1)) (fun j => t (j + 1))
        (by simpa using ho) (by simpa using hv)
        (fun j hj => by
          have := hlat (j + 1) (by omega)
          simpa [List.getD_cons_succ] using this)
        (by simpa [List.getD_cons_succ] using hmid) h1 h2
      rw [this]
      simp only [List.getD_cons_succ]
      congr 2
      omega

theorem msLookup_drift (mn c : List Rat) (d : Rat) (hd : 0 < d) (k : Nat) (z : Nat → Int) (t : Nat → Rat)
    (ho : k < mn.length) (hc : k < c.length)
    (hlat : ∀ j, j < k → c.getD j 0 - mn.getD j 0 = ((z j : Rat) + t j) * d ∧
        0 ≤ t j ∧ t j < 1 ∧ ¬ (1 / 4 < t j ∧ t j < 3 / 4))
    (hmid : c.getD k 0 - mn.getD k 0 = ((z k : Rat) + t k) * d) (h1 : 1 / 4 < t k) (h2 : t k < 3 / 4) :
    msLookup mn d c =
      some (k,
        mn.getD k 0 + ((z k : Rat) + (if 0 ≤ z k then 0 else 2 * t k - 1)) * d,
        mn.getD k 0 + ((z k : Rat) + (if 0 ≤ z k then 0 else 2 * t k - 1)) * d + d) := by
  unfold msLookup
  rw [msLookup_go_drift d hd k mn c 0 z t ho hc hlat hmid h1 h2, Nat.zero_add]

end M3d.Bisect
