import M3d.Lemmas.TriScale
import Mathlib.Tactic.Ring
import Mathlib.Tactic.Linarith
/-!
Helper lemmas for C14, part 9: **placement** — translation by an arbitrary vector followed by a
change of the unit of length (`placeP k e f p = k·(p + (e,f))`, the harness's `O e f` / `S k`
headers).

* the certificate checker, the shoelace sign (`isClockwise`, the model of `isPolygonClockwise`) and
  every orientation determinant are invariant (areas scale by `k²`);
* the FAITHFUL model of `model2d.Triangulate` commutes with translation
  (`triangulate_translate`): every decision it takes (`removeColinear`, `isClockwise`, the convexity
  test, `blocks`) is a function of coordinate differences.
-/
set_option linter.unusedSectionVars false

namespace M3d.Tri
open M3d.Surface (Tri Edge swap triEdges dirEdges)

section Place
variable {K : Type} [Field K] [LinearOrder K] [IsStrictOrderedRing K]

theorem translate_eq_simMap (e f : K) (p : P2 K) : translate e f p = simMap 1 0 e f p := by
  simp only [translate, simMap]
  congr 1 <;> ring

theorem placeP_eq_simMap (k e f : K) (p : P2 K) : placeP k e f p = simMap k 0 (k * e) (k * f) p := by
  simp only [placeP, scaleP, translate, simMap]
  congr 1 <;> ring

theorem orient_translate (e f : K) (p q r : P2 K) :
    orient (translate e f p) (translate e f q) (translate e f r) = orient p q r := by
  simp only [orient, translate]; ring

theorem cross_translate (e f : K) (p q : P2 K) :
    cross (translate e f p) (translate e f q) = cross p q + (e * (q.y - p.y) - f * (q.x - p.x)) := by
  simp only [cross, translate]; ring

/-- Along an open path the shoelace sum changes by a boundary term only (it telescopes). -/
theorem pathSum_translate (e f : K) (a : P2 K) (t : List (P2 K)) :
    pathSum ((a :: t).map (translate e f)) =
      pathSum (a :: t) + (e * (((a :: t).getLast (by simp)).y - a.y) - f * (((a :: t).getLast (by simp)).x - a.x)) := by
  induction t generalizing a with
  | nil => simp
  | cons b t ih =>
    have h := ih b
    simp only [List.map_cons] at h
    simp only [List.map_cons, pathSum_cons_cons, h, cross_translate, List.getLast_cons_cons]
    ring

/-- **The shoelace area of a closed polygon does not depend on where the polygon is.** -/
theorem shoelace2_translate (e f : K) (l : List (P2 K)) :
    shoelace2 (l.map (translate e f)) = shoelace2 l := by
  cases l with
  | nil => simp [shoelace2]
  | cons a t =>
    have h := pathSum_translate e f a (t ++ [a])
    have hl : ((a :: (t ++ [a])).getLast (by simp)) = a := by
      simp
    rw [hl] at h
    simp only [List.map_cons, List.map_append, List.map_nil] at h
    simp only [List.map_cons, shoelace2_cons, List.cons_append]
    rw [h]; ring

theorem map_placeP (k e f : K) (l : List (P2 K)) :
    l.map (placeP k e f) = (l.map (translate e f)).map (scaleP k) := by
  simp [placeP, List.map_map, Function.comp_def]

theorem shoelace2_placeP (k e f : K) (l : List (P2 K)) :
    shoelace2 (l.map (placeP k e f)) = k * k * shoelace2 l := by
  rw [map_placeP, shoelace2_scaleP, shoelace2_translate]

/-- **`isPolygonClockwise` (as modelled) is invariant under translation** … -/
theorem isClockwise_translate (e f : K) (l : List (P2 K)) :
    isClockwise (l.map (translate e f)) = isClockwise l := by
  simp only [isClockwise, shoelace2_translate]

/-- … and under every placement (translation, then any non-zero change of unit). -/
theorem isClockwise_placeP (k e f : K) (hk : k ≠ 0) (l : List (P2 K)) :
    isClockwise (l.map (placeP k e f)) = isClockwise l := by
  simp only [isClockwise, shoelace2_placeP]
  have hp : 0 < k * k := mul_self_pos.2 hk
  have : (k * k * shoelace2 l < 0) ↔ (shoelace2 l < 0) :=
    ⟨fun h => by
        by_contra hn
        have := mul_nonneg hp.le (not_lt.1 hn)
        linarith,
     fun h => mul_neg_of_pos_of_neg hp h⟩
  simp only [this]

/-! ### the faithful model of `Triangulate` commutes with translation -/

theorem find?_congr_mem {α : Type} (l : List α) (p q : α → Bool) (h : ∀ x ∈ l, p x = q x) :
    l.find? p = l.find? q := by
  induction l with
  | nil => rfl
  | cons a t ih =>
    have ha := h a (by simp)
    have ht := ih fun x hx => h x (by simp [hx])
    simp only [List.find?_cons, ha, ht]

theorem all_congr_mem {α : Type} (l : List α) (p q : α → Bool) (h : ∀ x ∈ l, p x = q x) :
    l.all p = l.all q := by
  induction l with
  | nil => rfl
  | cons a t ih =>
    have ha := h a (by simp)
    have ht := ih fun x hx => h x (by simp [hx])
    simp only [List.all_cons, ha, ht]

theorem map_eraseIdx' {α β : Type} (g : α → β) (l : List α) (i : Nat) :
    (l.eraseIdx i).map g = (l.map g).eraseIdx i := by
  induction l generalizing i with
  | nil => simp
  | cons a t ih =>
    cases i with
    | zero => simp
    | succ j => simp [ih]

theorem getD_map_translate (e f : K) (l : List (P2 K)) (i : Nat) (hi : i < l.length) :
    (l.map (translate e f)).getD i zeroP = translate e f (l.getD i zeroP) := by
  simp [List.getD, hi]

theorem curAt_translate (e f : K) (l : List (P2 K)) (i : Nat) (hi : i < l.length) :
    curAt (l.map (translate e f)) i = translate e f (curAt l i) :=
  getD_map_translate e f l i hi

theorem prevAt_translate (e f : K) (l : List (P2 K)) (i : Nat) (hl : 0 < l.length) :
    prevAt (l.map (translate e f)) i = translate e f (prevAt l i) := by
  unfold prevAt
  rw [List.length_map]
  exact getD_map_translate e f l _ (Nat.mod_lt _ hl)

theorem nextAt_translate (e f : K) (l : List (P2 K)) (i : Nat) (hl : 0 < l.length) :
    nextAt (l.map (translate e f)) i = translate e f (nextAt l i) := by
  unfold nextAt
  rw [List.length_map]
  exact getD_map_translate e f l _ (Nat.mod_lt _ hl)

theorem earTri_translate (e f : K) (l : List (P2 K)) (i : Nat) (hi : i < l.length) :
    earTri (l.map (translate e f)) i =
      (translate e f (earTri l i).1, translate e f (earTri l i).2.1, translate e f (earTri l i).2.2) := by
  have hl : 0 < l.length := by omega
  simp only [earTri, prevAt_translate e f l i hl, curAt_translate e f l i hi, nextAt_translate e f l i hl]

theorem removeColinear_translate (e f : K) (l : List (P2 K)) :
    removeColinear (l.map (translate e f)) = (removeColinear l).map (translate e f) := by
  unfold removeColinear
  rw [List.length_map, List.map_filterMap]
  apply List.filterMap_congr
  intro i hi
  have hi' : i < l.length := List.mem_range.1 hi
  have hl : 0 < l.length := by omega
  rw [prevAt_translate e f l i hl, curAt_translate e f l i hi', nextAt_translate e f l i hl,
    orient_translate]
  split <;> simp

theorem blocks_translate (strictDiag : Bool) (e f : K) (p1 p2 p3 p : P2 K) :
    blocks strictDiag (translate e f p1) (translate e f p2) (translate e f p3) (translate e f p) =
      blocks strictDiag p1 p2 p3 p := by
  simp only [blocks, translate, add_sub_add_right_eq_sub]

theorem isVertexEar_translate (strictDiag : Bool) (e f : K) (l : List (P2 K)) (v : Nat)
    (hv : v < l.length) :
    isVertexEar strictDiag (l.map (translate e f)) v = isVertexEar strictDiag l v := by
  have hl : 0 < l.length := by omega
  unfold isVertexEar
  simp only [List.length_map, isClockwise_translate, prevAt_translate e f l v hl,
    curAt_translate e f l v hv, nextAt_translate e f l v hl, orient_translate]
  split
  · rfl
  · apply all_congr_mem
    intro i hi
    have hi' : i < l.length := List.mem_range.1 hi
    rw [curAt_translate e f l i hi', blocks_translate]

/-- The translate of a list of point triangles. -/
def mapTris (g : P2 K → P2 K) (ts : List (PTri K)) : List (PTri K) :=
  ts.map fun t => (g t.1, g t.2.1, g t.2.2)

/-- **`Triangulate` (the faithful model: colinear removal, first ear in index order with the exact
ear test, recursion, both panics) commutes with every translation**: translated input ⇒ the same
panics, the same ears in the same order, the translated triangles. -/
theorem triangulate_translate' (strictDiag : Bool) (e f : K) (fuel : Nat) (poly : List (P2 K)) :
    triangulate strictDiag fuel (poly.map (translate e f)) =
      (triangulate strictDiag fuel poly).map (mapTris (translate e f)) := by
  induction fuel generalizing poly with
  | zero => simp [triangulate]
  | succ n ih =>
    simp only [triangulate, removeColinear_translate, List.length_map]
    set p := removeColinear poly with hp
    by_cases h3 : p.length = 3
    · simp only [h3, if_true, Option.map_some, mapTris, List.map_cons, List.map_nil]
      rw [curAt_translate e f p 0 (by omega), curAt_translate e f p 1 (by omega),
        curAt_translate e f p 2 (by omega)]
    · simp only [h3, if_false]
      by_cases hlt : p.length < 3
      · simp [hlt]
      · simp only [hlt, if_false]
        have hfind : (List.range p.length).find? (isVertexEar strictDiag (p.map (translate e f))) =
            (List.range p.length).find? (isVertexEar strictDiag p) := by
          apply find?_congr_mem
          intro i hi
          exact isVertexEar_translate strictDiag e f p i (List.mem_range.1 hi)
        rw [hfind]
        cases hf : (List.range p.length).find? (isVertexEar strictDiag p) with
        | none => simp
        | some i =>
          have hi : i < p.length := List.mem_range.1 (List.mem_of_find?_eq_some hf)
          simp only [Option.map_map]
          rw [← map_eraseIdx', ih (p.eraseIdx i), Option.map_map, earTri_translate e f p i hi]
          congr 1
          funext ts
          simp [mapTris]

end Place

end M3d.Tri
