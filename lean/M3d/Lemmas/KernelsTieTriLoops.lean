import M3d.Gen.Kernels
import M3d.Model.Triangulate
import M3d.Lemmas.LoopFrom
import M3d.Lemmas.KernelsTieTriangulate
import Mathlib.Tactic.Ring
import Mathlib.Tactic.Linarith
import Mathlib.Algebra.Order.Field.Basic
/-!
# Tie between the REGENERATED loop kernels of `model2d/triangulate.go` and the C14 models

`M3d/Gen/Kernels.lean` contains (regenerated on every run from the current source) the translations of

* `model2d.removeColinearPoints` — a `for i, p2 := range poly` loop appending to `res`,
* `model2d.isPolygonClockwise`   — a loop summing the exterior angles `π − clockwiseAngle(p1,p2,p3)`,
* `model2d.isVertexEar`          — the convexity test and a loop returning `false` at the first blocking vertex,

as `loopFrom` recursions over the polygon (a `List`), with Go's index arithmetic on `Int`
(`(i+len-1)%len`, `(i+1)%len` as `Int.tmod`) and `math.Atan2` / `math.Sin` as the uninterpreted functions of
`HasLibm`.  The theorems below re-prove, against the CURRENT generated text and for every linear ordered field and
every interpretation of `atan2`/`sin`:

* **structure** (`*_struct`, no hypothesis): each generated loop IS the list function of the hand-written model —
  `filterMap` over `List.range n` with the model's cyclic neighbours `prevAt/curAt/nextAt` for
  `removeColinearPoints`, a left fold of `π − angle` over `List.range n` for `isPolygonClockwise`,
  `List.all` over `List.range n` with the three skipped positions and the generated point-in-ear test for
  `isVertexEar` — only the ANGLE PREDICATES stay as the generated code has them
  (`|sin θ| > 1e-8`, `Σ(π−θ) > 0`, `θ ≤ π`, `X+Y < 1+1e-8`);
* **model** (`*_tie`): under the explicit hypotheses that replace those predicates by the exact sign tests
  the model uses (`orient ≠ 0`, `shoelace2 < 0`, `orient ≤ 0`, `X+Y ≤ 1`) — the derivations documented next
  to the model definitions; they are statements about `atan2`/`sin` and the tolerance, not about the
  code — the generated function equals the model (`removeColinear`, `isClockwise`, `isVertexEar false`).

An edit of the Go loops (index arithmetic, skipped positions, order of the appends, the early return, the
matrix of the ear test) changes the generated text; then either the equations are still provable or this
file stops compiling and the check reports the broken obligation.
-/
namespace M3d.KernelsTie.TriLoops
open M3d.Tri M3d.Gen.Kernels M3d.GenPrelude M3d.KernelsTie.Triangulate
set_option linter.unusedSectionVars false
set_option linter.unusedVariables false
set_option linter.unusedSimpArgs false
set_option linter.unreachableTactic false
set_option linter.unusedTactic false

/-! ## loops over a list seen as loops over its positions -/

section Loops
variable {ρ σ ε : Type}

/-- A loop that never jumps, seen from the middle of the list (`pre` already consumed): a left fold over
the remaining POSITIONS, the element looked up in the whole list. -/
theorem foldlIdx_range' (g : σ → Nat → ε → σ) (d : ε) (pre suf : List ε) (s : σ) :
    foldlIdx g suf pre.length s =
      (List.range' pre.length suf.length).foldl (fun s i => g s i ((pre ++ suf).getD i d)) s := by
  induction suf generalizing pre s with
  | nil => rfl
  | cons x t ih =>
    have hx : (pre ++ x :: t).getD pre.length d = x := by
      simp [List.getD_eq_getElem?_getD]
    have := ih (pre ++ [x]) (g s pre.length x)
    simp only [List.length_append, List.length_cons, List.length_nil, List.append_assoc,
      List.cons_append, List.nil_append, Nat.zero_add] at this
    simp only [foldlIdx, List.length_cons, List.range'_succ, List.foldl_cons, hx]
    exact this

theorem foldlIdx_range (g : σ → Nat → ε → σ) (d : ε) (xs : List ε) (s : σ) :
    foldlIdx g xs 0 s = (List.range xs.length).foldl (fun s i => g s i (xs.getD i d)) s := by
  have := foldlIdx_range' g d [] xs s
  simpa [List.range_eq_range'] using this

/-- A loop whose only jump is `return c` at the first POSITION failing a test. -/
theorem loopFrom_all_idx' (f : σ → Nat → ε → Loop ρ σ) (p : Nat → ε → Bool) (c : ρ) (d : ε)
    (h : ∀ s i x, f s i x = if p i x then Loop.next s else Loop.ret c) (pre suf : List ε) (s : σ) :
    loopFrom f suf pre.length s =
      if (List.range' pre.length suf.length).all (fun i => p i ((pre ++ suf).getD i d))
      then Sum.inr s else Sum.inl c := by
  induction suf generalizing pre with
  | nil => rfl
  | cons x t ih =>
    have hx : (pre ++ x :: t).getD pre.length d = x := by
      simp [List.getD_eq_getElem?_getD]
    have := ih (pre ++ [x])
    simp only [List.length_append, List.length_cons, List.length_nil, List.append_assoc,
      List.cons_append, List.nil_append, Nat.zero_add] at this
    rw [loopFrom_cons, h]
    simp only [List.length_cons, List.range'_succ, List.all_cons, hx]
    by_cases hp : p pre.length x = true
    · simp only [hp, if_true, Bool.true_and]; exact this
    · have hp' : p pre.length x = false := by simpa using hp
      simp [hp']

theorem loopFrom_all_idx (f : σ → Nat → ε → Loop ρ σ) (p : Nat → ε → Bool) (c : ρ) (d : ε)
    (h : ∀ s i x, f s i x = if p i x then Loop.next s else Loop.ret c) (xs : List ε) (s : σ) :
    loopFrom f xs 0 s =
      if (List.range xs.length).all (fun i => p i (xs.getD i d)) then Sum.inr s else Sum.inl c := by
  have := loopFrom_all_idx' f p c d h [] xs s
  simpa [List.range_eq_range'] using this

/-- Appending the selected elements one by one is `filterMap`. -/
theorem foldl_append_filter {β : Type} (c : Nat → Bool) (F : Nat → β) (is : List Nat) (acc : List β) :
    is.foldl (fun acc i => if c i then acc ++ [F i] else acc) acc =
      acc ++ is.filterMap (fun i => if c i then some (F i) else none) := by
  induction is generalizing acc with
  | nil => simp
  | cons i t ih =>
    rw [List.foldl_cons, ih, List.filterMap_cons]
    by_cases hc : c i = true
    · simp [hc]
    · have : c i = false := by simpa using hc
      simp [this]

theorem all_congr_mem {α : Type} (l : List α) (p q : α → Bool) (h : ∀ x ∈ l, p x = q x) :
    l.all p = l.all q := by
  induction l with
  | nil => rfl
  | cons a t ih =>
    simp only [List.all_cons]
    rw [h a (by simp), ih (fun x hx => h x (by simp [hx]))]

end Loops

/-! ## Go's cyclic index arithmetic -/

theorem prevIdxInt (i n : Nat) (hn : 0 < n) :
    Int.tmod (((i : Int) + (n : Int)) - 1) (n : Int) = (((i + n - 1) % n : Nat) : Int) := by
  have h0 : (0 : Int) ≤ ((i : Int) + (n : Int)) - 1 := by omega
  rw [Int.tmod_eq_emod_of_nonneg h0]
  have : ((i : Int) + (n : Int)) - 1 = ((i + n - 1 : Nat) : Int) := by omega
  rw [this]
  exact (Int.natCast_mod _ _).symm

theorem nextIdxInt (i n : Nat) :
    Int.tmod ((i : Int) + 1) (n : Int) = (((i + 1) % n : Nat) : Int) := by
  have h0 : (0 : Int) ≤ (i : Int) + 1 := by omega
  rw [Int.tmod_eq_emod_of_nonneg h0]
  have : (i : Int) + 1 = ((i + 1 : Nat) : Int) := by omega
  rw [this]
  exact (Int.natCast_mod _ _).symm

theorem prevIdx (i n : Nat) :
    Int.toNat (Int.tmod (((i : Int) + (n : Int)) - 1) (n : Int)) = (i + n - 1) % n := by
  rcases Nat.eq_zero_or_pos n with hn | hn
  · subst hn
    simp only [Nat.cast_zero, Int.tmod_zero, Nat.mod_zero, Int.add_zero, Nat.add_zero]
    omega
  · rw [prevIdxInt i n hn, Int.toNat_natCast]

theorem nextIdx (i n : Nat) :
    Int.toNat (Int.tmod ((i : Int) + 1) (n : Int)) = (i + 1) % n := by
  rw [nextIdxInt, Int.toNat_natCast]

variable {K : Type} [Field K] [LinearOrder K] [IsStrictOrderedRing K] [HasSqrt K] [HasLibm K] [HasOfInt K] [HasInf K]

theorem getD_g2 (l : List (P2 K)) (k : Nat) :
    (l.map g2).getD k ({ X := (0 : K), Y := (0 : K) } : model2d.Coord K) = g2 (l.getD k zeroP) := by
  simp only [List.getD_eq_getElem?_getD, List.getElem?_map]
  cases l[k]? <;> rfl

/-- `clockwiseAngle` of the generated code at the cyclic neighbours of position `i`. -/
def angleAt (l : List (P2 K)) (i : Nat) : K :=
  model2d.clockwiseAngle (g2 (prevAt l i)) (g2 (curAt l i)) (g2 (nextAt l i))

/-- Go's `math.Pi` as the generated code has it. -/
def piF : K := (884279719003555 : K) / (281474976710656 : K)

/-! ## `removeColinearPoints` -/

/-- The generated predicate `math.Abs(math.Sin(theta)) > 1e-8` at position `i`. -/
def keepsG (l : List (P2 K)) (i : Nat) : Bool :=
  decide (absS (HasLibm.sin (angleAt l i)) > (1.0e-8 : K))

/-- **Structure of the generated `removeColinearPoints`**: a `filterMap` over the positions with the
model's cyclic neighbours; the kept points in their original order. -/
theorem removeColinearPoints_struct (l : List (P2 K)) :
    model2d.removeColinearPoints (l.map g2) =
      ((List.range l.length).filterMap fun i => if keepsG l i then some (curAt l i) else none).map g2 := by
  unfold model2d.removeColinearPoints
  simp only [Int.ofNat_eq_natCast]
  rw [loopFrom_eq_foldlIdx (ρ := List (model2d.Coord K)) _ (fun res i p2 =>
      if decide (absS (HasLibm.sin (model2d.clockwiseAngle
          ((l.map g2).getD (Int.toNat (Int.tmod (((i : Int) + ((l.map g2).length : Int)) - 1) ((l.map g2).length : Int))) ⟨0, 0⟩)
          p2
          ((l.map g2).getD (Int.toNat (Int.tmod ((i : Int) + 1) ((l.map g2).length : Int))) ⟨0, 0⟩))) > (1.0e-8 : K))
      then res ++ [p2] else res)]
  · simp only
    rw [foldlIdx_range _ (⟨0, 0⟩ : model2d.Coord K)]
    simp only [List.length_map, prevIdx, nextIdx, getD_g2]
    show List.foldl (fun acc i => if keepsG l i = true then acc ++ [g2 (curAt l i)] else acc) []
        (List.range l.length) = _
    rw [foldl_append_filter (fun i => keepsG l i) (fun i => g2 (curAt l i)), List.nil_append,
      List.map_filterMap]
    apply List.filterMap_congr
    intro i _
    by_cases hk : keepsG l i = true
    · simp [hk]
    · have : keepsG l i = false := by simpa using hk
      simp [this]
  · intro s i x
    split <;> rfl

/-- **`removeColinearPoints_tie`.**  Under the model's reading of the angle predicate
(`|sin θ| > 1e-8` at a vertex ⇔ the vertex and its neighbours are not colinear, `orient ≠ 0`), the
generated `removeColinearPoints` is the model `removeColinear`. -/
theorem removeColinearPoints_tie (l : List (P2 K))
    (hsin : ∀ i, i < l.length →
      keepsG l i = !decide (orient (prevAt l i) (curAt l i) (nextAt l i) = 0)) :
    model2d.removeColinearPoints (l.map g2) = (removeColinear l).map g2 := by
  rw [removeColinearPoints_struct]
  unfold removeColinear
  congr 1
  apply List.filterMap_congr
  intro i hi
  rw [hsin i (List.mem_range.1 hi)]
  by_cases h0 : orient (prevAt l i) (curAt l i) (nextAt l i) = 0 <;> simp [h0]

/-! ## `isPolygonClockwise` -/

/-- Σ of the exterior angles `π − clockwiseAngle` as the generated code accumulates it. -/
def extAngleSum (l : List (P2 K)) : K :=
  (List.range l.length).foldl (fun s i => s + (piF - angleAt l i)) 0

/-- **Structure of the generated `isPolygonClockwise`**: the sum of the exterior angles over the
positions (model neighbours), compared with zero. -/
theorem isPolygonClockwise_struct (l : List (P2 K)) :
    model2d.isPolygonClockwise (l.map g2) = decide (extAngleSum l > 0) := by
  unfold model2d.isPolygonClockwise
  simp only [Int.ofNat_eq_natCast]
  rw [loopFrom_eq_foldlIdx (ρ := Bool) _ (fun (s : K) i p2 =>
      s + (piF - model2d.clockwiseAngle
          ((l.map g2).getD (Int.toNat (Int.tmod (((i : Int) + ((l.map g2).length : Int)) - 1) ((l.map g2).length : Int))) ⟨0, 0⟩)
          p2
          ((l.map g2).getD (Int.toNat (Int.tmod ((i : Int) + 1) ((l.map g2).length : Int))) ⟨0, 0⟩)))]
  · simp only
    rw [foldlIdx_range _ (⟨0, 0⟩ : model2d.Coord K)]
    simp only [List.length_map, prevIdx, nextIdx, getD_g2]
    rfl
  · intro s i x
    rfl

/-- **`isPolygonClockwise_tie`.**  Under the model's reading of the angle sum (for a simple polygon the
exterior angles sum to `+2π` exactly when it runs clockwise, i.e. when its shoelace area is negative — the
turning-number theorem, a hypothesis here), the generated `isPolygonClockwise` is the model `isClockwise`. -/
theorem isPolygonClockwise_tie (l : List (P2 K))
    (hturn : (extAngleSum l > 0) ↔ shoelace2 l < 0) :
    model2d.isPolygonClockwise (l.map g2) = isClockwise l := by
  rw [isPolygonClockwise_struct]
  unfold isClockwise
  exact decide_eq_decide.2 hturn

/-! ## `isVertexEar` -/

/-- `1 + earDiagonalEpsilon` as the generated code has it. -/
def epsC : K := (1125899918101623 : K) / (1125899906842624 : K)

/-- The generated point-in-ear test on a generated point `x`:
`coords.X > 0 && coords.Y > 0 && coords.X+coords.Y < 1+1e-8` on `coords = inverseMat.MulColumn(x.Sub(p2))`. -/
def blkG (p1 p2 p3 : P2 K) (x : model2d.Coord K) : Bool :=
  let co := model2d.Matrix2_MulColumn
    (model2d.Matrix2_Inverse ⟨p1.x - p2.x, p3.x - p2.x, p1.y - p2.y, p3.y - p2.y⟩)
    (model2d.Coord_Sub x (g2 p2))
  decide (co.X > 0) && decide (co.Y > 0) && decide (co.X + co.Y < epsC)

/-- … on a model point (`earCoords` of `KernelsTieTriangulate`). -/
def blocksG (p1 p2 p3 p : P2 K) : Bool :=
  decide ((earCoords p1 p2 p3 p).X > 0) && decide ((earCoords p1 p2 p3 p).Y > 0) &&
    decide ((earCoords p1 p2 p3 p).X + (earCoords p1 p2 p3 p).Y < epsC)

theorem blkG_g2 (p1 p2 p3 p : P2 K) : blkG p1 p2 p3 (g2 p) = blocksG p1 p2 p3 p := rfl

theorem body_eq (A B : Bool) (s : Unit) :
    (if A = true then (Loop.next () : Loop Bool Unit) else if B = true then Loop.ret false else Loop.next ())
      = if (A || !B) = true then Loop.next s else Loop.ret false := by
  cases A <;> cases B <;> rfl

/-- one iteration of the generated loop passes (does not return `false`) -/
def passG (l : List (P2 K)) (v : Nat) (i : Nat) (x : model2d.Coord K) : Bool :=
  (decide ((i : Int) = (((v + l.length - 1) % l.length : Nat) : Int)) || decide ((i : Int) = (v : Int)) ||
    decide ((i : Int) = (((v + 1) % l.length : Nat) : Int))) ||
  !blkG (prevAt l v) (curAt l v) (nextAt l v) x

/-- **Structure of the generated `isVertexEar`** (for an in-range vertex): the convexity test against the
generated `isPolygonClockwise`, then `List.all` over the positions, skipping the ear's own three
positions `(v+n-1)%n, v, (v+1)%n`, with the generated point-in-ear test. -/
theorem isVertexEar_struct (l : List (P2 K)) (v : Nat) (hv : v < l.length) :
    model2d.isVertexEar (l.map g2) (Int.ofNat v) =
      (if (model2d.isPolygonClockwise (l.map g2) != decide (angleAt l v ≤ piF)) then false
       else (List.range l.length).all fun i =>
        i == (v + l.length - 1) % l.length || i == v || i == (v + 1) % l.length ||
          !blocksG (prevAt l v) (curAt l v) (nextAt l v) (curAt l i)) := by
  have hn : 0 < l.length := Nat.lt_of_le_of_lt (Nat.zero_le _) hv
  unfold model2d.isVertexEar
  simp only [Int.ofNat_eq_natCast, List.length_map, prevIdxInt v l.length hn, nextIdxInt, Int.toNat_natCast,
    getD_g2]
  have hθ : model2d.clockwiseAngle (g2 (l.getD ((v + l.length - 1) % l.length) zeroP)) (g2 (l.getD v zeroP))
      (g2 (l.getD ((v + 1) % l.length) zeroP)) = angleAt l v := rfl
  rw [hθ]
  have hpi : ((884279719003555 : K) / (281474976710656 : K)) = piF := rfl
  rw [hpi]
  by_cases hc : (model2d.isPolygonClockwise (l.map g2) != decide (angleAt l v ≤ piF)) = true
  · rw [if_pos hc, if_pos]
    simpa using hc
  · rw [if_neg hc, if_neg (by simpa using hc)]
    rw [loopFrom_all_idx (ρ := Bool) (σ := Unit) _ (passG l v) false (⟨0, 0⟩ : model2d.Coord K)]
    · have hall : ((List.range (l.map g2).length).all fun i => passG l v i ((l.map g2).getD i ⟨0, 0⟩))
          = ((List.range l.length).all fun i =>
              i == (v + l.length - 1) % l.length || i == v || i == (v + 1) % l.length ||
                !blocksG (prevAt l v) (curAt l v) (nextAt l v) (curAt l i)) := by
        rw [List.length_map]
        congr 1
        funext i
        rw [getD_g2]
        unfold passG
        rw [blkG_g2]
        simp only [Int.natCast_inj, curAt]
        congr 1
      rw [hall]
      generalize ((List.range l.length).all fun i =>
              i == (v + l.length - 1) % l.length || i == v || i == (v + 1) % l.length ||
                !blocksG (prevAt l v) (curAt l v) (nextAt l v) (curAt l i)) = b
      cases b <;> rfl
    · intro s i x
      exact body_eq _ _ s

/-- The tolerance of the point-in-ear test is invisible when no vertex has `1 < X+Y < 1+1e-8`
(on the exact side the test is the closed `X+Y ≤ 1`: a vertex ON the diagonal blocks the ear). -/
theorem blocksG_eq_blocks (p1 p2 p3 p : P2 K)
    (hgap : ¬ (1 < (earCoords p1 p2 p3 p).X + (earCoords p1 p2 p3 p).Y ∧
              (earCoords p1 p2 p3 p).X + (earCoords p1 p2 p3 p).Y < epsC))
    (heps : (1 : K) < epsC) :
    blocksG p1 p2 p3 p = blocks false p1 p2 p3 p := by
  rw [blocks_tie]
  simp only [blocksG, gt_iff_lt, Bool.false_eq_true, if_false]
  congr 1
  apply decide_eq_decide.2
  constructor
  · intro h
    by_contra hle
    exact hgap ⟨not_le.1 hle, h⟩
  · intro h
    exact lt_of_le_of_lt h heps

/-- **`isVertexEar_tie`.**  Under the model's reading of the two angle tests (the generated
`isPolygonClockwise` is the shoelace sign; `clockwiseAngle(p1,p2,p3) ≤ π` ⇔ `orient p1 p2 p3 ≤ 0`) and
when no vertex lies within the tolerance band of the ear's diagonal, the generated `isVertexEar` is the
model `isVertexEar false` (the repaired, closed-diagonal ear test). -/
theorem isVertexEar_tie (l : List (P2 K)) (v : Nat) (hv : v < l.length)
    (hcw : model2d.isPolygonClockwise (l.map g2) = isClockwise l)
    (hang : decide (angleAt l v ≤ piF) = decide (orient (prevAt l v) (curAt l v) (nextAt l v) ≤ 0))
    (hgap : ∀ i, i < l.length →
      blocksG (prevAt l v) (curAt l v) (nextAt l v) (curAt l i)
        = blocks false (prevAt l v) (curAt l v) (nextAt l v) (curAt l i)) :
    model2d.isVertexEar (l.map g2) (Int.ofNat v) = isVertexEar false l v := by
  rw [isVertexEar_struct l v hv, hcw, hang]
  unfold isVertexEar
  simp only
  split
  · rfl
  · apply all_congr_mem
    intro i hi
    rw [hgap i (List.mem_range.1 hi)]

/-! ## non-vacuity: the hypotheses hold for the clockwise unit square under a quadrant-exact `atan2`

`atan2` and `sin` are interpreted on `ℚ` by functions that are exact at the multiples of a quarter turn
(all the angles of the square), with the generated code's rational `π`. -/

section NonVacuity

@[reducible] def quadLibm : HasLibm ℚ where
  cos := id
  sin := fun t => if t = 0 ∨ t = piF then 0 else if t < piF then 1 else -1
  tan := id
  acos := id
  asin := id
  atan := id
  exp := id
  log := id
  pow := fun x _ => x
  atan2 := fun y x => if y = 0 then (if x < 0 then piF else 0) else if 0 < y then piF / 2 else -(piF / 2)

@[reducible] def sq : List (P2 ℚ) := [⟨0, 0⟩, ⟨0, 1⟩, ⟨1, 1⟩, ⟨1, 0⟩]

example :
    (letI : HasSqrt ℚ := ⟨id⟩; letI : HasOfInt ℚ := ⟨fun i => (i : ℚ)⟩; letI : HasInf ℚ := ⟨0, 0, fun _ => false⟩
     letI := quadLibm
     (∀ i, i < sq.length → keepsG sq i = !decide (orient (prevAt sq i) (curAt sq i) (nextAt sq i) = 0)) ∧
     ((extAngleSum sq > 0) ↔ shoelace2 sq < 0) ∧
     (∀ v, v < sq.length →
        decide (angleAt sq v ≤ piF) = decide (orient (prevAt sq v) (curAt sq v) (nextAt sq v) ≤ 0)) ∧
     (∀ v, v < sq.length → ∀ i, i < sq.length →
        blocksG (prevAt sq v) (curAt sq v) (nextAt sq v) (curAt sq i)
          = blocks false (prevAt sq v) (curAt sq v) (nextAt sq v) (curAt sq i)) ∧
     model2d.isVertexEar (sq.map g2) (Int.ofNat 1) = true) := by
  decide +kernel

end NonVacuity

end M3d.KernelsTie.TriLoops
