import M3d.Gen.Kernels
import M3d.Model.DualContour
import Mathlib.Tactic.Ring
import Mathlib.Algebra.Order.Field.Basic
import Mathlib.Tactic.Push
import Mathlib.Tactic.NormNum
import Mathlib.Tactic.Positivity
/-!
# Tie between the REGENERATED kernels and the dual-contouring layout model of C02 (`M3d/Model/DualContour.lean`)

The index functions of `dcCubeLayout` (model3d/dc.go) — `cornerIdx`, `cubeCoord` (with Go's truncating
`%` and `/=`), `edgeCounts`, `xEdgeIdx`, `yEdgeIdx`, `zEdgeIdx` — as the source defines them NOW, with
`nx = len(d.Xs)`, `ny = len(d.Ys)`, are the functions `cornerIdx`, `cubeCoord`, `xCount/yCount/zCount`,
`x/y/zEdgeIdx` of the layout / edge–cube consistency theorems, for every layout with at least one sample
per axis and all non-negative arguments; and the composite `CubeEdges`, `CubeCorners`, `EdgeCorners` are the
lists `cubeEdges`, `cubeCorners` and the pair `edgeCorners` of the model, entry by entry.
-/
namespace M3d.KernelsTie.DC
open M3d.DC M3d.Gen.Kernels
set_option linter.unusedSectionVars false
set_option linter.unusedVariables false
set_option linter.unusedSimpArgs false

variable {α : Type}

theorem len_cast (xs : List α) : Int.ofNat xs.length = (xs.length : Int) := rfl

theorem cornerIdx_eq (d : model3d.dcCubeLayout α) (x y z : Nat) :
    model3d.dcCubeLayout_cornerIdx d x y z = (cornerIdx d.Xs.length d.Ys.length x y z : Int) := by
  simp only [model3d.dcCubeLayout_cornerIdx, cornerIdx, len_cast]
  push_cast
  ring

theorem edgeCounts_eq (d : model3d.dcCubeLayout α) (hx : 1 ≤ d.Xs.length) (hy : 1 ≤ d.Ys.length) :
    model3d.dcCubeLayout_edgeCounts d =
      ((xCount d.Xs.length d.Ys.length : Int), (yCount d.Xs.length d.Ys.length : Int),
        (zCount d.Xs.length d.Ys.length : Int)) := by
  simp only [model3d.dcCubeLayout_edgeCounts, xCount, yCount, zCount, len_cast]
  push_cast [Nat.cast_sub hx, Nat.cast_sub hy]
  rfl

theorem xEdgeIdx_eq (d : model3d.dcCubeLayout α) (hx : 1 ≤ d.Xs.length) (hy : 1 ≤ d.Ys.length) (x y z : Nat) :
    model3d.dcCubeLayout_xEdgeIdx d x y z = (xEdgeIdx d.Xs.length d.Ys.length x y z : Int) := by
  simp only [model3d.dcCubeLayout_xEdgeIdx, edgeCounts_eq d hx hy, xEdgeIdx, layerEdges, len_cast]
  push_cast [Nat.cast_sub hx]
  ring

theorem yEdgeIdx_eq (d : model3d.dcCubeLayout α) (hx : 1 ≤ d.Xs.length) (hy : 1 ≤ d.Ys.length) (x y z : Nat) :
    model3d.dcCubeLayout_yEdgeIdx d x y z = (yEdgeIdx d.Xs.length d.Ys.length x y z : Int) := by
  simp only [model3d.dcCubeLayout_yEdgeIdx, edgeCounts_eq d hx hy, yEdgeIdx, layerEdges, len_cast]
  push_cast
  ring

theorem zEdgeIdx_eq (d : model3d.dcCubeLayout α) (hx : 1 ≤ d.Xs.length) (hy : 1 ≤ d.Ys.length) (x y z : Nat) :
    model3d.dcCubeLayout_zEdgeIdx d x y z = (zEdgeIdx d.Xs.length d.Ys.length x y z : Int) := by
  simp only [model3d.dcCubeLayout_zEdgeIdx, edgeCounts_eq d hx hy, zEdgeIdx, layerEdges, len_cast]
  push_cast
  ring

theorem tmod_cast (a b : Nat) : Int.tmod (a : Int) (b : Int) = ((a % b : Nat) : Int) := by
  rw [Int.tmod_eq_emod_of_nonneg (by positivity)]
  push_cast
  rfl

theorem tdiv_cast (a b : Nat) : Int.tdiv (a : Int) (b : Int) = ((a / b : Nat) : Int) := by
  rw [Int.tdiv_eq_ediv_of_nonneg (by positivity)]
  push_cast
  rfl

/-- `cubeCoord` (`x = c % (nx-1); c /= nx-1; y = c % (ny-1); c /= ny-1; z = c`). -/
theorem cubeCoord_eq (d : model3d.dcCubeLayout α) (hx : 1 ≤ d.Xs.length) (hy : 1 ≤ d.Ys.length) (c : Nat) :
    model3d.dcCubeLayout_cubeCoord d c =
      (let r := cubeCoord d.Xs.length d.Ys.length c; ((r.1 : Int), (r.2.1 : Int), (r.2.2 : Int))) := by
  have h1 : (Int.ofNat d.Xs.length - 1 : Int) = ((d.Xs.length - 1 : Nat) : Int) := by
    rw [len_cast]; exact (Nat.cast_sub hx).symm
  have h2 : (Int.ofNat d.Ys.length - 1 : Int) = ((d.Ys.length - 1 : Nat) : Int) := by
    rw [len_cast]; exact (Nat.cast_sub hy).symm
  simp only [model3d.dcCubeLayout_cubeCoord, cubeCoord, h1, h2, tmod_cast, tdiv_cast]

/-! ### round 3: the remaining translatable index functions (`CubeEdges`, `CubeCorners`, `EdgeCorners`);
`EdgeCubes` uses a function literal and is outside the translator's subset (tied by the exhaustive `dcidx` correspondence). -/

theorem succ_cast (a : Nat) : ((a : Int) + (1 : Int)) = ((a + 1 : Nat) : Int) := by push_cast; rfl
theorem zero_add_cast (a : Nat) : ((a : Int) + (0 : Int)) = ((a : Nat) : Int) := by simp

/-- `CubeEdges(c)`: the twelve edges of a cube, in the order of the source. -/
theorem cubeEdges_eq (d : model3d.dcCubeLayout α) (hx : 1 ≤ d.Xs.length) (hy : 1 ≤ d.Ys.length) (c : Nat) :
    (let r := model3d.dcCubeLayout_CubeEdges d c
     [r.e0, r.e1, r.e2, r.e3, r.e4, r.e5, r.e6, r.e7, r.e8, r.e9, r.e10, r.e11]) =
      (cubeEdges d.Xs.length d.Ys.length c).map (fun n => (n : Int)) := by
  simp only [model3d.dcCubeLayout_CubeEdges, cubeCoord_eq d hx hy, succ_cast, xEdgeIdx_eq d hx hy,
    yEdgeIdx_eq d hx hy, zEdgeIdx_eq d hx hy, cubeEdges, cubeEdgesC, edgeEncode, List.map_cons, List.map_nil]
  rfl

/-- `CubeCorners(c)`: `result[k + 2j + 4i] = (x+k) + ((y+j) + (z+i)·len(Ys))·len(Xs)`. -/
theorem cubeCorners_eq (d : model3d.dcCubeLayout α) (hx : 1 ≤ d.Xs.length) (hy : 1 ≤ d.Ys.length) (c : Nat) :
    (let r := model3d.dcCubeLayout_CubeCorners d c
     [r.e0, r.e1, r.e2, r.e3, r.e4, r.e5, r.e6, r.e7]) =
      (cubeCorners d.Xs.length d.Ys.length c).map (fun n => (n : Int)) := by
  simp only [model3d.dcCubeLayout_CubeCorners, cubeCoord_eq d hx hy, cubeCorners, cornerIdx, len_cast,
    List.map_cons, List.map_nil]
  push_cast
  simp

/-- `EdgeCorners(e)`: decode the flat edge index (layer, then X-, Y-, Z-edges inside the layer, with Go's
truncating `/` and `%`) and return the flat indices of the two ends, lower end first. -/
theorem edgeCorners_eq (d : model3d.dcCubeLayout α) (hx : 1 ≤ d.Xs.length) (hy : 1 ≤ d.Ys.length) (e : Nat) :
    (let r := model3d.dcCubeLayout_EdgeCorners d e
     (r.e0, r.e1)) =
      (((edgeCorners d.Xs.length d.Ys.length e).1 : Int), ((edgeCorners d.Xs.length d.Ys.length e).2 : Int)) := by
  have hL : ((xCount d.Xs.length d.Ys.length : Int) + (yCount d.Xs.length d.Ys.length : Int)) +
      (zCount d.Xs.length d.Ys.length : Int) = ((layerEdges d.Xs.length d.Ys.length : Nat) : Int) := by
    simp only [layerEdges]; push_cast; ring
  have hXY : ((xCount d.Xs.length d.Ys.length : Int) + (yCount d.Xs.length d.Ys.length : Int)) =
      ((xCount d.Xs.length d.Ys.length + yCount d.Xs.length d.Ys.length : Nat) : Int) := by push_cast; rfl
  have h1 : (Int.ofNat d.Xs.length - 1 : Int) = ((d.Xs.length - 1 : Nat) : Int) := by
    rw [len_cast]; exact (Nat.cast_sub hx).symm
  have h1' : ((d.Xs.length : Int) - 1) = ((d.Xs.length - 1 : Nat) : Int) := (Nat.cast_sub hx).symm
  simp only [model3d.dcCubeLayout_EdgeCorners, edgeCounts_eq d hx hy, hL, h1, h1', len_cast, tdiv_cast, tmod_cast,
    edgeCorners, edgeDecode, Nat.cast_lt, decide_eq_true_eq]
  by_cases hA : e % layerEdges d.Xs.length d.Ys.length < xCount d.Xs.length d.Ys.length
  · simp only [hA, if_true, edgeCornersC, h1', tdiv_cast, tmod_cast, succ_cast, cornerIdx_eq]
  · have hge : xCount d.Xs.length d.Ys.length ≤ e % layerEdges d.Xs.length d.Ys.length := Nat.le_of_not_lt hA
    simp only [hA, if_false, hXY, Nat.cast_lt]
    by_cases hB : e % layerEdges d.Xs.length d.Ys.length < xCount d.Xs.length d.Ys.length + yCount d.Xs.length d.Ys.length
    · have hs : ((e % layerEdges d.Xs.length d.Ys.length : Nat) : Int) - (xCount d.Xs.length d.Ys.length : Int) =
          ((e % layerEdges d.Xs.length d.Ys.length - xCount d.Xs.length d.Ys.length : Nat) : Int) :=
        (Nat.cast_sub hge).symm
      simp only [hB, if_true, hs, tdiv_cast, tmod_cast, edgeCornersC, succ_cast, cornerIdx_eq]
    · have hge2 : xCount d.Xs.length d.Ys.length + yCount d.Xs.length d.Ys.length ≤ e % layerEdges d.Xs.length d.Ys.length :=
        Nat.le_of_not_lt hB
      have hs : ((e % layerEdges d.Xs.length d.Ys.length : Nat) : Int) -
          ((xCount d.Xs.length d.Ys.length + yCount d.Xs.length d.Ys.length : Nat) : Int) =
          ((e % layerEdges d.Xs.length d.Ys.length - (xCount d.Xs.length d.Ys.length + yCount d.Xs.length d.Ys.length) : Nat) : Int) :=
        (Nat.cast_sub hge2).symm
      simp only [hB, if_false, hs, tdiv_cast, tmod_cast, edgeCornersC, succ_cast, cornerIdx_eq]

/-! ### `CubeMinMax`: the box `Clip` clamps a vertex into is the bounding box of the cube's eight corners

`populateCubes` clips the QEF solution with `p.Max(min + margin).Min(max - margin)` where `min, max =
layout.CubeMinMax(c)`.  Against the REGENERATED `CubeMinMax` (eight unrolled `Min`/`Max` steps over
`CubeCorners(c)`): for every layout — whatever the `Corners` array holds — the result contains the stored
coordinate of each of the cube's eight corners, component by component.  With `dc_clip_in_cell` the clipped
vertex lies in that box shrunk by the margin; a `CubeMinMax` that looked at fewer corners, or at the corners
of another cube, is not provably such a box and breaks this file. -/
section MinMax
open M3d.GenPrelude
variable {K : Type} [Field K] [LinearOrder K] [IsStrictOrderedRing K]

theorem mn_le_left (a b : K) : mn a b ≤ a := by unfold mn; split <;> [exact le_of_lt ‹_›; exact le_refl _]
theorem mn_le_right (a b : K) : mn a b ≤ b := by unfold mn; split <;> [exact le_refl _; exact not_lt.1 ‹_›]
theorem le_mx_left (a b : K) : a ≤ mx a b := by unfold mx; split <;> [exact le_of_lt ‹_›; exact le_refl _]
theorem le_mx_right (a b : K) : b ≤ mx a b := by unfold mx; split <;> [exact le_refl _; exact not_lt.1 ‹_›]

/-- componentwise `p ≤ q` -/
def cle (p q : model3d.Coord3D K) : Prop := p.X ≤ q.X ∧ p.Y ≤ q.Y ∧ p.Z ≤ q.Z

theorem box8 (v0 v1 v2 v3 v4 v5 v6 v7 v : model3d.Coord3D K)
    (h : v = v0 ∨ v = v1 ∨ v = v2 ∨ v = v3 ∨ v = v4 ∨ v = v5 ∨ v = v6 ∨ v = v7) :
    (mn (mn (mn (mn (mn (mn (mn v0.X v1.X) v2.X) v3.X) v4.X) v5.X) v6.X) v7.X ≤ v.X ∧ mn (mn (mn (mn (mn (mn (mn v0.Y v1.Y) v2.Y) v3.Y) v4.Y) v5.Y) v6.Y) v7.Y ≤ v.Y ∧ mn (mn (mn (mn (mn (mn (mn v0.Z v1.Z) v2.Z) v3.Z) v4.Z) v5.Z) v6.Z) v7.Z ≤ v.Z) ∧
    (v.X ≤ mx (mx (mx (mx (mx (mx (mx v0.X v1.X) v2.X) v3.X) v4.X) v5.X) v6.X) v7.X ∧ v.Y ≤ mx (mx (mx (mx (mx (mx (mx v0.Y v1.Y) v2.Y) v3.Y) v4.Y) v5.Y) v6.Y) v7.Y ∧ v.Z ≤ mx (mx (mx (mx (mx (mx (mx v0.Z v1.Z) v2.Z) v3.Z) v4.Z) v5.Z) v6.Z) v7.Z) := by
  rcases h with h | h | h | h | h | h | h | h <;> subst h <;>
    refine ⟨⟨?_, ?_, ?_⟩, ⟨?_, ?_, ?_⟩⟩ <;>
    repeat (first
      | exact mn_le_right _ _
      | exact mn_le_left _ _
      | exact le_mx_right _ _
      | exact le_mx_left _ _
      | refine le_trans (mn_le_left _ _) ?_
      | refine le_trans ?_ (le_mx_left _ _))

theorem corner_disj (d : model3d.dcCubeLayout K) (c idx : Int)
    (h : idx = (model3d.dcCubeLayout_CubeCorners d c).e0 ∨ idx = (model3d.dcCubeLayout_CubeCorners d c).e1 ∨ idx = (model3d.dcCubeLayout_CubeCorners d c).e2 ∨ idx = (model3d.dcCubeLayout_CubeCorners d c).e3 ∨ idx = (model3d.dcCubeLayout_CubeCorners d c).e4 ∨ idx = (model3d.dcCubeLayout_CubeCorners d c).e5 ∨ idx = (model3d.dcCubeLayout_CubeCorners d c).e6 ∨ idx = (model3d.dcCubeLayout_CubeCorners d c).e7) :
    (model3d.dcCubeLayout_Corner d idx).Coord = (model3d.dcCubeLayout_Corner d (model3d.dcCubeLayout_CubeCorners d c).e0).Coord ∨
    (model3d.dcCubeLayout_Corner d idx).Coord = (model3d.dcCubeLayout_Corner d (model3d.dcCubeLayout_CubeCorners d c).e1).Coord ∨
    (model3d.dcCubeLayout_Corner d idx).Coord = (model3d.dcCubeLayout_Corner d (model3d.dcCubeLayout_CubeCorners d c).e2).Coord ∨
    (model3d.dcCubeLayout_Corner d idx).Coord = (model3d.dcCubeLayout_Corner d (model3d.dcCubeLayout_CubeCorners d c).e3).Coord ∨
    (model3d.dcCubeLayout_Corner d idx).Coord = (model3d.dcCubeLayout_Corner d (model3d.dcCubeLayout_CubeCorners d c).e4).Coord ∨
    (model3d.dcCubeLayout_Corner d idx).Coord = (model3d.dcCubeLayout_Corner d (model3d.dcCubeLayout_CubeCorners d c).e5).Coord ∨
    (model3d.dcCubeLayout_Corner d idx).Coord = (model3d.dcCubeLayout_Corner d (model3d.dcCubeLayout_CubeCorners d c).e6).Coord ∨
    (model3d.dcCubeLayout_Corner d idx).Coord = (model3d.dcCubeLayout_Corner d (model3d.dcCubeLayout_CubeCorners d c).e7).Coord := by
  rcases h with h | h | h | h | h | h | h | h
  · exact Or.inl (by rw [h])
  · exact Or.inr (Or.inl (by rw [h]))
  · exact Or.inr (Or.inr (Or.inl (by rw [h])))
  · exact Or.inr (Or.inr (Or.inr (Or.inl (by rw [h]))))
  · exact Or.inr (Or.inr (Or.inr (Or.inr (Or.inl (by rw [h])))))
  · exact Or.inr (Or.inr (Or.inr (Or.inr (Or.inr (Or.inl (by rw [h]))))))
  · exact Or.inr (Or.inr (Or.inr (Or.inr (Or.inr (Or.inr (Or.inl (by rw [h])))))))
  · exact Or.inr (Or.inr (Or.inr (Or.inr (Or.inr (Or.inr (Or.inr ((by rw [h]))))))))

theorem cubeMinMax_covers (d : model3d.dcCubeLayout K) (c idx : Int)
    (hidx : idx ∈ [(model3d.dcCubeLayout_CubeCorners d c).e0, (model3d.dcCubeLayout_CubeCorners d c).e1, (model3d.dcCubeLayout_CubeCorners d c).e2, (model3d.dcCubeLayout_CubeCorners d c).e3, (model3d.dcCubeLayout_CubeCorners d c).e4, (model3d.dcCubeLayout_CubeCorners d c).e5, (model3d.dcCubeLayout_CubeCorners d c).e6, (model3d.dcCubeLayout_CubeCorners d c).e7]) :
    cle (model3d.dcCubeLayout_CubeMinMax d c).1 (model3d.dcCubeLayout_Corner d idx).Coord ∧
    cle (model3d.dcCubeLayout_Corner d idx).Coord (model3d.dcCubeLayout_CubeMinMax d c).2 := by
  simp only [List.mem_cons, List.mem_nil_iff, or_false] at hidx
  simp only [model3d.dcCubeLayout_CubeMinMax, model3d.Coord3D_Min, model3d.Coord3D_Max, cle]
  simp only [show ((1 : Int) = 0) = False from by simp,
    show ((2 : Int) = 0) = False from by simp, show ((3 : Int) = 0) = False from by simp,
    show ((4 : Int) = 0) = False from by simp, show ((5 : Int) = 0) = False from by simp,
    show ((6 : Int) = 0) = False from by simp, show ((7 : Int) = 0) = False from by simp,
    decide_true, decide_false, if_true, Bool.false_eq_true, if_false]
  exact box8 _ _ _ _ _ _ _ _ _ (corner_disj d c idx hidx)
end MinMax

end M3d.KernelsTie.DC
