import M3d.Gen.Kernels
import M3d.Model.DualContour
import Mathlib.Tactic.Ring
import Mathlib.Tactic.Push
import Mathlib.Tactic.NormNum
import Mathlib.Tactic.Positivity
/-!
# Tie between the REGENERATED kernels and the dual-contouring layout model of C02 (`M3d/Model/DualContour.lean`)

The index functions of `dcCubeLayout` (model3d/dc.go) — `cornerIdx`, `cubeCoord` (with Go's truncating
`%` and `/=`), `edgeCounts`, `xEdgeIdx`, `yEdgeIdx`, `zEdgeIdx` — as the source defines them NOW, with
`nx = len(d.Xs)`, `ny = len(d.Ys)`, are the functions `cornerIdx`, `cubeCoord`, `xCount/yCount/zCount`,
`x/y/zEdgeIdx` of the layout / edge–cube consistency theorems, for every layout with at least one sample
per axis and all non-negative arguments.
-/
namespace M3d.KernelsTie.DC
open M3d.DC M3d.Gen.Kernels
set_option linter.unusedSectionVars false
set_option linter.unusedVariables false
set_option linter.unusedSimpArgs false

variable {α : Type}

theorem len_cast (xs : List α) : Int.ofNat xs.length = (xs.length : Int) := rfl

theorem cornerIdx_eq (d : model3d.dcCubeLayout α) (x y z : Nat) :
    model3d.dcCubeLayout_cornerIdx d x y z = (cornerIdx d.Xs.length d.Ys.length x y z : Int) := by
  simp only [model3d.dcCubeLayout_cornerIdx, cornerIdx, len_cast]
  push_cast
  ring

theorem edgeCounts_eq (d : model3d.dcCubeLayout α) (hx : 1 ≤ d.Xs.length) (hy : 1 ≤ d.Ys.length) :
    model3d.dcCubeLayout_edgeCounts d =
      ((xCount d.Xs.length d.Ys.length : Int), (yCount d.Xs.length d.Ys.length : Int),
        (zCount d.Xs.length d.Ys.length : Int)) := by
  simp only [model3d.dcCubeLayout_edgeCounts, xCount, yCount, zCount, len_cast]
  push_cast [Nat.cast_sub hx, Nat.cast_sub hy]
  rfl

theorem xEdgeIdx_eq (d : model3d.dcCubeLayout α) (hx : 1 ≤ d.Xs.length) (hy : 1 ≤ d.Ys.length) (x y z : Nat) :
    model3d.dcCubeLayout_xEdgeIdx d x y z = (xEdgeIdx d.Xs.length d.Ys.length x y z : Int) := by
  simp only [model3d.dcCubeLayout_xEdgeIdx, edgeCounts_eq d hx hy, xEdgeIdx, layerEdges, len_cast]
  push_cast [Nat.cast_sub hx]
  ring

theorem yEdgeIdx_eq (d : model3d.dcCubeLayout α) (hx : 1 ≤ d.Xs.length) (hy : 1 ≤ d.Ys.length) (x y z : Nat) :
    model3d.dcCubeLayout_yEdgeIdx d x y z = (yEdgeIdx d.Xs.length d.Ys.length x y z : Int) := by
  simp only [model3d.dcCubeLayout_yEdgeIdx, edgeCounts_eq d hx hy, yEdgeIdx, layerEdges, len_cast]
  push_cast
  ring

theorem zEdgeIdx_eq (d : model3d.dcCubeLayout α) (hx : 1 ≤ d.Xs.length) (hy : 1 ≤ d.Ys.length) (x y z : Nat) :
    model3d.dcCubeLayout_zEdgeIdx d x y z = (zEdgeIdx d.Xs.length d.Ys.length x y z : Int) := by
  simp only [model3d.dcCubeLayout_zEdgeIdx, edgeCounts_eq d hx hy, zEdgeIdx, layerEdges, len_cast]
  push_cast
  ring

theorem tmod_cast (a b : Nat) : Int.tmod (a : Int) (b : Int) = ((a % b : Nat) : Int) := by
  rw [Int.tmod_eq_emod_of_nonneg (by positivity)]
  push_cast
  rfl

theorem tdiv_cast (a b : Nat) : Int.tdiv (a : Int) (b : Int) = ((a / b : Nat) : Int) := by
  rw [Int.tdiv_eq_ediv_of_nonneg (by positivity)]
  push_cast
  rfl

/-- `cubeCoord` (`x = c % (nx-1); c /= nx-1; y = c % (ny-1); c /= ny-1; z = c`). -/
theorem cubeCoord_eq (d : model3d.dcCubeLayout α) (hx : 1 ≤ d.Xs.length) (hy : 1 ≤ d.Ys.length) (c : Nat) :
    model3d.dcCubeLayout_cubeCoord d c =
      (let r := cubeCoord d.Xs.length d.Ys.length c; ((r.1 : Int), (r.2.1 : Int), (r.2.2 : Int))) := by
  have h1 : (Int.ofNat d.Xs.length - 1 : Int) = ((d.Xs.length - 1 : Nat) : Int) := by
    rw [len_cast]; exact (Nat.cast_sub hx).symm
  have h2 : (Int.ofNat d.Ys.length - 1 : Int) = ((d.Ys.length - 1 : Nat) : Int) := by
    rw [len_cast]; exact (Nat.cast_sub hy).symm
  simp only [model3d.dcCubeLayout_cubeCoord, cubeCoord, h1, h2, tmod_cast, tdiv_cast]

end M3d.KernelsTie.DC
