import M3d.Lemmas.MeshDiagOrient
import Mathlib.Data.List.Nodup
import Mathlib.Data.List.Pairwise
/-!
# C11 — `maybeFaceOrientations`: the groups are the `Neighbors`-components, and the search
rejects exactly the meshes that have no consistent orientation
-/
namespace M3d.MeshDiag
open M3d.Surface

/-! ## `Neighbors` is symmetric and irreflexive on non-degenerate faces -/

theorem isNeighbor_symm {f g : Face} (hf : TriNondeg f.2) (hg : TriNondeg g.2) :
    isNeighbor f g = isNeighbor g f := by
  simp only [isNeighbor, inCommon_symm hf hg, bne_comm (a := f.1)]

theorem isNeighbor_irrefl (f : Face) : isNeighbor f f = false := by
  simp [isNeighbor]

theorem isNeighbor_ne {f g : Face} (h : isNeighbor f g = true) : f ≠ g := by
  intro hfg; subst hfg; rw [isNeighbor_irrefl] at h; cases h

/-! ## the group loop visits faces exactly as the breadth-first extraction does -/

theorem orientGroup_bfs :
    ∀ (n : Nat) (queue rem : List Face) (group : List (Face × Bool)) (seen : List Edge)
      (g : List (Face × Bool)) (rem' : List Face),
      queue.length + rem.length ≤ n →
      orientGroup n queue rem group seen = .ok g rem' →
      g.map (·.1) = group.map (·.1) ++ (bfs isNeighbor n queue rem).1 ∧
        rem' = (bfs isNeighbor n queue rem).2 := by
  intro n
  induction n with
  | zero =>
    intro queue rem group seen g rem' hlen h
    have hq : queue = [] := List.eq_nil_of_length_eq_zero (by omega)
    subst hq
    simp only [orientGroup] at h
    cases h
    simp [bfs]
  | succ n ih =>
    intro queue rem group seen g rem' hlen h
    cases queue with
    | nil => simp only [orientGroup] at h; cases h; simp [bfs]
    | cons next queue =>
      simp only [orientGroup] at h
      split at h
      · cases h
      · split at h
        · cases h
        · split at h
          · cases h
          · have hl : (rem.filter (isNeighbor next)).length +
                (rem.filter fun y => !isNeighbor next y).length = rem.length :=
              (List.filter_append_perm (isNeighbor next) rem).length_eq ▸ (List.length_append).symm
            obtain ⟨h1, h2⟩ := ih _ _ _ _ g rem'
              (by simp only [List.length_cons, List.length_append] at hlen ⊢; omega) h
            simp only [bfs]
            refine ⟨?_, h2⟩
            rw [h1]; simp

/-- The group found starts with what was there. -/
theorem orientGroup_prefix :
    ∀ (n : Nat) (queue rem : List Face) (group : List (Face × Bool)) (seen : List Edge)
      (g : List (Face × Bool)) (rem' : List Face),
      orientGroup n queue rem group seen = .ok g rem' → ∃ tail, g = group ++ tail := by
  intro n
  induction n with
  | zero => intro queue rem group seen g rem' h; simp only [orientGroup] at h; cases h; exact ⟨[], by simp⟩
  | succ n ih =>
    intro queue rem group seen g rem' h
    cases queue with
    | nil => simp only [orientGroup] at h; cases h; exact ⟨[], by simp⟩
    | cons next queue =>
      simp only [orientGroup] at h
      split at h
      · cases h
      · split at h
        · cases h
        · split at h
          · cases h
          · obtain ⟨tail, ht⟩ := ih _ _ _ _ g rem' h
            exact ⟨[(next, (triEdges next.2).any fun e => seen.contains e)] ++ tail, by rw [ht, List.append_assoc]⟩

/-! ## the outer loop: invariant -/

/-- The faces of a list of groups. -/
def groupFaces (gs : List (List (Face × Bool))) : List Face := gs.flatMap fun g => g.map (·.1)

theorem groupFaces_append (gs : List (List (Face × Bool))) (g : List (Face × Bool)) :
    groupFaces (gs ++ [g]) = groupFaces gs ++ g.map (·.1) := by
  simp [groupFaces, List.flatMap_append]

/-- Invariant of `for len(remaining) > 0`: the finished groups and `remaining` partition the mesh,
`remaining` is closed under `Neighbors`, every finished group is connected from its start face and
closed under `Neighbors`. -/
structure OrientInv (all rem : List Face) (gs : List (List (Face × Bool))) : Prop where
  perm : (groupFaces gs ++ rem).Perm all
  closed : ∀ f ∈ rem, ∀ h ∈ all, isNeighbor f h = true → h ∈ rem
  conn : ∀ g ∈ gs, ∃ s, g.head? = some (s, false) ∧ ∀ f ∈ g, Reach isNeighbor all s f.1
  gclosed : ∀ g ∈ gs, ∀ f ∈ g, ∀ h ∈ all, isNeighbor f.1 h = true → h ∈ g.map (·.1)

theorem orientAll_components (all : List Face) (hnd : all.Nodup)
    (hsym : ∀ f ∈ all, ∀ g ∈ all, isNeighbor f g = isNeighbor g f) :
    ∀ (n : Nat) (rem : List Face) (gs gs' : List (List (Face × Bool))),
      rem.length ≤ n → OrientInv all rem gs → orientAll all n rem gs = .groups gs' →
      OrientInv all [] gs' := by
  intro n
  induction n with
  | zero =>
    intro rem gs gs' hlen hinv h
    have hr : rem = [] := List.eq_nil_of_length_eq_zero (by omega)
    subst hr
    simp only [orientAll] at h; cases h; exact hinv
  | succ n ih =>
    intro rem gs gs' hlen hinv h
    cases rem with
    | nil => simp only [orientAll] at h; cases h; exact hinv
    | cons start rem =>
      simp only [orientAll] at h
      split at h
      case h_2 => cases h
      case h_3 => cases h
      rename_i g rem' hgr
      -- abbreviations
      generalize hq : all.filter (isNeighbor start) = queue at hgr
      generalize hr0 : (rem.filter fun g => !queue.contains g) = rem0 at hgr
      have hndAll : (groupFaces gs ++ start :: rem).Nodup := hinv.perm.nodup_iff.mpr hnd
      have hndSR : (start :: rem).Nodup := (List.nodup_append.mp hndAll).2.1
      have hstart_notin : start ∉ rem := (List.nodup_cons.mp hndSR).1
      have hndRem : rem.Nodup := (List.nodup_cons.mp hndSR).2
      have hmemAll : ∀ f ∈ start :: rem, f ∈ all := fun f hf =>
        hinv.perm.subset (List.mem_append_right _ hf)
      have hstartAll : start ∈ all := hmemAll _ List.mem_cons_self
      have hqmem : ∀ q, q ∈ queue ↔ q ∈ all ∧ isNeighbor start q = true := by
        intro q; rw [← hq]; exact List.mem_filter
      have hr0mem : ∀ q, q ∈ rem0 ↔ q ∈ rem ∧ q ∉ queue := by
        intro q; rw [← hr0]; simp [List.mem_filter]
      -- the start's neighbours are still remaining
      have hqrem : ∀ q ∈ queue, q ∈ rem := by
        intro q hqq
        obtain ⟨hqa, hqn⟩ := (hqmem q).mp hqq
        rcases List.mem_cons.mp (hinv.closed start List.mem_cons_self q hqa hqn) with h' | h'
        · exact absurd h'.symm (isNeighbor_ne hqn)
        · exact h'
      have hndQ : queue.Nodup := hq ▸ hnd.filter _
      have hndR0 : rem0.Nodup := hr0 ▸ hndRem.filter _
      have hpermQ : (queue ++ rem0).Perm rem := by
        refine (List.perm_ext_iff_of_nodup ?_ hndRem).mpr ?_
        · exact List.nodup_append.mpr ⟨hndQ, hndR0, fun a ha b hb hab =>
            ((hr0mem b).mp hb).2 (hab ▸ ha)⟩
        · intro a
          simp only [List.mem_append, hr0mem]
          constructor
          · rintro (h' | h')
            · exact hqrem a h'
            · exact h'.1
          · intro h'
            by_cases hc : a ∈ queue
            · exact Or.inl hc
            · exact Or.inr ⟨h', hc⟩
      have hlenAll : rem.length + 1 ≤ all.length := by
        have := hinv.perm.length_eq
        simp only [List.length_append, List.length_cons] at this
        omega
      have hfuel : queue.length + rem0.length ≤ all.length + 1 := by
        have := hpermQ.length_eq
        simp only [List.length_append] at this
        omega
      obtain ⟨hgf, hrem'⟩ := orientGroup_bfs _ _ _ _ _ g rem' hfuel hgr
      obtain ⟨tail, htail⟩ := orientGroup_prefix _ _ _ _ _ g rem' hgr
      simp only [List.map_cons, List.map_nil, List.singleton_append] at hgf
      generalize hB : bfs isNeighbor (all.length + 1) queue rem0 = B at hgf hrem'
      have hBperm : (B.1 ++ B.2).Perm rem := (hB ▸ bfs_perm isNeighbor _ queue rem0).trans hpermQ
      have hdisjQ : ∀ a ∈ queue, a ∉ rem0 := fun a ha hb => ((hr0mem a).mp hb).2 ha
      have hB2 : ∀ y, y ∈ B.2 ↔ y ∈ rem0 ∧ ¬ ∃ a ∈ queue, Reach isNeighbor rem0 a y := by
        intro y; rw [← hB]; exact bfs_snd_spec isNeighbor _ queue rem0 hfuel hdisjQ y
      have hB1 : ∀ y ∈ B.1, ∃ a ∈ queue, Reach isNeighbor rem0 a y := by
        intro y hy; rw [← hB] at hy; exact bfs_fst_reach isNeighbor _ queue rem0 y hy
      have hr0all : ∀ x ∈ rem0, x ∈ all := fun x hx =>
        hmemAll x (List.mem_cons_of_mem _ ((hr0mem x).mp hx).1)
      -- the new remaining set is closed
      have hclosed' : ∀ f ∈ B.2, ∀ h ∈ all, isNeighbor f h = true → h ∈ B.2 := by
        intro f hf h hh hfh
        obtain ⟨hf0, hfno⟩ := (hB2 f).mp hf
        obtain ⟨hfrem, hfq⟩ := (hr0mem f).mp hf0
        have hfall : f ∈ all := hr0all f hf0
        have hhf : isNeighbor h f = true := by rw [hsym h hh f hfall]; exact hfh
        rcases List.mem_cons.mp (hinv.closed f (List.mem_cons_of_mem _ hfrem) h hh hfh) with h' | h'
        · subst h'
          exact absurd ((hqmem f).mpr ⟨hfall, hhf⟩) hfq
        · by_cases hc : h ∈ queue
          · exact absurd ⟨h, hc, Reach.single hf0 hhf⟩ hfno
          · have hh0 : h ∈ rem0 := (hr0mem h).mpr ⟨h', hc⟩
            refine (hB2 h).mpr ⟨hh0, ?_⟩
            rintro ⟨a, ha, hr⟩
            exact hfno ⟨a, ha, .step hr hf0 hhf⟩
      have hndNew : (start :: (B.1 ++ B.2)).Nodup :=
        (List.Perm.cons start hBperm).nodup_iff.mpr hndSR
      have hB1rem : ∀ y ∈ B.1, y ∈ rem := fun y hy => hBperm.subset (List.mem_append_left _ hy)
      subst hrem'
      refine ih B.2 (gs ++ [g]) gs' ?_ ?_ h
      · have := hBperm.length_eq
        simp only [List.length_append, List.length_cons] at this hlen
        omega
      · refine ⟨?_, hclosed', ?_, ?_⟩
        · rw [groupFaces_append, hgf]
          refine List.Perm.trans ?_ hinv.perm
          rw [List.append_assoc]
          refine List.Perm.append_left _ ?_
          simpa using List.Perm.cons start hBperm
        · intro g' hg'
          rcases List.mem_append.mp hg' with h' | h'
          · exact hinv.conn g' h'
          · have : g' = g := by simpa using h'
            subst this
            refine ⟨start, by rw [htail]; rfl, fun f hf => ?_⟩
            have hf1 : f.1 ∈ start :: B.1 := hgf ▸ List.mem_map_of_mem hf
            rcases List.mem_cons.mp hf1 with h'' | h''
            · rw [h'']; exact .refl _
            · obtain ⟨a, ha, hr⟩ := hB1 _ h''
              obtain ⟨haa, han⟩ := (hqmem a).mp ha
              exact Reach.trans (Reach.single haa han) (hr.mono hr0all)
        · intro g' hg'
          rcases List.mem_append.mp hg' with h' | h'
          · exact hinv.gclosed g' h'
          · have : g' = g := by simpa using h'
            subst this
            intro f hf h hh hfh
            rw [hgf]
            have hf1 : f.1 ∈ start :: B.1 := hgf ▸ List.mem_map_of_mem hf
            have hf1rem : f.1 ∈ start :: rem := by
              rcases List.mem_cons.mp hf1 with h'' | h''
              · rw [h'']; exact List.mem_cons_self
              · exact List.mem_cons_of_mem _ (hB1rem _ h'')
            have hhSR : h ∈ start :: rem := hinv.closed f.1 hf1rem h hh hfh
            have hhNew : h ∈ start :: (B.1 ++ B.2) := (List.Perm.cons start hBperm).symm.subset hhSR
            rcases List.mem_cons.mp hhNew with h'' | h''
            · rw [h'']; exact List.mem_cons_self
            · rcases List.mem_append.mp h'' with h3 | h3
              · exact List.mem_cons_of_mem _ h3
              · -- h remains: then so would f
                exfalso
                have hf1all : f.1 ∈ all := hmemAll _ hf1rem
                have hhf : isNeighbor h f.1 = true := by rw [hsym h hh f.1 hf1all]; exact hfh
                have hfB2 : f.1 ∈ B.2 := hclosed' h h3 f.1 hf1all hhf
                have hnd' := List.nodup_cons.mp hndNew
                rcases List.mem_cons.mp hf1 with h4 | h4
                · exact hnd'.1 (h4 ▸ List.mem_append_right _ hfB2)
                · exact (List.nodup_append.mp hnd'.2).2.2 _ h4 _ hfB2 rfl

/-! ## completeness: an orientable mesh is never rejected -/

/-- The directed edges of a face under a flip flag. -/
def eo (f : Face) (b : Bool) : List Edge := triEdges (if b then flipTri f.2 else f.2)

/-- The mesh re-oriented by a flip assignment on the face indices. -/
def orientedBy (φ : Nat → Bool) (fs : List Face) : List Tri :=
  fs.map fun f => if φ f.1 then flipTri f.2 else f.2

/-- The mesh has a consistent orientation: some choice of faces to flip leaves no directed
edge used twice. -/
def Orientable (ts : List Tri) : Prop :=
  ∃ φ : Nat → Bool, (dirEdges (orientedBy φ (enum ts))).Nodup

theorem dirEdges_orientedBy (φ : Nat → Bool) (fs : List Face) :
    dirEdges (orientedBy φ fs) = fs.flatMap fun f => eo f (φ f.1) := by
  simp only [dirEdges, orientedBy, List.flatMap_map, eo]

theorem mem_triEdges_flipTri {t : Tri} {e : Edge} : e ∈ triEdges (flipTri t) ↔ swap e ∈ triEdges t := by
  obtain ⟨a, b, c⟩ := t
  obtain ⟨x, y⟩ := e
  simp only [flipTri, triEdges, swap, List.mem_cons, Prod.mk.injEq, List.mem_nil_iff, or_false]
  omega

theorem mem_map_swap {l : List Edge} {e : Edge} : e ∈ l.map swap ↔ swap e ∈ l := by
  simp only [List.mem_map]
  constructor
  · rintro ⟨a, ha, rfl⟩; exact ha
  · intro h; exact ⟨swap e, h, rfl⟩

theorem mem_eo_not {f : Face} {b : Bool} {e : Edge} : e ∈ eo f (!b) ↔ swap e ∈ eo f b := by
  cases b
  · simp only [eo, Bool.not_false, if_true, Bool.false_eq_true, if_false]
    exact mem_triEdges_flipTri
  · simp only [eo, Bool.not_true, if_true, Bool.false_eq_true, if_false]
    rw [mem_triEdges_flipTri, swap_swap]

theorem flatMap_nodup_disjoint {α β : Type} (F : α → List β) :
    ∀ l : List α, (l.flatMap F).Nodup → ∀ a ∈ l, ∀ b ∈ l, a ≠ b → ∀ e ∈ F a, e ∉ F b := by
  intro l
  induction l with
  | nil => intro _ a ha; cases ha
  | cons x xs ih =>
    intro h a ha b hb hab e hea heb
    simp only [List.flatMap_cons] at h
    obtain ⟨_, h2, h3⟩ := List.nodup_append.mp h
    rcases List.mem_cons.mp ha with rfl | ha' <;> rcases List.mem_cons.mp hb with rfl | hb'
    · exact hab rfl
    · exact h3 e hea e (List.mem_flatMap.mpr ⟨b, hb', heb⟩) rfl
    · exact h3 e heb e (List.mem_flatMap.mpr ⟨a, ha', hea⟩) rfl
    · exact ih h2 a ha' b hb' hab e hea heb

theorem two_verts_edge {t : Tri} {u v : Nat} (huv : u ≠ v) (hu : u ∈ triVerts t) (hv : v ∈ triVerts t) :
    (u, v) ∈ triEdges t ∨ (v, u) ∈ triEdges t := by
  obtain ⟨a, b, c⟩ := t
  simp only [triVerts, triEdges, List.mem_cons, Prod.mk.injEq, List.mem_nil_iff, or_false] at hu hv ⊢
  omega

theorem shared_edge_of_two {s t : Tri} {u v : Nat} (huv : u ≠ v) (hus : u ∈ triVerts s) (hvs : v ∈ triVerts s)
    (hut : u ∈ triVerts t) (hvt : v ∈ triVerts t) :
    ∃ e ∈ triEdges t, e ∈ triEdges s ∨ swap e ∈ triEdges s := by
  rcases two_verts_edge huv hut hvt with h1 | h1 <;> rcases two_verts_edge huv hus hvs with h2 | h2
  · exact ⟨_, h1, Or.inl h2⟩
  · exact ⟨_, h1, Or.inr h2⟩
  · exact ⟨_, h1, Or.inr h2⟩
  · exact ⟨_, h1, Or.inl h2⟩

/-- Two non-degenerate-side neighbours share an undirected edge. -/
theorem shared_edge_of_inCommon {s t : Tri} (hs : TriNondeg s) (h : inCommon s t > 1) :
    ∃ e ∈ triEdges t, e ∈ triEdges s ∨ swap e ∈ triEdges s := by
  have hmem : ∀ x, (x = t.1 ∨ x = t.2.1 ∨ x = t.2.2) ↔ x ∈ triVerts t := by
    intro x; simp [triVerts]
  rw [inCommon_eq] at h
  obtain ⟨h1, h2, h3⟩ := hs
  have hsa : s.1 ∈ triVerts s := by simp [triVerts]
  have hsb : s.2.1 ∈ triVerts s := by simp [triVerts]
  have hsc : s.2.2 ∈ triVerts s := by simp [triVerts]
  by_cases pa : s.1 = t.1 ∨ s.1 = t.2.1 ∨ s.1 = t.2.2 <;>
    by_cases pb : s.2.1 = t.1 ∨ s.2.1 = t.2.1 ∨ s.2.1 = t.2.2 <;>
    by_cases pc : s.2.2 = t.1 ∨ s.2.2 = t.2.1 ∨ s.2.2 = t.2.2 <;>
    simp only [pa, pb, pc, if_true, if_false] at h
  · exact shared_edge_of_two h1 hsa hsb ((hmem _).mp pa) ((hmem _).mp pb)
  · exact shared_edge_of_two h1 hsa hsb ((hmem _).mp pa) ((hmem _).mp pb)
  · exact shared_edge_of_two (Ne.symm h3) hsa hsc ((hmem _).mp pa) ((hmem _).mp pc)
  · omega
  · exact shared_edge_of_two h2 hsb hsc ((hmem _).mp pb) ((hmem _).mp pc)
  · omega
  · omega
  · omega

theorem addEdges_mem : ∀ (es seen seen' : List Edge), addEdges es seen = some seen' →
    ∀ e, e ∈ seen' ↔ e ∈ es ∨ e ∈ seen := by
  intro es
  induction es with
  | nil => intro seen seen' h e; simp only [addEdges, Option.some.injEq] at h; subst h; simp
  | cons x es ih =>
    intro seen seen' h e
    simp only [addEdges] at h
    split at h
    · cases h
    · rw [ih _ _ h e]; simp only [List.mem_cons]; tauto

theorem addEdges_some : ∀ (es seen : List Edge), es.Nodup → (∀ e ∈ es, e ∉ seen) →
    ∃ seen', addEdges es seen = some seen' := by
  intro es
  induction es with
  | nil => intro seen _ _; exact ⟨seen, rfl⟩
  | cons x es ih =>
    intro seen hnd hno
    simp only [addEdges]
    have hx : seen.contains x = false := by
      simpa using hno x List.mem_cons_self
    rw [hx]
    simp only [Bool.false_eq_true, if_false]
    obtain ⟨hx', hnd'⟩ := List.nodup_cons.mp hnd
    refine ih (x :: seen) hnd' fun e he hs => ?_
    rcases List.mem_cons.mp hs with rfl | hs'
    · exact hx' he
    · exact hno e (List.mem_cons_of_mem _ he) hs'

theorem swap_injective : Function.Injective swap := by
  intro a b h
  have := congrArg swap h
  simpa [swap_swap] using this

/-- The group loop never fails on a mesh that has a consistent orientation `φ`: the flags it
assigns are `φ` (or its complement, `σ`) on the group, so the edges of the next face under the
right flag are new. -/
theorem orientGroup_complete (all : List Face) (φ : Nat → Bool)
    (hφ : (all.flatMap fun f => eo f (φ f.1)).Nodup) (hd : ∀ f ∈ all, TriNondeg f.2) (σ : Bool) :
    ∀ (n : Nat) (queue rem : List Face) (group : List (Face × Bool)) (seen : List Edge),
      (∀ p ∈ group, p.1 ∈ all ∧ p.2 = (φ p.1.1 != σ)) →
      (∀ q ∈ queue, q ∈ all ∧ ∃ p ∈ group, isNeighbor p.1 q = true) →
      (∀ r ∈ rem, r ∈ all) →
      (group.map (·.1) ++ (queue ++ rem)).Nodup →
      (∀ e, e ∈ seen ↔ ∃ p ∈ group, e ∈ eo p.1 p.2) →
      ∃ g rem', orientGroup n queue rem group seen = .ok g rem' := by
  intro n
  induction n with
  | zero => intro queue rem group seen _ _ _ _ _; exact ⟨group, rem, by simp [orientGroup]⟩
  | succ n ih =>
    intro queue rem group seen hgroup hqueue hrem hnd hseen
    cases queue with
    | nil => exact ⟨group, rem, by simp [orientGroup]⟩
    | cons next queue =>
      obtain ⟨hnextAll, p, hp, hpn⟩ := hqueue next List.mem_cons_self
      have hnextNd : TriNondeg next.2 := hd next hnextAll
      -- next is not yet in the group
      have hnotin : ∀ p' ∈ group, p'.1 ≠ next := by
        intro p' hp' heq
        have h1 : next ∈ group.map (·.1) := heq ▸ List.mem_map_of_mem hp'
        exact (List.nodup_append.mp hnd).2.2 _ h1 _ (List.mem_append_left _ List.mem_cons_self) rfl
      -- under the right flag the edges of next are new
      have hnew : ∀ e ∈ eo next (φ next.1 != σ), e ∉ seen := by
        intro e he hs
        obtain ⟨p', hp', hep'⟩ := (hseen e).mp hs
        obtain ⟨hp'all, hp'flag⟩ := hgroup p' hp'
        rw [hp'flag] at hep'
        cases σ
        · simp only [Bool.bne_false] at he hep'
          exact flatMap_nodup_disjoint _ all hφ next hnextAll p'.1 hp'all (Ne.symm (hnotin p' hp')) e he hep'
        · simp only [Bool.bne_true] at he hep'
          exact flatMap_nodup_disjoint _ all hφ next hnextAll p'.1 hp'all (Ne.symm (hnotin p' hp'))
            (swap e) (mem_eo_not.mp he) (mem_eo_not.mp hep')
      -- next shares an undirected edge with a face of the group
      have hshare : ∃ e ∈ triEdges next.2, e ∈ seen ∨ swap e ∈ seen := by
        have hin : inCommon p.1.2 next.2 > 1 := by
          simp only [isNeighbor, Bool.and_eq_true, decide_eq_true_eq] at hpn
          exact hpn.2
        obtain ⟨e, he, hes⟩ := shared_edge_of_inCommon (hd _ (hgroup p hp).1) hin
        refine ⟨e, he, ?_⟩
        cases hb : p.2 with
        | false =>
          rcases hes with h' | h'
          · exact Or.inl ((hseen e).mpr ⟨p, hp, by rw [hb]; simpa [eo] using h'⟩)
          · exact Or.inr ((hseen _).mpr ⟨p, hp, by rw [hb]; simpa [eo] using h'⟩)
        | true =>
          rcases hes with h' | h'
          · refine Or.inr ((hseen _).mpr ⟨p, hp, ?_⟩)
            rw [hb]; simp only [eo, if_true]
            rw [mem_triEdges_flipTri, swap_swap]; exact h'
          · refine Or.inl ((hseen _).mpr ⟨p, hp, ?_⟩)
            rw [hb]; simp only [eo, if_true]
            rw [mem_triEdges_flipTri]; exact h'
      have hesNd : (triEdges next.2).Nodup := triEdges_nodup hnextNd
      -- the two tests of the code
      have hfu : ((triEdges next.2).any fun e => seen.contains e) = (φ next.1 != σ) := by
        cases hr : (φ next.1 != σ) with
        | false =>
          rw [hr] at hnew
          rw [Bool.eq_false_iff]
          intro hany
          obtain ⟨e, he, hc⟩ := List.any_eq_true.mp hany
          exact hnew e (by simpa [eo] using he) (by simpa using hc)
        | true =>
          rw [hr] at hnew
          obtain ⟨e, he, hes⟩ := hshare
          rcases hes with h' | h'
          · exact List.any_eq_true.mpr ⟨e, he, by simpa using h'⟩
          · exfalso
            refine hnew (swap e) ?_ h'
            simp only [eo, if_true]
            rw [mem_triEdges_flipTri, swap_swap]; exact he
      have hff : ((triEdges next.2).any fun e => seen.contains (swap e)) = !(φ next.1 != σ) := by
        cases hr : (φ next.1 != σ) with
        | false =>
          rw [hr] at hnew
          obtain ⟨e, he, hes⟩ := hshare
          rcases hes with h' | h'
          · exact absurd h' (hnew e (by simpa [eo] using he))
          · exact List.any_eq_true.mpr ⟨e, he, by simpa using h'⟩
        | true =>
          rw [hr] at hnew
          simp only [Bool.not_true]
          rw [Bool.eq_false_iff]
          intro hany
          obtain ⟨e, he, hc⟩ := List.any_eq_true.mp hany
          refine hnew (swap e) ?_ (by simpa using hc)
          simp only [eo, if_true]
          rw [mem_triEdges_flipTri, swap_swap]; exact he
      -- registering the edges succeeds
      have hadd : ∃ seen', addEdges (if (φ next.1 != σ) = true then (triEdges next.2).map swap
          else triEdges next.2) seen = some seen' := by
        cases hr : (φ next.1 != σ) with
        | false =>
          rw [hr] at hnew
          simp only [Bool.false_eq_true, if_false]
          exact addEdges_some _ _ hesNd fun e he => hnew e (by simpa [eo] using he)
        | true =>
          rw [hr] at hnew
          simp only [if_true]
          refine addEdges_some _ _ (hesNd.map swap_injective) fun e he => hnew e ?_
          simp only [eo, if_true]
          rw [mem_triEdges_flipTri]; exact mem_map_swap.mp he
      obtain ⟨seen', hseen'⟩ := hadd
      have hmem' := addEdges_mem _ _ _ hseen'
      have hstep : orientGroup (n + 1) (next :: queue) rem group seen =
          orientGroup n (queue ++ rem.filter (isNeighbor next)) (rem.filter fun g => !isNeighbor next g)
            (group ++ [(next, (φ next.1 != σ))]) seen' := by
        simp only [orientGroup, hfu, hff]
        cases hr : (φ next.1 != σ) <;> rw [hr] at hseen' <;>
          simp only [Bool.false_eq_true, if_false, if_true] at hseen' <;> simp [hseen']
      rw [hstep]
      refine ih _ _ _ _ ?_ ?_ ?_ ?_ ?_
      · intro p' hp'
        rcases List.mem_append.mp hp' with h' | h'
        · exact hgroup p' h'
        · have : p' = (next, (φ next.1 != σ)) := by simpa using h'
          subst this; exact ⟨hnextAll, rfl⟩
      · intro q hq
        rcases List.mem_append.mp hq with h' | h'
        · obtain ⟨hqa, p', hp', hpq⟩ := hqueue q (List.mem_cons_of_mem _ h')
          exact ⟨hqa, p', List.mem_append_left _ hp', hpq⟩
        · obtain ⟨hqr, hqn⟩ := List.mem_filter.mp h'
          exact ⟨hrem q hqr, (next, (φ next.1 != σ)), List.mem_append_right _ (by simp), hqn⟩
      · intro r hr
        exact hrem r (List.mem_filter.mp hr).1
      · have hnd2 : (group.map (·.1) ++ next :: (queue ++ rem)).Nodup := by simpa using hnd
        refine (List.Perm.nodup_iff ?_).mpr hnd2
        have e1 : (group ++ [(next, (φ next.1 != σ))]).map (·.1) ++
            ((queue ++ rem.filter (isNeighbor next)) ++ rem.filter fun g => !isNeighbor next g) =
            group.map (·.1) ++ next :: (queue ++ (rem.filter (isNeighbor next) ++
              rem.filter fun g => !isNeighbor next g)) := by simp
        rw [e1]
        exact List.Perm.append_left _ (List.Perm.cons _ (List.Perm.append_left _
          (List.filter_append_perm (isNeighbor next) rem)))
      · intro e
        rw [hmem' e]
        have hes : (e ∈ if (φ next.1 != σ) = true then (triEdges next.2).map swap else triEdges next.2) ↔
            e ∈ eo next (φ next.1 != σ) := by
          cases (φ next.1 != σ)
          · simp [eo]
          · simp only [if_true, eo]
            rw [mem_triEdges_flipTri]; exact mem_map_swap
        rw [hes, hseen e]
        constructor
        · rintro (h' | ⟨p', hp', hep'⟩)
          · exact ⟨(next, (φ next.1 != σ)), List.mem_append_right _ (by simp), h'⟩
          · exact ⟨p', List.mem_append_left _ hp', hep'⟩
        · rintro ⟨p', hp', hep'⟩
          rcases List.mem_append.mp hp' with h' | h'
          · exact Or.inr ⟨p', h', hep'⟩
          · have : p' = (next, (φ next.1 != σ)) := by simpa using h'
            subst this; exact Or.inl hep'

theorem orientGroup_sublist :
    ∀ (n : Nat) (queue rem : List Face) (group : List (Face × Bool)) (seen : List Edge)
      (g : List (Face × Bool)) (rem' : List Face),
      orientGroup n queue rem group seen = .ok g rem' → rem'.Sublist rem := by
  intro n
  induction n with
  | zero => intro queue rem group seen g rem' h; simp only [orientGroup] at h; cases h; exact List.Sublist.refl _
  | succ n ih =>
    intro queue rem group seen g rem' h
    cases queue with
    | nil => simp only [orientGroup] at h; cases h; exact List.Sublist.refl _
    | cons next queue =>
      simp only [orientGroup] at h
      split at h
      · cases h
      · split at h
        · cases h
        · split at h
          · cases h
          · exact (ih _ _ _ _ g rem' h).trans List.filter_sublist

/-- The whole search succeeds on a mesh that has a consistent orientation. -/
theorem orientAll_complete (all : List Face) (φ : Nat → Bool)
    (hφ : (all.flatMap fun f => eo f (φ f.1)).Nodup) (hd : ∀ f ∈ all, TriNondeg f.2)
    (hndAll : all.Nodup) :
    ∀ (n : Nat) (rem : List Face) (gs : List (List (Face × Bool))),
      (∀ f ∈ rem, f ∈ all) → rem.Nodup → ∃ gs', orientAll all n rem gs = .groups gs' := by
  intro n
  induction n with
  | zero => intro rem gs _ _; exact ⟨gs, by simp [orientAll]⟩
  | succ n ih =>
    intro rem gs hsub hnd
    cases rem with
    | nil => exact ⟨gs, by simp [orientAll]⟩
    | cons start rem =>
      obtain ⟨hstart, hndRem⟩ := List.nodup_cons.mp hnd
      have hqmem : ∀ q, q ∈ all.filter (isNeighbor start) ↔ q ∈ all ∧ isNeighbor start q = true :=
        fun q => List.mem_filter
      have hr0mem : ∀ q, q ∈ (rem.filter fun g => !(all.filter (isNeighbor start)).contains g) ↔
          q ∈ rem ∧ q ∉ all.filter (isNeighbor start) := by
        intro q
        rw [List.mem_filter]
        simp only [Bool.not_eq_true', List.contains_eq_mem, decide_eq_false_iff_not]
      obtain ⟨g, rem', hg⟩ := orientGroup_complete all φ hφ hd (φ start.1) (all.length + 1)
        (all.filter (isNeighbor start)) (rem.filter fun g => !(all.filter (isNeighbor start)).contains g)
        [(start, false)] (triEdges start.2)
        (by
          intro p hp
          have : p = (start, false) := by simpa using hp
          subst this
          exact ⟨hsub _ List.mem_cons_self, by simp⟩)
        (by
          intro q hq
          exact ⟨((hqmem q).mp hq).1, (start, false), by simp, ((hqmem q).mp hq).2⟩)
        (by
          intro r hr
          exact hsub r (List.mem_cons_of_mem _ ((hr0mem r).mp hr).1))
        (by
          simp only [List.map_cons, List.map_nil, List.singleton_append]
          refine List.nodup_cons.mpr ⟨?_, List.nodup_append.mpr ⟨hndAll.filter _, hndRem.filter _, ?_⟩⟩
          · intro hmem
            rcases List.mem_append.mp hmem with h' | h'
            · exact isNeighbor_ne ((hqmem _).mp h').2 rfl
            · exact hstart ((hr0mem _).mp h').1
          · intro a ha b hb hab
            exact ((hr0mem b).mp hb).2 (hab ▸ ha))
        (by
          intro e
          simp [eo])
      have hsub' : rem'.Sublist rem :=
        (orientGroup_sublist _ _ _ _ _ g rem' hg).trans List.filter_sublist
      obtain ⟨gs', hgs'⟩ := ih rem' (gs ++ [g])
        (fun f hf => hsub f (List.mem_cons_of_mem _ (hsub'.subset hf))) (hsub'.nodup hndRem)
      refine ⟨gs', ?_⟩
      simp only [orientAll, hg]
      exact hgs'

/-! ## soundness, globally: the flags of all groups together orient the whole mesh -/

theorem enumFrom_map_fst_nodup : ∀ (ts : List Tri) (n : Nat), ((enumFrom n ts).map (·.1)).Nodup := by
  intro ts
  induction ts with
  | nil => intro n; simp [enumFrom]
  | cons t ts ih =>
    intro n
    simp only [enumFrom, List.map_cons, List.nodup_cons]
    refine ⟨fun h => ?_, ih (n + 1)⟩
    obtain ⟨f, hf, hfn⟩ := List.mem_map.mp h
    have := enumFrom_fst_ge ts (n + 1) f hf
    omega

/-- Face identities are distinct indices. -/
theorem enum_idx_inj {ts : List Tri} {f g : Face} (hf : f ∈ enum ts) (hg : g ∈ enum ts)
    (h : f.1 = g.1) : f = g :=
  List.inj_on_of_nodup_map (enumFrom_map_fst_nodup ts 0) hf hg h

theorem eo_verts {f : Face} {b : Bool} {e : Edge} (hf : TriNondeg f.2) (he : e ∈ eo f b) :
    e.1 ∈ triVerts f.2 ∧ e.2 ∈ triVerts f.2 ∧ e.1 ≠ e.2 := by
  obtain ⟨i, a, b', c⟩ := f
  obtain ⟨x, y⟩ := e
  obtain ⟨h1, h2, h3⟩ := hf
  simp only at h1 h2 h3
  cases b <;>
    simp only [eo, flipTri, triEdges, triVerts, if_true, if_false, Bool.false_eq_true, List.mem_cons,
      Prod.mk.injEq, List.mem_nil_iff, or_false, ne_eq] at he ⊢ <;> omega

theorem two_le_length_of_mem {α : Type} {l : List α} {x y : α} (hx : x ∈ l) (hy : y ∈ l) (hxy : x ≠ y) :
    2 ≤ l.length := by
  match l, hx, hy with
  | [a], hx, hy =>
    simp only [List.mem_singleton] at hx hy
    exact absurd (hx.trans hy.symm) hxy
  | _ :: _ :: _, _, _ => simp

theorem inCommon_of_two {s t : Tri} {x y : Nat} (hxy : x ≠ y)
    (hxs : x ∈ triVerts s) (hys : y ∈ triVerts s) (hxt : x ∈ triVerts t) (hyt : y ∈ triVerts t) :
    inCommon s t > 1 := by
  unfold inCommon
  rw [List.countP_eq_length_filter]
  exact two_le_length_of_mem (List.mem_filter.mpr ⟨hxs, by simpa using hxt⟩)
    (List.mem_filter.mpr ⟨hys, by simpa using hyt⟩) hxy

theorem flatten_flatMap' {α β : Type} (F : α → List β) :
    ∀ gs : List (List α), gs.flatten.flatMap F = gs.flatMap fun g => g.flatMap F := by
  intro gs
  induction gs with
  | nil => rfl
  | cons g gs ih => simp [List.flatMap_append, ih]

/-- Faces of different groups share no directed edge, whatever their flags: they would be
`Neighbors`. -/
theorem groups_edges_disjoint {all : List Face} {gs : List (List (Face × Bool))}
    (hd : ∀ f ∈ all, TriNondeg f.2) (hidx : ∀ f ∈ all, ∀ g ∈ all, f.1 = g.1 → f = g)
    (hperm : (groupFaces gs).Perm all)
    (hgc : ∀ g ∈ gs, ∀ f ∈ g, ∀ h ∈ all, isNeighbor f.1 h = true → h ∈ g.map (·.1))
    {g1 g2 : List (Face × Bool)} (hg1 : g1 ∈ gs) (hg2 : g2 ∈ gs)
    (hdisj : ∀ f ∈ g1.map (·.1), f ∉ g2.map (·.1)) {p p' : Face × Bool} (hp : p ∈ g1) (hp' : p' ∈ g2)
    {e : Edge} (he : e ∈ eo p.1 p.2) (he' : e ∈ eo p'.1 p'.2) : False := by
  have hmem : ∀ g ∈ gs, ∀ q ∈ g, q.1 ∈ all := by
    intro g hg q hq
    refine hperm.subset ?_
    exact List.mem_flatMap.mpr ⟨g, hg, List.mem_map_of_mem hq⟩
  have hpa := hmem g1 hg1 p hp
  have hpa' := hmem g2 hg2 p' hp'
  obtain ⟨v1, v2, v3⟩ := eo_verts (hd _ hpa) he
  obtain ⟨w1, w2, _⟩ := eo_verts (hd _ hpa') he'
  have hin := inCommon_of_two v3 v1 v2 w1 w2
  have hne : p.1.1 ≠ p'.1.1 := by
    intro h
    have := hidx _ hpa _ hpa' h
    exact hdisj p.1 (List.mem_map_of_mem hp) (this ▸ List.mem_map_of_mem hp')
  have hnb : isNeighbor p.1 p'.1 = true := by
    simp only [isNeighbor, Bool.and_eq_true, bne_iff_ne, ne_eq, decide_eq_true_eq]
    exact ⟨hne, hin⟩
  have := hgc g1 hg1 p hp p'.1 hpa' hnb
  exact hdisj p'.1 this (List.mem_map_of_mem hp')

theorem dirEdges_applyFlags (fl : List (Face × Bool)) :
    dirEdges (applyFlags fl) = fl.flatMap fun p => eo p.1 p.2 := by
  simp only [dirEdges, applyFlags, List.flatMap_map, eo]

/-- When the search succeeds, the flags it found orient the WHOLE mesh consistently. -/
theorem groups_orient_all {all : List Face} {gs : List (List (Face × Bool))}
    (hnd : all.Nodup) (hd : ∀ f ∈ all, TriNondeg f.2) (hidx : ∀ f ∈ all, ∀ g ∈ all, f.1 = g.1 → f = g)
    (hperm : (groupFaces gs).Perm all)
    (hgc : ∀ g ∈ gs, ∀ f ∈ g, ∀ h ∈ all, isNeighbor f.1 h = true → h ∈ g.map (·.1))
    (hsound : ∀ g ∈ gs, (dirEdges (applyFlags g)).Nodup) :
    ∃ φ : Nat → Bool, (dirEdges (orientedBy φ all)).Nodup ∧
      (orientedBy φ all).Perm (applyFlags gs.flatten) ∧
      ∀ g ∈ gs, ∀ p ∈ g, φ p.1.1 = p.2 := by
  have hndF : (groupFaces gs).Nodup := hperm.nodup_iff.mpr hnd
  have hfl : groupFaces gs = gs.flatten.map (·.1) := by
    simp [groupFaces, List.flatMap_def, List.map_flatten]
  have hmemAll : ∀ p ∈ gs.flatten, p.1 ∈ all := fun p hp =>
    hperm.subset (hfl ▸ List.mem_map_of_mem hp)
  let φ : Nat → Bool := fun i =>
    match gs.flatten.find? (fun p => p.1.1 == i) with
    | some p => p.2
    | none => false
  have hφ : ∀ p ∈ gs.flatten, φ p.1.1 = p.2 := by
    intro p hp
    show (match gs.flatten.find? (fun q => q.1.1 == p.1.1) with | some q => q.2 | none => false) = p.2
    cases hfind : gs.flatten.find? (fun q => q.1.1 == p.1.1) with
    | none =>
      have := List.find?_eq_none.mp hfind p hp
      simp at this
    | some q =>
      have hq : q ∈ gs.flatten := List.mem_of_find?_eq_some hfind
      have hqi : q.1.1 = p.1.1 := by simpa using List.find?_some hfind
      have hqp : q.1 = p.1 := hidx _ (hmemAll q hq) _ (hmemAll p hp) hqi
      have : q = p := List.inj_on_of_nodup_map (hfl ▸ hndF) hq hp hqp
      rw [this]
  -- the mesh oriented by φ is a rearrangement of all groups with their flags applied
  have h1 : (orientedBy φ all).Perm (applyFlags gs.flatten) := by
    have : (orientedBy φ (gs.flatten.map (·.1))).Perm (orientedBy φ all) :=
      (hfl ▸ hperm).map _
    refine this.symm.trans (List.Perm.of_eq ?_)
    simp only [orientedBy, applyFlags, List.map_map]
    apply List.map_congr_left
    intro p hp
    simp only [Function.comp, hφ p hp]
  have h2 : (dirEdges (orientedBy φ all)).Perm (dirEdges (applyFlags gs.flatten)) :=
    h1.flatMap_right _
  refine ⟨φ, ?_, h1, fun g hg p hp => hφ p (List.mem_flatten.mpr ⟨g, hg, hp⟩)⟩
  refine h2.nodup_iff.mpr ?_
  rw [dirEdges_applyFlags, flatten_flatMap']
  refine List.nodup_flatMap.mpr ⟨fun g hg => ?_, ?_⟩
  · rw [← dirEdges_applyFlags]; exact hsound g hg
  · have hpw := (List.nodup_flatMap.mp hndF).2
    refine hpw.imp_of_mem ?_
    intro g1 g2 hg1 hg2 hdis e he1 he2
    obtain ⟨p, hp, hep⟩ := List.mem_flatMap.mp he1
    obtain ⟨p', hp', hep'⟩ := List.mem_flatMap.mp he2
    exact groups_edges_disjoint hd hidx hperm hgc hg1 hg2 (fun f hf1 hf2 => hdis hf1 hf2) hp hp' hep hep'

/-! ## the "impossible case" panic is unreachable on meshes without degenerate faces -/

theorem orientGroup_not_impossible (all : List Face) (hd : ∀ f ∈ all, TriNondeg f.2) :
    ∀ (n : Nat) (queue rem : List Face) (group : List (Face × Bool)) (seen : List Edge),
      (∀ p ∈ group, p.1 ∈ all) →
      (∀ q ∈ queue, q ∈ all) → (∀ r ∈ rem, r ∈ all) →
      (∀ q ∈ queue, ∃ p ∈ group, isNeighbor p.1 q = true) →
      (∀ p ∈ group, ∀ e ∈ eo p.1 p.2, e ∈ seen) →
      orientGroup n queue rem group seen ≠ .impossible := by
  intro n
  induction n with
  | zero => intro queue rem group seen _ _ _ _ _; simp [orientGroup]
  | succ n ih =>
    intro queue rem group seen hgroup hqall hrall hqueue hseen
    cases queue with
    | nil => simp [orientGroup]
    | cons next queue =>
      obtain ⟨p, hp, hpn⟩ := hqueue next List.mem_cons_self
      have hshare : ∃ e ∈ triEdges next.2, e ∈ seen ∨ swap e ∈ seen := by
        have hin : inCommon p.1.2 next.2 > 1 := by
          simp only [isNeighbor, Bool.and_eq_true, decide_eq_true_eq] at hpn
          exact hpn.2
        obtain ⟨e, he, hes⟩ := shared_edge_of_inCommon (hd _ (hgroup p hp)) hin
        refine ⟨e, he, ?_⟩
        cases hb : p.2 with
        | false =>
          rcases hes with h' | h'
          · exact Or.inl (hseen p hp e (by rw [hb]; simpa [eo] using h'))
          · exact Or.inr (hseen p hp _ (by rw [hb]; simpa [eo] using h'))
        | true =>
          rcases hes with h' | h'
          · refine Or.inr (hseen p hp _ ?_)
            rw [hb]; simp only [eo, if_true]
            rw [mem_triEdges_flipTri, swap_swap]; exact h'
          · refine Or.inl (hseen p hp _ ?_)
            rw [hb]; simp only [eo, if_true]
            rw [mem_triEdges_flipTri]; exact h'
      have hfound : ((triEdges next.2).any fun e => seen.contains (swap e)) = true ∨
          ((triEdges next.2).any fun e => seen.contains e) = true := by
        obtain ⟨e, he, hes⟩ := hshare
        rcases hes with h' | h'
        · exact Or.inr (List.any_eq_true.mpr ⟨e, he, by simpa using h'⟩)
        · exact Or.inl (List.any_eq_true.mpr ⟨e, he, by simpa using h'⟩)
      simp only [orientGroup]
      split
      · rename_i h1
        exfalso
        rcases hfound with h' | h' <;>
          simp only [h', Bool.not_true, Bool.false_and, Bool.and_false, Bool.false_eq_true] at h1
      · split
        · simp
        · split
          · simp
          · rename_i seen' hadd
            have hmem' := addEdges_mem _ _ _ hadd
            refine ih _ _ _ _ ?_ ?_ ?_ ?_ ?_
            · intro p' hp'
              rcases List.mem_append.mp hp' with h' | h'
              · exact hgroup p' h'
              · have : p' = (next, (triEdges next.2).any fun e => seen.contains e) := by simpa using h'
                subst this
                exact hqall next List.mem_cons_self
            · intro q hq
              rcases List.mem_append.mp hq with h' | h'
              · exact hqall q (List.mem_cons_of_mem _ h')
              · exact hrall q (List.mem_filter.mp h').1
            · intro r hr
              exact hrall r (List.mem_filter.mp hr).1
            · intro q hq
              rcases List.mem_append.mp hq with h' | h'
              · obtain ⟨p', hp', hpq⟩ := hqueue q (List.mem_cons_of_mem _ h')
                exact ⟨p', List.mem_append_left _ hp', hpq⟩
              · exact ⟨_, List.mem_append_right _ (List.mem_singleton.mpr rfl), (List.mem_filter.mp h').2⟩
            · intro p' hp' e he
              rw [hmem' e]
              rcases List.mem_append.mp hp' with h' | h'
              · exact Or.inr (hseen p' h' e he)
              · have : p' = (next, (triEdges next.2).any fun e => seen.contains e) := by simpa using h'
                subst this
                left
                simp only [eo] at he
                cases hfu : ((triEdges next.2).any fun e => seen.contains e) with
                | false => rw [hfu] at he; simpa using he
                | true =>
                  rw [hfu] at he
                  simp only [if_true] at he ⊢
                  exact mem_map_swap.mpr (mem_triEdges_flipTri.mp he)

theorem orientAll_not_impossible (all : List Face) (hd : ∀ f ∈ all, TriNondeg f.2) :
    ∀ (n : Nat) (rem : List Face) (gs : List (List (Face × Bool))),
      (∀ f ∈ rem, f ∈ all) → orientAll all n rem gs ≠ .impossible := by
  intro n
  induction n with
  | zero => intro rem gs _; simp [orientAll]
  | succ n ih =>
    intro rem gs hsub
    cases rem with
    | nil => simp [orientAll]
    | cons start rem =>
      simp only [orientAll]
      split
      · rename_i g rem' hg
        refine ih rem' _ fun f hf => ?_
        have := (orientGroup_sublist _ _ _ _ _ g rem' hg).subset hf
        exact hsub f (List.mem_cons_of_mem _ (List.mem_filter.mp this).1)
      · simp
      · rename_i himp
        exfalso
        refine orientGroup_not_impossible all hd _ _ _ _ _ ?_ ?_ ?_ ?_ ?_ himp
        · intro p hp
          have : p = (start, false) := by simpa using hp
          subst this; exact hsub _ List.mem_cons_self
        · intro q hq; exact (List.mem_filter.mp hq).1
        · intro r hr; exact hsub r (List.mem_cons_of_mem _ (List.mem_filter.mp hr).1)
        · intro q hq; exact ⟨(start, false), by simp, (List.mem_filter.mp hq).2⟩
        · intro p hp e he
          have : p = (start, false) := by simpa using hp
          subst this; simpa [eo] using he

theorem orientInv_of_groups (ts : List Tri) (hd : NoDegenerate ts)
    (gs : List (List (Face × Bool))) (h : faceOrientations ts = .groups gs) :
    OrientInv (enum ts) [] gs := by
  unfold faceOrientations at h
  refine orientAll_components (enum ts) (enum_nodup ts)
    (fun f hf g hg => isNeighbor_symm (hd _ (mem_enum_snd hf)) (hd _ (mem_enum_snd hg)))
    _ _ _ _ (by rw [enum_length]; omega) ?_ h
  exact ⟨by simp [groupFaces], fun _ _ h hh _ => hh, (by intro g hg; cases hg), (by intro g hg; cases hg)⟩

/-! ## re-orienting faces does not change how often an undirected edge is used -/

theorem count_map_swap (l : List Edge) (e : Edge) : (l.map swap).count e = l.count (swap e) := by
  induction l with
  | nil => rfl
  | cons x xs ih =>
    simp only [List.map_cons, List.count_cons, ih]
    congr 1
    have : (swap x == e) = (x == swap e) := by
      rw [Bool.eq_iff_iff]
      simp only [beq_iff_eq]
      constructor
      · intro h; rw [← h]; rfl
      · intro h; rw [h]; rfl
    rw [this]

theorem undirected_count_flip (t : Tri) (b : Bool) (e : Edge) :
    (triEdges (if b then flipTri t else t)).count e + (triEdges (if b then flipTri t else t)).count (swap e)
      = (triEdges t).count e + (triEdges t).count (swap e) := by
  cases b
  · simp
  · simp only [if_true]
    rw [(triEdges_flipTri_perm t).count_eq e, (triEdges_flipTri_perm t).count_eq (swap e),
      count_map_swap, count_map_swap, swap_swap]
    omega

theorem undirected_count_applyFlags (fl : List (Face × Bool)) (e : Edge) :
    (dirEdges (applyFlags fl)).count e + (dirEdges (applyFlags fl)).count (swap e)
      = (dirEdges (fl.map (·.1.2))).count e + (dirEdges (fl.map (·.1.2))).count (swap e) := by
  induction fl with
  | nil => rfl
  | cons p ps ih =>
    simp only [applyFlags, List.map_cons, dirEdges, List.flatMap_cons, List.count_append] at ih ⊢
    have := undirected_count_flip p.1.2 p.2 e
    omega

theorem majorityFlags_map_fst (g : List (Face × Bool)) : (majorityFlags g).map (·.1) = g.map (·.1) := by
  simp [majorityFlags, List.map_map, Function.comp_def]

theorem groupFaces_majority (gs : List (List (Face × Bool))) :
    groupFaces (gs.map majorityFlags) = groupFaces gs := by
  simp only [groupFaces, List.flatMap_map, majorityFlags_map_fst]

end M3d.MeshDiag
