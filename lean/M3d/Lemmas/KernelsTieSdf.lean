import M3d.Gen.Kernels
import M3d.Lemmas.Sdf
/-!
# Tie between the REGENERATED kernels and the hand-written SDF vocabulary (C06, and C07/C08 through it)

`M3d/Gen/Kernels.lean` is produced on every run by the Go→Lean translator from the current
`model3d/coords.go`, `matrix.go`, `primitives.go`, `shapes.go` (and the `model2d` twins).  The theorems
below say that the hand-written definitions of `M3d/Model/Sdf.lean` — the ones the C06 theorems are
about — compute exactly the functions the source says now, for every linear ordered field.  An edit of
one of these Go functions changes the generated text; then either the equation is still provable (a
harmless rewrite, e.g. `a - b` for `a + b*(-1)`) or this file stops compiling and the check reports the
broken obligation and searches for a failing input with the correspondence.
-/
namespace M3d.KernelsTie.Sdf
open M3d.Sdf M3d.Gen.Kernels M3d.GenPrelude
set_option linter.unusedSectionVars false
set_option linter.unusedVariables false
set_option linter.unusedSimpArgs false
set_option linter.unreachableTactic false
set_option linter.unusedTactic false

variable {K : Type} [Field K] [LinearOrder K] [IsStrictOrderedRing K]

/-- `math.Sqrt` of the generated code read as the `Env`'s square root. -/
@[reducible] def sqrtOf (E : Env K) : HasSqrt K := ⟨E.sqrt⟩

/-- hand vector → generated `Coord3D` -/
@[reducible] def g3 (a : V3 K) : model3d.Coord3D K := ⟨a.x, a.y, a.z⟩
/-- hand vector → generated `model2d.Coord` -/
@[reducible] def g2 (a : V2 K) : model2d.Coord K := ⟨a.x, a.y⟩
@[reducible] def gm3 (m : M3 K) : model3d.Matrix3 K := ⟨m.m0, m.m1, m.m2, m.m3, m.m4, m.m5, m.m6, m.m7, m.m8⟩

@[simp] theorem g3_X (a : V3 K) : (g3 a).X = a.x := rfl
@[simp] theorem g3_Y (a : V3 K) : (g3 a).Y = a.y := rfl
@[simp] theorem g3_Z (a : V3 K) : (g3 a).Z = a.z := rfl
@[simp] theorem g2_X (a : V2 K) : (g2 a).X = a.x := rfl
@[simp] theorem g2_Y (a : V2 K) : (g2 a).Y = a.y := rfl

theorem g3_inj {a b : V3 K} (h : g3 a = g3 b) : a = b := by
  cases a; cases b; simp [g3] at h; obtain ⟨h1, h2, h3⟩ := h; subst h1 h2 h3; rfl

theorem absS_eq (x : K) : GenPrelude.absS x = Sdf.absS x := rfl
theorem mn_eq (a b : K) : GenPrelude.mn a b = Sdf.mn a b := rfl
theorem mx_eq (a b : K) : GenPrelude.mx a b = Sdf.mx a b := rfl

/-! ## `Coord3D` -/

theorem coord3_add (a b : V3 K) : model3d.Coord3D_Add (g3 a) (g3 b) = g3 (a.add b) := rfl
theorem coord3_scale (a : V3 K) (s : K) : model3d.Coord3D_Scale (g3 a) s = g3 (a.scale s) := rfl
theorem coord3_dot (a b : V3 K) : model3d.Coord3D_Dot (g3 a) (g3 b) = a.dot b := rfl
theorem coord3_cross (a b : V3 K) : model3d.Coord3D_Cross (g3 a) (g3 b) = g3 (a.cross b) := rfl
theorem coord3_normSq (a : V3 K) : model3d.Coord3D_NormSquared (g3 a) = a.normSq := rfl
theorem coord3_sqDist (a b : V3 K) : model3d.Coord3D_SquaredDist (g3 a) (g3 b) = a.sqDist b := rfl
theorem coord3_min (a b : V3 K) : model3d.Coord3D_Min (g3 a) (g3 b) = g3 (a.vmin b) := rfl
theorem coord3_max (a b : V3 K) : model3d.Coord3D_Max (g3 a) (g3 b) = g3 (a.vmax b) := rfl

/-- Go's `c.Sub(c1)` is `c.Add(c1.Scale(-1))`; the model's `a - b` is the same number. -/
theorem coord3_sub (a b : V3 K) : model3d.Coord3D_Sub (g3 a) (g3 b) = g3 (a.sub b) := by
  -- robust against the harmless rewrite `Coord3D{c.X - c1.X, …}`
  cases a; cases b
  simp [model3d.Coord3D_Sub, model3d.Coord3D_Add, model3d.Coord3D_Scale, g3, V3.sub]
  try (refine ⟨?_, ?_, ?_⟩ <;> ring)

section sqrt
variable (E : Env K)

theorem coord3_norm (a : V3 K) : (letI := sqrtOf E; model3d.Coord3D_Norm (g3 a))= a.norm E := rfl
theorem coord3_dist (a b : V3 K) :
    (letI := sqrtOf E; model3d.Coord3D_Dist (g3 a) (g3 b))= a.dist E b := rfl
theorem coord3_normalize (a : V3 K) :
    (letI := sqrtOf E; model3d.Coord3D_Normalize (g3 a))= g3 (a.normalize E) := rfl

theorem coord3_projectOut (a b : V3 K) :
    (letI := sqrtOf E; model3d.Coord3D_ProjectOut (g3 a) (g3 b))= g3 (a.projectOut E b) := by
  unfold model3d.Coord3D_ProjectOut V3.projectOut
  simp only [coord3_normalize, coord3_dot, coord3_scale, coord3_sub]

/-- The two vectors of `Coord3D.OrthoBasis` (branch structure, divisions and the final normalisation). -/
theorem coord3_orthoBasis (c : V3 K) :
    (letI := sqrtOf E; model3d.Coord3D_OrthoBasis (g3 c)) =
      (g3 (c.orthoBasis E).1, g3 (c.orthoBasis E).2) := by
  unfold model3d.Coord3D_OrthoBasis V3.orthoBasis V3.orthoRaw2 V3.orthoRaw1
  simp only [g3_X, g3_Y, g3_Z, absS_eq, gt_iff_lt, Bool.and_eq_true, decide_eq_true_eq]
  split_ifs <;> rfl

/-! ## `Matrix3` -/

theorem matrix3_columns (a b c : V3 K) :
    model3d.NewMatrix3Columns (g3 a) (g3 b) (g3 c) = gm3 (M3.ofColumns a b c) := rfl
theorem matrix3_det (m : M3 K) : model3d.Matrix3_Det (gm3 m) = m.det := rfl
theorem matrix3_mulColumn (m : M3 K) (c : V3 K) :
    model3d.Matrix3_MulColumn (gm3 m) (g3 c) = g3 (m.mulColumn c) := rfl
/-- `InvertInPlace` (adjugate written through `*m = Matrix3{…}`, then the `Scale` loop) is the model's
closed form. -/
theorem matrix3_inverse (m : M3 K) : model3d.Matrix3_Inverse (gm3 m) = gm3 m.inverse := rfl

/-! ## `Segment`, `Triangle`, `Sphere`, `Rect` -/

theorem feq_eq_isZero_sub (a b : K) : feq a b = isZero (a - b) := by
  unfold feq isZero
  have h1 : (a < b) = (a - b < 0) := by rw [sub_neg]
  have h2 : (b < a) = (0 < a - b) := by rw [sub_pos]
  simp only [h1, h2, Bool.or_comm]

theorem feq_zero (a : K) : feq a 0 = isZero a := by
  rw [feq_eq_isZero_sub, sub_zero]

@[reducible] def gseg (s : V3 K × V3 K) : model3d.Segment K := ⟨g3 s.1, g3 s.2⟩

theorem newSegment (p1 p2 : V3 K) : model3d.NewSegment (g3 p1) (g3 p2) = gseg (newSegment3 p1 p2) := by
  unfold model3d.NewSegment newSegment3
  simp only [Bool.or_eq_true, Bool.and_eq_true, decide_eq_true_eq]
  simp only [g3_X, g3_Y, g3_Z, feq_eq_isZero_sub, or_assoc, and_assoc]
  split_ifs <;> rfl

theorem segment_closest (s0 s1 c : V3 K) :
    (letI := sqrtOf E; model3d.Segment_Closest ⟨g3 s0, g3 s1⟩ (g3 c)) = g3 (segClosest3 E s0 s1 c) := by
  unfold model3d.Segment_Closest segClosest3
  simp only [coord3_sub, coord3_norm, coord3_scale, coord3_dot, coord3_add, gt_iff_lt, decide_eq_true_eq]
  split_ifs <;> rfl

theorem segment_dist (s0 s1 c : V3 K) :
    (letI := sqrtOf E; model3d.Segment_Dist ⟨g3 s0, g3 s1⟩ (g3 c)) = segDist3 E s0 s1 c := by
  unfold model3d.Segment_Dist segDist3
  simp only [segment_closest, coord3_dist]

theorem triangle_normal (t0 t1 t2 : V3 K) :
    (letI := sqrtOf E; model3d.Triangle_Normal ⟨g3 t0, g3 t1, g3 t2⟩) = g3 (triNormal E t0 t1 t2) := by
  unfold model3d.Triangle_Normal model3d.Triangle_crossProduct triNormal
  simp only [coord3_sub, coord3_cross, coord3_normalize]

theorem sphere_sdf (center : V3 K) (r : K) (c : V3 K) :
    (letI := sqrtOf E; model3d.Sphere_SDF ⟨g3 center, r⟩ (g3 c)) = sphereSDF E center r c := rfl

/-- `Sphere.PointSDF` and `Sphere.NormalSDF` against the joint model `sphereOut`. -/
theorem sphere_point_normal_sdf (center : V3 K) (r : K) (c : V3 K) :
    (letI := sqrtOf E; model3d.Sphere_PointSDF ⟨g3 center, r⟩ (g3 c)) =
        (g3 (sphereOut E center r c).p, (sphereOut E center r c).val) ∧
    (letI := sqrtOf E; model3d.Sphere_NormalSDF ⟨g3 center, r⟩ (g3 c)) =
        (g3 (sphereOut E center r c).n, (sphereOut E center r c).val) := by
  unfold model3d.Sphere_PointSDF model3d.Sphere_NormalSDF sphereOut
  simp only [coord3_sub, coord3_norm, feq_zero, sphere_sdf, coord3_scale, coord3_add]
  split_ifs <;> exact ⟨rfl, rfl⟩

theorem feq_mn (c lo : K) : feq (Sdf.mn c lo) lo = !decide (c < lo) := by
  unfold feq Sdf.mn
  rcases lt_trichotomy c lo with h | h | h <;> simp [h, lt_asymm]

theorem feq_mx (c hi : K) : feq (Sdf.mx c hi) hi = !decide (hi < c) := by
  unfold feq Sdf.mx
  rcases lt_trichotomy c hi with h | h | h <;> simp [h, lt_asymm]

/-- `Rect.Contains` (`c.Min(r.MinVal) == r.MinVal && c.Max(r.MaxVal) == r.MaxVal`) is the six comparisons
of the model. -/
theorem rect_contains (lo hi c : V3 K) :
    model3d.Rect_Contains ⟨g3 lo, g3 hi⟩ (g3 c) = rectContains3 lo hi c := by
  unfold model3d.Rect_Contains rectContains3
  simp only [coord3_min, coord3_max, g3_X, g3_Y, g3_Z, V3.vmin, V3.vmax, feq_mn, feq_mx, Bool.and_assoc]

/-- `safeNormal` (normalise, project out the invalid direction, fall back when what is left is below the
literal `1e-5`): the model's `safeNormal3` with `E.eps5` that literal. -/
theorem safeNormal3_eq (he : E.eps5 = (1.0e-5 : K)) (d f i : V3 K) :
    (letI := sqrtOf E; model3d.safeNormal (g3 d) (g3 f) (g3 i)) = g3 (safeNormal3 E d f i) := by
  unfold model3d.safeNormal safeNormal3
  simp only [coord3_norm, feq_zero, coord3_scale, coord3_projectOut, decide_eq_true_eq, he]
  split_ifs <;> rfl

/-! ## the `model2d` twins -/

theorem coord2_add (a b : V2 K) : model2d.Coord_Add (g2 a) (g2 b) = g2 (a.add b) := rfl
theorem coord2_scale (a : V2 K) (s : K) : model2d.Coord_Scale (g2 a) s = g2 (a.scale s) := rfl
theorem coord2_dot (a b : V2 K) : model2d.Coord_Dot (g2 a) (g2 b) = a.dot b := rfl
theorem coord2_normSq (a : V2 K) : model2d.Coord_NormSquared (g2 a) = a.normSq := rfl
theorem coord2_sqDist (a b : V2 K) : model2d.Coord_SquaredDist (g2 a) (g2 b) = a.sqDist b := rfl
theorem coord2_min (a b : V2 K) : model2d.Coord_Min (g2 a) (g2 b) = g2 (a.vmin b) := rfl
theorem coord2_max (a b : V2 K) : model2d.Coord_Max (g2 a) (g2 b) = g2 (a.vmax b) := rfl
theorem coord2_sub (a b : V2 K) : model2d.Coord_Sub (g2 a) (g2 b) = g2 (a.sub b) := by
  cases a; cases b
  simp [model2d.Coord_Sub, model2d.Coord_Add, model2d.Coord_Scale, g2, V2.sub]
  try (refine ⟨?_, ?_⟩ <;> ring)
theorem coord2_norm (a : V2 K) : (letI := sqrtOf E; model2d.Coord_Norm (g2 a)) = a.norm E := rfl
theorem coord2_dist (a b : V2 K) : (letI := sqrtOf E; model2d.Coord_Dist (g2 a) (g2 b)) = a.dist E b := rfl
theorem coord2_normalize (a : V2 K) :
    (letI := sqrtOf E; model2d.Coord_Normalize (g2 a)) = g2 (a.normalize E) := rfl
theorem coord2_projectOut (a b : V2 K) :
    (letI := sqrtOf E; model2d.Coord_ProjectOut (g2 a) (g2 b)) = g2 (a.projectOut E b) := by
  unfold model2d.Coord_ProjectOut V2.projectOut
  simp only [coord2_normalize, coord2_dot, coord2_scale, coord2_sub]
/-- `Coord.Mid` multiplies by the literal `0.5`, the model by `E.half`. -/
theorem coord2_mid (hh : E.half = (0.5 : K)) (a b : V2 K) :
    model2d.Coord_Mid (g2 a) (g2 b) = g2 (a.mid E b) := by
  unfold model2d.Coord_Mid V2.mid
  rw [coord2_add, coord2_scale, hh]

theorem safeNormal2_eq (he : E.eps5 = (1.0e-5 : K)) (d f i : V2 K) :
    (letI := sqrtOf E; model2d.safeNormal (g2 d) (g2 f) (g2 i)) = g2 (safeNormal2 E d f i) := by
  unfold model2d.safeNormal safeNormal2
  simp only [coord2_norm, feq_zero, coord2_scale, coord2_projectOut, decide_eq_true_eq, he]
  split_ifs <;> rfl

theorem segment2_closest (s0 s1 c : V2 K) :
    (letI := sqrtOf E; model2d.Segment_Closest ⟨g2 s0, g2 s1⟩ (g2 c)) = g2 (segClosest2 E s0 s1 c) := by
  unfold model2d.Segment_Closest segClosest2
  simp only [coord2_sub, coord2_norm, coord2_scale, coord2_dot, coord2_add, gt_iff_lt, decide_eq_true_eq]
  split_ifs <;> rfl

theorem segment2_dist (s0 s1 c : V2 K) :
    (letI := sqrtOf E; model2d.Segment_Dist ⟨g2 s0, g2 s1⟩ (g2 c)) = segDist2 E s0 s1 c := by
  unfold model2d.Segment_Dist segDist2
  simp only [segment2_closest, coord2_dist]

theorem circle_sdf (center : V2 K) (r : K) (c : V2 K) :
    (letI := sqrtOf E; model2d.Circle_SDF ⟨g2 center, r⟩ (g2 c)) = circleSDF E center r c := rfl

theorem circle_point_normal_sdf (center : V2 K) (r : K) (c : V2 K) :
    (letI := sqrtOf E; model2d.Circle_PointSDF ⟨g2 center, r⟩ (g2 c)) =
        (g2 (circleOut E center r c).p, (circleOut E center r c).val) ∧
    (letI := sqrtOf E; model2d.Circle_NormalSDF ⟨g2 center, r⟩ (g2 c)) =
        (g2 (circleOut E center r c).n, (circleOut E center r c).val) := by
  unfold model2d.Circle_PointSDF model2d.Circle_NormalSDF circleOut
  simp only [coord2_sub, coord2_norm, feq_zero, circle_sdf, coord2_scale, coord2_add]
  split_ifs <;> exact ⟨rfl, rfl⟩

theorem rect2_contains (lo hi c : V2 K) :
    model2d.Rect_Contains ⟨g2 lo, g2 hi⟩ (g2 c) = rectContains2 lo hi c := by
  unfold model2d.Rect_Contains rectContains2
  simp only [coord2_min, coord2_max, g2_X, g2_Y, V2.vmin, V2.vmax, feq_mn, feq_mx, Bool.and_assoc]

/-- `NewTriangle`'s inverse matrix: `NewMatrix2Columns(v1, v2)` then `InvertInPlaceDet(det)` with the
determinant `v1.X*v2.Y - v2.X*v1.Y` is the model's `tri2InvMat`. -/
theorem tri2_invMat (p1 p2 p3 : V2 K) :
    model2d.Matrix2_InvertInPlaceDet
        (model2d.NewMatrix2Columns (g2 (p2.sub p1)) (g2 (p3.sub p1)))
        ((p2.sub p1).x * (p3.sub p1).y - (p3.sub p1).x * (p2.sub p1).y) =
      (let m := tri2InvMat p1 p2 p3; ⟨m.m0, m.m1, m.m2, m.m3⟩) := rfl

/-! ## `Contains`, bounds and ball queries of the primitives (C06 round 2) -/

def gm2 (m : M2 K) : model2d.Matrix2 K := ⟨m.m0, m.m1, m.m2, m.m3⟩

theorem coord3_addScalar (a : V3 K) (s : K) : model3d.Coord3D_AddScalar (g3 a) s = g3 (a.addScalar s) := rfl
theorem coord2_addScalar (a : V2 K) (s : K) : model2d.Coord_AddScalar (g2 a) s = g2 (a.addScalar s) := rfl

theorem sphere_contains (center : V3 K) (r : K) (c : V3 K) :
    (letI := sqrtOf E; model3d.Sphere_Contains ⟨g3 center, r⟩ (g3 c)) = sphereContains E center r c := rfl
theorem circle_contains (center : V2 K) (r : K) (c : V2 K) :
    (letI := sqrtOf E; model2d.Circle_Contains ⟨g2 center, r⟩ (g2 c)) = circleContains E center r c := rfl

/-- `Sphere.SphereCollision(c, r)` is `|SDF(c)| ≤ r`: the threshold ball query that `colliderSDF` bisects on
(`collider_sdf_brackets`) and that `transformedCollider` forwards (`xfBallQuery`). -/
theorem sphere_sphereCollision (center : V3 K) (r0 : K) (c : V3 K) (r : K) :
    (letI := sqrtOf E; model3d.Sphere_SphereCollision ⟨g3 center, r0⟩ (g3 c) r) = sphereBall E center r0 c r := rfl
theorem circle_circleCollision (center : V2 K) (r0 : K) (c : V2 K) (r : K) :
    (letI := sqrtOf E; model2d.Circle_CircleCollision ⟨g2 center, r0⟩ (g2 c) r) = circleBall E center r0 c r := rfl
/-- … which is the model's transformed ball query for the identity distance map. -/
theorem sphereBall_eq_query (center : V3 K) (r0 : K) (c : V3 K) (r : K) :
    sphereBall E center r0 c r = xfBallQuery id (sphereSDF E center r0 c) r := rfl
theorem circleBall_eq_query (center : V2 K) (r0 : K) (c : V2 K) (r : K) :
    circleBall E center r0 c r = xfBallQuery id (circleSDF E center r0 c) r := rfl

/-- 3-D `Capsule.Contains`: `NewSegment(P1, P2).Dist(c) <= Radius`. -/
theorem capsule_contains (p1 p2 : V3 K) (r : K) (c : V3 K) :
    (letI := sqrtOf E; model3d.Capsule_Contains ⟨g3 p1, g3 p2, r⟩ (g3 c)) = capsuleContains3 E p1 p2 r c := by
  unfold model3d.Capsule_Contains capsuleContains3
  simp only [newSegment, gseg, segment_dist]

/-- 2-D `Capsule.Contains`: `Segment{P1, P2}.Dist(c) <= Radius`. -/
theorem capsule2_contains (p1 p2 : V2 K) (r : K) (c : V2 K) :
    (letI := sqrtOf E; model2d.Capsule_Contains ⟨g2 p1, g2 p2, r⟩ (g2 c)) = capsuleContains2 E p1 p2 r c := by
  unfold model2d.Capsule_Contains capsuleContains2
  simp only [segment2_dist]

/-- `Cylinder.Contains` (projection onto the normalised axis `P1 - P2`, range test, radial distance). -/
theorem cylinder_contains (p1 p2 : V3 K) (r : K) (p : V3 K) :
    (letI := sqrtOf E; model3d.Cylinder_Contains ⟨g3 p1, g3 p2, r⟩ (g3 p)) = cylinderContains E p1 p2 r p := by
  unfold model3d.Cylinder_Contains cylinderContains
  simp only [coord3_sub, coord3_normalize, coord3_dot, coord3_norm, coord3_scale, coord3_add, coord3_dist,
    gt_iff_lt, Bool.or_eq_true, decide_eq_true_eq]
  try (split_ifs <;> rfl)

/-- `Cone.Contains` (fraction along the centre line, radius shrinking linearly to the tip). -/
theorem cone_contains (tip base : V3 K) (r : K) (p : V3 K) :
    (letI := sqrtOf E; model3d.Cone_Contains ⟨g3 tip, g3 base, r⟩ (g3 p)) = coneContains E tip base r p := by
  unfold model3d.Cone_Contains coneContains
  simp only [coord3_sub, coord3_normalize, coord3_dot, coord3_norm, coord3_scale, coord3_add, coord3_dist,
    gt_iff_lt, Bool.or_eq_true, decide_eq_true_eq]
  try (split_ifs <;> rfl)

theorem rect_min_max (lo hi : V3 K) :
    model3d.Rect_Min ⟨g3 lo, g3 hi⟩ = g3 lo ∧ model3d.Rect_Max ⟨g3 lo, g3 hi⟩ = g3 hi := ⟨rfl, rfl⟩
theorem rect2_min_max (lo hi : V2 K) :
    model2d.Rect_Min ⟨g2 lo, g2 hi⟩ = g2 lo ∧ model2d.Rect_Max ⟨g2 lo, g2 hi⟩ = g2 hi := ⟨rfl, rfl⟩
theorem sphere_min_max (center : V3 K) (r : K) :
    model3d.Sphere_Min ⟨g3 center, r⟩ = g3 (sphereMin center r) ∧
    model3d.Sphere_Max ⟨g3 center, r⟩ = g3 (sphereMax center r) := ⟨rfl, rfl⟩
theorem circle_min_max (center : V2 K) (r : K) :
    model2d.Circle_Min ⟨g2 center, r⟩ = g2 (circleMin center r) ∧
    model2d.Circle_Max ⟨g2 center, r⟩ = g2 (circleMax center r) := ⟨rfl, rfl⟩
theorem capsule_min_max (p1 p2 : V3 K) (r : K) :
    model3d.Capsule_Min ⟨g3 p1, g3 p2, r⟩ = g3 (capsuleMin3 p1 p2 r) ∧
    model3d.Capsule_Max ⟨g3 p1, g3 p2, r⟩ = g3 (capsuleMax3 p1 p2 r) := ⟨rfl, rfl⟩
theorem capsule2_min_max (p1 p2 : V2 K) (r : K) :
    model2d.Capsule_Min ⟨g2 p1, g2 p2, r⟩ = g2 (capsuleMin2 p1 p2 r) ∧
    model2d.Capsule_Max ⟨g2 p1, g2 p2, r⟩ = g2 (capsuleMax2 p1 p2 r) := ⟨rfl, rfl⟩

/-! ## `Matrix2` and the members of a `JoinedTransform` (the C06 model `Xf3`/`Xf2`) -/

theorem matrix2_mulColumn (m : M2 K) (c : V2 K) :
    model2d.Matrix2_MulColumn (gm2 m) (g2 c) = g2 (m.mulColumn c) := rfl
/-- `Matrix2.Inverse` (copy, `InvertInPlace` = `InvertInPlaceDet(Det())`: adjugate, then the `Scale` loop). -/
theorem matrix2_inverse (m : M2 K) : model2d.Matrix2_Inverse (gm2 m) = gm2 m.inverse := rfl

theorem translate_apply (o c : V3 K) :
    model3d.Translate_Apply ⟨g3 o⟩ (g3 c) = g3 ((Xf3.translate o).apply c) := rfl
theorem translate_applyDistance (o : V3 K) (d : K) :
    model3d.Translate_ApplyDistance ⟨g3 o⟩ d = (Xf3.translate o).applyDistance d := rfl
theorem scale_apply (k : K) (c : V3 K) :
    model3d.Scale_Apply ⟨k⟩ (g3 c) = g3 ((Xf3.scale k).apply c) := rfl
/-- `Scale.ApplyDistance(d) = d * math.Abs(s.Scale)` -/
theorem scale_applyDistance (k d : K) :
    model3d.Scale_ApplyDistance ⟨k⟩ d = (Xf3.scale k).applyDistance d := rfl
theorem rotation_apply (m : M3 K) (c : V3 K) :
    model3d.Matrix3Transform_Apply ⟨gm3 m⟩ (g3 c) = g3 ((Xf3.rot m).apply c) := rfl
theorem rotation_applyDistance (m : M3 K) (d : K) :
    model3d.orthoMatrix3Transform_ApplyDistance ⟨⟨gm3 m⟩⟩ d = (Xf3.rot m).applyDistance d := rfl

theorem translate2_apply (o c : V2 K) :
    model2d.Translate_Apply ⟨g2 o⟩ (g2 c) = g2 ((Xf2.translate o).apply c) := rfl
theorem translate2_applyDistance (o : V2 K) (d : K) :
    model2d.Translate_ApplyDistance ⟨g2 o⟩ d = (Xf2.translate o).applyDistance d := rfl
theorem scale2_apply (k : K) (c : V2 K) :
    model2d.Scale_Apply ⟨k⟩ (g2 c) = g2 ((Xf2.scale k).apply c) := rfl
theorem scale2_applyDistance (k d : K) :
    model2d.Scale_ApplyDistance ⟨k⟩ d = (Xf2.scale k).applyDistance d := rfl
theorem rotation2_apply (m : M2 K) (c : V2 K) :
    model2d.Matrix2Transform_Apply ⟨gm2 m⟩ (g2 c) = g2 ((Xf2.rot m).apply c) := rfl
theorem rotation2_applyDistance (m : M2 K) (d : K) :
    model2d.orthoMatrix2Transform_ApplyDistance ⟨⟨gm2 m⟩⟩ d = (Xf2.rot m).applyDistance d := rfl

end sqrt

end M3d.KernelsTie.Sdf
