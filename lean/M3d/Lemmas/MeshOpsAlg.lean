import M3d.Model.MeshOps
import Mathlib.Tactic.Ring
import Mathlib.Tactic.FieldSimp
import Mathlib.Tactic.NormNum
import Mathlib.Tactic.LinearCombination
import Mathlib.Algebra.Order.Field.Basic
import Mathlib.Tactic.Linarith
/-!
Algebraic facts about the vertex-placement rules, proved over every field
(so for ℚ — the exact mode the driver executes — and ℝ).
-/
namespace M3d.MeshOps
variable {K : Type} [Field K]

/-! ### Loop masks -/

theorem loopBeta_three : (loopBeta 3 : K) = 3 / 16 := by
  simp [loopBeta]

theorem loopBeta_other (k : Nat) (h : k ≠ 3) : (loopBeta k : K) = 3 / (8 * (k : K)) := by
  simp [loopBeta, h]

/-- The weights of the old vertex (`1 - k·β`) and of its `k` neighbours (`β` each) sum to one. -/
theorem loop_corner_weights_sum (k : Nat) : (1 - (k : K) * loopBeta k) + (k : K) * loopBeta k = 1 := by
  ring

/-- The four weights of an edge point: 3/8, 3/8, 1/8, 1/8. -/
theorem loopEdge_eq (a b o1 o2 : V3 K) :
    loopEdge a b o1 o2 =
      ⟨3/8 * a.x + 3/8 * b.x + 1/8 * o1.x + 1/8 * o2.x,
       3/8 * a.y + 3/8 * b.y + 1/8 * o1.y + 1/8 * o2.y,
       3/8 * a.z + 3/8 * b.z + 1/8 * o1.z + 1/8 * o2.z⟩ := by
  simp only [loopEdge, V3.add, V3.scale, V3.mk.injEq]
  refine ⟨?_, ?_, ?_⟩ <;> push_cast <;> ring

theorem loop_edge_weights_sum [CharZero K] : (3/8 : K) + 3/8 + 1/8 + 1/8 = 1 := by norm_num

/-- With one neighbour list `[n₁,…]` folded into a sum `s`, the corner rule is
`c·(1-kβ) + s·β` componentwise. -/
theorem loopCorner_x (c : V3 K) (nbrs : List (V3 K)) :
    (loopCorner c nbrs).x =
      c.x * (1 - (nbrs.length : K) * loopBeta nbrs.length) + (nbrs.foldl V3.add V3.zero).x * loopBeta nbrs.length := by
  simp [loopCorner, V3.add, V3.scale]

/-! ### Chaikin masks -/

theorem chaikinPoint_eq (p q : V2 K) :
    chaikinPoint p q = ⟨3/4 * p.x + 1/4 * q.x, 3/4 * p.y + 1/4 * q.y⟩ := by
  simp only [chaikinPoint, V2.add, V2.scale, V2.mk.injEq]
  refine ⟨?_, ?_⟩ <;> push_cast <;> ring

theorem chaikin_weights_sum [CharZero K] : (3/4 : K) + 1/4 = 1 := by norm_num

/-! ### Blur -/

theorem blurPoint_rate0 (c : V3 K) (nbrs : List (V3 K)) : blurPoint 0 c nbrs = c := by
  unfold blurPoint
  split
  · rfl
  · cases c; simp [V3.add, V3.scale]

theorem blurPoint_rate1 (c : V3 K) (nbrs : List (V3 K)) (h : nbrs ≠ []) :
    blurPoint 1 c nbrs = (nbrs.foldl V3.add V3.zero).scale (1 / (nbrs.length : K)) := by
  unfold blurPoint
  have : nbrs.isEmpty = false := by cases nbrs <;> simp_all
  simp only [this, Bool.false_eq_true, ↓reduceIte]
  simp [V3.add, V3.scale]

theorem blurPoint2_rate0 (c : V2 K) (nbrs : List (V2 K)) : blurPoint2 0 c nbrs = c := by
  cases c; simp [blurPoint2, V2.add, V2.scale]

theorem blurPoint2_rate1 (c : V2 K) (nbrs : List (V2 K)) :
    blurPoint2 1 c nbrs = (nbrs.foldl V2.add V2.zero).scale (1 / (nbrs.length : K)) := by
  simp [blurPoint2, V2.add, V2.scale]

/-! ### Areas and volumes -/

/-- Shoelace identity behind colinear-vertex removal: replacing `p→v→n` by `p→n` changes twice
the enclosed signed area by exactly the doubled area of the triangle `p v n`. -/
theorem cross_bridge (p v n : V2 K) :
    V2.cross p v + V2.cross v n - V2.cross p n
      = V2.cross ⟨v.x - p.x, v.y - p.y⟩ ⟨n.x - v.x, n.y - v.y⟩ := by
  simp only [V2.cross]; ring

/-- Barycentric lattice point of `SubdivideEdges`: row `i`, position `j`. -/
def bary (n : K) (a b c : V3 K) (i j : K) : V3 K :=
  ⟨a.x * (1 - i / n) + b.x * ((i - j) / n) + c.x * (j / n),
   a.y * (1 - i / n) + b.y * ((i - j) / n) + c.y * (j / n),
   a.z * (1 - i / n) + b.z * ((i - j) / n) + c.z * (j / n)⟩

/-- The nested interpolation of the Go code (`side1[i]`, `side2[i]`, then `j/i` along the row)
lands on the barycentric lattice point. -/
theorem row_point_eq_bary (n i j : K) (hn : n ≠ 0) (hi : i ≠ 0) (a b c : V3 K) :
    lerp3 (lerp3 a b (i / n)) (lerp3 a c (i / n)) (j / i) = bary n a b c i j := by
  simp only [lerp3, bary, V3.add, V3.scale, V3.mk.injEq]
  refine ⟨?_, ?_, ?_⟩ <;> field_simp <;> ring

/-- Every "upward" sub-triangle `(P(i,j), P(i+1,j), P(i+1,j+1))` has `1/n²` of the signed volume. -/
theorem det_up (n i j : K) (hn : n ≠ 0) (a b c : V3 K) :
    V3.det (bary n a b c i j) (bary n a b c (i + 1) j) (bary n a b c (i + 1) (j + 1))
      = V3.det a b c / (n * n) := by
  simp only [V3.det, bary]
  field_simp
  ring

/-- Every "downward" sub-triangle `(P(i,j), P(i,j-1), P(i+1,j))` has `1/n²` of the signed volume. -/
theorem det_down (n i j : K) (hn : n ≠ 0) (a b c : V3 K) :
    V3.det (bary n a b c i j) (bary n a b c i (j - 1)) (bary n a b c (i + 1) j)
      = V3.det a b c / (n * n) := by
  simp only [V3.det, bary]
  field_simp
  ring

/-- `divideSegment` gives the same points from either end (why both faces at an edge get the
same edge points; the Go code orders the end points so that this also holds in floats). -/
theorem lerp3_symm (c1 c2 : V3 K) (t : K) : lerp3 c1 c2 t = lerp3 c2 c1 (1 - t) := by
  simp only [lerp3, V3.add, V3.scale, V3.mk.injEq]
  refine ⟨?_, ?_, ?_⟩ <;> ring

/-! ### Nearly colinear vertex removal -/

/-- Lagrange: `cross² + dot² = |d1|²|d2|²`. -/
theorem cross_sq_add_dot_sq (d1 d2 : V2 K) :
    V2.cross d1 d2 * V2.cross d1 d2 + (d1.x * d2.x + d1.y * d2.y) * (d1.x * d2.x + d1.y * d2.y)
      = (d1.x * d1.x + d1.y * d1.y) * (d2.x * d2.x + d2.y * d2.y) := by
  simp only [V2.cross]; ring

/-- If the two segments at a vertex meet the criterion `1 - cos(turn) ≤ ε` (`L = |d1||d2|`,
`cos = dot / L`), removing the vertex changes twice the enclosed area — `cross d1 d2`, see
`cross_bridge` — by at most `√(2ε)·|d1||d2|` (stated squared). -/
theorem nearly_colinear_cross_bound [LinearOrder K] [IsStrictOrderedRing K] (d1 d2 : V2 K) (L eps : K)
    (hL : 0 ≤ L) (hL2 : L * L = (d1.x * d1.x + d1.y * d1.y) * (d2.x * d2.x + d2.y * d2.y))
    (h0 : 0 ≤ eps) (h1 : eps ≤ 1) (hcrit : (1 - eps) * L ≤ d1.x * d2.x + d1.y * d2.y) :
    V2.cross d1 d2 * V2.cross d1 d2 ≤ 2 * eps * (L * L) := by
  have hlag := cross_sq_add_dot_sq d1 d2
  have hq : 0 ≤ (1 - eps) * L := mul_nonneg (by linarith) hL
  have hsq : (1 - eps) * L * ((1 - eps) * L) ≤
      (d1.x * d2.x + d1.y * d2.y) * (d1.x * d2.x + d1.y * d2.y) :=
    mul_le_mul hcrit hcrit hq (le_trans hq hcrit)
  have hLL : 0 ≤ L * L := mul_nonneg hL hL
  nlinarith [mul_nonneg (mul_nonneg h0 h0) hLL]

end M3d.MeshOps
