import M3d.Model.CodecListAlloc
import M3d.Lemmas.CodecSafe
/-! The capacity ledger of the PLY list loop is linear in the entries really read, for every declared
length and every growth policy `g` with `g l ≤ 2·l + c` and `5·l ≤ 4·g l` (C16). -/
namespace M3d.Codec

/-! ## the append loop -/

/-- every request of the append loop is made at a length the loop really reached, and asks for what
the policy says -/
theorem appendLoop_mem (g : Nat → Nat) : ∀ (k : Nat) (s : SliceSt), ∀ r ∈ appendLoop g k s,
    s.len ≤ r.1 ∧ r.1 < s.len + k ∧ r.2 = g r.1 := by
  intro k
  induction k with
  | zero => intro s r h; simp [appendLoop] at h
  | succ k ih =>
    intro s r h
    unfold appendLoop appendStep at h
    by_cases hc : s.len = s.cap
    · simp only [hc, if_true] at h
      rcases List.mem_cons.mp h with rfl | h
      · exact ⟨by simp only; omega, by simp only; omega, by simp only⟩
      · have := ih _ r h
        simp only at this
        omega
    · simp only [hc, if_false] at h
      have := ih _ r h
      simp only at this
      omega

/-- no request is made while the pre-allocated capacity suffices -/
theorem appendLoop_nil (g : Nat → Nat) : ∀ (k : Nat) (s : SliceSt), s.len + k ≤ s.cap → appendLoop g k s = [] := by
  intro k
  induction k with
  | zero => intro s _; rfl
  | succ k ih =>
    intro s h
    unfold appendLoop appendStep
    have hc : s.len ≠ s.cap := by omega
    simp only [hc, if_false]
    exact ih _ (by simp only; omega)

theorem appendEnd_cap_ge (g : Nat → Nat) (hamort : ∀ l, 5 * l ≤ 4 * g l) :
    ∀ (k : Nat) (s : SliceSt), s.cap ≤ (appendEnd g k s).cap := by
  intro k
  induction k with
  | zero => intro s; simp [appendEnd]
  | succ k ih =>
    intro s
    unfold appendEnd appendStep
    by_cases hc : s.len = s.cap
    · simp only [hc, if_true]
      have h1 := ih ⟨s.cap + 1, g s.cap⟩
      have h2 := hamort s.cap
      simp only at h1
      omega
    · simp only [hc, if_false]
      exact ih ⟨s.len + 1, s.cap⟩

/-- the final capacity is the pre-allocation or at most `2·(entries appended) + c` -/
theorem appendEnd_cap_le (g : Nat → Nat) (c : Nat) (hub : ∀ l, g l ≤ 2 * l + c) :
    ∀ (k : Nat) (s : SliceSt), (appendEnd g k s).cap ≤ max s.cap (2 * (s.len + k) + c) := by
  intro k
  induction k with
  | zero => intro s; simp only [appendEnd]; omega
  | succ k ih =>
    intro s
    unfold appendEnd appendStep
    by_cases hc : s.len = s.cap
    · simp only [hc, if_true]
      have h1 := ih ⟨s.cap + 1, g s.cap⟩
      have h2 := hub s.cap
      simp only at h1
      omega
    · simp only [hc, if_false]
      have h1 := ih ⟨s.len + 1, s.cap⟩
      simp only at h1
      omega

/-- amortisation: all capacities requested by the loop together are at most 5 × the growth of the
capacity (each request is at least 5/4 of the capacity it replaces, so the sum telescopes) -/
theorem appendLoop_sum (g : Nat → Nat) (hamort : ∀ l, 5 * l ≤ 4 * g l) :
    ∀ (k : Nat) (s : SliceSt), sumSlots (appendLoop g k s) + 5 * s.cap ≤ 5 * (appendEnd g k s).cap := by
  intro k
  induction k with
  | zero => intro s; simp [appendLoop, appendEnd, sumSlots]
  | succ k ih =>
    intro s
    unfold appendLoop appendEnd appendStep
    by_cases hc : s.len = s.cap
    · simp only [hc, if_true, sumSlots]
      have h1 := ih ⟨s.cap + 1, g s.cap⟩
      have h2 := hamort s.cap
      simp only at h1
      omega
    · simp only [hc, if_false]
      exact ih ⟨s.len + 1, s.cap⟩

/-! ## one list property -/

theorem listCap0_le (n : Nat) : listCap0 n ≤ plyMaxPrealloc ∧ listCap0 n ≤ n := by
  unfold listCap0; omega

/-- **every request** of a list property: made after `l ≤ k` entries were read, and at most the bounded
pre-allocation (`l = 0`) or `2·l + c` -/
theorem listRequests_mem (g : Nat → Nat) (c : Nat) (hub : ∀ l, g l ≤ 2 * l + c) (n k : Nat) :
    ∀ r ∈ listRequests g n k, r.1 ≤ k ∧ r.2 ≤ max (listCap0 n) (2 * r.1 + c) := by
  intro r h
  unfold listRequests at h
  rcases List.mem_cons.mp h with rfl | h
  · simp only; omega
  · have := appendLoop_mem g k _ r h
    have := hub r.1
    simp only at *
    omega

/-- total of one list property: pre-allocation + 10 slots per entry read + 5c -/
theorem listSlots_linear (g : Nat → Nat) (c : Nat) (hub : ∀ l, g l ≤ 2 * l + c) (hamort : ∀ l, 5 * l ≤ 4 * g l)
    (n k : Nat) : listSlots g n k ≤ listCap0 n + 10 * k + 5 * c := by
  unfold listSlots listRequests
  simp only [sumSlots]
  have h1 := appendLoop_sum g hamort k ⟨0, listCap0 n⟩
  have h2 := appendEnd_cap_le g c hub k ⟨0, listCap0 n⟩
  simp only at h1 h2
  omega

/-- nothing beyond the pre-allocation is requested for a list that fits in it -/
theorem listSlots_nogrow (g : Nat → Nat) (n k : Nat) (h : k ≤ listCap0 n) : listSlots g n k = listCap0 n := by
  unfold listSlots listRequests
  simp only [sumSlots]
  rw [appendLoop_nil g k ⟨0, listCap0 n⟩ (by simp only; omega)]
  simp [sumSlots]

/-- with `c ≤ 4096`: pre-allocation + 15 slots per entry read, for every declared length -/
theorem listSlots_le (g : Nat → Nat) (c : Nat) (hc : c ≤ plyMaxPrealloc) (hub : ∀ l, g l ≤ 2 * l + c)
    (hamort : ∀ l, 5 * l ≤ 4 * g l) (n k : Nat) (hk : k ≤ n) : listSlots g n k ≤ listCap0 n + 15 * k := by
  by_cases h : k ≤ listCap0 n
  · rw [listSlots_nogrow g n k h]; omega
  · have := listSlots_linear g c hub hamort n k
    unfold listCap0 at h
    omega

/-! ## the trace specification -/

/-- a trace that meets the specification is amortised: its slots telescope against the last capacity -/
theorem traceOK_sum (c k : Nat) : ∀ (T : List (Nat × Nat)) (prev : Nat), traceOK c k prev T = true →
    sumSlots T + 5 * prev ≤ 5 * max prev (2 * k + c) := by
  intro T
  induction T with
  | nil => intro prev _; simp only [sumSlots]; omega
  | cons r rest ih =>
    intro prev h
    obtain ⟨l, cp⟩ := r
    simp only [traceOK, Bool.and_eq_true, decide_eq_true_eq] at h
    obtain ⟨⟨⟨⟨h1, h2⟩, h3⟩, h4⟩, h5⟩ := h
    have := ih cp h5
    simp only [sumSlots]
    omega

/-- **the specification implies the bound**: requests that pass `requestsOK` total at most
`min(declared, 4096) + 10·k + 5·c` slots -/
theorem requestsOK_sum (c declared k : Nat) (T : List (Nat × Nat)) (h : requestsOK c declared k T = true) :
    sumSlots T ≤ listCap0 declared + 10 * k + 5 * c := by
  cases T with
  | nil => simp [sumSlots]
  | cons r rest =>
    obtain ⟨l, cp⟩ := r
    simp only [requestsOK] at h
    by_cases hc : l = 0 ∧ cp ≤ listCap0 declared
    · rw [if_pos hc] at h
      have := traceOK_sum c k rest cp h
      simp only [sumSlots]
      omega
    · rw [if_neg hc] at h
      have := traceOK_sum c k _ 0 h
      omega

/-- **the model meets the specification**: the growth requests of the append loop under any policy with
`l < g l ≤ 2·l + c` and `5·l ≤ 4·g l` pass `traceOK` -/
theorem appendLoop_traceOK (g : Nat → Nat) (c : Nat) (hlt : ∀ l, l < g l) (hub : ∀ l, g l ≤ 2 * l + c)
    (hamort : ∀ l, 5 * l ≤ 4 * g l) : ∀ (k : Nat) (s : SliceSt), s.len ≤ s.cap →
    traceOK c (s.len + k) s.cap (appendLoop g k s) = true := by
  intro k
  induction k with
  | zero => intro s _; simp [appendLoop, traceOK]
  | succ k ih =>
    intro s hs
    unfold appendLoop appendStep
    by_cases hc : s.len = s.cap
    · simp only [hc, if_true]
      have h1 := ih ⟨s.cap + 1, g s.cap⟩ (by have := hlt s.cap; simp only; omega)
      have e : s.cap + 1 + k = s.cap + (k + 1) := by omega
      simp only [e] at h1
      simp only [traceOK, Bool.and_eq_true, decide_eq_true_eq]
      have := hub s.cap
      have := hamort s.cap
      exact ⟨⟨⟨⟨by omega, by omega⟩, by omega⟩, by omega⟩, h1⟩
    · simp only [hc, if_false]
      have h1 := ih ⟨s.len + 1, s.cap⟩ (by simp only; omega)
      have e : s.len + 1 + k = s.len + (k + 1) := by omega
      simp only [e] at h1
      exact h1

theorem listRequests_requestsOK (g : Nat → Nat) (c : Nat) (hlt : ∀ l, l < g l) (hub : ∀ l, g l ≤ 2 * l + c)
    (hamort : ∀ l, 5 * l ≤ 4 * g l) (declared k : Nat) :
    requestsOK c declared k (listRequests g declared k) = true := by
  unfold listRequests requestsOK
  have h := appendLoop_traceOK g c hlt hub hamort k ⟨0, listCap0 declared⟩ (by simp)
  simp only [Nat.zero_add] at h
  simp [h]

/-! ## entries really read -/

theorem scalarsRead_le (e : Endian) (k : Kind) : ∀ (n : Nat) (bs : Bytes), scalarsRead e k n bs ≤ n := by
  intro n
  induction n with
  | zero => intro bs; simp [scalarsRead]
  | succ n ih =>
    intro bs
    unfold scalarsRead
    cases h : readScalarBin e k bs with
    | error er => simp
    | ok q =>
      obtain ⟨s, bs'⟩ := q
      have := ih bs'
      simp only
      omega

/-- every entry read was `k.size` bytes of input -/
theorem scalarsRead_bytes (e : Endian) (k : Kind) : ∀ (n : Nat) (bs : Bytes),
    scalarsRead e k n bs * k.size ≤ bs.length := by
  intro n
  induction n with
  | zero => intro bs; simp [scalarsRead]
  | succ n ih =>
    intro bs
    unfold scalarsRead
    cases h : readScalarBin e k bs with
    | error er => simp
    | ok q =>
      obtain ⟨s, bs'⟩ := q
      have h1 := ih bs'
      have h2 := readScalarBin_consumes h
      simp only
      rw [Nat.add_mul]
      omega

/-- when the model's list loop succeeds, all declared entries were read -/
theorem scalarsRead_of_ok {e : Endian} {k : Kind} : ∀ {n : Nat} {bs r : Bytes} {xs : List Scalar},
    readScalarsBin e k n bs = .ok (xs, r) → scalarsRead e k n bs = n := by
  intro n
  induction n with
  | zero => intro bs r xs _; simp [scalarsRead]
  | succ n ih =>
    intro bs r xs h
    unfold readScalarsBin at h
    unfold scalarsRead
    cases h1 : readScalarBin e k bs with
    | error er => simp [h1] at h
    | ok q =>
      obtain ⟨s, bs'⟩ := q
      simp only [h1] at h
      cases h2 : readScalarsBin e k n bs' with
      | error er => simp [h2] at h
      | ok q2 =>
        obtain ⟨ss, bs''⟩ := q2
        have := ih h2
        simp only
        omega

theorem tokensRead_le (ft : FloatText) (k : Kind) : ∀ (n : Nat) (toks : List Bytes),
    tokensRead ft k n toks ≤ n ∧ tokensRead ft k n toks ≤ toks.length := by
  intro n
  induction n with
  | zero => intro toks; simp [tokensRead]
  | succ n ih =>
    intro toks
    cases toks with
    | nil => simp [tokensRead]
    | cons t ts =>
      unfold tokensRead
      cases h : parseScalar ft k t with
      | none => simp
      | some v =>
        have := ih ts
        simp only [List.length_cons]
        omega

/-! ## a whole binary row -/

/-- **allocation, binary rows, at every point of failure**: the slots requested while a row is decoded
— including a row that then fails — are at most one bounded pre-allocation + 16 per input byte. -/
theorem rowSlotsBin_le (g : Nat → Nat) (c : Nat) (hc : c ≤ plyMaxPrealloc) (hub : ∀ l, g l ≤ 2 * l + c)
    (hamort : ∀ l, 5 * l ≤ 4 * g l) (e : Endian) :
    ∀ (ps : List PProp) (bs : Bytes), rowSlotsBin g e ps bs ≤ plyMaxPrealloc + 16 * bs.length := by
  intro ps
  induction ps with
  | nil => intro bs; simp [rowSlotsBin]
  | cons p ps ih =>
    intro bs
    unfold rowSlotsBin
    cases hl : p.lenType with
    | none =>
      simp only
      cases h1 : readScalarBin e p.elemType.kind bs with
      | error er => simp
      | ok q =>
        obtain ⟨v, bs'⟩ := q
        have := ih bs'
        have := readScalarBin_consumes h1
        simp only
        omega
    | some lt =>
      simp only
      cases h1 : readScalarBin e lt.kind bs with
      | error er => simp
      | ok q =>
        obtain ⟨lv, bs'⟩ := q
        simp only
        cases hlv : lengthValue lv with
        | none => simp
        | some n =>
          simp only
          by_cases hn : n < 0
          · simp [hn]
          · simp only [hn, if_false]
            have c1 := readScalarBin_consumes h1
            have hk := scalarsRead_le e p.elemType.kind n.toNat bs'
            have hb := scalarsRead_bytes e p.elemType.kind n.toNat bs'
            have hs := listSlots_le g c hc hub hamort n.toNat _ hk
            have h0 := listCap0_le n.toNat
            have hp := Kind.size_pos' p.elemType.kind
            have hm : scalarsRead e p.elemType.kind n.toNat bs' ≤
                scalarsRead e p.elemType.kind n.toNat bs' * p.elemType.kind.size :=
              Nat.le_mul_of_pos_right _ hp
            by_cases hkn : scalarsRead e p.elemType.kind n.toNat bs' < n.toNat
            · simp only [hkn, if_true]
              omega
            · simp only [hkn, if_false]
              have hr := ih (bs'.drop (scalarsRead e p.elemType.kind n.toNat bs' * p.elemType.kind.size))
              rw [List.length_drop] at hr
              omega

end M3d.Codec
