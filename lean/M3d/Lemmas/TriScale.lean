import M3d.Lemmas.TriCert
import Mathlib.Tactic.Ring
import Mathlib.Tactic.Positivity
import Mathlib.Tactic.Linarith
/-!
Helper lemmas for C14, part 6: the certificate checker is invariant under similarities of the plane
(rotation + uniform scaling + translation), in particular under a change of the unit of length.

Every quantity the checker looks at is an orientation determinant `orient` or a `dotD`, and both are
multiplied by the POSITIVE factor `a² + b²` under `simMap a b e f`; the checker only looks at their
signs and at comparisons between them.
-/
set_option linter.unusedSectionVars false

namespace M3d.Tri
open M3d.Surface (Tri Edge swap triEdges dirEdges)

section Sim
variable {K : Type} [Field K] [LinearOrder K] [IsStrictOrderedRing K]

theorem orient_simMap (a b e f : K) (p q r : P2 K) :
    orient (simMap a b e f p) (simMap a b e f q) (simMap a b e f r) = (a * a + b * b) * orient p q r := by
  simp only [orient, simMap]; ring

theorem dotD_simMap (a b e f : K) (p q r : P2 K) :
    dotD (simMap a b e f p) (simMap a b e f q) (simMap a b e f r) = (a * a + b * b) * dotD p q r := by
  simp only [dotD, simMap]; ring

theorem cross_simMap_lin (a b : K) (p q : P2 K) :
    cross (simMap a b 0 0 p) (simMap a b 0 0 q) = (a * a + b * b) * cross p q := by
  simp only [cross, simMap]; ring

theorem simNorm_pos {a b : K} (h : a ≠ 0 ∨ b ≠ 0) : 0 < a * a + b * b := by
  rcases h with h | h
  · have := mul_self_pos.2 h; have := mul_self_nonneg b; linarith
  · have := mul_self_pos.2 h; have := mul_self_nonneg a; linarith

theorem between_simMap {a b e f : K} (h : a ≠ 0 ∨ b ≠ 0) (p q r : P2 K) :
    between (simMap a b e f p) (simMap a b e f q) (simMap a b e f r) = between p q r := by
  have hs := simNorm_pos h
  unfold between
  rw [orient_simMap, dotD_simMap, dotD_simMap]
  have e1 : ((a * a + b * b) * orient p q r = 0) ↔ (orient p q r = 0) := by
    constructor
    · intro h0; rcases mul_eq_zero.1 h0 with h1 | h1
      · exact absurd h1 hs.ne'
      · exact h1
    · intro h0; rw [h0, mul_zero]
  have e2 : (0 < (a * a + b * b) * dotD p q r) ↔ (0 < dotD p q r) :=
    ⟨fun h0 => (mul_pos_iff_of_pos_left hs).1 h0, fun h0 => mul_pos hs h0⟩
  have e3 : ((a * a + b * b) * dotD p q r < (a * a + b * b) * dotD p q q) ↔ (dotD p q r < dotD p q q) :=
    ⟨fun h0 => lt_of_mul_lt_mul_left h0 hs.le, fun h0 => mul_lt_mul_of_pos_left h0 hs⟩
  simp only [e1, e2, e3]

theorem insKey_scale {s : K} (hs : 0 < s) (key : Nat → K) (v : Nat) (l : List Nat) :
    insKey (fun w => s * key w) v l = insKey key v l := by
  induction l with
  | nil => rfl
  | cons w ws ih =>
    have e : (s * key v < s * key w) ↔ (key v < key w) :=
      ⟨fun h0 => lt_of_mul_lt_mul_left h0 hs.le, fun h0 => mul_lt_mul_of_pos_left h0 hs⟩
    simp only [insKey, e, ih]

theorem foldr_insKey_scale {s : K} (hs : 0 < s) (key : Nat → K) (ms : List Nat) :
    ms.foldr (insKey fun w => s * key w) [] = ms.foldr (insKey key) [] := by
  induction ms with
  | nil => rfl
  | cons m ms ih => simp only [List.foldr_cons, ih, insKey_scale hs]

variable {a b e f : K}

theorem midsOf_simMap (h : a ≠ 0 ∨ b ≠ 0) (c : Nat → P2 K) (nv : Nat) (ed : Edge) :
    midsOf (fun i => simMap a b e f (c i)) nv ed = midsOf c nv ed := by
  unfold midsOf
  simp only [between_simMap h, dotD_simMap]
  exact foldr_insKey_scale (simNorm_pos h) _ _

theorem chainOnSeg_simMap (h : a ≠ 0 ∨ b ≠ 0) (c : Nat → P2 K) (z : Nat) :
    ∀ (x : Nat) (ms : List Nat),
      chainOnSeg (fun i => simMap a b e f (c i)) z x ms = chainOnSeg c z x ms := by
  intro x ms
  induction ms generalizing x with
  | nil => rfl
  | cons m ms ih => simp only [chainOnSeg, between_simMap h, ih]

theorem refineEdge_simMap (h : a ≠ 0 ∨ b ≠ 0) (c : Nat → P2 K) (nv : Nat) (ed : Edge) :
    refineEdge (fun i => simMap a b e f (c i)) nv ed = refineEdge c nv ed := by
  unfold refineEdge
  simp only [midsOf_simMap h, chainOnSeg_simMap h]

theorem refineAll_simMap (h : a ≠ 0 ∨ b ≠ 0) (c : Nat → P2 K) (nv : Nat) (es : List Edge) :
    refineAll (fun i => simMap a b e f (c i)) nv es = refineAll c nv es := by
  induction es with
  | nil => rfl
  | cons ed es ih => simp only [refineAll, refineEdge_simMap h, ih]

theorem triOrient_simMap (c : Nat → P2 K) (t : Tri) :
    triOrient (fun i => simMap a b e f (c i)) t = (a * a + b * b) * triOrient c t := by
  simp only [triOrient, orient_simMap]

/-- The edge part of the checker (strict or tolerant of zero-area triangles) gives the same verdict
on the similar configuration. -/
theorem edgesOkG_simMap (h : a ≠ 0 ∨ b ≠ 0) (strict : Bool) (c : Nat → P2 K) (nv : Nat) (cw : Bool)
    (bnd : List Edge) (tris : List Tri) :
    edgesOkG strict (fun i => simMap a b e f (c i)) nv cw bnd tris = edgesOkG strict c nv cw bnd tris := by
  have hs := simNorm_pos h
  have e1 : ∀ t, ((a * a + b * b) * triOrient c t < 0) ↔ (triOrient c t < 0) := fun t =>
    ⟨fun h0 => by
        by_contra hn
        have := mul_nonneg hs.le (not_lt.1 hn)
        linarith,
     fun h0 => mul_neg_of_pos_of_neg hs h0⟩
  have e2 : ∀ t, (0 < (a * a + b * b) * triOrient c t) ↔ (0 < triOrient c t) := fun t =>
    ⟨fun h0 => (mul_pos_iff_of_pos_left hs).1 h0, fun h0 => mul_pos hs h0⟩
  unfold edgesOkG refineG
  simp only [triOrient_simMap, e1, e2, refineAll_simMap h]

/-- **The certificate checker is invariant under similarities.** -/
theorem certOk_simMap (h : a ≠ 0 ∨ b ≠ 0) (c : Nat → P2 K) (nv : Nat) (cw : Bool)
    (bnd : List Edge) (tris : List Tri) :
    certOk (fun i => simMap a b e f (c i)) nv cw bnd tris = certOk c nv cw bnd tris := by
  rw [Bool.eq_iff_iff, certOk_iff_edgesOk, certOk_iff_edgesOk]
  unfold edgesOk
  rw [edgesOkG_simMap h]

theorem scaleP_eq_simMap (k : K) (p : P2 K) : scaleP k p = simMap k 0 0 0 p := by
  simp only [scaleP, simMap]
  congr 1 <;> ring

/-- Shoelace sums scale with the square of the unit of length. -/
theorem pathSum_scaleP (k : K) (l : List (P2 K)) :
    pathSum (l.map (scaleP k)) = k * k * pathSum l := by
  induction l with
  | nil => simp [pathSum]
  | cons p t ih =>
    cases t with
    | nil => simp [pathSum]
    | cons q t =>
      simp only [List.map_cons, pathSum_cons_cons] at ih ⊢
      rw [ih]
      simp only [cross, scaleP]; ring

theorem shoelace2_scaleP (k : K) (l : List (P2 K)) :
    shoelace2 (l.map (scaleP k)) = k * k * shoelace2 l := by
  cases l with
  | nil => simp [shoelace2]
  | cons p t =>
    have := pathSum_scaleP k (p :: t ++ [p])
    simpa [shoelace2_cons] using this

/-- The coordinate table of the scaled point list is the scaled coordinate table (also beyond the
end of the list: the default point is the origin). -/
theorem getD_map_scaleP (k : K) (l : List (P2 K)) (i : Nat) :
    (l.map (scaleP k)).getD i ⟨0, 0⟩ = scaleP k (l.getD i ⟨0, 0⟩) := by
  by_cases hi : i < l.length
  · simp [List.getD, hi]
  · have h1 : l.length ≤ i := not_lt.1 hi
    simp [List.getD, h1, scaleP]

end Sim

end M3d.Tri
