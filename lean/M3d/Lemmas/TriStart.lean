import M3d.Lemmas.TriMono
/-!
Helper lemmas for C14, part 13: the polygon as a CYCLIC list.  `Triangulate` takes "a series of
points, in order; the first point is re-used as the ending point": the same polygon can be written
starting at any vertex (`List.rotate`, the Go harness's `rotated`) and in either order
(`List.reverse`).  The shoelace sum, and with it the orientation of the polygon (`isClockwise`, the
model of `isPolygonClockwise`) and the area the triangles must add up to, is a function of the
cyclic list: invariant under rotation, negated by reversal.
-/
namespace M3d.Tri

section Field
variable {K : Type} [Field K] [LinearOrder K] [IsStrictOrderedRing K]

/-- **The shoelace sum does not depend on the starting vertex.** -/
theorem shoelace2_rotateN (l : List (P2 K)) (k : Nat) : shoelace2 (l.rotate k) = shoelace2 l := by
  induction k generalizing l with
  | zero => simp
  | succ k ih =>
    cases l with
    | nil => simp
    | cons a t => rw [List.rotate_cons_succ, ih, shoelace2_rotate1]

/-- **Listing the vertices in the opposite order negates the shoelace sum.** -/
theorem shoelace2_reverse (l : List (P2 K)) : shoelace2 l.reverse = -shoelace2 l := by
  cases l with
  | nil => simp [shoelace2]
  | cons a t =>
    rw [List.reverse_cons, shoelace2_rotate1]
    have h : a :: t.reverse ++ [a] = (a :: t ++ [a]).reverse := by simp
    show pathSum (a :: t.reverse ++ [a]) = -pathSum (a :: t ++ [a])
    rw [h, pathSum_reverse]

theorem isClockwise_rotate (l : List (P2 K)) (k : Nat) : isClockwise (l.rotate k) = isClockwise l := by
  unfold isClockwise; rw [shoelace2_rotateN]

theorem isClockwise_reverse (l : List (P2 K)) (h : shoelace2 l ≠ 0) :
    isClockwise l.reverse = !isClockwise l := by
  unfold isClockwise; rw [shoelace2_reverse]
  rcases lt_or_gt_of_ne h with h' | h'
  · have : ¬ (-shoelace2 l < 0) := by linarith
    simp [h', this]
  · have h1 : -shoelace2 l < 0 := by linarith
    have h2 : ¬ (shoelace2 l < 0) := by linarith
    simp [h1, h2]

end Field
end M3d.Tri
