import M3d.Model.ParamCG
import Mathlib.Tactic.Ring
import Mathlib.Algebra.Module.LinearMap.Defs
import Mathlib.Tactic.Abel
import Mathlib.Tactic.Module
/-!
# BiCGSTAB (`numerical/cg.go`): the tracked residual is the true residual, a set `terminate` flag means an exact
solution, and what `SolveLinearSystem` returns.
-/
namespace M3d.CG

section Loop
variable {α V : Type} [Mul α] [Div α]

theorem iterN_succ' (o : VOps α V) (op : V → V) (k : Nat) (s : St α V) :
    iterN o op (k + 1) s = iter o op (iterN o op k s) := by
  induction k generalizing s with
  | zero => rfl
  | succ k ih => rw [iterN, ih (iter o op s)]; rfl

/-- What the loop of `SolveLinearSystem` returns: with no budget the previous candidate; otherwise the `x` after
`j + 1 ≤ k` calls of `Iter()`, and if the loop left before the budget was used up, the stopping test had passed on
that very vector. -/
theorem solveLoop_spec (o : VOps α V) (isNaN : α → Bool) (lt : α → α → Bool) (op : V → V) (b : V) (mseTol maeTol : α)
    (tolOn : Bool) (k : Nat) (st : St α V) (sol0 sol : V)
    (h : solveLoop o isNaN lt op b mseTol maeTol tolOn k st sol0 = some sol) :
    (k = 0 ∧ sol = sol0) ∨ ∃ j, j < k ∧ sol = (iterN o op (j + 1) st).x ∧
      (j + 1 < k → tolOn = true ∧ stopTest o isNaN lt op b mseTol maeTol sol = some true) := by
  induction k generalizing st sol0 with
  | zero =>
    simp only [solveLoop, Option.some.injEq] at h
    exact Or.inl ⟨rfl, h.symm⟩
  | succ k ih =>
    right
    simp only [solveLoop] at h
    have hrec : ∀ sol1, solveLoop o isNaN lt op b mseTol maeTol tolOn k (iter o op st) sol1 = some sol →
        sol1 = (iter o op st).x →
        ∃ j, j < k + 1 ∧ sol = (iterN o op (j + 1) st).x ∧
          (j + 1 < k + 1 → tolOn = true ∧ stopTest o isNaN lt op b mseTol maeTol sol = some true) := by
      intro sol1 h1 hs1
      rcases ih _ _ h1 with ⟨hk, hs⟩ | ⟨j, hj, hs, ht⟩
      · exact ⟨0, by omega, by rw [hs, hs1]; rfl, fun hlt => by omega⟩
      · exact ⟨j + 1, by omega, by rw [hs]; rfl, fun hlt => ht (by omega)⟩
    by_cases htol : tolOn = true
    · rw [if_pos htol] at h
      cases hst : stopTest o isNaN lt op b mseTol maeTol (iter o op st).x with
      | none => simp [hst] at h
      | some d =>
        cases d with
        | true =>
          simp only [hst, Option.some.injEq] at h
          exact ⟨0, by omega, h.symm, fun _ => ⟨htol, by rw [← h]; exact hst⟩⟩
        | false =>
          simp only [hst] at h
          exact hrec _ h rfl
    · rw [if_neg htol] at h
      exact hrec _ h rfl

end Loop

section Mod
variable {K V : Type} [Field K] [AddCommGroup V] [Module K V]

/-- The vector operations of a vector space; the inner product, the zero-norm test and the error sums are arbitrary. -/
def modOps (dot : V → V → K) (nz : V → Bool) (errs : V → K × K) (len : V → K) (isEmpty : V → Bool) : VOps K V where
  add u v := u + v
  sub u v := u - v
  scale v s := s • v
  dot := dot
  normIsZero := nz
  zeros _ := 0
  errs := errs
  len := len
  isEmpty := isEmpty

/-- The loop invariant of BiCGSTAB: while running, the tracked residual is the true one; once the `terminate` flag
is set, the current solution is exact. -/
def Inv (A : V →ₗ[K] V) (b : V) (s : St K V) : Prop :=
  (s.terminate = false → s.r = b - A s.x) ∧ (s.terminate = true → A s.x = b)

variable (dot : V → V → K) (nz : V → Bool) (errs : V → K × K) (len : V → K) (isEmpty : V → Bool)

theorem init_inv (A : V →ₗ[K] V) (b : V) (guess : Option V) :
    Inv A b (init (modOps dot nz errs len isEmpty) A b guess) := by
  constructor
  · intro _; cases guess <;> rfl
  · intro h; cases guess <;> simp [init] at h

theorem iter_inv (A : V →ₗ[K] V) (b : V) (hnz : ∀ v, nz v = true → v = 0) (hinj : ∀ v, A v = 0 → v = 0)
    (s : St K V) (h : Inv A b s) : Inv A b (iter (modOps dot nz errs len isEmpty) A s) := by
  unfold iter
  by_cases ht : s.terminate = true
  · rw [if_pos ht]; exact h
  · have htf : s.terminate = false := by simpa using ht
    have hr := h.1 htf
    rw [if_neg ht]
    by_cases h1 : (modOps dot nz errs len isEmpty).normIsZero s.r = true
    · rw [if_pos h1]
      refine ⟨fun hc => by simp at hc, fun _ => ?_⟩
      have : s.r = 0 := hnz _ h1
      rw [this] at hr
      show A s.x = b
      exact (sub_eq_zero.1 hr.symm).symm
    · rw [if_neg h1]
      by_cases h2 : (modOps dot nz errs len isEmpty).normIsZero (tOf (modOps dot nz errs len isEmpty) A s) = true
      · rw [if_pos h2]
        refine ⟨fun hc => by simp [exitT] at hc, fun _ => ?_⟩
        have h0 : sOf (modOps dot nz errs len isEmpty) A s = 0 := hinj _ (hnz _ h2)
        show A (hOf (modOps dot nz errs len isEmpty) A s) = b
        simp only [sOf, hOf, vOf, modOps] at h0 ⊢
        rw [hr] at h0
        rw [map_add, map_smul]
        rw [sub_sub, sub_eq_zero] at h0
        exact h0.symm
      · rw [if_neg h2]
        refine ⟨fun _ => ?_, fun hc => by simp [fullStep, htf] at hc⟩
        show (modOps dot nz errs len isEmpty).sub _ _ = b - A ((modOps dot nz errs len isEmpty).add _ _)
        simp only [tOf, sOf, hOf, vOf, modOps]
        rw [hr]
        simp only [map_add, map_sub, map_smul]
        abel

theorem iterN_inv (A : V →ₗ[K] V) (b : V) (hnz : ∀ v, nz v = true → v = 0) (hinj : ∀ v, A v = 0 → v = 0)
    (k : Nat) (s : St K V) (h : Inv A b s) : Inv A b (iterN (modOps dot nz errs len isEmpty) A k s) := by
  induction k generalizing s with
  | zero => exact h
  | succ k ih => exact ih _ (iter_inv dot nz errs len isEmpty A b hnz hinj s h)

end Mod
end M3d.CG
