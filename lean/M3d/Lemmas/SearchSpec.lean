import M3d.Model.SearchSpec
import M3d.Lemmas.Bisect
import Mathlib.Algebra.Order.Field.Basic
import Mathlib.Algebra.Order.AbsoluteValue.Basic
import Mathlib.Tactic.Linarith
import Mathlib.Tactic.Ring
import Mathlib.Tactic.FieldSimp
import Mathlib.Tactic.Positivity
/-!
# `SearchSpec.changes` lists exactly the transition points of a piecewise constant classification (C02)

`IsTransition P lo hi c`: `c` is a point of the edge `[lo, hi]` every neighbourhood of which contains points
of the edge of both classes — "a real inside/outside transition on that edge".  For a classification that
is constant between consecutive breakpoints (`PwConst`; boxes and half-spaces along a lattice line)
`changes P ts` is sound and complete for it, two differently classified samples of the edge have a listed
transition between them, and so `nearTransition` decides "within `w` of a real transition".
-/
namespace M3d.SearchSpec
set_option linter.unusedSectionVars false

variable {K : Type} [Field K] [LinearOrder K] [IsStrictOrderedRing K]

/-- a real inside/outside transition of `P` on the edge `[lo, hi]` -/
def IsTransition (P : K → Bool) (lo hi c : K) : Prop :=
  lo ≤ c ∧ c ≤ hi ∧ ∀ ε, 0 < ε →
    ∃ a b, (lo ≤ a ∧ a ≤ hi) ∧ (lo ≤ b ∧ b ≤ hi) ∧ |a - c| < ε ∧ |b - c| < ε ∧ P a ≠ P b

/-- strictly increasing -/
def Incr : List K → Prop
  | a :: b :: r => a < b ∧ Incr (b :: r)
  | _ => True

/-- `P` is constant on every open interval between consecutive members of the list -/
def PwConst (P : K → Bool) : List K → Prop
  | a :: b :: r => (∀ x y, a < x → x < b → a < y → y < b → P x = P y) ∧ PwConst P (b :: r)
  | _ => True

/-- the last member of `a :: r` -/
def lastOf : K → List K → K
  | a, [] => a
  | _, b :: r => lastOf b r

theorem le_lastOf : ∀ (r : List K) (a : K), Incr (a :: r) → a ≤ lastOf a r
  | [], a, _ => le_refl a
  | b :: r, _, h => le_trans (le_of_lt h.1) (le_lastOf r b h.2)

theorem mid_between (a b : K) (h : a < b) : a < (a + b) / 2 ∧ (a + b) / 2 < b := by
  constructor <;> linarith

/-- a point right of `a`, left of `b`, closer than `ε` to `a` -/
theorem exists_right (a b ε : K) (h : a < b) (hε : 0 < ε) : ∃ x, a < x ∧ x < b ∧ |x - a| < ε := by
  refine ⟨a + min (ε / 2) ((b - a) / 2), ?_, ?_, ?_⟩
  · have : 0 < min (ε / 2) ((b - a) / 2) := lt_min (by linarith) (by linarith)
    linarith
  · have : min (ε / 2) ((b - a) / 2) ≤ (b - a) / 2 := min_le_right _ _
    linarith
  · have h1 : min (ε / 2) ((b - a) / 2) ≤ ε / 2 := min_le_left _ _
    have h0 : 0 < min (ε / 2) ((b - a) / 2) := lt_min (by linarith) (by linarith)
    have : a + min (ε / 2) ((b - a) / 2) - a = min (ε / 2) ((b - a) / 2) := by ring
    rw [this, abs_of_pos h0]; linarith

theorem exists_left (a b ε : K) (h : a < b) (hε : 0 < ε) : ∃ x, a < x ∧ x < b ∧ |x - b| < ε := by
  refine ⟨b - min (ε / 2) ((b - a) / 2), ?_, ?_, ?_⟩
  · have : min (ε / 2) ((b - a) / 2) ≤ (b - a) / 2 := min_le_right _ _
    linarith
  · have : 0 < min (ε / 2) ((b - a) / 2) := lt_min (by linarith) (by linarith)
    linarith
  · have h1 : min (ε / 2) ((b - a) / 2) ≤ ε / 2 := min_le_left _ _
    have h0 : 0 < min (ε / 2) ((b - a) / 2) := lt_min (by linarith) (by linarith)
    have : b - min (ε / 2) ((b - a) / 2) - b = -min (ε / 2) ((b - a) / 2) := by ring
    rw [this, abs_neg, abs_of_pos h0]; linarith

theorem bne_iff {x y : Bool} : (x != y) = true ↔ x ≠ y := by cases x <;> cases y <;> simp

/-- **soundness**: every listed point is a real transition of the edge -/
theorem changes_sound (P : K → Bool) (lo hi : K) : ∀ (ts : List K), Incr ts → PwConst P ts →
    (∀ t ∈ ts, lo ≤ t ∧ t ≤ hi) → ∀ c ∈ changes P ts, IsTransition P lo hi c
  | [], _, _, _, c, hc => by simp [changes] at hc
  | [_], _, _, _, c, hc => by simp [changes] at hc
  | a :: b :: r, hinc, hpw, hb, c, hc => by
    simp only [changes, List.mem_append] at hc
    have hab : a < b := hinc.1
    have hm := mid_between a b hab
    have ha := hb a (by simp)
    have hbb := hb b (by simp)
    rcases hc with h | h | h
    · by_cases hne : (P a != P ((a + b) / 2)) = true
      · rw [if_pos hne] at h
        have hca : c = a := by simpa using h
        subst hca
        refine ⟨ha.1, ha.2, fun ε hε => ?_⟩
        obtain ⟨x, hx1, hx2, hx3⟩ := exists_right c b ε hab hε
        refine ⟨c, x, ha, ⟨by linarith, by linarith⟩, by simpa using hε, hx3, ?_⟩
        have : P x = P ((c + b) / 2) := hpw.1 x _ hx1 hx2 hm.1 hm.2
        rw [this]; exact bne_iff.1 hne
      · rw [if_neg hne] at h; simp at h
    · by_cases hne : (P ((a + b) / 2) != P b) = true
      · rw [if_pos hne] at h
        have hcb : c = b := by simpa using h
        subst hcb
        refine ⟨hbb.1, hbb.2, fun ε hε => ?_⟩
        obtain ⟨x, hx1, hx2, hx3⟩ := exists_left a c ε hab hε
        refine ⟨x, c, ⟨by linarith, by linarith⟩, hbb, hx3, by simpa using hε, ?_⟩
        have : P x = P ((a + c) / 2) := hpw.1 x _ hx1 hx2 hm.1 hm.2
        rw [this]; exact bne_iff.1 hne
      · rw [if_neg hne] at h; simp at h
    · exact changes_sound P lo hi (b :: r) hinc.2 hpw.2
        (fun t ht => hb t (List.mem_cons_of_mem _ ht)) c h

/-- **completeness**: every real transition of the edge from the first to the last breakpoint is listed -/
theorem changes_complete (P : K → Bool) : ∀ (r : List K) (a : K), Incr (a :: r) → PwConst P (a :: r) →
    ∀ c, IsTransition P a (lastOf a r) c → c ∈ changes P (a :: r)
  | [], a, _, _, c, hc => by
    exfalso
    obtain ⟨x, y, hx, hy, _, _, hne⟩ := hc.2.2 1 one_pos
    simp only [lastOf] at hx hy
    have hxa : x = a := le_antisymm hx.2 hx.1
    have hya : y = a := le_antisymm hy.2 hy.1
    exact hne (by rw [hxa, hya])
  | b :: r, a, hinc, hpw, c, hc => by
    have hab : a < b := hinc.1
    have hm := mid_between a b hab
    have hbl : b ≤ lastOf b r := le_lastOf r b hinc.2
    simp only [lastOf] at hc
    simp only [changes, List.mem_append]
    rcases lt_trichotomy c b with hcb | hcb | hcb
    · -- `c` in `[a, b)`: it is `a`, and the class changes right after `a`
      rcases lt_or_eq_of_le hc.1 with hac | hac
      · exfalso
        obtain ⟨x, y, _, _, hx, hy, hne⟩ := hc.2.2 (min (c - a) (b - c)) (lt_min (by linarith) (by linarith))
        have hx' := abs_lt.1 hx
        have hy' := abs_lt.1 hy
        have h1 : min (c - a) (b - c) ≤ c - a := min_le_left _ _
        have h2 : min (c - a) (b - c) ≤ b - c := min_le_right _ _
        exact hne (hpw.1 x y (by linarith) (by linarith) (by linarith) (by linarith))
      · left
        subst hac
        obtain ⟨x, y, hx0, hy0, hx, hy, hne⟩ := hc.2.2 (b - a) (by linarith)
        have hx' := abs_lt.1 hx
        have hy' := abs_lt.1 hy
        have key : ∀ z, a ≤ z → z < b → z ≠ a → P z = P ((a + b) / 2) := fun z hz1 hz2 hz3 =>
          hpw.1 z _ (lt_of_le_of_ne hz1 (Ne.symm hz3)) hz2 hm.1 hm.2
        have hne' : P a ≠ P ((a + b) / 2) := by
          by_cases hxa : x = a
          · by_cases hya : y = a
            · exact absurd (by rw [hxa, hya]) hne
            · rw [← key y hy0.1 (by linarith) hya, ← hxa]; exact hne
          · by_cases hya : y = a
            · rw [← key x hx0.1 (by linarith) hxa, ← hya]; exact fun h => hne h.symm
            · exact absurd ((key x hx0.1 (by linarith) hxa).trans (key y hy0.1 (by linarith) hya).symm) hne
        rw [if_pos (bne_iff.2 hne')]; simp
    · subst hcb
      right
      by_cases hne : P ((a + c) / 2) ≠ P c
      · left; rw [if_pos (bne_iff.2 hne)]; simp
      · right
        have heq : P ((a + c) / 2) = P c := not_not.1 hne
        apply changes_complete P r c hinc.2 hpw.2
        refine ⟨le_refl c, hbl, fun ε hε => ?_⟩
        obtain ⟨x, y, hx0, hy0, hx, hy, hxy⟩ := hc.2.2 (min ε (c - a)) (lt_min hε (by linarith))
        have hx' := abs_lt.1 hx
        have hy' := abs_lt.1 hy
        have h1 : min ε (c - a) ≤ ε := min_le_left _ _
        have h2 : min ε (c - a) ≤ c - a := min_le_right _ _
        have fix : ∀ z, a ≤ z → z ≤ lastOf c r → |z - c| < min ε (c - a) →
            (c ≤ max z c ∧ max z c ≤ lastOf c r) ∧ |max z c - c| < ε ∧ P (max z c) = P z := by
          intro z _ hz2 hz3
          have hz' := abs_lt.1 hz3
          rcases le_total z c with hzc | hzc
          · rw [max_eq_right hzc]
            refine ⟨⟨le_refl c, hbl⟩, by simpa using hε, ?_⟩
            rcases lt_or_eq_of_le hzc with hlt | he
            · rw [← heq]; exact (hpw.1 z _ (by linarith) hlt hm.1 hm.2).symm
            · rw [he]
          · rw [max_eq_left hzc]
            refine ⟨⟨hzc, hz2⟩, ?_, rfl⟩
            rw [abs_lt]; constructor <;> linarith
        obtain ⟨fx1, fx2, fx3⟩ := fix x hx0.1 hx0.2 hx
        obtain ⟨fy1, fy2, fy3⟩ := fix y hy0.1 hy0.2 hy
        exact ⟨max x c, max y c, fx1, fy1, fx2, fy2, by rw [fx3, fy3]; exact hxy⟩
    · right; right
      apply changes_complete P r b hinc.2 hpw.2
      refine ⟨le_of_lt hcb, hc.2.1, fun ε hε => ?_⟩
      obtain ⟨x, y, hx0, hy0, hx, hy, hxy⟩ := hc.2.2 (min ε (c - b)) (lt_min hε (by linarith))
      have hx' := abs_lt.1 hx
      have hy' := abs_lt.1 hy
      have h1 : min ε (c - b) ≤ ε := min_le_left _ _
      have h2 : min ε (c - b) ≤ c - b := min_le_right _ _
      exact ⟨x, y, ⟨by linarith, hx0.2⟩, ⟨by linarith, hy0.2⟩, lt_of_lt_of_le hx h1, lt_of_lt_of_le hy h1, hxy⟩

/-- two differently classified samples of the edge have a listed transition between them -/
theorem changes_between (P : K → Bool) : ∀ (r : List K) (a : K), Incr (a :: r) → PwConst P (a :: r) →
    ∀ x y, a ≤ x → x < y → y ≤ lastOf a r → P x ≠ P y → ∃ c ∈ changes P (a :: r), x ≤ c ∧ c ≤ y
  | [], a, _, _, x, y, hx, hxy, hy, _ => by
    simp only [lastOf] at hy
    exact absurd (lt_of_lt_of_le hxy hy) (not_lt.2 hx)
  | b :: r, a, hinc, hpw, x, y, hx, hxy, hy, hne => by
    have hab : a < b := hinc.1
    have hm := mid_between a b hab
    simp only [lastOf] at hy
    simp only [changes, List.mem_append]
    have inA : P a ≠ P ((a + b) / 2) → a ∈ (if (P a != P ((a + b) / 2)) = true then [a] else []) := by
      intro h; rw [if_pos (bne_iff.2 h)]; simp
    have inB : P ((a + b) / 2) ≠ P b → b ∈ (if (P ((a + b) / 2) != P b) = true then [b] else []) := by
      intro h; rw [if_pos (bne_iff.2 h)]; simp
    rcases le_or_gt b x with hbx | hxb
    · obtain ⟨c, hc, h1, h2⟩ := changes_between P r b hinc.2 hpw.2 x y hbx hxy hy hne
      exact ⟨c, Or.inr (Or.inr hc), h1, h2⟩
    · -- `x` in `[a, b)`
      by_cases hPa : P a ≠ P ((a + b) / 2)
      · rcases lt_or_eq_of_le hx with hax | hax
        · -- `x` in `(a, b)`: carries the class of the interval
          have hPx : P x = P ((a + b) / 2) := hpw.1 x _ hax hxb hm.1 hm.2
          rcases lt_or_ge y b with hyb | hyb
          · exact absurd (hPx.trans (hpw.1 y _ (by linarith) hyb hm.1 hm.2).symm) hne
          · by_cases hPb : P ((a + b) / 2) ≠ P b
            · exact ⟨b, Or.inr (Or.inl (inB hPb)), le_of_lt hxb, hyb⟩
            · have hPb' : P ((a + b) / 2) = P b := not_not.1 hPb
              have hyb' : b < y := by
                rcases lt_or_eq_of_le hyb with h | h
                · exact h
                · exact absurd (by rw [hPx, hPb', h]) hne
              obtain ⟨c, hc, h1, h2⟩ := changes_between P r b hinc.2 hpw.2 b y (le_refl b) hyb' hy
                (by rw [← hPb', ← hPx]; exact hne)
              exact ⟨c, Or.inr (Or.inr hc), by linarith, h2⟩
        · exact ⟨a, Or.inl (inA hPa), by rw [hax], by rw [hax]; exact le_of_lt hxy⟩
      · have hPa' : P a = P ((a + b) / 2) := not_not.1 hPa
        have hPx : P x = P ((a + b) / 2) := by
          rcases lt_or_eq_of_le hx with hax | hax
          · exact hpw.1 x _ hax hxb hm.1 hm.2
          · rw [← hax]; exact hPa'
        rcases lt_or_ge y b with hyb | hyb
        · exact absurd (hPx.trans (hpw.1 y _ (by linarith) hyb hm.1 hm.2).symm) hne
        · by_cases hPb : P ((a + b) / 2) ≠ P b
          · exact ⟨b, Or.inr (Or.inl (inB hPb)), le_of_lt hxb, hyb⟩
          · have hPb' : P ((a + b) / 2) = P b := not_not.1 hPb
            have hyb' : b < y := by
              rcases lt_or_eq_of_le hyb with h | h
              · exact h
              · exact absurd (by rw [hPx, hPb', h]) hne
            obtain ⟨c, hc, h1, h2⟩ := changes_between P r b hinc.2 hpw.2 b y (le_refl b) hyb' hy
              (by rw [← hPb', ← hPx]; exact hne)
            exact ⟨c, Or.inr (Or.inr hc), by linarith, h2⟩

theorem absLe_iff (x y w : K) : absLe x y w = true ↔ |x - y| ≤ w := by
  unfold absLe
  rw [Bool.and_eq_true, decide_eq_true_iff, decide_eq_true_iff, abs_le]
  constructor
  · rintro ⟨h1, h2⟩; constructor <;> linarith
  · rintro ⟨h1, h2⟩; constructor <;> linarith

/-- `nearTransition` decides "a real transition of the edge is within `w` of `v`" -/
theorem nearTransition_iff (P : K → Bool) (a : K) (r : List K) (hinc : Incr (a :: r)) (hpw : PwConst P (a :: r))
    (v w : K) :
    nearTransition P (a :: r) v w = true ↔ ∃ c, IsTransition P a (lastOf a r) c ∧ |v - c| ≤ w := by
  unfold nearTransition
  rw [List.any_eq_true]
  have hbounds : ∀ (r : List K) (a : K), Incr (a :: r) → ∀ t ∈ a :: r, a ≤ t ∧ t ≤ lastOf a r := by
    intro r
    induction r with
    | nil => intro a _ t ht; simp at ht; subst ht; exact ⟨le_refl _, le_refl _⟩
    | cons b r ih =>
      intro a h t ht
      rcases List.mem_cons.1 ht with h1 | h1
      · subst h1; exact ⟨le_refl _, le_lastOf _ _ h⟩
      · have := ih b h.2 t h1
        exact ⟨le_trans (le_of_lt h.1) this.1, this.2⟩
  constructor
  · rintro ⟨c, hc, habs⟩
    exact ⟨c, changes_sound P a (lastOf a r) (a :: r) hinc hpw (hbounds r a hinc) c hc, (absLe_iff _ _ _).1 habs⟩
  · rintro ⟨c, hc, habs⟩
    exact ⟨c, changes_complete P r a hinc hpw c hc, (absLe_iff _ _ _).2 habs⟩

/-- two differently classified samples of the edge within `D` of `v` ⇒ the checker accepts `v` with `w = D` -/
theorem near_of_samples (P : K → Bool) (a : K) (r : List K) (hinc : Incr (a :: r)) (hpw : PwConst P (a :: r))
    (v D x y : K) (hx : a ≤ x ∧ x ≤ lastOf a r) (hy : a ≤ y ∧ y ≤ lastOf a r) (hne : P x ≠ P y)
    (hdx : |v - x| ≤ D) (hdy : |v - y| ≤ D) :
    nearTransition P (a :: r) v D = true := by
  unfold nearTransition
  rw [List.any_eq_true]
  have hx' := abs_le.1 hdx
  have hy' := abs_le.1 hdy
  rcases lt_trichotomy x y with h | h | h
  · obtain ⟨c, hc, h1, h2⟩ := changes_between P r a hinc hpw x y hx.1 h hy.2 hne
    exact ⟨c, hc, (absLe_iff _ _ _).2 (abs_le.2 ⟨by linarith, by linarith⟩)⟩
  · exact absurd (by rw [h]) hne
  · obtain ⟨c, hc, h1, h2⟩ := changes_between P r a hinc hpw y x hy.1 h hx.2 (fun e => hne e.symm)
    exact ⟨c, hc, (absLe_iff _ _ _).2 (abs_le.2 ⟨by linarith, by linarith⟩)⟩

theorem nearTransition_mono (P : K → Bool) (ts : List K) (v w w' : K) (h : w ≤ w')
    (hn : nearTransition P ts v w = true) : nearTransition P ts v w' = true := by
  unfold nearTransition at *
  rw [List.any_eq_true] at *
  obtain ⟨c, hc, habs⟩ := hn
  exact ⟨c, hc, (absLe_iff _ _ _).2 (le_trans ((absLe_iff _ _ _).1 habs) h)⟩

end M3d.SearchSpec
