import M3d.Lemmas.TriMore
import Mathlib.Tactic.Ring
import Mathlib.Tactic.Linarith
/-!
Helper lemmas for C14, part 7: winding numbers.

* `crossing_segAdditive` – the signed ray crossing is additive under subdivision of an edge at a
  vertex strictly inside it, for EVERY base point (the half-open rule makes the two halves partition
  the crossings of the whole) — so T-junction refinement does not change winding numbers;
* `tri_winding` – the winding number of an oriented non-degenerate triangle is `±1` around the points
  strictly inside it and `0` around the points strictly outside.
-/
set_option linter.unusedSectionVars false

namespace M3d.Tri
open M3d.Surface (Tri Edge swap triEdges dirEdges)

section W
variable {K : Type} [Field K] [LinearOrder K] [IsStrictOrderedRing K]

/-- The crossing rule on offsets: `lo`, `hi` the ordinates of tail and head minus the ordinate of
the base point, `o` the orientation determinant of (tail, head, base point). -/
def cr (lo hi o : K) : K :=
  if lo ≤ 0 ∧ 0 < hi ∧ 0 < o then 1 else if hi ≤ 0 ∧ 0 < lo ∧ o < 0 then -1 else 0

theorem crossing_eq_cr (c : Nat → P2 K) (p : P2 K) (e : Edge) :
    crossing c p e = cr ((c e.1).y - p.y) ((c e.2).y - p.y) (orient (c e.1) (c e.2) p) := by
  unfold crossing cr
  simp only [sub_nonpos, sub_pos]

theorem cr_LH {lo hi : K} (o : K) (h1 : lo ≤ 0) (h2 : 0 < hi) : cr lo hi o = if 0 < o then 1 else 0 := by
  unfold cr
  have : ¬ hi ≤ 0 := not_le.2 h2
  simp [h1, h2, this]

theorem cr_HL {lo hi : K} (o : K) (h1 : 0 < lo) (h2 : hi ≤ 0) : cr lo hi o = if o < 0 then -1 else 0 := by
  unfold cr
  have : ¬ lo ≤ 0 := not_le.2 h1
  simp [h1, h2, this]

theorem cr_LL {lo hi : K} (o : K) (h1 : lo ≤ 0) (h2 : hi ≤ 0) : cr lo hi o = 0 := by
  unfold cr
  have a : ¬ 0 < hi := not_lt.2 h2
  have b : ¬ 0 < lo := not_lt.2 h1
  simp [a, b]

theorem cr_HH {lo hi : K} (o : K) (h1 : 0 < lo) (h2 : 0 < hi) : cr lo hi o = 0 := by
  unfold cr
  have a : ¬ hi ≤ 0 := not_le.2 h2
  have b : ¬ lo ≤ 0 := not_le.2 h1
  simp [a, b]

theorem cr_neg (lo hi o : K) : cr hi lo (-o) = -cr lo hi o := by
  unfold cr
  by_cases h1 : lo ≤ 0 ∧ 0 < hi ∧ 0 < o
  · have h2 : ¬ (hi ≤ 0 ∧ 0 < lo ∧ 0 < -o) := fun g => absurd g.1 (not_le.2 h1.2.1)
    have h3 : lo ≤ 0 ∧ 0 < hi ∧ -o < 0 := ⟨h1.1, h1.2.1, by linarith [h1.2.2]⟩
    rw [if_neg h2, if_pos h3, if_pos h1]
  · rw [if_neg h1]
    by_cases h2 : hi ≤ 0 ∧ 0 < lo ∧ o < 0
    · have h3 : hi ≤ 0 ∧ 0 < lo ∧ 0 < -o := ⟨h2.1, h2.2.1, by linarith [h2.2.2]⟩
      rw [if_pos h3, if_pos h2]; ring
    · have h3 : ¬ (hi ≤ 0 ∧ 0 < lo ∧ 0 < -o) := fun g => h2 ⟨g.1, g.2.1, by linarith [g.2.2]⟩
      have h4 : ¬ (lo ≤ 0 ∧ 0 < hi ∧ -o < 0) := fun g => h1 ⟨g.1, g.2.1, by linarith [g.2.2]⟩
      rw [if_neg h3, if_neg h4, if_neg h2]; ring

/-! ### subdivision -/

/-- Offsets of a point `m` strictly inside the segment: with `D = |b−a|²`, `s = (m−a)·(b−a)`,
`0 < s < D`, every linear functional of `m − a` is `s/D` times that of `b − a`. -/
theorem between_param {a b m : P2 K} (h : between a b m = true) :
    0 < dotD a b m ∧ dotD a b m < dotD a b b ∧
    dotD a b b * (m.y - a.y) = dotD a b m * (b.y - a.y) ∧
    ∀ p : P2 K, dotD a b b * orient a m p = dotD a b m * orient a b p ∧
      orient m b p = orient a b p - orient a m p := by
  simp only [between, Bool.and_eq_true, decide_eq_true_eq] at h
  obtain ⟨⟨h0, h1⟩, h2⟩ := h
  refine ⟨h1, h2, ?_, fun p => ⟨?_, ?_⟩⟩
  · simp only [orient, dotD] at h0 ⊢
    linear_combination (b.x - a.x) * h0
  · simp only [orient, dotD] at h0 ⊢
    linear_combination ((a.x - b.x) * (p.x - a.x) + (a.y - b.y) * (p.y - a.y)) * h0
  · simp only [orient] at h0 ⊢
    linear_combination (-1 : K) * h0

/-- The abstract form: splitting the offsets `(lo, hi, o)` of an edge at a point with offsets
`mid = lo + t(hi − lo)`, `o₁ = t·o` (`0 < t < 1`, written without division). -/
theorem cr_split {lo hi o mid o1 D s : K} (hs : 0 < s) (hsD : s < D)
    (hm : D * (mid - lo) = s * (hi - lo)) (ho : D * o1 = s * o) :
    cr lo hi o = cr lo mid o1 + cr mid hi (o - o1) := by
  have hD : 0 < D := lt_trans hs hsD
  have hDs : 0 < D - s := sub_pos.2 hsD
  -- signs of the two halves follow those of the whole
  have e1 : D * (hi - mid) = (D - s) * (hi - lo) := by linear_combination -hm
  have e2 : D * (o - o1) = (D - s) * o := by linear_combination -ho
  have so1 : (0 < o1 ↔ 0 < o) := by
    constructor
    · intro g; have : 0 < s * o := by rw [← ho]; exact mul_pos hD g
      exact (mul_pos_iff_of_pos_left hs).1 this
    · intro g; have : 0 < D * o1 := by rw [ho]; exact mul_pos hs g
      exact (mul_pos_iff_of_pos_left hD).1 this
  have so2 : (0 < o - o1 ↔ 0 < o) := by
    constructor
    · intro g; have : 0 < (D - s) * o := by rw [← e2]; exact mul_pos hD g
      exact (mul_pos_iff_of_pos_left hDs).1 this
    · intro g; have : 0 < D * (o - o1) := by rw [e2]; exact mul_pos hDs g
      exact (mul_pos_iff_of_pos_left hD).1 this
  have sn1 : (o1 < 0 ↔ o < 0) := by
    constructor
    · intro g
      by_contra hn
      have : 0 ≤ s * o := mul_nonneg hs.le (not_lt.1 hn)
      have : D * o1 < 0 := mul_neg_of_pos_of_neg hD g
      linarith
    · intro g
      by_contra hn
      have : 0 ≤ D * o1 := mul_nonneg hD.le (not_lt.1 hn)
      have : s * o < 0 := mul_neg_of_pos_of_neg hs g
      linarith
  have sn2 : (o - o1 < 0 ↔ o < 0) := by
    constructor
    · intro g
      by_contra hn
      have : 0 ≤ (D - s) * o := mul_nonneg hDs.le (not_lt.1 hn)
      have : D * (o - o1) < 0 := mul_neg_of_pos_of_neg hD g
      linarith
    · intro g
      by_contra hn
      have : 0 ≤ D * (o - o1) := mul_nonneg hD.le (not_lt.1 hn)
      have : (D - s) * o < 0 := mul_neg_of_pos_of_neg hDs g
      linarith
  -- position of mid between lo and hi
  rcases lt_trichotomy lo hi with hlt | heq | hgt
  · -- rising edge: lo < mid < hi
    have m1 : lo < mid := by
      have : 0 < D * (mid - lo) := by rw [hm]; exact mul_pos hs (sub_pos.2 hlt)
      exact sub_pos.1 ((mul_pos_iff_of_pos_left hD).1 this)
    have m2 : mid < hi := by
      have : 0 < D * (hi - mid) := by rw [e1]; exact mul_pos hDs (sub_pos.2 hlt)
      exact sub_pos.1 ((mul_pos_iff_of_pos_left hD).1 this)
    by_cases hl : lo ≤ 0
    · by_cases hh : 0 < hi
      · rw [cr_LH o hl hh]
        by_cases hmid : 0 < mid
        · rw [cr_LH o1 hl hmid, cr_HH _ hmid hh]; simp only [so1]; ring
        · have hmid' := not_lt.1 hmid
          rw [cr_LL o1 hl hmid', cr_LH _ hmid' hh]; simp only [so2]; ring
      · have hh' := not_lt.1 hh
        rw [cr_LL o hl hh', cr_LL o1 hl (le_trans m2.le hh'), cr_LL _ (le_trans m2.le hh') hh']; ring
    · have hl' := not_le.1 hl
      rw [cr_HH o hl' (lt_trans hl' hlt), cr_HH o1 hl' (lt_trans hl' m1),
        cr_HH _ (lt_trans hl' m1) (lt_trans hl' hlt)]; ring
  · -- horizontal edge
    have m0 : mid = lo := by
      have : D * (mid - lo) = 0 := by rw [hm, heq]; ring
      rcases mul_eq_zero.1 this with g | g
      · exact absurd g hD.ne'
      · exact sub_eq_zero.1 g
    subst heq
    rw [m0]
    by_cases hl : lo ≤ 0
    · rw [cr_LL o hl hl, cr_LL o1 hl hl, cr_LL _ hl hl]; ring
    · have hl' := not_le.1 hl
      rw [cr_HH o hl' hl', cr_HH o1 hl' hl', cr_HH _ hl' hl']; ring
  · -- falling edge: hi < mid < lo
    have m1 : mid < lo := by
      have : D * (mid - lo) < 0 := by rw [hm]; exact mul_neg_of_pos_of_neg hs (sub_neg.2 hgt)
      by_contra hn
      have : 0 ≤ D * (mid - lo) := mul_nonneg hD.le (sub_nonneg.2 (not_lt.1 hn))
      linarith
    have m2 : hi < mid := by
      have : D * (hi - mid) < 0 := by rw [e1]; exact mul_neg_of_pos_of_neg hDs (sub_neg.2 hgt)
      by_contra hn
      have : 0 ≤ D * (hi - mid) := mul_nonneg hD.le (sub_nonneg.2 (not_lt.1 hn))
      linarith
    by_cases hh : hi ≤ 0
    · by_cases hl : 0 < lo
      · rw [cr_HL o hl hh]
        by_cases hmid : 0 < mid
        · rw [cr_HH o1 hl hmid, cr_HL _ hmid hh]; simp only [sn2]; ring
        · have hmid' := not_lt.1 hmid
          rw [cr_HL o1 hl hmid', cr_LL _ hmid' hh]; simp only [sn1]; ring
      · have hl' := not_lt.1 hl
        rw [cr_LL o hl' hh, cr_LL o1 hl' (le_trans m1.le hl'), cr_LL _ (le_trans m1.le hl') hh]; ring
    · have hh' := not_le.1 hh
      rw [cr_HH o (lt_trans hh' hgt) hh', cr_HH o1 (lt_trans hh' hgt) (lt_trans hh' m2),
        cr_HH _ (lt_trans hh' m2) hh']; ring

/-- **The signed ray crossing is subdivision-additive, around every point.** -/
theorem crossing_segAdditive (c : Nat → P2 K) (p : P2 K) : SegAdditive c (crossing c p) := by
  intro a b m h
  obtain ⟨hs, hsD, hy, hp⟩ := between_param h
  obtain ⟨ho, hr⟩ := hp p
  rw [crossing_eq_cr, crossing_eq_cr, crossing_eq_cr]
  show cr ((c a).y - p.y) ((c b).y - p.y) (orient (c a) (c b) p)
    = cr ((c a).y - p.y) ((c m).y - p.y) (orient (c a) (c m) p)
      + cr ((c m).y - p.y) ((c b).y - p.y) (orient (c m) (c b) p)
  rw [hr]
  refine cr_split hs hsD ?_ ho
  linear_combination hy

/-! ### the winding number of a triangle -/

/-- Sum of the three crossings of a triangle, on offsets. -/
def triW (a b c x y z : K) : K := cr a b x + cr b c y + cr c a z

theorem triW_rot (a b c x y z : K) : triW b c a y z x = triW a b c x y z := by
  unfold triW; ring

/-- One vertex at or below the ray, two above. -/
theorem triW_LHH {a b c x y z O : K} (hO : 0 < O) (I1 : x + y + z = O) (I2 : y * a + z * b + x * c = 0)
    (ha : a ≤ 0) (hb : 0 < b) (hc : 0 < c) :
    (0 < x → 0 < y → 0 < z → triW a b c x y z = 1) ∧ (x < 0 ∨ y < 0 ∨ z < 0 → triW a b c x y z = 0) := by
  have hW : triW a b c x y z = (if 0 < x then 1 else 0) + (if z < 0 then -1 else 0) := by
    unfold triW; rw [cr_LH x ha hb, cr_HH y hb hc, cr_HL z hc ha]; ring
  rw [hW]
  constructor
  · intro hx _ hz; rw [if_pos hx, if_neg (not_lt.2 hz.le)]; ring
  · intro hout
    by_cases hx : 0 < x
    · by_cases hz : z < 0
      · rw [if_pos hx, if_pos hz]; ring
      · exfalso
        have hz' := not_lt.1 hz
        have h1 : 0 < x * c := mul_pos hx hc
        have h2 : 0 ≤ z * b := mul_nonneg hz' hb.le
        rcases hout with g | g | g
        · linarith
        · have h3 : 0 ≤ y * a := mul_nonneg_of_nonpos_of_nonpos g.le ha
          linarith
        · linarith
    · have hx' := not_lt.1 hx
      by_cases hz : z < 0
      · exfalso
        have hy : 0 < y := by linarith
        have h1 : y * a ≤ 0 := mul_nonpos_of_nonneg_of_nonpos hy.le ha
        have h2 : z * b < 0 := mul_neg_of_neg_of_pos hz hb
        have h3 : x * c ≤ 0 := mul_nonpos_of_nonpos_of_nonneg hx' hc.le
        linarith
      · rw [if_neg hx, if_neg hz]; ring

/-- One vertex above the ray, two at or below. -/
theorem triW_HLL {a b c x y z O : K} (hO : 0 < O) (I1 : x + y + z = O) (I2 : y * a + z * b + x * c = 0)
    (ha : 0 < a) (hb : b ≤ 0) (hc : c ≤ 0) :
    (0 < x → 0 < y → 0 < z → triW a b c x y z = 1) ∧ (x < 0 ∨ y < 0 ∨ z < 0 → triW a b c x y z = 0) := by
  have hW : triW a b c x y z = (if x < 0 then -1 else 0) + (if 0 < z then 1 else 0) := by
    unfold triW; rw [cr_HL x ha hb, cr_LL y hb hc, cr_LH z hc ha]; ring
  rw [hW]
  constructor
  · intro hx _ hz; rw [if_neg (not_lt.2 hx.le), if_pos hz]; ring
  · intro hout
    by_cases hz : 0 < z
    · by_cases hx : x < 0
      · rw [if_pos hx, if_pos hz]; ring
      · exfalso
        have hx' := not_lt.1 hx
        have h1 : z * b ≤ 0 := mul_nonpos_of_nonneg_of_nonpos hz.le hb
        have h2 : x * c ≤ 0 := mul_nonpos_of_nonneg_of_nonpos hx' hc
        rcases hout with g | g | g
        · linarith
        · have h3 : y * a < 0 := mul_neg_of_neg_of_pos g ha
          linarith
        · linarith
    · have hz' := not_lt.1 hz
      by_cases hx : x < 0
      · exfalso
        have hy : 0 < y := by linarith
        have h1 : 0 < y * a := mul_pos hy ha
        have h2 : 0 ≤ z * b := mul_nonneg_of_nonpos_of_nonpos hz' hb
        have h3 : 0 ≤ x * c := mul_nonneg_of_nonpos_of_nonpos hx.le hc
        linarith
      · rw [if_neg hx, if_neg hz]; ring

/-- The abstract triangle lemma: `a b c` the ordinates of the corners minus the ordinate of the base
point, `x y z` the orientation determinants of the base point against the edges `AB`, `BC`, `CA`,
`O > 0` the orientation of the triangle. -/
theorem triW_spec {a b c x y z O : K} (hO : 0 < O) (I1 : x + y + z = O) (I2 : y * a + z * b + x * c = 0)
    (hdeg : ¬ (a = 0 ∧ b = 0 ∧ c = 0)) :
    (0 < x → 0 < y → 0 < z → triW a b c x y z = 1) ∧ (x < 0 ∨ y < 0 ∨ z < 0 → triW a b c x y z = 0) := by
  have I2b : z * b + x * c + y * a = 0 := by linarith
  have I2c : x * c + y * a + z * b = 0 := by linarith
  have I1b : y + z + x = O := by linarith
  have I1c : z + x + y = O := by linarith
  have outb : (x < 0 ∨ y < 0 ∨ z < 0) → (y < 0 ∨ z < 0 ∨ x < 0) := fun g => by
    rcases g with g | g | g
    · exact Or.inr (Or.inr g)
    · exact Or.inl g
    · exact Or.inr (Or.inl g)
  have outc : (x < 0 ∨ y < 0 ∨ z < 0) → (z < 0 ∨ x < 0 ∨ y < 0) := fun g => by
    rcases g with g | g | g
    · exact Or.inr (Or.inl g)
    · exact Or.inr (Or.inr g)
    · exact Or.inl g
  rcases le_or_gt a 0 with ha | ha <;> rcases le_or_gt b 0 with hb | hb <;> rcases le_or_gt c 0 with hc | hc
  · -- LLL
    have hW : triW a b c x y z = 0 := by unfold triW; rw [cr_LL x ha hb, cr_LL y hb hc, cr_LL z hc ha]; ring
    rw [hW]
    refine ⟨fun hx hy hz => ?_, fun _ => rfl⟩
    exfalso
    have h1 : y * a ≤ 0 := mul_nonpos_of_nonneg_of_nonpos hy.le ha
    have h2 : z * b ≤ 0 := mul_nonpos_of_nonneg_of_nonpos hz.le hb
    have h3 : x * c ≤ 0 := mul_nonpos_of_nonneg_of_nonpos hx.le hc
    have e1 : y * a = 0 := by linarith
    have e2 : z * b = 0 := by linarith
    have e3 : x * c = 0 := by linarith
    apply hdeg
    refine ⟨?_, ?_, ?_⟩
    · rcases mul_eq_zero.1 e1 with g | g
      · exact absurd g hy.ne'
      · exact g
    · rcases mul_eq_zero.1 e2 with g | g
      · exact absurd g hz.ne'
      · exact g
    · rcases mul_eq_zero.1 e3 with g | g
      · exact absurd g hx.ne'
      · exact g
  · -- L L H  = rotation (c,a,b) of H L L
    have := triW_HLL hO I1c I2c hc ha hb
    rw [triW_rot b c a y z x, triW_rot a b c x y z] at this
    exact ⟨fun hx hy hz => this.1 hz hx hy, fun g => this.2 (outc g)⟩
  · -- L H L = rotation (b,c,a) of H L L
    have := triW_HLL hO I1b I2b hb hc ha
    rw [triW_rot a b c x y z] at this
    exact ⟨fun hx hy hz => this.1 hy hz hx, fun g => this.2 (outb g)⟩
  · -- L H H
    exact triW_LHH hO I1 I2 ha hb hc
  · -- H L L
    exact triW_HLL hO I1 I2 ha hb hc
  · -- H L H = rotation (b,c,a) of L H H
    have := triW_LHH hO I1b I2b hb hc ha
    rw [triW_rot a b c x y z] at this
    exact ⟨fun hx hy hz => this.1 hy hz hx, fun g => this.2 (outb g)⟩
  · -- H H L = rotation (c,a,b) of L H H
    have := triW_LHH hO I1c I2c hc ha hb
    rw [triW_rot b c a y z x, triW_rot a b c x y z] at this
    exact ⟨fun hx hy hz => this.1 hz hx hy, fun g => this.2 (outc g)⟩
  · -- HHH
    have hW : triW a b c x y z = 0 := by unfold triW; rw [cr_HH x ha hb, cr_HH y hb hc, cr_HH z hc ha]; ring
    rw [hW]
    refine ⟨fun hx hy hz => ?_, fun _ => rfl⟩
    exfalso
    have h1 : 0 < y * a := mul_pos hy ha
    have h2 : 0 < z * b := mul_pos hz hb
    have h3 : 0 < x * c := mul_pos hx hc
    linarith

/-- Winding number of the triangle `A B C` around `p`, on points. -/
def triWP (A B C p : P2 K) : K :=
  triW (A.y - p.y) (B.y - p.y) (C.y - p.y) (orient A B p) (orient B C p) (orient C A p)

/-- **A counter-clockwise non-degenerate triangle has winding number 1 around every point strictly
inside it and 0 around every point strictly outside it.** -/
theorem triWP_ccw {A B C p : P2 K} (hO : 0 < orient A B C) :
    (0 < orient A B p → 0 < orient B C p → 0 < orient C A p → triWP A B C p = 1) ∧
    (orient A B p < 0 ∨ orient B C p < 0 ∨ orient C A p < 0 → triWP A B C p = 0) := by
  unfold triWP
  refine triW_spec hO ?_ ?_ ?_
  · simp only [orient]; ring
  · simp only [orient]; ring
  · rintro ⟨h1, h2, h3⟩
    have e1 : A.y = p.y := sub_eq_zero.1 h1
    have e2 : B.y = p.y := sub_eq_zero.1 h2
    have e3 : C.y = p.y := sub_eq_zero.1 h3
    have : orient A B C = 0 := by simp only [orient, e1, e2, e3]; ring
    linarith

/-- Reversing a triangle negates its winding number. -/
theorem triWP_flip (A B C p : P2 K) : triWP A C B p = -triWP A B C p := by
  unfold triWP triW
  have e1 : orient A C p = -orient C A p := orient_swap C A p
  have e2 : orient C B p = -orient B C p := orient_swap B C p
  have e3 : orient B A p = -orient A B p := orient_swap A B p
  rw [e1, e2, e3, cr_neg, cr_neg, cr_neg]; ring

/-- **A clockwise non-degenerate triangle has winding number −1 around every point strictly inside
it and 0 around every point strictly outside it.** -/
theorem triWP_cw {A B C p : P2 K} (hO : orient A B C < 0) :
    (orient A B p < 0 → orient B C p < 0 → orient C A p < 0 → triWP A B C p = -1) ∧
    (0 < orient A B p ∨ 0 < orient B C p ∨ 0 < orient C A p → triWP A B C p = 0) := by
  have hO' : 0 < orient A C B := by
    have : orient A C B = -orient A B C := by simp only [orient]; ring
    linarith
  obtain ⟨h1, h2⟩ := triWP_ccw (p := p) hO'
  have e1 : orient A C p = -orient C A p := orient_swap C A p
  have e2 : orient C B p = -orient B C p := orient_swap B C p
  have e3 : orient B A p = -orient A B p := orient_swap A B p
  rw [e1, e2, e3, triWP_flip] at h1 h2
  constructor
  · intro g1 g2 g3
    have := h1 (by linarith) (by linarith) (by linarith)
    linarith
  · intro g
    have : -triWP A B C p = 0 := h2 (by
      rcases g with g | g | g
      · exact Or.inr (Or.inr (by linarith))
      · exact Or.inr (Or.inl (by linarith))
      · exact Or.inl (by linarith))
    linarith

theorem winding_triEdges (c : Nat → P2 K) (p : P2 K) (t : Tri) :
    winding c p (triEdges t) = triWP (c t.1) (c t.2.1) (c t.2.2) p := by
  unfold winding triEdges triWP triW
  simp only [sumF_cons, sumF_nil, crossing_eq_cr]; ring

/-! ### counting -/

/-- `p` lies strictly inside the triangle `t` (all three edge determinants have the sign of the
triangle's orientation: negative for a clockwise triangle). -/
def insideTri (c : Nat → P2 K) (cw : Bool) (t : Tri) (p : P2 K) : Bool :=
  if cw then decide (orient (c t.1) (c t.2.1) p < 0) && decide (orient (c t.2.1) (c t.2.2) p < 0) &&
      decide (orient (c t.2.2) (c t.1) p < 0)
  else decide (0 < orient (c t.1) (c t.2.1) p) && decide (0 < orient (c t.2.1) (c t.2.2) p) &&
      decide (0 < orient (c t.2.2) (c t.1) p)

/-- `p` lies strictly outside the (closed) triangle `t`: strictly on the wrong side of some edge. -/
def outsideTri (c : Nat → P2 K) (cw : Bool) (t : Tri) (p : P2 K) : Bool :=
  if cw then decide (0 < orient (c t.1) (c t.2.1) p) || decide (0 < orient (c t.2.1) (c t.2.2) p) ||
      decide (0 < orient (c t.2.2) (c t.1) p)
  else decide (orient (c t.1) (c t.2.1) p < 0) || decide (orient (c t.2.1) (c t.2.2) p < 0) ||
      decide (orient (c t.2.2) (c t.1) p < 0)

/-- the sign attached to the orientation flag -/
def cwSign (cw : Bool) : K := if cw then -1 else 1

theorem tri_winding (c : Nat → P2 K) (cw : Bool) (t : Tri) (p : P2 K)
    (ho : if cw = true then triOrient c t < 0 else 0 < triOrient c t) :
    (insideTri c cw t p = true → winding c p (triEdges t) = cwSign cw) ∧
    (outsideTri c cw t p = true → winding c p (triEdges t) = 0) := by
  rw [winding_triEdges]
  cases cw
  · simp only [Bool.false_eq_true, if_false] at ho
    obtain ⟨h1, h2⟩ := triWP_ccw (p := p) ho
    constructor
    · intro hi
      simp only [insideTri, Bool.false_eq_true, if_false, Bool.and_eq_true, decide_eq_true_eq] at hi
      simpa [cwSign] using h1 hi.1.1 hi.1.2 hi.2
    · intro hout
      simp only [outsideTri, Bool.false_eq_true, if_false, Bool.or_eq_true, decide_eq_true_eq] at hout
      exact h2 (by rcases hout with (g | g) | g; exacts [Or.inl g, Or.inr (Or.inl g), Or.inr (Or.inr g)])
  · simp only [if_true] at ho
    obtain ⟨h1, h2⟩ := triWP_cw (p := p) ho
    constructor
    · intro hi
      simp only [insideTri, if_true, Bool.and_eq_true, decide_eq_true_eq] at hi
      simpa [cwSign] using h1 hi.1.1 hi.1.2 hi.2
    · intro hout
      simp only [outsideTri, if_true, Bool.or_eq_true, decide_eq_true_eq] at hout
      exact h2 (by rcases hout with (g | g) | g; exacts [Or.inl g, Or.inr (Or.inl g), Or.inr (Or.inr g)])

/-- Summing over a list of consistently oriented triangles, for a point that is strictly inside or
strictly outside each of them: the winding numbers add up to ± the number of triangles containing
the point. -/
theorem sum_winding_count (c : Nat → P2 K) (cw : Bool) (p : P2 K) :
    ∀ (tris : List Tri),
      (∀ t ∈ tris, if cw = true then triOrient c t < 0 else 0 < triOrient c t) →
      (∀ t ∈ tris, insideTri c cw t p = true ∨ outsideTri c cw t p = true) →
      sumF (fun t => winding c p (triEdges t)) tris
        = cwSign cw * ((tris.filter fun t => insideTri c cw t p).length : K) := by
  intro tris
  induction tris with
  | nil => intro _ _; simp [sumF_nil]
  | cons t ts ih =>
    intro ho hg
    have ih' := ih (fun u hu => ho u (List.mem_cons_of_mem _ hu)) (fun u hu => hg u (List.mem_cons_of_mem _ hu))
    obtain ⟨w1, w2⟩ := tri_winding c cw t p (ho t (List.mem_cons_self ..))
    rw [sumF_cons, ih']
    by_cases hin : insideTri c cw t p = true
    · have e : (List.filter (fun t => insideTri c cw t p) (t :: ts)).length
          = (List.filter (fun t => insideTri c cw t p) ts).length + 1 := by
        simp [hin]
      rw [w1 hin, e]
      simp only [Nat.cast_add, Nat.cast_one]; ring
    · have hout : outsideTri c cw t p = true := by
        rcases hg t (List.mem_cons_self ..) with g | g
        · exact absurd g hin
        · exact g
      have e : (List.filter (fun t => insideTri c cw t p) (t :: ts))
          = (List.filter (fun t => insideTri c cw t p) ts) := by
        simp [hin]
      rw [w2 hout, e]; ring

end W

end M3d.Tri
