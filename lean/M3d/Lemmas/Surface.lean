import M3d.Model.Surface
/-!
Lemmas about `M3d.Surface`: the deciders are equivalent to the Props, and closure under
relabelling / reversal.  Core-only.
-/
namespace M3d.Surface

/-! ## Deciders -/

theorem edgeBalanced_iff (ts : List Tri) : edgeBalanced ts = true ↔ EdgeBalanced ts := by
  simp [edgeBalanced, EdgeBalanced, List.all_eq_true]

theorem triNondeg_iff (t : Tri) : triNondeg t = true ↔ TriNondeg t := by
  simp [triNondeg, TriNondeg, and_assoc]

theorem noDegenerate_iff (ts : List Tri) : noDegenerate ts = true ↔ NoDegenerate ts := by
  simp [noDegenerate, NoDegenerate, List.all_eq_true, triNondeg_iff]

theorem noDupFace_iff (ts : List Tri) : noDupFace ts = true ↔ NoDupFace ts := by
  induction ts with
  | nil => simp [noDupFace, NoDupFace]
  | cons t ts ih => simp [noDupFace, NoDupFace, ih, List.all_eq_true]

theorem inOutOne_iff (ss : List Seg) : inOutOne ss = true ↔ InOutOne ss := by
  simp [inOutOne, InOutOne, List.all_eq_true]

theorem noLoopSeg_iff (ss : List Seg) : noLoopSeg ss = true ↔ NoLoopSeg ss := by
  simp [noLoopSeg, NoLoopSeg, List.all_eq_true]

theorem closedCurves_iff (ss : List Seg) : closedCurves ss = true ↔ ClosedCurves ss := by
  simp [closedCurves, ClosedCurves, inOutOne_iff, noLoopSeg_iff]

/-- Soundness of the fan decider: it exhibits the cycle. -/
theorem fanCycle_sound (es : List Edge) (h : fanCycle es = true) : FanCycle es := by
  cases es with
  | nil => exact ⟨[], List.nodup_nil, by simp [cycleEdges]⟩
  | cons e es =>
    simp only [fanCycle, Bool.and_eq_true, decide_eq_true_eq, List.isPerm_iff] at h
    exact ⟨_, h.1, h.2⟩


/-! ### Completeness of the fan decider -/

theorem length_cycleEdges (l : List Nat) : (cycleEdges l).length = l.length := by
  cases l with
  | nil => rfl
  | cons a t => simp [cycleEdges, List.length_zip]

theorem map_fst_cycleEdges (l : List Nat) : (cycleEdges l).map (·.1) = l := by
  cases l with
  | nil => rfl
  | cons a t =>
    have : (a :: t).length ≤ (t ++ [a]).length := by simp
    simpa [cycleEdges] using List.map_fst_zip (l₁ := a :: t) (l₂ := t ++ [a]) this

/-- One rotation step. -/
theorem cycleEdges_rotate1 (a : Nat) (t : List Nat) :
    (cycleEdges (t ++ [a])).Perm (cycleEdges (a :: t)) := by
  cases t with
  | nil => simp [cycleEdges]
  | cons b t' =>
    have h : cycleEdges (b :: t' ++ [a]) = List.zip (b :: t') (t' ++ [a]) ++ [(a, b)] := by
      show List.zip (b :: (t' ++ [a])) ((t' ++ [a]) ++ [b]) = _
      have := List.zip_append (l₁ := b :: t') (r₁ := [a]) (l₂ := t' ++ [a]) (r₂ := [b]) (by simp)
      simpa using this
    rw [h]
    show (List.zip (b :: t') (t' ++ [a]) ++ [(a, b)]).Perm ((a, b) :: List.zip (b :: t') (t' ++ [a]))
    exact List.perm_append_singleton _ _

theorem cycleEdges_rotate (pre post : List Nat) (a : Nat) :
    (cycleEdges (pre ++ a :: post)).Perm (cycleEdges (a :: post ++ pre)) := by
  induction pre generalizing post with
  | nil => simp
  | cons p pre ih =>
    have h1 := (cycleEdges_rotate1 p (pre ++ a :: post)).symm
    have h2 := ih (post ++ [p])
    have e1 : pre ++ a :: post ++ [p] = pre ++ a :: (post ++ [p]) := by simp
    have e2 : a :: (post ++ [p]) ++ pre = a :: post ++ p :: pre := by simp
    rw [e1] at h1
    rw [e2] at h2
    exact h1.trans h2

theorem eq_of_nodup_map_fst {l : List Edge} (h : (l.map (·.1)).Nodup) {x y : Edge}
    (hx : x ∈ l) (hy : y ∈ l) (hxy : x.1 = y.1) : x = y := by
  induction l with
  | nil => cases hx
  | cons z l ih =>
    simp only [List.map_cons, List.nodup_cons, List.mem_map, not_exists, not_and] at h
    rcases List.mem_cons.1 hx with rfl | hx' <;> rcases List.mem_cons.1 hy with rfl | hy'
    · rfl
    · exact absurd hxy.symm (h.1 y hy')
    · exact absurd hxy (h.1 x hx')
    · exact ih h.2 hx' hy'

theorem nextOf_eq {es es' : List Edge} (hp : es.Perm es') (hn : (es'.map (·.1)).Nodup)
    {a b : Nat} (hab : (a, b) ∈ es') : nextOf es a = b := by
  unfold nextOf
  have hmem : (a, b) ∈ es := hp.symm.subset hab
  cases hf : es.find? (fun e => e.1 == a) with
  | none =>
    have := List.find?_eq_none.1 hf (a, b) hmem
    simp at this
  | some e =>
    have he1 : e.1 = a := by simpa using List.find?_some hf
    have he : e ∈ es' := hp.subset (List.mem_of_find?_eq_some hf)
    have := eq_of_nodup_map_fst hn he hab he1
    simp [this]

theorem mem_zip_append_right {xs ys zs : List Nat} {p : Nat × Nat} (h : p ∈ List.zip xs ys) :
    p ∈ List.zip xs (ys ++ zs) := by
  induction xs generalizing ys with
  | nil => simp at h
  | cons x xs ih =>
    cases ys with
    | nil => simp at h
    | cons y ys =>
      simp only [List.zip_cons_cons, List.mem_cons, List.cons_append] at h ⊢
      rcases h with h | h
      · exact Or.inl h
      · exact Or.inr (ih h)

theorem walk_chain (es : List Edge) (s : List Nat) (x : Nat)
    (h : ∀ p ∈ List.zip (x :: s) s, nextOf es p.1 = p.2) :
    walk es (s.length + 1) x = x :: s := by
  induction s generalizing x with
  | nil => simp [walk]
  | cons y s ih =>
    have hxy : nextOf es x = y := h (x, y) (by simp)
    have := ih y (fun p hp => h p (by simp [hp]))
    simp only [List.length_cons, walk, hxy]
    simpa [walk] using this

theorem fanCycle_complete (es : List Edge) (h : FanCycle es) : fanCycle es = true := by
  obtain ⟨l', hnd, hp⟩ := h
  cases es with
  | nil => rfl
  | cons e es0 =>
    have hlen : (e :: es0).length = l'.length := by rw [hp.length_eq, length_cycleEdges]
    have he : e.1 ∈ l' := by
      have : e.1 ∈ (cycleEdges l').map (·.1) := List.mem_map.2 ⟨e, hp.subset (by simp), rfl⟩
      rwa [map_fst_cycleEdges] at this
    obtain ⟨pre, post, rfl⟩ := List.append_of_mem he
    have hrot := cycleEdges_rotate pre post e.1
    have hp' : (e :: es0).Perm (cycleEdges (e.1 :: post ++ pre)) := hp.trans hrot
    have hnd' : (e.1 :: post ++ pre).Nodup := by
      have : (pre ++ e.1 :: post).Perm (e.1 :: post ++ pre) := List.perm_append_comm
      exact (this.nodup_iff).1 hnd
    have hsrc : ((cycleEdges (e.1 :: post ++ pre)).map (·.1)).Nodup := by
      rw [map_fst_cycleEdges]; exact hnd'
    have hwalk : walk (e :: es0) (e :: es0).length e.1 = e.1 :: (post ++ pre) := by
      have hl : (e :: es0).length = (post ++ pre).length + 1 := by
        rw [hlen]; simp; omega
      rw [hl]
      apply walk_chain
      intro p hpm
      apply nextOf_eq hp' hsrc
      have : p ∈ cycleEdges (e.1 :: (post ++ pre)) := by
        show p ∈ List.zip (e.1 :: (post ++ pre)) ((post ++ pre) ++ [e.1])
        exact mem_zip_append_right hpm
      simpa using this
    simp only [fanCycle, Bool.and_eq_true, decide_eq_true_eq, List.isPerm_iff]
    rw [hwalk]
    exact ⟨by simpa using hnd', by simpa using hp'⟩

theorem fanCycle_iff (es : List Edge) : fanCycle es = true ↔ FanCycle es :=
  ⟨fanCycle_sound es, fanCycle_complete es⟩

theorem fanConnected_iff (ts : List Tri) : fanConnected ts = true ↔ FanConnected ts := by
  simp [fanConnected, FanConnected, List.all_eq_true, fanCycle_iff]

theorem closedManifold_iff (ts : List Tri) : closedManifold ts = true ↔ ClosedManifold ts := by
  simp [closedManifold, ClosedManifold, edgeBalanced_iff, fanConnected_iff, noDegenerate_iff, and_assoc]


/-! ## Relabelling by a map that is injective on the vertices -/

def InjOn (f : Nat → Nat) (S : List Nat) : Prop := ∀ a ∈ S, ∀ b ∈ S, f a = f b → a = b

theorem filterMap_congr' {α β : Type} {f g : α → Option β} {l : List α} (h : ∀ x ∈ l, f x = g x) :
    l.filterMap f = l.filterMap g := by
  induction l with
  | nil => rfl
  | cons a l ih =>
    simp only [List.filterMap_cons, h a List.mem_cons_self, ih (fun x hx => h x (List.mem_cons_of_mem _ hx))]

theorem count_map_injOn {α β : Type} [BEq α] [LawfulBEq α] [BEq β] [LawfulBEq β] (g : α → β) (l : List α) (x : α)
    (h : ∀ y ∈ l, g y = g x → y = x) : (l.map g).count (g x) = l.count x := by
  induction l with
  | nil => rfl
  | cons y l ih =>
    have ih' := ih (fun z hz => h z (List.mem_cons_of_mem _ hz))
    by_cases hy : y = x
    · subst hy; simp [ih']
    · have : g y ≠ g x := fun e => hy (h y (List.mem_cons_self) e)
      simp [hy, this, ih']

theorem dirEdges_relabel (f : Nat → Nat) (ts : List Tri) :
    dirEdges (relabel f ts) = (dirEdges ts).map (mapEdge f) := by
  simp [dirEdges, relabel, List.flatMap_map, List.map_flatMap, triEdges, mapTri, mapEdge]

theorem vertsAll_relabel (f : Nat → Nat) (ts : List Tri) :
    vertsAll (relabel f ts) = (vertsAll ts).map f := by
  simp [vertsAll, relabel, List.flatMap_map, List.map_flatMap, triVerts, mapTri]

theorem edge_verts_mem {ts : List Tri} {e : Edge} (h : e ∈ dirEdges ts) :
    e.1 ∈ vertsAll ts ∧ e.2 ∈ vertsAll ts := by
  simp only [dirEdges, List.mem_flatMap] at h
  obtain ⟨t, ht, he⟩ := h
  simp only [triEdges, List.mem_cons, List.not_mem_nil, or_false] at he
  have hv : ∀ x ∈ triVerts t, x ∈ vertsAll ts := fun x hx => by
    simp only [vertsAll, List.mem_flatMap]; exact ⟨t, ht, hx⟩
  rcases he with rfl | rfl | rfl <;> exact ⟨hv _ (by simp [triVerts]), hv _ (by simp [triVerts])⟩

theorem mapEdge_injOn {f : Nat → Nat} {S : List Nat} (hf : InjOn f S) {e e' : Edge}
    (he : e.1 ∈ S ∧ e.2 ∈ S) (he' : e'.1 ∈ S ∧ e'.2 ∈ S) (h : mapEdge f e = mapEdge f e') : e = e' := by
  simp only [mapEdge, Prod.mk.injEq] at h
  exact Prod.ext (hf _ he.1 _ he'.1 h.1) (hf _ he.2 _ he'.2 h.2)

theorem edgeBalanced_relabel {f : Nat → Nat} {ts : List Tri} (hf : InjOn f (vertsAll ts))
    (h : EdgeBalanced ts) : EdgeBalanced (relabel f ts) := by
  intro e' he'
  rw [dirEdges_relabel] at he' ⊢
  obtain ⟨e, he, rfl⟩ := List.mem_map.1 he'
  have hev := edge_verts_mem he
  have hsw : swap (mapEdge f e) = mapEdge f (swap e) := rfl
  rw [hsw]
  constructor
  · rw [count_map_injOn (mapEdge f) _ e (fun y hy hyx => mapEdge_injOn hf (edge_verts_mem hy) hev hyx)]
    exact (h e he).1
  · rw [count_map_injOn (mapEdge f) _ (swap e)
      (fun y hy hyx => mapEdge_injOn hf (edge_verts_mem hy) ⟨hev.2, hev.1⟩ hyx)]
    exact (h e he).2

theorem noDegenerate_relabel {f : Nat → Nat} {ts : List Tri} (hf : InjOn f (vertsAll ts))
    (h : NoDegenerate ts) : NoDegenerate (relabel f ts) := by
  intro t' ht'
  obtain ⟨t, ht, rfl⟩ := List.mem_map.1 ht'
  have hv : ∀ x ∈ triVerts t, x ∈ vertsAll ts := fun x hx => by
    simp only [vertsAll, List.mem_flatMap]; exact ⟨t, ht, hx⟩
  obtain ⟨h1, h2, h3⟩ := h t ht
  refine ⟨fun e => h1 (hf _ (hv _ (by simp [triVerts])) _ (hv _ (by simp [triVerts])) e),
    fun e => h2 (hf _ (hv _ (by simp [triVerts])) _ (hv _ (by simp [triVerts])) e),
    fun e => h3 (hf _ (hv _ (by simp [triVerts])) _ (hv _ (by simp [triVerts])) e)⟩

theorem rot_mapTri {f : Nat → Nat} {S : List Nat} (hf : InjOn f S) {v : Nat} (hv : v ∈ S) {t : Tri}
    (ht : ∀ x ∈ triVerts t, x ∈ S) : rot (f v) (mapTri f t) = (rot v t).map (mapEdge f) := by
  obtain ⟨a, b, c⟩ := t
  have ha : a ∈ S := ht a (by simp [triVerts])
  have hb : b ∈ S := ht b (by simp [triVerts])
  have hc : c ∈ S := ht c (by simp [triVerts])
  have ea : (f a = f v) ↔ a = v := ⟨hf _ ha _ hv, fun e => by rw [e]⟩
  have eb : (f b = f v) ↔ b = v := ⟨hf _ hb _ hv, fun e => by rw [e]⟩
  have ec : (f c = f v) ↔ c = v := ⟨hf _ hc _ hv, fun e => by rw [e]⟩
  simp only [rot, mapTri, ea, eb, ec]
  by_cases h1 : a = v
  · simp [h1, mapEdge]
  · by_cases h2 : b = v
    · simp [h1, h2, mapEdge]
    · by_cases h3 : c = v
      · simp [h1, h2, h3, mapEdge]
      · simp [h1, h2, h3]

theorem link_relabel {f : Nat → Nat} {ts : List Tri} (hf : InjOn f (vertsAll ts)) {v : Nat}
    (hv : v ∈ vertsAll ts) : link (f v) (relabel f ts) = (link v ts).map (mapEdge f) := by
  simp only [link, relabel, List.filterMap_map, List.map_filterMap]
  apply filterMap_congr'
  intro t ht
  have : ∀ x ∈ triVerts t, x ∈ vertsAll ts := fun x hx => by
    simp only [vertsAll, List.mem_flatMap]; exact ⟨t, ht, hx⟩
  simpa using rot_mapTri hf hv this

theorem cycleEdges_map (f : Nat → Nat) (l : List Nat) :
    cycleEdges (l.map f) = (cycleEdges l).map (mapEdge f) := by
  cases l with
  | nil => rfl
  | cons a t =>
    simp only [cycleEdges, List.map_cons]
    have : List.map f t ++ [f a] = List.map f (t ++ [a]) := by simp
    rw [this, ← List.map_cons, List.zip_map]
    rfl

theorem link_verts_mem {ts : List Tri} {v : Nat} {e : Edge} (h : e ∈ link v ts) :
    e.1 ∈ vertsAll ts ∧ e.2 ∈ vertsAll ts := by
  simp only [link, List.mem_filterMap] at h
  obtain ⟨t, ht, he⟩ := h
  have hv : ∀ x ∈ triVerts t, x ∈ vertsAll ts := fun x hx => by
    simp only [vertsAll, List.mem_flatMap]; exact ⟨t, ht, hx⟩
  obtain ⟨a, b, c⟩ := t
  simp only [rot] at he
  split at he
  · cases he; exact ⟨hv _ (by simp [triVerts]), hv _ (by simp [triVerts])⟩
  · split at he
    · cases he; exact ⟨hv _ (by simp [triVerts]), hv _ (by simp [triVerts])⟩
    · split at he
      · cases he; exact ⟨hv _ (by simp [triVerts]), hv _ (by simp [triVerts])⟩
      · cases he

theorem nodup_map_injOn {f : Nat → Nat} {l : List Nat} (h : ∀ a ∈ l, ∀ b ∈ l, f a = f b → a = b)
    (hn : l.Nodup) : (l.map f).Nodup := by
  induction l with
  | nil => exact List.nodup_nil
  | cons a l ih =>
    rw [List.nodup_cons] at hn
    simp only [List.map_cons, List.nodup_cons, List.mem_map, not_exists, not_and]
    refine ⟨fun b hb e => ?_, ih (fun x hx y hy => h x (List.mem_cons_of_mem _ hx) y (List.mem_cons_of_mem _ hy)) hn.2⟩
    have := h b (List.mem_cons_of_mem _ hb) a List.mem_cons_self e
    exact hn.1 (this ▸ hb)

theorem fanConnected_relabel {f : Nat → Nat} {ts : List Tri} (hf : InjOn f (vertsAll ts))
    (h : FanConnected ts) : FanConnected (relabel f ts) := by
  intro v' hv'
  simp only [verts, List.mem_eraseDups, vertsAll_relabel, List.mem_map] at hv'
  obtain ⟨v, hv, rfl⟩ := hv'
  obtain ⟨l, hnd, hp⟩ := h v (by simpa [verts, List.mem_eraseDups] using hv)
  refine ⟨l.map f, ?_, ?_⟩
  · apply nodup_map_injOn _ hnd
    have hmem : ∀ a ∈ l, a ∈ vertsAll ts := fun a ha => by
      have : a ∈ (cycleEdges l).map (·.1) := by rw [map_fst_cycleEdges]; exact ha
      obtain ⟨e, he, rfl⟩ := List.mem_map.1 this
      exact (link_verts_mem (hp.symm.subset he)).1
    exact fun a ha b hb => hf a (hmem a ha) b (hmem b hb)
  · rw [link_relabel hf hv, cycleEdges_map]
    exact hp.map _

/-- Moving the vertices of a closed manifold by a map that is injective on its vertices gives a
closed manifold. -/
theorem closedManifold_relabel {f : Nat → Nat} {ts : List Tri} (hf : InjOn f (vertsAll ts))
    (h : ClosedManifold ts) : ClosedManifold (relabel f ts) :=
  ⟨edgeBalanced_relabel hf h.1, fanConnected_relabel hf h.2.1, noDegenerate_relabel hf h.2.2⟩


/-! ## Reversal -/

theorem reverse_reverse (ts : List Tri) : reverse (reverse ts) = ts := by
  simp [reverse, reverseTri, List.map_map, Function.comp_def]

theorem swap_swap (e : Edge) : swap (swap e) = e := rfl

theorem triEdges_reverse_perm (t : Tri) : (triEdges (reverseTri t)).Perm ((triEdges t).map swap) := by
  obtain ⟨a, b, c⟩ := t
  simp only [triEdges, reverseTri, swap, List.map_cons, List.map_nil]
  -- [(a,c),(c,b),(b,a)] is the reverse of [(b,a),(c,b),(a,c)]
  exact List.reverse_perm [(b, a), (c, b), (a, c)]

theorem dirEdges_reverse_perm (ts : List Tri) :
    (dirEdges (reverse ts)).Perm ((dirEdges ts).map swap) := by
  induction ts with
  | nil => exact List.Perm.refl _
  | cons t ts ih =>
    simp only [dirEdges, reverse, List.map_cons, List.flatMap_cons, List.map_append] at ih ⊢
    exact (triEdges_reverse_perm t).append ih

theorem count_map_swap (l : List Edge) (e : Edge) : (l.map swap).count e = l.count (swap e) := by
  have := count_map_injOn swap l (swap e) (fun y _ h => by
    have := congrArg swap h; simpa [swap_swap] using this)
  simpa [swap_swap] using this

theorem edgeBalanced_reverse {ts : List Tri} (h : EdgeBalanced ts) : EdgeBalanced (reverse ts) := by
  have hp := dirEdges_reverse_perm ts
  intro e he
  have he' : e ∈ (dirEdges ts).map swap := hp.subset he
  obtain ⟨e0, he0, rfl⟩ := List.mem_map.1 he'
  rw [hp.count_eq, hp.count_eq, count_map_swap, count_map_swap, swap_swap]
  exact ⟨by simpa [swap_swap] using (h e0 he0).1, (h e0 he0).2⟩

theorem noDegenerate_reverse {ts : List Tri} (h : NoDegenerate ts) : NoDegenerate (reverse ts) := by
  intro t' ht'
  obtain ⟨t, ht, rfl⟩ := List.mem_map.1 ht'
  obtain ⟨h1, h2, h3⟩ := h t ht
  exact ⟨fun e => h3 e.symm, fun e => h2 e.symm, fun e => h1 e.symm⟩

theorem rot_reverseTri {v : Nat} {t : Tri} (ht : TriNondeg t) :
    rot v (reverseTri t) = (rot v t).map swap := by
  obtain ⟨a, b, c⟩ := t
  obtain ⟨h1, h2, h3⟩ := ht
  simp only at h1 h2 h3
  simp only [rot, reverseTri]
  by_cases ha : a = v
  · simp [ha, swap]
  · by_cases hc : c = v
    · have hb : b ≠ v := fun e => h2 (e.trans hc.symm)
      simp [ha, hc, hb, swap]
    · by_cases hb : b = v
      · simp [ha, hc, hb, swap]
      · simp [ha, hc, hb]

theorem link_reverse {ts : List Tri} (h : NoDegenerate ts) (v : Nat) :
    link v (reverse ts) = (link v ts).map swap := by
  simp only [link, reverse, List.filterMap_map, List.map_filterMap]
  apply filterMap_congr'
  intro t ht
  simpa using rot_reverseTri (h t ht)

theorem zip_map_swap {α : Type} (xs ys : List α) : (List.zip xs ys).map Prod.swap = List.zip ys xs := by
  induction xs generalizing ys with
  | nil => cases ys <;> simp
  | cons x xs ih => cases ys with
    | nil => simp
    | cons y ys => simp [ih]

theorem reverse_zip_eq {α : Type} (xs ys : List α) (h : xs.length = ys.length) :
    (List.zip xs ys).reverse = List.zip xs.reverse ys.reverse := by
  induction xs generalizing ys with
  | nil => cases ys <;> simp
  | cons x xs ih =>
    cases ys with
    | nil => simp at h
    | cons y ys =>
      simp only [List.length_cons, Nat.add_right_cancel_iff] at h
      simp only [List.zip_cons_cons, List.reverse_cons, ih ys h]
      rw [List.zip_append (by simp [h])]
      simp

/-- The reversed cycle: `a, tₙ, …, t₁`. -/
theorem cycleEdges_reverse_perm (a : Nat) (t : List Nat) :
    (cycleEdges (a :: t.reverse)).Perm ((cycleEdges (a :: t)).map swap) := by
  have h1 : (cycleEdges (a :: t)).map swap = List.zip (t ++ [a]) (a :: t) := by
    have : swap = (Prod.swap : Edge → Edge) := rfl
    simp only [cycleEdges, this, zip_map_swap]
  have h2 : (List.zip (t ++ [a]) (a :: t)).reverse = cycleEdges (a :: t.reverse) := by
    rw [reverse_zip_eq _ _ (by simp)]
    simp [cycleEdges]
  rw [h1, ← h2]
  exact (List.reverse_perm _).symm.symm

theorem fanCycle_map_swap {es : List Edge} (h : FanCycle es) : FanCycle (es.map swap) := by
  obtain ⟨l, hnd, hp⟩ := h
  cases l with
  | nil =>
    have : es = [] := by simpa [cycleEdges] using hp.length_eq
    exact ⟨[], List.nodup_nil, by simp [this, cycleEdges]⟩
  | cons a t =>
    refine ⟨a :: t.reverse, ?_, ?_⟩
    · have : (a :: t.reverse).Perm (a :: t) := List.Perm.cons _ (List.reverse_perm _)
      exact (this.nodup_iff).2 hnd
    · exact (hp.map swap).trans (cycleEdges_reverse_perm a t).symm

theorem vertsAll_reverse_mem (ts : List Tri) (v : Nat) : v ∈ vertsAll (reverse ts) ↔ v ∈ vertsAll ts := by
  simp only [vertsAll, reverse, List.mem_flatMap, List.mem_map]
  constructor
  · rintro ⟨t', ⟨t, ht, rfl⟩, hv⟩
    refine ⟨t, ht, ?_⟩
    simp only [triVerts, reverseTri, List.mem_cons, List.not_mem_nil, or_false] at hv ⊢
    rcases hv with h | h | h <;> simp [h]
  · rintro ⟨t, ht, hv⟩
    refine ⟨reverseTri t, ⟨t, ht, rfl⟩, ?_⟩
    simp only [triVerts, reverseTri, List.mem_cons, List.not_mem_nil, or_false] at hv ⊢
    rcases hv with h | h | h <;> simp [h]

/-- Flipping every face of a closed manifold gives a closed manifold. -/
theorem closedManifold_reverse {ts : List Tri} (h : ClosedManifold ts) : ClosedManifold (reverse ts) := by
  refine ⟨edgeBalanced_reverse h.1, ?_, noDegenerate_reverse h.2.2⟩
  intro v hv
  have hv' : v ∈ verts ts := by
    simp only [verts, List.mem_eraseDups] at hv ⊢
    exact (vertsAll_reverse_mem ts v).1 hv
  rw [link_reverse h.2.2]
  exact fanCycle_map_swap (h.2.1 v hv')

end M3d.Surface
