import M3d.Gen.Kernels
import M3d.Model.Box
import M3d.Model.Spatial
import Mathlib.Tactic.Ring
import Mathlib.Tactic.SplitIfs
import Mathlib.Algebra.Order.Field.Basic
/-!
# Tie between the REGENERATED slab test and the model of C08 (`slabLoop`, `rayBounds3/2`)

`model3d.rayCollisionWithBounds` / `model2d.rayCollisionWithBounds` as the Go source defines them NOW (the
loop over the axes unrolled by the translator, `continue` / early `return 0, -1` included, `math.Inf(∓1)` as the
two constants of the class `HasInf`) compute the pair that the hand-written model `rayBounds3/2` (`slabLoop`
with `none` for `∓∞`) computes — the function the theorems `slab_prefilter_sound`, `slab_prefilter_exact`,
`slab_segment_prefilter_exact`, `slab_direction_length_irrelevant` of `M3d/Props/C08.lean` are about.

Scalars: every linear ordered field `K` with ANY `HasInf K` instance.  The only hypothesis (`SlabFinite3/2`)
is the one that makes the two constants behave like infinities for this call: on every axis with a non-zero
rate the two slab parameters `(min - origin) / rate`, `(max - origin) / rate` lie strictly between `negInf` and
`posInf`.  (At `Float` this is "no NaN / infinite quotient": the generated definition itself is executed bit
for bit against the real function by the `gk` translation validation and the `slab*` kinds.)

`knnResults.MaxDist` (the pruning bound of `CoordTree.knn`) is tied to `knnMaxDist` the same way.
-/
namespace M3d.KernelsTie.Slab
open M3d.Box M3d.Spatial M3d.Gen.Kernels M3d.GenPrelude
set_option linter.unusedSectionVars false
set_option linter.unusedVariables false
set_option linter.unusedSimpArgs false

variable {K : Type} [Field K] [LinearOrder K] [IsStrictOrderedRing K] [I : HasInf K]

@[reducible] def g3 (a : V3 K) : model3d.Coord3D K := ⟨a.x, a.y, a.z⟩
@[reducible] def g2 (a : V2 K) : model2d.Coord K := ⟨a.x, a.y⟩

/-- The pair of floats that the model's pair of options stands for: `none ↦ -∞` / `+∞`. -/
def dec (r : Option K × Option K) : K × K := (r.1.getD I.negInf, r.2.getD I.posInf)

/-- One axis behaves like a finite slab: with a non-zero rate both parameters are strictly between the two
"infinities". -/
def AxFinite (a : Ax K) : Prop :=
  a.d ≠ 0 → (I.negInf < (a.lo - a.o) / a.d ∧ (a.lo - a.o) / a.d < I.posInf) ∧
    (I.negInf < (a.hi - a.o) / a.d ∧ (a.hi - a.o) / a.d < I.posInf)

/-- One iteration of the Go loop in continuation-passing form: exactly the text the translator emits for an
unrolled iteration (`k` = the remaining iterations / the final `return`). -/
def axK (o d lo hi : K) (mn mx : K) (k : K → K → K × K) : K × K :=
  if (feq d (0 : K)) then
    if ((decide (o < lo)) || (decide (o > hi))) then
      ((0 : K), (-(1 : K)))
    else
      k mn mx
  else
    let t1 : K := ((lo - o) / d)
    let t2 : K := ((hi - o) / d)
    let (t1, t2) :=
      if (decide (t1 > t2)) then
        let (t1, t2) := (t2, t1)
        (t1, t2)
      else
        (t1, t2)
    if (decide (t2 < (0 : K))) then
      ((0 : K), (-(1 : K)))
    else
      k (if (decide (t1 > mn)) then t1 else mn) (if (decide (t2 < mx)) then t2 else mx)

theorem feq_zero_iff (d : K) : feq d (0 : K) = true ↔ d = 0 := by
  unfold feq
  simp only [Bool.not_eq_true', Bool.or_eq_false_iff, decide_eq_false_iff_not, not_lt]
  exact ⟨fun h => le_antisymm h.2 h.1, fun h => by subst h; exact ⟨le_refl _, le_refl _⟩⟩

/-- **One unrolled iteration = one step of `slabLoop`**, provided the continuation is the rest of the loop. -/
theorem axK_slab (a : Ax K) (as : List (Ax K)) (mn mx : Option K) (k : K → K → K × K)
    (hk : ∀ mn' mx', k (mn'.getD I.negInf) (mx'.getD I.posInf) = dec (slabLoop as mn' mx'))
    (hfin : AxFinite a) :
    axK a.o a.d a.lo a.hi (mn.getD I.negInf) (mx.getD I.posInf) k = dec (slabLoop (a :: as) mn mx) := by
  unfold axK
  by_cases hd : a.d = 0
  · have hf : feq a.d (0 : K) = true := (feq_zero_iff _).2 hd
    rw [if_pos hf]
    simp only [slabLoop, hd, if_true]
    by_cases h1 : a.o < a.lo
    · simp [h1, slabMiss, dec]
    · by_cases h2 : a.hi < a.o
      · simp [h1, h2, slabMiss, dec]
      · simp only [h1, h2, decide_false, gt_iff_lt, Bool.or_self, Bool.false_eq_true, if_false, or_self]
        exact hk mn mx
  · have hf : feq a.d (0 : K) = false := by
      cases h : feq a.d (0 : K) with
      | false => rfl
      | true => exact absurd ((feq_zero_iff _).1 h) hd
    obtain ⟨⟨hl1, hl2⟩, ⟨hh1, hh2⟩⟩ := hfin hd
    rw [if_neg (by rw [hf]; exact Bool.false_ne_true)]
    simp only [slabLoop, hd, if_false, gt_iff_lt, decide_eq_true_eq]
    by_cases hsw : (a.hi - a.o) / a.d < (a.lo - a.o) / a.d
    · simp only [hsw, if_true]
      by_cases hneg : (a.lo - a.o) / a.d < 0
      · simp [hneg, slabMiss, dec]
      · simp only [hneg, if_false]
        rw [← hk]
        congr 1
        · cases mn with
          | none => simp [hh1]
          | some m => by_cases hm : m < (a.hi - a.o) / a.d <;> simp [hm]
        · cases mx with
          | none => simp [hl2]
          | some m => by_cases hm : (a.lo - a.o) / a.d < m <;> simp [hm]
    · simp only [hsw, if_false]
      by_cases hneg : (a.hi - a.o) / a.d < 0
      · simp [hneg, slabMiss, dec]
      · simp only [hneg, if_false]
        rw [← hk]
        congr 1
        · cases mn with
          | none => simp [hl1]
          | some m => by_cases hm : m < (a.lo - a.o) / a.d <;> simp [hm]
        · cases mx with
          | none => simp [hh2]
          | some m => by_cases hm : (a.hi - a.o) / a.d < m <;> simp [hm]

theorem dec_nil (mn mx : Option K) :
    (mn.getD I.negInf, mx.getD I.posInf) = dec (slabLoop ([] : List (Ax K)) mn mx) := rfl

/-- The generated 3D function is the three unrolled iterations, in order x, y, z. -/
theorem gen3_unrolled (o d : V3 K) (b : Box3 K) :
    model3d.rayCollisionWithBounds ⟨g3 o, g3 d⟩ (g3 b.min) (g3 b.max) =
      axK o.x d.x b.min.x b.max.x I.negInf I.posInf fun mn mx =>
        axK o.y d.y b.min.y b.max.y mn mx fun mn mx =>
          axK o.z d.z b.min.z b.max.z mn mx fun mn mx => (mn, mx) := by
  rfl

/-- The generated 2D function is the two unrolled iterations. -/
theorem gen2_unrolled (o d : V2 K) (b : Box2 K) :
    model2d.rayCollisionWithBounds ⟨g2 o, g2 d⟩ (g2 b.min) (g2 b.max) =
      axK o.x d.x b.min.x b.max.x I.negInf I.posInf fun mn mx =>
        axK o.y d.y b.min.y b.max.y mn mx fun mn mx => (mn, mx) := by
  rfl

/-- Hypothesis of the tie (3D): every axis with a non-zero rate has finite slab parameters. -/
def SlabFinite3 (o d : V3 K) (b : Box3 K) : Prop :=
  AxFinite (⟨o.x, d.x, b.min.x, b.max.x⟩ : Ax K) ∧ AxFinite (⟨o.y, d.y, b.min.y, b.max.y⟩ : Ax K) ∧
    AxFinite (⟨o.z, d.z, b.min.z, b.max.z⟩ : Ax K)

def SlabFinite2 (o d : V2 K) (b : Box2 K) : Prop :=
  AxFinite (⟨o.x, d.x, b.min.x, b.max.x⟩ : Ax K) ∧ AxFinite (⟨o.y, d.y, b.min.y, b.max.y⟩ : Ax K)

/-- **`model3d.rayCollisionWithBounds` (regenerated from bvh.go) = `rayBounds3`**: the returned
`(minFrac, maxFrac)` is the model's pair with `none ↦ math.Inf(-1)` / `math.Inf(1)`; the miss value `(0, -1)`,
the `rate == 0` `continue`, the swap, the `t2 < 0` short circuit and both running updates included. -/
theorem rayBounds3_eq (o d : V3 K) (b : Box3 K) (h : SlabFinite3 o d b) :
    model3d.rayCollisionWithBounds ⟨g3 o, g3 d⟩ (g3 b.min) (g3 b.max) = dec (rayBounds3 o d b) := by
  rw [gen3_unrolled]
  unfold rayBounds3
  exact axK_slab ⟨o.x, d.x, b.min.x, b.max.x⟩ _ none none _
    (fun mn mx => axK_slab ⟨o.y, d.y, b.min.y, b.max.y⟩ _ mn mx _
      (fun mn mx => axK_slab ⟨o.z, d.z, b.min.z, b.max.z⟩ _ mn mx _ (fun mn mx => dec_nil mn mx) h.2.2)
      h.2.1)
    h.1

/-- **`model2d.rayCollisionWithBounds` (regenerated) = `rayBounds2`.** -/
theorem rayBounds2_eq (o d : V2 K) (b : Box2 K) (h : SlabFinite2 o d b) :
    model2d.rayCollisionWithBounds ⟨g2 o, g2 d⟩ (g2 b.min) (g2 b.max) = dec (rayBounds2 o d b) := by
  rw [gen2_unrolled]
  unfold rayBounds2
  exact axK_slab ⟨o.x, d.x, b.min.x, b.max.x⟩ _ none none _
    (fun mn mx => axK_slab ⟨o.y, d.y, b.min.y, b.max.y⟩ _ mn mx _ (fun mn mx => dec_nil mn mx) h.2)
    h.1

/-- `x` lies strictly between the two "infinities". -/
def Btw (x : K) : Prop := I.negInf < x ∧ x < I.posInf

theorem AxFinite.btw {a : Ax K} (h : AxFinite a) (hd : a.d ≠ 0) :
    Btw ((a.lo - a.o) / a.d) ∧ Btw ((a.hi - a.o) / a.d) := h hd

/-- What `slabLoop` returns stays between the two "infinities" when every axis is finite and so are the two
components `0`, `-1` of the miss value (so that comparing the decoded floats is comparing the options). -/
theorem slabLoop_btw (h0 : Btw (0 : K)) (hm1 : Btw (-1 : K)) :
    ∀ (as : List (Ax K)) (mn mx : Option K), (∀ a ∈ as, AxFinite a) →
      (∀ m, mn = some m → Btw m) → (∀ m, mx = some m → Btw m) →
      (∀ m, (slabLoop as mn mx).1 = some m → Btw m) ∧ (∀ m, (slabLoop as mn mx).2 = some m → Btw m) := by
  intro as
  induction as with
  | nil => intro mn mx _ h1 h2; exact ⟨h1, h2⟩
  | cons a as ih =>
      intro mn mx hf h1 h2
      have hfa := hf a (by simp)
      have hfas : ∀ a' ∈ as, AxFinite a' := fun a' ha' => hf a' (by simp [ha'])
      have hmiss : (∀ m, (slabMiss : Option K × Option K).1 = some m → Btw m) ∧
          (∀ m, (slabMiss : Option K × Option K).2 = some m → Btw m) := by
        refine ⟨fun m hm => ?_, fun m hm => ?_⟩
        · simp only [slabMiss, Option.some.injEq] at hm; rw [← hm]; exact h0
        · simp only [slabMiss, Option.some.injEq] at hm; rw [← hm]; exact hm1
      -- the two running updates keep the invariant
      have hup1 : ∀ s : K, Btw s → ∀ m, (match mn with
            | none => some s
            | some m0 => if m0 < s then some s else some m0) = some m → Btw m := by
        intro s hs m hm
        cases mn with
        | none => simp only [Option.some.injEq] at hm; rw [← hm]; exact hs
        | some m0 =>
            simp only at hm
            split_ifs at hm <;> simp only [Option.some.injEq] at hm <;> rw [← hm]
            · exact hs
            · exact h1 m0 rfl
      have hup2 : ∀ s : K, Btw s → ∀ m, (match mx with
            | none => some s
            | some m0 => if s < m0 then some s else some m0) = some m → Btw m := by
        intro s hs m hm
        cases mx with
        | none => simp only [Option.some.injEq] at hm; rw [← hm]; exact hs
        | some m0 =>
            simp only at hm
            split_ifs at hm <;> simp only [Option.some.injEq] at hm <;> rw [← hm]
            · exact hs
            · exact h2 m0 rfl
      simp only [slabLoop]
      by_cases hd : a.d = 0
      · simp only [hd, if_true]
        split_ifs
        · exact hmiss
        · exact ih mn mx hfas h1 h2
      · obtain ⟨hl, hh⟩ := hfa.btw hd
        simp only [hd, if_false]
        split_ifs with hsw hneg hneg
        · exact hmiss
        · exact ih _ _ hfas (hup1 _ hh) (hup2 _ hl)
        · exact hmiss
        · exact ih _ _ hfas (hup1 _ hl) (hup2 _ hh)

/-- `maxFrac >= minFrac && maxFrac >= 0` (`rayCollidesWithBounds`, `Rect.FirstRayCollision`) on the decoded
floats is `rayAdmits` on the options, and `!(maxFrac < minFrac || maxFrac < 0 || minFrac > 1)`
(`joinedMultiCollider.SegmentCollision`) is `segAdmits`, whenever the finite components and `0`, `1` lie strictly
between the infinities. -/
theorem admits_dec (r : Option K × Option K) (h0 : Btw (0 : K)) (h1 : Btw (1 : K))
    (hr1 : ∀ m, r.1 = some m → Btw m) (hr2 : ∀ m, r.2 = some m → Btw m) :
    (decide ((dec r).2 ≥ (dec r).1) && decide ((dec r).2 ≥ 0)) = rayAdmits r ∧
      (!(decide ((dec r).2 < (dec r).1) || decide ((dec r).2 < 0) || decide ((dec r).1 > 1))) = segAdmits r := by
  obtain ⟨mn, mx⟩ := r
  have hnp : I.negInf < I.posInf := lt_trans h0.1 h0.2
  cases mn with
  | none =>
      cases mx with
      | none =>
          simp only [dec, Option.getD_none, rayAdmits, segAdmits, ge_iff_le, gt_iff_lt]
          simp [le_of_lt hnp, le_of_lt h0.2, not_lt.2 (le_of_lt hnp), not_lt.2 (le_of_lt h0.2),
            not_lt.2 (le_of_lt h1.1)]
      | some x =>
          simp only [dec, Option.getD_none, Option.getD_some, rayAdmits, segAdmits, ge_iff_le, gt_iff_lt]
          have hx := hr2 x rfl
          simp [le_of_lt hx.1, not_lt.2 (le_of_lt hx.1), not_lt.2 (le_of_lt h1.1)]
          exact decide_eq_decide.2 Iff.rfl
  | some n =>
      have hn := hr1 n rfl
      cases mx with
      | none =>
          simp only [dec, Option.getD_none, Option.getD_some, rayAdmits, segAdmits, ge_iff_le, gt_iff_lt]
          simp [le_of_lt hn.2, le_of_lt h0.2, not_lt.2 (le_of_lt hn.2), not_lt.2 (le_of_lt h0.2)]
      | some x =>
          simp only [dec, Option.getD_some, rayAdmits, segAdmits, ge_iff_le, gt_iff_lt]
          simp [not_lt, not_le]
          rw [Bool.eq_iff_iff]
          simp
          intro _
          constructor
          · rintro ⟨h1, h2⟩
            exact ⟨not_lt.1 (of_decide_eq_false h1), not_lt.1 (of_decide_eq_false h2)⟩
          · rintro ⟨h1, h2⟩
            exact ⟨decide_eq_false (not_lt.2 h1), decide_eq_false (not_lt.2 h2)⟩

/-- **The pruning decision computed from the regenerated slab test is the model's decision** (3D): with
`(minFrac, maxFrac)` the result of the generated `rayCollisionWithBounds`, `maxFrac >= minFrac && maxFrac >= 0`
is `rayAdmits (rayBounds3 …)` and the segment test is `segAdmits (rayBounds3 …)` — the predicates that
`slab_prefilter_exact` / `slab_segment_prefilter_exact` characterise as "the ray / segment meets the box". -/
theorem rayDecision3_eq (o d : V3 K) (b : Box3 K) (h : SlabFinite3 o d b) (h0 : Btw (0 : K)) (h1 : Btw (1 : K))
    (hm1 : Btw (-1 : K)) :
    let r := model3d.rayCollisionWithBounds ⟨g3 o, g3 d⟩ (g3 b.min) (g3 b.max)
    (decide (r.2 ≥ r.1) && decide (r.2 ≥ 0)) = rayAdmits (rayBounds3 o d b) ∧
      (!(decide (r.2 < r.1) || decide (r.2 < 0) || decide (r.1 > 1))) = segAdmits (rayBounds3 o d b) := by
  intro r
  have hr : r = dec (rayBounds3 o d b) := rayBounds3_eq o d b h
  rw [hr]
  have hb := slabLoop_btw h0 hm1
    [⟨o.x, d.x, b.min.x, b.max.x⟩, ⟨o.y, d.y, b.min.y, b.max.y⟩, ⟨o.z, d.z, b.min.z, b.max.z⟩] none none
    (by
      intro a ha
      simp only [List.mem_cons, List.not_mem_nil, or_false] at ha
      rcases ha with rfl | rfl | rfl
      · exact h.1
      · exact h.2.1
      · exact h.2.2)
    (fun m hm => by cases hm) (fun m hm => by cases hm)
  exact admits_dec (rayBounds3 o d b) h0 h1 hb.1 hb.2

theorem rayDecision2_eq (o d : V2 K) (b : Box2 K) (h : SlabFinite2 o d b) (h0 : Btw (0 : K)) (h1 : Btw (1 : K))
    (hm1 : Btw (-1 : K)) :
    let r := model2d.rayCollisionWithBounds ⟨g2 o, g2 d⟩ (g2 b.min) (g2 b.max)
    (decide (r.2 ≥ r.1) && decide (r.2 ≥ 0)) = rayAdmits (rayBounds2 o d b) ∧
      (!(decide (r.2 < r.1) || decide (r.2 < 0) || decide (r.1 > 1))) = segAdmits (rayBounds2 o d b) := by
  intro r
  have hr : r = dec (rayBounds2 o d b) := rayBounds2_eq o d b h
  rw [hr]
  have hb := slabLoop_btw h0 hm1
    [⟨o.x, d.x, b.min.x, b.max.x⟩, ⟨o.y, d.y, b.min.y, b.max.y⟩] none none
    (by
      intro a ha
      simp only [List.mem_cons, List.not_mem_nil, or_false] at ha
      rcases ha with rfl | rfl
      · exact h.1
      · exact h.2)
    (fun m hm => by cases hm) (fun m hm => by cases hm)
  exact admits_dec (rayBounds2 o d b) h0 h1 hb.1 hb.2

/-! ## `knnResults.MaxDist` -/

/-- **`knnResults.MaxDist` (regenerated from coord_tree.go) = `knnMaxDist`** with `none ↦ math.Inf(1)`: the
bound `CoordTree.knn` prunes the far half-space with and `Insert` rejects candidates with.  `res` is the model's
list of (distance, point) pairs, `cs` whatever `Coords` holds; `0 < k` (`KNN` returns before for `k = 0`). -/
theorem knnMaxDist3_eq {P : Type} (k : Nat) (hk : 0 < k) (res : List (K × P)) (cs : List (model3d.Coord3D K)) :
    model3d.knnResults_MaxDist ⟨(k : Int), cs, res.map (·.1)⟩ = (knnMaxDist k res).getD I.posInf := by
  unfold model3d.knnResults_MaxDist knnMaxDist
  simp only [List.length_map, Int.ofNat_eq_natCast, Nat.cast_lt, decide_eq_true_eq]
  split_ifs with h
  · rfl
  · have : Int.toNat ((k : Int) - 1) = k - 1 := by omega
    rw [this]
    have hlt : k - 1 < res.length := by omega
    simp [List.getD, List.getElem?_map, List.getElem?_eq_getElem hlt]

theorem knnMaxDist2_eq {P : Type} (k : Nat) (hk : 0 < k) (res : List (K × P)) (cs : List (model2d.Coord K)) :
    model2d.knnResults_MaxDist ⟨(k : Int), cs, res.map (·.1)⟩ = (knnMaxDist k res).getD I.posInf := by
  unfold model2d.knnResults_MaxDist knnMaxDist
  simp only [List.length_map, Int.ofNat_eq_natCast, Nat.cast_lt, decide_eq_true_eq]
  split_ifs with h
  · rfl
  · have : Int.toNat ((k : Int) - 1) = k - 1 := by omega
    rw [this]
    have hlt : k - 1 < res.length := by omega
    simp [List.getD, List.getElem?_map, List.getElem?_eq_getElem hlt]

/-! ## Non-vacuity -/

/-- An instance for the non-vacuity example: `±1000` as the two constants over ℚ. -/
@[reducible] def ratInf : HasInf Rat := ⟨1000, -1000, fun _ => false⟩
attribute [local instance] ratInf

/-- The hypotheses are satisfiable: over ℚ with `±1000` as the two constants, the unit cube and the ray from
`(1/2, 1/2, -1)` in direction `(0, 0, 1/4)` (two zero rates: the `continue` path twice) have finite slab
parameters, and the generated function returns `(4, 8)`. -/
example :
    let o : V3 Rat := ⟨1/2, 1/2, -1⟩
    let d : V3 Rat := ⟨0, 0, 1/4⟩
    let b : Box3 Rat := ⟨⟨0, 0, 0⟩, ⟨1, 1, 1⟩⟩
    SlabFinite3 o d b ∧ Btw (0 : Rat) ∧ Btw (1 : Rat) ∧ Btw (-1 : Rat) ∧
      model3d.rayCollisionWithBounds (α := Rat) ⟨g3 o, g3 d⟩ (g3 b.min) (g3 b.max) = (4, 8) := by
  intro o d b
  refine ⟨⟨?_, ?_, ?_⟩, ?_, ?_, ?_, ?_⟩
  · intro h; exact absurd rfl h
  · intro h; exact absurd rfl h
  · intro _; refine ⟨⟨?_, ?_⟩, ⟨?_, ?_⟩⟩ <;> decide +kernel
  · refine ⟨?_, ?_⟩ <;> decide +kernel
  · refine ⟨?_, ?_⟩ <;> decide +kernel
  · refine ⟨?_, ?_⟩ <;> decide +kernel
  · decide +kernel

end M3d.KernelsTie.Slab
