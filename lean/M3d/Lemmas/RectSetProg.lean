import M3d.Model.RectSetProg
import M3d.Lemmas.RectSetHist
/-! Helper lemmas for C04: a program over `RectSet` objects keeps every object equal to the value of a
history, so the receiver of every `Solid()` call is a history value. -/
namespace M3d.RectSet
set_option linter.unusedSectionVars false
variable {K : Type} [LinearOrder K] [OfNat K 0]

theorem apply_eval (st : Nat → RS K) (hs : Nat → Hist K) (h : ∀ i, st i = (hs i).eval) (c : Cmd K) :
    ∀ i, (c.apply st) i = ((c.applyH hs) i).eval := by
  intro k
  cases c <;> simp only [Cmd.apply, Cmd.applyH, upd] <;> (try split_ifs) <;> simp [Hist.eval, h]

theorem obs_eval (st : Nat → RS K) (hs : Nat → Hist K) (h : ∀ i, st i = (hs i).eval) (c : Cmd K) :
    c.obs st = (c.obsH hs).map Hist.eval := by
  cases c <;> simp [Cmd.obs, Cmd.obsH, h]

theorem progStates_eq (cs : List (Cmd K)) : ∀ (st : Nat → RS K) (hs : Nat → Hist K),
    (∀ i, st i = (hs i).eval) → progStates st cs = (solidCalls hs cs).map Hist.eval := by
  induction cs with
  | nil => intro st hs _; rfl
  | cons c cs ih =>
    intro st hs h
    simp only [progStates, solidCalls, List.map_append]
    rw [obs_eval st hs h c, ih _ _ (apply_eval st hs h c)]

theorem progFinal_eval (cs : List (Cmd K)) : ∀ (st : Nat → RS K) (hs : Nat → Hist K),
    (∀ i, st i = (hs i).eval) → ∀ i, progFinal st cs i = (cs.foldl (fun hs c => c.applyH hs) hs i).eval := by
  induction cs with
  | nil => intro st hs h i; exact h i
  | cons c cs ih =>
    intro st hs h i
    simp only [progFinal, List.foldl_cons]
    exact ih _ _ (apply_eval st hs h c) i

theorem progFinal_filter (cs : List (Cmd K)) : ∀ (st : Nat → RS K),
    progFinal st (cs.filter fun c => !c.isSolid) = progFinal st cs := by
  induction cs with
  | nil => intro st; rfl
  | cons c cs ih =>
    intro st
    cases c <;> simp only [List.filter_cons, Cmd.isSolid, Bool.not_false, Bool.not_true, if_true,
      Bool.false_eq_true, if_false] <;> simp only [progFinal, List.foldl_cons] <;> exact ih _

/-- Later `Solid()` calls see the same objects whether or not earlier `Solid()` calls happened. -/
theorem progStates_append (cs₁ cs₂ : List (Cmd K)) : ∀ (st : Nat → RS K),
    progStates st (cs₁ ++ cs₂) = progStates st cs₁ ++ progStates (progFinal st cs₁) cs₂ := by
  induction cs₁ with
  | nil => intro st; rfl
  | cons c cs ih =>
    intro st
    simp only [List.cons_append, progStates, progFinal, List.foldl_cons, List.append_assoc]
    rw [ih]; rfl

end M3d.RectSet
