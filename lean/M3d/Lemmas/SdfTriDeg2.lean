import M3d.Lemmas.SdfTriDeg
/-!
C06 helper lemmas (continued): the `sqrt`-free edge scan of exact mode is the edge scan of the float run with the
distances squared; a triangle with non-singular `(v1 v2 n)` does not have a NaN normal; leaf evaluation of a mesh
with collapsed slivers.
-/
namespace M3d.Sdf
set_option linter.unusedSectionVars false
set_option linter.unusedVariables false

section field
variable {K : Type} [Field K] [LinearOrder K] [IsStrictOrderedRing K] {β γ : Type}

/-- scanning non-negative distances or their squares makes the same choices -/
theorem scanWith_sq (leaf leaf' : β → Option (K × γ)) (hnn : ∀ f x, leaf f = some x → 0 ≤ x.1)
    (h : ∀ f, leaf' f = (leaf f).map (fun x => (x.1 * x.1, x.2))) (fs : List β) :
    scanWith leaf' fs = (scanWith leaf fs).map (fun x => (x.1 * x.1, x.2)) := by
  unfold scanWith
  have key : ∀ cur : Option (K × γ), (∀ y, cur = some y → 0 ≤ y.1) →
      fs.foldl (scanStep leaf') (cur.map (fun x => (x.1 * x.1, x.2))) =
        (fs.foldl (scanStep leaf) cur).map (fun x => (x.1 * x.1, x.2)) := by
    induction fs with
    | nil => intro cur _; rfl
    | cons f fs ih =>
      intro cur hcur
      simp only [List.foldl_cons]
      have hstep : scanStep leaf' (cur.map (fun x => (x.1 * x.1, x.2))) f =
          (scanStep leaf cur f).map (fun x => (x.1 * x.1, x.2)) := by
        unfold scanStep
        rw [h f]
        cases hl : leaf f with
        | none => rfl
        | some x =>
          have hx := hnn f x hl
          cases cur with
          | none => simp [ltCur]
          | some y =>
            have hy := hcur y rfl
            have hiff : x.1 * x.1 < y.1 * y.1 ↔ x.1 < y.1 := mul_self_lt_mul_self_iff hx hy |>.symm
            simp only [Option.map_some, ltCur]
            by_cases hlt : x.1 < y.1
            · simp [hlt, hiff.mpr hlt]
            · have : ¬ x.1 * x.1 < y.1 * y.1 := fun h' => hlt (hiff.mp h')
              simp [hlt, this]
      rw [hstep]
      apply ih
      intro y hy
      unfold scanStep at hy
      cases hl : leaf f with
      | none => rw [hl] at hy; exact hcur y hy
      | some x =>
        rw [hl] at hy
        dsimp only at hy
        split_ifs at hy
        · cases hy; exact hnn f _ hl
        · exact hcur y hy
  exact key none (by intro y hy; cases hy)

/-- **Exact mode of the collapsed triangle**: the `sqrt`-free edge scan `triEdgeScanQ` (run at `Rat` by the driver)
returns the point of the float-run scan and the square of its distance. -/
theorem triEdgeScanQ_eq {E : Env K} (hE : E.Exact) (t0 t1 t2 c : V3 K) :
    triEdgeScanQ t0 t1 t2 c =
      (scanWith (triEdgeLeafCSkip E c) (triSegments t0 t1 t2)).map (fun x => (x.1 * x.1, x.2)) := by
  unfold triEdgeScanQ
  apply scanWith_sq (triEdgeLeafCSkip E c)
  · intro f x hx
    unfold triEdgeLeafCSkip at hx
    split_ifs at hx
    rw [triEdgeLeafC_eq] at hx
    cases hx
    exact (V3.dist_facts hE _ _).1
  · intro f
    unfold triEdgeLeafCSkip
    by_cases hv : vecEq3 f.1 f.2 = true
    · simp only [hv, if_true, Option.map_none]
    · have hne : f.1 ≠ f.2 := fun he => hv ((vecEq3_iff _ _).mpr he)
      simp only [hv, Bool.false_eq_true, if_false, triEdgeLeafC_eq, Option.map_some]
      rw [(V3.dist_facts hE _ _).2, segClosest3_eq_Q hE _ _ _ (V3.normSq_sub_pos hne)]

/-- a triangle whose matrix `(v1 v2 n)` is non-singular does not have the normal `0 · (1/0)` -/
theorem triNormalNaN_false_of_det (E : Env K) (t0 t1 t2 : V3 K)
    (hdet : (M3.ofColumns (t1.sub t0) (t2.sub t0) (triNormal E t0 t1 t2)).det ≠ 0) :
    triNormalNaN t0 t1 t2 = false := by
  rw [Bool.eq_false_iff]
  intro hn
  apply hdet
  unfold triNormalNaN at hn
  have hz := (vecEq3_iff _ _).mp hn
  have hx : ((t1.sub t0).cross (t2.sub t0)).x = 0 := by rw [hz]; rfl
  have hy : ((t1.sub t0).cross (t2.sub t0)).y = 0 := by rw [hz]; rfl
  have hzz : ((t1.sub t0).cross (t2.sub t0)).z = 0 := by rw [hz]; rfl
  simp only [M3.det, M3.ofColumns, triNormal, V3.normalize, V3.scale, hx, hy, hzz]
  ring

/-- on such a triangle the float-run model is `triClosest` -/
theorem triClosestSkip_of_det (E : Env K) (t0 t1 t2 c : V3 K)
    (hdet : (M3.ofColumns (t1.sub t0) (t2.sub t0) (triNormal E t0 t1 t2)).det ≠ 0) :
    triClosestSkip E t0 t1 t2 c = triClosest E t0 t1 t2 c := by
  unfold triClosestSkip
  rw [triNormalNaN_false_of_det E t0 t1 t2 hdet]
  simp only [Bool.false_eq_true, if_false]
  exact triClosestN_eq E t0 t1 t2 c

/-- leaf evaluation of the 3-D `meshDistFunc.Dist` as the float run behaves on a mesh that may contain collapsed
triangles: `root.Closest(c)` is `triClosestSkip`, a point, and its distance is a number -/
def meshLeafSkip (E : Env K) (c : V3 K) (f : Tri K × Nat) : Option (K × V3 K × Nat) :=
  some ((triClosestSkip E f.1.a f.1.b f.1.c c).dist E c, triClosestSkip E f.1.a f.1.b f.1.c c, f.2)

end field
end M3d.Sdf
