import M3d.Gen.Kernels
import M3d.Model.Bounded
import Mathlib.Tactic.Ring
import Mathlib.Tactic.SplitIfs
import Mathlib.Tactic.Tauto
import Mathlib.Algebra.Order.Field.Basic
/-!
# Tie between the REGENERATED kernels and the primitive leaves of C03 (`M3d/Model/Bounded.lean`)

The reported bounds of the primitives (`Sphere/Capsule/Cylinder/Cone/Torus` `Min()/Max()`, with
`circleAxisBound` and its variable array index), `Rect.Contains`, `Sphere.Contains` and
`LinearConstraint.Contains` as the Go source defines them NOW are the boxes and membership tests that the
leaves of the C03 expression trees use (`sphereS`, `capsuleBox`, `cylinderBox`, `coneBox`, `torusBox`, `inB`,
`sphereContainsSqrt`, `polyContains`), for every linear ordered field, every `sqrt` and with `eps` the literal
`1e-8` of the source.
-/
namespace M3d.KernelsTie.Bounded
open M3d.Bd M3d.Gen.Kernels
set_option linter.unusedSectionVars false
set_option linter.unusedVariables false
set_option linter.unusedSimpArgs false

variable {K : Type} [Field K] [LinearOrder K] [IsStrictOrderedRing K]

@[reducible] def gp (a : Pt K) : model3d.Coord3D K := ⟨a.x, a.y, a.z⟩
@[reducible] def sqrtOf (sq : K → K) : GenPrelude.HasSqrt K := ⟨sq⟩

@[simp] theorem get0 (a : Pt K) : a 0 = a.x := rfl
@[simp] theorem get1 (a : Pt K) : a 1 = a.y := rfl
@[simp] theorem get2 (a : Pt K) : a 2 = a.z := rfl

theorem mn_eq (a b : K) : GenPrelude.mn a b = smin a b := by
  unfold GenPrelude.mn smin
  split_ifs with h1 h2 h2
  · exact absurd h2 (not_le.mpr h1)
  · rfl
  · rfl
  · exact le_antisymm (not_lt.mp h1) (le_of_lt (not_le.mp h2))
theorem mx_eq (a b : K) : GenPrelude.mx a b = smax a b := by
  unfold GenPrelude.mx smax
  split_ifs with h1 h2 h2
  · rfl
  · exact absurd (le_of_lt h1) h2
  · exact (le_antisymm (not_lt.mp h1) h2).symm
  · rfl
theorem absS_eq (a : K) : GenPrelude.absS a = sabs a := by
  unfold GenPrelude.absS sabs
  split_ifs with h1 h2 h2
  · rfl
  · exact absurd (le_of_lt h1) h2
  · have : a = 0 := le_antisymm (not_lt.mp h1) h2
    subst this; simp
  · simp

theorem add_eq (a b : Pt K) : model3d.Coord3D_Add (gp a) (gp b) = gp (padd a b) := rfl
theorem scale_eq (a : Pt K) (s : K) : model3d.Coord3D_Scale (gp a) s = gp (pscale a s) := rfl
theorem addScalar_eq (a : Pt K) (s : K) : model3d.Coord3D_AddScalar (gp a) s = gp (paddS a s) := rfl
theorem dot_eq (a b : Pt K) : model3d.Coord3D_Dot (gp a) (gp b) = pdot a b := rfl
theorem min_eq (a b : Pt K) : model3d.Coord3D_Min (gp a) (gp b) = gp (pmin a b) := by
  simp [model3d.Coord3D_Min, pmin, mk3, mn_eq]
theorem max_eq (a b : Pt K) : model3d.Coord3D_Max (gp a) (gp b) = gp (pmax a b) := by
  simp [model3d.Coord3D_Max, pmax, mk3, mx_eq]
theorem sub_eq (a b : Pt K) : model3d.Coord3D_Sub (gp a) (gp b) = gp (psub a b) := by
  cases a; cases b
  simp [model3d.Coord3D_Sub, model3d.Coord3D_Add, model3d.Coord3D_Scale, psub, mk3]
  try (refine ⟨?_, ?_, ?_⟩ <;> ring)

/-! ## bounds of the primitives -/

theorem sphere_bounds (c : Pt K) (r : K) :
    model3d.Sphere_Min ⟨gp c, r⟩ = gp (sphereS true c r).box.lo ∧
    model3d.Sphere_Max ⟨gp c, r⟩ = gp (sphereS true c r).box.hi := ⟨rfl, rfl⟩

theorem capsule_bounds (p1 p2 : Pt K) (r : K) :
    model3d.Capsule_Min ⟨gp p1, gp p2, r⟩ = gp (capsuleBox p1 p2 r).lo ∧
    model3d.Capsule_Max ⟨gp p1, gp p2, r⟩ = gp (capsuleBox p1 p2 r).hi := by
  constructor
  · simp only [model3d.Capsule_Min, capsuleBox, min_eq, addScalar_eq]
  · simp only [model3d.Capsule_Max, capsuleBox, max_eq, addScalar_eq]

section sq
variable (sq : K → K)

theorem norm_eq (a : Pt K) : (letI := sqrtOf sq; model3d.Coord3D_Norm (gp a)) = pnorm sq a := rfl
theorem normalize_eq (a : Pt K) :
    (letI := sqrtOf sq; model3d.Coord3D_Normalize (gp a)) = gp (pnormalize sq a) := rfl
theorem projectOut_eq (a b : Pt K) :
    (letI := sqrtOf sq; model3d.Coord3D_ProjectOut (gp a) (gp b)) = gp (projectOut sq a b) := by
  unfold model3d.Coord3D_ProjectOut Bd.projectOut
  simp only [normalize_eq, dot_eq, scale_eq, sub_eq]

/-- `circleAxisBound(axis, normal, sign)` for the three axes the callers pass (the variable index
`arr[axis]` is an if-chain in the generated code). -/
theorem circleAxisBound_eq (n : Pt K) (s : K) :
    (letI := sqrtOf sq; model3d.circleAxisBound 0 (gp n) s) = Bd.circleAxisBound sq (1.0e-8 : K) 0 n s ∧
    (letI := sqrtOf sq; model3d.circleAxisBound 1 (gp n) s) = Bd.circleAxisBound sq (1.0e-8 : K) 1 n s ∧
    (letI := sqrtOf sq; model3d.circleAxisBound 2 (gp n) s) = Bd.circleAxisBound sq (1.0e-8 : K) 2 n s := by
  refine ⟨?_, ?_, ?_⟩ <;>
  · unfold model3d.circleAxisBound Bd.circleAxisBound
    simp [model3d.NewCoord3DArray, model3d.Coord3D_Array, unitAx, mk3, absS_eq,
      show (model3d.Coord3D.mk s 0 0 : model3d.Coord3D K) = gp ⟨s, 0, 0⟩ from rfl,
      show (model3d.Coord3D.mk 0 s 0 : model3d.Coord3D K) = gp ⟨0, s, 0⟩ from rfl,
      show (model3d.Coord3D.mk 0 0 s : model3d.Coord3D K) = gp ⟨0, 0, s⟩ from rfl,
      projectOut_eq, norm_eq, scale_eq]

theorem cabVec_eq (n : Pt K) (s : K) :
    (letI := sqrtOf sq;
      (⟨model3d.circleAxisBound 0 (gp n) s, model3d.circleAxisBound 1 (gp n) s,
        model3d.circleAxisBound 2 (gp n) s⟩ : model3d.Coord3D K)) = gp (cabVec sq (1.0e-8 : K) n s) := by
  obtain ⟨h0, h1, h2⟩ := circleAxisBound_eq sq n s
  simp only [cabVec, mk3, gp]
  rw [← h0, ← h1, ← h2]

theorem cylinder_bounds (p1 p2 : Pt K) (r : K) :
    (letI := sqrtOf sq; model3d.Cylinder_Min ⟨gp p1, gp p2, r⟩) = gp (cylinderBox sq (1.0e-8 : K) p1 p2 r).lo ∧
    (letI := sqrtOf sq; model3d.Cylinder_Max ⟨gp p1, gp p2, r⟩) = gp (cylinderBox sq (1.0e-8 : K) p1 p2 r).hi := by
  constructor
  · simp only [model3d.Cylinder_Min, cylinderBox, min_eq, sub_eq, cabVec_eq, scale_eq, add_eq]
  · simp only [model3d.Cylinder_Max, cylinderBox, max_eq, sub_eq, cabVec_eq, scale_eq, add_eq]

theorem cone_bounds (tip base : Pt K) (r : K) :
    (letI := sqrtOf sq; model3d.Cone_Min ⟨gp tip, gp base, r⟩) = gp (coneBox sq (1.0e-8 : K) tip base r).lo ∧
    (letI := sqrtOf sq; model3d.Cone_Max ⟨gp tip, gp base, r⟩) = gp (coneBox sq (1.0e-8 : K) tip base r).hi := by
  constructor
  · simp only [model3d.Cone_Min, coneBox, min_eq, sub_eq, cabVec_eq, scale_eq, add_eq]
  · simp only [model3d.Cone_Max, coneBox, max_eq, sub_eq, cabVec_eq, scale_eq, add_eq]

theorem torus_bounds (center axis : Pt K) (outer inner : K) :
    (letI := sqrtOf sq; model3d.Torus_Min ⟨gp center, gp axis, outer, inner⟩) =
        gp (torusBox sq (1.0e-8 : K) center axis outer inner).lo ∧
    (letI := sqrtOf sq; model3d.Torus_Max ⟨gp center, gp axis, outer, inner⟩) =
        gp (torusBox sq (1.0e-8 : K) center axis outer inner).hi := by
  have hx : model3d.XYZ inner inner inner = gp (mk3 inner inner inner) := rfl
  constructor
  · simp only [model3d.Torus_Min, torusBox, hx, sub_eq, cabVec_eq, scale_eq, add_eq]
  · simp only [model3d.Torus_Max, torusBox, hx, sub_eq, cabVec_eq, scale_eq, add_eq]

end sq

/-! ## membership tests -/

theorem sphere_contains (sq : K → K) (c : Pt K) (r : K) (p : Pt K) :
    (letI := sqrtOf sq; model3d.Sphere_Contains ⟨gp c, r⟩ (gp p)) = sphereContainsSqrt sq true c r p := by
  simp only [model3d.Sphere_Contains, model3d.Coord3D_Dist, sphereContainsSqrt, distSq, get0, get1, get2,
    if_true]
  rfl

theorem feq_mn (c lo : K) : GenPrelude.feq (GenPrelude.mn c lo) lo = decide (lo ≤ c) := by
  unfold GenPrelude.feq GenPrelude.mn
  rcases lt_trichotomy c lo with h | h | h <;> simp [h, lt_asymm, not_le.mpr, le_of_lt, le_refl]

theorem feq_mx (c hi : K) : GenPrelude.feq (GenPrelude.mx c hi) hi = decide (c ≤ hi) := by
  unfold GenPrelude.feq GenPrelude.mx
  rcases lt_trichotomy c hi with h | h | h <;> simp [h, lt_asymm, not_le.mpr, le_of_lt, le_refl]

/-- `Rect.Contains` (`c.Min(MinVal) == MinVal && c.Max(MaxVal) == MaxVal`) is `inB` (the test of `InBounds`
and of every checked wrapper of C03). -/
theorem rect_contains (lo hi p : Pt K) :
    model3d.Rect_Contains ⟨gp lo, gp hi⟩ (gp p) = inB true ⟨lo, hi⟩ p := by
  unfold model3d.Rect_Contains inB axisOk
  simp only [model3d.Coord3D_Min, model3d.Coord3D_Max, feq_mn, feq_mx]
  rw [Bool.eq_iff_iff]
  simp only [Bool.and_eq_true, Bool.or_eq_true, decide_eq_true_eq, Bool.not_true]
  simp only [get0, get1, get2]
  tauto

theorem linear_constraint_contains (n : Pt K) (m : K) (p : Pt K) :
    model3d.LinearConstraint_Contains ⟨gp n, m⟩ (gp p) = decide (pdot p n ≤ m) := rfl

end M3d.KernelsTie.Bounded
