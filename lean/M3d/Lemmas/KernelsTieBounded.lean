import M3d.Gen.Kernels
import M3d.Model.Bounded
import M3d.Model.BoundedPoly
import Mathlib.Tactic.Ring
import Mathlib.Tactic.SplitIfs
import Mathlib.Tactic.Tauto
import Mathlib.Algebra.Order.Field.Basic
/-!
# Tie between the REGENERATED kernels and the primitive leaves of C03 (`M3d/Model/Bounded.lean`)

The reported bounds of the primitives (`Sphere/Capsule/Cylinder/Cone/Torus` `Min()/Max()`, with
`circleAxisBound` and its variable array index), `Rect.Contains`, `Sphere.Contains` and
`LinearConstraint.Contains` as the Go source defines them NOW are the boxes and membership tests that the
leaves of the C03 expression trees use (`sphereS`, `capsuleBox`, `cylinderBox`, `coneBox`, `torusBox`, `inB`,
`sphereContainsSqrt`, `polyContains`), for every linear ordered field, every `sqrt` and with `eps` the literal
`1e-8` of the source.
-/
namespace M3d.KernelsTie.Bounded
open M3d.Bd M3d.Gen.Kernels
set_option linter.unusedSectionVars false
set_option linter.unusedVariables false
set_option linter.unusedSimpArgs false

variable {K : Type} [Field K] [LinearOrder K] [IsStrictOrderedRing K]

@[reducible] def gp (a : Pt K) : model3d.Coord3D K := ⟨a.x, a.y, a.z⟩
@[reducible] def sqrtOf (sq : K → K) : GenPrelude.HasSqrt K := ⟨sq⟩

@[simp] theorem get0 (a : Pt K) : a 0 = a.x := rfl
@[simp] theorem get1 (a : Pt K) : a 1 = a.y := rfl
@[simp] theorem get2 (a : Pt K) : a 2 = a.z := rfl

theorem mn_eq (a b : K) : GenPrelude.mn a b = smin a b := by
  unfold GenPrelude.mn smin
  split_ifs with h1 h2 h2
  · exact absurd h2 (not_le.mpr h1)
  · rfl
  · rfl
  · exact le_antisymm (not_lt.mp h1) (le_of_lt (not_le.mp h2))
theorem mx_eq (a b : K) : GenPrelude.mx a b = smax a b := by
  unfold GenPrelude.mx smax
  split_ifs with h1 h2 h2
  · rfl
  · exact absurd (le_of_lt h1) h2
  · exact (le_antisymm (not_lt.mp h1) h2).symm
  · rfl
theorem absS_eq (a : K) : GenPrelude.absS a = sabs a := by
  unfold GenPrelude.absS sabs
  split_ifs with h1 h2 h2
  · rfl
  · exact absurd (le_of_lt h1) h2
  · have : a = 0 := le_antisymm (not_lt.mp h1) h2
    subst this; simp
  · simp

theorem add_eq (a b : Pt K) : model3d.Coord3D_Add (gp a) (gp b) = gp (padd a b) := rfl
theorem scale_eq (a : Pt K) (s : K) : model3d.Coord3D_Scale (gp a) s = gp (pscale a s) := rfl
theorem addScalar_eq (a : Pt K) (s : K) : model3d.Coord3D_AddScalar (gp a) s = gp (paddS a s) := rfl
theorem dot_eq (a b : Pt K) : model3d.Coord3D_Dot (gp a) (gp b) = pdot a b := rfl
theorem min_eq (a b : Pt K) : model3d.Coord3D_Min (gp a) (gp b) = gp (pmin a b) := by
  simp [model3d.Coord3D_Min, pmin, mk3, mn_eq]
theorem max_eq (a b : Pt K) : model3d.Coord3D_Max (gp a) (gp b) = gp (pmax a b) := by
  simp [model3d.Coord3D_Max, pmax, mk3, mx_eq]
theorem sub_eq (a b : Pt K) : model3d.Coord3D_Sub (gp a) (gp b) = gp (psub a b) := by
  cases a; cases b
  simp [model3d.Coord3D_Sub, model3d.Coord3D_Add, model3d.Coord3D_Scale, psub, mk3]
  try (refine ⟨?_, ?_, ?_⟩ <;> ring)

/-! ## bounds of the primitives -/

theorem sphere_bounds (c : Pt K) (r : K) :
    model3d.Sphere_Min ⟨gp c, r⟩ = gp (sphereS true c r).box.lo ∧
    model3d.Sphere_Max ⟨gp c, r⟩ = gp (sphereS true c r).box.hi := ⟨rfl, rfl⟩

theorem capsule_bounds (p1 p2 : Pt K) (r : K) :
    model3d.Capsule_Min ⟨gp p1, gp p2, r⟩ = gp (capsuleBox p1 p2 r).lo ∧
    model3d.Capsule_Max ⟨gp p1, gp p2, r⟩ = gp (capsuleBox p1 p2 r).hi := by
  constructor
  · simp only [model3d.Capsule_Min, capsuleBox, min_eq, addScalar_eq]
  · simp only [model3d.Capsule_Max, capsuleBox, max_eq, addScalar_eq]

section sq
variable (sq : K → K)

theorem norm_eq (a : Pt K) : (letI := sqrtOf sq; model3d.Coord3D_Norm (gp a)) = pnorm sq a := rfl
theorem normalize_eq (a : Pt K) :
    (letI := sqrtOf sq; model3d.Coord3D_Normalize (gp a)) = gp (pnormalize sq a) := rfl
theorem projectOut_eq (a b : Pt K) :
    (letI := sqrtOf sq; model3d.Coord3D_ProjectOut (gp a) (gp b)) = gp (projectOut sq a b) := by
  unfold model3d.Coord3D_ProjectOut Bd.projectOut
  simp only [normalize_eq, dot_eq, scale_eq, sub_eq]

/-- `circleAxisBound(axis, normal, sign)` for the three axes the callers pass (the variable index
`arr[axis]` is an if-chain in the generated code). -/
theorem circleAxisBound_eq (n : Pt K) (s : K) :
    (letI := sqrtOf sq; model3d.circleAxisBound 0 (gp n) s) = Bd.circleAxisBound sq (1.0e-8 : K) 0 n s ∧
    (letI := sqrtOf sq; model3d.circleAxisBound 1 (gp n) s) = Bd.circleAxisBound sq (1.0e-8 : K) 1 n s ∧
    (letI := sqrtOf sq; model3d.circleAxisBound 2 (gp n) s) = Bd.circleAxisBound sq (1.0e-8 : K) 2 n s := by
  refine ⟨?_, ?_, ?_⟩ <;>
  · unfold model3d.circleAxisBound Bd.circleAxisBound
    simp [model3d.NewCoord3DArray, model3d.Coord3D_Array, unitAx, mk3, absS_eq,
      show (model3d.Coord3D.mk s 0 0 : model3d.Coord3D K) = gp ⟨s, 0, 0⟩ from rfl,
      show (model3d.Coord3D.mk 0 s 0 : model3d.Coord3D K) = gp ⟨0, s, 0⟩ from rfl,
      show (model3d.Coord3D.mk 0 0 s : model3d.Coord3D K) = gp ⟨0, 0, s⟩ from rfl,
      projectOut_eq, norm_eq, scale_eq]

theorem cabVec_eq (n : Pt K) (s : K) :
    (letI := sqrtOf sq;
      (⟨model3d.circleAxisBound 0 (gp n) s, model3d.circleAxisBound 1 (gp n) s,
        model3d.circleAxisBound 2 (gp n) s⟩ : model3d.Coord3D K)) = gp (cabVec sq (1.0e-8 : K) n s) := by
  obtain ⟨h0, h1, h2⟩ := circleAxisBound_eq sq n s
  simp only [cabVec, mk3, gp]
  rw [← h0, ← h1, ← h2]

theorem cylinder_bounds (p1 p2 : Pt K) (r : K) :
    (letI := sqrtOf sq; model3d.Cylinder_Min ⟨gp p1, gp p2, r⟩) = gp (cylinderBox sq (1.0e-8 : K) p1 p2 r).lo ∧
    (letI := sqrtOf sq; model3d.Cylinder_Max ⟨gp p1, gp p2, r⟩) = gp (cylinderBox sq (1.0e-8 : K) p1 p2 r).hi := by
  constructor
  · simp only [model3d.Cylinder_Min, cylinderBox, min_eq, sub_eq, cabVec_eq, scale_eq, add_eq]
  · simp only [model3d.Cylinder_Max, cylinderBox, max_eq, sub_eq, cabVec_eq, scale_eq, add_eq]

theorem cone_bounds (tip base : Pt K) (r : K) :
    (letI := sqrtOf sq; model3d.Cone_Min ⟨gp tip, gp base, r⟩) = gp (coneBox sq (1.0e-8 : K) tip base r).lo ∧
    (letI := sqrtOf sq; model3d.Cone_Max ⟨gp tip, gp base, r⟩) = gp (coneBox sq (1.0e-8 : K) tip base r).hi := by
  constructor
  · simp only [model3d.Cone_Min, coneBox, min_eq, sub_eq, cabVec_eq, scale_eq, add_eq]
  · simp only [model3d.Cone_Max, coneBox, max_eq, sub_eq, cabVec_eq, scale_eq, add_eq]

theorem torus_bounds (center axis : Pt K) (outer inner : K) :
    (letI := sqrtOf sq; model3d.Torus_Min ⟨gp center, gp axis, outer, inner⟩) =
        gp (torusBox sq (1.0e-8 : K) center axis outer inner).lo ∧
    (letI := sqrtOf sq; model3d.Torus_Max ⟨gp center, gp axis, outer, inner⟩) =
        gp (torusBox sq (1.0e-8 : K) center axis outer inner).hi := by
  have hx : model3d.XYZ inner inner inner = gp (mk3 inner inner inner) := rfl
  constructor
  · simp only [model3d.Torus_Min, torusBox, hx, sub_eq, cabVec_eq, scale_eq, add_eq]
  · simp only [model3d.Torus_Max, torusBox, hx, sub_eq, cabVec_eq, scale_eq, add_eq]

end sq

/-! ## membership tests -/

theorem sphere_contains (sq : K → K) (c : Pt K) (r : K) (p : Pt K) :
    (letI := sqrtOf sq; model3d.Sphere_Contains ⟨gp c, r⟩ (gp p)) = sphereContainsSqrt sq true c r p := by
  simp only [model3d.Sphere_Contains, model3d.Coord3D_Dist, sphereContainsSqrt, distSq, get0, get1, get2,
    if_true]
  rfl

theorem feq_mn (c lo : K) : GenPrelude.feq (GenPrelude.mn c lo) lo = decide (lo ≤ c) := by
  unfold GenPrelude.feq GenPrelude.mn
  rcases lt_trichotomy c lo with h | h | h <;> simp [h, lt_asymm, not_le.mpr, le_of_lt, le_refl]

theorem feq_mx (c hi : K) : GenPrelude.feq (GenPrelude.mx c hi) hi = decide (c ≤ hi) := by
  unfold GenPrelude.feq GenPrelude.mx
  rcases lt_trichotomy c hi with h | h | h <;> simp [h, lt_asymm, not_le.mpr, le_of_lt, le_refl]

/-- `Rect.Contains` (`c.Min(MinVal) == MinVal && c.Max(MaxVal) == MaxVal`) is `inB` (the test of `InBounds`
and of every checked wrapper of C03). -/
theorem rect_contains (lo hi p : Pt K) :
    model3d.Rect_Contains ⟨gp lo, gp hi⟩ (gp p) = inB true ⟨lo, hi⟩ p := by
  unfold model3d.Rect_Contains inB axisOk
  simp only [model3d.Coord3D_Min, model3d.Coord3D_Max, feq_mn, feq_mx]
  rw [Bool.eq_iff_iff]
  simp only [Bool.and_eq_true, Bool.or_eq_true, decide_eq_true_eq, Bool.not_true]
  simp only [get0, get1, get2]
  tauto

theorem linear_constraint_contains (n : Pt K) (m : K) (p : Pt K) :
    model3d.LinearConstraint_Contains ⟨gp n, m⟩ (gp p) = decide (pdot p n ≤ m) := rfl

/-! ## the linear algebra of `ConvexPolytope.vertex` (3-D): `Matrix3.Det`, `Matrix3.MulColumnInv`

`vertex` builds `Matrix3{l1.Normal.X, l1.Normal.Y, l1.Normal.Z, l2.Normal…, l3.Normal…}` (rows = normals);
the model's `det3` / `mulColInv3` (`M3d/Model/BoundedPoly.lean`) are the regenerated `Det` / `MulColumnInv`
of that matrix, operation for operation (`rfl`). -/

@[reducible] def rows3 (a b c : Pt K) : model3d.Matrix3 K := ⟨a.x, a.y, a.z, b.x, b.y, b.z, c.x, c.y, c.z⟩

theorem matrix3_det (a b c : Pt K) : model3d.Matrix3_Det (rows3 a b c) = det3 a b c := rfl

theorem matrix3_mulColumnInv (a b c mx : Pt K) (det : K) :
    model3d.Matrix3_MulColumnInv (rows3 a b c) (gp mx) det = gp (mulColInv3 a b c mx det) := rfl

/-! ## the 2-D twins (`model2d`): `Coord`, `Circle`, `Capsule`, `Rect`, `LinearConstraint`, `Matrix2`

A 2-D coordinate is a `Pt` whose third slot is unused (`gp2` drops it); the 2-D solids of the C03 trees are
the `d3 = false` instances of the same model definitions. -/

@[reducible] def gp2 (a : Pt K) : model2d.Coord K := ⟨a.x, a.y⟩

theorem min2_eq (a b : Pt K) : model2d.Coord_Min (gp2 a) (gp2 b) = gp2 (pmin a b) := by
  simp [model2d.Coord_Min, pmin, mk3, mn_eq]
theorem max2_eq (a b : Pt K) : model2d.Coord_Max (gp2 a) (gp2 b) = gp2 (pmax a b) := by
  simp [model2d.Coord_Max, pmax, mk3, mx_eq]
theorem addScalar2_eq (a : Pt K) (s : K) : model2d.Coord_AddScalar (gp2 a) s = gp2 (paddS a s) := rfl

/-- `Circle.Min()/Max()` are the X/Y part of the box of `sphereS false`. -/
theorem circle_bounds (c : Pt K) (r : K) :
    model2d.Circle_Min ⟨gp2 c, r⟩ = gp2 (sphereS false c r).box.lo ∧
    model2d.Circle_Max ⟨gp2 c, r⟩ = gp2 (sphereS false c r).box.hi := ⟨rfl, rfl⟩

/-- `model2d.Capsule.Min()/Max()` are the X/Y part of `capsuleBox`. -/
theorem capsule2_bounds (p1 p2 : Pt K) (r : K) :
    model2d.Capsule_Min ⟨gp2 p1, gp2 p2, r⟩ = gp2 (capsuleBox p1 p2 r).lo ∧
    model2d.Capsule_Max ⟨gp2 p1, gp2 p2, r⟩ = gp2 (capsuleBox p1 p2 r).hi := by
  constructor
  · simp only [model2d.Capsule_Min, capsuleBox, min2_eq, addScalar2_eq]
  · simp only [model2d.Capsule_Max, capsuleBox, max2_eq, addScalar2_eq]

/-- `Circle.Contains` (`coord.Dist(center) <= radius`) is `sphereContainsSqrt … false`. -/
theorem circle_contains (sq : K → K) (c : Pt K) (r : K) (p : Pt K) :
    (letI := sqrtOf sq; model2d.Circle_Contains ⟨gp2 c, r⟩ (gp2 p)) = sphereContainsSqrt sq false c r p := by
  simp only [model2d.Circle_Contains, model2d.Coord_Dist, sphereContainsSqrt, distSq, get0, get1, get2]
  rfl

/-- `model2d.Rect.Contains` is `inB false` (the 2-D `InBounds` and the test of every checked 2-D wrapper). -/
theorem rect2_contains (lo hi p : Pt K) :
    model2d.Rect_Contains ⟨gp2 lo, gp2 hi⟩ (gp2 p) = inB false ⟨lo, hi⟩ p := by
  unfold model2d.Rect_Contains inB axisOk
  simp only [model2d.Coord_Min, model2d.Coord_Max, feq_mn, feq_mx]
  rw [Bool.eq_iff_iff]
  simp only [Bool.and_eq_true, Bool.or_eq_true, decide_eq_true_eq, Bool.not_false]
  simp only [get0, get1, get2]
  tauto

/-- `model2d.LinearConstraint.Contains` is the half-space test of `polyContains` on points and normals
whose unused third slot is zero. -/
theorem linear_constraint2_contains (n : Pt K) (m : K) (p : Pt K) (hz : p.z = 0) :
    model2d.LinearConstraint_Contains ⟨gp2 n, m⟩ (gp2 p) = decide (pdot p n ≤ m) := by
  have : pdot p n = p.x * n.x + p.y * n.y := by
    show p.x * n.x + p.y * n.y + p.z * n.z = _
    rw [hz]; ring
  simp only [model2d.LinearConstraint_Contains, model2d.Coord_Dot, this]
  rfl

@[reducible] def rows2 (a b : Pt K) : model2d.Matrix2 K := ⟨a.x, a.y, b.x, b.y⟩

theorem matrix2_det (a b : Pt K) : model2d.Matrix2_Det (rows2 a b) = det2 a b := rfl

theorem matrix2_mulColumnInv (a b mx : Pt K) (det : K) :
    model2d.Matrix2_MulColumnInv (rows2 a b) (gp2 mx) det = gp2 (mulColInv2 a b mx det) := rfl

/-- `Coord.Norm()` of a 2-D normal is `pnorm` of the point with a zero third slot (the `rawArea` and the
acceptance test of the 2-D `vertex`). -/
theorem norm2_eq (sq : K → K) (a : Pt K) (hz : a.z = 0) :
    (letI := sqrtOf sq; model2d.Coord_Norm (gp2 a)) = pnorm sq a := by
  show sq (a.x * a.x + a.y * a.y) = sq (a.x * a.x + a.y * a.y + a.z * a.z)
  rw [hz]; congr 1; ring

end M3d.KernelsTie.Bounded
