import M3d.Lemmas.CodecBytes
import M3d.Model.CodecPly
/-! PLY: value, row and stream round trips (binary both byte orders, ASCII), writer/reader state machines. -/
namespace M3d.Codec

/-- the bit pattern fits the kind's width -/
def Scalar.WF (s : Scalar) : Prop := s.bits < 256 ^ s.kind.size

/-- a row value conforms to the property it is written for -/
def ValOK (p : PProp) : PVal → Prop
  | .one s => p.lenType = none ∧ s.kind = p.elemType.kind ∧ s.WF
  | .list l vs => ∃ lt, p.lenType = some lt ∧ l.kind = lt.kind ∧ l.WF ∧
      lengthValue l = some (vs.length : Int) ∧ ∀ v ∈ vs, v.kind = p.elemType.kind ∧ v.WF

/-- a row conforms to the element's property list -/
inductive RowOK : List PProp → List PVal → Prop
  | nil : RowOK [] []
  | cons {p v ps row} : ValOK p v → RowOK ps row → RowOK (p :: ps) (v :: row)

theorem Kind.size_pos (k : Kind) : 0 < k.size := by cases k <;> decide

theorem scalarBytes_length (e : Endian) (s : Scalar) : (scalarBytes e s).length = s.kind.size :=
  putUint_length _ _ _

/-! ## binary -/

theorem readScalarBin_bytes (e : Endian) (s : Scalar) (h : s.WF) (rest : Bytes) :
    readScalarBin e s.kind (scalarBytes e s ++ rest) = .ok (s, rest) := by
  have hl := scalarBytes_length e s
  have hp := Kind.size_pos s.kind
  unfold readScalarBin
  have hne : (scalarBytes e s ++ rest).isEmpty = false := by
    cases hb : scalarBytes e s with
    | nil => rw [hb] at hl; simp at hl; omega
    | cons a b => rfl
  have hge : ¬ (scalarBytes e s ++ rest).length < s.kind.size := by simp [hl]
  simp only [hne, hge, Bool.false_eq_true, if_false]
  rw [List.take_left' hl, List.drop_left' hl]
  unfold scalarBytes
  rw [getUint_putUint e h]

theorem readScalarsBin_bytes (e : Endian) (k : Kind) (vs : List Scalar)
    (h : ∀ v ∈ vs, v.kind = k ∧ v.WF) (rest : Bytes) :
    readScalarsBin e k vs.length (vs.flatMap (scalarBytes e) ++ rest) = .ok (vs, rest) := by
  induction vs with
  | nil => rfl
  | cons v vs ih =>
    have hv := h v List.mem_cons_self
    simp only [List.length_cons, List.flatMap_cons, List.append_assoc, readScalarsBin]
    rw [← hv.1, readScalarBin_bytes e v hv.2]
    simp only
    rw [hv.1, ih (fun x hx => h x (List.mem_cons_of_mem _ hx))]

theorem rowBinary_cons (e : Endian) (v : PVal) (row : List PVal) :
    rowBinary e (v :: row) = rowBinary e [v] ++ rowBinary e row := by
  simp [rowBinary]

theorem rowBinary_one (e : Endian) (s : Scalar) : rowBinary e [.one s] = scalarBytes e s := by
  simp [rowBinary]

theorem rowBinary_list (e : Endian) (l : Scalar) (vs : List Scalar) :
    rowBinary e [.list l vs] = scalarBytes e l ++ vs.flatMap (scalarBytes e) := by
  simp [rowBinary]

/-- **binary row round trip** (little and big endian, scalars and lists). -/
theorem decodeBinary_row (e : Endian) (ps : List PProp) (row : List PVal) (h : RowOK ps row) (rest : Bytes) :
    ∃ a, decodeBinary e ps (rowBinary e row ++ rest) = .ok (row, rest, a) := by
  induction h with
  | nil => exact ⟨0, rfl⟩
  | @cons p v ps row hv _ ih =>
    obtain ⟨a, ih⟩ := ih
    rw [rowBinary_cons, List.append_assoc]
    cases v with
    | one s =>
      obtain ⟨hl, hk, hw⟩ := hv
      refine ⟨a, ?_⟩
      unfold decodeBinary
      simp only [hl, rowBinary_one]
      rw [← hk, readScalarBin_bytes e s hw]
      simp only [ih]
    | list l vs =>
      obtain ⟨lt, hl, hk, hw, hlen, hvs⟩ := hv
      refine ⟨a + 16 * min vs.length plyMaxPrealloc, ?_⟩
      unfold decodeBinary
      simp only [hl, rowBinary_list, List.append_assoc]
      rw [← hk, readScalarBin_bytes e l hw]
      simp only [hlen]
      have : ¬ ((vs.length : Int) < 0) := by omega
      simp only [this, if_false, Int.toNat_natCast]
      rw [readScalarsBin_bytes e p.elemType.kind vs hvs]
      simp only [ih]


/-! ## text: tokens, lines, fields -/

/-- a byte that is neither ASCII white space nor the lead byte of a multi-byte white-space rune -/
def safeByte (b : UInt8) : Bool :=
  !isAsciiSpace b && b != 0xC2 && b != 0xE1 && b != 0xE2 && b != 0xE3

/-- a token: non-empty, made of safe bytes (all number text and all 7-bit names are) -/
def IsToken (t : Bytes) : Prop := t ≠ [] ∧ ∀ b ∈ t, safeByte b = true

theorem spaceWidth_safe (b : UInt8) (rest : Bytes) (h : safeByte b = true) : spaceWidth (b :: rest) = 0 := by
  unfold safeByte at h
  simp only [Bool.and_eq_true, Bool.not_eq_true', bne_iff_ne, ne_eq] at h
  obtain ⟨⟨⟨⟨h1, h2⟩, h3⟩, h4⟩, h5⟩ := h
  simp [spaceWidth, h1, h2, h3, h4, h5]

theorem spaceWidth_SP (rest : Bytes) : spaceWidth (SP :: rest) = 1 := by
  simp [spaceWidth, isAsciiSpace, SP]

theorem spaceWidth_NL (rest : Bytes) : spaceWidth (NL :: rest) = 1 := by
  simp [spaceWidth, isAsciiSpace, NL]

theorem fieldsAux_token (tok rest cur : Bytes) (h : ∀ b ∈ tok, safeByte b = true) (fuel : Nat) :
    fieldsAux (tok.length + fuel) (tok ++ rest) cur = fieldsAux fuel rest (tok.reverse ++ cur) := by
  induction tok generalizing cur with
  | nil => simp
  | cons b t ih =>
    have hb := h b List.mem_cons_self
    have : (b :: t).length + fuel = (t.length + fuel) + 1 := by simp; omega
    rw [this]
    simp only [List.cons_append, fieldsAux, spaceWidth_safe b _ hb, if_true]
    rw [ih (b :: cur) (fun x hx => h x (List.mem_cons_of_mem _ hx))]
    simp

theorem fieldsAux_sep (s : UInt8) (hs : spaceWidth [s] = 1 ∧ ∀ r, spaceWidth (s :: r) = 1) (rest cur : Bytes) (fuel : Nat) :
    fieldsAux (fuel + 1) (s :: rest) cur =
      (if cur.isEmpty then fieldsAux fuel rest [] else cur.reverse :: fieldsAux fuel rest []) := by
  simp [fieldsAux, hs.2 rest]

theorem joinWith_cons2 (sep a b : Bytes) (ts : List Bytes) :
    joinWith sep (a :: b :: ts) = a ++ sep ++ joinWith sep (b :: ts) := rfl

theorem line_length_cons2 (a b : Bytes) (ts : List Bytes) :
    (line (a :: b :: ts)).length = a.length + 1 + (line (b :: ts)).length := by
  simp [line, joinWith_cons2]; omega

/-- `strings.Fields` of a line assembled from tokens returns the tokens. -/
theorem fieldsAux_line (toks : List Bytes) (h : ∀ t ∈ toks, IsToken t) (fuel : Nat)
    (hf : (line toks).length ≤ fuel) : fieldsAux fuel (line toks) [] = toks := by
  induction toks generalizing fuel with
  | nil =>
    simp only [line, joinWith, List.nil_append] at hf ⊢
    obtain ⟨f, rfl⟩ : ∃ f, fuel = f + 1 := ⟨fuel - 1, by simp at hf; omega⟩
    rw [fieldsAux_sep NL ⟨spaceWidth_NL [], spaceWidth_NL⟩]
    cases f <;> simp [fieldsAux]
  | cons t ts ih =>
    have ht := h t List.mem_cons_self
    cases ts with
    | nil =>
      simp only [line, joinWith] at hf ⊢
      obtain ⟨f, rfl⟩ : ∃ f, fuel = t.length + (f + 1) := ⟨fuel - t.length - 1, by simp at hf; omega⟩
      rw [fieldsAux_token t _ _ ht.2, fieldsAux_sep NL ⟨spaceWidth_NL [], spaceWidth_NL⟩]
      have : (t.reverse ++ []).isEmpty = false := by
        cases t with
        | nil => exact absurd rfl ht.1
        | cons a b => simp
      simp only [this, Bool.false_eq_true, if_false]
      cases f <;> simp [fieldsAux]
    | cons t' ts' =>
      have hl := line_length_cons2 t t' ts'
      obtain ⟨f, rfl⟩ : ∃ f, fuel = t.length + (f + 1) := ⟨fuel - t.length - 1, by omega⟩
      have hline : line (t :: t' :: ts') = t ++ (SP :: line (t' :: ts')) := by
        simp [line, joinWith_cons2]
      rw [hline, fieldsAux_token t _ _ ht.2, fieldsAux_sep SP ⟨spaceWidth_SP [], spaceWidth_SP⟩]
      have : t.reverse.isEmpty = false := by
        cases t with
        | nil => exact absurd rfl ht.1
        | cons a b => simp
      simp only [List.append_nil, this, Bool.false_eq_true, if_false, List.reverse_reverse]
      rw [ih (fun x hx => h x (List.mem_cons_of_mem _ hx)) f (by omega)]

theorem fields_line (toks : List Bytes) (h : ∀ t ∈ toks, IsToken t) : fields (line toks) = toks :=
  fieldsAux_line toks h _ (Nat.le_refl _)

theorem safeByte_ne_NL {b : UInt8} (h : safeByte b = true) : b ≠ NL := by
  intro hb; subst hb; revert h; decide

theorem joinWith_no_NL (toks : List Bytes) (h : ∀ t ∈ toks, IsToken t) : ∀ b ∈ joinWith [SP] toks, b ≠ NL := by
  induction toks with
  | nil => simp [joinWith]
  | cons t ts ih =>
    cases ts with
    | nil =>
      intro b hb
      exact safeByte_ne_NL ((h t List.mem_cons_self).2 b (by simpa [joinWith] using hb))
    | cons t' ts' =>
      intro b hb
      rw [joinWith_cons2] at hb
      simp only [List.append_assoc, List.mem_append, List.mem_singleton] at hb
      rcases hb with hb | hb | hb
      · exact safeByte_ne_NL ((h t List.mem_cons_self).2 b hb)
      · subst hb; decide
      · exact ih (fun x hx => h x (List.mem_cons_of_mem _ hx)) b hb

theorem readLine_noNL (l rest : Bytes) (h : ∀ b ∈ l, b ≠ NL) :
    readLine (l ++ NL :: rest) = (l ++ [NL], rest, true) := by
  induction l with
  | nil => simp [readLine]
  | cons b l ih =>
    have hb : b ≠ NL := h b List.mem_cons_self
    simp only [List.cons_append, readLine, hb, if_false]
    rw [ih (fun x hx => h x (List.mem_cons_of_mem _ hx))]

/-- `ReadString('\n')` on a token line followed by anything returns exactly that line. -/
theorem readLine_line (toks : List Bytes) (h : ∀ t ∈ toks, IsToken t) (rest : Bytes) :
    readLine (line toks ++ rest) = (line toks, rest, true) := by
  unfold line
  rw [List.append_assoc]
  exact readLine_noNL _ _ (joinWith_no_NL toks h)


/-! ## ASCII rows -/

/-- What the round-trip theorems need from decimal text (Go's `strconv` for floats, the modelled
integer text for the rest): parsing the text of a value gives the value back, and the text is a
token that is not the word `comment`.  Checked pointwise by the harness for floats. -/
structure TextOK (ft : FloatText) : Prop where
  parse_text : ∀ s : Scalar, s.WF → parseScalar ft s.kind (scalarText ft s) = some s
  token : ∀ s : Scalar, s.WF → IsToken (scalarText ft s)
  not_comment : ∀ s : Scalar, s.WF → scalarText ft s ≠ tokComment

theorem mapM_parse_text {ft : FloatText} (hft : TextOK ft) (k : Kind) (vs : List Scalar)
    (h : ∀ v ∈ vs, v.kind = k ∧ v.WF) :
    (vs.map (scalarText ft)).mapM (parseScalar ft k) = some vs := by
  induction vs with
  | nil => rfl
  | cons v vs ih =>
    have hv := h v List.mem_cons_self
    simp only [List.map_cons, List.mapM_cons]
    rw [← hv.1, hft.parse_text v hv.2]
    rw [hv.1, ih (fun x hx => h x (List.mem_cons_of_mem _ hx))]
    rfl

theorem rowTokens_cons (ft : FloatText) (v : PVal) (row : List PVal) :
    rowTokens ft (v :: row) = rowTokens ft [v] ++ rowTokens ft row := by
  simp [rowTokens]

theorem rowTokens_one (ft : FloatText) (s : Scalar) : rowTokens ft [.one s] = [scalarText ft s] := by
  simp [rowTokens]

theorem rowTokens_list (ft : FloatText) (l : Scalar) (vs : List Scalar) :
    rowTokens ft [.list l vs] = scalarText ft l :: vs.map (scalarText ft) := by
  simp [rowTokens]

/-- **ASCII row round trip** at the token level. -/
theorem decodeTokens_row {ft : FloatText} (hft : TextOK ft) (ps : List PProp) (row : List PVal)
    (h : RowOK ps row) (rest : List Bytes) :
    ∃ a, decodeTokens ft ps (rowTokens ft row ++ rest) = .ok (row, rest, a) := by
  induction h with
  | nil => exact ⟨0, rfl⟩
  | @cons p v ps row hv _ ih =>
    obtain ⟨a, ih⟩ := ih
    rw [rowTokens_cons, List.append_assoc]
    cases v with
    | one s =>
      obtain ⟨hl, hk, hw⟩ := hv
      refine ⟨a, ?_⟩
      unfold decodeTokens
      simp only [hl, rowTokens_one, List.cons_append, List.nil_append]
      rw [← hk, hft.parse_text s hw]
      simp only [ih]
    | list l vs =>
      obtain ⟨lt, hl, hk, hw, hlen, hvs⟩ := hv
      refine ⟨a + 16 * min vs.length plyMaxPrealloc, ?_⟩
      unfold decodeTokens
      simp only [hl, rowTokens_list, List.cons_append]
      rw [← hk, hft.parse_text l hw]
      simp only [hlen]
      have h0 : ¬ ((vs.length : Int) < 0) := by omega
      have h1 : ¬ ((vs.map (scalarText ft) ++ (rowTokens ft row ++ rest)).length < vs.length) := by simp
      have h2 : (vs.map (scalarText ft)).length = vs.length := by simp
      simp only [h0, if_false, Int.toNat_natCast, h1]
      rw [List.take_left' h2, List.drop_left' h2, mapM_parse_text hft _ vs hvs]
      simp only [ih]

theorem rowTokens_token {ft : FloatText} (hft : TextOK ft) (ps : List PProp) (row : List PVal)
    (h : RowOK ps row) : ∀ t ∈ rowTokens ft row, IsToken t ∧ t ≠ tokComment := by
  induction h with
  | nil => simp [rowTokens]
  | @cons p v ps row hv _ ih =>
    intro t ht
    rw [rowTokens_cons, List.mem_append] at ht
    rcases ht with ht | ht
    · cases v with
      | one s =>
        rw [rowTokens_one, List.mem_singleton] at ht
        subst ht
        exact ⟨hft.token s hv.2.2, hft.not_comment s hv.2.2⟩
      | list l vs =>
        obtain ⟨lt, _, _, hw, _, hvs⟩ := hv
        rw [rowTokens_list, List.mem_cons, List.mem_map] at ht
        rcases ht with ht | ⟨x, hx, ht⟩
        · subst ht; exact ⟨hft.token l hw, hft.not_comment l hw⟩
        · subst ht; exact ⟨hft.token x (hvs x hx).2, hft.not_comment x (hvs x hx).2⟩
    · exact ih t ht

/-- **ASCII row round trip**: `PLYReader.Read` on the line `PLYWriter.Write` produced. -/
theorem readRowAscii_row {ft : FloatText} (hft : TextOK ft) (el : Element) (row : List PVal)
    (h : RowOK el.props row) (rest : Bytes) :
    ∃ a, readRowAscii ft el (line (rowTokens ft row) ++ rest) = .ok (row, rest, a) := by
  have htok := rowTokens_token hft el.props row h
  have hl := readLine_line (rowTokens ft row) (fun t ht => (htok t ht).1) rest
  have hf := fields_line (rowTokens ft row) (fun t ht => (htok t ht).1)
  obtain ⟨a, hd⟩ := decodeTokens_row hft el.props row h []
  rw [List.append_nil] at hd
  refine ⟨a, ?_⟩
  have hc : ¬ ((rowTokens ft row).head? = some tokComment) := by
    intro hc
    cases hr : rowTokens ft row with
    | nil => rw [hr] at hc; simp at hc
    | cons t ts =>
      rw [hr] at hc
      simp at hc
      exact (htok t (by rw [hr]; exact List.mem_cons_self)).2 hc
  unfold readRowAscii
  simp only [hl, Bool.not_true, Bool.false_and, Bool.false_eq_true, if_false, hf, hc, dite_false, hd]

/-- one row in the file's format -/
theorem readRow_row {ft : FloatText} (f : Format) (hft : f = .text → TextOK ft) (el : Element)
    (row : List PVal) (h : RowOK el.props row) (rest : Bytes) :
    ∃ a, readRow ft f el (encodeRow ft f row ++ rest) = .ok (row, rest, a) := by
  cases f with
  | text => exact readRowAscii_row (hft rfl) el row h rest
  | bin e => exact decodeBinary_row e el.props row h rest


/-! ## whole streams -/

/-- a conforming value sequence, grouped by element: element `el` gets exactly `max el.count 0`
rows, each conforming to its properties (so an element declared with count 0 — or a negative
count — gets none). -/
def SeqOK : List Element → List (List (List PVal)) → Prop
  | [], [] => True
  | el :: els, rs :: rss => rs.length = el.count.toNat ∧ (∀ r ∈ rs, RowOK el.props r) ∧ SeqOK els rss
  | _, _ => False

/-- what the reader returns for it: every row tagged with the index of its element, in file order -/
def indexed : Nat → List (List (List PVal)) → List (Nat × List PVal)
  | _, [] => []
  | i, rs :: rss => rs.map (fun r => (i, r)) ++ indexed (i + 1) rss

theorem RowOK.length_eq {ps : List PProp} {row : List PVal} (h : RowOK ps row) : row.length = ps.length := by
  induction h with
  | nil => rfl
  | cons _ _ ih => simp [ih]

/-- writer: an exhausted current element is skipped -/
theorem writeRows_skip (ft : FloatText) (f : Format) (el : Element) (els : List Element) (w : Int)
    (h : w ≥ el.count) (later : List (List PVal)) :
    writeRows ft f (el :: els) w later = writeRows ft f els 0 later := by
  cases later with
  | nil => simp [writeRows, isDone, h]
  | cons r rs =>
    rw [writeRows, writeRows]
    simp [nextElement, h]

/-- writer: the rows of the current element -/
theorem writeRows_elem (ft : FloatText) (f : Format) (el : Element) (els : List Element)
    (rs : List (List PVal)) (hrs : ∀ r ∈ rs, RowOK el.props r) (later : List (List PVal)) (w : Int)
    (h0 : 0 ≤ w) (hw : w + rs.length ≤ el.count.toNat) :
    writeRows ft f (el :: els) w (rs ++ later) =
      (writeRows ft f (el :: els) (w + rs.length) later).map
        (fun x => (rs.flatMap (encodeRow ft f) ++ x.1, x.2)) := by
  induction rs generalizing w with
  | nil =>
    simp only [List.nil_append, List.length_nil, Int.natCast_zero, Int.add_zero, List.flatMap_nil]
    cases writeRows ft f (el :: els) w later <;> simp
  | cons r rs ih =>
    have hr := hrs r List.mem_cons_self
    have hlt : ¬ (w ≥ el.count) := by
      simp only [List.length_cons] at hw
      omega
    rw [List.cons_append, writeRows]
    simp only [nextElement, hlt, if_false, hr.length_eq, ne_eq, not_true_eq_false]
    rw [ih (fun x hx => hrs x (List.mem_cons_of_mem _ hx)) (w + 1) (by omega) (by simp only [List.length_cons] at hw; omega)]
    have : w + 1 + (rs.length : Int) = w + ((r :: rs).length : Int) := by simp; omega
    rw [this]
    cases writeRows ft f (el :: els) (w + ((r :: rs).length : Int)) later <;> simp

/-- **writer on a conforming sequence**: never fails, produces the row encodings in order and ends
in the *done* (flushed) state — including when trailing elements have count 0. -/
theorem writeRows_seq (ft : FloatText) (f : Format) (els : List Element) (rss : List (List (List PVal)))
    (h : SeqOK els rss) :
    writeRows ft f els 0 rss.flatten = some (rss.flatten.flatMap (encodeRow ft f), true) := by
  induction els generalizing rss with
  | nil =>
    cases rss with
    | nil => simp [writeRows, isDone]
    | cons _ _ => exact absurd h (by simp [SeqOK])
  | cons el els ih =>
    cases rss with
    | nil => exact absurd h (by simp [SeqOK])
    | cons rs rss =>
      obtain ⟨hlen, hrs, hrest⟩ := h
      rw [List.flatten_cons, writeRows_elem ft f el els rs hrs rss.flatten 0 (Int.le_refl 0) (by omega)]
      rw [writeRows_skip ft f el els _ (by omega), ih rss hrest]
      simp

/-- reader: the rows of one element -/
theorem readElemRows_rows {ft : FloatText} (f : Format) (hft : f = .text → TextOK ft) (idx : Nat)
    (el : Element) (rs : List (List PVal)) (hrs : ∀ r ∈ rs, RowOK el.props r) (rest : Bytes) :
    ∃ a, readElemRows ft f idx el rs.length (rs.flatMap (encodeRow ft f) ++ rest) =
      (⟨rs.map (fun r => (idx, r)), none, a⟩, rest) := by
  induction rs with
  | nil => exact ⟨0, rfl⟩
  | cons r rs ih =>
    obtain ⟨a, ih⟩ := ih (fun x hx => hrs x (List.mem_cons_of_mem _ hx))
    obtain ⟨a1, h1⟩ := readRow_row f hft el r (hrs r List.mem_cons_self) (rs.flatMap (encodeRow ft f) ++ rest)
    refine ⟨a1 + a, ?_⟩
    simp only [List.length_cons, List.flatMap_cons, List.append_assoc, readElemRows, h1, ih,
      ReadAll.cons, List.map_cons]

/-- **reader on what the writer produced** (rows part): every row comes back, tagged with its
element, in order, and the stream ends with `io.EOF`; bytes after the last declared row are not touched. -/
theorem readElems_seq {ft : FloatText} (f : Format) (hft : f = .text → TextOK ft) (els : List Element)
    (rss : List (List (List PVal))) (h : SeqOK els rss) (idx : Nat) (tail : Bytes) :
    (readElems ft f idx els (rss.flatten.flatMap (encodeRow ft f) ++ tail)).rows = indexed idx rss ∧
    (readElems ft f idx els (rss.flatten.flatMap (encodeRow ft f) ++ tail)).err = none := by
  induction els generalizing rss idx with
  | nil =>
    cases rss with
    | nil => simp [readElems, indexed]
    | cons _ _ => exact absurd h (by simp [SeqOK])
  | cons el els ih =>
    cases rss with
    | nil => exact absurd h (by simp [SeqOK])
    | cons rs rss =>
      obtain ⟨hlen, hrs, hrest⟩ := h
      obtain ⟨a, hr⟩ := readElemRows_rows f hft idx el rs hrs (rss.flatten.flatMap (encodeRow ft f) ++ tail)
      have ih' := ih rss hrest (idx + 1)
      rw [List.flatten_cons, List.flatMap_append, List.append_assoc]
      unfold readElems
      rw [← hlen, hr]
      simp only [List.length_map, Nat.lt_irrefl, if_false, indexed, ih'.1, ih'.2, and_self]

end M3d.Codec
