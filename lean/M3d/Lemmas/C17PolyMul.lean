import Mathlib.Tactic.Ring
import Mathlib.Algebra.Order.Field.Basic
import M3d.Model.Numeric
/-!
# `Polynomial.Mul`: the Go double loop `res[i+j] += x*y` (`Poly.mulLoop`) is the sum of shifted rows (`Poly.mul`)
-/
namespace M3d.Num.Poly

variable {K : Type} [Field K]

section Lists
variable {β : Type}

theorem set_append_length (pre : List β) (s v : β) (suf : List β) :
    (pre ++ s :: suf).set pre.length v = pre ++ v :: suf := by
  induction pre with
  | nil => rfl
  | cons a as ih => simp only [List.cons_append, List.length_cons, List.set_cons_succ, ih]

theorem getD_append_length (pre : List β) (s d : β) (suf : List β) :
    (pre ++ s :: suf).getD pre.length d = s := by
  induction pre with
  | nil => rfl
  | cons a as ih => simp [ih]

end Lists

/-- `row` added into `res` slot by slot (the length of `res` is kept). -/
def addInto : List K → List K → List K
  | [], _ => []
  | r :: res, [] => r :: res
  | r :: res, y :: row => (r + y) :: addInto res row

theorem addInto_nil (a : List K) : addInto a [] = a := by cases a <;> rfl

theorem length_addInto (a b : List K) : (addInto a b).length = a.length := by
  induction a generalizing b with
  | nil => rfl
  | cons r a ih => cases b <;> simp [addInto, ih]

theorem addPlain_nil_right (a : List K) : addPlain a [] = a := by cases a <;> rfl

theorem addInto_addInto (a b c : List K) : addInto (addInto a b) c = addInto a (addPlain b c) := by
  induction a generalizing b c with
  | nil => rfl
  | cons r a ih =>
    cases b with
    | nil => simp [addInto, addPlain]
    | cons y b =>
      cases c with
      | nil => simp [addInto, addPlain]
      | cons z c => simp only [addInto, addPlain, ih, add_assoc]

theorem addInto_replicate_zero (l : List K) : addInto (List.replicate l.length (0 : K)) l = l := by
  induction l with
  | nil => rfl
  | cons y l ih => simp only [List.length_cons, List.replicate_succ, addInto, zero_add, ih]

theorem length_addPlain (a b : List K) : (addPlain a b).length = max a.length b.length := by
  induction a generalizing b with
  | nil => simp [addPlain]
  | cons x a ih =>
    cases b with
    | nil => simp [addPlain]
    | cons y b => simp only [addPlain, List.length_cons, ih]; omega

/-- One more row: `mulAux (x :: xs) q = x·q + (0 :: mulAux xs q)` also for the last row (over a ring). -/
theorem mulAux_cons (x : K) (xs : List K) (q0 : K) (q : List K) :
    mulAux (x :: xs) (q0 :: q) = (x * q0) :: addPlain (q.map (x * ·)) (mulAux xs (q0 :: q)) := by
  cases xs with
  | nil => simp [mulAux, addPlain_nil_right]
  | cons a as => simp [mulAux, addPlain]

theorem length_mulAux (p q : List K) (hp : p ≠ []) (hq : q ≠ []) :
    (mulAux p q).length + 1 = p.length + q.length := by
  induction p with
  | nil => exact absurd rfl hp
  | cons x xs ih =>
    match q, hq with
    | q0 :: q, _ =>
      rw [mulAux_cons]
      by_cases hxs : xs = []
      · subst hxs
        simp only [mulAux, addPlain_nil_right, List.length_cons, List.length_map, List.length_nil]
        omega
      · have := ih hxs
        simp only [List.length_cons, length_addPlain, List.length_map] at this ⊢
        omega

/-- The inner loop `for j, y := range p1 { res[i+j] += x*y }` (slots `i+j…` in range). -/
theorem mulRow_eq (x : K) (i : Nat) (ys : List K) (j : Nat) (pre suf : List K)
    (hp : pre.length = i + j) (hl : ys.length ≤ suf.length) :
    mulRow x i ys j (pre ++ suf) = pre ++ addInto suf (ys.map (x * ·)) := by
  induction ys generalizing j pre suf with
  | nil => simp [mulRow, addInto_nil]
  | cons y ys ih =>
    match suf, hl with
    | s :: suf, hl =>
      simp only [mulRow, ← hp, set_append_length, getD_append_length]
      have := ih (j + 1) (pre ++ [s + x * y]) suf (by simp; omega) (by simpa using hl)
      simp only [List.append_assoc, List.cons_append, List.nil_append, ← hp] at this
      simp only [this, List.map_cons, addInto]

/-- The outer loop over the remaining coefficients `ps` of `p` (at position `i`). -/
theorem mulRows_eq (q : List K) (hq : q ≠ []) (ps : List K) (i : Nat) (pre suf : List K)
    (hp : pre.length = i) (hl : suf.length + 1 = ps.length + q.length) :
    mulRows q ps i (pre ++ suf) = pre ++ addInto suf (mulAux ps q) := by
  induction ps generalizing i pre suf with
  | nil => simp [mulRows, mulAux, addInto_nil]
  | cons x ps ih =>
    match q, hq, suf, hl with
    | q0 :: q, _, [], hl => simp only [List.length_cons, List.length_nil] at hl; omega
    | q0 :: q, _, s :: suf, hl =>
      rw [mulRows]
      rw [mulRow_eq x i (q0 :: q) 0 pre (s :: suf) (by simpa using hp) (by simp at hl ⊢; omega)]
      simp only [List.map_cons, addInto]
      have := ih (i + 1) (pre ++ [s + x * q0]) (addInto suf (q.map (x * ·))) (by simp [hp])
        (by simp only [length_addInto, List.length_cons] at hl ⊢; omega)
      simp only [List.append_assoc, List.cons_append, List.nil_append] at this
      rw [this, mulAux_cons, addInto_addInto]
      simp only [addInto]

/-- The Go double loop computes the sum of shifted rows. -/
theorem mulLoop_eq_mul (p q : List K) : mulLoop p q = mul p q := by
  cases p with
  | nil => simp [mulLoop, mul]
  | cons a as =>
    cases q with
    | nil => simp [mulLoop, mul]
    | cons b bs =>
      simp only [mulLoop, mul]
      have hlen := length_mulAux (a :: as) (b :: bs) (by simp) (by simp)
      have hn : (a :: as).length + (b :: bs).length - 1 = (mulAux (a :: as) (b :: bs)).length := by omega
      have := mulRows_eq (b :: bs) (by simp) (a :: as) 0 []
        (List.replicate (mulAux (a :: as) (b :: bs)).length (0 : K)) rfl (by simp; omega)
      simp only [List.nil_append, addInto_replicate_zero] at this
      simp only [hn, Nat.cast_zero, this]

end M3d.Num.Poly
