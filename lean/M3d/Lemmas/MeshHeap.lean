import M3d.Model.MeshHeap
import M3d.Lemmas.Surface
/-!
Lemmas about `M3d.MeshHeap`: operations that write only to cells they allocated leave every
existing object's value unchanged; `EliminateEdges` (deep copy, then in-place collapses on the
copies) is such an operation and computes the value-level loop; a program over objects then
computes what the program over values computes.
-/
namespace M3d.MeshHeap
open M3d.Surface

theorem Stable.refl (h : Heap) : Stable h h := ⟨Nat.le_refl _, fun _ _ => rfl⟩

theorem Stable.trans {h1 h2 h3 : Heap} (a : Stable h1 h2) (b : Stable h2 h3) : Stable h1 h3 :=
  ⟨Nat.le_trans a.1 b.1, fun p hp => by rw [b.2 p (Nat.lt_of_lt_of_le hp a.1), a.2 p hp]⟩

theorem deref_stable {h h' : Heap} (s : Stable h h') {o : Obj} (ho : ∀ p ∈ o, p < h.next) :
    deref h' o = deref h o := by
  unfold deref
  exact List.map_congr_left fun p hp => s.2 p (ho p hp)

theorem WF.stable {h h' : Heap} {o : Obj} (w : WF h o) (s : Stable h h') : WF h' o :=
  ⟨w.1, fun p hp => Nat.lt_of_lt_of_le (w.2 p hp) s.1⟩

theorem WF.nil (h : Heap) : WF h [] := ⟨List.nodup_nil, by simp⟩

@[simp] theorem deref_nil (h : Heap) : deref h [] = [] := rfl

/-! ### `deepCopy` -/

theorem deepCopy_fold (o : Obj) : ∀ (h : Heap) (acc : Obj), (∀ p ∈ o, p < h.next) →
    let r := o.foldl (fun (s : Heap × Obj) p => let r := s.1.alloc (s.1.cell p); (r.1, s.2 ++ [r.2])) (h, acc)
    Stable h r.1 ∧ r.1.next = h.next + o.length ∧ r.2 = acc ++ List.range' h.next o.length ∧
      ∀ i, (hi : i < o.length) → r.1.cell (h.next + i) = h.cell o[i] := by
  induction o with
  | nil => intro h acc _; simp [Stable.refl]
  | cons p rest ih =>
    intro h acc hb
    have hp : p < h.next := hb p (by simp)
    have hrest : ∀ q ∈ rest, q < (h.alloc (h.cell p)).1.next := fun q hq => by
      have := hb q (by simp [hq]); simp [Heap.alloc]; omega
    have h1s : Stable h (h.alloc (h.cell p)).1 :=
      ⟨by simp [Heap.alloc], fun q hq => by simp [Heap.alloc]; intro e; omega⟩
    obtain ⟨s, hn, ho, hc⟩ := ih (h.alloc (h.cell p)).1 (acc ++ [(h.alloc (h.cell p)).2]) hrest
    simp only [List.foldl_cons]
    refine ⟨h1s.trans s, ?_, ?_, ?_⟩
    · rw [hn]; simp [Heap.alloc]; omega
    · rw [ho]; simp [Heap.alloc, List.range'_succ]
    · intro i hi
      cases i with
      | zero =>
        have := s.2 h.next (by simp [Heap.alloc])
        simp only [Nat.add_zero, List.getElem_cons_zero]
        rw [this]; simp [Heap.alloc]
      | succ j =>
        have hj : j < rest.length := by simpa using hi
        have := hc j hj
        have e : (h.alloc (h.cell p)).1.next + j = h.next + (j + 1) := by simp [Heap.alloc]; omega
        rw [e] at this
        rw [this]
        simp only [List.getElem_cons_succ]
        have hlt : rest[j] < h.next := hb _ (by simp)
        simp [Heap.alloc]; intro e2; omega

theorem deepCopy_spec (h : Heap) (o : Obj) (ho : ∀ p ∈ o, p < h.next) :
    Stable h (deepCopy h o).1 ∧ (deepCopy h o).1.next = h.next + o.length ∧
      (deepCopy h o).2 = List.range' h.next o.length ∧ deref (deepCopy h o).1 (deepCopy h o).2 = deref h o := by
  obtain ⟨s, hn, hl, hc⟩ := deepCopy_fold o h [] ho
  unfold deepCopy
  refine ⟨s, hn, by simpa using hl, ?_⟩
  rw [show (List.foldl _ (h, []) o).2 = List.range' h.next o.length by simpa using hl]
  unfold deref
  apply List.ext_getElem
  · simp
  · intro i h1 h2
    simp only [List.getElem_map, List.getElem_range', Nat.one_mul]
    exact hc i (by simpa using h2)

/-! ### `collapsePtr` -/

theorem fold_write (g : Tri → Tri) (keep : List Nat) (hk : keep.Nodup) : ∀ h : Heap,
    (keep.foldl (fun h p => h.write p (g (h.cell p))) h).next = h.next ∧
      ∀ q, (keep.foldl (fun h p => h.write p (g (h.cell p))) h).cell q =
        if q ∈ keep then g (h.cell q) else h.cell q := by
  induction keep with
  | nil => intro h; simp
  | cons p rest ih =>
    intro h
    have hp : p ∉ rest := (List.nodup_cons.1 hk).1
    obtain ⟨hn, hc⟩ := ih (List.nodup_cons.1 hk).2 (h.write p (g (h.cell p)))
    simp only [List.foldl_cons]
    refine ⟨by rw [hn]; rfl, fun q => ?_⟩
    rw [hc q]
    by_cases hq : q = p
    · subst hq; simp [hp, Heap.write]
    · by_cases hr : q ∈ rest <;> simp [hq, hr, Heap.write]

theorem collapsePtr_spec (a b mp : Nat) (h : Heap) (o : Obj) (w : WF h o) :
    WF (collapsePtr a b mp h o).1 (collapsePtr a b mp h o).2 ∧
      (collapsePtr a b mp h o).1.next = h.next ∧
      (∀ q, q ∉ o → (collapsePtr a b mp h o).1.cell q = h.cell q) ∧
      (∀ q ∈ (collapsePtr a b mp h o).2, q ∈ o) ∧
      deref (collapsePtr a b mp h o).1 (collapsePtr a b mp h o).2 = collapseVal a b mp (deref h o) := by
  have hk : (o.filter fun p => !hasBoth (h.cell p) a b).Nodup := w.1.filter _
  obtain ⟨hn, hc⟩ := fold_write (subst a b mp) _ hk h
  unfold collapsePtr
  refine ⟨⟨hk, fun p hp => ?_⟩, hn, fun q hq => ?_, fun q hq => (List.mem_filter.1 hq).1, ?_⟩
  · simp only; rw [hn]; exact w.2 p (List.mem_filter.1 hp).1
  · simp only; rw [hc q]
    have : q ∉ o.filter fun p => !hasBoth (h.cell p) a b := fun hm => hq (List.mem_filter.1 hm).1
    simp [this]
  · unfold deref collapseVal
    simp only [List.filter_map, List.map_map]
    apply List.map_congr_left
    intro q hq
    simp only [Function.comp]
    rw [hc q]; simp [hq]

/-! ### the loop of `EliminateEdges` -/

theorem elimLoopPtr_spec (pick : List Tri → Option (Nat × Nat × Nat)) (h0 : Heap) :
    ∀ (fuel : Nat) (h : Heap) (o : Obj), WF h o → (∀ p ∈ o, h0.next ≤ p) → Stable h0 h →
      WF (elimLoopPtr pick fuel h o).1 (elimLoopPtr pick fuel h o).2 ∧ Stable h0 (elimLoopPtr pick fuel h o).1 ∧
        deref (elimLoopPtr pick fuel h o).1 (elimLoopPtr pick fuel h o).2 = elimLoopVal pick fuel (deref h o) := by
  intro fuel
  induction fuel with
  | zero => intro h o w _ s; exact ⟨w, s, rfl⟩
  | succ f ih =>
    intro h o w hf s
    unfold elimLoopPtr elimLoopVal
    cases hp : pick (deref h o) with
    | none => exact ⟨w, s, rfl⟩
    | some abm =>
      obtain ⟨a, b, mp⟩ := abm
      obtain ⟨w', hn, hc, hsub, hd⟩ := collapsePtr_spec a b mp h o w
      have s' : Stable h0 (collapsePtr a b mp h o).1 := by
        refine ⟨by rw [hn]; exact s.1, fun p hp => ?_⟩
        rw [hc p (fun hm => by have := hf p hm; omega), s.2 p hp]
      have := ih (collapsePtr a b mp h o).1 (collapsePtr a b mp h o).2 w' (fun p hp => hf p (hsub p hp)) s'
      simp only
      rw [← hd]
      exact this

/-- `EliminateEdges` as it is computes the value-level loop and writes only to its own copies. -/
theorem elimEdgesPtr_faithful (pick : List Tri → Option (Nat × Nat × Nat)) (fuel : Nat) :
    Faithful (elimEdgesPtr pick fuel) (elimLoopVal pick fuel) := by
  intro h o w
  obtain ⟨s, hn, ho, hd⟩ := deepCopy_spec h o w.2
  have w1 : WF (deepCopy h o).1 (deepCopy h o).2 := by
    rw [ho]
    refine ⟨List.nodup_range' .., fun p hp => ?_⟩
    rw [hn]; simp [List.mem_range'] at hp; omega
  have hf : ∀ p ∈ (deepCopy h o).2, h.next ≤ p := by
    rw [ho]; intro p hp; simp [List.mem_range'] at hp; omega
  have := elimLoopPtr_spec pick h fuel (deepCopy h o).1 (deepCopy h o).2 w1 hf s
  unfold elimEdgesPtr
  simp only
  rw [← hd]
  exact this

/-! ### termination of the collapse loop -/

theorem collapseVal_length_lt {a b mp : Nat} {ts : List Tri} (h : ∃ t ∈ ts, hasBoth t a b = true) :
    (collapseVal a b mp ts).length < ts.length := by
  obtain ⟨t, ht, hb⟩ := h
  unfold collapseVal
  rw [List.length_map]
  apply List.length_filter_lt_length_iff_exists.2
  exact ⟨t, ht, by simp [hb]⟩

theorem elimLoopVal_length_le (pick : List Tri → Option (Nat × Nat × Nat)) :
    ∀ (fuel : Nat) (ts : List Tri), (elimLoopVal pick fuel ts).length ≤ ts.length := by
  intro fuel
  induction fuel with
  | zero => intro ts; exact Nat.le_refl _
  | succ f ih =>
    intro ts
    unfold elimLoopVal
    cases hp : pick ts with
    | none => exact Nat.le_refl _
    | some abm =>
      obtain ⟨a, b, mp⟩ := abm
      refine Nat.le_trans (ih _) ?_
      unfold collapseVal
      rw [List.length_map]
      exact List.length_filter_le _ _

theorem elimLoopVal_terminates (pick : List Tri → Option (Nat × Nat × Nat))
    (hp : ∀ ts a b mp, pick ts = some (a, b, mp) → ∃ t ∈ ts, hasBoth t a b = true) :
    ∀ (fuel : Nat) (ts : List Tri), ts.length ≤ fuel → pick (elimLoopVal pick fuel ts) = none := by
  intro fuel
  induction fuel with
  | zero =>
    intro ts hl
    have : ts = [] := List.eq_nil_of_length_eq_zero (by omega)
    subst this
    simp only [elimLoopVal]
    cases h : pick [] with
    | none => rfl
    | some abm => obtain ⟨a, b, mp⟩ := abm; obtain ⟨t, ht, _⟩ := hp _ _ _ _ h; simp at ht
  | succ f ih =>
    intro ts hl
    unfold elimLoopVal
    cases h : pick ts with
    | none => simpa using h
    | some abm =>
      obtain ⟨a, b, mp⟩ := abm
      have := collapseVal_length_lt (mp := mp) (hp _ _ _ _ h)
      exact ih _ (by omega)

/-! ### primitive steps -/

theorem step_stable {h0 : Heap} {s : Heap × Obj} (hs : Stable h0 s.1) (st : Step)
    (hw : ∀ p t, st = Step.write p t → h0.next ≤ p) : Stable h0 (step s st).1 := by
  cases st with
  | remove p => exact hs
  | add t =>
    refine ⟨by simp [step, Heap.alloc]; exact Nat.le_succ_of_le hs.1, fun q hq => ?_⟩
    have := hs.1
    simp only [step, Heap.alloc]
    rw [if_neg (by omega)]
    exact hs.2 q hq
  | write p t =>
    have hp := hw p t rfl
    refine ⟨hs.1, fun q hq => ?_⟩
    simp only [step, Heap.write]
    rw [if_neg (by omega)]
    exact hs.2 q hq

theorem runSteps_stable (h0 : Heap) : ∀ (steps : List Step) (s : Heap × Obj), Stable h0 s.1 →
    writesOnlyFresh h0.next steps = true → Stable h0 (runSteps steps s).1 := by
  intro steps
  induction steps with
  | nil => intro s hs _; exact hs
  | cons st rest ih =>
    intro s hs hw
    simp only [writesOnlyFresh, List.all_cons, Bool.and_eq_true] at hw
    simp only [runSteps, List.foldl_cons]
    apply ih _ _ (by simpa [writesOnlyFresh] using hw.2)
    apply step_stable hs
    intro p t e
    subst e
    simpa using hw.1

/-! ### programs -/

theorem getD_map_deref (h : Heap) (vars : List Obj) (i : Nat) :
    (vars.map (deref h)).getD i [] = deref h (vars.getD i []) := by
  simp only [List.getD_eq_getElem?_getD, List.getElem?_map]
  cases vars[i]? <;> simp

theorem runHeap_eq_runPure (prog : List Instr) : ∀ (h : Heap) (vars : List Obj),
    (∀ i ∈ prog, Faithful i.hop i.fn) → (∀ o ∈ vars, WF h o) →
      (runHeap prog (h, vars)).2.map (deref (runHeap prog (h, vars)).1) = runPure prog (vars.map (deref h)) ∧
        (∀ o ∈ (runHeap prog (h, vars)).2, WF (runHeap prog (h, vars)).1 o) ∧
        Stable h (runHeap prog (h, vars)).1 ∧ vars <+: (runHeap prog (h, vars)).2 := by
  induction prog with
  | nil => intro h vars _ hw; exact ⟨rfl, hw, Stable.refl h, List.prefix_refl _⟩
  | cons i rest ih =>
    intro h vars hf hw
    have hwo : WF h (vars.getD i.src []) := by
      rw [List.getD_eq_getElem?_getD]
      cases e : vars[i.src]? with
      | none => exact WF.nil h
      | some o => exact hw o (List.mem_of_getElem? e)
    obtain ⟨w', s, hd⟩ := hf i (by simp) h _ hwo
    have hw' : ∀ o ∈ vars ++ [(i.hop h (vars.getD i.src [])).2], WF (i.hop h (vars.getD i.src [])).1 o := by
      intro o ho
      rcases List.mem_append.1 ho with ho | ho
      · exact (hw o ho).stable s
      · simp at ho; subst ho; exact w'
    obtain ⟨e, hw2, s2, hpre⟩ := ih (i.hop h (vars.getD i.src [])).1 (vars ++ [(i.hop h (vars.getD i.src [])).2])
      (fun j hj => hf j (by simp [hj])) hw'
    simp only [runHeap, runPure]
    refine ⟨?_, hw2, s.trans s2, List.IsPrefix.trans (List.prefix_append _ _) hpre⟩
    rw [e]
    congr 1
    simp only [List.map_append, List.map_cons, List.map_nil]
    congr 1
    · exact List.map_congr_left fun o ho => deref_stable s (hw o ho).2
    · rw [hd, getD_map_deref]

theorem runPure_closed (prog : List Instr) : ∀ vals : List (List Tri),
    (∀ i ∈ prog, ∀ ts, ClosedManifold ts → ClosedManifold (i.fn ts)) → (∀ v ∈ vals, ClosedManifold v) →
      ∀ v ∈ runPure prog vals, ClosedManifold v := by
  induction prog with
  | nil => intro vals _ hv; exact hv
  | cons i rest ih =>
    intro vals hf hv
    simp only [runPure]
    apply ih _ (fun j hj => hf j (by simp [hj]))
    intro v hm
    rcases List.mem_append.1 hm with hm | hm
    · exact hv v hm
    · simp at hm; subst hm
      apply hf i (by simp)
      cases e : vals[i.src]? with
      | none => exact ⟨by intro e; simp [dirEdges], by intro v hv; simp [verts, vertsAll] at hv, by intro t ht; simp at ht⟩
      | some o => exact hv o (List.mem_of_getElem? e)

end M3d.MeshHeap
