import M3d.Model.CodecRound
import Mathlib.Tactic.Ring
import Mathlib.Tactic.Linarith
import Mathlib.Tactic.FieldSimp
import Mathlib.Tactic.Positivity
import Mathlib.Tactic.NormNum
import Mathlib.Tactic.SplitIfs
import Mathlib.Algebra.Order.Ring.Abs
import Mathlib.Algebra.Order.Field.Basic
import Mathlib.Algebra.Order.Field.Rat
/-!
# `roundF32` is correct rounding to binary32 (round to nearest, ties to even)

`rne_spec`: round-half-even of a fraction to an integer.  `f32nat_grid`/`f32nat_dvd`/`f32nat_small`:
the structure of binary32 patterns (consecutive patterns = consecutive grid points of a binade, larger
exponents lie on the grid, smaller ones lie below the binade).  `roundScaled_nearest` (integers) and
`roundF32_nearest` (rationals): no pattern is closer to `n/d` than `roundF32 n d`; a tie with a
different value forces an even result.
-/
namespace M3d.Codec

theorem rne_cases (n d : Nat) :
    (2 * (n % d) < d ∧ rne n d = n / d) ∨ (d < 2 * (n % d) ∧ rne n d = n / d + 1) ∨
    (2 * (n % d) = d ∧ rne n d % 2 = 0 ∧ (rne n d = n / d ∨ rne n d = n / d + 1)) := by
  unfold rne
  simp only
  split_ifs with h1 h2 h3
  · exact Or.inl ⟨h1, rfl⟩
  · exact Or.inr (Or.inl ⟨h2, rfl⟩)
  · exact Or.inr (Or.inr ⟨by omega, h3, Or.inl rfl⟩)
  · exact Or.inr (Or.inr ⟨by omega, by omega, Or.inr rfl⟩)

/-- products of an integer with a positive number, as far as the case analysis needs them -/
theorem mul_pos_cases (j d : Int) (hd : 0 < d) :
    (j ≤ -1 ∧ j * d ≤ -d) ∨ (j = 0 ∧ j * d = 0) ∨ (j = 1 ∧ j * d = d) ∨ (2 ≤ j ∧ 2 * d ≤ j * d) := by
  rcases lt_trichotomy j 0 with h | h | h
  · left; exact ⟨by omega, by nlinarith⟩
  · right; left; subst h; simp
  · rcases (show j = 1 ∨ 2 ≤ j by omega) with h1 | h1
    · right; right; left; subst h1; simp
    · right; right; right; exact ⟨h1, by nlinarith⟩

theorem rne_spec (n d : Nat) (hd : 0 < d) (k : Int) :
    |(rne n d : Int) * d - n| ≤ |k * d - n| ∧
    (|k * d - n| = |(rne n d : Int) * d - n| → k ≠ rne n d → rne n d % 2 = 0) := by
  have hn : (n : Int) = (n / d : Nat) * (d : Int) + (n % d : Nat) := by
    have := Nat.div_add_mod n d
    have h2 : ((d * (n / d) + n % d : Nat) : Int) = (n : Int) := by rw [this]
    push_cast at h2
    push_cast
    linarith
  have hr : n % d < d := Nat.mod_lt n hd
  have hcases := rne_cases n d
  generalize rne n d = m at *
  generalize n / d = q at *
  generalize n % d = r at *
  have hkd : k * (d : Int) - n = (k - q) * d - r := by rw [hn]; ring
  rw [hkd]
  have hE : ((m : Int) * d - n = -r ∧ m = q) ∨ ((m : Int) * d - n = d - r ∧ m = q + 1) := by
    rcases hcases with ⟨_, hm⟩ | ⟨_, hm⟩ | ⟨_, _, hm | hm⟩ <;> subst hm
    · left; exact ⟨by rw [hn]; ring, rfl⟩
    · right; exact ⟨by rw [hn]; push_cast; ring, rfl⟩
    · left; exact ⟨by rw [hn]; ring, rfl⟩
    · right; exact ⟨by rw [hn]; push_cast; ring, rfl⟩
  have hP := mul_pos_cases (k - q) d (by exact_mod_cast hd)
  have h1 := abs_cases ((m : Int) * d - n)
  have h2 := abs_cases ((k - q) * d - r)
  generalize (m : Int) * d - n = E at *
  generalize (k - (q : Int)) * d = P at *
  generalize |E| = a at *
  generalize |P - (r : Int)| = b at *
  omega

theorem rne_lower (n d a : Nat) (hd : 0 < d) (h : a * d ≤ n) : a ≤ rne n d := by
  have h1 : a ≤ n / d := (Nat.le_div_iff_mul_le hd).mpr h
  rcases rne_cases n d with ⟨_, hm⟩ | ⟨_, hm⟩ | ⟨_, _, hm | hm⟩ <;> omega

theorem rne_upper (n d c : Nat) (hd : 0 < d) (h : n ≤ c * d) : rne n d ≤ c := by
  have h0 := Nat.div_add_mod n d
  have h1 : n / d ≤ c := by
    calc n / d ≤ c * d / d := Nat.div_le_div_right h
      _ = c := Nat.mul_div_cancel c hd
  rcases Nat.lt_or_ge (n / d) c with h2 | h2
  · rcases rne_cases n d with ⟨_, hm⟩ | ⟨_, hm⟩ | ⟨_, _, hm | hm⟩ <;> omega
  · have hq : n / d = c := by omega
    rw [hq, Nat.mul_comm] at h0
    have hr : n % d = 0 := by omega
    rcases rne_cases n d with ⟨_, hm⟩ | ⟨_, hm⟩ | ⟨_, _, hm | hm⟩ <;> omega

/-- On the grid of a binade the bit patterns are consecutive: significand `m` (up to and including the
carry `2^24`) at quantum exponent `s` is the pattern `s·2^23 + m`. -/
theorem f32nat_grid (m s : Nat) (hm : m ≤ 2 ^ 24) (h : 2 ^ 23 ≤ m ∨ s = 0) :
    f32nat (s * 2 ^ 23 + m) = m * 2 ^ s := by
  have hB : (2 : Nat) ^ 23 = 8388608 := by norm_num
  have hC : (2 : Nat) ^ 24 = 16777216 := by norm_num
  unfold f32nat
  simp only
  rw [hB]
  rw [hB] at h
  rw [hC] at hm
  rcases Nat.lt_or_ge m 8388608 with h1 | h1
  · have hs : s = 0 := by omega
    subst hs
    have e1 : (0 * 8388608 + m) / 8388608 = 0 := by omega
    have e2 : (0 * 8388608 + m) % 8388608 = m := by omega
    rw [e1, e2]
    simp
  · rcases Nat.lt_or_ge m 16777216 with h2 | h2
    · have e1 : (s * 8388608 + m) / 8388608 = s + 1 := by omega
      have e2 : (s * 8388608 + m) % 8388608 = m - 8388608 := by omega
      rw [e1, e2]
      rw [if_neg (by omega), show 8388608 + (m - 8388608) = m by omega, show s + 1 - 1 = s by omega]
    · have hm' : m = 16777216 := by omega
      subst hm'
      have e1 : (s * 8388608 + 16777216) / 8388608 = s + 2 := by omega
      have e2 : (s * 8388608 + 16777216) % 8388608 = 0 := by omega
      rw [e1, e2]
      have e3 : s + 2 - 1 = s + 1 := by omega
      have e4 : s + 2 ≠ 0 := by omega
      rw [if_neg e4, e3, pow_succ]
      ring

theorem f32nat_dvd (b s : Nat) (h : s + 1 ≤ b / 2 ^ 23) : ∃ k, f32nat b = k * 2 ^ s := by
  unfold f32nat
  simp only
  have he : b / 2 ^ 23 ≠ 0 := by omega
  rw [if_neg he]
  refine ⟨(2 ^ 23 + b % 2 ^ 23) * 2 ^ (b / 2 ^ 23 - 1 - s), ?_⟩
  have : b / 2 ^ 23 - 1 = (b / 2 ^ 23 - 1 - s) + s := by omega
  conv_lhs => rw [this, pow_add]
  ring

theorem f32nat_small (b s : Nat) (h : b / 2 ^ 23 ≤ s) : f32nat b < 2 ^ 23 * 2 ^ s := by
  unfold f32nat
  simp only
  have hm : b % 2 ^ 23 < 2 ^ 23 := Nat.mod_lt _ (by positivity)
  split_ifs with he
  · calc b % 2 ^ 23 < 2 ^ 23 := hm
      _ = 2 ^ 23 * 1 := by ring
      _ ≤ 2 ^ 23 * 2 ^ s := Nat.mul_le_mul_left _ Nat.one_le_two_pow
  · have h1 : (2 ^ 23 + b % 2 ^ 23) * 2 ^ (b / 2 ^ 23 - 1) < (2 ^ 23 + 2 ^ 23) * 2 ^ (b / 2 ^ 23 - 1) :=
      Nat.mul_lt_mul_of_pos_right (by omega) (by positivity)
    have h2 : (2 ^ 23 + 2 ^ 23) * 2 ^ (b / 2 ^ 23 - 1) = 2 ^ 23 * 2 ^ (b / 2 ^ 23) := by
      generalize b / 2 ^ 23 = e at he
      obtain ⟨k, rfl⟩ := Nat.exists_eq_succ_of_ne_zero he
      rw [show k.succ - 1 = k by omega, show k.succ = k + 1 by rfl, pow_succ 2 k]
      ring
    have h3 : 2 ^ 23 * 2 ^ (b / 2 ^ 23) ≤ 2 ^ 23 * 2 ^ s :=
      Nat.mul_le_mul_left _ (Nat.pow_le_pow_right (by norm_num) h)
    omega

/-- the quantum exponent chosen from `t = ⌊N/D⌋` -/
theorem quantum_range (t : Nat) :
    (Nat.log2 t - 23 = 0 ∧ t < 2 ^ 24) ∨
    (1 ≤ Nat.log2 t - 23 ∧ 2 ^ 23 * 2 ^ (Nat.log2 t - 23) ≤ t ∧ t < 2 ^ 24 * 2 ^ (Nat.log2 t - 23)) := by
  rcases Nat.lt_or_ge t (2 ^ 24) with h | h
  · left
    refine ⟨?_, h⟩
    rcases Nat.eq_zero_or_pos t with h0 | h0
    · subst h0; simp [Nat.log2_zero]
    · have := (Nat.log2_lt (Nat.pos_iff_ne_zero.mp h0)).mpr h
      omega
  · right
    have h0 : t ≠ 0 := by
      have : 0 < 2 ^ 24 := by positivity
      omega
    have hL : 24 ≤ Nat.log2 t := by
      by_contra hc
      have := (Nat.log2_lt h0).mp (by omega : Nat.log2 t < 24)
      omega
    have h1 := Nat.log2_self_le h0
    have h2 := Nat.lt_log2_self (n := t)
    have e1 : Nat.log2 t = 23 + (Nat.log2 t - 23) := by omega
    have e2 : Nat.log2 t + 1 = 24 + (Nat.log2 t - 23) := by omega
    rw [e2, pow_add] at h2
    rw [e1, pow_add] at h1
    exact ⟨by omega, h1, h2⟩

/-- **Correct rounding, integer form** (everything in units of 2^-149, distances multiplied by `D`):
the pattern `roundScaled N D` is at least as close to `N/D` as every pattern `b'` of the format
(with unbounded exponent range), and if some `b'` of a different value is equally close, the result
is even. -/
theorem roundScaled_nearest (N D : Nat) (hD : 0 < D) (b' : Nat) :
    |(f32nat (roundScaled N D) : Int) * D - N| ≤ |(f32nat b' : Int) * D - N| ∧
    (|(f32nat b' : Int) * D - N| = |(f32nat (roundScaled N D) : Int) * D - N| →
      f32nat b' ≠ f32nat (roundScaled N D) → roundScaled N D % 2 = 0) := by
  unfold roundScaled
  simp only
  have hq := quantum_range (N / D)
  generalize Nat.log2 (N / D) - 23 = s at *
  have hd : 0 < D * 2 ^ s := by positivity
  have ht1 : N / D * D ≤ N := Nat.div_mul_le_self N D
  have ht2 : N < D * (N / D + 1) := Nat.lt_mul_div_succ N hD
  have hmU : rne N (D * 2 ^ s) ≤ 2 ^ 24 := by
    apply rne_upper _ _ _ hd
    rcases hq with ⟨hs, ht⟩ | ⟨hs, hlo, hhi⟩
    · have h1 : D * (N / D + 1) ≤ D * 2 ^ 24 := Nat.mul_le_mul_left _ (by omega)
      have h2 : D * 2 ^ 24 = 2 ^ 24 * (D * 2 ^ s) := by rw [hs]; ring
      omega
    · have h1 : D * (N / D + 1) ≤ D * (2 ^ 24 * 2 ^ s) := Nat.mul_le_mul_left _ (by omega)
      have h2 : D * (2 ^ 24 * 2 ^ s) = 2 ^ 24 * (D * 2 ^ s) := by ring
      omega
  have hlow : 1 ≤ s → 2 ^ 23 * (D * 2 ^ s) ≤ N := by
    intro h1
    rcases hq with ⟨hs, ht⟩ | ⟨hs, hlo, hhi⟩
    · omega
    · calc 2 ^ 23 * (D * 2 ^ s) = (2 ^ 23 * 2 ^ s) * D := by ring
        _ ≤ N / D * D := Nat.mul_le_mul_right _ hlo
        _ ≤ N := ht1
  have hmL : 2 ^ 23 ≤ rne N (D * 2 ^ s) ∨ s = 0 := by
    rcases Nat.eq_zero_or_pos s with h0 | h0
    · exact Or.inr h0
    · exact Or.inl (rne_lower _ _ _ hd (hlow h0))
  rw [f32nat_grid _ s hmU hmL]
  have hspec := fun k => rne_spec N (D * 2 ^ s) hd k
  generalize rne N (D * 2 ^ s) = m at *
  have key : ∀ k : Nat, ((k * 2 ^ s : Nat) : Int) * D - N = (k : Int) * ((D * 2 ^ s : Nat) : Int) - N := by
    intro k; push_cast; ring
  rw [key m]
  have hB : (2 : Nat) ^ 23 = 8388608 := by norm_num
  -- is the competitor on the grid of the binade?
  have hgridB : (∃ k : Nat, f32nat b' = k * 2 ^ s) ∨ (1 ≤ s ∧ b' / 2 ^ 23 ≤ s) := by
    rcases Nat.eq_zero_or_pos s with h0 | h0
    · left; exact ⟨f32nat b', by rw [h0]; simp⟩
    · rcases Nat.lt_or_ge s (b' / 2 ^ 23) with h1 | h1
      · left; exact f32nat_dvd b' s h1
      · right; exact ⟨h0, h1⟩
  rcases hgridB with ⟨k, hk⟩ | ⟨hs1, he⟩
  · rw [hk, key k]
    refine ⟨(hspec k).1, ?_⟩
    intro heq hne
    have hkm : (k : Int) ≠ m := by
      intro h
      apply hne
      have : k = m := by exact_mod_cast h
      rw [this]
    have := (hspec k).2 heq hkm
    omega
  · have hsm := f32nat_small b' s he
    have hN := hlow hs1
    have h23 := (hspec ((2 ^ 23 : Nat) : Int)).1
    have hX : (f32nat b' : Int) * D < ((2 ^ 23 : Nat) : Int) * ((D * 2 ^ s : Nat) : Int) := by
      have : f32nat b' * D < 2 ^ 23 * (D * 2 ^ s) := by
        calc f32nat b' * D < (2 ^ 23 * 2 ^ s) * D := Nat.mul_lt_mul_of_pos_right hsm hD
          _ = 2 ^ 23 * (D * 2 ^ s) := by ring
      exact_mod_cast this
    have hY : ((2 ^ 23 : Nat) : Int) * ((D * 2 ^ s : Nat) : Int) ≤ N := by exact_mod_cast hN
    have a1 := abs_cases ((m : Int) * ((D * 2 ^ s : Nat) : Int) - N)
    have a2 := abs_cases (((2 ^ 23 : Nat) : Int) * ((D * 2 ^ s : Nat) : Int) - N)
    have a3 := abs_cases ((f32nat b' : Int) * D - N)
    generalize (f32nat b' : Int) * D = X at *
    generalize ((2 ^ 23 : Nat) : Int) * ((D * 2 ^ s : Nat) : Int) = Y at *
    generalize (m : Int) * ((D * 2 ^ s : Nat) : Int) = Z at *
    generalize |X - (N : Int)| = a at *
    generalize |Y - (N : Int)| = b at *
    generalize |Z - (N : Int)| = c at *
    constructor
    · omega
    · intro h1; omega

/-- value of a binary32 bit pattern (sign bit clear) -/
def f32val (b : Nat) : ℚ := (f32nat b : ℚ) / 2 ^ 149

theorem f32_dist (v n d : Nat) (hd : 0 < d) :
    |(v : ℚ) / 2 ^ 149 - (n : ℚ) / d| =
      ((|(v : Int) * d - ((n * 2 ^ 149 : Nat) : Int)| : Int) : ℚ) / (2 ^ 149 * d) := by
  have hd' : (0 : ℚ) < d := by exact_mod_cast hd
  have h2 : (0 : ℚ) < 2 ^ 149 := by positivity
  have e : (v : ℚ) / 2 ^ 149 - (n : ℚ) / d = ((v : ℚ) * d - n * 2 ^ 149) / (2 ^ 149 * d) := by
    field_simp
  rw [e, abs_div, abs_of_pos (by positivity : (0 : ℚ) < 2 ^ 149 * d)]
  congr 1
  push_cast
  rfl

theorem roundF32_nearest (n d : Nat) (hd : 0 < d) (b' : Nat) :
    |f32val (roundF32 n d) - (n : ℚ) / d| ≤ |f32val b' - (n : ℚ) / d| ∧
    (|f32val b' - (n : ℚ) / d| = |f32val (roundF32 n d) - (n : ℚ) / d| →
      f32val b' ≠ f32val (roundF32 n d) → roundF32 n d % 2 = 0) := by
  have hpos : (0 : ℚ) < 2 ^ 149 * d := by
    have : (0 : ℚ) < d := by exact_mod_cast hd
    positivity
  obtain ⟨h1, h2⟩ := roundScaled_nearest (n * 2 ^ 149) d hd b'
  unfold f32val roundF32
  rw [f32_dist _ n d hd, f32_dist _ n d hd]
  constructor
  · exact div_le_div_of_nonneg_right (by exact_mod_cast h1) hpos.le
  · intro heq hne
    apply h2
    · have := (div_left_inj' hpos.ne').mp heq
      exact_mod_cast this
    · intro h
      apply hne
      rw [h]

/-- value of a 32-bit pattern: bit 31 is the sign -/
def f32valS (w : Nat) : ℚ :=
  if w / 2 ^ 31 % 2 = 1 then -f32val (w % 2 ^ 31) else f32val (w % 2 ^ 31)

theorem f32val_nonneg (b : Nat) : 0 ≤ f32val b := by unfold f32val; positivity

theorem f32val_zero : f32val 0 = 0 := by
  unfold f32val f32nat; norm_num

theorem signed_aux (a v v' : ℚ) (ha : 0 ≤ a) (hv' : 0 ≤ v') (H0 : |v - a| ≤ |0 - a|) :
    |v - a| ≤ |(-v') - a| ∧ (|(-v') - a| = |v - a| → v' = 0 ∧ |0 - a| = |v - a|) := by
  have e0 : |0 - a| = a := by rw [zero_sub, abs_neg, abs_of_nonneg ha]
  have e1 : |(-v') - a| = v' + a := by
    rw [show -v' - a = -(v' + a) by ring, abs_neg, abs_of_nonneg (by linarith)]
  rw [e1]
  rw [e0] at H0 ⊢
  constructor
  · linarith
  · intro h
    constructor <;> linarith

/-- **Signed correct rounding**: with the sign of the literal attached, no 32-bit pattern `w'` has a
value closer to `±n/d` than the result, and a tie with a different value forces an even result. -/
theorem roundF32_signed_nearest (neg : Bool) (n d : Nat) (hd : 0 < d) (hfin : roundF32 n d < f32Inf)
    (w' : Nat) :
    |f32valS (roundF32 n d + (if neg then 2 ^ 31 else 0)) - ((if neg then -1 else 1) * ((n : ℚ) / d))| ≤ |f32valS w' - ((if neg then -1 else 1) * ((n : ℚ) / d))| ∧
    (|f32valS w' - ((if neg then -1 else 1) * ((n : ℚ) / d))| = |f32valS (roundF32 n d + (if neg then 2 ^ 31 else 0)) - ((if neg then -1 else 1) * ((n : ℚ) / d))| →
      f32valS w' ≠ f32valS (roundF32 n d + (if neg then 2 ^ 31 else 0)) → (roundF32 n d + (if neg then 2 ^ 31 else 0)) % 2 = 0) := by
  have hb : roundF32 n d < 2 ^ 31 := by
    unfold f32Inf at hfin; norm_num at hfin ⊢; omega
  obtain ⟨H1, T1⟩ := roundF32_nearest n d hd (w' % 2 ^ 31)
  obtain ⟨H0, T0⟩ := roundF32_nearest n d hd 0
  rw [f32val_zero] at H0 T0
  have ha : (0 : ℚ) ≤ (n : ℚ) / d := by positivity
  have hv' := f32val_nonneg (w' % 2 ^ 31)
  have hpar : (roundF32 n d + (if neg then 2 ^ 31 else 0)) % 2 = roundF32 n d % 2 := by
    cases neg <;> simp
    omega
  rw [hpar]
  have hw : f32valS (roundF32 n d + (if neg then 2 ^ 31 else 0)) = (if neg then -1 else 1) * f32val (roundF32 n d) := by
    unfold f32valS
    cases neg
    · have e1 : (roundF32 n d + 0) / 2 ^ 31 = 0 := by
        rw [Nat.add_zero]; exact Nat.div_eq_of_lt hb
      have e2 : (roundF32 n d + 0) % 2 ^ 31 = roundF32 n d := by
        rw [Nat.add_zero]; exact Nat.mod_eq_of_lt hb
      simp only [Bool.false_eq_true, if_false, e1, e2]
      norm_num
    · have e1 : (roundF32 n d + 2 ^ 31) / 2 ^ 31 = 1 := by
        rw [Nat.add_div_right _ (by positivity), Nat.div_eq_of_lt hb]
      have e2 : (roundF32 n d + 2 ^ 31) % 2 ^ 31 = roundF32 n d := by
        rw [Nat.add_mod_right]; exact Nat.mod_eq_of_lt hb
      simp only [if_true, e1, e2]
      norm_num
  rw [hw]
  generalize f32val (roundF32 n d) = v at *
  generalize (n : ℚ) / d = a at *
  have hS : f32valS w' = f32val (w' % 2 ^ 31) ∨ f32valS w' = -f32val (w' % 2 ^ 31) := by
    unfold f32valS; split_ifs <;> simp
  generalize f32val (w' % 2 ^ 31) = v' at *
  obtain ⟨A1, A2⟩ := signed_aux a v v' ha hv' H0
  cases neg
  · simp only [Bool.false_eq_true, if_false, one_mul]
    rcases hS with hS | hS <;> rw [hS]
    · exact ⟨H1, T1⟩
    · refine ⟨A1, fun h1 h2 => ?_⟩
      obtain ⟨hz, ht⟩ := A2 h1
      exact T0 ht (by rw [hz] at h2; simpa using h2)
  · simp only [if_true, neg_mul, one_mul]
    have flip : ∀ x y : ℚ, |(-x) - (-y)| = |x - y| := by
      intro x y; rw [show -x - -y = -(x - y) by ring, abs_neg]
    rcases hS with hS | hS <;> rw [hS]
    · have e : |v' - -a| = |(-v') - a| := by
        rw [show v' - -a = -((-v') - a) by ring, abs_neg]
      rw [flip, e]
      refine ⟨A1, fun h1 h2 => ?_⟩
      obtain ⟨hz, ht⟩ := A2 h1
      refine T0 ht ?_
      intro h0
      apply h2
      rw [hz, ← h0]; simp
    · rw [flip, flip]
      refine ⟨H1, fun h1 h2 => T1 h1 ?_⟩
      intro h; apply h2; rw [h]

/-- the number a decimal literal denotes -/
def Dec.value (x : Dec) : ℚ := (if x.neg then -1 else 1) * ((x.mant : ℚ) * (10 : ℚ) ^ x.exp10)

theorem Dec.frac_spec (x : Dec) :
    0 < x.frac.2 ∧ ((x.frac.1 : ℚ) / (x.frac.2 : ℚ)) = (x.mant : ℚ) * (10 : ℚ) ^ x.exp10 := by
  unfold Dec.frac
  split_ifs with h
  · refine ⟨by norm_num, ?_⟩
    have e : x.exp10 = (x.exp10.toNat : Int) := (Int.toNat_of_nonneg h).symm
    conv_rhs => rw [e, zpow_natCast]
    push_cast
    simp
  · refine ⟨by positivity, ?_⟩
    have e : x.exp10 = -((-x.exp10).toNat : Int) := by
      rw [Int.toNat_of_nonneg (by omega)]; ring
    conv_rhs => rw [e, zpow_neg, zpow_natCast]
    push_cast
    rw [div_eq_mul_inv]

/-- **The number parser of the model is correct rounding**: if the token is a decimal literal `x` and
`parseF32` returns the pattern `w`, then `w` is a finite binary32, no 32-bit pattern has a value closer
to the number written, and a tie with a different value is resolved to the even significand. -/
theorem parseF32_correct (tok : Bytes) (x : Dec) (w : UInt32)
    (hx : parseDec tok = some x) (hw : parseF32 tok = some w) :
    w.toNat % 2 ^ 31 < f32Inf ∧
    ∀ w' : Nat, |f32valS w.toNat - x.value| ≤ |f32valS w' - x.value| ∧
      (|f32valS w' - x.value| = |f32valS w.toNat - x.value| → f32valS w' ≠ f32valS w.toNat →
        w.toNat % 2 = 0) := by
  unfold parseF32 at hw
  rw [hx] at hw
  have hI : f32Inf = 2139095040 := by unfold f32Inf; norm_num
  have h31 : (2 : Nat) ^ 31 = 2147483648 := by norm_num
  dsimp only at hw
  by_cases hfin : x.bits ≥ f32Inf
  · rw [if_pos hfin] at hw; cases hw
  rw [if_neg hfin] at hw
  have hw' : UInt32.ofNat (x.bits + (if x.neg then 2 ^ 31 else 0)) = w := Option.some.inj hw
  have hfin' : roundF32 x.frac.1 x.frac.2 < f32Inf := by
    unfold Dec.bits at hfin; omega
  have hb : roundF32 x.frac.1 x.frac.2 < 2 ^ 31 := by
    rw [hI] at hfin'; rw [h31]; omega
  have hwn : w.toNat = roundF32 x.frac.1 x.frac.2 + (if x.neg then 2 ^ 31 else 0) := by
    rw [← hw']
    unfold Dec.bits
    apply UInt32.toNat_ofNat_of_lt'
    have : UInt32.size = 4294967296 := rfl
    rw [this, h31]
    rw [h31] at hb
    split_ifs <;> omega
  obtain ⟨hd, hfrac⟩ := x.frac_spec
  refine ⟨?_, fun w' => ?_⟩
  · rw [hwn, h31, hI]
    rw [hI] at hfin'
    split_ifs <;> omega
  · have := roundF32_signed_nearest x.neg x.frac.1 x.frac.2 hd hfin' w'
    rw [hfrac] at this
    rw [hwn]
    exact this

/-! ## range: when is the result a finite binary32 -/

theorem rne_lt_of (n d c : Nat) (hd : 0 < d) (h : 2 * n + d < 2 * (c * d)) : rne n d < c := by
  have h0 := Nat.div_add_mod n d
  have hr := Nat.mod_lt n hd
  rcases Nat.lt_or_ge (n / d) c with hq | hq
  · rcases Nat.lt_or_ge (n / d + 1) c with hq2 | hq2
    · rcases rne_cases n d with ⟨_, hm⟩ | ⟨_, hm⟩ | ⟨_, _, hm | hm⟩ <;> omega
    · have hc : c = n / d + 1 := by omega
      have e : c * d = d * (n / d) + d := by rw [hc]; ring
      rcases rne_cases n d with ⟨_, hm⟩ | ⟨_, hm⟩ | ⟨_, _, hm | hm⟩ <;> omega
  · have : d * c ≤ d * (n / d) := Nat.mul_le_mul_left _ hq
    have e : c * d = d * c := Nat.mul_comm _ _
    omega

theorem rne_ge_of (n d c : Nat) (hd : 0 < d) (hc : c % 2 = 0) (h : 2 * (c * d) ≤ 2 * n + d) :
    c ≤ rne n d := by
  have h0 := Nat.div_add_mod n d
  have hr := Nat.mod_lt n hd
  rcases Nat.lt_or_ge (n / d) c with hq | hq
  · rcases Nat.lt_or_ge (n / d + 1) c with hq2 | hq2
    · have : d * (n / d + 2) ≤ d * c := Nat.mul_le_mul_left _ (by omega)
      have e : c * d = d * c := Nat.mul_comm _ _
      have e2 : d * (n / d + 2) = d * (n / d) + 2 * d := by ring
      omega
    · have hc' : c = n / d + 1 := by omega
      have e : c * d = d * (n / d) + d := by rw [hc']; ring
      rcases rne_cases n d with ⟨_, hm⟩ | ⟨_, hm⟩ | ⟨_, _, hm | hm⟩ <;> omega
  · rcases rne_cases n d with ⟨_, hm⟩ | ⟨_, hm⟩ | ⟨_, _, hm | hm⟩ <;> omega

/-- the parts of `roundScaled`: quantum exponent `s`, significand `m` -/
theorem roundScaled_parts (N D : Nat) (hD : 0 < D) :
    ∃ s m, roundScaled N D = s * 2 ^ 23 + m ∧ m = rne N (D * 2 ^ s) ∧ m ≤ 2 ^ 24 ∧
      ((s = 0 ∧ N / D < 2 ^ 24) ∨
       (1 ≤ s ∧ 2 ^ 23 ≤ m ∧ 2 ^ 23 * 2 ^ s ≤ N / D ∧ N / D < 2 ^ 24 * 2 ^ s)) := by
  unfold roundScaled
  simp only
  have hq := quantum_range (N / D)
  generalize Nat.log2 (N / D) - 23 = s at *
  have hd : 0 < D * 2 ^ s := by positivity
  have ht1 : N / D * D ≤ N := Nat.div_mul_le_self N D
  have ht2 : N < D * (N / D + 1) := Nat.lt_mul_div_succ N hD
  refine ⟨s, _, rfl, rfl, ?_, ?_⟩
  · apply rne_upper _ _ _ hd
    rcases hq with ⟨hs, ht⟩ | ⟨hs, hlo, hhi⟩
    · have h1 : D * (N / D + 1) ≤ D * 2 ^ 24 := Nat.mul_le_mul_left _ (by omega)
      have h2 : D * 2 ^ 24 = 2 ^ 24 * (D * 2 ^ s) := by rw [hs]; ring
      omega
    · have h1 : D * (N / D + 1) ≤ D * (2 ^ 24 * 2 ^ s) := Nat.mul_le_mul_left _ (by omega)
      have h2 : D * (2 ^ 24 * 2 ^ s) = 2 ^ 24 * (D * 2 ^ s) := by ring
      omega
  · rcases hq with ⟨hs, ht⟩ | ⟨hs, hlo, hhi⟩
    · exact Or.inl ⟨hs, ht⟩
    · refine Or.inr ⟨hs, rne_lower _ _ _ hd ?_, hlo, hhi⟩
      calc 2 ^ 23 * (D * 2 ^ s) = (2 ^ 23 * 2 ^ s) * D := by ring
        _ ≤ N / D * D := Nat.mul_le_mul_right _ hlo
        _ ≤ N := ht1

/-- **Range**: the rounded pattern is a finite binary32 exactly when the number is below
MaxFloat32 + ½ulp = (2^25 − 1)·2^103 (here in units of 2^-149: (2^25 − 1)·2^252). -/
theorem roundScaled_finite_iff (N D : Nat) (hD : 0 < D) :
    roundScaled N D < 255 * 2 ^ 23 ↔ N < (2 ^ 25 - 1) * 2 ^ 252 * D := by
  obtain ⟨s, m, hb, hm, hmU, hcase⟩ := roundScaled_parts N D hD
  rw [hb]
  have hd : 0 < D * 2 ^ s := by positivity
  have p252 : s ≤ 252 → 2 ^ s ≤ 2 ^ 252 := fun h => Nat.pow_le_pow_right (by norm_num) h
  have p254 : 254 ≤ s → 2 ^ 254 ≤ 2 ^ s := fun h => Nat.pow_le_pow_right (by norm_num) h
  have hdiv1 : N < (2 ^ 25 - 1) * 2 ^ 252 * D → N / D < (2 ^ 25 - 1) * 2 ^ 252 := by
    intro h; exact Nat.div_lt_of_lt_mul (by rw [Nat.mul_comm]; exact h)
  have hdiv2 : (2 ^ 25 - 1) * 2 ^ 252 * D ≤ N → (2 ^ 25 - 1) * 2 ^ 252 ≤ N / D := by
    intro h; exact (Nat.le_div_iff_mul_le hD).mpr h
  constructor
  · intro hfin
    by_contra hN
    have hN' := hdiv2 (by omega)
    have hs : 253 ≤ s := by
      by_contra hs
      have := p252 (by omega)
      rcases hcase with ⟨_, ht⟩ | ⟨_, _, _, hhi⟩
      · norm_num at ht hN'; omega
      · generalize 2 ^ s = P at *
        norm_num at *
        omega
    rcases hcase with ⟨h0, _⟩ | ⟨_, hmL, _, _⟩
    · omega
    · rcases Nat.lt_or_ge s 254 with h1 | h1
      · have hs' : s = 253 := by omega
        subst hs'
        have : 2 ^ 24 ≤ m := by
          rw [hm]
          apply rne_ge_of _ _ _ hd (by norm_num)
          norm_num at hN ⊢
          omega
        norm_num at this hfin
        omega
      · norm_num at hmL hfin
        omega
  · intro hN
    have hN' := hdiv1 hN
    have hs : s ≤ 253 := by
      by_contra hs
      have := p254 (by omega)
      rcases hcase with ⟨h0, _⟩ | ⟨_, _, hlo, _⟩
      · omega
      · generalize 2 ^ s = P at *
        norm_num at *
        omega
    rcases Nat.lt_or_ge s 253 with h1 | h1
    · norm_num at hmU ⊢
      omega
    · have hs' : s = 253 := by omega
      subst hs'
      have : m < 2 ^ 24 := by
        rw [hm]
        apply rne_lt_of _ _ _ hd
        norm_num at hN ⊢
        omega
      norm_num at this ⊢
      omega

/-- **Range, rational form**: `roundF32 n d` is a finite binary32 pattern iff
`n/d < MaxFloat32 + ½ulp = (2^25 − 1)·2^103`; at or above that threshold (ties to even: the even
neighbour of the threshold would be 2^128) the number is outside the format. -/
theorem roundF32_finite_iff (n d : Nat) (hd : 0 < d) :
    roundF32 n d < f32Inf ↔ (n : ℚ) / d < (2 ^ 25 - 1) * 2 ^ 103 := by
  unfold roundF32
  have hI : f32Inf = 255 * 2 ^ 23 := by unfold f32Inf; norm_num
  rw [hI, roundScaled_finite_iff _ _ hd]
  have hd' : (0 : ℚ) < d := by exact_mod_cast hd
  rw [div_lt_iff₀ hd']
  have e : (2 ^ 25 - 1) * 2 ^ 252 * d = ((2 ^ 25 - 1) * 2 ^ 103 * d) * 2 ^ 149 := by
    have : (2 : Nat) ^ 252 = 2 ^ 103 * 2 ^ 149 := by rw [← pow_add]
    rw [this]; ring
  rw [e, Nat.mul_lt_mul_right (by positivity : 0 < 2 ^ 149)]
  constructor
  · intro h
    have : ((n : Nat) : ℚ) < (((2 ^ 25 - 1) * 2 ^ 103 * d : Nat) : ℚ) := by exact_mod_cast h
    rw [Nat.cast_mul, Nat.cast_mul, Nat.cast_sub (by norm_num)] at this
    push_cast at this
    linarith
  · intro h
    have : ((n : Nat) : ℚ) < (((2 ^ 25 - 1) * 2 ^ 103 * d : Nat) : ℚ) := by
      rw [Nat.cast_mul, Nat.cast_mul, Nat.cast_sub (by norm_num)]
      push_cast
      linarith
    exact_mod_cast this

theorem Dec.abs_value (x : Dec) : |x.value| = (x.frac.1 : ℚ) / (x.frac.2 : ℚ) := by
  obtain ⟨hd, hf⟩ := x.frac_spec
  have hnn : (0 : ℚ) ≤ (x.frac.1 : ℚ) / (x.frac.2 : ℚ) := by positivity
  rw [hf] at hnn ⊢
  unfold Dec.value
  split_ifs
  · rw [neg_one_mul, abs_neg, abs_of_nonneg hnn]
  · rw [one_mul, abs_of_nonneg hnn]

/-- the model's parser reports an error for a decimal literal exactly when the magnitude written is
at least MaxFloat32 + ½ulp -/
theorem parseF32_none_iff (tok : Bytes) (x : Dec) (hx : parseDec tok = some x) :
    parseF32 tok = none ↔ (2 ^ 25 - 1) * 2 ^ 103 ≤ |x.value| := by
  obtain ⟨hd, _⟩ := x.frac_spec
  have hiff := roundF32_finite_iff x.frac.1 x.frac.2 hd
  rw [x.abs_value]
  unfold parseF32
  rw [hx]
  dsimp only
  unfold Dec.bits
  by_cases hfin : roundF32 x.frac.1 x.frac.2 ≥ f32Inf
  · rw [if_pos hfin]
    have : ¬ ((x.frac.1 : ℚ) / (x.frac.2 : ℚ) < (2 ^ 25 - 1) * 2 ^ 103) := fun h => by
      have := hiff.mpr h; omega
    exact ⟨fun _ => not_lt.mp this, fun _ => rfl⟩
  · rw [if_neg hfin]
    have := hiff.mp (by omega)
    constructor
    · intro h; cases h
    · intro h; linarith
end M3d.Codec
