import M3d.Model.MarchingMesh
/-!
The local→global lift for marching squares: from facts about single rows of the lookup table
(and pairs of rows across a shared lattice edge) to *every* lattice labelling with an empty outer
layer: every mesh vertex has exactly one incoming and one outgoing segment.  Core-only.
-/
namespace M3d.Marching

/-- Local doubled position of the vertex on square edge `e` inside its cell: one of
`(1,0) (1,2) (0,1) (2,1)` for the four square edges. -/
def loc (e : Vtx) : Nat × Nat := (bit e.1 0 + bit e.2 0, bit e.1 1 + bit e.2 1)

/-- Number of segments of a row whose start (`sel = false`) / end (`sel = true`) sits at local
position `p`. -/
def locCnt (sel : Bool) (row : List (List Nat)) (p : Nat × Nat) : Nat :=
  (rowSegs row).countP fun s => loc (if sel then s.2 else s.1) == p

/-- The segments cell `(x,y)` contributes to `msMesh`. -/
def cellSegs (table : List (List (List Nat))) (lab : Nat → Nat → Bool) (x y : Nat) : List (GV2 × GV2) :=
  (getRow table (cellCfg2 lab x y)).filterMap fun r => match r with
    | [a0, a1, b0, b1] => some (gv2Of x y a0 a1, gv2Of x y b0 b1)
    | _ => none

theorem msMesh_eq (table : List (List (List Nat))) (nx ny : Nat) (lab : Nat → Nat → Bool) :
    msMesh table nx ny lab =
      (List.range ny).flatMap fun y => (List.range nx).flatMap fun x => cellSegs table lab x y := rfl

theorem gv2Of_eq_loc (x y a b : Nat) :
    gv2Of x y a b = (2 * x + (loc (mkVtx a b)).1, 2 * y + (loc (mkVtx a b)).2) := by
  unfold gv2Of loc mkVtx cornerOff
  by_cases h : a ≤ b
  · simp [h, Nat.add_assoc]
  · simp [h]; omega

theorem cellSegs_eq_map (table : List (List (List Nat))) (lab : Nat → Nat → Bool) (x y : Nat) :
    cellSegs table lab x y =
      (rowSegs (getRow table (cellCfg2 lab x y))).map fun s =>
        ((2 * x + (loc s.1).1, 2 * y + (loc s.1).2), (2 * x + (loc s.2).1, 2 * y + (loc s.2).2)) := by
  unfold cellSegs rowSegs
  rw [List.map_filterMap]
  congr 1
  funext r
  rcases r with _ | ⟨a0, _ | ⟨a1, _ | ⟨b0, _ | ⟨b1, _ | ⟨c, r⟩⟩⟩⟩⟩ <;> simp [segEnds, gv2Of_eq_loc]

/-- Count of segments of a mesh starting (`sel = false`) / ending (`sel = true`) at `v`. -/
def cnt (sel : Bool) (m : List (GV2 × GV2)) (v : GV2) : Nat :=
  m.countP fun s => (if sel then s.2 else s.1) == v

theorem loc_le (e : Vtx) : (loc e).1 ≤ 2 ∧ (loc e).2 ≤ 2 := by
  unfold loc bit
  constructor <;> omega

/-- What a single cell contributes at a global vertex. -/
theorem cnt_cellSegs (sel : Bool) (table : List (List (List Nat))) (lab : Nat → Nat → Bool)
    (x y : Nat) (v : GV2) :
    cnt sel (cellSegs table lab x y) v =
      if 2 * x ≤ v.1 ∧ v.1 ≤ 2 * x + 2 ∧ 2 * y ≤ v.2 ∧ v.2 ≤ 2 * y + 2 then
        locCnt sel (getRow table (cellCfg2 lab x y)) (v.1 - 2 * x, v.2 - 2 * y)
      else 0 := by
  rw [cellSegs_eq_map]
  unfold cnt locCnt
  rw [List.countP_map]
  obtain ⟨X, Y⟩ := v
  by_cases hb : 2 * x ≤ X ∧ X ≤ 2 * x + 2 ∧ 2 * y ≤ Y ∧ Y ≤ 2 * y + 2
  · rw [if_pos hb]
    apply List.countP_congr
    intro s _
    cases sel <;> simp only [Function.comp, Bool.false_eq_true, if_false, if_true, beq_iff_eq, Prod.ext_iff] <;>
      constructor <;> intro h <;> constructor <;> omega
  · rw [if_neg hb]
    apply List.countP_eq_zero.2
    intro s _
    have h1 := loc_le s.1
    have h2 := loc_le s.2
    cases sel <;> simp only [Function.comp, Bool.false_eq_true, if_false, if_true, beq_iff_eq, Prod.ext_iff] <;>
      intro h <;> apply hb <;> omega

/-! ### Sums over a range supported on one or two indices -/

def rsum (n : Nat) (f : Nat → Nat) : Nat := ((List.range n).map f).sum

theorem rsum_succ (n : Nat) (f : Nat → Nat) : rsum (n + 1) f = rsum n f + f n := by
  unfold rsum
  rw [List.range_succ, List.map_append, List.sum_append]; simp

theorem rsum_zero_of (n : Nat) (f : Nat → Nat) (h : ∀ k, k < n → f k = 0) : rsum n f = 0 := by
  induction n with
  | zero => rfl
  | succ n ih => rw [rsum_succ, ih (fun k hk => h k (by omega)), h n (by omega)]

/-- A sum supported on the single index `a`. -/
theorem rsum_single (n a : Nat) (f : Nat → Nat) (h : ∀ k, k < n → k ≠ a → f k = 0) :
    rsum n f = if a < n then f a else 0 := by
  induction n with
  | zero => simp [rsum]
  | succ n ih =>
    rw [rsum_succ, ih (fun k hk hne => h k (by omega) hne)]
    by_cases e : n = a
    · subst e; simp
    · rw [h n (by omega) e]
      by_cases h1 : a < n
      · simp [h1]; omega
      · simp [h1]; omega

/-- A sum supported on the two distinct indices `a` and `b`. -/
theorem rsum_pair (n a b : Nat) (hab : a ≠ b) (f : Nat → Nat)
    (h : ∀ k, k < n → k ≠ a → k ≠ b → f k = 0) :
    rsum n f = (if a < n then f a else 0) + (if b < n then f b else 0) := by
  induction n with
  | zero => simp [rsum]
  | succ n ih =>
    rw [rsum_succ, ih (fun k hk h1 h2 => h k (by omega) h1 h2)]
    by_cases ea : n = a
    · subst ea
      have hnn : ¬ (n < n) := by omega
      have hn1 : n < n + 1 := by omega
      by_cases hb : b < n
      · have hb1 : b < n + 1 := by omega
        simp [hb, hb1, hnn, hn1]; omega
      · have hb1 : ¬ b < n + 1 := by omega
        simp [hb, hb1, hnn, hn1]
    · by_cases eb : n = b
      · subst eb
        have hnn : ¬ (n < n) := by omega
        have hn1 : n < n + 1 := by omega
        by_cases ha : a < n
        · have ha1 : a < n + 1 := by omega
          simp [ha, ha1, hnn, hn1]
        · have ha1 : ¬ a < n + 1 := by omega
          simp [ha, ha1, hnn, hn1]
      · rw [h n (by omega) ea eb]
        have h1 : (a < n + 1) = (a < n) := by apply propext; omega
        have h2 : (b < n + 1) = (b < n) := by apply propext; omega
        simp [h1, h2]

theorem cnt_msMesh (sel : Bool) (table : List (List (List Nat))) (nx ny : Nat)
    (lab : Nat → Nat → Bool) (v : GV2) :
    cnt sel (msMesh table nx ny lab) v =
      rsum ny fun y => rsum nx fun x => cnt sel (cellSegs table lab x y) v := by
  rw [msMesh_eq]
  unfold cnt rsum
  rw [List.countP_flatMap]
  congr 1
  apply List.map_congr_left
  intro y _
  simp only [Function.comp]
  rw [List.countP_flatMap]
  rfl

end M3d.Marching
