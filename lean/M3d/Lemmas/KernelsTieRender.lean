import M3d.Gen.Kernels
import M3d.Model.Render
import Mathlib.Tactic.Ring
import Mathlib.Tactic.SplitIfs
import Mathlib.Tactic.NormNum
import Mathlib.Algebra.Order.Field.Basic
/-!
# Tie between the REGENERATED kernels and the renderer models of C20 (`M3d/Model/Render.lean`)

`Camera.axes`, `NewCameraAt`, `PointLight.ShadeCollision` and the `Matrix3` algebra used by
`Camera.Uncaster` / `MatrixMultiply` as `render3d/camera.go`, `light.go` and `model3d/matrix.go` define them
NOW are the model functions of the C20 theorems (camera projection/un-projection inverse, closed-form lit
scenes), for every linear ordered field and square root, with `pd = 1 / tan(fov / 2)`.
-/
namespace M3d.KernelsTie.Render
open M3d.Render M3d.Gen.Kernels
set_option linter.unusedSectionVars false
set_option linter.unusedVariables false
set_option linter.unusedSimpArgs false

variable {K : Type} [Field K] [LinearOrder K] [IsStrictOrderedRing K] [GenPrelude.HasLibm K]

@[reducible] def g3 (a : V3 K) : model3d.Coord3D K := ⟨a.x, a.y, a.z⟩
@[reducible] def gm3 (m : M3 K) : model3d.Matrix3 K := ⟨m.m0, m.m1, m.m2, m.m3, m.m4, m.m5, m.m6, m.m7, m.m8⟩
@[reducible] def sqrtOf (sq : K → K) : GenPrelude.HasSqrt K := ⟨sq⟩

theorem add_eq (a b : V3 K) : model3d.Coord3D_Add (g3 a) (g3 b) = g3 (a.add b) := rfl
theorem scale_eq (a : V3 K) (s : K) : model3d.Coord3D_Scale (g3 a) s = g3 (a.scale s) := rfl
theorem dot_eq (a b : V3 K) : model3d.Coord3D_Dot (g3 a) (g3 b) = a.dot b := rfl
theorem cross_eq (a b : V3 K) : model3d.Coord3D_Cross (g3 a) (g3 b) = g3 (a.cross b) := rfl
theorem sub_eq (a b : V3 K) : model3d.Coord3D_Sub (g3 a) (g3 b) = g3 (a.sub b) := by
  cases a; cases b
  simp [model3d.Coord3D_Sub, model3d.Coord3D_Add, model3d.Coord3D_Scale, V3.sub]
  try (refine ⟨?_, ?_, ?_⟩ <;> ring)

theorem det_eq (m : M3 K) : model3d.Matrix3_Det (gm3 m) = m.det := rfl
theorem inverse_eq (m : M3 K) : model3d.Matrix3_Inverse (gm3 m) = gm3 m.inverse := rfl
theorem mulColumn_eq (m : M3 K) (c : V3 K) : model3d.Matrix3_MulColumn (gm3 m) (g3 c) = g3 (m.mulColumn c) := rfl
theorem transpose_eq (m : M3 K) : model3d.Matrix3_Transpose (gm3 m) = gm3 m.transpose := rfl
theorem mul_eq (a b : M3 K) : model3d.Matrix3_Mul (gm3 a) (gm3 b) = gm3 (a.mulM b) := rfl
theorem columns_eq (a b c : V3 K) : model3d.NewMatrix3Columns (g3 a) (g3 b) (g3 c) = gm3 (M3.ofColumns a b c) := rfl

section sq
variable (sq : K → K)

theorem norm_eq (a : V3 K) : (letI := sqrtOf sq; model3d.Coord3D_Norm (g3 a)) = a.norm sq := rfl
theorem normalize_eq (a : V3 K) : (letI := sqrtOf sq; model3d.Coord3D_Normalize (g3 a)) = g3 (a.normalize sq) := rfl
theorem projectOut_eq (a b : V3 K) :
    (letI := sqrtOf sq; model3d.Coord3D_ProjectOut (g3 a) (g3 b)) = g3 (a.projectOut sq b) := by
  unfold model3d.Coord3D_ProjectOut V3.projectOut
  simp only [normalize_eq, dot_eq, scale_eq, sub_eq]

/-- `Camera.axes(w, h)` with the plane distance `1 / tan(fov / 2)`. -/
theorem camera_axes_eq (o sx sy : V3 K) (fov w h : K) :
    (letI := sqrtOf sq; render3d.Camera_axes ⟨g3 o, g3 sx, g3 sy, fov⟩ w h) =
      (let r := Camera.axes sq ⟨o, sx, sy, 1 / GenPrelude.HasLibm.tan (fov / 2)⟩ w h
       (g3 r.1, g3 r.2.1, g3 r.2.2)) := by
  unfold render3d.Camera_axes Camera.axes
  simp only [decide_eq_true_eq, gt_iff_lt]
  simp only [cross_eq, normalize_eq, scale_eq]
  split_ifs <;> rfl

/-- `NewCameraAt(source, dest, fov)` for `fov ≠ 0`; the model carries `pd` instead of the field of view. -/
theorem newCameraAt_eq (source dest : V3 K) (fov pd : K) (hf : GenPrelude.feq fov 0 = false) :
    (letI := sqrtOf sq;
      let c := render3d.NewCameraAt (g3 source) (g3 dest) fov
      (c.Origin, c.ScreenX, c.ScreenY, c.FieldOfView)) =
      (let m := newCameraAt sq (1.0e-5 : K) pd source dest
       (g3 m.origin, g3 m.screenX, g3 m.screenY, fov)) := by
  unfold render3d.NewCameraAt newCameraAt
  simp only [hf, decide_eq_true_eq]
  simp only [sub_eq, normalize_eq, show (model3d.X (1 : K)) = g3 ⟨1, 0, 0⟩ from rfl, projectOut_eq, cross_eq,
    show ∀ z : V3 K, (⟨z.y, -z.x, 0⟩ : model3d.Coord3D K) = g3 ⟨z.y, -z.x, 0⟩ from fun _ => rfl, norm_eq]
  split_ifs <;> first | rfl | contradiction

/-- `PointLight.ShadeCollision` (`0.25 * max(0, n·l̂)` times the possibly attenuated colour). -/
theorem pointLight_shade_eq (o col : V3 K) (q : Bool) (n p2l : V3 K) :
    (letI := sqrtOf sq; render3d.PointLight_ShadeCollision ⟨g3 o, g3 col, q⟩ (g3 n) (g3 p2l)) =
      g3 (PointLight.shade sq ⟨o, col, q⟩ n p2l) := by
  unfold render3d.PointLight_ShadeCollision render3d.PointLight_ColorAtDistance PointLight.shade
  have h25 : (0.25 : K) = 1 / 4 := by norm_num
  simp only [norm_eq, scale_eq, dot_eq, h25, GenPrelude.mx]
  cases q <;> simp <;> split_ifs <;> rfl

end sq

end M3d.KernelsTie.Render
