import M3d.Lemmas.CollideBall
import Mathlib.Data.Finset.Card
import Mathlib.Data.List.Nodup
/-!
# C07 — parity ("count is odd iff the ray starts inside") for convex solids given by half-spaces

The one-dimensional core: along a ray every half-space `n·x ≤ b` becomes an affine constraint
`A + t·B ≤ 0` (`A = n·o - b`, `B = n·d`).  With `B ≠ 0` for every constraint the admissible parameters form an
interval whose end points are where an *entering* (`B < 0`) resp. *exiting* (`B > 0`) constraint is active;
the boundary parameters `t ≥ 0` are the exit alone when the origin is inside, and none or entry + exit when it
is outside.
-/
set_option linter.unusedSectionVars false
set_option linter.unusedVariables false
namespace M3d.Col

variable {K : Type} [Field K] [LinearOrder K] [IsStrictOrderedRing K]

/-! ## minima over lists -/

theorem exists_min_on_list {ι : Type} (f : ι → K) : ∀ (l : List ι), l ≠ [] → ∃ x ∈ l, ∀ y ∈ l, f x ≤ f y
  | [], h => absurd rfl h
  | [a], _ => ⟨a, List.mem_singleton.2 rfl, fun y hy => by rw [List.mem_singleton.1 hy]⟩
  | a :: b :: l, _ => by
    obtain ⟨x, hx, hmin⟩ := exists_min_on_list f (b :: l) (List.cons_ne_nil _ _)
    by_cases hax : f a ≤ f x
    · refine ⟨a, List.mem_cons_self, fun y hy => ?_⟩
      rcases List.mem_cons.1 hy with h | h
      · rw [h]
      · exact le_trans hax (hmin y h)
    · refine ⟨x, List.mem_cons_of_mem _ hx, fun y hy => ?_⟩
      rcases List.mem_cons.1 hy with h | h
      · rw [h]; exact le_of_lt (not_le.1 hax)
      · exact hmin y h

theorem exists_max_on_list {ι : Type} (f : ι → K) (l : List ι) (h : l ≠ []) : ∃ x ∈ l, ∀ y ∈ l, f y ≤ f x := by
  obtain ⟨x, hx, hm⟩ := exists_min_on_list (fun i => -f i) l h
  exact ⟨x, hx, fun y hy => by have := hm y hy; linarith⟩

/-! ## the 1-D core -/

section Core
variable {ι : Type} (l : List ι) (A B : ι → K)

/-- the parameter `t` satisfies every constraint -/
def In1 (t : K) : Prop := ∀ i ∈ l, A i + t * B i ≤ 0
/-- … and some constraint is active -/
def Bd1 (t : K) : Prop := In1 l A B t ∧ ∃ i ∈ l, A i + t * B i = 0
/-- a boundary parameter in front of the origin -/
def Hit1 (t : K) : Prop := 0 ≤ t ∧ Bd1 l A B t

theorem not_in_after_exit {t s : K} {i : ι} (hi : i ∈ l) (hact : A i + t * B i = 0) (hB : 0 < B i) (hs : t < s) :
    ¬ In1 l A B s := by
  intro hin
  have := hin i hi
  nlinarith

theorem not_in_before_entry {t s : K} {i : ι} (hi : i ∈ l) (hact : A i + t * B i = 0) (hB : B i < 0) (hs : s < t) :
    ¬ In1 l A B s := by
  intro hin
  have := hin i hi
  nlinarith

theorem exit_unique {t t' : K} {i j : ι} (hi : i ∈ l) (hj : j ∈ l) (hit : In1 l A B t) (hit' : In1 l A B t')
    (ha : A i + t * B i = 0) (hBi : 0 < B i) (ha' : A j + t' * B j = 0) (hBj : 0 < B j) : t = t' := by
  rcases lt_trichotomy t t' with h | h | h
  · exact absurd hit' (not_in_after_exit l A B hi ha hBi h)
  · exact h
  · exact absurd hit (not_in_after_exit l A B hj ha' hBj h)

theorem entry_unique {t t' : K} {i j : ι} (hi : i ∈ l) (hj : j ∈ l) (hit : In1 l A B t) (hit' : In1 l A B t')
    (ha : A i + t * B i = 0) (hBi : B i < 0) (ha' : A j + t' * B j = 0) (hBj : B j < 0) : t = t' := by
  rcases lt_trichotomy t t' with h | h | h
  · exact absurd hit (not_in_before_entry l A B hj ha' hBj h)
  · exact h
  · exact absurd hit' (not_in_before_entry l A B hi ha hBi h)

/-- from an admissible parameter `t0` the exit exists (if some constraint is exiting) -/
theorem exit_exists (hB : ∀ i ∈ l, B i ≠ 0) (hexit : ∃ i ∈ l, 0 < B i) {t0 : K} (h0 : In1 l A B t0) :
    ∃ t, t0 ≤ t ∧ In1 l A B t ∧ ∃ i ∈ l, 0 < B i ∧ A i + t * B i = 0 := by
  classical
  obtain ⟨i0, hi0, hB0⟩ := hexit
  have hne : l.filter (fun i => decide (0 < B i)) ≠ [] := by
    intro h
    have : i0 ∈ l.filter (fun i => decide (0 < B i)) := List.mem_filter.2 ⟨hi0, by simpa using hB0⟩
    rw [h] at this; cases this
  obtain ⟨m, hm, hmin⟩ := exists_min_on_list (fun i => -A i / B i) _ hne
  obtain ⟨hml, hmB⟩ := List.mem_filter.1 hm
  have hmB : 0 < B m := by simpa using hmB
  have hact : A m + (-A m / B m) * B m = 0 := by field_simp; ring
  refine ⟨-A m / B m, ?_, ?_, m, hml, hmB, hact⟩
  · have := h0 m hml
    rw [le_div_iff₀ hmB]; linarith
  · intro i hi
    rcases lt_or_gt_of_ne (hB i hi) with hneg | hpos
    · -- entering constraint: admissible at t0 and t ≥ t0
      have h1 := h0 i hi
      have ht : t0 ≤ -A m / B m := by
        have := h0 m hml
        rw [le_div_iff₀ hmB]; linarith
      nlinarith
    · have hle := hmin i (List.mem_filter.2 ⟨hi, by simpa using hpos⟩)
      have hle' : -A m / B m ≤ -A i / B i := hle
      have e : A i + (-A i / B i) * B i = 0 := by field_simp; ring
      nlinarith

/-- from an admissible parameter `t1` the entry exists (if some constraint is entering) -/
theorem entry_exists (hB : ∀ i ∈ l, B i ≠ 0) (hentry : ∃ i ∈ l, B i < 0) {t1 : K} (h1 : In1 l A B t1) :
    ∃ t, t ≤ t1 ∧ In1 l A B t ∧ (∀ i ∈ l, B i < 0 → -A i / B i ≤ t) ∧ ∃ i ∈ l, B i < 0 ∧ A i + t * B i = 0 := by
  classical
  obtain ⟨i0, hi0, hB0⟩ := hentry
  have hne : l.filter (fun i => decide (B i < 0)) ≠ [] := by
    intro h
    have : i0 ∈ l.filter (fun i => decide (B i < 0)) := List.mem_filter.2 ⟨hi0, by simpa using hB0⟩
    rw [h] at this; cases this
  obtain ⟨m, hm, hmax⟩ := exists_max_on_list (fun i => -A i / B i) _ hne
  obtain ⟨hml, hmB⟩ := List.mem_filter.1 hm
  have hmB : B m < 0 := by simpa using hmB
  have hmne : B m ≠ 0 := ne_of_lt hmB
  have hact : A m + (-A m / B m) * B m = 0 := by field_simp; ring
  have ht : -A m / B m ≤ t1 := by
    have := h1 m hml
    rw [div_le_iff_of_neg hmB]; linarith
  refine ⟨-A m / B m, ht, ?_, ?_, m, hml, hmB, hact⟩
  · intro i hi
    rcases lt_or_gt_of_ne (hB i hi) with hneg | hpos
    · have hle : -A i / B i ≤ -A m / B m := hmax i (List.mem_filter.2 ⟨hi, by simpa using hneg⟩)
      have e : A i + (-A i / B i) * B i = 0 := by
        have := ne_of_lt hneg
        field_simp; ring
      nlinarith
    · have h1' := h1 i hi
      nlinarith
  · intro i hi hneg
    exact hmax i (List.mem_filter.2 ⟨hi, by simpa using hneg⟩)

/-- **inside**: exactly one boundary parameter in front of the origin (the exit) -/
theorem hits_inside (hB : ∀ i ∈ l, B i ≠ 0) (hexit : ∃ i ∈ l, 0 < B i) (hin : ∀ i ∈ l, A i < 0) :
    ∃ tx, ∀ t, Hit1 l A B t ↔ t = tx := by
  have h0 : In1 l A B 0 := fun i hi => by have := hin i hi; linarith
  obtain ⟨tx, htx0, htxin, ix, hix, hixB, hixa⟩ := exit_exists l A B hB hexit h0
  refine ⟨tx, fun t => ⟨?_, ?_⟩⟩
  · rintro ⟨ht0, htin, i, hi, hact⟩
    rcases lt_or_gt_of_ne (hB i hi) with hneg | hpos
    · exfalso
      have := hin i hi
      nlinarith
    · exact exit_unique l A B hi hix htin htxin hact hpos hixa hixB
  · rintro rfl
    exact ⟨htx0, htxin, ix, hix, hixa⟩

/-- **outside**: no boundary parameter in front of the origin, or exactly two (entry and exit) -/
theorem hits_outside (hB : ∀ i ∈ l, B i ≠ 0) (hexit : ∃ i ∈ l, 0 < B i) (hout : ∃ i ∈ l, 0 < A i)
    (hsame : ∀ t, In1 l A B t → ∀ i ∈ l, ∀ j ∈ l, A i + t * B i = 0 → A j + t * B j = 0 → (0 < B i ↔ 0 < B j)) :
    (∀ t, ¬ Hit1 l A B t) ∨ ∃ a b, a ≠ b ∧ ∀ t, Hit1 l A B t ↔ t = a ∨ t = b := by
  by_cases hH : ∃ t, Hit1 l A B t
  · right
    obtain ⟨t, ht0, htin, _⟩ := hH
    obtain ⟨i0, hi0, hA0⟩ := hout
    have hi0in := htin i0 hi0
    have hB0 : B i0 < 0 := by
      rcases lt_or_gt_of_ne (hB i0 hi0) with h | h
      · exact h
      · exfalso; nlinarith
    obtain ⟨tn, htn_le, htnin, htnmax, jn, hjn, hjnB, hjna⟩ := entry_exists l A B hB ⟨i0, hi0, hB0⟩ htin
    obtain ⟨tx, htx_ge, htxin, jx, hjx, hjxB, hjxa⟩ := exit_exists l A B hB hexit htin
    have htn0 : 0 < tn := by
      have h1 := htnmax i0 hi0 hB0
      have : 0 < -A i0 / B i0 := div_pos_of_neg_of_neg (by linarith) hB0
      linarith
    have hne : tn ≠ tx := by
      intro he
      rw [← he] at hjxa
      have := (hsame tn htnin jn hjn jx hjx hjna hjxa).2 hjxB
      linarith
    refine ⟨tn, tx, hne, fun s => ⟨?_, ?_⟩⟩
    · rintro ⟨hs0, hsin, i, hi, hact⟩
      rcases lt_or_gt_of_ne (hB i hi) with hneg | hpos
      · left; exact entry_unique l A B hi hjn hsin htnin hact hneg hjna hjnB
      · right; exact exit_unique l A B hi hjx hsin htxin hact hpos hjxa hjxB
    · rintro (rfl | rfl)
      · exact ⟨le_of_lt htn0, htnin, jn, hjn, hjna⟩
      · exact ⟨by linarith, htxin, jx, hjx, hjxa⟩
  · left
    exact fun t ht => hH ⟨t, ht⟩

/-- **parity, 1-D**: a duplicate-free list of exactly the boundary parameters `t ≥ 0` has odd length iff the
origin satisfies every constraint strictly. -/
theorem parity_1d (hB : ∀ i ∈ l, B i ≠ 0) (hexit : ∃ i ∈ l, 0 < B i) (horigin : ¬ Bd1 l A B 0)
    (hsame : ∀ t, In1 l A B t → ∀ i ∈ l, ∀ j ∈ l, A i + t * B i = 0 → A j + t * B j = 0 → (0 < B i ↔ 0 < B j))
    (ts : List K) (hnd : ts.Nodup) (hts : ∀ t, t ∈ ts ↔ Hit1 l A B t) :
    ts.length % 2 = 1 ↔ ∀ i ∈ l, A i < 0 := by
  classical
  have hcard : ts.toFinset.card = ts.length := List.toFinset_card_of_nodup hnd
  by_cases hin : ∀ i ∈ l, A i < 0
  · obtain ⟨tx, htx⟩ := hits_inside l A B hB hexit hin
    have : ts.toFinset = {tx} := by
      ext t; simp only [List.mem_toFinset, Finset.mem_singleton, hts, htx]
    rw [← hcard, this, Finset.card_singleton]
    exact ⟨fun _ => hin, fun _ => rfl⟩
  · have hout : ∃ i ∈ l, 0 < A i := by
      by_contra hno
      apply horigin
      have hle : ∀ i ∈ l, A i ≤ 0 := fun i hi => not_lt.1 fun h => hno ⟨i, hi, h⟩
      refine ⟨fun i hi => by have := hle i hi; linarith, ?_⟩
      by_contra hna
      apply hin
      intro i hi
      rcases lt_or_eq_of_le (hle i hi) with h | h
      · exact h
      · exact absurd ⟨i, hi, by rw [h]; ring⟩ hna
    rcases hits_outside l A B hB hexit hout hsame with hnone | ⟨a, b, hab, hboth⟩
    · have : ts = [] := by
        apply List.eq_nil_iff_forall_not_mem.2
        intro t ht
        exact hnone t ((hts t).1 ht)
      rw [this]
      exact ⟨fun h => by simp at h, fun h => absurd h hin⟩
    · have : ts.toFinset = {a, b} := by
        ext t; simp only [List.mem_toFinset, Finset.mem_insert, Finset.mem_singleton, hts, hboth]
      rw [← hcard, this, Finset.card_pair hab]
      exact ⟨fun h => by simp at h, fun h => absurd h hin⟩

end Core

/-! ## convex solids in 3-D -/

/-- `n·x - b` for the half-space `(n, b)` = `{x | n·x ≤ b}` -/
def halfVal (h : V3 K × K) (x : V3 K) : K := h.1.dot x - h.2
/-- the convex solid: intersection of the closed half-spaces -/
def InPoly (hs : List (V3 K × K)) (x : V3 K) : Prop := ∀ h ∈ hs, halfVal h x ≤ 0
/-- strictly inside -/
def StrictIn (hs : List (V3 K × K)) (x : V3 K) : Prop := ∀ h ∈ hs, halfVal h x < 0
/-- on the surface: in the solid with an active face plane -/
def OnBoundary (hs : List (V3 K × K)) (x : V3 K) : Prop := InPoly hs x ∧ ∃ h ∈ hs, halfVal h x = 0

theorem halfVal_along (h : V3 K × K) (o d : V3 K) (t : K) :
    halfVal h (o.along d t) = halfVal h o + t * h.1.dot d := by
  simp only [halfVal, V3.along, V3.add, V3.scale, V3.dot]; ring

theorem halfVal_origin (h : V3 K × K) (o d : V3 K) : halfVal h o = halfVal h o + 0 * h.1.dot d := by ring

/-- **`parity_inside` for every convex solid given as an intersection of half-spaces.**  If the reported
parameters `ts` are, without repetition, exactly the parameters `t ≥ 0` at which the ray is on the surface,
and the ray is in general position — not parallel to any face plane, its origin not on the surface, and the
face planes active at a surface point of the ray all crossed in the same sense (the ray does not pass through
an edge or vertex where it would enter and leave at once) — and the solid is bounded in the direction of the
ray (some face is crossed outwards), then the number of reported collisions is odd iff the origin is inside. -/
theorem parity_convex (hs : List (V3 K × K)) (o d : V3 K)
    (hpar : ∀ h ∈ hs, h.1.dot d ≠ 0) (hexit : ∃ h ∈ hs, 0 < h.1.dot d) (horigin : ¬ OnBoundary hs o)
    (hsame : ∀ t, InPoly hs (o.along d t) → ∀ h1 ∈ hs, ∀ h2 ∈ hs, halfVal h1 (o.along d t) = 0 →
      halfVal h2 (o.along d t) = 0 → (0 < h1.1.dot d ↔ 0 < h2.1.dot d))
    (ts : List K) (hnd : ts.Nodup) (hts : ∀ t, t ∈ ts ↔ 0 ≤ t ∧ OnBoundary hs (o.along d t)) :
    ts.length % 2 = 1 ↔ StrictIn hs o := by
  have key := parity_1d hs (fun h => halfVal h o) (fun h => h.1.dot d) hpar hexit
    (by
      intro hb
      apply horigin
      obtain ⟨h1, h, hh, h2⟩ := hb
      refine ⟨fun g hg => ?_, h, hh, ?_⟩
      · have := h1 g hg; simpa using this
      · simpa using h2)
    (by
      intro t hin h1 hh1 h2 hh2 a1 a2
      refine hsame t (fun g hg => ?_) h1 hh1 h2 hh2 ?_ ?_
      · rw [halfVal_along]; exact hin g hg
      · rw [halfVal_along]; exact a1
      · rw [halfVal_along]; exact a2)
    ts hnd
    (by
      intro t
      rw [hts t]
      simp only [Hit1, Bd1, In1, OnBoundary, InPoly, halfVal_along])
  exact key

/-! ## closed convex triangle meshes: the model's hit list -/

/-- a triangle `(a, b, c)` -/
abbrev Tri (K : Type) := V3 K × V3 K × V3 K

/-- the plane of a face with the normal `(b-a)×(c-a)` (outward for a consistently oriented closed mesh) -/
def facePlane (F : Tri K) : V3 K × K :=
  (((F.2.1.sub F.1).cross (F.2.2.sub F.1)), ((F.2.1.sub F.1).cross (F.2.2.sub F.1)).dot F.1)

/-- `x` is a point of the (closed) triangle -/
def InTri (F : Tri K) (x : V3 K) : Prop :=
  ∃ u v, 0 ≤ u ∧ 0 ≤ v ∧ u + v ≤ 1 ∧ x = triPoint F.1 F.2.1 F.2.2 u v

/-- the parameters of the callbacks of the mesh collider (brute-force `JoinedCollider` over the triangles) -/
def meshTs (sqrtF : K → K) (eps : K) (faces : List (Tri K)) (o d : V3 K) : List K :=
  (faces.flatMap fun F => triHits sqrtF eps F.1 F.2.1 F.2.2 o d).map Hit.t

theorem inTri_plane_active (F : Tri K) (x : V3 K) (hx : InTri F x) : halfVal (facePlane F) x = 0 := by
  obtain ⟨u, v, _, _, _, rfl⟩ := hx
  simp only [halfVal, facePlane, triPoint, V3.add, V3.scale, V3.sub, V3.cross, V3.dot]; ring

theorem triEq_iff_point (a b c o d : V3 K) (t u v : K) :
    TriEq a b c o d t u v ↔ o.along d t = triPoint a b c u v := by
  simp only [TriEq, V3.along, triPoint, V3.add, V3.scale, V3.sub, V3.mk.injEq]

theorem facePlane_dot (F : Tri K) (d : V3 K) : triDet F.1 F.2.1 F.2.2 d = -((facePlane F).1.dot d) := by
  simp only [triDet, facePlane, V3.cross, V3.dot, V3.sub]; ring

/-- membership in the model's hit list = "the ray point at `t ≥ 0` lies in some triangle" (for rays that are
neither rejected as near-parallel nor parallel to a face) -/
theorem mem_meshTs_iff (sqrtF : K → K) (eps : K) (faces : List (Tri K)) (o d : V3 K)
    (hnp : ∀ F ∈ faces, ¬ triNearPar sqrtF eps F.1 F.2.1 F.2.2 d)
    (hpar : ∀ F ∈ faces, (facePlane F).1.dot d ≠ 0) (t : K) :
    t ∈ meshTs sqrtF eps faces o d ↔ 0 ≤ t ∧ ∃ F ∈ faces, InTri F (o.along d t) := by
  simp only [meshTs, List.mem_map, List.mem_flatMap]
  constructor
  · rintro ⟨h, ⟨F, hF, hh⟩, rfl⟩
    have hlen := triHits_length_le sqrtF eps F.1 F.2.1 F.2.2 o d
    have hl : (triHits sqrtF eps F.1 F.2.1 F.2.2 o d).map Hit.t = [h.t] := by
      match hq : triHits sqrtF eps F.1 F.2.1 F.2.2 o d, hh, hlen with
      | [x], hh, _ =>
        rw [List.mem_singleton.1 hh]; rfl
      | [], hh, _ => cases hh
      | _ :: _ :: _, _, hlen => simp at hlen
    obtain ⟨_, _, u, v, he, hu, hv, huv, ht⟩ := (triHits_ts_iff sqrtF eps F.1 F.2.1 F.2.2 o d h.t).1 hl
    exact ⟨ht, F, hF, u, v, hu, hv, huv, (triEq_iff_point _ _ _ _ _ _ _ _).1 he⟩
  · rintro ⟨ht, F, hF, u, v, hu, hv, huv, hx⟩
    have hdet : triDet F.1 F.2.1 F.2.2 d ≠ 0 := by
      rw [facePlane_dot]; exact neg_ne_zero.2 (hpar F hF)
    have hl := (triHits_ts_iff sqrtF eps F.1 F.2.1 F.2.2 o d t).2
      ⟨hnp F hF, hdet, u, v, (triEq_iff_point _ _ _ _ _ _ _ _).2 hx, hu, hv, huv, ht⟩
    match hq : triHits sqrtF eps F.1 F.2.1 F.2.2 o d, hl with
    | [x], hl =>
      refine ⟨x, ⟨F, hF, by rw [hq]; exact List.mem_singleton.2 rfl⟩, ?_⟩
      simpa using hl
    | [], hl => simp at hl
    | _ :: _ :: _, hl => simp at hl

/-- the count returned by the brute-force joined collider over the triangles is the length of the hit list -/
theorem meshTs_length (sqrtF : K → K) (eps : K) (faces : List (Tri K)) (o d : V3 K) (admits : V3 K × V3 K → Bool)
    (ha : admits (o, d) = true) (cb : Bool) :
    ((joined Hit.t admits (faces.map fun F => triCollider sqrtF eps F.1 F.2.1 F.2.2)).ray (o, d) cb).1 =
      (meshTs sqrtF eps faces o d).length := by
  show (joinedRay admits _ (o, d) cb).1 = _
  rw [joinedRay_eq admits _ (o, d) cb ha]
  simp only [meshTs, List.length_map, List.length_flatMap, List.map_map]
  congr 1

/-- **`parity_inside` for closed convex triangle meshes, on the model's hit list.**  `faces` triangulates the
boundary of the convex solid cut out by its own face planes (`hon`: every face lies in the solid; `hcover`:
every surface point lies in some face).  For a ray in general position (as in `parity_convex`, and no two
reported collisions coincide — the ray meets no edge shared by two faces) the number of collisions reported by
the mesh collider is odd iff the origin is inside. -/
theorem parity_convex_mesh (sqrtF : K → K) (eps : K) (faces : List (Tri K)) (o d : V3 K)
    (hon : ∀ F ∈ faces, ∀ x, InTri F x → InPoly (faces.map facePlane) x)
    (hcover : ∀ x, OnBoundary (faces.map facePlane) x → ∃ F ∈ faces, InTri F x)
    (hnp : ∀ F ∈ faces, ¬ triNearPar sqrtF eps F.1 F.2.1 F.2.2 d)
    (hpar : ∀ F ∈ faces, (facePlane F).1.dot d ≠ 0) (hexit : ∃ F ∈ faces, 0 < (facePlane F).1.dot d)
    (horigin : ¬ OnBoundary (faces.map facePlane) o)
    (hsame : ∀ t, InPoly (faces.map facePlane) (o.along d t) → ∀ h1 ∈ faces.map facePlane,
      ∀ h2 ∈ faces.map facePlane, halfVal h1 (o.along d t) = 0 → halfVal h2 (o.along d t) = 0 →
        (0 < h1.1.dot d ↔ 0 < h2.1.dot d))
    (hnd : (meshTs sqrtF eps faces o d).Nodup) :
    (meshTs sqrtF eps faces o d).length % 2 = 1 ↔ StrictIn (faces.map facePlane) o := by
  refine parity_convex (faces.map facePlane) o d ?_ ?_ horigin hsame _ hnd ?_
  · intro h hh
    obtain ⟨F, hF, rfl⟩ := List.mem_map.1 hh
    exact hpar F hF
  · obtain ⟨F, hF, hpos⟩ := hexit
    exact ⟨facePlane F, List.mem_map.2 ⟨F, hF, rfl⟩, hpos⟩
  · intro t
    rw [mem_meshTs_iff sqrtF eps faces o d hnp hpar t]
    refine and_congr_right fun _ => ⟨?_, hcover _⟩
    rintro ⟨F, hF, hx⟩
    exact ⟨hon F hF _ hx, facePlane F, List.mem_map.2 ⟨F, hF, rfl⟩, inTri_plane_active F _ hx⟩

end M3d.Col
