import M3d.Lemmas.FastMapRefine
/-! Point-wise laws of the fast map (derived from the simulation), used by the mesh proofs. Core-only. -/
namespace M3d.FastMap
set_option linter.unusedSectionVars false
variable {K V : Type} [DecidableEq K]

theorem exists_sim {h : K → UInt64} {fm : FM K V} (hi : Inv h fm) : ∃ ref, Sim h fm ref := by
  cases fm with
  | slow m => exact ⟨m, hi, hi, fun _ => rfl, rfl⟩
  | fast m =>
    obtain ⟨hn, hh⟩ := hi
    exact ⟨toSlow m, ⟨hn, hh⟩, nodup_toSlow m, fun k => (get_toSlow hn hh k).symm,
      by simp [len, length_toSlow hn hh]⟩

theorem inv_store {h : K → UInt64} {fm : FM K V} (hi : Inv h fm) (k : K) (v : V) :
    Inv h (store h fm k v) := by
  obtain ⟨ref, s⟩ := exists_sim hi
  exact (sim_store s k v).inv

theorem inv_delete {h : K → UInt64} {fm : FM K V} (hi : Inv h fm) (k : K) :
    Inv h (delete h fm k) := by
  obtain ⟨ref, s⟩ := exists_sim hi
  exact (sim_delete s k).inv

theorem load_store {h : K → UInt64} {fm : FM K V} (hi : Inv h fm) (k k' : K) (v : V) :
    load h (store h fm k v) k' = if k' = k then some v else load h fm k' := by
  obtain ⟨ref, s⟩ := exists_sim hi
  rw [(sim_store s k v).load_eq, get_put, s.load_eq]

theorem load_delete {h : K → UInt64} {fm : FM K V} (hi : Inv h fm) (k k' : K) :
    load h (delete h fm k) k' = if k' = k then none else load h fm k' := by
  obtain ⟨ref, s⟩ := exists_sim hi
  rw [(sim_delete s k).load_eq, s.load_eq]
  by_cases e : k' = k
  · subst e; simp [get_del_self]
  · simp [e, get_del_ne _ e]

/-- `CoordToSlice.Append` is load-then-store. -/
theorem append_eq_store {T : Type} {h : K → UInt64} {fm : FM K (List T)} (hi : Inv h fm)
    (k : K) (x : T) : append h fm k x = store h fm k ((load h fm k).getD [] ++ [x]) := by
  cases fm with
  | slow m => simp [append, store, load]
  | fast m =>
    obtain ⟨hn, hh⟩ := hi
    simp only [append, store, load]
    cases hg : get m (h k) with
    | none => simp
    | some c =>
      obtain ⟨k', vs⟩ := c
      by_cases e : k' = k
      · subst e; simp
      · have : get (toSlow m) k = none := by
          rw [get_toSlow hn hh]; simp [load, hg, e]
        simp [e, this]

theorem inv_append {T : Type} {h : K → UInt64} {fm : FM K (List T)} (hi : Inv h fm)
    (k : K) (x : T) : Inv h (append h fm k x) := by
  rw [append_eq_store hi]; exact inv_store hi _ _

theorem load_append {T : Type} {h : K → UInt64} {fm : FM K (List T)} (hi : Inv h fm)
    (k k' : K) (x : T) :
    load h (append h fm k x) k' = if k' = k then some ((load h fm k).getD [] ++ [x]) else load h fm k' := by
  rw [append_eq_store hi, load_store hi]

/-- A key is listed iff it loads. -/
theorem mem_keys_iff {h : K → UInt64} {fm : FM K V} (hi : Inv h fm) (k : K) :
    k ∈ keys fm ↔ (load h fm k).isSome := by
  cases fm with
  | slow m =>
    simp only [keys, load]
    constructor
    · intro hk; exact get_isSome_of_mem (by simpa [keysOf] using hk)
    · intro hs
      cases hg : get m k with
      | none => simp [hg] at hs
      | some v => have := mem_keysOf_of_get hg; simpa [keysOf] using this
  | fast m =>
    obtain ⟨hn, hh⟩ := hi
    simp only [keys]
    constructor
    · intro hk
      obtain ⟨c, hc, e⟩ := List.mem_map.1 hk
      obtain ⟨hv, k0, v⟩ := c
      simp at e; subst e
      rw [load_fast_isSome_iff]
      exact ⟨v, get_hash_of_mem hn hh hc⟩
    · intro hs
      obtain ⟨v, hg⟩ := load_fast_isSome_iff.1 hs
      exact List.mem_map.2 ⟨_, mem_of_get hg, rfl⟩

theorem nodup_keys {h : K → UInt64} {fm : FM K V} (hi : Inv h fm) : (keys fm).Nodup := by
  cases fm with
  | slow m =>
    have : (keysOf m).Nodup := hi
    simpa [keys, keysOf] using this
  | fast m =>
    obtain ⟨hn, hh⟩ := hi
    simp only [keys]
    -- distinct hashes and hash = h key ⇒ distinct keys
    induction m with
    | nil => simp
    | cons c t ih =>
      have hn' : c.1 ∉ keysOf t ∧ (keysOf t).Nodup := by simpa [keysOf] using hn
      have hht : ∀ c ∈ t, c.1 = h c.2.1 := fun c hc => hh c (List.mem_cons_of_mem _ hc)
      simp only [List.map_cons, List.nodup_cons]
      refine ⟨?_, ih hn'.2 hht⟩
      intro hmem
      obtain ⟨d, hd, e⟩ := List.mem_map.1 hmem
      apply hn'.1
      have h1 : c.1 = h c.2.1 := hh c (by simp)
      have h2 : d.1 = h d.2.1 := hht d hd
      rw [h1, ← e, ← h2]
      simp only [keysOf, List.mem_map]
      exact ⟨d, hd, rfl⟩

end M3d.FastMap
