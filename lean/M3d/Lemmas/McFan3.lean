import M3d.Lemmas.McFan2
import Mathlib.Tactic.Choose
import Mathlib.Tactic.FinCases
import Mathlib.Data.Fin.Basic
/-!
The fan lift for marching cubes, part 3: what `fanPathOk` says in usable form, and the generic gluing argument —
four cells round a lattice edge whose fan paths run from the face shared with the previous cell to the face
shared with the next one make ONE cycle.
-/
namespace M3d.Marching
open M3d.Partition

/-! ### `fanPathOk` in usable form -/

theorem fanArcs_mem {cfg : Nat} {row : List (List Nat)} (hwf : rowWellFormed cfg row = true) {v : Vtx} {d : DEdge}
    (hd : d ∈ fanArcs row v) : d.1 ∈ cubeEdges ∧ d.2 ∈ cubeEdges := by
  unfold fanArcs at hd
  obtain ⟨t, ht, htd⟩ := List.mem_filterMap.1 hd
  obtain ⟨m1, m2, m3, _⟩ := rowTris_verts hwf ht
  split at htd
  · cases htd; exact ⟨m2, m3⟩
  · split at htd
    · cases htd; exact ⟨m3, m1⟩
    · split at htd
      · cases htd; exact ⟨m1, m2⟩
      · cases htd

theorem mem_pathArcs_of_mem {α : Type} (h : α) (T : List α) (l : α) (p : α) (hp : p ∈ h :: T ++ [l]) :
    ∃ d ∈ pathArcs (h :: T ++ [l]), d.1 = p ∨ d.2 = p := by
  rw [pathArcs_snoc]
  rw [List.cons_append, List.mem_cons] at hp
  rcases hp with rfl | hp
  · cases T with
    | nil => exact ⟨(p, l), by simp, Or.inl rfl⟩
    | cons a t => exact ⟨(p, a), by simp, Or.inl rfl⟩
  · -- p ∈ T ++ [l] is a second component
    have : p ∈ (List.zip (h :: T) (T ++ [l])).map Prod.snd := by
      rw [List.map_snd_zip (by simp)]
      exact hp
    obtain ⟨d, hd, rfl⟩ := List.mem_map.1 this
    exact ⟨d, hd, Or.inr rfl⟩

/-- What `fanPathOk` gives: the fan is the path `h :: T ++ [l]` of cube edges without repetition; the arcs are its
consecutive pairs; `h` lies on the start face only, `l` on the end face only, the others on neither. -/
theorem fanPath_spec {cfg : Nat} {row : List (List Nat)} (hwf : rowWellFormed cfg row = true) {v : Vtx}
    (hok : fanPathOk cfg row v = true) (s e : Face) (hse : seFaces v (inside cfg v.1) = (s, e)) :
    ∃ (h : Vtx) (T : List Vtx) (l : Vtx),
      (h :: T ++ [l]).Nodup ∧ (fanArcs row v).Perm (pathArcs (h :: T ++ [l])) ∧
      (∀ p ∈ h :: T ++ [l], p ∈ cubeEdges) ∧
      (vtxOnFace s h = true ∧ vtxOnFace e h = false) ∧ (vtxOnFace e l = true ∧ vtxOnFace s l = false) ∧
      (∀ p ∈ T, vtxOnFace s p = false ∧ vtxOnFace e p = false) := by
  unfold fanPathOk at hok
  simp only [hse, Bool.and_eq_true, beq_iff_eq, decide_eq_true_eq] at hok
  obtain ⟨⟨⟨⟨hlen, hnd⟩, hperm⟩, hends⟩, hint⟩ := hok
  have hperm' : (fanArcs row v).Perm ((fanPath row v).zip (fanPath row v).tail) := List.isPerm_iff.1 hperm
  -- the path has at least two vertices
  have hne : fanArcs row v ≠ [] := by
    intro h0
    have : fanPath row v = [] := by unfold fanPath; simp [h0]
    rw [this, h0] at hlen
    simp at hlen
  have hlen2 : 2 ≤ (fanPath row v).length := by
    have := List.length_pos_iff.2 hne
    omega
  obtain ⟨h, T, l, hP⟩ : ∃ h T l, fanPath row v = h :: T ++ [l] := by
    match hq : fanPath row v with
    | [] => rw [hq] at hlen2; simp at hlen2
    | [a] => rw [hq] at hlen2; simp at hlen2
    | a :: b :: r =>
      refine ⟨a, (b :: r).dropLast, (b :: r).getLast (by simp), ?_⟩
      rw [List.cons_append, List.dropLast_append_getLast]
  rw [hP] at hnd hperm' hends hint
  refine ⟨h, T, l, hnd, hperm', ?_, ?_, ?_, ?_⟩
  · intro p hp
    obtain ⟨d, hd, hdp⟩ := mem_pathArcs_of_mem h T l p hp
    have hd' := fanArcs_mem hwf (hperm'.symm.subset hd)
    rcases hdp with rfl | rfl
    · exact hd'.1
    · exact hd'.2
  · simp only [List.cons_append, List.head?_cons, List.getLast?_cons_cons, Bool.and_eq_true,
      Bool.not_eq_true'] at hends
    have hl : (h :: (T ++ [l])).getLast? = some l := by
      rw [← List.cons_append, List.getLast?_append]; simp
    rw [hl] at hends
    simp only [Bool.and_eq_true, Bool.not_eq_true'] at hends
    exact ⟨hends.1.1.1, hends.1.1.2⟩
  · simp only [List.cons_append, List.head?_cons] at hends
    have hl : (h :: (T ++ [l])).getLast? = some l := by
      rw [← List.cons_append, List.getLast?_append]; simp
    rw [hl] at hends
    simp only [Bool.and_eq_true, Bool.not_eq_true'] at hends
    exact ⟨hends.1.2, hends.2⟩
  · intro p hp
    have : (h :: T ++ [l]).drop 1 = T ++ [l] := by simp
    rw [this, List.dropLast_concat] at hint
    have := List.all_eq_true.1 hint p hp
    simpa using this

/-! ### the generic gluing argument -/

theorem pathArcs_map {α β : Type} (f : α → β) (l : List α) :
    (pathArcs l).map (fun d => (f d.1, f d.2)) = pathArcs (l.map f) := by
  unfold pathArcs
  rw [← List.map_tail, List.zip_map]
  rfl

theorem pathArcs_fst {α : Type} (h : α) (T : List α) (l : α) :
    (pathArcs (h :: T ++ [l])).map Prod.fst = h :: T := by
  rw [pathArcs_snoc, List.map_fst_zip (by simp)]

theorem pathArcs_snd {α : Type} (h : α) (T : List α) (l : α) :
    (pathArcs (h :: T ++ [l])).map Prod.snd = T ++ [l] := by
  rw [pathArcs_snoc, List.map_snd_zip (by simp)]

theorem loc3_inj : ∀ a ∈ cubeEdges, ∀ b ∈ cubeEdges, loc3 a = loc3 b → a = b := by decide

theorem place_inj (x y z : Nat) (p q : P3) (h : place x y z p = place x y z q) : p = q := by
  obtain ⟨p1, p2, p3⟩ := p
  obtain ⟨q1, q2, q3⟩ := q
  simp only [place, Prod.mk.injEq] at h ⊢
  omega

theorem fin4_eq (i : Fin 4) : i = 0 ∨ i = 1 ∨ i = 2 ∨ i = 3 := by
  revert i; decide

theorem fin4_add31 (i : Fin 4) : i + 3 + 1 = i := by
  revert i; decide

theorem fin4_cases (i j : Fin 4) : j = i ∨ j = i + 1 ∨ j = i + 2 ∨ j = i + 3 := by
  revert i j; decide

/-- **Four cells whose fan paths run from the face shared with the previous cell to the face shared with the
next one make one cycle.**  `c i`, `v i`: the four cells whose box contains `V` and the cube edge of each that
sits at `V`; `s i`, `e i`: the start and end face of the fan of `v i`; `adj`: a position common to cell `i`
and cell `i+1` lies on `e i` and on `s (i+1)`; `diag`: a position common to cells `i` and `i+2` lies on both
faces of cell `i` through `v i`; `hdeg`: in the whole link every vertex with an incoming arc has an outgoing
one. -/
theorem fan_cycle_of_four (table : List (List (List Nat))) (lab : Nat → Nat → Nat → Bool) (V : GV)
    (c : Fin 4 → Nat × Nat × Nat) (v : Fin 4 → Vtx) (s e : Fin 4 → Face)
    (hwf : ∀ i, rowWellFormed (cellCfg lab (c i).1 (c i).2.1 (c i).2.2)
      (getRow table (cellCfg lab (c i).1 (c i).2.1 (c i).2.2)) = true)
    (hok : ∀ i, fanPathOk (cellCfg lab (c i).1 (c i).2.1 (c i).2.2)
      (getRow table (cellCfg lab (c i).1 (c i).2.1 (c i).2.2)) (v i) = true)
    (hse : ∀ i, seFaces (v i) (inside (cellCfg lab (c i).1 (c i).2.1 (c i).2.2) (v i).1) = (s i, e i))
    (hbox : ∀ i, inBox (c i).1 (c i).2.1 (c i).2.2 V)
    (hv : ∀ i, v i = vtxAt (relPos (c i).1 (c i).2.1 (c i).2.2 V))
    (adj : ∀ i, ∀ a ∈ cubeEdges, ∀ b ∈ cubeEdges,
      place (c i).1 (c i).2.1 (c i).2.2 (loc3 a) = place (c (i + 1)).1 (c (i + 1)).2.1 (c (i + 1)).2.2 (loc3 b) →
      vtxOnFace (e i) a = true ∧ vtxOnFace (s (i + 1)) b = true)
    (diag : ∀ i, ∀ a ∈ cubeEdges, ∀ b ∈ cubeEdges,
      place (c i).1 (c i).2.1 (c i).2.2 (loc3 a) = place (c (i + 2)).1 (c (i + 2)).2.1 (c (i + 2)).2.2 (loc3 b) →
      vtxOnFace (s i) a = true ∧ vtxOnFace (e i) a = true)
    (L : List (GV × GV))
    (hL : L.Perm (glink V (cellTris table lab (c 0).1 (c 0).2.1 (c 0).2.2) ++
      glink V (cellTris table lab (c 1).1 (c 1).2.1 (c 1).2.2) ++
      glink V (cellTris table lab (c 2).1 (c 2).2.1 (c 2).2.2) ++
      glink V (cellTris table lab (c 3).1 (c 3).2.1 (c 3).2.2)))
    (hdeg : ∀ u, u ∈ L.map Prod.snd → u ∈ L.map Prod.fst) : GFanCycle L := by
  choose h T l hnd hperm hmem hh hl hT using fun i => fanPath_spec (hwf i) (hok i) (s i) (e i) (hse i)
  -- placing a cube edge of cell i
  let pl : Fin 4 → Vtx → GV := fun i a => place (c i).1 (c i).2.1 (c i).2.2 (loc3 a)
  have pl_inj : ∀ i, ∀ a ∈ cubeEdges, ∀ b ∈ cubeEdges, pl i a = pl i b → a = b :=
    fun i a ha b hb hab => loc3_inj a ha b hb (place_inj _ _ _ _ _ hab)
  -- the arcs of cell i are the consecutive pairs of the placed path
  have hA : ∀ i, (glink V (cellTris table lab (c i).1 (c i).2.1 (c i).2.2)).Perm
      (pathArcs (pl i (h i) :: (T i).map (pl i) ++ [pl i (l i)])) := by
    intro i
    rw [glink_cellTris table lab _ _ _ V (hwf i), if_pos (hbox i), ← hv i]
    have := (hperm i).map (placeArc (c i).1 (c i).2.1 (c i).2.2)
    refine this.trans ?_
    have e1 := pathArcs_map (pl i) (h i :: T i ++ [l i])
    simp only [List.map_cons, List.map_append, List.map_nil] at e1
    rw [← e1]
    rfl
  have memH : ∀ i, h i ∈ cubeEdges := fun i => hmem i _ (by simp)
  have memL : ∀ i, l i ∈ cubeEdges := fun i => hmem i _ (by simp)
  have memT : ∀ i, ∀ a ∈ T i, a ∈ cubeEdges := fun i a ha => hmem i _ (by simp [ha])
  have memHT : ∀ i, ∀ a ∈ h i :: T i, a ∈ cubeEdges := by
    intro i a ha
    rcases List.mem_cons.1 ha with rfl | ha
    · exact memH i
    · exact memT i a ha
  -- nobody of h :: T lies on the end face; l does not lie on the start face
  have notE : ∀ i, ∀ a ∈ h i :: T i, vtxOnFace (e i) a = false := by
    intro i a ha
    rcases List.mem_cons.1 ha with rfl | ha
    · exact (hh i).2
    · exact (hT i a ha).2
  have l_notin : ∀ i, l i ∉ h i :: T i := by
    intro i hm
    have := hnd i
    rw [List.nodup_append] at this
    exact this.2.2 _ hm _ (List.mem_singleton.2 rfl) rfl
  -- targets and sources of the link
  have srcL : ∀ u, u ∈ L.map Prod.fst → ∃ j, ∃ a ∈ h j :: T j, u = pl j a := by
    intro u hu
    have hu' := (hL.map Prod.fst).subset hu
    simp only [List.map_append, List.mem_append] at hu'
    have one : ∀ j, u ∈ (glink V (cellTris table lab (c j).1 (c j).2.1 (c j).2.2)).map Prod.fst →
        ∃ a ∈ h j :: T j, u = pl j a := by
      intro j hj
      have := ((hA j).map Prod.fst).subset hj
      rw [pathArcs_fst] at this
      rw [← List.map_cons (f := pl j)] at this
      obtain ⟨a, ha, rfl⟩ := List.mem_map.1 this
      exact ⟨a, ha, rfl⟩
    rcases hu' with ((hu' | hu') | hu') | hu'
    · exact ⟨0, one 0 hu'⟩
    · exact ⟨1, one 1 hu'⟩
    · exact ⟨2, one 2 hu'⟩
    · exact ⟨3, one 3 hu'⟩
  have tgtL : ∀ i, pl i (l i) ∈ L.map Prod.snd := by
    intro i
    have h1 : pl i (l i) ∈ (glink V (cellTris table lab (c i).1 (c i).2.1 (c i).2.2)).map Prod.snd := by
      apply ((hA i).map Prod.snd).symm.subset
      rw [pathArcs_snd]
      simp
    apply (hL.map Prod.snd).symm.subset
    simp only [List.map_append, List.mem_append]
    rcases fin4_eq i with rfl | rfl | rfl | rfl
    · exact Or.inl (Or.inl (Or.inl h1))
    · exact Or.inl (Or.inl (Or.inr h1))
    · exact Or.inl (Or.inr h1)
    · exact Or.inr h1
  -- junctions
  have junc : ∀ i, pl i (l i) = pl (i + 1) (h (i + 1)) := by
    intro i
    obtain ⟨j, a, ha, hu⟩ := srcL _ (hdeg _ (tgtL i))
    rcases fin4_cases i j with rfl | rfl | rfl | rfl
    · exact absurd (pl_inj _ _ (memL _) _ (memHT _ a ha) hu ▸ ha) (l_notin _)
    · have := adj i (l i) (memL i) a (memHT _ a ha) hu
      rcases List.mem_cons.1 ha with rfl | ha'
      · exact hu
      · rw [(hT _ a ha').1] at this; exact absurd this.2 (by simp)
    · have := diag i (l i) (memL i) a (memHT _ a ha) hu
      rw [(hl i).2] at this; exact absurd this.1 (by simp)
    · have e3 : i + 3 + 1 = i := fin4_add31 i
      have := adj (i + 3) a (memHT _ a ha) (l i) (memL i) (by rw [e3]; exact hu.symm)
      rw [e3, (hl i).2] at this; exact absurd this.2 (by simp)
  -- the parts h :: T of different cells are disjoint
  have disj : ∀ i j, i ≠ j → ∀ a ∈ h i :: T i, ∀ b ∈ h j :: T j, pl i a ≠ pl j b := by
    intro i j hij a ha b hb hab
    rcases fin4_cases i j with rfl | rfl | rfl | rfl
    · exact hij rfl
    · have := adj i a (memHT _ a ha) b (memHT _ b hb) hab
      rw [notE i a ha] at this; exact absurd this.1 (by simp)
    · have := diag i a (memHT _ a ha) b (memHT _ b hb) hab
      rw [notE i a ha] at this; exact absurd this.2 (by simp)
    · have e3 : i + 3 + 1 = i := fin4_add31 i
      have := adj (i + 3) b (memHT _ b hb) a (memHT _ a ha) (by rw [e3]; exact hab.symm)
      rw [notE (i + 3) b hb] at this; exact absurd this.1 (by simp)
  have ndI : ∀ i, ((h i :: T i).map (pl i)).Nodup := by
    intro i
    have hn : (h i :: T i).Nodup := by
      have := hnd i
      rw [List.nodup_append] at this
      exact this.1
    exact (List.nodup_map_iff_inj_on hn).2 (fun a ha b hb hab => pl_inj i a (memHT i a ha) b (memHT i b hb) hab)
  have dI : ∀ i j, i ≠ j → ∀ x ∈ (h i :: T i).map (pl i), ∀ y ∈ (h j :: T j).map (pl j), x ≠ y := by
    intro i j hij x hx y hy
    obtain ⟨a, ha, rfl⟩ := List.mem_map.1 hx
    obtain ⟨b, hb, rfl⟩ := List.mem_map.1 hy
    exact disj i j hij a ha b hb
  -- assemble
  refine ⟨(h 0 :: T 0).map (pl 0) ++ (h 1 :: T 1).map (pl 1) ++ (h 2 :: T 2).map (pl 2) ++ (h 3 :: T 3).map (pl 3), ?_, ?_⟩
  · rw [List.nodup_append, List.nodup_append, List.nodup_append]
    refine ⟨⟨⟨ndI 0, ndI 1, dI 0 1 (by decide)⟩, ndI 2, ?_⟩, ndI 3, ?_⟩
    · intro x hx y hy
      rcases List.mem_append.1 hx with hx | hx
      · exact dI 0 2 (by decide) x hx y hy
      · exact dI 1 2 (by decide) x hx y hy
    · intro x hx y hy
      rcases List.mem_append.1 hx with hx | hx
      · rcases List.mem_append.1 hx with hx | hx
        · exact dI 0 3 (by decide) x hx y hy
        · exact dI 1 3 (by decide) x hx y hy
      · exact dI 2 3 (by decide) x hx y hy
  · rw [gcycleEdges_eq_cyc]
    have j0 := junc 0; have j1 := junc 1; have j2 := junc 2; have j3 := junc 3
    have e01 : (0 : Fin 4) + 1 = 1 := rfl
    have e12 : (1 : Fin 4) + 1 = 2 := rfl
    have e23 : (2 : Fin 4) + 1 = 3 := rfl
    have e30 : (3 : Fin 4) + 1 = 0 := rfl
    rw [e01] at j0; rw [e12] at j1; rw [e23] at j2; rw [e30] at j3
    have g := glue4 (pl 0 (h 0)) (pl 1 (h 1)) (pl 2 (h 2)) (pl 3 (h 3))
      ((T 0).map (pl 0)) ((T 1).map (pl 1)) ((T 2).map (pl 2)) ((T 3).map (pl 3))
    have a0 := hA 0; have a1 := hA 1; have a2 := hA 2; have a3 := hA 3
    rw [j0] at a0; rw [j1] at a1; rw [j2] at a2; rw [j3] at a3
    simp only [List.map_cons]
    rw [← g]
    exact hL.trans (((a0.append a1).append a2).append a3)

end M3d.Marching
