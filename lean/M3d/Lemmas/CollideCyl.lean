import M3d.Lemmas.CollideBall
/-!
# C07 — `Cylinder.RayCollisions`, `Capsule.RayCollisions`: the reported collisions lie on the surface and
carry the unit outward normal

`v` is the unit axis `(P2 - P1).Normalize()`, `z = (P - P1)·v` the axial coordinate of a point, `radialVec` its
component orthogonal to the axis.  The quadratic of the code, `a t² + b t + c` with `v1 = v(o·v) - o`,
`v2 = v(d·v) - d`, is the squared distance of the ray point from the axis minus `r²`.
-/
set_option linter.unusedSectionVars false
set_option linter.unusedVariables false
namespace M3d.Col

variable {K : Type} [Field K] [LinearOrder K] [IsStrictOrderedRing K]

/-- axial coordinate of `P` relative to `p1` along `v` -/
def axialZ (p1 v P : V3 K) : K := (P.sub p1).dot v
/-- `P - p1` minus its axial component -/
def radialVec (p1 v P : V3 K) : V3 K := (P.sub p1).sub (v.scale (axialZ p1 v P))
/-- squared distance of `P` from the axis line (for a unit `v`) -/
def radialSq (p1 v P : V3 K) : K := (radialVec p1 v P).dot (radialVec p1 v P)

def cylV1 (v o : V3 K) : V3 K := (v.scale (o.dot v)).sub o
def cylV2 (v d : V3 K) : V3 K := (v.scale (d.dot v)).sub d
def cylA (v d : V3 K) : K := (cylV2 v d).dot (cylV2 v d)
def cylB (v o d : V3 K) : K := 2 * (cylV1 v o).dot (cylV2 v d)
def cylC (v o : V3 K) (r : K) : K := (cylV1 v o).dot (cylV1 v o) - r * r
def cylDisc (v o d : V3 K) (r : K) : K := cylB v o d * cylB v o d - 4 * cylA v d * cylC v o r

theorem sub_along (o0 p1 d : V3 K) (t : K) : (o0.sub p1).add (d.scale t) = (o0.along d t).sub p1 := by
  simp only [V3.along, V3.add, V3.sub, V3.scale, V3.mk.injEq]
  exact ⟨by ring, by ring, by ring⟩

/-- the code's quadratic is the squared distance from the axis minus `r²` -/
theorem radialSq_along (p1 v o0 d : V3 K) (r t : K) :
    radialSq p1 v (o0.along d t) =
      cylA v d * t * t + cylB v (o0.sub p1) d * t + cylC v (o0.sub p1) r + r * r := by
  simp only [radialSq, radialVec, axialZ, cylA, cylB, cylC, cylV1, cylV2, V3.along, V3.add, V3.sub, V3.scale, V3.dot]
  ring

/-- for a unit axis the radial vector is orthogonal to the axis -/
theorem radialVec_orth (p1 v P : V3 K) (hv : v.dot v = 1) : (radialVec p1 v P).dot v = 0 := by
  simp only [radialVec, axialZ, V3.sub, V3.scale, V3.dot] at hv ⊢
  linear_combination (-((P.x - p1.x) * v.x + (P.y - p1.y) * v.y + (P.z - p1.z) * v.z)) * hv

/-- the candidate of `cylSideHits` for one sign of the square root -/
def cylCand (sqrtF : K → K) (p1 p2 : V3 K) (r : K) (o0 d : V3 K) (sign : K) : Option (Hit K) :=
  let v := (p2.sub p1).normalize sqrtF
  let o := o0.sub p1
  let t := (-(cylB v o d) + sign * sqrtF (cylDisc v o d r)) / (2 * cylA v d)
  if t < 0 then none
  else
    let p := o.add (d.scale t)
    let frac := v.dot p
    if 0 ≤ frac ∧ frac < (p2.sub p1).norm sqrtF then some ⟨t, (p.sub (v.scale frac)).normalize sqrtF⟩ else none

theorem cylSideHits_eq (sqrtF : K → K) (p1 p2 : V3 K) (r : K) (o0 d : V3 K) :
    cylSideHits sqrtF p1 p2 r o0 d =
      if 0 < cylDisc ((p2.sub p1).normalize sqrtF) (o0.sub p1) d r then
        [(-1 : K), 1].filterMap (cylCand sqrtF p1 p2 r o0 d)
      else [] := by
  unfold cylSideHits cylCand
  simp only [cylDisc, cylA, cylB, cylC, cylV1, cylV2, two_eq, four_eq]
  rfl

theorem dot_comm3 (a b : V3 K) : a.dot b = b.dot a := by simp only [V3.dot]; ring

/-- one candidate: on the lateral surface, in front of the origin, unit outward normal -/
theorem cylCand_sound {sqrtF : K → K} (hs : SqrtOK sqrtF) (p1 p2 : V3 K) (r : K) (o0 d : V3 K)
    (hax : (p2.sub p1).dot (p2.sub p1) ≠ 0) (hr : r ≠ 0)
    (hnp : cylA ((p2.sub p1).normalize sqrtF) d ≠ 0)
    (hdisc : 0 < cylDisc ((p2.sub p1).normalize sqrtF) (o0.sub p1) d r)
    (sign : K) (hsign : sign * sign = 1) (h : Hit K) (hc : cylCand sqrtF p1 p2 r o0 d sign = some h) :
    0 ≤ h.t ∧ radialSq p1 ((p2.sub p1).normalize sqrtF) (o0.along d h.t) = r * r ∧
    0 ≤ axialZ p1 ((p2.sub p1).normalize sqrtF) (o0.along d h.t) ∧
    axialZ p1 ((p2.sub p1).normalize sqrtF) (o0.along d h.t) < (p2.sub p1).norm sqrtF ∧
    h.n.dot h.n = 1 ∧
    ∃ k, 0 < k ∧ h.n = (radialVec p1 ((p2.sub p1).normalize sqrtF) (o0.along d h.t)).scale k := by
  set v := (p2.sub p1).normalize sqrtF with hv
  obtain ⟨hs0, hs1⟩ := hs _ (le_of_lt hdisc)
  have hroot := quad_root (cylA v d) (cylB v (o0.sub p1) d) (cylC v (o0.sub p1) r)
    (sqrtF (cylDisc v (o0.sub p1) d r)) sign hnp (by rw [hs1]; rfl) hsign
  unfold cylCand at hc
  simp only [← hv] at hc
  set t := (-(cylB v (o0.sub p1) d) + sign * sqrtF (cylDisc v (o0.sub p1) d r)) / (2 * cylA v d) with ht
  split at hc
  · cases hc
  · rename_i hneg
    split at hc
    · rename_i hfrac
      have he : h = ⟨t, (((o0.sub p1).add (d.scale t)).sub (v.scale (v.dot ((o0.sub p1).add (d.scale t))))).normalize sqrtF⟩ :=
        (Option.some.inj hc).symm
      have hz : v.dot ((o0.sub p1).add (d.scale t)) = axialZ p1 v (o0.along d t) := by
        rw [sub_along, dot_comm3]; rfl
      have hrv : ((o0.sub p1).add (d.scale t)).sub (v.scale (v.dot ((o0.sub p1).add (d.scale t)))) =
          radialVec p1 v (o0.along d t) := by
        rw [hz, sub_along]; rfl
      have hrsq : radialSq p1 v (o0.along d t) = r * r := by
        rw [radialSq_along p1 v o0 d r t]
        linear_combination hroot
      have hne : (radialVec p1 v (o0.along d t)).dot (radialVec p1 v (o0.along d t)) ≠ 0 := by
        show radialSq p1 v (o0.along d t) ≠ 0
        rw [hrsq]; exact mul_ne_zero hr hr
      rw [hrv] at he
      rw [hz] at hfrac
      subst he
      exact ⟨not_lt.1 hneg, hrsq, hfrac.1, hfrac.2, V3.normalize_unit hs _ hne, V3.normalize_pos_mul hs _ hne⟩
    · cases hc

/-- **`Cylinder.RayCollisions` / `Capsule.RayCollisions`, lateral surface** (`cylSideHits`): every reported side
collision has `t ≥ 0`, lies at distance `r` from the axis with axial coordinate in `[0, |P2-P1|)`, and its
normal is the unit vector along the radial direction (outward); `v` is a unit vector and the radial vector is
orthogonal to it.  For a ray not parallel to the axis (`a ≠ 0`). -/
theorem cylSide_sound {sqrtF : K → K} (hs : SqrtOK sqrtF) (p1 p2 : V3 K) (r : K) (o0 d : V3 K)
    (hax : (p2.sub p1).dot (p2.sub p1) ≠ 0) (hr : r ≠ 0)
    (hnp : cylA ((p2.sub p1).normalize sqrtF) d ≠ 0) (h : Hit K) (hm : h ∈ cylSideHits sqrtF p1 p2 r o0 d) :
    0 ≤ h.t ∧ radialSq p1 ((p2.sub p1).normalize sqrtF) (o0.along d h.t) = r * r ∧
    0 ≤ axialZ p1 ((p2.sub p1).normalize sqrtF) (o0.along d h.t) ∧
    axialZ p1 ((p2.sub p1).normalize sqrtF) (o0.along d h.t) < (p2.sub p1).norm sqrtF ∧
    h.n.dot h.n = 1 ∧
    ∃ k, 0 < k ∧ h.n = (radialVec p1 ((p2.sub p1).normalize sqrtF) (o0.along d h.t)).scale k := by
  rw [cylSideHits_eq] at hm
  split at hm
  · rename_i hdisc
    obtain ⟨sign, hsg, hc⟩ := List.mem_filterMap.1 hm
    have hsign : sign * sign = 1 := by
      simp only [List.mem_cons, List.mem_nil_iff, or_false] at hsg
      rcases hsg with rfl | rfl <;> ring
    exact cylCand_sound hs p1 p2 r o0 d hax hr hnp hdisc sign hsign h hc
  · cases hm

/-- completeness of the lateral part: every ray point at distance `r` from the axis with axial coordinate in
`[0, |P2-P1|)` and `t ≥ 0` is reported (when the discriminant is positive, i.e. the ray is not tangent). -/
theorem cylSide_complete {sqrtF : K → K} (hs : SqrtOK sqrtF) (p1 p2 : V3 K) (r : K) (o0 d : V3 K)
    (hnp : cylA ((p2.sub p1).normalize sqrtF) d ≠ 0)
    (hdisc : 0 < cylDisc ((p2.sub p1).normalize sqrtF) (o0.sub p1) d r) (t : K) (ht : 0 ≤ t)
    (hon : radialSq p1 ((p2.sub p1).normalize sqrtF) (o0.along d t) = r * r)
    (hz0 : 0 ≤ axialZ p1 ((p2.sub p1).normalize sqrtF) (o0.along d t))
    (hz1 : axialZ p1 ((p2.sub p1).normalize sqrtF) (o0.along d t) < (p2.sub p1).norm sqrtF) :
    ∃ h ∈ cylSideHits sqrtF p1 p2 r o0 d, h.t = t := by
  set v := (p2.sub p1).normalize sqrtF with hv
  obtain ⟨hs0, hs1⟩ := hs _ (le_of_lt hdisc)
  have hq : cylA v d * t * t + cylB v (o0.sub p1) d * t + cylC v (o0.sub p1) r = 0 := by
    have := radialSq_along p1 v o0 d r t
    rw [hon] at this; linarith
  have hroots := quad_root_complete _ _ _ (sqrtF (cylDisc v (o0.sub p1) d r)) t hnp (by rw [hs1]; rfl) hq
  rw [cylSideHits_eq, if_pos hdisc]
  have hz : v.dot ((o0.sub p1).add (d.scale t)) = axialZ p1 v (o0.along d t) := by
    rw [sub_along, dot_comm3]; rfl
  have hcand : ∀ sign : K, t = (-(cylB v (o0.sub p1) d) + sign * sqrtF (cylDisc v (o0.sub p1) d r)) / (2 * cylA v d) →
      ∃ h, cylCand sqrtF p1 p2 r o0 d sign = some h ∧ h.t = t := by
    intro sign he
    unfold cylCand
    simp only [← hv, ← he]
    rw [if_neg (not_lt.2 ht), hz, if_pos ⟨hz0, hz1⟩]
    exact ⟨_, rfl, rfl⟩
  rcases hroots with h1 | h1
  · obtain ⟨h, hc, hht⟩ := hcand 1 (by rw [one_mul]; exact h1)
    exact ⟨h, List.mem_filterMap.2 ⟨1, by simp, hc⟩, hht⟩
  · obtain ⟨h, hc, hht⟩ := hcand (-1) (by rw [neg_one_mul, ← sub_eq_add_neg]; exact h1)
    exact ⟨h, List.mem_filterMap.2 ⟨-1, by simp, hc⟩, hht⟩

/-! ## the caps of the cylinder -/

theorem normalize_dot_self {sqrtF : K → K} (hs : SqrtOK sqrtF) (a : V3 K) (ha : a.dot a ≠ 0) :
    a.dot (a.normalize sqrtF) = a.norm sqrtF ∧ (a.normalize sqrtF).scale (a.norm sqrtF) = a := by
  obtain ⟨h0, h1⟩ := hs (a.x * a.x + a.y * a.y + a.z * a.z) (sumsq3_nonneg _ _ _)
  have hne : sqrtF (a.x * a.x + a.y * a.y + a.z * a.z) ≠ 0 := by
    intro h; rw [h] at h1; apply ha; unfold V3.dot; linarith
  simp only [V3.normalize, V3.norm, V3.scale, V3.dot]
  set s := sqrtF (a.x * a.x + a.y * a.y + a.z * a.z)
  refine ⟨?_, ?_⟩
  · field_simp; linarith
  · cases a; simp only [V3.mk.injEq]
    refine ⟨?_, ?_, ?_⟩ <;> field_simp

/-- **`Cylinder.RayCollisions`**: every reported collision — lateral surface, base disc (`castCircle` with the
normal `-v` at `P1`), top disc (normal `v` at `P2`) — has `t ≥ 0`, lies on the cylinder's surface, and carries
the unit outward normal: radial on the side, `-v` on the base (`z = 0`), `v` on the top (`z = |P2-P1|`).
For a ray neither parallel nor orthogonal to the axis (`a ≠ 0`, `d·v ≠ 0`: the grazing cases the library
handles with its `1e-8` tests). -/
theorem cyl_sound {sqrtF : K → K} (hs : SqrtOK sqrtF) (eps : K) (p1 p2 : V3 K) (r : K) (o0 d : V3 K)
    (hax : (p2.sub p1).dot (p2.sub p1) ≠ 0) (hr : 0 < r)
    (hnp : cylA ((p2.sub p1).normalize sqrtF) d ≠ 0) (hdv : d.dot ((p2.sub p1).normalize sqrtF) ≠ 0)
    (h : Hit K) (hm : h ∈ cylHits sqrtF eps p1 p2 r o0 d) :
    let v := (p2.sub p1).normalize sqrtF
    let P := o0.along d h.t
    v.dot v = 1 ∧ 0 ≤ h.t ∧ h.n.dot h.n = 1 ∧
    ((radialSq p1 v P = r * r ∧ 0 ≤ axialZ p1 v P ∧ axialZ p1 v P < (p2.sub p1).norm sqrtF ∧
        ∃ k, 0 < k ∧ h.n = (radialVec p1 v P).scale k) ∨
     (axialZ p1 v P = 0 ∧ radialSq p1 v P ≤ r * r ∧ h.n = v.scale (-1)) ∨
     (axialZ p1 v P = (p2.sub p1).norm sqrtF ∧ radialSq p1 v P ≤ r * r ∧ h.n = v)) := by
  intro v P
  have hvu : v.dot v = 1 := V3.normalize_unit hs _ hax
  obtain ⟨hL, hvL⟩ := normalize_dot_self hs (p2.sub p1) hax
  unfold cylHits at hm
  simp only [List.mem_append, Option.mem_toList] at hm
  rcases hm with (hm | hm) | hm
  · obtain ⟨h1, h2, h3, h4, h5, h6⟩ := cylSide_sound hs p1 p2 r o0 d hax (ne_of_gt hr) hnp h hm
    exact ⟨hvu, h1, h5, Or.inl ⟨h2, h3, h4, h6⟩⟩
  · have hdn : d.dot (v.scale (-1)) ≠ 0 := by
      have : d.dot (v.scale (-1)) = -(d.dot v) := by simp only [V3.dot, V3.scale]; ring
      rw [this]; exact neg_ne_zero.2 hdv
    obtain ⟨_, ht, hpl, hds, hn⟩ := (castCircle_iff hs eps (v.scale (-1)) p1 r (le_of_lt hr) o0 d h hdn).1 hm
    have hz : axialZ p1 v P = 0 := by
      have : ((o0.along d h.t).sub p1).dot (v.scale (-1)) = -(axialZ p1 v P) := by
        simp only [axialZ, V3.dot, V3.scale]; ring
      rw [this] at hpl; linarith
    have hrs : radialSq p1 v P = P.distSq p1 := by
      simp only [radialSq, radialVec, hz]
      simp only [V3.dot, V3.sub, V3.scale, V3.distSq]; ring
    refine ⟨hvu, ht, ?_, Or.inr (Or.inl ⟨hz, by rw [hrs]; exact hds, hn⟩)⟩
    rw [hn]
    have : (v.scale (-1)).dot (v.scale (-1)) = v.dot v := by simp only [V3.dot, V3.scale]; ring
    rw [this, hvu]
  · obtain ⟨_, ht, hpl, hds, hn⟩ := (castCircle_iff hs eps v p2 r (le_of_lt hr) o0 d h hdv).1 hm
    have hz : axialZ p1 v P = (p2.sub p1).norm sqrtF := by
      have e : axialZ p1 v P = ((o0.along d h.t).sub p2).dot v + (p2.sub p1).dot v := by
        simp only [axialZ, V3.dot, V3.sub]; ring
      rw [e, hpl, zero_add]; exact hL
    have hrs : radialSq p1 v P = P.distSq p2 := by
      have hp2 : p2 = p1.add (v.scale ((p2.sub p1).norm sqrtF)) := by
        rw [hvL]; simp only [V3.add, V3.sub]; cases p2; simp
      simp only [radialSq, radialVec, hz]
      conv_rhs => rw [hp2]
      simp only [V3.dot, V3.sub, V3.scale, V3.distSq, V3.add]; ring
    exact ⟨hvu, ht, by rw [hn]; exact hvu, Or.inr (Or.inr ⟨hz, by rw [hrs]; exact hds, hn⟩)⟩

/-! ## `Capsule` -/

/-- membership in `sphereHits`: `t ≥ 0`, the point is on the sphere, the normal is the normalised radius -/
theorem mem_sphereHits {sqrtF : K → K} (hs : SqrtOK sqrtF) (center : V3 K) (radius : K) (o d : V3 K)
    (hd : d.dot d ≠ 0) (h : Hit K) (hm : h ∈ sphereHits sqrtF center radius o d) :
    0 ≤ h.t ∧ (o.along d h.t).distSq center = radius * radius ∧
      h.n = ((o.along d h.t).sub center).normalize sqrtF := by
  unfold sphereHits at hm
  cases hr : sphereRoots sqrtF center radius o d with
  | none => rw [hr] at hm; cases hm
  | some p =>
    obtain ⟨t1, t2⟩ := p
    rw [hr] at hm
    obtain ⟨_, _, h1, h2, _, _⟩ := sphereRoots_some hs center radius o d hd t1 t2 hr
    simp only [List.mem_map, List.mem_filter, List.mem_cons, List.mem_nil_iff, or_false, Bool.not_eq_true',
      decide_eq_false_iff_not, not_lt] at hm
    obtain ⟨t, ⟨ht, ht0⟩, rfl⟩ := hm
    refine ⟨ht0, ?_, rfl⟩
    rcases ht with rfl | rfl
    · exact h1
    · exact h2

/-- **`Capsule.RayCollisions`, the candidates** (end-sphere hits kept on their outer halves, then the side
hits): each has `t ≥ 0`, lies on the capsule's surface — on the sphere around `P1` with axial coordinate `≤ 0`,
on the sphere around `P2` with axial coordinate `≥ |P2-P1|`, or at distance `r` from the axis with axial
coordinate in `[0, |P2-P1|)` — and carries the unit normal pointing away from the nearest point of the segment
`P1 P2` (outward).  The reported collisions are a minimum and a maximum of these (`capsule_phantom_contract`). -/
theorem capsule_cands_sound {sqrtF : K → K} (hs : SqrtOK sqrtF) (p1 p2 : V3 K) (r : K) (o0 d : V3 K)
    (hax : (p2.sub p1).dot (p2.sub p1) ≠ 0) (hr : r ≠ 0) (hd : d.dot d ≠ 0)
    (hnp : cylA ((p2.sub p1).normalize sqrtF) d ≠ 0) (h : Hit K) (hm : h ∈ capsuleCands sqrtF p1 p2 r o0 d) :
    let v := (p2.sub p1).normalize sqrtF
    let P := o0.along d h.t
    0 ≤ h.t ∧ h.n.dot h.n = 1 ∧
    ((P.distSq p1 = r * r ∧ axialZ p1 v P ≤ 0 ∧ ∃ k, 0 < k ∧ h.n = (P.sub p1).scale k) ∨
     (P.distSq p2 = r * r ∧ (p2.sub p1).norm sqrtF ≤ axialZ p1 v P ∧ ∃ k, 0 < k ∧ h.n = (P.sub p2).scale k) ∨
     (radialSq p1 v P = r * r ∧ 0 ≤ axialZ p1 v P ∧ axialZ p1 v P < (p2.sub p1).norm sqrtF ∧
        ∃ k, 0 < k ∧ h.n = (radialVec p1 v P).scale k)) := by
  intro v P
  obtain ⟨hL, hvL⟩ := normalize_dot_self hs (p2.sub p1) hax
  obtain ⟨hn0, hn1⟩ := hs ((p2.sub p1).x * (p2.sub p1).x + (p2.sub p1).y * (p2.sub p1).y + (p2.sub p1).z * (p2.sub p1).z)
    (sumsq3_nonneg _ _ _)
  have hLpos : 0 < (p2.sub p1).norm sqrtF := by
    refine lt_of_le_of_ne hn0 (fun h0 => hax ?_)
    have : (p2.sub p1).norm sqrtF * (p2.sub p1).norm sqrtF = (p2.sub p1).dot (p2.sub p1) := hn1
    rw [← this, ← h0]; ring
  -- the axial coordinate in terms of the un-normalised axis
  have hzax : ∀ Q : V3 K, (Q.sub p1).dot (p2.sub p1) = axialZ p1 v Q * (p2.sub p1).norm sqrtF := by
    intro Q
    conv_lhs => rw [← hvL]
    simp only [axialZ, V3.dot, V3.scale]; ring
  unfold capsuleCands at hm
  simp only [List.mem_append, List.mem_filter] at hm
  rcases hm with (⟨hm, hk⟩ | ⟨hm, hk⟩) | hm
  · obtain ⟨ht, hon, hn⟩ := mem_sphereHits hs p1 r o0 d hd h hm
    have hne : (P.sub p1).dot (P.sub p1) ≠ 0 := by
      have : (P.sub p1).dot (P.sub p1) = P.distSq p1 := by simp only [V3.dot, V3.sub, V3.distSq]
      rw [this, hon]; exact mul_ne_zero hr hr
    simp only [capsuleKeep, if_true, decide_eq_true_eq] at hk
    have hz : axialZ p1 v P ≤ 0 := by
      have := hzax P
      by_contra hc
      have hc' : 0 < axialZ p1 v P := not_le.1 hc
      have : 0 < (P.sub p1).dot (p2.sub p1) := by rw [this]; exact mul_pos hc' hLpos
      exact absurd hk (not_le.2 this)
    refine ⟨ht, by rw [hn]; exact V3.normalize_unit hs _ hne, Or.inl ⟨hon, hz, ?_⟩⟩
    rw [hn]; exact V3.normalize_pos_mul hs _ hne
  · obtain ⟨ht, hon, hn⟩ := mem_sphereHits hs p2 r o0 d hd h hm
    have hne : (P.sub p2).dot (P.sub p2) ≠ 0 := by
      have : (P.sub p2).dot (P.sub p2) = P.distSq p2 := by simp only [V3.dot, V3.sub, V3.distSq]
      rw [this, hon]; exact mul_ne_zero hr hr
    simp only [capsuleKeep, Bool.false_eq_true, if_false, decide_eq_true_eq] at hk
    have hz : (p2.sub p1).norm sqrtF ≤ axialZ p1 v P := by
      have e : (P.sub p2).dot (p2.sub p1) = (P.sub p1).dot (p2.sub p1) - (p2.sub p1).dot (p2.sub p1) := by
        simp only [V3.dot, V3.sub]; ring
      have hnn : (p2.sub p1).norm sqrtF * (p2.sub p1).norm sqrtF = (p2.sub p1).dot (p2.sub p1) := hn1
      rw [e, hzax P, ← hnn] at hk
      have : 0 ≤ (axialZ p1 v P - (p2.sub p1).norm sqrtF) * (p2.sub p1).norm sqrtF := by linarith
      have := nonneg_of_mul_nonneg_left this hLpos
      linarith
    refine ⟨ht, by rw [hn]; exact V3.normalize_unit hs _ hne, Or.inr (Or.inl ⟨hon, hz, ?_⟩)⟩
    rw [hn]; exact V3.normalize_pos_mul hs _ hne
  · obtain ⟨h1, h2, h3, h4, h5, h6⟩ := cylSide_sound hs p1 p2 r o0 d hax hr hnp h hm
    exact ⟨h1, h5, Or.inr (Or.inr ⟨h2, h3, h4, h6⟩)⟩

end M3d.Col
