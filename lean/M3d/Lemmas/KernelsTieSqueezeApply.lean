import M3d.Lemmas.KernelsTieTransform
/-!
# Tie between the REGENERATED `toolbox3d.AxisSqueeze` / `AxisPinch` methods and the C05 model

`M3d/Gen/Kernels.lean` is regenerated from `toolbox3d/squeeze.go` on every check.  Proved here, over every linear
ordered field and for every axis `0, 1, 2`:

* `AxisSqueeze.Apply` / `ApplyBounds` are `Xf.squeezeApply` (the `squeeze` clause of `Xf.apply` / `Xf.applyBounds`),
* `AxisPinch.Apply` / `ApplyBounds` are `Pinch.apply` / `Pinch.applyBounds` with `powF t = math.Pow(t, a.Power)`
  (`HasLibm.pow`, uninterpreted),

i.e. the definitions `M3d.C05.inverse_apply`, `apply_bounds_encloses`, `pinch_inverse`, `pinch_bounds_encloses`,
`pinch_solid_conj`, `smart_squeeze_inverse` talk about are the ones the source defines now.  A change of these
methods (an extra branch, another end point, a different order of operations that is not a field identity the proof
absorbs) breaks this module.
-/
namespace M3d.KernelsTie.SqueezeApply
open M3d.Tf M3d.Gen.Kernels M3d.KernelsTie.Transform
set_option linter.unusedSectionVars false
set_option linter.unusedVariables false
set_option linter.unusedSimpArgs false

variable {K : Type} [Field K] [LinearOrder K] [IsStrictOrderedRing K]

/-- the Go value `toolbox3d.Axis` of a model axis number -/
def axisOf (ax : Nat) : Int := (ax : Int)

theorem squeeze_apply_x (lo hi ratio : K) (c : V3 K) :
    toolbox3d.AxisSqueeze_Apply ⟨0, lo, hi, ratio⟩ (g3 c) = g3 (Xf.squeezeApply 0 lo hi ratio c) := by
  simp only [toolbox3d.AxisSqueeze_Apply, Xf.squeezeApply, model3d.Coord3D_Array, model3d.NewCoord3DArray, V3.get,
    V3.set, gt_iff_lt, decide_eq_true_eq, if_true, ite_true]
  split_ifs <;> rfl

theorem squeeze_apply_y (lo hi ratio : K) (c : V3 K) :
    toolbox3d.AxisSqueeze_Apply ⟨1, lo, hi, ratio⟩ (g3 c) = g3 (Xf.squeezeApply 1 lo hi ratio c) := by
  simp only [toolbox3d.AxisSqueeze_Apply, Xf.squeezeApply, model3d.Coord3D_Array, model3d.NewCoord3DArray, V3.get,
    V3.set, gt_iff_lt, decide_eq_true_eq, if_true, ite_true, one_ne_zero, if_false, ite_false]
  split_ifs <;> rfl

theorem squeeze_apply_z (lo hi ratio : K) (c : V3 K) :
    toolbox3d.AxisSqueeze_Apply ⟨2, lo, hi, ratio⟩ (g3 c) = g3 (Xf.squeezeApply 2 lo hi ratio c) := by
  simp only [toolbox3d.AxisSqueeze_Apply, Xf.squeezeApply, model3d.Coord3D_Array, model3d.NewCoord3DArray, V3.get,
    V3.set, gt_iff_lt, decide_eq_true_eq, if_true, ite_true, OfNat.ofNat_ne_zero, OfNat.ofNat_ne_one, if_false,
    ite_false]
  split_ifs <;> rfl

/-- **`AxisSqueeze.Apply` (regenerated) = the `squeeze` clause of `Xf.apply`**, for each of the three axes. -/
theorem squeeze_apply (ax : Nat) (hax : ax ≤ 2) (lo hi ratio : K) (c : V3 K) :
    toolbox3d.AxisSqueeze_Apply ⟨axisOf ax, lo, hi, ratio⟩ (g3 c) = g3 ((Xf.squeeze ax lo hi ratio).apply c) := by
  have h : ax = 0 ∨ ax = 1 ∨ ax = 2 := by omega
  rcases h with rfl | rfl | rfl
  · exact squeeze_apply_x lo hi ratio c
  · exact squeeze_apply_y lo hi ratio c
  · exact squeeze_apply_z lo hi ratio c

/-- **`AxisSqueeze.ApplyBounds` (regenerated) = the `squeeze` clause of `Xf.applyBounds`**. -/
theorem squeeze_bounds (ax : Nat) (hax : ax ≤ 2) (l h ratio : K) (lo hi : V3 K) :
    toolbox3d.AxisSqueeze_ApplyBounds ⟨axisOf ax, l, h, ratio⟩ (g3 lo) (g3 hi) =
      (g3 ((Xf.squeeze ax l h ratio).applyBounds lo hi).1, g3 ((Xf.squeeze ax l h ratio).applyBounds lo hi).2) := by
  simp only [toolbox3d.AxisSqueeze_ApplyBounds, squeeze_apply ax hax]
  rfl

variable [GenPrelude.HasLibm K]

theorem pinch_apply_x (lo hi p : K) (c : V3 K) :
    toolbox3d.AxisPinch_Apply ⟨0, lo, hi, p⟩ (g3 c) =
      g3 (Pinch.apply (fun t => GenPrelude.HasLibm.pow t p) ⟨0, lo, hi⟩ c) := by
  simp only [toolbox3d.AxisPinch_Apply, Pinch.apply, model3d.Coord3D_Array, model3d.NewCoord3DArray, V3.get,
    V3.set, gt_iff_lt, decide_eq_true_eq, if_true, ite_true, Bool.or_eq_true]
  split_ifs <;> rfl

theorem pinch_apply_y (lo hi p : K) (c : V3 K) :
    toolbox3d.AxisPinch_Apply ⟨1, lo, hi, p⟩ (g3 c) =
      g3 (Pinch.apply (fun t => GenPrelude.HasLibm.pow t p) ⟨1, lo, hi⟩ c) := by
  simp only [toolbox3d.AxisPinch_Apply, Pinch.apply, model3d.Coord3D_Array, model3d.NewCoord3DArray, V3.get,
    V3.set, gt_iff_lt, decide_eq_true_eq, if_true, ite_true, Bool.or_eq_true, one_ne_zero, if_false, ite_false]
  split_ifs <;> rfl

theorem pinch_apply_z (lo hi p : K) (c : V3 K) :
    toolbox3d.AxisPinch_Apply ⟨2, lo, hi, p⟩ (g3 c) =
      g3 (Pinch.apply (fun t => GenPrelude.HasLibm.pow t p) ⟨2, lo, hi⟩ c) := by
  simp only [toolbox3d.AxisPinch_Apply, Pinch.apply, model3d.Coord3D_Array, model3d.NewCoord3DArray, V3.get,
    V3.set, gt_iff_lt, decide_eq_true_eq, if_true, ite_true, Bool.or_eq_true, OfNat.ofNat_ne_zero,
    OfNat.ofNat_ne_one, if_false, ite_false]
  split_ifs <;> rfl

/-- **`AxisPinch.Apply` (regenerated) = `Pinch.apply`** with `powF t = math.Pow(t, a.Power)`, for each axis. -/
theorem pinch_apply (ax : Nat) (hax : ax ≤ 2) (lo hi p : K) (c : V3 K) :
    toolbox3d.AxisPinch_Apply ⟨axisOf ax, lo, hi, p⟩ (g3 c) =
      g3 (Pinch.apply (fun t => GenPrelude.HasLibm.pow t p) ⟨ax, lo, hi⟩ c) := by
  have h : ax = 0 ∨ ax = 1 ∨ ax = 2 := by omega
  rcases h with rfl | rfl | rfl
  · exact pinch_apply_x lo hi p c
  · exact pinch_apply_y lo hi p c
  · exact pinch_apply_z lo hi p c

/-- **`AxisPinch.ApplyBounds` (regenerated) = `Pinch.applyBounds`**. -/
theorem pinch_bounds (ax : Nat) (hax : ax ≤ 2) (l h p : K) (lo hi : V3 K) :
    toolbox3d.AxisPinch_ApplyBounds ⟨axisOf ax, l, h, p⟩ (g3 lo) (g3 hi) =
      (g3 (Pinch.applyBounds (fun t => GenPrelude.HasLibm.pow t p) ⟨ax, l, h⟩ lo hi).1,
        g3 (Pinch.applyBounds (fun t => GenPrelude.HasLibm.pow t p) ⟨ax, l, h⟩ lo hi).2) := by
  simp only [toolbox3d.AxisPinch_ApplyBounds, pinch_apply ax hax]
  rfl

end M3d.KernelsTie.SqueezeApply
