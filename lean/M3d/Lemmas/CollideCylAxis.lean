import M3d.Lemmas.CollideCyl
import M3d.Model.CollideAxis
/-!
# C07 — `Cylinder.RayCollisions` for rays that run exactly along the axis

For `d = v·k` (`v` the unit axis) the quadratic of the lateral surface degenerates: `v2 = v(d·v) - d = 0`, so
`a = b = 0` and the discriminant is `0` wherever the ray is — the side reports nothing and the two `castCircle`
calls decide everything.  `cylHits_axis`: the list reported is `cylAxisSpec`; `cylAxisSpec_mem_iff`: its parameters are
exactly the `t ≥ 0` with the ray point on the surface; `cylAxisSpec_parity`: odd ⇔ origin strictly inside.
-/
set_option linter.unusedSectionVars false
set_option linter.unusedVariables false
set_option linter.unusedSimpArgs false
namespace M3d.Col

variable {K : Type} [Field K] [LinearOrder K] [IsStrictOrderedRing K]

/-- `sqrt (x²) = |x|` -/
theorem sqrt_mul_self {sqrtF : K → K} (hs : SqrtOK sqrtF) (x : K) : sqrtF (x * x) = |x| := by
  obtain ⟨h0, h1⟩ := hs (x * x) (mul_self_nonneg x)
  have h2 : sqrtF (x * x) * sqrtF (x * x) = |x| * |x| := by rw [h1, abs_mul_abs_self]
  exact (mul_self_inj_of_nonneg h0 (abs_nonneg x)).1 h2

/-- `|n·κ| = |κ|` for a unit vector `n` -/
theorem V3.norm_scale_unit {sqrtF : K → K} (hs : SqrtOK sqrtF) (n : V3 K) (hn : n.dot n = 1) (κ : K) :
    (n.scale κ).norm sqrtF = |κ| := by
  have h : (n.scale κ).x * (n.scale κ).x + (n.scale κ).y * (n.scale κ).y + (n.scale κ).z * (n.scale κ).z = κ * κ := by
    simp only [V3.scale, V3.dot] at hn ⊢
    linear_combination (κ * κ) * hn
  unfold V3.norm
  rw [h, sqrt_mul_self hs]

theorem V3.norm_unit {sqrtF : K → K} (hs : SqrtOK sqrtF) (n : V3 K) (hn : n.dot n = 1) : n.norm sqrtF = 1 := by
  have h : n.x * n.x + n.y * n.y + n.z * n.z = 1 * 1 := by
    simp only [V3.dot] at hn; rw [hn]; ring
  unfold V3.norm
  rw [h, sqrt_mul_self hs, abs_one]

/-- the component of `w` orthogonal to `n` -/
def perpTo (n w : V3 K) : V3 K := w.sub (n.scale (w.dot n))

/-- **`castCircle` for a ray along the disc's unit normal** `n` (direction `n·κ`, `κ ≠ 0`): never rejected as
near-parallel (`eps ≤ 1`); the plane is crossed at `s = (center - o)·n / κ`, and the disc is hit iff `s ≥ 0` and the
ray's distance from the disc's axis is at most the radius. -/
theorem castCircle_along_normal {sqrtF : K → K} (hs : SqrtOK sqrtF) (eps : K) (heps : eps ≤ 1) (n center : V3 K)
    (hn : n.dot n = 1) (radius : K) (hr : 0 ≤ radius) (o : V3 K) (κ : K) (hκ : κ ≠ 0) :
    castCircle sqrtF eps n center radius o (n.scale κ) =
      if ((center.sub o).dot n) / κ < 0 then none
      else if radius * radius < (perpTo n (o.sub center)).dot (perpTo n (o.sub center)) then none
      else some ⟨((center.sub o).dot n) / κ, n⟩ := by
  have hdn : (n.scale κ).dot n = κ := by
    simp only [V3.scale, V3.dot] at hn ⊢
    linear_combination κ * hn
  have hnot : ¬ (absS ((n.scale κ).dot n) < eps * (n.scale κ).norm sqrtF * n.norm sqrtF) := by
    rw [absS_eq, hdn, V3.norm_scale_unit hs n hn, V3.norm_unit hs n hn, mul_one, not_lt]
    calc eps * |κ| ≤ 1 * |κ| := mul_le_mul_of_nonneg_right heps (abs_nonneg κ)
      _ = |κ| := one_mul _
  have hscale : (n.dot center - o.dot n) / (n.scale κ).dot n = ((center.sub o).dot n) / κ := by
    rw [hdn]
    congr 1
    simp only [V3.dot, V3.sub]; ring
  unfold castCircle castPlane
  simp only [hnot, if_false, hscale]
  set s := ((center.sub o).dot n) / κ with hsdef
  by_cases hneg : s < 0
  · simp only [hneg, if_true]
  · simp only [hneg, if_false]
    have hks : κ * s = (center.sub o).dot n := by
      rw [hsdef]; field_simp
    have hd : (o.along (n.scale κ) s).distSq center =
        (perpTo n (o.sub center)).dot (perpTo n (o.sub center)) := by
      have e : ∀ q : K, q = (center.sub o).dot n →
          ((o.add ((n.scale κ).scale s)).distSq center = (perpTo n (o.sub center)).dot (perpTo n (o.sub center)) ↔
           (o.add (n.scale q)).distSq center = (perpTo n (o.sub center)).dot (perpTo n (o.sub center))) := by
        intro q hq
        have : (n.scale κ).scale s = n.scale q := by
          rw [hq, ← hks]; simp only [V3.scale, V3.mk.injEq]
          exact ⟨by ring, by ring, by ring⟩
        rw [this]
      unfold V3.along
      rw [e _ rfl]
      simp only [perpTo, V3.distSq, V3.add, V3.sub, V3.scale, V3.dot] at hn ⊢
      linear_combination
        (((center.x - o.x) * n.x + (center.y - o.y) * n.y + (center.z - o.z) * n.z) ^ 2 -
          ((o.x - center.x) * n.x + (o.y - center.y) * n.y + (o.z - center.z) * n.z) ^ 2) * hn
    have hlt : radius < (o.along (n.scale κ) s).dist sqrtF center ↔
        radius * radius < (perpTo n (o.sub center)).dot (perpTo n (o.sub center)) := by
      unfold V3.dist
      rw [← hd, ← not_le, sqrt_le_iff hs (V3.distSq_nonneg _ _) hr, not_le]
    by_cases hfar : radius * radius < (perpTo n (o.sub center)).dot (perpTo n (o.sub center))
    · simp only [hfar, if_true, hlt.2 hfar]
    · simp only [hfar, if_false, mt hlt.1 hfar]

/-- along the axis the lateral quadratic degenerates: `v2 = 0` -/
theorem cylV2_axis (v : V3 K) (hv : v.dot v = 1) (k : K) : cylV2 v (v.scale k) = ⟨0, 0, 0⟩ := by
  simp only [cylV2, V3.scale, V3.sub, V3.dot, V3.mk.injEq] at hv ⊢
  refine ⟨?_, ?_, ?_⟩
  · linear_combination (v.x * k) * hv
  · linear_combination (v.y * k) * hv
  · linear_combination (v.z * k) * hv

theorem cylSideHits_axis {sqrtF : K → K} (p1 p2 : V3 K) (r : K) (o : V3 K) (k : K)
    (hv : ((p2.sub p1).normalize sqrtF).dot ((p2.sub p1).normalize sqrtF) = 1) :
    cylSideHits sqrtF p1 p2 r o (((p2.sub p1).normalize sqrtF).scale k) = [] := by
  rw [cylSideHits_eq]
  have hd : cylDisc ((p2.sub p1).normalize sqrtF) (o.sub p1) (((p2.sub p1).normalize sqrtF).scale k) r = 0 := by
    simp only [cylDisc, cylA, cylB, cylV2_axis _ hv, V3.dot]
    ring
  rw [hd, if_neg (lt_irrefl 0)]

/-- **`Cylinder.RayCollisions` for a ray along the axis** reports exactly `cylAxisSpec`, in its order. -/
theorem cylHits_axis {sqrtF : K → K} (hs : SqrtOK sqrtF) (eps : K) (heps : eps ≤ 1) (p1 p2 : V3 K) (r : K)
    (o : V3 K) (k : K) (hax : (p2.sub p1).dot (p2.sub p1) ≠ 0) (hr : 0 ≤ r) (hk : k ≠ 0) :
    cylHits sqrtF eps p1 p2 r o (((p2.sub p1).normalize sqrtF).scale k) =
      cylAxisSpec p1 ((p2.sub p1).normalize sqrtF) ((p2.sub p1).norm sqrtF) r o k := by
  set v := (p2.sub p1).normalize sqrtF with hvdef
  set L := (p2.sub p1).norm sqrtF with hLdef
  have hvu : v.dot v = 1 := V3.normalize_unit hs _ hax
  obtain ⟨hL, hvL⟩ := normalize_dot_self hs (p2.sub p1) hax
  have hnu : (v.scale (-1)).dot (v.scale (-1)) = 1 := by
    have : (v.scale (-1)).dot (v.scale (-1)) = v.dot v := by simp only [V3.dot, V3.scale]; ring
    rw [this, hvu]
  have hdir : v.scale k = (v.scale (-1)).scale (-k) := by
    simp only [V3.scale, V3.mk.injEq]; exact ⟨by ring, by ring, by ring⟩
  have hp2 : p2 = p1.add (v.scale L) := by
    rw [hvL]; simp only [V3.add, V3.sub]; cases p2; simp
  unfold cylHits
  rw [cylSideHits_axis p1 p2 r o k hvu]
  show [] ++ (castCircle sqrtF eps (v.scale (-1)) p1 r o (v.scale k)).toList ++
      (castCircle sqrtF eps v p2 r o (v.scale k)).toList = _
  rw [List.nil_append]
  have c1 := castCircle_along_normal hs eps heps (v.scale (-1)) p1 hnu r hr o (-k) (neg_ne_zero.2 hk)
  rw [← hdir] at c1
  have c2 := castCircle_along_normal hs eps heps v p2 hvu r hr o k hk
  rw [c1, c2]
  -- the quantities of the two caps in terms of z and the radial vector of the origin
  have hs1 : ((p1.sub o).dot (v.scale (-1))) / (-k) = (0 - (o.sub p1).dot v) / k := by
    rw [div_eq_div_iff (neg_ne_zero.2 hk) hk]
    simp only [V3.dot, V3.sub, V3.scale]; ring
  have hs2 : ((p2.sub o).dot v) / k = (L - (o.sub p1).dot v) / k := by
    congr 1
    have : (p2.sub o).dot v = (p2.sub p1).dot v - (o.sub p1).dot v := by simp only [V3.dot, V3.sub]; ring
    rw [this, hL]
  have hr1 : (perpTo (v.scale (-1)) (o.sub p1)).dot (perpTo (v.scale (-1)) (o.sub p1)) =
      ((o.sub p1).sub (v.scale ((o.sub p1).dot v))).dot ((o.sub p1).sub (v.scale ((o.sub p1).dot v))) := by
    simp only [perpTo, V3.dot, V3.sub, V3.scale]; ring
  have hr2 : (perpTo v (o.sub p2)).dot (perpTo v (o.sub p2)) =
      ((o.sub p1).sub (v.scale ((o.sub p1).dot v))).dot ((o.sub p1).sub (v.scale ((o.sub p1).dot v))) := by
    have hvec : perpTo v (o.sub p2) = (o.sub p1).sub (v.scale ((o.sub p1).dot v)) := by
      conv_lhs => rw [hp2]
      simp only [perpTo, V3.dot, V3.sub, V3.scale, V3.add, V3.mk.injEq] at hvu ⊢
      refine ⟨?_, ?_, ?_⟩
      · linear_combination (v.x * L) * hvu
      · linear_combination (v.y * L) * hvu
      · linear_combination (v.z * L) * hvu
    rw [hvec]
  rw [hs1, hs2, hr1, hr2]
  unfold cylAxisSpec
  simp only []
  by_cases hfar : r * r < ((o.sub p1).sub (v.scale ((o.sub p1).dot v))).dot ((o.sub p1).sub (v.scale ((o.sub p1).dot v)))
  · simp only [hfar, if_true]
    by_cases h1 : (0 - (o.sub p1).dot v) / k < 0 <;> by_cases h2 : (L - (o.sub p1).dot v) / k < 0 <;>
      simp only [h1, h2, if_true, if_false, Option.toList_none, Option.toList_some, List.append_nil,
        List.nil_append, List.cons_append]
  · simp only [hfar, if_false]
    by_cases h1 : (0 - (o.sub p1).dot v) / k < 0 <;> by_cases h2 : (L - (o.sub p1).dot v) / k < 0 <;>
      simp only [h1, h2, if_true, if_false, Option.toList_none, Option.toList_some, List.append_nil,
        List.nil_append, List.cons_append]

/-! ## what the list means geometrically -/

/-- `P` lies on the surface of the cylinder with base point `p1`, unit axis `v`, length `L`, radius `r`: on the
lateral surface between the caps, or on one of the two cap discs. -/
def OnCylSurface (p1 v : V3 K) (L r : K) (P : V3 K) : Prop :=
  (radialSq p1 v P = r * r ∧ 0 ≤ axialZ p1 v P ∧ axialZ p1 v P ≤ L) ∨
  (radialSq p1 v P ≤ r * r ∧ (axialZ p1 v P = 0 ∨ axialZ p1 v P = L))

/-- `P` lies strictly inside that cylinder. -/
def InCylOpen (p1 v : V3 K) (L r : K) (P : V3 K) : Prop :=
  0 < axialZ p1 v P ∧ axialZ p1 v P < L ∧ radialSq p1 v P < r * r

/-- `P` lies in the closed cylinder. -/
def InCylClosed (p1 v : V3 K) (L r : K) (P : V3 K) : Prop :=
  0 ≤ axialZ p1 v P ∧ axialZ p1 v P ≤ L ∧ radialSq p1 v P ≤ r * r

theorem axialZ_along_axis (p1 v o : V3 K) (hv : v.dot v = 1) (k t : K) :
    axialZ p1 v (o.along (v.scale k) t) = axialZ p1 v o + k * t := by
  simp only [axialZ, V3.along, V3.add, V3.sub, V3.scale, V3.dot] at hv ⊢
  linear_combination (k * t) * hv

theorem radialVec_along_axis (p1 v o : V3 K) (hv : v.dot v = 1) (k t : K) :
    radialVec p1 v (o.along (v.scale k) t) = radialVec p1 v o := by
  simp only [radialVec, axialZ, V3.along, V3.add, V3.sub, V3.scale, V3.dot, V3.mk.injEq] at hv ⊢
  refine ⟨?_, ?_, ?_⟩
  · linear_combination (-(v.x * k * t)) * hv
  · linear_combination (-(v.y * k * t)) * hv
  · linear_combination (-(v.z * k * t)) * hv

theorem radialSq_along_axis (p1 v o : V3 K) (hv : v.dot v = 1) (k t : K) :
    radialSq p1 v (o.along (v.scale k) t) = radialSq p1 v o := by
  unfold radialSq; rw [radialVec_along_axis p1 v o hv k t]

theorem cylAxisSpec_eq (p1 v : V3 K) (L r : K) (o : V3 K) (k : K) :
    cylAxisSpec p1 v L r o k =
      if r * r < radialSq p1 v o then []
      else
        (if (0 - axialZ p1 v o) / k < 0 then [] else [⟨(0 - axialZ p1 v o) / k, v.scale (-1)⟩]) ++
        (if (L - axialZ p1 v o) / k < 0 then [] else [⟨(L - axialZ p1 v o) / k, v⟩]) := rfl

/-- **the parameters reported along the axis are exactly the `t ≥ 0` whose ray point is on the surface** (for a ray that
does not run inside the lateral surface itself). -/
theorem cylAxisSpec_mem_iff (p1 v : V3 K) (L r : K) (o : V3 K) (k : K) (hv : v.dot v = 1) (hk : k ≠ 0)
    (hgen : radialSq p1 v o ≠ r * r) (t : K) :
    (∃ h ∈ cylAxisSpec p1 v L r o k, h.t = t) ↔ 0 ≤ t ∧ OnCylSurface p1 v L r (o.along (v.scale k) t) := by
  rw [cylAxisSpec_eq]
  unfold OnCylSurface
  rw [radialSq_along_axis p1 v o hv, axialZ_along_axis p1 v o hv]
  set z := axialZ p1 v o
  set R2 := radialSq p1 v o
  have e0 : z + k * t = 0 ↔ t = (0 - z) / k := by
    rw [eq_div_iff hk]; constructor <;> intro h <;> linear_combination h
  have eL : z + k * t = L ↔ t = (L - z) / k := by
    rw [eq_div_iff hk]; constructor <;> intro h <;> linear_combination h
  by_cases hfar : r * r < R2
  · simp only [hfar, if_true, List.not_mem_nil, false_and, exists_false, false_iff, not_and]
    intro _ hsurf
    rcases hsurf with ⟨h1, _⟩ | ⟨h1, _⟩
    · exact hgen h1
    · exact absurd hfar (not_lt.2 h1)
  · simp only [hfar, if_false]
    have hle : R2 ≤ r * r := not_lt.1 hfar
    constructor
    · rintro ⟨h, hm, rfl⟩
      rcases List.mem_append.1 hm with hm | hm
      · split at hm
        · cases hm
        · rename_i hneg
          rw [List.mem_singleton] at hm; subst hm
          exact ⟨not_lt.1 hneg, Or.inr ⟨hle, Or.inl (e0.2 rfl)⟩⟩
      · split at hm
        · cases hm
        · rename_i hneg
          rw [List.mem_singleton] at hm; subst hm
          exact ⟨not_lt.1 hneg, Or.inr ⟨hle, Or.inr (eL.2 rfl)⟩⟩
    · rintro ⟨ht, hsurf⟩
      have hcap : z + k * t = 0 ∨ z + k * t = L := by
        rcases hsurf with ⟨h1, _⟩ | ⟨_, h2⟩
        · exact absurd h1 hgen
        · exact h2
      rcases hcap with h | h
      · have ht' := e0.1 h
        refine ⟨⟨(0 - z) / k, v.scale (-1)⟩, List.mem_append_left _ ?_, ht'.symm⟩
        rw [if_neg (by rw [← ht']; exact not_lt.2 ht)]
        exact List.mem_singleton.2 rfl
      · have ht' := eL.1 h
        refine ⟨⟨(L - z) / k, v⟩, List.mem_append_right _ ?_, ht'.symm⟩
        rw [if_neg (by rw [← ht']; exact not_lt.2 ht)]
        exact List.mem_singleton.2 rfl

/-- the normals: `-v` where the ray crosses the base plane, `v` where it crosses the top plane -/
theorem cylAxisSpec_normals (p1 v : V3 K) (L r : K) (o : V3 K) (k : K) (hv : v.dot v = 1) (hk : k ≠ 0)
    (h : Hit K) (hm : h ∈ cylAxisSpec p1 v L r o k) :
    0 ≤ h.t ∧ radialSq p1 v (o.along (v.scale k) h.t) ≤ r * r ∧
    ((axialZ p1 v (o.along (v.scale k) h.t) = 0 ∧ h.n = v.scale (-1)) ∨
     (axialZ p1 v (o.along (v.scale k) h.t) = L ∧ h.n = v)) := by
  rw [cylAxisSpec_eq] at hm
  rw [radialSq_along_axis p1 v o hv, axialZ_along_axis p1 v o hv]
  split at hm
  · cases hm
  · rename_i hfar
    rcases List.mem_append.1 hm with hm | hm
    · split at hm
      · cases hm
      · rename_i hneg
        rw [List.mem_singleton] at hm; subst hm
        refine ⟨not_lt.1 hneg, not_lt.1 hfar, Or.inl ⟨?_, rfl⟩⟩
        show axialZ p1 v o + k * ((0 - axialZ p1 v o) / k) = 0
        field_simp; ring
    · split at hm
      · cases hm
      · rename_i hneg
        rw [List.mem_singleton] at hm; subst hm
        refine ⟨not_lt.1 hneg, not_lt.1 hfar, Or.inr ⟨?_, rfl⟩⟩
        show axialZ p1 v o + k * ((L - axialZ p1 v o) / k) = L
        field_simp; ring

theorem div_neg_iff_of_pos {a k : K} (hk : 0 < k) : a / k < 0 ↔ a < 0 := by
  constructor
  · intro h; by_contra hn
    exact absurd h (not_lt.2 (div_nonneg (not_lt.1 hn) hk.le))
  · intro h; exact div_neg_of_neg_of_pos h hk

theorem div_neg_iff_of_neg {a k : K} (hk : k < 0) : a / k < 0 ↔ 0 < a := by
  constructor
  · intro h; by_contra hn
    exact absurd h (not_lt.2 (div_nonneg_of_nonpos (not_lt.1 hn) hk.le))
  · intro h; exact div_neg_of_pos_of_neg h hk

/-- **along the axis the number of reported collisions is odd exactly when the origin is strictly inside** (origin not
on the surface). -/
theorem cylAxisSpec_parity (p1 v : V3 K) (L r : K) (o : V3 K) (k : K) (hk : k ≠ 0) (hL : 0 < L)
    (hgen : radialSq p1 v o ≠ r * r) (hz0 : axialZ p1 v o ≠ 0) (hzL : axialZ p1 v o ≠ L) :
    (cylAxisSpec p1 v L r o k).length % 2 = 1 ↔ InCylOpen p1 v L r o := by
  rw [cylAxisSpec_eq]
  unfold InCylOpen
  set z := axialZ p1 v o
  set R2 := radialSq p1 v o
  by_cases hfar : r * r < R2
  · simp only [hfar, if_true, List.length_nil, Nat.zero_mod, zero_ne_one, false_iff, not_and, not_lt]
    intro _ _; exact hfar.le
  · simp only [hfar, if_false]
    have hlt : R2 < r * r := lt_of_le_of_ne (not_lt.1 hfar) hgen
    rcases lt_or_gt_of_ne hk with hkn | hkp
    · simp only [div_neg_iff_of_neg hkn]
      by_cases h1 : 0 < 0 - z <;> by_cases h2 : 0 < L - z <;>
        simp only [h1, h2, if_true, if_false, List.length_append, List.length_nil, List.length_cons] <;>
        constructor <;> intro h
      all_goals first
        | (exfalso; omega)
        | (exfalso; obtain ⟨ha, hb, _⟩ := h; first | linarith | (exact absurd (le_antisymm (by linarith) (by linarith)) hz0) | (exact absurd (le_antisymm (by linarith) (by linarith)) hzL))
        | (refine ⟨lt_of_le_of_ne (by linarith) (Ne.symm hz0), by linarith, hlt⟩)
        | (refine ⟨by linarith, lt_of_le_of_ne (by linarith) hzL, hlt⟩)
        | trivial
        | rfl
    · simp only [div_neg_iff_of_pos hkp]
      by_cases h1 : 0 - z < 0 <;> by_cases h2 : L - z < 0 <;>
        simp only [h1, h2, if_true, if_false, List.length_append, List.length_nil, List.length_cons] <;>
        constructor <;> intro h
      all_goals first
        | (exfalso; omega)
        | (exfalso; obtain ⟨ha, hb, _⟩ := h; first | linarith | (exact absurd (le_antisymm (by linarith) (by linarith)) hz0) | (exact absurd (le_antisymm (by linarith) (by linarith)) hzL))
        | (refine ⟨lt_of_le_of_ne (by linarith) (Ne.symm hz0), by linarith, hlt⟩)
        | (refine ⟨by linarith, lt_of_le_of_ne (by linarith) hzL, hlt⟩)
        | trivial
        | rfl

/-! ## `Cylinder.Contains` -/

/-- **`Cylinder.Contains`** (axial coordinate measured from `P2` along `(P1-P2).Normalize()`, then the distance from
the foot on the axis) is membership in the closed cylinder. -/
theorem cylContains_iff {sqrtF : K → K} (hs : SqrtOK sqrtF) (p1 p2 : V3 K) (r : K) (hr : 0 ≤ r) (p : V3 K)
    (hax : (p2.sub p1).dot (p2.sub p1) ≠ 0) :
    cylContains sqrtF p1 p2 r p = true ↔
      InCylClosed p1 ((p2.sub p1).normalize sqrtF) ((p2.sub p1).norm sqrtF) r p := by
  set v := (p2.sub p1).normalize sqrtF with hvdef
  set L := (p2.sub p1).norm sqrtF with hLdef
  have hvu : v.dot v = 1 := V3.normalize_unit hs _ hax
  obtain ⟨hL, hvL⟩ := normalize_dot_self hs (p2.sub p1) hax
  have hnorm : (p1.sub p2).norm sqrtF = L := by
    rw [hLdef]; unfold V3.norm; congr 1; simp only [V3.sub]; ring
  have hdir : (p1.sub p2).normalize sqrtF = v.scale (-1) := by
    have e : (p1.sub p2).normalize sqrtF = (p1.sub p2).scale (1 / L) := by
      unfold V3.normalize; rw [hnorm]
    have e2 : v = (p2.sub p1).scale (1 / L) := rfl
    rw [e, e2]
    simp only [V3.scale, V3.sub, V3.mk.injEq]; exact ⟨by ring, by ring, by ring⟩
  have hp2 : p2 = p1.add (v.scale L) := by
    rw [hvL]; simp only [V3.add, V3.sub]; cases p2; simp
  have hfrac : (p.sub p2).dot (v.scale (-1)) = L - axialZ p1 v p := by
    have : (p.sub p2).dot (v.scale (-1)) = (p2.sub p1).dot v - (p.sub p1).dot v := by
      simp only [V3.dot, V3.sub, V3.scale]; ring
    rw [this, hL]; rfl
  have hproj : ((p2.add ((v.scale (-1)).scale (L - axialZ p1 v p))).distSq p) = radialSq p1 v p := by
    conv_lhs => rw [hp2]
    simp only [radialSq, radialVec, V3.distSq, V3.add, V3.sub, V3.scale, V3.dot]
    ring
  unfold cylContains InCylClosed
  simp only [hdir, hnorm, hfrac]
  by_cases hout : L - axialZ p1 v p < 0 ∨ L < L - axialZ p1 v p
  · simp only [hout, if_true, Bool.false_eq_true, false_iff, not_and]
    intro h0 hL'
    rcases hout with h | h <;> linarith
  · simp only [hout, if_false, decide_eq_true_eq]
    unfold V3.dist
    rw [hproj, sqrt_le_iff hs (by unfold radialSq; exact V3.dot_self_nonneg _) hr]
    have h0 : 0 ≤ axialZ p1 v p := by
      by_contra hn; exact hout (Or.inr (by linarith [not_le.1 hn]))
    have h1 : axialZ p1 v p ≤ L := by
      by_contra hn; exact hout (Or.inl (by linarith [not_le.1 hn]))
    exact ⟨fun h => ⟨h0, h1, h⟩, fun h => h.2.2⟩

end M3d.Col
