import M3d.Lemmas.Triangulate
import Mathlib.Algebra.BigOperators.Group.Finset.Basic
import Mathlib.Algebra.Order.Ring.Defs
import Mathlib.Tactic.Linarith
/-!
Helper lemmas for C14, part 2: the certificate checker.

`Glued B E`  – the combinatorial statement decided by `gluedOk`.
`glued_sum`  – discrete Stokes: for an antisymmetric edge functional, Σ over the triangle edges
               = Σ over the boundary edges (interior edges cancel in pairs).
`refineAll_sum` – subdividing edges at vertices lying on them does not change the sum of a
               segment-additive functional.
-/
namespace M3d.Tri
open M3d.Surface (Tri Edge swap triEdges dirEdges)

/-- The triangles are glued along interior edges into a region whose boundary is exactly `B`:
every directed edge is used at most once, every boundary edge is used (in boundary direction) and
its reverse is not, every non-boundary edge is matched by its reverse. -/
def Glued (B E : List Edge) : Prop :=
  E.Nodup ∧ B.Nodup ∧ (∀ e ∈ B, e ∈ E ∧ swap e ∉ E) ∧ (∀ e ∈ E, e ∈ B ∨ swap e ∈ E)

theorem gluedOk_iff (B E : List Edge) : gluedOk B E = true ↔ Glued B E := by
  simp [gluedOk, Glued, List.all_eq_true, and_assoc]

section Sum
variable {K : Type} [Field K]

theorem sumF_eq_sum {β : Type} (f : β → K) (l : List β) : sumF f l = (l.map f).sum := by
  induction l with
  | nil => rfl
  | cons a l ih => simp only [sumF, List.map_cons, List.foldr_cons, List.sum_cons] at ih ⊢; rw [ih]

theorem sumF_nil {β : Type} (f : β → K) : sumF f [] = 0 := rfl
theorem sumF_cons {β : Type} (f : β → K) (a : β) (l : List β) : sumF f (a :: l) = f a + sumF f l := rfl

theorem sumF_append {β : Type} (f : β → K) (l₁ l₂ : List β) : sumF f (l₁ ++ l₂) = sumF f l₁ + sumF f l₂ := by
  induction l₁ with
  | nil => simp [sumF_nil]
  | cons a l ih => simp only [List.cons_append, sumF_cons, ih]; ring

theorem sumF_perm {β : Type} (f : β → K) {l₁ l₂ : List β} (h : l₁.Perm l₂) : sumF f l₁ = sumF f l₂ := by
  rw [sumF_eq_sum, sumF_eq_sum]; exact (h.map f).sum_eq

theorem sumF_flatMap {β γ : Type} (f : γ → K) (g : β → List γ) (l : List β) :
    sumF f (l.flatMap g) = sumF (fun b => sumF f (g b)) l := by
  induction l with
  | nil => rfl
  | cons a l ih => simp only [List.flatMap_cons, sumF_append, sumF_cons, ih]

end Sum

section Stokes
variable {K : Type} [Field K] [LinearOrder K] [IsStrictOrderedRing K]

theorem swap_swap' (e : Edge) : swap (swap e) = e := rfl

/-- **Discrete Stokes / Green.**  If the triangle edges `E` glue to a region with boundary `B`, any
antisymmetric functional on directed edges has the same total over `E` as over `B`. -/
theorem glued_sum {B E : List Edge} (h : Glued B E) (f : Edge → K) (hf : ∀ e, f (swap e) = -f e) :
    sumF f E = sumF f B := by
  classical
  obtain ⟨hE, hB, hBE, hEB⟩ := h
  rw [sumF_eq_sum, sumF_eq_sum, ← List.sum_toFinset f hE, ← List.sum_toFinset f hB]
  have hsplit := Finset.sum_filter_add_sum_filter_not E.toFinset (fun e => e ∈ B) f
  have h1 : E.toFinset.filter (fun e => e ∈ B) = B.toFinset := by
    ext e
    simp only [Finset.mem_filter, List.mem_toFinset]
    exact ⟨fun h => h.2, fun h => ⟨(hBE e h).1, h⟩⟩
  have h2 : ∑ e ∈ E.toFinset.filter (fun e => ¬ e ∈ B), f e = 0 := by
    apply Finset.sum_involution (fun e _ => swap e)
    · intro e _; rw [hf e]; ring
    · intro e _ hne heq
      apply hne
      have : f e = -f e := by
        have := hf e
        rw [heq] at this
        exact this
      linarith
    · intro e he
      simp only [Finset.mem_filter, List.mem_toFinset] at he ⊢
      have hsw : swap e ∈ E := by
        rcases hEB e he.1 with hb | hs
        · exact absurd hb he.2
        · exact hs
      refine ⟨hsw, fun hb => ?_⟩
      exact (hBE _ hb).2 (by simpa [swap_swap'] using he.1)
    · intro e _; rfl
  rw [h1, h2, add_zero] at hsplit
  exact hsplit.symm

/-! ### refinement -/

/-- `f` is additive under subdivision of a segment at a vertex strictly inside it. -/
def SegAdditive (c : Nat → P2 K) (f : Edge → K) : Prop :=
  ∀ a b m, between (c a) (c b) (c m) = true → f (a, b) = f (a, m) + f (m, b)

theorem chainEdges_sum {c : Nat → P2 K} {f : Edge → K} (hf : SegAdditive c f) (b : Nat) :
    ∀ (a : Nat) (ms : List Nat), chainOnSeg c b a ms = true → sumF f (chainEdges b a ms) = f (a, b) := by
  intro a ms
  induction ms generalizing a with
  | nil => intro _; simp [chainEdges, sumF_cons, sumF_nil]
  | cons m ms ih =>
    intro h
    simp only [chainOnSeg, Bool.and_eq_true] at h
    simp only [chainEdges, sumF_cons, ih m h.2]
    exact (hf a b m h.1).symm

theorem refineEdge_sum {c : Nat → P2 K} {f : Edge → K} (hf : SegAdditive c f) {nv : Nat} {e : Edge}
    {r : List Edge} (h : refineEdge c nv e = some r) : sumF f r = f e := by
  simp only [refineEdge] at h
  split at h
  · rename_i hc
    cases h
    exact chainEdges_sum hf e.2 e.1 _ hc
  · cases h

theorem refineAll_sum {c : Nat → P2 K} {f : Edge → K} (hf : SegAdditive c f) {nv : Nat} :
    ∀ {es rs : List Edge}, refineAll c nv es = some rs → sumF f rs = sumF f es := by
  intro es
  induction es with
  | nil => intro rs h; cases h; rfl
  | cons e es ih =>
    intro rs h
    simp only [refineAll] at h
    split at h
    · rename_i r rs' h1 h2
      cases h
      rw [sumF_append, sumF_cons, refineEdge_sum hf h1, ih h2]
    · cases h

/-! ### the two functionals used: shoelace term and the generic statement -/

def crossE (c : Nat → P2 K) (e : Edge) : K := cross (c e.1) (c e.2)

theorem crossE_antisymm (c : Nat → P2 K) (e : Edge) : crossE c (swap e) = -crossE c e := by
  simp only [crossE, swap]; exact cross_antisymm _ _

theorem between_orient {a b p : P2 K} (h : between a b p = true) : orient a b p = 0 := by
  simp only [between, Bool.and_eq_true, decide_eq_true_eq] at h
  exact h.1.1

theorem crossE_segAdditive (c : Nat → P2 K) : SegAdditive c (crossE c) := by
  intro a b m h
  have h0 := between_orient h
  simp only [crossE]
  have e1 := orient_eq_cross (c a) (c b) (c m)
  have e2 := cross_antisymm (c b) (c m)
  have e3 := cross_antisymm (c a) (c m)
  rw [h0] at e1
  linear_combination -e1 - e2 - e3

theorem sumF_triEdges_cross (c : Nat → P2 K) (t : Tri) : sumF (crossE c) (triEdges t) = triOrient c t := by
  simp only [triEdges, sumF_cons, sumF_nil, crossE, triOrient, orient_eq_cross]; ring

theorem sumF_dirEdges_cross (c : Nat → P2 K) (ts : List Tri) :
    sumF (crossE c) (dirEdges ts) = sumF (triOrient c) ts := by
  unfold dirEdges
  rw [sumF_flatMap]
  congr 1
  funext t
  exact sumF_triEdges_cross c t

theorem refineG_sum {c : Nat → P2 K} {f : Edge → K} (hf : SegAdditive c f) {strict : Bool} {nv : Nat}
    {es rs : List Edge} (h : refineG strict c nv es = some rs) : sumF f rs = sumF f es := by
  unfold refineG at h
  cases strict
  · simp at h; rw [h]
  · exact refineAll_sum hf (by simpa using h)

/-- What the gluing part of `edgesOkG` establishes (for either strictness). -/
theorem edgesOkG_spec {strict : Bool} {c : Nat → P2 K} {nv : Nat} {cw : Bool} {bnd : List Edge} {tris : List Tri}
    (h : edgesOkG strict c nv cw bnd tris = true) :
    (∀ t ∈ tris, t.1 < nv ∧ t.2.1 < nv ∧ t.2.2 < nv) ∧
    (∀ t ∈ tris, if cw = true then triOrient c t ≤ 0 else 0 ≤ triOrient c t) ∧
    ∃ B E, refineG strict c nv bnd = some B ∧ refineG strict c nv (dirEdges tris) = some E ∧ Glued B E := by
  unfold edgesOkG at h
  simp only [Bool.and_eq_true, List.all_eq_true, decide_eq_true_eq] at h
  obtain ⟨⟨h1, h2⟩, h3⟩ := h
  refine ⟨fun t ht => by simpa [and_assoc] using h1 t ht, ?_, ?_⟩
  · intro t ht
    have := h2 t ht
    cases cw <;> cases strict <;> simp at this ⊢ <;> first | exact this | exact le_of_lt this
  · split at h3
    · rename_i B E hB hE
      exact ⟨B, E, hB, hE, (gluedOk_iff B E).1 h3⟩
    · cases h3

/-- What `edgesOk` establishes. -/
theorem edgesOk_spec {c : Nat → P2 K} {nv : Nat} {cw : Bool} {bnd : List Edge} {tris : List Tri}
    (h : edgesOk c nv cw bnd tris = true) :
    (∀ t ∈ tris, t.1 < nv ∧ t.2.1 < nv ∧ t.2.2 < nv) ∧
    (∀ t ∈ tris, if cw = true then triOrient c t < 0 else 0 < triOrient c t) ∧
    ∃ B E, refineAll c nv bnd = some B ∧ refineAll c nv (dirEdges tris) = some E ∧ Glued B E := by
  obtain ⟨g1, _, g3⟩ := edgesOkG_spec h
  refine ⟨g1, ?_, by simpa [refineG] using g3⟩
  unfold edgesOk edgesOkG at h
  simp only [Bool.and_eq_true, List.all_eq_true, decide_eq_true_eq] at h
  intro t ht
  have := h.1.2 t ht
  cases cw <;> simpa using this

/-- Chain-level statement: for every antisymmetric, subdivision-additive edge functional the total
over all triangle edges equals the total over the boundary. -/
theorem edgesOkG_chain {strict : Bool} {c : Nat → P2 K} {nv : Nat} {cw : Bool} {bnd : List Edge} {tris : List Tri}
    (h : edgesOkG strict c nv cw bnd tris = true) (f : Edge → K) (hanti : ∀ e, f (swap e) = -f e)
    (hadd : SegAdditive c f) : sumF f (dirEdges tris) = sumF f bnd := by
  obtain ⟨_, _, B, E, hB, hE, hg⟩ := edgesOkG_spec h
  rw [← refineG_sum hadd hE, ← refineG_sum hadd hB]
  exact glued_sum hg f hanti

theorem edgesOk_chain {c : Nat → P2 K} {nv : Nat} {cw : Bool} {bnd : List Edge} {tris : List Tri}
    (h : edgesOk c nv cw bnd tris = true) (f : Edge → K) (hanti : ∀ e, f (swap e) = -f e)
    (hadd : SegAdditive c f) : sumF f (dirEdges tris) = sumF f bnd :=
  edgesOkG_chain h f hanti hadd

/-- The area equation is implied by the edge conditions. -/
theorem edgesOk_area {c : Nat → P2 K} {nv : Nat} {cw : Bool} {bnd : List Edge} {tris : List Tri}
    (h : edgesOk c nv cw bnd tris = true) : sumF (triOrient c) tris = sumF (crossE c) bnd := by
  rw [← sumF_dirEdges_cross]
  exact edgesOk_chain h _ (crossE_antisymm c) (crossE_segAdditive c)

theorem certOk_iff_edgesOk (c : Nat → P2 K) (nv : Nat) (cw : Bool) (bnd : List Edge) (tris : List Tri) :
    certOk c nv cw bnd tris = true ↔ edgesOk c nv cw bnd tris = true := by
  constructor
  · intro h; simp only [certOk, Bool.and_eq_true] at h; exact h.1
  · intro h
    simp only [certOk, Bool.and_eq_true, decide_eq_true_eq]
    exact ⟨h, edgesOk_area h⟩

end Stokes

end M3d.Tri
