import M3d.Gen.Kernels
import M3d.Model.RectMesh
import M3d.Model.MarchingMesh
import Mathlib.Order.Defs.LinearOrder
import Mathlib.Tactic.SplitIfs
/-!
# Tie between the REGENERATED kernels and the hand-written pieces of the C01 models

`M3d/Gen/Kernels.lean` is translated from the current Go source on every check (`harness/hlib/go2lean`).  Three of its
functions are places where the C01 models assume a convention of the code:

* `model3d.mcCornerCoordinates` / `model2d.msCornerCoordinates` (model3d/mc.go, model2d/marching.go): corner `i` of a
  cell has the cell's MAX on axis `k` iff bit `k` of `i` is set.  The regenerated lookup tables (`Gen/McTable.lean`) list
  triangles / segments by corner indices; the lattice models place the vertex on the cube edge `(a, b)` at
  `gvOf x y z a b = 2·cell + cornerOff a + cornerOff b` (doubled lattice units) — which is the midpoint
  `corners[a].Mid(corners[b])` of the code exactly if the corner table has this bit convention
  (`mcCorner_eq`, `mc_mid_eq_gvOf`, `msCorner_eq`, `ms_mid_eq_gv2Of`).  Reordering the corner table (say `x` and `z`
  exchanged) breaks these proofs; the correspondence (kinds `mc`, `ms`) then shows the mirrored meshes.
* `toolbox3d.quadMinMax` (toolbox3d/rect_set.go): the key under which `ExactMesh` cancels faces is the
  component-wise min and max of the four corners — `M3d.RectMesh.quadKey`, which `exactmesh_face_kept_iff_unshared`
  and `exactmesh_is_closed` are about (`quadMinMax_eq`).

(`toolbox3d.splitRect` is tied by C04's `KernelsTieRectSet`; `toolbox3d.triangulateQuad` belongs to the height-map
mesher, which C01 judges per instance and does not model.)
-/
namespace M3d.KernelsTie.C01
open M3d.RectSet M3d.RectMesh M3d.Marching M3d.Gen.Kernels M3d.GenPrelude
set_option linter.unusedSectionVars false
set_option linter.unusedVariables false

/-! ### `quadMinMax` -/
section quad
variable {K : Type} [LinearOrder K] [OfNat K 0]

@[reducible] def g3 (a : V3 K) : model3d.Coord3D K := ⟨a.x, a.y, a.z⟩

/-- The regenerated `quadMinMax(p1, p2, p3, p4)` is the model's `quadKey`, for every linear order. -/
theorem quadMinMax_eq (q : Quad K) :
    toolbox3d.quadMinMax (g3 q.1) (g3 q.2.1) (g3 q.2.2.1) (g3 q.2.2.2) =
      ({ e0 := g3 (quadKey q).1, e1 := g3 (quadKey q).2 } : Arr2 (model3d.Coord3D K)) := by
  rfl

/-- Non-vacuity: the `x = min` face of the unit box has the key `((0,0,0), (0,1,1))`. -/
example : quadKey ((⟨0, 0, 0⟩, ⟨0, 0, 1⟩, ⟨0, 1, 1⟩, ⟨0, 1, 0⟩) : Quad Int) = (⟨0, 0, 0⟩, ⟨0, 1, 1⟩) := by decide

end quad

/-! ### the corner tables -/

def arr8get {τ : Type} (a : Arr8 τ) : Nat → τ
  | 0 => a.e0 | 1 => a.e1 | 2 => a.e2 | 3 => a.e3 | 4 => a.e4 | 5 => a.e5 | 6 => a.e6 | _ => a.e7

def arr4get {τ : Type} (a : Arr4 τ) : Nat → τ
  | 0 => a.e0 | 1 => a.e1 | 2 => a.e2 | _ => a.e3

/-- Corner `i` of `mcCornerCoordinates(min, max)` has `max` on axis `k` iff bit `k` of `i` is set (`cornerOff i k`),
for every coordinate type. -/
theorem mcCorner_eq {τ : Type} (lo hi : model3d.Coord3D τ) : ∀ i, i < 8 →
    arr8get (model3d.mcCornerCoordinates lo hi) i =
      ⟨if cornerOff i 0 = 1 then hi.X else lo.X, if cornerOff i 1 = 1 then hi.Y else lo.Y,
       if cornerOff i 2 = 1 then hi.Z else lo.Z⟩
  | 0, _ => rfl | 1, _ => rfl | 2, _ => rfl | 3, _ => rfl | 4, _ => rfl | 5, _ => rfl | 6, _ => rfl | 7, _ => rfl
  | n + 8, h => absurd h (by omega)

theorem msCorner_eq {τ : Type} (lo hi : model2d.Coord τ) : ∀ i, i < 4 →
    arr4get (model2d.msCornerCoordinates lo hi) i =
      ⟨if cornerOff i 0 = 1 then hi.X else lo.X, if cornerOff i 1 = 1 then hi.Y else lo.Y⟩
  | 0, _ => rfl | 1, _ => rfl | 2, _ => rfl | 3, _ => rfl
  | n + 4, h => absurd h (by omega)

theorem cornerOff_le (c k : Nat) : cornerOff c k ≤ 1 := by
  unfold cornerOff bit
  omega

/-- **The midpoint of corners `a`, `b` of the real corner table is the model's vertex position**: with the cell
`(x, y, z)` occupying `[2x, 2x+2] × …` in doubled lattice units, `corners[a] + corners[b]` (twice the midpoint
`corners[a].Mid(corners[b])` that `mcTriangle.Triangle` computes) is twice `gvOf x y z a b`. -/
theorem mc_mid_eq_gvOf (x y z a b : Nat) (ha : a < 8) (hb : b < 8) :
    let c := model3d.mcCornerCoordinates (⟨2 * x, 2 * y, 2 * z⟩ : model3d.Coord3D Nat) ⟨2 * x + 2, 2 * y + 2, 2 * z + 2⟩
    (arr8get c a).X + (arr8get c b).X = 2 * (gvOf x y z a b).1 ∧
    (arr8get c a).Y + (arr8get c b).Y = 2 * (gvOf x y z a b).2.1 ∧
    (arr8get c a).Z + (arr8get c b).Z = 2 * (gvOf x y z a b).2.2 := by
  intro c
  simp only [c, mcCorner_eq _ _ a ha, mcCorner_eq _ _ b hb, gvOf]
  have h1 := cornerOff_le a 0; have h2 := cornerOff_le a 1; have h3 := cornerOff_le a 2
  have h4 := cornerOff_le b 0; have h5 := cornerOff_le b 1; have h6 := cornerOff_le b 2
  refine ⟨?_, ?_, ?_⟩ <;> split_ifs <;> omega

theorem ms_mid_eq_gv2Of (x y a b : Nat) (ha : a < 4) (hb : b < 4) :
    let c := model2d.msCornerCoordinates (⟨2 * x, 2 * y⟩ : model2d.Coord Nat) ⟨2 * x + 2, 2 * y + 2⟩
    (arr4get c a).X + (arr4get c b).X = 2 * (gv2Of x y a b).1 ∧
    (arr4get c a).Y + (arr4get c b).Y = 2 * (gv2Of x y a b).2 := by
  intro c
  simp only [c, msCorner_eq _ _ a ha, msCorner_eq _ _ b hb, gv2Of]
  have h1 := cornerOff_le a 0; have h2 := cornerOff_le a 1
  have h4 := cornerOff_le b 0; have h5 := cornerOff_le b 1
  refine ⟨?_, ?_⟩ <;> split_ifs <;> omega

end M3d.KernelsTie.C01
