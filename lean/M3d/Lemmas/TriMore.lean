import M3d.Lemmas.TriCert
import Mathlib.Tactic.FieldSimp
import Mathlib.Tactic.Positivity
import Mathlib.Algebra.Order.GroupWithZero.Basic
/-!
Helper lemmas for C14, part 3: ear test orientation, closed walks and diagonals, sweep vertex
classification, affine charts.
-/
namespace M3d.Tri
open M3d.Surface (Tri Edge swap triEdges dirEdges cycleEdges)

section Field
variable {K : Type} [Field K] [LinearOrder K] [IsStrictOrderedRing K]

/-! ### the ear test only accepts ears turning the way the polygon does -/

theorem isVertexEar_orient {sd : Bool} {l : List (P2 K)} {v : Nat} (h : isVertexEar sd l v = true) :
    (isClockwise l = true ↔ triArea2 (earTri l v) ≤ 0) := by
  unfold isVertexEar at h
  simp only at h
  split at h
  · cases h
  · rename_i hne
    simp only [bne_iff_ne, ne_eq, not_not] at hne
    rw [hne]
    simp [triArea2, earTri]

/-! ### closed walks -/

theorem pathSum_map_zip (c : Nat → P2 K) (x : Nat) (r : List Nat) (z : Nat) :
    pathSum ((x :: r ++ [z]).map c) = sumF (crossE c) (List.zip (x :: r) (r ++ [z])) := by
  induction r generalizing x with
  | nil => simp [sumF_cons, sumF_nil, crossE]
  | cons y r ih =>
    have := ih y
    simp only [List.cons_append, List.map_cons, pathSum_cons_cons, List.zip_cons_cons, sumF_cons] at this ⊢
    rw [this]; rfl

/-- The shoelace sum of a closed walk is the sum of the shoelace terms of its directed edges. -/
theorem shoelace2_walk (c : Nat → P2 K) (w : List Nat) :
    shoelace2 (w.map c) = sumF (crossE c) (cycleEdges w) := by
  cases w with
  | nil => rfl
  | cons a t =>
    have := pathSum_map_zip c a t a
    simpa [shoelace2_cons, cycleEdges] using this

theorem sumF_map_swap_cancel (c : Nat → P2 K) (f : Edge → K) (hf : ∀ e, f (swap e) = -f e) (ds : List Edge) :
    sumF f (ds ++ ds.map swap) = 0 := by
  induction ds with
  | nil => rfl
  | cons d ds ih =>
    have e : sumF f (d :: ds ++ (d :: ds).map swap) = f d + f (swap d) + sumF f (ds ++ ds.map swap) := by
      simp only [List.map_cons, List.cons_append, sumF_cons, sumF_append]; ring
    rw [e, ih, hf d]; ring

/-! ### sweep classification -/

theorem slope_right {a b : P2 K} (h : a.x < b.x) : slope a b = (b.y - a.y) / (b.x - a.x) := by
  unfold slope; rw [if_neg (not_lt.2 h.le)]

theorem slope_left {a b : P2 K} (h : b.x < a.x) : slope a b = (a.y - b.y) / (a.x - b.x) := by
  unfold slope; rw [if_pos h]

/-- Both neighbours to the right of `v`: the slopes compare as the turn direction. -/
theorem slopes_left_vertex {p v n : P2 K} (hp : v.x < p.x) (hn : v.x < n.x) :
    (slope p v < slope v n ↔ orient p v n < 0) ∧ (slope p v = slope v n ↔ orient p v n = 0) := by
  rw [slope_left hp, slope_right hn]
  have h1 : 0 < p.x - v.x := sub_pos.2 hp
  have h2 : 0 < n.x - v.x := sub_pos.2 hn
  have key : orient p v n = (p.y - v.y) * (n.x - v.x) - (n.y - v.y) * (p.x - v.x) := by
    simp only [orient]; ring
  constructor
  · rw [div_lt_div_iff₀ h1 h2, key]; constructor <;> intro h <;> linarith
  · rw [div_eq_div_iff h1.ne' h2.ne', key]; constructor <;> intro h <;> linarith

/-- Both neighbours to the left of `v`. -/
theorem slopes_right_vertex {p v n : P2 K} (hp : p.x < v.x) (hn : n.x < v.x) :
    (slope p v < slope v n ↔ orient p v n < 0) ∧ (slope p v = slope v n ↔ orient p v n = 0) := by
  rw [slope_right hp, slope_left hn]
  have h1 : 0 < v.x - p.x := sub_pos.2 hp
  have h2 : 0 < v.x - n.x := sub_pos.2 hn
  have key : orient p v n = (v.y - p.y) * (v.x - n.x) - (v.y - n.y) * (v.x - p.x) := by
    simp only [orient]; ring
  constructor
  · rw [div_lt_div_iff₀ h1 h2, key]; constructor <;> intro h <;> linarith
  · rw [div_eq_div_iff h1.ne' h2.ne', key]; constructor <;> intro h <;> linarith

/-! ### affine charts -/

/-- An affine map of the plane. -/
def affine (a b cc d e f : K) (p : P2 K) : P2 K := ⟨a * p.x + b * p.y + e, cc * p.x + d * p.y + f⟩

theorem orient_affine' (a b cc d e f : K) (p q r : P2 K) :
    orient (affine a b cc d e f p) (affine a b cc d e f q) (affine a b cc d e f r)
      = (a * d - b * cc) * orient p q r := by
  simp only [orient, affine]; ring

end Field
end M3d.Tri

namespace M3d.Tri
section VT
variable {K : Type} [Field K] [LinearOrder K] [IsStrictOrderedRing K]

theorem vertexType_left {p v n : P2 K} (hp : v.x < p.x) (hn : v.x < n.x) (hpn : p.x ≠ n.x) :
    vertexType p v n =
      if orient p v n = 0 then none else if orient p v n < 0 then some .start else some .split := by
  obtain ⟨hlt, heq⟩ := slopes_left_vertex hp hn
  unfold vertexType higherIsS2Left
  rw [if_neg (by rintro (h | h | h); exacts [hpn h, hp.ne' h, hn.ne' h]), if_pos ⟨hp, hn⟩]
  by_cases h0 : orient p v n = 0
  · rw [if_pos (heq.2 h0), if_pos h0]
  · rw [if_neg (fun h => h0 (heq.1 h)), if_neg h0]
    by_cases hl : orient p v n < 0
    · have : ¬ (slope p v > slope v n) := not_lt.2 (hlt.2 hl).le
      simp [hl, this]
    · have hs : ¬ (slope p v < slope v n) := fun h => hl (hlt.1 h)
      have hne : slope p v ≠ slope v n := fun h => h0 (heq.1 h)
      have : slope p v > slope v n := lt_of_le_of_ne (not_lt.1 hs) (Ne.symm hne)
      simp [hl, this]

theorem vertexType_right {p v n : P2 K} (hp : p.x < v.x) (hn : n.x < v.x) (hpn : p.x ≠ n.x) :
    vertexType p v n =
      if orient p v n = 0 then none else if orient p v n < 0 then some .end else some .merge := by
  obtain ⟨hlt, heq⟩ := slopes_right_vertex hp hn
  unfold vertexType higherIsS2Right
  rw [if_neg (by rintro (h | h | h); exacts [hpn h, hp.ne h, hn.ne h]),
    if_neg (fun h => absurd h.1 (not_lt.2 hp.le)), if_pos ⟨hp, hn⟩]
  by_cases h0 : orient p v n = 0
  · rw [if_pos (heq.2 h0), if_pos h0]
  · rw [if_neg (fun h => h0 (heq.1 h)), if_neg h0]
    by_cases hl : orient p v n < 0
    · have : slope p v < slope v n := hlt.2 hl
      simp [hl, this]
    · have hs : ¬ (slope p v < slope v n) := fun h => hl (hlt.1 h)
      simp [hl, hs]

theorem vertexType_chain {p v n : P2 K} (hpn : p.x ≠ n.x) (hpv : p.x ≠ v.x) (hnv : n.x ≠ v.x)
    (h1 : ¬ (v.x < p.x ∧ v.x < n.x)) (h2 : ¬ (p.x < v.x ∧ n.x < v.x)) :
    vertexType p v n = if n.x < p.x then some .lower else some .upper := by
  unfold vertexType
  rw [if_neg (by rintro (h | h | h); exacts [hpn h, hpv h, hnv h]), if_neg h1, if_neg h2]

end VT
end M3d.Tri

namespace M3d.Tri
section TriModel
variable {K : Type} [Field K] [LinearOrder K] [IsStrictOrderedRing K]

theorem removeColinear_subset (l : List (P2 K)) : ∀ p ∈ removeColinear l, p ∈ l := by
  intro p hp
  simp only [removeColinear, List.mem_filterMap, List.mem_range] at hp
  obtain ⟨i, hi, h⟩ := hp
  split at h
  · cases h
  · cases h; exact getD_mem_of_lt l i hi

theorem removeColinear_length_le (l : List (P2 K)) : (removeColinear l).length ≤ l.length := by
  unfold removeColinear
  exact (List.length_filterMap_le _ _).trans (by simp)

/-- `Triangulate` only returns input vertices, and at most `n − 2` triangles. -/
theorem triangulate_mem (sd : Bool) : ∀ (fuel : Nat) (poly : List (P2 K)) (ts : List (PTri K)),
    triangulate sd fuel poly = some ts →
    (∀ t ∈ ts, t.1 ∈ poly ∧ t.2.1 ∈ poly ∧ t.2.2 ∈ poly) ∧ ts.length + 2 ≤ poly.length := by
  intro fuel
  induction fuel with
  | zero => intro poly ts h; simp [triangulate] at h
  | succ fuel ih =>
    intro poly ts h
    simp only [triangulate] at h
    have hsub := removeColinear_subset poly
    have hlen := removeColinear_length_le poly
    split at h
    · rename_i h3
      cases h
      have m : ∀ i, i < 3 → curAt (removeColinear poly) i ∈ poly := fun i hi =>
        hsub _ (getD_mem_of_lt _ i (by omega))
      refine ⟨?_, by simp; omega⟩
      intro t ht
      simp only [List.mem_singleton] at ht; subst ht
      exact ⟨m 0 (by omega), m 1 (by omega), m 2 (by omega)⟩
    · split at h
      · cases h
      · split at h
        · cases h
        · rename_i i hfind
          have hi : i < (removeColinear poly).length := by
            have := List.mem_of_find?_eq_some hfind
            simpa using this
          cases hrec : triangulate sd fuel ((removeColinear poly).eraseIdx i) with
          | none => rw [hrec] at h; cases h
          | some ts' =>
            rw [hrec] at h
            simp only [Option.map_some, Option.some.injEq] at h
            subst h
            obtain ⟨hm, hl⟩ := ih _ _ hrec
            have he := earTri_mem (removeColinear poly) i hi
            constructor
            · intro t ht
              rcases List.mem_append.1 ht with ht | ht
              · have := hm t ht
                have g : ∀ x, x ∈ (removeColinear poly).eraseIdx i → x ∈ poly :=
                  fun x hx => hsub x (List.mem_of_mem_eraseIdx hx)
                exact ⟨g _ this.1, g _ this.2.1, g _ this.2.2⟩
              · simp only [List.mem_singleton] at ht; subst ht
                exact ⟨hsub _ he.1, hsub _ he.2.1, hsub _ he.2.2⟩
            · rw [List.length_eraseIdx_of_lt hi] at hl
              simp only [List.length_append, List.length_singleton]
              omega

end TriModel
end M3d.Tri

namespace M3d.Tri
open M3d.Surface (Tri Edge swap triEdges dirEdges)
section Winding
variable {K : Type} [Field K] [LinearOrder K] [IsStrictOrderedRing K]

/-- Signed crossing of the horizontal ray from `p` towards `+x` with the directed edge `e`
(half-open rule): `+1` if the edge passes upwards with `p` on its left, `−1` if it passes downwards
with `p` on its right. -/
def crossing (c : Nat → P2 K) (p : P2 K) (e : Edge) : K :=
  if (c e.1).y ≤ p.y ∧ p.y < (c e.2).y ∧ 0 < orient (c e.1) (c e.2) p then 1
  else if (c e.2).y ≤ p.y ∧ p.y < (c e.1).y ∧ orient (c e.1) (c e.2) p < 0 then -1
  else 0

/-- Winding number of a list of directed edges around `p`. -/
def winding (c : Nat → P2 K) (p : P2 K) (es : List Edge) : K := sumF (crossing c p) es

theorem crossing_antisymm (c : Nat → P2 K) (p : P2 K) (e : Edge) :
    crossing c p (swap e) = -crossing c p e := by
  obtain ⟨a, b⟩ := e
  have ho := orient_swap (c a) (c b) p
  show (if (c b).y ≤ p.y ∧ p.y < (c a).y ∧ 0 < orient (c b) (c a) p then (1 : K)
      else if (c a).y ≤ p.y ∧ p.y < (c b).y ∧ orient (c b) (c a) p < 0 then -1 else 0)
    = -(if (c a).y ≤ p.y ∧ p.y < (c b).y ∧ 0 < orient (c a) (c b) p then (1 : K)
      else if (c b).y ≤ p.y ∧ p.y < (c a).y ∧ orient (c a) (c b) p < 0 then -1 else 0)
  by_cases h1 : (c a).y ≤ p.y ∧ p.y < (c b).y ∧ 0 < orient (c a) (c b) p
  · have h2 : ¬ ((c b).y ≤ p.y ∧ p.y < (c a).y ∧ 0 < orient (c b) (c a) p) := by
      rintro ⟨g1, g2, _⟩; linarith [h1.1, h1.2.1]
    have h3 : (c a).y ≤ p.y ∧ p.y < (c b).y ∧ orient (c b) (c a) p < 0 := ⟨h1.1, h1.2.1, by linarith [h1.2.2]⟩
    rw [if_neg h2, if_pos h3, if_pos h1]
  · by_cases h2 : (c b).y ≤ p.y ∧ p.y < (c a).y ∧ orient (c a) (c b) p < 0
    · have h3 : (c b).y ≤ p.y ∧ p.y < (c a).y ∧ 0 < orient (c b) (c a) p := ⟨h2.1, h2.2.1, by linarith [h2.2.2]⟩
      rw [if_pos h3, if_neg h1, if_pos h2]; ring
    · have h3 : ¬ ((c b).y ≤ p.y ∧ p.y < (c a).y ∧ 0 < orient (c b) (c a) p) := by
        rintro ⟨g1, g2, g3⟩; exact h2 ⟨g1, g2, by linarith⟩
      have h4 : ¬ ((c a).y ≤ p.y ∧ p.y < (c b).y ∧ orient (c b) (c a) p < 0) := by
        rintro ⟨g1, g2, g3⟩; exact h1 ⟨g1, g2, by linarith⟩
      rw [if_neg h3, if_neg h4, if_neg h1, if_neg h2]; ring

end Winding
end M3d.Tri
