import M3d.Lemmas.MeshDiagLink
import Mathlib.Data.List.Nodup
import Mathlib.Data.List.Perm.Subperm
/-!
# C11 — the converse of `fanGraphConnected_of_fanCycle`: on an edge-balanced mesh a vertex whose
fan graph is connected has a link that is ONE simple cycle

Part 1: a bijection on a finite vertex set whose graph is connected is a single cycle
(`fanCycle_of_bijective_connected`).  Part 2: edge balance makes the link of a vertex such a
bijection, connectivity of the fan graph makes it connected (`fanCycle_of_fanGraphConnected`).
-/
namespace M3d.MeshDiag
open M3d.Surface

/-- `s` applied `i` times. -/
def iter (s : Nat → Nat) : Nat → Nat → Nat
  | 0, a => a
  | i + 1, a => iter s i (s a)

theorem iter_succ' (s : Nat → Nat) : ∀ (i a : Nat), iter s (i + 1) a = s (iter s i a) := by
  intro i
  induction i with
  | zero => intro a; rfl
  | succ i ih => intro a; show iter s (i + 1) (s a) = _; rw [ih]; rfl

/-- `a, s a, …, s^(k-1) a`. -/
def orbit (s : Nat → Nat) : Nat → Nat → List Nat
  | 0, _ => []
  | k + 1, a => a :: orbit s k (s a)

theorem length_orbit (s : Nat → Nat) : ∀ (k a : Nat), (orbit s k a).length = k := by
  intro k
  induction k with
  | zero => intro a; rfl
  | succ k ih => intro a; simp [orbit, ih]

theorem mem_orbit (s : Nat → Nat) : ∀ (k a x : Nat), x ∈ orbit s k a ↔ ∃ i < k, iter s i a = x := by
  intro k
  induction k with
  | zero => intro a x; simp [orbit]
  | succ k ih =>
    intro a x
    simp only [orbit, List.mem_cons, ih]
    constructor
    · rintro (h | ⟨i, hi, h⟩)
      · exact ⟨0, by omega, h.symm⟩
      · exact ⟨i + 1, by omega, h⟩
    · rintro ⟨i, hi, h⟩
      cases i with
      | zero => exact Or.inl h.symm
      | succ i => exact Or.inr ⟨i, by omega, h⟩

theorem orbit_nodup (s : Nat → Nat) : ∀ (k a : Nat),
    (∀ i j, i < j → j < k → iter s i a ≠ iter s j a) → (orbit s k a).Nodup := by
  intro k
  induction k with
  | zero => intro a _; exact List.nodup_nil
  | succ k ih =>
    intro a h
    simp only [orbit, List.nodup_cons]
    refine ⟨?_, ih (s a) fun i j hij hj => h (i + 1) (j + 1) (by omega) (by omega)⟩
    intro hm
    obtain ⟨i, hi, hx⟩ := (mem_orbit s k (s a) a).mp hm
    exact h 0 (i + 1) (by omega) (by omega) hx.symm

theorem cycleEdges_orbit (s : Nat → Nat) : ∀ (k a c : Nat), iter s (k + 1) a = c →
    List.zip (orbit s (k + 1) a) (orbit s k (s a) ++ [c]) = (orbit s (k + 1) a).map fun x => (x, s x) := by
  intro k
  induction k with
  | zero => intro a c h; simp [orbit]; exact h.symm
  | succ k ih =>
    intro a c h
    have := ih (s a) c h
    simp only [orbit, List.cons_append, List.zip_cons_cons, List.map_cons] at this ⊢
    rw [this]

theorem eq_of_nodup_map_snd {l : List Edge} (h : (l.map (·.2)).Nodup) {x y : Edge}
    (hx : x ∈ l) (hy : y ∈ l) (hxy : x.2 = y.2) : x = y := by
  induction l with
  | nil => cases hx
  | cons z l ih =>
    simp only [List.map_cons, List.nodup_cons, List.mem_map, not_exists, not_and] at h
    rcases List.mem_cons.1 hx with rfl | hx' <;> rcases List.mem_cons.1 hy with rfl | hy'
    · rfl
    · exact absurd hxy.symm (h.1 y hy')
    · exact absurd hxy (h.1 x hx')
    · exact ih h.2 hx' hy'

/-- **A bijection on a finite vertex set whose graph is connected is a single cycle**: if every
vertex is the tail of exactly one edge and the head of exactly one edge, and every vertex set that
contains `a` and is closed along the edges (in both directions) contains all vertices, then the
edges are those of one simple closed cycle. -/
theorem fanCycle_of_bijective_connected (es : List Edge) (a : Nat) (ha : a ∈ es.map (·.1))
    (h1 : (es.map (·.1)).Nodup) (h2 : (es.map (·.2)).Nodup)
    (h3 : ∀ x ∈ es.map (·.2), x ∈ es.map (·.1))
    (hconn : ∀ S : Nat → Prop, S a → (∀ e ∈ es, (S e.1 ↔ S e.2)) → ∀ x ∈ es.map (·.1), S x) :
    FanCycle es := by
  let s := nextOf es
  have F1 : ∀ e ∈ es, s e.1 = e.2 := fun e he => nextOf_eq (List.Perm.refl es) h1 (a := e.1) (b := e.2) he
  have F2 : ∀ x ∈ es.map (·.1), (x, s x) ∈ es := by
    intro x hx
    obtain ⟨e, he, rfl⟩ := List.mem_map.mp hx
    rw [F1 e he]; exact he
  have F3 : ∀ x ∈ es.map (·.1), s x ∈ es.map (·.1) := fun x hx =>
    h3 _ (List.mem_map.mpr ⟨_, F2 x hx, rfl⟩)
  have F4 : ∀ x ∈ es.map (·.1), ∀ y ∈ es.map (·.1), s x = s y → x = y := by
    intro x hx y hy hxy
    have := eq_of_nodup_map_snd h2 (F2 x hx) (F2 y hy) hxy
    exact congrArg Prod.fst this
  have hit : ∀ i, iter s i a ∈ es.map (·.1) := by
    intro i
    induction i with
    | zero => exact ha
    | succ i ih => rw [iter_succ']; exact F3 _ ih
  have F5 : ∀ i j, iter s i a = iter s (i + j) a → iter s j a = a := by
    intro i
    induction i with
    | zero => intro j h; rw [Nat.zero_add] at h; exact h.symm
    | succ i ih =>
      intro j h
      have e : i + 1 + j = (i + j) + 1 := by omega
      rw [e, iter_succ', iter_succ'] at h
      exact ih j (F4 _ (hit i) _ (hit (i + j)) h)
  have hn : 0 < es.length := by
    cases es with
    | nil => simp at ha
    | cons _ _ => simp
  -- no return to `a` before `n` steps
  have N : ∀ d, 0 < d → d < es.length → iter s d a ≠ a := by
    intro d hd0 hdn hd
    have hall := hconn (fun x => ∃ i < d, iter s i a = x) ⟨0, hd0, rfl⟩ (by
      intro e he
      constructor
      · rintro ⟨i, hi, hx⟩
        by_cases hlast : i + 1 < d
        · exact ⟨i + 1, hlast, by rw [iter_succ', hx, F1 e he]⟩
        · have : i + 1 = d := by omega
          refine ⟨0, hd0, ?_⟩
          show a = e.2
          rw [← hd, ← this, iter_succ', hx, F1 e he]
      · rintro ⟨i, hi, hx⟩
        -- the predecessor of `s^i a` on the orbit
        let j := if i = 0 then d - 1 else i - 1
        have hj : j < d := by simp only [j]; split <;> omega
        have hsj : s (iter s j a) = e.2 := by
          rw [← iter_succ' s j a, ← hx]
          by_cases hi0 : i = 0
          · have : j + 1 = d := by simp only [j, hi0, if_true]; omega
            rw [this, hd, hi0]; rfl
          · have : j + 1 = i := by simp only [j, hi0, if_false]; omega
            rw [this]
        have hedge := F2 _ (hit j)
        have := eq_of_nodup_map_snd h2 hedge he hsj
        exact ⟨j, hj, congrArg Prod.fst this⟩)
    have hsub : es.map (·.1) ⊆ orbit s d a := fun x hx => (mem_orbit s d a x).mpr (hall x hx)
    have := (List.subperm_of_subset h1 hsub).length_le
    rw [length_orbit, List.length_map] at this
    omega
  have L : (orbit s es.length a).Nodup := by
    apply orbit_nodup
    intro i j hij hj h
    have := F5 i (j - i) (by rw [show i + (j - i) = j by omega]; exact h)
    exact N (j - i) (by omega) (by omega) this
  have hsubV : orbit s es.length a ⊆ es.map (·.1) := by
    intro x hx
    obtain ⟨i, _, rfl⟩ := (mem_orbit s _ a x).mp hx
    exact hit i
  have hpermV : (orbit s es.length a).Perm (es.map (·.1)) :=
    (List.subperm_of_subset L hsubV).perm_of_length_le (by rw [length_orbit, List.length_map]; exact Nat.le_refl _)
  have R : iter s es.length a = a := by
    have : iter s es.length a ∈ orbit s es.length a := hpermV.mem_iff.mpr (hit _)
    obtain ⟨i, hi, hx⟩ := (mem_orbit s _ a _).mp this
    have h5 := F5 i (es.length - i) (by rw [show i + (es.length - i) = es.length by omega]; exact hx)
    by_cases hi0 : i = 0
    · simpa [hi0] using h5
    · exact absurd h5 (N _ (by omega) (by omega))
  obtain ⟨k, hk⟩ : ∃ k, es.length = k + 1 := ⟨es.length - 1, by omega⟩
  refine ⟨orbit s es.length a, L, ?_⟩
  have hce : cycleEdges (orbit s es.length a) = (orbit s es.length a).map fun x => (x, s x) := by
    rw [hk]
    show List.zip (orbit s (k + 1) a) (orbit s k (s a) ++ [a]) = _
    exact cycleEdges_orbit s k a a (by rw [← hk]; exact R)
  rw [hce]
  have hnd : ((orbit s es.length a).map fun x => (x, s x)).Nodup :=
    List.Nodup.of_map (·.1) (by
      have : ((orbit s es.length a).map fun x => (x, s x)).map (·.1) = orbit s es.length a := by
        rw [List.map_map]; exact List.map_id' _
      rw [this]; exact L)
  have hsub : ((orbit s es.length a).map fun x => (x, s x)) ⊆ es := by
    intro p hp
    obtain ⟨x, hx, rfl⟩ := List.mem_map.mp hp
    exact F2 x (hsubV hx)
  exact ((List.subperm_of_subset hnd hsub).perm_of_length_le
    (by rw [List.length_map, length_orbit]; exact Nat.le_refl _)).symm

/-- The link edge `(a, b)` of a non-degenerate face at `v` closes the triangle `v → a → b → v`. -/
theorem rot_edges {v : Nat} {t : Tri} {e : Edge} (ht : TriNondeg t) (h : rot v t = some e) :
    (v, e.1) ∈ triEdges t ∧ (e.2, v) ∈ triEdges t ∧
      ∀ w, hasVert w t = true → w = v ∨ w = e.1 ∨ w = e.2 := by
  obtain ⟨a, b, c⟩ := t
  obtain ⟨h1, h2, h3⟩ := ht
  simp only at h1 h2 h3
  simp only [rot] at h
  simp only [hasVert, triVerts, List.contains_eq_mem, List.mem_cons, List.mem_nil_iff, or_false,
    decide_eq_true_eq]
  split at h
  · rename_i hv; cases h; subst hv
    simp [triEdges]
  · split at h
    · rename_i hv; cases h; subst hv
      simp [triEdges]
    · split at h
      · rename_i hv; cases h; subst hv
        simp [triEdges]
      · cases h

/-- A face that traverses `v → b` has a link edge at `v` starting at `b`. -/
theorem rot_of_edge {v b : Nat} {t : Tri} (ht : TriNondeg t) (h : (v, b) ∈ triEdges t) :
    ∃ c, rot v t = some (b, c) := by
  obtain ⟨x, y, z⟩ := t
  obtain ⟨h1, h2, h3⟩ := ht
  simp only at h1 h2 h3
  simp only [triEdges, List.mem_cons, List.mem_nil_iff, or_false, Prod.mk.injEq] at h
  simp only [rot]
  rcases h with ⟨rfl, rfl⟩ | ⟨rfl, rfl⟩ | ⟨rfl, rfl⟩
  · exact ⟨z, by simp⟩
  · exact ⟨x, by simp [h1]⟩
  · exact ⟨y, by simp [Ne.symm h3, h2]⟩

theorem link_cons (v : Nat) (t : Tri) (ts : List Tri) :
    link v (t :: ts) = (rot v t).toList ++ link v ts := by
  simp only [link, List.filterMap_cons]
  cases rot v t <;> rfl

theorem count_link_fst_le (v a : Nat) : ∀ ts : List Tri, NoDegenerate ts →
    ((link v ts).map (·.1)).count a ≤ (dirEdges ts).count (v, a) := by
  intro ts
  induction ts with
  | nil => intro _; simp [link]
  | cons t ts ih =>
    intro hd
    have ht : TriNondeg t := hd t List.mem_cons_self
    have ih' := ih fun s hs => hd s (List.mem_cons_of_mem _ hs)
    have hde : dirEdges (t :: ts) = triEdges t ++ dirEdges ts := by simp [dirEdges]
    rw [link_cons, hde, List.map_append, List.count_append, List.count_append]
    have : ((rot v t).toList.map (·.1)).count a ≤ (triEdges t).count (v, a) := by
      cases hr : rot v t with
      | none => simp
      | some e =>
        simp only [Option.toList_some, List.map_cons, List.map_nil, List.count_cons, List.count_nil]
        by_cases hea : e.1 = a
        · have := (rot_edges ht hr).1
          rw [hea] at this
          have := List.count_pos_iff.mpr this
          simp [hea]; omega
        · simp [hea]
    omega

theorem count_link_snd_le (v b : Nat) : ∀ ts : List Tri, NoDegenerate ts →
    ((link v ts).map (·.2)).count b ≤ (dirEdges ts).count (b, v) := by
  intro ts
  induction ts with
  | nil => intro _; simp [link]
  | cons t ts ih =>
    intro hd
    have ht : TriNondeg t := hd t List.mem_cons_self
    have ih' := ih fun s hs => hd s (List.mem_cons_of_mem _ hs)
    have hde : dirEdges (t :: ts) = triEdges t ++ dirEdges ts := by simp [dirEdges]
    rw [link_cons, hde, List.map_append, List.count_append, List.count_append]
    have : ((rot v t).toList.map (·.2)).count b ≤ (triEdges t).count (b, v) := by
      cases hr : rot v t with
      | none => simp
      | some e =>
        simp only [Option.toList_some, List.map_cons, List.map_nil, List.count_cons, List.count_nil]
        by_cases hea : e.2 = b
        · have := (rot_edges ht hr).2.1
          rw [hea] at this
          have := List.count_pos_iff.mpr this
          simp [hea]; omega
        · simp [hea]
    omega

theorem edgeBalanced_count_le_one {ts : List Tri} (hb : EdgeBalanced ts) (e : Edge) :
    (dirEdges ts).count e ≤ 1 := by
  by_cases he : e ∈ dirEdges ts
  · exact Nat.le_of_eq (hb e he).1
  · rw [List.count_eq_zero.mpr he]; omega


/-- **Converse of `fanGraphConnected_of_fanCycle`**: on an edge-balanced mesh without degenerate
faces, a vertex whose fan graph is connected has a link that is ONE simple cycle.  (Edge balance
makes "next link vertex" a bijection: `v → a` is traversed by exactly one face, and so is `a → v`;
connectivity of the fan graph makes that bijection a single cycle.) -/
theorem fanCycle_of_fanGraphConnected (ts : List Tri) (hd : NoDegenerate ts) (hb : EdgeBalanced ts)
    (v : Nat) (hv : v ∈ verts ts) (hc : FanGraphConnected ts v) : FanCycle (link v ts) := by
  have hnondeg : ∀ f ∈ facesAt v (enum ts), TriNondeg f.2 :=
    fun f hf => hd _ (mem_enum_snd (List.mem_filter.mp hf).1)
  -- some face at v
  have hvAll : v ∈ vertsAll ts := by simpa [verts, List.mem_eraseDups] using hv
  obtain ⟨t0, ht0, hvt0⟩ := List.mem_flatMap.mp hvAll
  have ht0' : t0 ∈ (enum ts).map (·.2) := by rw [enum_map_snd]; exact ht0
  obtain ⟨f0, hf0e, rfl⟩ := List.mem_map.mp ht0'
  have hv0 : hasVert v f0.2 = true := by simpa [hasVert] using hvt0
  have hf0 : f0 ∈ facesAt v (enum ts) := List.mem_filter.mpr ⟨hf0e, hv0⟩
  obtain ⟨e0, he0⟩ := Option.isSome_iff_exists.mp (rot_isSome_of_hasVert hv0)
  have he0m : e0 ∈ link v ts := (mem_link_iff ts v e0).mpr ⟨f0, hf0e, he0⟩
  -- degree conditions
  have h1 : ((link v ts).map (·.1)).Nodup := List.nodup_iff_count_le_one.mpr fun a =>
    Nat.le_trans (count_link_fst_le v a ts hd) (edgeBalanced_count_le_one hb _)
  have h2 : ((link v ts).map (·.2)).Nodup := List.nodup_iff_count_le_one.mpr fun b =>
    Nat.le_trans (count_link_snd_le v b ts hd) (edgeBalanced_count_le_one hb _)
  have h3 : ∀ x ∈ (link v ts).map (·.2), x ∈ (link v ts).map (·.1) := by
    intro b hbm
    obtain ⟨e, he, rfl⟩ := List.mem_map.mp hbm
    obtain ⟨f, hf, hr⟩ := (mem_link_iff ts v e).mp he
    have hft : TriNondeg f.2 := hd _ (mem_enum_snd hf)
    have hedge : (e.2, v) ∈ dirEdges ts :=
      List.mem_flatMap.mpr ⟨f.2, mem_enum_snd hf, (rot_edges hft hr).2.1⟩
    have hsw : (dirEdges ts).count (swap (e.2, v)) = 1 := (hb _ hedge).2
    have hmem : (v, e.2) ∈ dirEdges ts := List.count_pos_iff.mp (by simp only [swap] at hsw; omega)
    obtain ⟨t, ht, het⟩ := List.mem_flatMap.mp hmem
    obtain ⟨c, hc'⟩ := rot_of_edge (hd t ht) het
    exact List.mem_map.mpr ⟨(e.2, c), List.mem_filterMap.mpr ⟨t, ht, hc'⟩, rfl⟩
  refine fanCycle_of_bijective_connected (link v ts) e0.1 (List.mem_map.mpr ⟨e0, he0m, rfl⟩) h1 h2 h3 ?_
  intro S hS hclosed x hx
  -- every face reachable from f0 has its link edge inside S
  have key : ∀ f, Reach fanAdj (facesAt v (enum ts)) f0 f → f ∈ facesAt v (enum ts) →
      ∀ e, rot v f.2 = some e → S e.1 := by
    intro f hr
    induction hr with
    | refl =>
      intro _ e he
      rw [he0] at he; cases he; exact hS
    | step hab hcm hadj ih =>
      rename_i b c
      intro _ e he
      have hbm : b ∈ facesAt v (enum ts) := by
        rcases hab.eq_or_mem with h | h
        · exact h ▸ hf0
        · exact h
      have hvb := (List.mem_filter.mp hbm).2
      have hvc := (List.mem_filter.mp hcm).2
      obtain ⟨eb, heb⟩ := Option.isSome_iff_exists.mp (rot_isSome_of_hasVert hvb)
      have hSb1 : S eb.1 := ih hbm eb heb
      have hebm : eb ∈ link v ts := (mem_link_iff ts v eb).mpr ⟨b, (List.mem_filter.mp hbm).1, heb⟩
      have hSb2 : S eb.2 := (hclosed eb hebm).mp hSb1
      have hem : e ∈ link v ts := (mem_link_iff ts v e).mpr ⟨c, (List.mem_filter.mp hcm).1, he⟩
      -- a common vertex other than v
      rw [fanAdj_eq_adjAt (hnondeg b hbm) hvb hvc] at hadj
      simp only [adjAt, List.any_eq_true, Bool.and_eq_true, bne_iff_ne, ne_eq] at hadj
      obtain ⟨w, hwb, hwv, hwc⟩ := hadj
      have hwb' : hasVert w b.2 = true := by simpa [hasVert] using hwb
      have hSw : S w := by
        rcases (rot_edges (hnondeg b hbm) heb).2.2 w hwb' with h | h | h
        · exact absurd h hwv
        · exact h ▸ hSb1
        · exact h ▸ hSb2
      rcases (rot_edges (hnondeg c hcm) he).2.2 w hwc with h | h | h
      · exact absurd h hwv
      · exact h ▸ hSw
      · exact (hclosed e hem).mpr (h ▸ hSw)
  obtain ⟨e, he, rfl⟩ := List.mem_map.mp hx
  obtain ⟨f, hf, hr⟩ := (mem_link_iff ts v e).mp he
  have hfm : f ∈ facesAt v (enum ts) :=
    List.mem_filter.mpr ⟨hf, (rot_some (hd _ (mem_enum_snd hf)) hr).1⟩
  exact key f (hc f0 hf0 f hfm) hfm e hr

end M3d.MeshDiag
