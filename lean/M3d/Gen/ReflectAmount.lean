import M3d.Model.RenderSampling
/-! GENERATED from /repo/render3d/material.go (RefractMaterial.reflectAmount) by `harness/cmd/c19 -gen ReflectAmount`.
Do not edit: it is regenerated from the current source on every check. -/
namespace M3d.Gen.ReflectAmount
open M3d.RS

def reflectAmount {α : Type} [Add α] [Sub α] [Mul α] [Div α] [Neg α] [LT α] [DecidableLT α]
    [OfNat α 0] [OfNat α 1] [OfNat α 2] [OfNat α 4] (ior : α) (normal source : V3 α) : α :=
  let x : α := ((ior - 1) / (ior + 1))
  let r0 : α := (x * x)
  (r0 + ((1 - r0) * (pow5 (1 - (absS (V3.dot normal source))))))

end M3d.Gen.ReflectAmount
