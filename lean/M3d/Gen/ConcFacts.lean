import M3d.Model.Conc
namespace M3d.Gen.ConcFacts
end M3d.Gen.ConcFacts
