/-!
# C07 — executable models of the colliders of `model3d` / `model2d`

Core Lean only.  Every definition is generic over the scalar `α` and asks only for the operation
classes it uses; the same function is
* proved about for every linear ordered field (`M3d/Lemmas/Collide*.lean`, `M3d/Props/C07.lean`),
* executed at `Rat` (exact mode) and at `Float` (bits mode: same operations in the same order as the
  Go code) by `M3d/Drv/C07.lean`.

`math.Sqrt` is the parameter `sqrtF`; the `1e-8` of the parallel tests is the parameter `eps`.
Go `x == 0` on non-NaN values is `isZero x = ¬ x < 0 ∧ ¬ 0 < x` (so no `DecidableEq` is needed and the
definition runs at `Float`).  `2` and `4` are `1+1` and `(1+1)*(1+1)` (exact in floating point).

A Go `RayCollisions(r, f)` is modelled as `Bool → Nat × List Hit`: the flag says whether `f ≠ nil`,
the result is the returned count and the list of calls made to `f`, in order.

Transcribed (each definition names its Go source): `Coord3D`/`Coord` operations, `Sphere/Circle.RayCollisions`,
`rayCollisionWithBounds`, `Rect.RayCollisions/FirstRayCollision/normalAt`, `Triangle.rayCollision/
RayCollisions/FirstRayCollision/SphereCollision/SegmentCollision`, `segmentEntersSphere`, 2-D `Segment.rayCollision/
RayCollisions/CircleCollision`, `castPlane`, `castCircle`, `Cylinder.RayCollisions`, `Capsule.RayCollisions`
(phantom removal), `JoinedCollider.RayCollisions/FirstRayCollision`, `profileCollider.RayCollisions/
FirstRayCollision`, `transformedCollider.*`, the min-callbacks of `Capsule/Cylinder/Cone/Torus/profile
.FirstRayCollision` (`minFirst`) and the first-callback of `Sphere.FirstRayCollision` (`headFirst`).
-/
namespace M3d.Col

/-! ## vectors -/

structure V3 (α : Type) where
  x : α
  y : α
  z : α
deriving Repr

structure V2 (α : Type) where
  x : α
  y : α
deriving Repr

section VecOps
variable {α : Type}

/-- `Coord3D.Add` -/
def V3.add [Add α] (a b : V3 α) : V3 α := ⟨a.x + b.x, a.y + b.y, a.z + b.z⟩
/-- `Coord3D.Sub` (`c.Add(c1.Scale(-1))`: `x + x1*(-1)`, which is `x - x1` in a field and bit-for-bit in IEEE) -/
def V3.sub [Sub α] (a b : V3 α) : V3 α := ⟨a.x - b.x, a.y - b.y, a.z - b.z⟩
/-- `Coord3D.Scale` -/
def V3.scale [Mul α] (a : V3 α) (s : α) : V3 α := ⟨a.x * s, a.y * s, a.z * s⟩
/-- `Coord3D.Dot` -/
def V3.dot [Add α] [Mul α] (a b : V3 α) : α := a.x * b.x + a.y * b.y + a.z * b.z
/-- `Coord3D.Cross` -/
def V3.cross [Sub α] [Mul α] (a b : V3 α) : V3 α :=
  ⟨a.y * b.z - a.z * b.y, a.z * b.x - a.x * b.z, a.x * b.y - a.y * b.x⟩
/-- `Coord3D.Norm` -/
def V3.norm [Add α] [Mul α] (sqrtF : α → α) (a : V3 α) : α := sqrtF (a.x * a.x + a.y * a.y + a.z * a.z)
/-- `Coord3D.Normalize`: `c.Scale(1 / c.Norm())` -/
def V3.normalize [Add α] [Mul α] [Div α] [OfNat α 1] (sqrtF : α → α) (a : V3 α) : V3 α :=
  a.scale (1 / a.norm sqrtF)
/-- the argument of the square root in `Coord3D.Dist` -/
def V3.distSq [Add α] [Sub α] [Mul α] (a b : V3 α) : α :=
  let d1 := a.x - b.x
  let d2 := a.y - b.y
  let d3 := a.z - b.z
  d1 * d1 + d2 * d2 + d3 * d3
/-- `Coord3D.Dist` -/
def V3.dist [Add α] [Sub α] [Mul α] (sqrtF : α → α) (a b : V3 α) : α := sqrtF (a.distSq b)
/-- `Origin.Add(Direction.Scale(t))` -/
def V3.along [Add α] [Mul α] (o d : V3 α) (t : α) : V3 α := o.add (d.scale t)
def V3.neg [Neg α] (a : V3 α) : V3 α := ⟨-a.x, -a.y, -a.z⟩
def V3.xy (a : V3 α) : V2 α := ⟨a.x, a.y⟩

def V2.add [Add α] (a b : V2 α) : V2 α := ⟨a.x + b.x, a.y + b.y⟩
def V2.sub [Sub α] (a b : V2 α) : V2 α := ⟨a.x - b.x, a.y - b.y⟩
def V2.scale [Mul α] (a : V2 α) (s : α) : V2 α := ⟨a.x * s, a.y * s⟩
def V2.dot [Add α] [Mul α] (a b : V2 α) : α := a.x * b.x + a.y * b.y
def V2.norm [Add α] [Mul α] (sqrtF : α → α) (a : V2 α) : α := sqrtF (a.x * a.x + a.y * a.y)
def V2.normalize [Add α] [Mul α] [Div α] [OfNat α 1] (sqrtF : α → α) (a : V2 α) : V2 α :=
  a.scale (1 / a.norm sqrtF)
def V2.distSq [Add α] [Sub α] [Mul α] (a b : V2 α) : α :=
  let d1 := a.x - b.x
  let d2 := a.y - b.y
  d1 * d1 + d2 * d2
def V2.dist [Add α] [Sub α] [Mul α] (sqrtF : α → α) (a b : V2 α) : α := sqrtF (a.distSq b)
def V2.along [Add α] [Mul α] (o d : V2 α) (t : α) : V2 α := o.add (d.scale t)

end VecOps

/-! ## scalars -/
section Scalars
variable {α : Type}

/-- Go `x == 0` (non-NaN). -/
def isZero [LT α] [DecidableLT α] [OfNat α 0] (x : α) : Bool := !decide (x < 0) && !decide (0 < x)
/-- Go `a == b` (non-NaN). -/
def eqB [LT α] [DecidableLT α] (a b : α) : Bool := !decide (a < b) && !decide (b < a)
/-- `math.Abs` -/
def absS [LT α] [DecidableLT α] [Neg α] [OfNat α 0] (x : α) : α := if x < 0 then -x else x
def two [Add α] [OfNat α 1] : α := 1 + 1
def four [Add α] [Mul α] [OfNat α 1] : α := (1 + 1) * (1 + 1)

end Scalars

/-! ## hits, colliders, the contract -/

/-- A `RayCollision`: `Scale` and `Normal` (the `Extra` pointer is not modelled). -/
structure Hit (α : Type) where
  t : α
  n : V3 α
deriving Repr

/-- 2-D `RayCollision`. -/
structure Hit2 (α : Type) where
  t : α
  n : V2 α
deriving Repr

/-- An abstract collider over ray type `R` and hit type `H`:
`ray r cb` = (count returned by `RayCollisions(r, f)`, the calls made to `f`) where `cb` says `f ≠ nil`;
`first r` = `FirstRayCollision(r)`. -/
structure Collider (R H : Type) where
  ray : R → Bool → Nat × List H
  first : R → Option H

section Contract
variable {α R H : Type}

/-- **The collider contract of property C07** for one ray: the count equals the number of callbacks and is
the same without a callback (which then is never called); every parameter is non-negative; the first
collision exists iff the count is non-zero and it has the smallest parameter among the callbacks
(and is one of them, as far as the parameter goes). -/
structure Contract [LE α] [OfNat α 0] (tOf : H → α) (c : Collider R H) (r : R) : Prop where
  count_eq_calls : (c.ray r true).1 = (c.ray r true).2.length
  nil_count : (c.ray r false).1 = (c.ray r true).1
  nil_no_calls : (c.ray r false).2 = []
  nonneg : ∀ h ∈ (c.ray r true).2, 0 ≤ tOf h
  first_iff : (c.first r).isSome = true ↔ (c.ray r true).1 ≠ 0
  first_min : ∀ h, c.first r = some h →
    (∃ h' ∈ (c.ray r true).2, tOf h' = tOf h) ∧ ∀ h' ∈ (c.ray r true).2, tOf h ≤ tOf h'

/-- The contract as a Boolean on an *observation* of the real code (count without callback, count with
callback, whether a first collision was returned and its parameter, the callback parameters). -/
def obsOk [LE α] [DecidableLE α] [OfNat α 0] (n0 n1 : Nat) (ok : Bool) (first : α) (ts : List α) : Bool :=
  (n1 == ts.length) && (n0 == n1) && ts.all (fun t => decide (0 ≤ t)) && (ok == (n1 != 0)) &&
    (!ok || (ts.any (fun t => decide (t ≤ first)) && ts.all (fun t => decide (first ≤ t))))

/-- Which clause fails (for the replay file). -/
def obsVerdict [LE α] [DecidableLE α] [OfNat α 0] (n0 n1 : Nat) (ok : Bool) (first : α) (ts : List α) : String :=
  if !(n1 == ts.length) then "count-vs-callbacks"
  else if !(n0 == n1) then "count-nil-callback"
  else if !ts.all (fun t => decide (0 ≤ t)) then "negative-parameter"
  else if !(ok == (n1 != 0)) then "first-exists-iff-count"
  else if !(!ok || (ts.any (fun t => decide (t ≤ first)) && ts.all (fun t => decide (first ≤ t)))) then "first-is-min"
  else "ok"

/-- `FirstRayCollision` implemented as `RayCollisions` with the callback
`if !ok || rc.Scale < res.Scale { res = rc; ok = true }` (Capsule, Cylinder, Cone, Torus, 2-D Triangle,
profileCollider). -/
def minFirst [LT α] [DecidableLT α] (tOf : H → α) : List H → Option H → Option H
  | [], best => best
  | h :: hs, none => minFirst tOf hs (some h)
  | h :: hs, some b => minFirst tOf hs (if tOf h < tOf b then some h else some b)

/-- `FirstRayCollision` implemented as `RayCollisions` with the callback `if !ok { res = rc; ok = true }`
(Sphere, Circle: "collisions are sorted from first to last"). -/
def headFirst : List H → Option H
  | [] => none
  | h :: _ => some h

/-- A collider whose callbacks are the list `hits r` (count = its length, adjacent `count++; f(…)`), with a
given `FirstRayCollision`. -/
def ofHits (hits : R → List H) (first : R → Option H) : Collider R H :=
  { ray := fun r cb => ((hits r).length, if cb then hits r else []), first := first }

end Contract

/-! ## `JoinedCollider` / `joinedMultiCollider` -/
section Joined
variable {α R H : Type}

/-- `JoinedCollider.RayCollisions`: bounds test, then `count += c.RayCollisions(r, f)` over the children. -/
def joinedRay (admits : R → Bool) (parts : List (Collider R H)) (r : R) (cb : Bool) : Nat × List H :=
  if !admits r then (0, [])
  else parts.foldl (fun acc c => (acc.1 + (c.ray r cb).1, acc.2 ++ (c.ray r cb).2)) (0, [])

/-- One step of the loop of `JoinedCollider.FirstRayCollision`:
`if collision.Scale < closest.Scale || !anyCollides { closest = collision; anyCollides = true }`. -/
def joinedStep [LT α] [DecidableLT α] (tOf : H → α) (best : Option H) (cand : Option H) : Option H :=
  match cand with
  | none => best
  | some h => match best with
    | none => some h
    | some b => if tOf h < tOf b then some h else some b

/-- `JoinedCollider.FirstRayCollision`. -/
def joinedFirst [LT α] [DecidableLT α] (tOf : H → α) (admits : R → Bool) (parts : List (Collider R H)) (r : R) :
    Option H :=
  if !admits r then none
  else parts.foldl (fun best c => joinedStep tOf best (c.first r)) none

def joined [LT α] [DecidableLT α] (tOf : H → α) (admits : R → Bool) (parts : List (Collider R H)) : Collider R H :=
  { ray := joinedRay admits parts, first := joinedFirst tOf admits parts }

end Joined

/-! ## `transformedCollider` -/
section Transformed
variable {R H R' H' : Type}

/-- `transformedCollider`: `RayCollisions` = inner `RayCollisions(innerRay r, f ∘ outerCollision)` (`nil` stays
`nil`), `FirstRayCollision` = `outerCollision` of the inner first collision. -/
def transformed (inner : Collider R H) (innerRay : R' → R) (outer : H → H') : Collider R' H' :=
  { ray := fun r cb => let p := inner.ray (innerRay r) cb; (p.1, p.2.map outer),
    first := fun r => (inner.first (innerRay r)).map outer }

end Transformed

section Numeric
variable {α : Type} [Add α] [Sub α] [Mul α] [Div α] [Neg α] [LT α] [LE α] [DecidableLT α] [DecidableLE α]
  [OfNat α 0] [OfNat α 1]

/-! ## `Sphere.RayCollisions` (and, on `z = 0`, `Circle.RayCollisions`) -/

/-- The two roots computed by `Sphere.RayCollisions`, ordered (`if t1 > t2 { swap }`); `none` when
`discriminant <= 0`. -/
def sphereRoots (sqrtF : α → α) (center : V3 α) (radius : α) (o d : V3 α) : Option (α × α) :=
  let oc := o.sub center
  let a := d.dot d
  let b := two * d.dot oc
  let c := oc.dot oc - radius * radius
  let disc := b * b - four * a * c
  if disc ≤ 0 then none
  else
    let s := sqrtF disc
    let t1 := (-b + s) / (two * a)
    let t2 := (-b - s) / (two * a)
    if t2 < t1 then some (t2, t1) else some (t1, t2)

/-- The calls `Sphere.RayCollisions` makes to its callback. -/
def sphereHits (sqrtF : α → α) (center : V3 α) (radius : α) (o d : V3 α) : List (Hit α) :=
  match sphereRoots sqrtF center radius o d with
  | none => []
  | some (t1, t2) =>
    ([t1, t2].filter fun t => !decide (t < 0)).map fun t =>
      ⟨t, ((o.along d t).sub center).normalize sqrtF⟩

/-- `Sphere` as a collider (`FirstRayCollision` takes the first callback). -/
def sphereCollider (sqrtF : α → α) (center : V3 α) (radius : α) : Collider (V3 α × V3 α) (Hit α) :=
  ofHits (fun r => sphereHits sqrtF center radius r.1 r.2)
    (fun r => headFirst (sphereHits sqrtF center radius r.1 r.2))

/-! ## `rayCollisionWithBounds`, `Rect` -/

/-- One axis of the slab test. -/
structure Ax (α : Type) where
  o : α
  d : α
  lo : α
  hi : α

/-- The axis loop of `rayCollisionWithBounds`; `none` = `∓∞`; a miss is `(0, -1)` as in Go. -/
def slabLoop : List (Ax α) → Option α → Option α → Option α × Option α
  | [], mn, mx => (mn, mx)
  | a :: as, mn, mx =>
      if isZero a.d then
        if a.o < a.lo ∨ a.hi < a.o then (some 0, some (-1)) else slabLoop as mn mx
      else
        let t1 := (a.lo - a.o) / a.d
        let t2 := (a.hi - a.o) / a.d
        let s1 := if t2 < t1 then t2 else t1
        let s2 := if t2 < t1 then t1 else t2
        if s2 < 0 then (some 0, some (-1))
        else
          let mn' := match mn with
            | none => some s1
            | some m => if m < s1 then some s1 else some m
          let mx' := match mx with
            | none => some s2
            | some m => if s2 < m then some s2 else some m
          slabLoop as mn' mx'

def axes3 (o d lo hi : V3 α) : List (Ax α) :=
  [⟨o.x, d.x, lo.x, hi.x⟩, ⟨o.y, d.y, lo.y, hi.y⟩, ⟨o.z, d.z, lo.z, hi.z⟩]

/-- `Rect.normalAt`: the face nearest to `c` (first minimum in the order min-x, max-x, min-y, …). -/
def rectNormalAt (lo hi c : V3 α) : V3 α :=
  let step := fun (st : Option α × Nat × α) (axis : Nat) (cv lov hiv : α) =>
    let d1 := absS (cv - lov)
    let st1 : Option α × Nat × α :=
      match st.1 with
      | none => (some d1, axis, -1)
      | some m => if d1 < m then (some d1, axis, -1) else st
    let d2 := absS (cv - hiv)
    match st1.1 with
    | none => (some d2, axis, 1)
    | some m => if d2 < m then (some d2, axis, (1 : α)) else st1
  let s0 : Option α × Nat × α := (none, 0, 0)
  let s1 := step s0 0 c.x lo.x hi.x
  let s2 := step s1 1 c.y lo.y hi.y
  let s3 := step s2 2 c.z lo.z hi.z
  match s3.2.1 with
  | 0 => ⟨s3.2.2, 0, 0⟩
  | 1 => ⟨0, s3.2.2, 0⟩
  | _ => ⟨0, 0, s3.2.2⟩

/-- The parameters `Rect.RayCollisions` reports: `tMin` (unless negative) and `tMax`, when
`!(tMax < tMin || tMax < 0)`.  A zero direction (both bounds infinite) is outside the model: `[]`. -/
def rectTs (lo hi o d : V3 α) : List α :=
  match slabLoop (axes3 o d lo hi) none none with
  | (some mn, some mx) =>
    if mx < mn ∨ mx < 0 then [] else [mn, mx].filter fun t => !decide (t < 0)
  | _ => []

/-- The calls of `Rect.RayCollisions`. -/
def rectHits (lo hi o d : V3 α) : List (Hit α) :=
  (rectTs lo hi o d).map fun t => ⟨t, rectNormalAt lo hi (o.along d t)⟩

/-- `Rect.FirstRayCollision`: `t := tMin; if t < 0 { t = tMax }`. -/
def rectFirst (lo hi o d : V3 α) : Option (Hit α) :=
  match slabLoop (axes3 o d lo hi) none none with
  | (some mn, some mx) =>
    if mx < mn ∨ mx < 0 then none
    else
      let t := if mn < 0 then mx else mn
      some ⟨t, rectNormalAt lo hi (o.along d t)⟩
  | _ => none

def rectCollider (lo hi : V3 α) : Collider (V3 α × V3 α) (Hit α) :=
  ofHits (fun r => rectHits lo hi r.1 r.2) (fun r => rectFirst lo hi r.1 r.2)

/-! ## `Triangle` -/

/-- Result of `Triangle.rayCollision` when `tc != nil`: the two barycentric coordinates and the scale
(which may be negative). -/
structure TriSol (α : Type) where
  u : α
  v : α
  t : α
deriving Repr

/-- `Triangle.Normal()`: `t[1].Sub(t[0]).Cross(t[2].Sub(t[0])).Normalize()`. -/
def triNormal (sqrtF : α → α) (a b c : V3 α) : V3 α := ((b.sub a).cross (c.sub a)).normalize sqrtF

/-- `Triangle.rayCollision` (Möller–Trumbore with the library's near-parallel rejection). -/
def triRay (sqrtF : α → α) (eps : α) (a b c o d : V3 α) : Option (TriSol α) :=
  let dd := (triNormal sqrtF a b c).dot (d.normalize sqrtF)
  if dd < eps ∧ -eps < dd then none
  else
    let v1 := b.sub a
    let v2 := c.sub a
    let cross1 := d.cross v2
    let det := cross1.dot v1
    if isZero det then none
    else
      let invDet := 1 / det
      let oo := o.sub a
      let bary1 := invDet * oo.dot cross1
      if bary1 < 0 ∨ 1 < bary1 then none
      else
        let cross2 := oo.cross v1
        let bary2 := invDet * d.dot cross2
        if bary2 < 0 ∨ 1 < bary1 + bary2 then none
        else some ⟨bary1, bary2, invDet * v2.dot cross2⟩

/-- The calls of `Triangle.RayCollisions` (`info == nil || scale < 0 → 0`). -/
def triHits (sqrtF : α → α) (eps : α) (a b c o d : V3 α) : List (Hit α) :=
  match triRay sqrtF eps a b c o d with
  | none => []
  | some s => if s.t < 0 then [] else [⟨s.t, triNormal sqrtF a b c⟩]

/-- `Triangle.FirstRayCollision` (`info != nil && scale >= 0`). -/
def triFirst (sqrtF : α → α) (eps : α) (a b c o d : V3 α) : Option (Hit α) :=
  match triRay sqrtF eps a b c o d with
  | none => none
  | some s => if 0 ≤ s.t then some ⟨s.t, triNormal sqrtF a b c⟩ else none

def triCollider (sqrtF : α → α) (eps : α) (a b c : V3 α) : Collider (V3 α × V3 α) (Hit α) :=
  ofHits (fun r => triHits sqrtF eps a b c r.1 r.2) (fun r => triFirst sqrtF eps a b c r.1 r.2)

/-- `Triangle.SegmentCollision`: `FirstRayCollision(s0, s1 - s0)` with `Scale <= 1`. -/
def triSegment (sqrtF : α → α) (eps : α) (a b c s0 s1 : V3 α) : Bool :=
  match triFirst sqrtF eps a b c s0 (s1.sub s0) with
  | none => false
  | some h => decide (h.t ≤ 1)

/-- `segmentEntersSphere`. -/
def segEntersSphere (sqrtF : α → α) (p1 p2 c : V3 α) (r : α) : Bool :=
  let v := p2.sub p1
  let frac := (c.dot v - p1.dot v) / v.dot v
  let closest := p1.add (v.scale frac)
  decide (0 ≤ frac) && decide (frac ≤ 1) && decide (closest.dist sqrtF c < r)

/-- `Triangle.SphereCollision`: vertex, edge and face cases. -/
def triSphere (sqrtF : α → α) (eps : α) (a b c ctr : V3 α) (r : α) : Bool :=
  (decide (a.dist sqrtF ctr < r) || decide (b.dist sqrtF ctr < r) || decide (c.dist sqrtF ctr < r)) ||
  (segEntersSphere sqrtF a b ctr r || segEntersSphere sqrtF b c ctr r || segEntersSphere sqrtF c a ctr r) ||
  (match triRay sqrtF eps a b c ctr (triNormal sqrtF a b c) with
   | none => false
   | some s => decide (absS s.t < r))

/-! ## 2-D `Segment` -/

/-- `Segment.rayCollision` (2-D): `(collides, scale)`; `none` when the near-parallel test fires. -/
def seg2Ray (sqrtF : α → α) (eps : α) (s0 s1 o d : V2 α) : Option (Bool × α) :=
  let v := s1.sub s0
  -- Matrix2{v.X, d.X, v.Y, d.Y} (row-major): columns v and d
  let det := v.x * d.y - d.x * v.y
  if absS det < eps * v.norm sqrtF * d.norm sqrtF then none
  else
    -- InvertInPlaceDet: {m3, -m1, -m2, m0} scaled by 1/det
    let s := 1 / det
    let i0 := d.y * s
    let i1 := (-d.x) * s
    let i2 := (-v.y) * s
    let i3 := v.x * s
    let w := o.sub s0
    let rx := i0 * w.x + i1 * w.y
    let ry := i2 * w.x + i3 * w.y
    some (decide (0 ≤ rx) && decide (rx ≤ 1), -ry)

/-- `Segment.Normal()` (2-D). -/
def seg2Normal (sqrtF : α → α) (s0 s1 : V2 α) : V2 α :=
  let delta := s1.sub s0
  (⟨-delta.y, delta.x⟩ : V2 α).normalize sqrtF

/-- The calls of 2-D `Segment.RayCollisions` (`collides && scale >= 0`). -/
def seg2Hits (sqrtF : α → α) (eps : α) (s0 s1 o d : V2 α) : List (Hit2 α) :=
  match seg2Ray sqrtF eps s0 s1 o d with
  | some (true, t) => if 0 ≤ t then [⟨t, seg2Normal sqrtF s0 s1⟩] else []
  | _ => []

def seg2Collider (sqrtF : α → α) (eps : α) (s0 s1 : V2 α) : Collider (V2 α × V2 α) (Hit2 α) :=
  ofHits (fun r => seg2Hits sqrtF eps s0 s1 r.1 r.2) (fun r => headFirst (seg2Hits sqrtF eps s0 s1 r.1 r.2))

/-- 2-D `Segment.CircleCollision`. -/
def seg2Circle (sqrtF : α → α) (s0 s1 c : V2 α) (r : α) : Bool :=
  (decide (s0.dist sqrtF c < r) || decide (s1.dist sqrtF c < r)) ||
  (let v := s1.sub s0
   let frac := (c.dot v - s0.dot v) / v.dot v
   let closest := s0.add (v.scale frac)
   decide (0 ≤ frac) && decide (frac ≤ 1) && decide (closest.dist sqrtF c < r))

/-! ## `castPlane`, `castCircle`, `Cylinder`, `Capsule` -/

/-- `castPlane`: the scale of the collision with the plane `normal·x = bias`. -/
def castPlane (sqrtF : α → α) (eps : α) (normal : V3 α) (bias : α) (o d : V3 α) : Option α :=
  let dDot := d.dot normal
  if absS dDot < eps * d.norm sqrtF * normal.norm sqrtF then none
  else
    let scale := (bias - o.dot normal) / dDot
    if scale < 0 then none else some scale

/-- `castCircle`. -/
def castCircle (sqrtF : α → α) (eps : α) (normal center : V3 α) (radius : α) (o d : V3 α) : Option (Hit α) :=
  match castPlane sqrtF eps normal (normal.dot center) o d with
  | none => none
  | some t => if radius < (o.along d t).dist sqrtF center then none else some ⟨t, normal⟩

/-- The side collisions computed by `Cylinder.RayCollisions` and (identically) `Capsule.RayCollisions`,
in the order `sign = -1, +1`. -/
def cylSideHits (sqrtF : α → α) (p1 p2 : V3 α) (radius : α) (o0 d : V3 α) : List (Hit α) :=
  let v := (p2.sub p1).normalize sqrtF
  let o := o0.sub p1
  let v1 := (v.scale (o.dot v)).sub o
  let v2 := (v.scale (d.dot v)).sub d
  let a := v2.dot v2
  let b := two * v1.dot v2
  let cVal := v1.dot v1 - radius * radius
  let disc := b * b - four * a * cVal
  if 0 < disc then
    let s := sqrtF disc
    let maxScale := (p2.sub p1).norm sqrtF
    ([(-1 : α), 1].filterMap fun sign =>
      let t := (-b + sign * s) / (two * a)
      if t < 0 then none
      else
        let p := o.add (d.scale t)
        let frac := v.dot p
        if 0 ≤ frac ∧ frac < maxScale then some ⟨t, (p.sub (v.scale frac)).normalize sqrtF⟩ else none)
  else []

/-- The calls of `Cylinder.RayCollisions`: sides, then the two caps (`castCircle` with normals `-v`, `v`). -/
def cylHits (sqrtF : α → α) (eps : α) (p1 p2 : V3 α) (radius : α) (o d : V3 α) : List (Hit α) :=
  let v := (p2.sub p1).normalize sqrtF
  cylSideHits sqrtF p1 p2 radius o d ++
    (castCircle sqrtF eps (v.scale (-1)) p1 radius o d).toList ++
    (castCircle sqrtF eps v p2 radius o d).toList

/-- Insertion into a list sorted by `t` (`sort.Slice(colls, Scale <)`; only the first and the last element
of the result are used, i.e. a minimum and a maximum). -/
def insertByT {H : Type} (tOf : H → α) (h : H) : List H → List H
  | [] => [h]
  | x :: xs => if tOf h < tOf x then h :: x :: xs else x :: insertByT tOf h xs

def sortByT {H : Type} (tOf : H → α) (hs : List H) : List H := hs.foldr (insertByT tOf) []

/-- The tail of `Capsule.RayCollisions`: 0 or 1 candidate pass through; otherwise sort, report the first
only if the origin is outside, and always the last ("phantom" collisions in between are dropped). -/
def capsuleSelect {H : Type} (tOf : H → α) (colls : List H) (originInside : Bool) (cb : Bool) : Nat × List H :=
  match colls with
  | [] => (0, [])
  | [h] => (1, if cb then [h] else [])
  | h0 :: h1 :: rest =>
    let s := sortByT tOf (h0 :: h1 :: rest)
    let firstCall := if !originInside then s.head?.toList else []
    let lastCall := s.getLast?.toList
    ((1 : Nat) + (if !originInside then 1 else 0), if cb then firstCall ++ lastCall else [])

/-- The hemisphere filter of `Capsule.RayCollisions` (since the repair of the on-surface-origin defect):
a collision with the end sphere around `p` is kept only on the outer half, `(point - p)·(P2 - P1) ≤ 0` for
the first end and `≥ 0` for the second. -/
def capsuleKeep (p1 p2 o d : V3 α) (firstEnd : Bool) (p : V3 α) (h : Hit α) : Bool :=
  let axis := p2.sub p1
  let point := o.along d h.t
  let along := (point.sub p).dot axis
  if firstEnd then decide (along ≤ 0) else decide (0 ≤ along)

/-- Candidates of `Capsule.RayCollisions`: the two end spheres' callbacks on their outer halves, then the
side hits. -/
def capsuleCands (sqrtF : α → α) (p1 p2 : V3 α) (radius : α) (o d : V3 α) : List (Hit α) :=
  (sphereHits sqrtF p1 radius o d).filter (capsuleKeep p1 p2 o d true p1) ++
    (sphereHits sqrtF p2 radius o d).filter (capsuleKeep p1 p2 o d false p2) ++
    cylSideHits sqrtF p1 p2 radius o d

/-! ## `Capsule.Contains` and the whole `Capsule` -/

/-- `NewSegment`: canonical (lexicographic) ordering of the end points. -/
def newSegment (p1 p2 : V3 α) : V3 α × V3 α :=
  if decide (p1.x < p2.x) || (eqB p1.x p2.x && decide (p1.y < p2.y)) ||
      (eqB p1.x p2.x && eqB p1.y p2.y && decide (p1.z < p2.z)) then (p1, p2) else (p2, p1)

/-- 3-D `Segment.Closest`. -/
def segClosest3 (sqrtF : α → α) (s0 s1 c : V3 α) : V3 α :=
  let v1 := s1.sub s0
  let norm := v1.norm sqrtF
  let v := v1.scale (1 / norm)
  let v2 := c.sub s0
  let mag := v.dot v2
  if norm < mag then s1 else if mag < 0 then s0 else (v.scale mag).add s0

/-- `Capsule.Contains`: `NewSegment(P1, P2).Dist(coord) <= Radius`. -/
def capsuleContains (sqrtF : α → α) (p1 p2 : V3 α) (radius : α) (c : V3 α) : Bool :=
  let s := newSegment p1 p2
  decide (c.dist sqrtF (segClosest3 sqrtF s.1 s.2 c) ≤ radius)

/-- `Capsule.RayCollisions` / `FirstRayCollision`. -/
def capsuleCollider (sqrtF : α → α) (p1 p2 : V3 α) (radius : α) : Collider (V3 α × V3 α) (Hit α) :=
  { ray := fun r cb => capsuleSelect Hit.t (capsuleCands sqrtF p1 p2 radius r.1 r.2)
      (capsuleContains sqrtF p1 p2 radius r.1) cb,
    first := fun r => minFirst Hit.t (capsuleSelect Hit.t (capsuleCands sqrtF p1 p2 radius r.1 r.2)
      (capsuleContains sqrtF p1 p2 radius r.1) true).2 none }

/-- `Cylinder.RayCollisions` / `FirstRayCollision` (min-callback). -/
def cylCollider (sqrtF : α → α) (eps : α) (p1 p2 : V3 α) (radius : α) : Collider (V3 α × V3 α) (Hit α) :=
  ofHits (fun r => cylHits sqrtF eps p1 p2 radius r.1 r.2)
    (fun r => minFirst Hit.t (cylHits sqrtF eps p1 p2 radius r.1 r.2) none)

/-! ## sqrt-free specifications of the ball queries (what "the ball meets the shape" means) -/

/-- some point of the segment `p1 p2` (non-degenerate) has squared distance `< q` from `ctr`, decided by the
closest point: an end point, or the foot of the perpendicular when it lies on the segment -/
def segBallSpec (p1 p2 ctr : V3 α) (q : α) : Bool :=
  let v := p2.sub p1
  let w := ctr.sub p1
  let vv := v.dot v
  let wv := w.dot v
  decide (p1.distSq ctr < q) || decide (p2.distSq ctr < q) ||
    (decide (0 ≤ wv) && decide (wv ≤ vv) && decide (w.dot w * vv - wv * wv < q * vv))

/-- some point of the triangle `a b c` (non-degenerate) has squared distance `< q` from `ctr`: the three edges,
or the foot of the perpendicular on the plane when its barycentric coordinates are in range -/
def triBallSpec (a b c ctr : V3 α) (q : α) : Bool :=
  segBallSpec a b ctr q || segBallSpec b c ctr q || segBallSpec c a ctr q ||
    (let e1 := b.sub a
     let e2 := c.sub a
     let n := e1.cross e2
     let w := ctr.sub a
     let nn := n.dot n
     let u' := (w.cross e2).dot n
     let v' := (e1.cross w).dot n
     decide (0 ≤ u') && decide (0 ≤ v') && decide (u' + v' ≤ nn) && decide (w.dot n * w.dot n < q * nn))

/-- 2-D version of `segBallSpec`. -/
def seg2BallSpec (p1 p2 ctr : V2 α) (q : α) : Bool :=
  let v := p2.sub p1
  let w := ctr.sub p1
  let vv := v.dot v
  let wv := w.dot v
  decide (p1.distSq ctr < q) || decide (p2.distSq ctr < q) ||
    (decide (0 ≤ wv) && decide (wv ≤ vv) && decide (w.dot w * vv - wv * wv < q * vv))

/-! ## `profileCollider` -/

/-- The closure `inside2d` of `profileCollider.RayCollisions` for a non-vertical ray. -/
def profInside2d (colls : List (Hit2 α)) (t : α) : Bool :=
  if colls.any (fun rc => eqB rc.t t) then false
  else (colls.filter fun rc => decide (t < rc.t)).length % 2 == 1

/-- The flat-ray case of `profileCollider.RayCollisions`: every 2-D collision is reported. -/
def profFlat (colls : List (Hit α)) (cb : Bool) : Nat × List (Hit α) :=
  (colls.length, if cb then colls else [])

/-- The general case of `profileCollider.RayCollisions`: the face at `minT` (if `f0`), the side collisions
within `[minT, maxT]`, the face at `maxT` (if `f1`); `count++` and the callback are separate statements. -/
def profGeneral (f0 f1 : Bool) (sides : List (Hit α)) (h0 h1 : Hit α) (cb : Bool) : Nat × List (Hit α) :=
  ((if f0 then 1 else 0) + sides.length + (if f1 then 1 else 0),
    if cb then (if f0 then [h0] else []) ++ sides ++ (if f1 then [h1] else []) else [])

/-- `profileCollider.RayCollisions`.  `ray2 o d` = the calls the 2-D collider makes for the projected ray,
`solid2` = `Solid2D.Contains`. -/
def profileRay (ray2 : V2 α → V2 α → List (Hit2 α)) (solid2 : V2 α → Bool) (minZ maxZ : α)
    (o d : V3 α) (cb : Bool) : Nat × List (Hit α) :=
  let vertical := isZero d.x && isZero d.y
  if vertical && !solid2 o.xy then (0, [])
  else
    let colls := if vertical then [] else ray2 o.xy d.xy
    let inside2d := fun t => if vertical then true else profInside2d colls t
    let lift := fun (rc : Hit2 α) => (⟨rc.t, ⟨rc.n.x, rc.n.y, 0⟩⟩ : Hit α)
    if isZero d.z then
      if o.z < minZ ∨ maxZ < o.z then (0, [])
      else profFlat (colls.map lift) cb
    else
      let t0 := (minZ - o.z) / d.z
      let t1 := (maxZ - o.z) / d.z
      let swap := decide (t1 < t0)
      let minT := if swap then t1 else t0
      let maxT := if swap then t0 else t1
      let minN : V3 α := if swap then ⟨0, 0, 1⟩ else ⟨0, 0, -1⟩
      let maxN : V3 α := if swap then ⟨0, 0, -1⟩ else ⟨0, 0, 1⟩
      profGeneral (decide (0 ≤ minT) && inside2d minT) (decide (0 ≤ maxT) && inside2d maxT)
        ((colls.filter fun rc => decide (minT ≤ rc.t) && decide (rc.t ≤ maxT)).map lift)
        ⟨minT, minN⟩ ⟨maxT, maxN⟩ cb

/-- `profileCollider` as a collider (`FirstRayCollision` = min-callback over `RayCollisions`). -/
def profileCollider (ray2 : V2 α → V2 α → List (Hit2 α)) (solid2 : V2 α → Bool) (minZ maxZ : α) :
    Collider (V3 α × V3 α) (Hit α) :=
  { ray := fun r cb => profileRay ray2 solid2 minZ maxZ r.1 r.2 cb,
    first := fun r => minFirst Hit.t (profileRay ray2 solid2 minZ maxZ r.1 r.2 true).2 none }

/-! ## `Cone` normal (the direction that is normalised) -/

/-- `Cone.RayCollisions`' normal before normalisation, from the unit radial direction `radial` at the hit,
`h = |Tip - Base|` and the base radius: `radial*h + (Tip-Base)*(R/h)`. -/
def coneNormalDir (radial tipMinusBase : V3 α) (h radius : α) : V3 α :=
  (radial.scale h).add (tipMinusBase.scale (radius / h))

end Numeric

end M3d.Col
