import M3d.Model.Surface
/-!
# Mesh OBJECTS: a heap of `*Triangle` cells, `*Mesh` = a set of pointers (C10, programs)

C10 quantifies over *programs*: chains of operations in which a mesh may be used again after it was
handed to an operation.  In Go a `*Mesh` is a set of `*Triangle` pointers (`m.faces`), and
`Mesh.Copy` is documented to be shallow ("all of the triangles are the same exact pointers"), so an
operation that edits triangles in place (`eliminateSegment`: `neighbor[i] = mp`) changes every
mesh that shares them.

* `Heap` — the cells (`cell p` = the triangle value behind pointer `p`, `next` = allocation
  counter), `Obj` = a `*Mesh` (its pointers), `deref` = the mesh VALUE an object denotes.
* `deepCopy` — the loop `t1 := *t; result.Add(&t1)` at the head of `EliminateEdges` (and
  `DeepCopy`); `shallowCopy` — `m.Copy()`.
* `collapsePtr` — `eliminateSegment` on pointers: a triangle with both end points is dropped from
  the object, every other triangle of the object has its corners `a`, `b` overwritten IN PLACE by
  the midpoint `mp`.  `collapseVal` — the same on values.
* `elimLoopPtr` / `elimLoopVal` — the loop of `EliminateEdges` with the decisions (`f`,
  `canEliminateSegment`, map order) as the oracle `pick` on the current value, `fuel` bounding
  the number of collapses; `elimEdgesPtr` = the code as it is (deep copy first),
  `elimEdgesShallow` = `result := m.Copy()` (seeded change C10-10).
* programs: `runHeap` over objects, `runPure` over values.

Core only.
-/
namespace M3d.MeshHeap
open M3d.Surface

structure Heap where
  cell : Nat → Tri
  next : Nat

abbrev Obj := List Nat

def Heap.write (h : Heap) (p : Nat) (t : Tri) : Heap :=
  { h with cell := fun q => if q = p then t else h.cell q }

/-- `new(Triangle)`: the cell `h.next`. -/
def Heap.alloc (h : Heap) (t : Tri) : Heap × Nat :=
  ({ cell := fun q => if q = h.next then t else h.cell q, next := h.next + 1 }, h.next)

/-- The mesh value an object denotes. -/
def deref (h : Heap) (o : Obj) : List Tri := o.map h.cell

/-- `t1 := *t; result.Add(&t1)` for every triangle: fresh cells `h.next, h.next+1, …`. -/
def deepCopy (h : Heap) (o : Obj) : Heap × Obj :=
  o.foldl (fun (s : Heap × Obj) p => let r := s.1.alloc (s.1.cell p); (r.1, s.2 ++ [r.2])) (h, [])

/-- `m.Copy()`: the same pointers. -/
def shallowCopy (h : Heap) (o : Obj) : Heap × Obj := (h, o)

def hasBoth (t : Tri) (a b : Nat) : Bool := (triVerts t).contains a && (triVerts t).contains b

/-- `for i, p := range neighbor { if p == segment[0] || p == segment[1] { neighbor[i] = mp } }`. -/
def subst (a b mp : Nat) (t : Tri) : Tri := mapTri (fun v => if v = a ∨ v = b then mp else v) t

/-- `eliminateSegment` on values. -/
def collapseVal (a b mp : Nat) (ts : List Tri) : List Tri :=
  (ts.filter fun t => !hasBoth t a b).map (subst a b mp)

/-- `eliminateSegment` on the pointers of the mesh being edited: drop, overwrite in place. -/
def collapsePtr (a b mp : Nat) (h : Heap) (o : Obj) : Heap × Obj :=
  let keep := o.filter fun p => !hasBoth (h.cell p) a b
  (keep.foldl (fun h p => h.write p (subst a b mp (h.cell p))) h, keep)

def elimLoopVal (pick : List Tri → Option (Nat × Nat × Nat)) : Nat → List Tri → List Tri
  | 0, ts => ts
  | fuel + 1, ts =>
    match pick ts with
    | none => ts
    | some (a, b, mp) => elimLoopVal pick fuel (collapseVal a b mp ts)

def elimLoopPtr (pick : List Tri → Option (Nat × Nat × Nat)) : Nat → Heap → Obj → Heap × Obj
  | 0, h, o => (h, o)
  | fuel + 1, h, o =>
    match pick (deref h o) with
    | none => (h, o)
    | some (a, b, mp) => let r := collapsePtr a b mp h o; elimLoopPtr pick fuel r.1 r.2

/-- `EliminateEdges` as it is: copy every triangle, then collapse on the copies. -/
def elimEdgesPtr (pick : List Tri → Option (Nat × Nat × Nat)) (fuel : Nat) (h : Heap) (o : Obj) : Heap × Obj :=
  let r := deepCopy h o
  elimLoopPtr pick fuel r.1 r.2

/-- `result := m.Copy()` instead (seeded change C10-10). -/
def elimEdgesShallow (pick : List Tri → Option (Nat × Nat × Nat)) (fuel : Nat) (h : Heap) (o : Obj) : Heap × Obj :=
  let r := shallowCopy h o
  elimLoopPtr pick fuel r.1 r.2

/-! ### Operations as sequences of primitive steps on the mesh being built -/

/-- What the anchored operations do to the mesh they are building (`res := m.Copy()` or `NewMesh()`). -/
inductive Step where
  /-- `res.Remove(t)` / `delete(m.faces, t)`: the pointer leaves the object, the cell stays. -/
  | remove (p : Nat)
  /-- `res.Add(&Triangle{…})`: a fresh cell. -/
  | add (t : Tri)
  /-- `*p = t` / `p[i] = c`: the cell behind an existing pointer is overwritten in place. -/
  | write (p : Nat) (t : Tri)

def step (s : Heap × Obj) : Step → Heap × Obj
  | .remove p => (s.1, s.2.erase p)
  | .add t => ((s.1.alloc t).1, s.2 ++ [(s.1.alloc t).2])
  | .write p t => (s.1.write p t, s.2)

def runSteps (steps : List Step) (s : Heap × Obj) : Heap × Obj := steps.foldl step s

/-- Every in-place write goes to a cell allocated at or after `n0`. -/
def writesOnlyFresh (n0 : Nat) (steps : List Step) : Bool :=
  steps.all fun st => match st with
    | .write p _ => decide (n0 ≤ p)
    | _ => true

/-! ### Programs -/

/-- An operation on objects. -/
abbrev HOp := Heap → Obj → Heap × Obj

/-- A well-formed object: distinct pointers (`m.faces` is a Go map keyed by pointer), all allocated. -/
def WF (h : Heap) (o : Obj) : Prop := o.Nodup ∧ ∀ p ∈ o, p < h.next

/-- `h'` extends `h`: nothing allocated in `h` was overwritten. -/
def Stable (h h' : Heap) : Prop := h.next ≤ h'.next ∧ ∀ p, p < h.next → h'.cell p = h.cell p

/-- The operation on objects `hop` computes the operation on values `fn` and writes only to cells
it allocated itself. -/
def Faithful (hop : HOp) (fn : List Tri → List Tri) : Prop :=
  ∀ h o, WF h o → WF (hop h o).1 (hop h o).2 ∧ Stable h (hop h o).1 ∧ deref (hop h o).1 (hop h o).2 = fn (deref h o)

/-- One instruction `v_new := op(v_src)`: the operation on objects and the operation on values it
is meant to be. -/
structure Instr where
  src : Nat
  hop : HOp
  fn : List Tri → List Tri

/-- The Go program: variables hold objects. -/
def runHeap : List Instr → Heap × List Obj → Heap × List Obj
  | [], s => s
  | i :: rest, (h, vars) =>
    let r := i.hop h (vars.getD i.src [])
    runHeap rest (r.1, vars ++ [r.2])

/-- The same program over mesh values. -/
def runPure : List Instr → List (List Tri) → List (List Tri)
  | [], vals => vals
  | i :: rest, vals => runPure rest (vals ++ [i.fn (vals.getD i.src [])])

/-- A heap holding the given triangles at `0, 1, …` and the object of all of them. -/
def ofList (ts : List Tri) : Heap × Obj :=
  ({ cell := fun p => ts.getD p (0, 0, 0), next := ts.length }, List.range ts.length)

end M3d.MeshHeap
