import M3d.GenPrelude
/-!
# Model of `numerical.BiCGSTAB` / `BiCGSTABSolver.SolveLinearSystem` (`/repo/numerical/cg.go`)

Core-only (compiled into `drv_c18`).  This is the solver `Floater97` / `StretchMinimizingParameterization` hand their
system to (`Floater97DefaultSolver`).  The model is generic over the vector type `V` and the scalar `α`: the vector
operations (`Vec.Add`, `Vec.Sub`, `Vec.Scale`, `Vec.Dot`, the test `Vec.Norm() == 0`, `Vec.Zeros`, the error sums of
the stopping test) are a record `VOps`.  `listOps` instantiates it with the loops of `numerical/vecs.go` over lists
(`res += x * y` from `0`, in order), so that the model runs bit for bit at `Float`; the theorems
(`M3d/Lemmas/ParamCG.lean`) instantiate it with the operations of a vector space and a linear operator.
-/
namespace M3d.CG
open M3d.GenPrelude

variable {α V : Type}

/-- The operations of `numerical.Vec` the solver uses. -/
structure VOps (α V : Type) where
  add : V → V → V
  sub : V → V → V
  /-- `v.Scale(s)` -/
  scale : V → α → V
  dot : V → V → α
  /-- `v.Norm() == 0` -/
  normIsZero : V → Bool
  /-- `v.Zeros()` -/
  zeros : V → V
  /-- `(Σ x², Σ |x|)` over the components: the sums of the stopping test of `SolveLinearSystem` -/
  errs : V → α × α
  /-- `float64(len(v))` -/
  len : V → α
  /-- `len(v) == 0` -/
  isEmpty : V → Bool

/-- `numerical.BiCGSTAB` (without `Op` and `B`). -/
structure St (α V : Type) where
  x : V
  r : V
  rHatZero : V
  rho : α
  alpha : α
  w : α
  v : V
  p : V
  terminate : Bool

/-- `NewBiCGSTAB(op, b, initGuess)` -/
def init [OfNat α 1] (o : VOps α V) (op : V → V) (b : V) (guess : Option V) : St α V :=
  let x0 := match guess with
    | some g => g
    | none => o.zeros b
  let r := o.sub b (op x0)
  ⟨x0, r, r, 1, 1, 1, o.zeros b, o.zeros b, false⟩

/-! `BiCGSTAB.Iter()` in pieces (so that theorems can name the intermediate vectors). -/

/-- `rhoI := b.rHatZero.Dot(b.r)` -/
def rhoOf (o : VOps α V) (s : St α V) : α := o.dot s.rHatZero s.r
/-- `pI := b.r.Add((b.p.Sub(b.v.Scale(b.w))).Scale(beta))` with `beta := (rhoI / b.rho) * (b.alpha / b.w)` -/
def pOf [Mul α] [Div α] (o : VOps α V) (s : St α V) : V :=
  o.add s.r (o.scale (o.sub s.p (o.scale s.v s.w)) ((rhoOf o s / s.rho) * (s.alpha / s.w)))
/-- `vI := b.Op(pI)` -/
def vOf [Mul α] [Div α] (o : VOps α V) (op : V → V) (s : St α V) : V := op (pOf o s)
/-- `b.alpha = rhoI / b.rHatZero.Dot(vI)` -/
def alphaOf [Mul α] [Div α] (o : VOps α V) (op : V → V) (s : St α V) : α := rhoOf o s / o.dot s.rHatZero (vOf o op s)
/-- `h := b.x.Add(pI.Scale(b.alpha))` -/
def hOf [Mul α] [Div α] (o : VOps α V) (op : V → V) (s : St α V) : V := o.add s.x (o.scale (pOf o s) (alphaOf o op s))
/-- `s := b.r.Sub(vI.Scale(b.alpha))` -/
def sOf [Mul α] [Div α] (o : VOps α V) (op : V → V) (s : St α V) : V := o.sub s.r (o.scale (vOf o op s) (alphaOf o op s))
/-- `t := b.Op(s)` -/
def tOf [Mul α] [Div α] (o : VOps α V) (op : V → V) (s : St α V) : V := op (sOf o op s)
/-- `wI := t.Dot(s) / t.Dot(t)` -/
def wOf [Mul α] [Div α] (o : VOps α V) (op : V → V) (s : St α V) : α :=
  o.dot (tOf o op s) (sOf o op s) / o.dot (tOf o op s) (tOf o op s)

/-- The exit `if t.Norm() == 0 { b.terminate = true; b.x = h; return b.x }`. -/
def exitT [Mul α] [Div α] (o : VOps α V) (op : V → V) (s : St α V) : St α V :=
  { s with alpha := alphaOf o op s, x := hOf o op s, terminate := true }

/-- The full step: `xI := h.Add(s.Scale(wI))`, `rI := s.Sub(t.Scale(wI))`, and the bookkeeping. -/
def fullStep [Mul α] [Div α] (o : VOps α V) (op : V → V) (s : St α V) : St α V :=
  { s with rho := rhoOf o s, p := pOf o s, v := vOf o op s, w := wOf o op s,
           x := o.add (hOf o op s) (o.scale (sOf o op s) (wOf o op s)),
           r := o.sub (sOf o op s) (o.scale (tOf o op s) (wOf o op s)), alpha := alphaOf o op s }

/-- `BiCGSTAB.Iter()` (the new state; the returned vector is its `x`). -/
def iter [Mul α] [Div α] (o : VOps α V) (op : V → V) (s : St α V) : St α V :=
  if s.terminate then s
  else if o.normIsZero s.r then { s with terminate := true }
  else if o.normIsZero (tOf o op s) then exitT o op s
  else fullStep o op s

/-- `k` calls of `Iter()`. -/
def iterN [Mul α] [Div α] (o : VOps α V) (op : V → V) : Nat → St α V → St α V
  | 0, s => s
  | k + 1, s => iterN o op k (iter o op s)

/-- The stopping test of `SolveLinearSystem` on the candidate `sol`: `none` = `panic("NaN detected during solving")`,
`some true` = `break`. -/
def stopTest [Mul α] (o : VOps α V) (isNaN : α → Bool) (lt : α → α → Bool) (op : V → V) (b : V) (mseTol maeTol : α)
    (sol : V) : Option Bool :=
  let e := o.errs (o.sub (op sol) b)
  if isNaN e.2 then none
  else some (lt e.1 (mseTol * o.len b) || lt e.2 (maeTol * o.len b))

/-- The loop of `SolveLinearSystem` with `MaxIters = fuel > 0`; `tolOn` is `MSETolerance != 0 || MAETolerance != 0`. -/
def solveLoop [Mul α] [Div α] (o : VOps α V) (isNaN : α → Bool) (lt : α → α → Bool) (op : V → V) (b : V)
    (mseTol maeTol : α) (tolOn : Bool) : Nat → St α V → V → Option V
  | 0, _, sol => some sol
  | k + 1, st, _ =>
    let st' := iter o op st
    let sol := st'.x
    if tolOn then
      match stopTest o isNaN lt op b mseTol maeTol sol with
      | none => none
      | some true => some sol
      | some false => solveLoop o isNaN lt op b mseTol maeTol tolOn k st' sol
    else solveLoop o isNaN lt op b mseTol maeTol tolOn k st' sol

/-- `BiCGSTABSolver.SolveLinearSystem(op, b, initGuess)` with `MaxIters = maxIters > 0` (`none` = the NaN panic). -/
def solve [Mul α] [Div α] [OfNat α 1] (o : VOps α V) (isNaN : α → Bool) (lt : α → α → Bool) (op : V → V) (b : V)
    (guess : Option V) (maxIters : Nat) (mseTol maeTol : α) (tolOn : Bool) : Option V :=
  if o.isEmpty b then some (o.zeros b)
  else solveLoop o isNaN lt op b mseTol maeTol tolOn maxIters (init o op b guess) (o.zeros b)

/-- The loops of `numerical/vecs.go` over lists. -/
def listOps [Add α] [Sub α] [Mul α] [OfNat α 0] [HasSqrt α] [BEq α] (abs : α → α) (ofNat : Nat → α) : VOps α (List α) where
  add u v := List.zipWith (· + ·) u v
  sub u v := List.zipWith (· - ·) u v
  scale v s := v.map (· * s)
  dot u v := (u.zip v).foldl (fun acc xy => acc + xy.1 * xy.2) 0
  normIsZero v := HasSqrt.sqrt (v.foldl (fun acc x => acc + x * x) 0) == 0
  zeros v := v.map fun _ => 0
  errs v := (v.foldl (fun acc x => acc + x * x) 0, v.foldl (fun acc x => acc + abs x) 0)
  len v := ofNat v.length
  isEmpty v := v.isEmpty

end M3d.CG
