import M3d.Model.RenderSampling
/-!
# Nested `JoinAreaLights` (property C19)

Core Lean only.  `JoinAreaLights(lights...)` accepts any `AreaLight`, in particular another joined
light (a lamp assembled from parts by a helper, then joined with the other lights of the scene).
A joined light is therefore a *tree*: leaves are the primitive lights (only their
`TotalEmission()` matters for the selection), inner nodes are `*joinedAreaLight`s.

`joinedAreaLight.SampleLight` draws one `gen.Float64()`, selects a member through its cumulative
table (`selectIdx`, `M3d/Model/RenderSampling.lean`) and calls the member's `SampleLight` with the
same generator: a member that is itself a joined light draws the next number, and so on — one draw
per level on the path to the selected leaf.  `TotalEmission` of a node is the last running total,
i.e. the left-to-right sum of the members' `TotalEmission()`.

Anchor: /repo/render3d/light.go (`JoinAreaLights`, `joinedAreaLight`).
-/
namespace M3d.RS

/-- A light assembled by (possibly nested) `JoinAreaLights` calls; `leaf w` is a primitive light
whose `TotalEmission()` is `w`. -/
inductive LTree (α : Type) where
  | leaf : α → LTree α
  | join : List (LTree α) → LTree α

section
variable {α : Type} [Add α] [Sub α] [Mul α] [Div α] [Neg α] [LT α] [DecidableLT α]
  [OfNat α 0] [OfNat α 1] [OfNat α 2] [OfNat α 4] [HasSqrt α]

mutual
/-- `TotalEmission()` of the (nested) joined light: `j.totalLight`, accumulated left to right over
the members' own `TotalEmission()`. -/
def LTree.total : LTree α → α
  | .leaf w => w
  | .join ts => RS.total (LTree.totals ts)
/-- The members' `TotalEmission()`s (the weights of the node's cumulative table). -/
def LTree.totals : List (LTree α) → List α
  | [] => []
  | t :: ts => t.total :: LTree.totals ts
end

mutual
/-- The primitive lights of the tree, left to right (their `TotalEmission()`s). -/
def LTree.leaves : LTree α → List α
  | .leaf w => [w]
  | .join ts => LTree.leavesL ts
def LTree.leavesL : List (LTree α) → List α
  | [] => []
  | t :: ts => t.leaves ++ LTree.leavesL ts
end

mutual
/-- Number of draws `SampleLight` may consume for the selection (the height of the tree). -/
def LTree.depth : LTree α → Nat
  | .leaf _ => 0
  | .join ts => LTree.depthL ts + 1
def LTree.depthL : List (LTree α) → Nat
  | [] => 0
  | t :: ts => max t.depth (LTree.depthL ts)
end

mutual
/-- The primitive light (index into `leaves`) that `SampleLight` reaches for the draws `us`
(one per level); `none` if the draws run out or a node has no members (the Go code panics). -/
def LTree.select : LTree α → List α → Option Nat
  | .leaf _, _ => some 0
  | .join _, [] => none
  | .join ts, u :: us => LTree.selectL ts (selectIdx (LTree.totals ts) u) us
/-- Descend into member `i` of `ts`; the result is offset by the leaves of the members before it. -/
def LTree.selectL : List (LTree α) → Nat → List α → Option Nat
  | [], _, _ => none
  | t :: _, 0, us => t.select us
  | t :: ts, i + 1, us => (LTree.selectL ts i us).map (· + t.leaves.length)
end

mutual
/-- The cell of draws that reach the same primitive light as `us`: per level the half-open
interval `(lo, hi]` of the draw that selects the same member, `lo = cum(i−1)/W`, `hi = cum(i)/W`
with `W` the node's total (see `selectIdx_spec`). -/
def LTree.cell : LTree α → List α → List (α × α)
  | .leaf _, _ => []
  | .join _, [] => []
  | .join ts, u :: us =>
    let ws := LTree.totals ts
    let i := selectIdx ws u
    (RS.total (ws.take i) / RS.total ws, RS.total (ws.take (i + 1)) / RS.total ws) :: LTree.cellL ts i us
def LTree.cellL : List (LTree α) → Nat → List α → List (α × α)
  | [], _, _ => []
  | t :: _, 0, us => t.cell us
  | _ :: ts, i + 1, us => LTree.cellL ts i us
end

end

end M3d.RS
