import M3d.Model.Bounded
/-!
# Convex polytopes for C03 (core Lean only, generic scalar)

Sources modelled: `templates/polytope.template` (→ `model2d/polytope.go`, `model3d/polytope.go`):

* `LinearConstraint` with an un-normalised normal: a constraint given as a positive factor `s` and a
  half-space `(n, m)`; the Go value is `&LinearConstraint{Normal: n.Scale(s), Max: m*s}`
  (`SCon`, `scaledCs`, `unscaledCs`);
* `ConvexPolytope.vertex` (3-D and 2-D): the determinant test `|det| < rawArea*1e-8` **relative** to the
  product of the normals' lengths, `Matrix3.Det`, `Matrix3.MulColumnInv` (adjugate times `maxes/det`),
  the acceptance test `l.Normal.Dot(solution) > l.Max + epsilon*norms[i]` against every other
  constraint (`det3`, `mulColInv3`, `vertex3`, `det2`, `mulColInv2`, `vertex2`);
* `spatialEpsilon` (`spatialEps`);
* the vertices that `Mesh()` enumerates (one per index triple / pair, `meshVerts3`, `meshVerts2`) and
  the box spanned by them (`vertsBox`) — `Solid()` reports `Mesh().Min()/Max()`.  `addConvexFace`,
  `Repair(epsilon)` and the removal of zero-area triangles are *not* modelled: they never add a
  vertex, move one by at most `epsilon`, and drop only vertices that lie on fewer than three
  vertices' faces.

`math.Sqrt` is the parameter `sq` (as in `Model/Bounded.lean`), the literal `1e-8` the parameter `tol`.
-/
namespace M3d.Bd

/-- A constraint as a positive factor and an unscaled half-space `n·p ≤ m`. -/
structure SCon (α : Type) where
  s : α
  n : Pt α
  m : α

section Ops
variable {α : Type} [Add α] [Sub α] [Mul α] [Div α] [Neg α] [LE α] [LT α]
  [DecidableLE α] [DecidableLT α] [OfNat α 0] [OfNat α 1]

/-- the constraints as the Go code sees them: `Normal = n.Scale(s)`, `Max = m*s` -/
def scaledCs (l : List (SCon α)) : List (Pt α × α) := l.map fun c => (pscale c.n c.s, c.m * c.s)
/-- the same half-spaces with the factors dropped -/
def unscaledCs (l : List (SCon α)) : List (Pt α × α) := l.map fun c => (c.n, c.m)

/-- `Matrix3{l1.Normal…, l2.Normal…, l3.Normal…}.Det()` -/
def det3 (a b c : Pt α) : α :=
  a.x * (b.y * c.z - b.z * c.y) - a.y * (b.x * c.z - b.z * c.x) + a.z * (b.x * c.y - b.y * c.x)

/-- `Matrix3.MulColumnInv(maxes, det)` for the matrix with rows `a b c` (row-major storage:
`m[0..2] = a`, …, `MulColumn` reads `m[0], m[1], m[2]` for `X`): adjugate times `maxes.Scale(1/det)`. -/
def mulColInv3 (a b c : Pt α) (mx : Pt α) (det : α) : Pt α :=
  let k := 1 / det
  let v := mk3 (mx.x * k) (mx.y * k) (mx.z * k)
  -- m1 = adjugate in the storage order of the source
  let m0 := b.y * c.z - b.z * c.y
  let m1 := a.z * c.y - a.y * c.z
  let m2 := a.y * b.z - a.z * b.y
  let m3 := b.z * c.x - b.x * c.z
  let m4 := a.x * c.z - a.z * c.x
  let m5 := a.z * b.x - a.x * b.z
  let m6 := b.x * c.y - b.y * c.x
  let m7 := a.y * c.x - a.x * c.y
  let m8 := a.x * b.y - a.y * b.x
  mk3 (m0 * v.x + m1 * v.y + m2 * v.z) (m3 * v.x + m4 * v.y + m5 * v.z) (m6 * v.x + m7 * v.y + m8 * v.z)

/-- `Matrix2{l1.Normal.X, l1.Normal.Y, l2.Normal.X, l2.Normal.Y}.Det()` -/
def det2 (a b : Pt α) : α := a.x * b.y - a.y * b.x

/-- `Matrix2.MulColumnInv(maxes, det)` (matrix storage `{a.x, a.y, b.x, b.y}`, `MulColumn` reads
`m[0], m[1]` for `X`). -/
def mulColInv2 (a b : Pt α) (mx : Pt α) (det : α) : Pt α :=
  let k := 1 / det
  let vx := mx.x * k
  let vy := mx.y * k
  mk3 (b.y * vx + (-a.y) * vy) ((-b.x) * vx + a.x * vy) 0

/-- the acceptance loop of `vertex`: no *other* constraint is violated by more than `epsilon*norm`;
`others` are the constraints with index different from the chosen ones -/
def vertexOk (sq : α → α) (epsilon : α) (others : List (Pt α × α)) (sol : Pt α) : Bool :=
  others.all fun l => !decide (l.2 + epsilon * pnorm sq l.1 < pdot l.1 sol)

/-- `ConvexPolytope.vertex` (3-D) for constraints `l1 l2 l3` (indices already sorted): `none` when the
determinant test or the acceptance loop rejects. -/
def vertex3 (sq : α → α) (tol epsilon : α) (l1 l2 l3 : Pt α × α) (others : List (Pt α × α)) : Option (Pt α) :=
  let rawArea := pnorm sq l1.1 * pnorm sq l2.1 * pnorm sq l3.1
  let det := det3 l1.1 l2.1 l3.1
  if sabs det < rawArea * tol then none
  else
    let sol := mulColInv3 l1.1 l2.1 l3.1 (mk3 l1.2 l2.2 l3.2) det
    if vertexOk sq epsilon others sol then some sol else none

/-- `ConvexPolytope.vertex` (2-D). -/
def vertex2 (sq : α → α) (tol epsilon : α) (l1 l2 : Pt α × α) (others : List (Pt α × α)) : Option (Pt α) :=
  let rawArea := pnorm sq l1.1 * pnorm sq l2.1
  let det := det2 l1.1 l2.1
  if sabs det < rawArea * tol then none
  else
    let sol := mulColInv2 l1.1 l2.1 (mk3 l1.2 l2.2 0) det
    if vertexOk sq epsilon others sol then some sol else none

/-- `spatialEpsilon`: `max_i |Max_i| / |Normal_i|`, times `1e-8`. -/
def spatialEps (sq : α → α) (tol : α) (cs : List (Pt α × α)) : α :=
  (cs.foldl (fun acc l => smax acc (sabs l.2 / pnorm sq l.1)) 0) * tol

/-- all ways of choosing one element and the rest: `(x, others)` -/
def picks {β : Type} : List β → List (β × List β)
  | [] => []
  | x :: xs => (x, xs) :: (picks xs).map fun (y, r) => (y, x :: r)

/-- index-sorted triples with the remaining constraints -/
def triples {β : Type} : List β → List (β × β × β × List β)
  | [] => []
  | x :: xs =>
    ((picks2 xs).map fun (y, z, r) => (x, y, z, r)) ++ (triples xs).map fun (a, b, c, r) => (a, b, c, x :: r)
where
  picks2 : List β → List (β × β × List β)
    | [] => []
    | y :: ys => ((picksAfter ys).map fun (z, r) => (y, z, r)) ++ (picks2 ys).map fun (a, b, r) => (a, b, y :: r)
  picksAfter : List β → List (β × List β)
    | [] => []
    | z :: zs => (z, zs) :: (picksAfter zs).map fun (w, r) => (w, z :: r)

/-- index-sorted pairs with the remaining constraints -/
def pairs {β : Type} (l : List β) : List (β × β × List β) := triples.picks2 l

/-- the vertices `Mesh()` enumerates (3-D): one per sorted index triple that `vertex` accepts -/
def meshVerts3 (sq : α → α) (tol : α) (cs : List (Pt α × α)) : List (Pt α) :=
  let epsilon := spatialEps sq tol cs
  (triples cs).filterMap fun (a, b, c, r) => vertex3 sq tol epsilon a b c r

/-- the vertices `Mesh()` enumerates (2-D) -/
def meshVerts2 (sq : α → α) (tol : α) (cs : List (Pt α × α)) : List (Pt α) :=
  let epsilon := spatialEps sq tol cs
  (pairs cs).filterMap fun (a, b, r) => vertex2 sq tol epsilon a b r

/-- `Mesh().Min()/Max()`: the box spanned by the vertices; `{0,0,0}..{0,0,0}` for an empty mesh. -/
def vertsBox : List (Pt α) → Box α
  | [] => ⟨mk3 0 0 0, mk3 0 0 0⟩
  | v :: vs => hullOf v vs

end Ops
end M3d.Bd
