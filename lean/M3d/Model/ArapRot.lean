import M3d.Model.ArapLin
/-!
# `ARAP.rotations`: covariance of a one-ring and the repair of a reflected best fit (C10)

Core Lean only, generic over the scalar.  For every vertex `i`, `ARAP.rotations` forms

    covariance = Σ_j rotWeights[i][j] · (p_{n_j} − p_i) (y_{n_j} − y_i)^T        (`covRow`)

(`piece` = `NewMatrix3Columns(orig.Scale(new.X), orig.Scale(new.Y), orig.Scale(new.Z))`, accumulated
entry by entry as `covariance[k] += x * weight`), takes `covariance = u s v^T` from `Matrix3.SVD`
(an ORACLE here: `u`, `v` are parameters) and returns `v u^T`, or — when that has a negative
determinant — `v u'^T` where `u'` is `u` with the column of the SMALLEST singular value (index 2:
`SVD` sorts decreasingly) negated (`rotOf`).  `Matrix3` is `[9]float64` read row by row
(`m[3r+c]`), like `M3d.ArapLin.Mat3`.  Same operations in the same order as the Go code, so the
model runs at `Float` bit for bit and at `Rat` exactly.
-/
namespace M3d.ArapRot
open M3d.MeshOps M3d.ArapLin

section Defs
variable {α : Type} [Add α] [Mul α] [Sub α] [Neg α] [OfNat α 0] [OfNat α 1]

def zero : Mat3 α := ⟨0, 0, 0, 0, 0, 0, 0, 0, 0⟩
def one : Mat3 α := ⟨1, 0, 0, 0, 1, 0, 0, 0, 1⟩
/-- `diag(a, b, c)` (the matrix `s` of `SVD`). -/
def diag (a b c : α) : Mat3 α := ⟨a, 0, 0, 0, b, 0, 0, 0, c⟩

/-- `NewMatrix3Columns(o.Scale(d.X), o.Scale(d.Y), o.Scale(d.Z))`: the matrix `o d^T`. -/
def piece (o d : V3 α) : Mat3 α :=
  ⟨o.x * d.x, o.x * d.y, o.x * d.z, o.y * d.x, o.y * d.y, o.y * d.z, o.z * d.x, o.z * d.y, o.z * d.z⟩

/-- `for i, x := range piece { covariance[i] += x * weight }`. -/
def addScaled (acc pc : Mat3 α) (w : α) : Mat3 α :=
  ⟨acc.m0 + pc.m0 * w, acc.m1 + pc.m1 * w, acc.m2 + pc.m2 * w, acc.m3 + pc.m3 * w, acc.m4 + pc.m4 * w,
   acc.m5 + pc.m5 * w, acc.m6 + pc.m6 * w, acc.m7 + pc.m7 * w, acc.m8 + pc.m8 * w⟩

/-- The covariance matrix of vertex `i` in `ARAP.rotations`; `row` = `neighbors[i]` zipped with
`rotWeights[i]`, `p` the original and `y` the current coordinates. -/
def covRow (p y : Nat → V3 α) (i : Nat) (row : List (Nat × α)) : Mat3 α :=
  row.foldl (fun acc nw => addScaled acc (piece (sub (p nw.1) (p i)) (sub (y nw.1) (y i))) nw.2) zero

/-- `Matrix3.Mul`. -/
def mul (m n : Mat3 α) : Mat3 α :=
  ⟨m.m0 * n.m0 + m.m1 * n.m3 + m.m2 * n.m6, m.m0 * n.m1 + m.m1 * n.m4 + m.m2 * n.m7, m.m0 * n.m2 + m.m1 * n.m5 + m.m2 * n.m8,
   m.m3 * n.m0 + m.m4 * n.m3 + m.m5 * n.m6, m.m3 * n.m1 + m.m4 * n.m4 + m.m5 * n.m7, m.m3 * n.m2 + m.m4 * n.m5 + m.m5 * n.m8,
   m.m6 * n.m0 + m.m7 * n.m3 + m.m8 * n.m6, m.m6 * n.m1 + m.m7 * n.m4 + m.m8 * n.m7, m.m6 * n.m2 + m.m7 * n.m5 + m.m8 * n.m8⟩

/-- `Matrix3.Transpose`. -/
def transpose (m : Mat3 α) : Mat3 α := ⟨m.m0, m.m3, m.m6, m.m1, m.m4, m.m7, m.m2, m.m5, m.m8⟩

/-- `Matrix3.Det`. -/
def det (m : Mat3 α) : α :=
  m.m0 * (m.m4 * m.m8 - m.m5 * m.m7) - m.m1 * (m.m3 * m.m8 - m.m5 * m.m6) + m.m2 * (m.m3 * m.m7 - m.m4 * m.m6)

/-- `u[idx] *= -1; u[idx+3] *= -1; u[idx+6] *= -1`: column `idx` of `u` negated. -/
def negCol (idx : Nat) (u : Mat3 α) : Mat3 α :=
  match idx with
  | 0 => { u with m0 := u.m0 * -1, m3 := u.m3 * -1, m6 := u.m6 * -1 }
  | 1 => { u with m1 := u.m1 * -1, m4 := u.m4 * -1, m7 := u.m7 * -1 }
  | _ => { u with m2 := u.m2 * -1, m5 := u.m5 * -1, m8 := u.m8 * -1 }

/-- Column `k` of a matrix. -/
def col (m : Mat3 α) (k : Nat) : V3 α :=
  match k with
  | 0 => ⟨m.m0, m.m3, m.m6⟩
  | 1 => ⟨m.m1, m.m4, m.m7⟩
  | _ => ⟨m.m2, m.m5, m.m8⟩

variable [LT α] [DecidableLT α]

/-- The tail of the loop body of `ARAP.rotations` after `covariance.SVD(&u, &s, &v)`:
`rot := v u^T; if rot.Det() < 0 { negate column 2 of u; rot = v u^T }`. -/
def rotOf (u v : Mat3 α) : Mat3 α :=
  let rot := mul v (transpose u)
  if det rot < 0 then mul v (transpose (negCol 2 u)) else rot

/-- `ARAP.rotations` with the SVD as an oracle (`svd cov = (u, v)`). -/
def rotations (svd : Mat3 α → Mat3 α × Mat3 α) (n : Nat) (rows : Nat → List (Nat × α)) (p y : Nat → V3 α) : List (Mat3 α) :=
  (List.range n).map fun i => let uv := svd (covRow p y i (rows i)); rotOf uv.1 uv.2

end Defs

end M3d.ArapRot
