import M3d.Model.Mesh
/-!
Model of `Mesh.Iterate`, `Mesh.IterateSorted` and `Mesh.IterateVertices` (templates/mesh.template,
both the 2-D and the 3-D instance) with a callback that MUTATES the mesh while the iteration runs.

```go
func (m *Mesh) IterateSorted(f func(*Triangle), cmp func(f1, f2 *Triangle) bool) {
	all := m.TriangleSlice()            // snapshot
	if cmp != nil { sort.Slice(all, …) }
	for _, face := range all {
		if m.faces[face] {              // re-check: still a member when reached?
			f(face)                     // may Add / Remove
		}
	}
}
func (m *Mesh) IterateVertices(f func(c Coord3D)) {
	v2f := m.getVertexToFace()
	for _, c := range m.VertexSlice() { // snapshot of the index keys
		if _, ok := v2f.Load(c); ok {   // re-check
			f(c)
		}
	}
}
```

The callback is a parameter: `script k` is the list of `Add`/`Remove` calls it performs during its
`k`-th invocation (`k` counts invocations, not snapshot positions).  The snapshot order is a
parameter too (`snap`): the sorted order for `IterateSorted` with a comparator, Go's map order
otherwise.  Core-only.
-/
namespace M3d.Mesh
open M3d.FastMap

/-- One mutation performed by an iteration callback. -/
inductive IterAct where
  | add (f : Nat)
  | rem (f : Nat)
deriving Repr, DecidableEq

/-- The generic loop `for x in snap { if vis(state, x) { callback } }`: `step s k` is the effect
of the `k`-th callback invocation on the state.  Returns the final state and the elements handed
to the callback, in order. -/
def iterGen {σ : Type} (vis : σ → Nat → Bool) (step : σ → Nat → σ) :
    List Nat → σ → Nat → σ × List Nat
  | [], s, _ => (s, [])
  | x :: rest, s, k =>
    if vis s x then
      let r := iterGen vis step rest (step s k) (k + 1)
      (r.1, x :: r.2)
    else iterGen vis step rest s k

/-- The state at the moment the `i`-th callback invocation (counted from the current one, whose
index is `k`) starts: `i` invocations have happened. -/
def timeline {σ : Type} (step : σ → Nat → σ) : σ → Nat → Nat → σ
  | s, _, 0 => s
  | s, k, i + 1 => timeline step (step s k) (k + 1) i

/-- What a callback invocation does to the mesh: its `Add` / `Remove` calls in order. -/
def applyActs (h : Nat → UInt64) (tri : Nat → Tri) (m : Mesh) (acts : List IterAct) : Mesh :=
  acts.foldl (fun m a => match a with
    | .add f => m.add h tri f
    | .rem f => m.remove h tri f) m

/-- `Mesh.IterateSorted(f, cmp)` / `Mesh.Iterate(f)` on the snapshot `snap`. -/
def Mesh.iterate (h : Nat → UInt64) (tri : Nat → Tri) (script : Nat → List IterAct)
    (snap : List Nat) (m : Mesh) : Mesh × List Nat :=
  iterGen (fun m x => decide (x ∈ m.faces)) (fun m k => applyActs h tri m (script k)) snap m 0

/-- The re-check of `IterateVertices`: is the vertex still a key of the (built) index? -/
def Mesh.hasVertex (h : Nat → UInt64) (m : Mesh) (p : Nat) : Bool :=
  match m.index with
  | some ix => (load h ix p).isSome
  | none => false

/-- `Mesh.IterateVertices(f)` on the snapshot `snap` of the index keys; the index has been forced
by the caller (`withIndex`), `Add`/`Remove` keep it up to date in place. -/
def Mesh.iterateVerts (h : Nat → UInt64) (tri : Nat → Tri) (script : Nat → List IterAct)
    (snap : List Nat) (m : Mesh) : Mesh × List Nat :=
  iterGen (fun m p => m.hasVertex h p) (fun m k => applyActs h tri m (script k)) snap
    (m.withIndex h tri).1 0

/-- The snapshot of `IterateSorted` with the comparator "position in `ord`" (`ord` lists every
face once): the current faces in `ord` order. -/
def sortedSnap (ord : List Nat) (faces : List Nat) : List Nat :=
  ord.filter fun f => decide (f ∈ faces)

/-! ### Specification level: the same loop on a bare list of faces (no index at all) -/

/-- `Add` / `Remove` on a plain duplicate-free list of faces. -/
def specActs (faces : List Nat) (acts : List IterAct) : List Nat :=
  acts.foldl (fun fs a => match a with
    | .add f => if f ∈ fs then fs else fs ++ [f]
    | .rem f => fs.filter (· ≠ f)) faces

/-- The iteration as the plain set of faces would answer it: a snapshot element is visited iff it
is a current member when it is reached. -/
def specIterate (script : Nat → List IterAct) (snap : List Nat) (faces : List Nat) :
    List Nat × List Nat :=
  iterGen (fun fs x => decide (x ∈ fs)) (fun fs k => specActs fs (script k)) snap faces 0

/-- The vertex iteration as the plain set of faces would answer it: a snapshot vertex is visited
iff it is a corner of some current face when it is reached. -/
def specIterateVerts (tri : Nat → Tri) (script : Nat → List IterAct) (snap : List Nat)
    (faces : List Nat) : List Nat × List Nat :=
  iterGen (fun fs p => decide (p ∈ specVertices tri fs)) (fun fs k => specActs fs (script k))
    snap faces 0

/-! ### Rebuilding a snapshot order from an observed visit sequence

Go's map order is not observable, so for the unsorted iterations the harness reports the visit
sequence `V` it saw and the driver looks for a snapshot order that explains it: the visited
elements in the observed order, and every unvisited element of the snapshot at the first moment at
which the loop would skip it (at the very end if there is no such moment — then the model visits
it and the outputs differ).  The model is then run on that order. -/

/-- The first moment `i ≤ n` at which the loop would skip `x` (`n` if there is none). -/
def firstSkip {σ : Type} (vis : σ → Nat → Bool) (step : σ → Nat → σ) (s : σ) (n x : Nat) : Nat :=
  ((List.range (n + 1)).find? fun i => !(vis (timeline step s 0 i) x)).getD n

/-- Before the `i`-th visit come the unvisited elements whose slot is `i`; after the last visit
all the remaining ones. -/
def explainAux (unvisited : List Nat) (slot : Nat → Nat) : Nat → List Nat → List Nat
  | i, [] => unvisited.filter fun x => decide (i ≤ slot x)
  | i, v :: vs =>
    (unvisited.filter fun x => slot x == i) ++ v :: explainAux unvisited slot (i + 1) vs

def explainSnap {σ : Type} (vis : σ → Nat → Bool) (step : σ → Nat → σ) (s : σ)
    (univ V : List Nat) : List Nat :=
  explainAux (univ.filter fun x => !(V.contains x)) (firstSkip vis step s V.length) 0 V

end M3d.Mesh
