/-!
# `model3d.ProfileMesh` after the triangulation (model3d/mesh.go) — core-only

`ProfileMesh(m2d, minZ, maxZ)` triangulates the profile (`model2d.TriangulateMesh`, a parameter `T` here: any list of
triangles over any vertex type `V`), adds every triangle at `minZ` in its own vertex order and at `maxZ` with the first
two vertices swapped, and then, for every triangle `t` at `minZ` and `i = 0,1,2`, with `seg = (t[(i+1)%3], t[i])`: if
exactly ONE triangle of the mesh contains both ends (`len(m.Find(seg[0], seg[1])) == 1`; for `minZ ≠ maxZ` only
triangles of the bottom cap can), `AddQuad(seg[0], seg[1], seg[1]↑, seg[0]↑)` = the triangles `{p1,p2,p4}, {p2,p3,p4}`.
A 3-D vertex is a profile vertex with a flag (`false` = at `minZ`, `true` = at `maxZ`).  `Mesh.Iterate` runs over a
snapshot, so the walls added on the way are not visited, and a wall contains both ends of its own edge only.
-/
namespace M3d.ProfileMesh

variable {V : Type} [DecidableEq V]

abbrev Tri (A : Type) := A × A × A

def bottom (t : Tri V) : Tri (V × Bool) := ((t.1, false), (t.2.1, false), (t.2.2, false))
def top (t : Tri V) : Tri (V × Bool) := ((t.2.1, true), (t.1, true), (t.2.2, true))

/-- the two caps -/
def caps (T : List (Tri V)) : List (Tri (V × Bool)) := T.flatMap fun t => [bottom t, top t]

/-- `seg` for `i = 0, 1, 2` -/
def segs (t : Tri V) : List (V × V) := [(t.2.1, t.1), (t.2.2, t.2.1), (t.1, t.2.2)]

def hasV (t : Tri V) (p : V) : Bool := decide (p = t.1) || decide (p = t.2.1) || decide (p = t.2.2)

/-- `len(m.Find(a, b))` among the triangles of the bottom cap -/
def edgeUse (T : List (Tri V)) (a b : V) : Nat := T.countP fun t => hasV t a && hasV t b

/-- `AddQuad(seg[0], seg[1], p3, p4)` -/
def wall (s : V × V) : List (Tri (V × Bool)) :=
  [((s.1, false), (s.2, false), (s.1, true)), ((s.2, false), (s.2, true), (s.1, true))]

/-- the edges that get a wall, in the code's order -/
def wallEdges (T : List (Tri V)) : List (V × V) :=
  T.flatMap fun t => (segs t).filter fun s => edgeUse T s.1 s.2 == 1

/-- the mesh `ProfileMesh` returns (as a list: `Mesh.Add` of distinct triangles) -/
def profileMesh (T : List (Tri V)) : List (Tri (V × Bool)) := caps T ++ (wallEdges T).flatMap wall

end M3d.ProfileMesh
