import M3d.Model.MarchingMesh
/-!
# Which lattice edges carry a mesh vertex, and on which side each lattice point lies
(core-only definitions used by the C02 theorems about `mcMesh` / `msMesh`)

A mesh vertex of the whole-lattice model is a position in doubled lattice coordinates (`GV`): the
midpoint of the lattice edge from point `p` along axis `k` is `2p + e_k`.  All cells round a lattice
edge name its vertex by the same `GV`, so "one vertex per edge" is built into vertex identity, as
it is in the Go mesh (vertices are identified by coordinates and every cell computes the same
midpoint `a.Mid(b)` from the same two lattice points).
-/
namespace M3d.Marching

def meshVerts (m : List (GV × GV × GV)) : List GV := m.flatMap fun t => [t.1, t.2.1, t.2.2]
def meshVerts2 (m : List (GV2 × GV2)) : List GV2 := m.flatMap fun t => [t.1, t.2]

def unit (k j : Nat) : Nat := if k = j then 1 else 0

/-- The neighbour of lattice point `p` along axis `k`. -/
def step3 (p : Nat × Nat × Nat) (k : Nat) : Nat × Nat × Nat := (p.1 + unit k 0, p.2.1 + unit k 1, p.2.2 + unit k 2)
def step2 (p : Nat × Nat) (k : Nat) : Nat × Nat := (p.1 + unit k 0, p.2 + unit k 1)

/-- Doubled coordinates of the midpoint of the lattice edge `p — step3 p k`. -/
def edgeVertex (p : Nat × Nat × Nat) (k : Nat) : GV := (2 * p.1 + unit k 0, 2 * p.2.1 + unit k 1, 2 * p.2.2 + unit k 2)
def edgeVertex2 (p : Nat × Nat) (k : Nat) : GV2 := (2 * p.1 + unit k 0, 2 * p.2 + unit k 1)

/-- `p` is a point of the lattice with `nx × ny × nz` cells. -/
def inBox3 (nx ny nz : Nat) (p : Nat × Nat × Nat) : Prop := p.1 ≤ nx ∧ p.2.1 ≤ ny ∧ p.2.2 ≤ nz
def inBox2 (nx ny : Nat) (p : Nat × Nat) : Prop := p.1 ≤ nx ∧ p.2 ≤ ny

/-- The configuration number built from eight (four) corner labels, as `cellCfg` does. -/
def cfgOf (n : Nat) (g : Nat → Bool) : Nat :=
  (List.range n).foldl (fun acc c => if g c then acc + 2 ^ c else acc) 0

/-- Everything the lift needs to know about a cube edge `(a, b)`, closed over the 64 corner pairs:
with `c = min a b` the lower corner and `k` the axis, `b = c + 2^k`-wise offsets add up so that the
midpoint named by `gvOf` is `edgeVertex` of the lower corner. -/
def cubeEdgeFacts (a b : Nat) : Bool :=
  !isCubeEdge a b ||
  (let c := min a b; let d := max a b
   let k := if (a ^^^ b) == 1 then 0 else if (a ^^^ b) == 2 then 1 else 2
   c < 8 && d < 8 && cornerOff c k == 0 &&
   (List.range 3).all fun j =>
     cornerOff a j + cornerOff b j == 2 * cornerOff c j + unit k j &&
     cornerOff d j == cornerOff c j + unit k j)

def edgeAxis (a b : Nat) : Nat := if (a ^^^ b) == 1 then 0 else if (a ^^^ b) == 2 then 1 else 2

def squareEdgeFacts (a b : Nat) : Bool :=
  !isSquareEdge a b ||
  (let c := min a b; let d := max a b
   let k := edgeAxis a b
   c < 4 && d < 4 && k < 2 && cornerOff c k == 0 &&
   (List.range 2).all fun j =>
     cornerOff a j + cornerOff b j == 2 * cornerOff c j + unit k j &&
     cornerOff d j == cornerOff c j + unit k j)

/-- The cube edge of a cell whose lower corner has offsets `(o0,o1,o2)` and which runs along `k`
is one of the twelve `cubeEdges`. -/
def cornerOfOffsets (o0 o1 o2 : Nat) : Nat := o0 + 2 * o1 + 4 * o2

/-! ### the normal-sign rule of `msSearch`

`msSearch` takes `mesh.Find(c)[0].Normal()` — the normal of *some* segment at the vertex — and
treats the lower end of the vertex's lattice edge as the contained one iff the normal's component
along the edge axis is positive.  `Segment.Normal()` is `(−Δy, Δx)/‖·‖` … as model2d computes it:
`delta := s[1] − s[0]; Coord{X: -delta.Y, Y: delta.X}.Normalize()`.  In doubled cell coordinates
the segment from square edge `(a0,a1)` to `(b0,b1)` has `Δ = (off b0 + off b1) − (off a0 + off a1)`. -/

/-- Sign (as an `Int`) of the normal component along axis `k` of the row segment `[a0,a1,b0,b1]`. -/
def segNormalAxis (k a0 a1 b0 b1 : Nat) : Int :=
  let dx : Int := ((cornerOff b0 0 + cornerOff b1 0 : Nat) : Int) - ((cornerOff a0 0 + cornerOff a1 0 : Nat) : Int)
  let dy : Int := ((cornerOff b0 1 + cornerOff b1 1 : Nat) : Int) - ((cornerOff a0 1 + cornerOff a1 1 : Nat) : Int)
  if k = 0 then -dy else dx

/-- For every segment of the row and both of its end vertices: the component of the segment's
normal along the vertex's edge axis is non-zero, and it is positive exactly when the LOWER end of
that lattice edge is the contained one — so the rule in `msSearch` makes `truePoint` the contained
end whichever segment `Find` returns first. -/
def msNormalRule (cfg : Nat) (row : List (List Nat)) : Bool :=
  row.all fun r => match r with
    | [a0, a1, b0, b1] =>
      let chk := fun (p q : Nat) =>
        let k := edgeAxis p q
        let n := segNormalAxis k a0 a1 b0 b1
        n != 0 && (decide (0 < n) == inside cfg (min p q))
      chk a0 a1 && chk b0 b1
    | _ => false

end M3d.Marching
