import M3d.Model.Numeric
/-!
`numerical/least_squares.go`: `LeastSquaresReg3` / `LeastSquares3` (C17).  Core-only, generic over the scalar.

The Go function (1) assembles the normal equations `leftSide = AᵀA`, `rightSide = Aᵀb` row by row, (2) adds the
ridge penalty `lambda` to the DIAGONAL entries `0, 4, 8`, (3) calls the symmetric eigen-decomposition
`symEigDecomp` (cubic formula through `cmplx.Pow`, outside the model: a function PARAMETER `eig`, constrained in
the theorems by its documented contract `m = v·s·vᵀ`), (4) inverts the eigenvalues above `epsilon`, zeroes the
others, and (5) returns `v·s⁺·vᵀ·rightSide`.
-/
namespace M3d.Num.Lsq
open M3d.Num

variable {α : Type} [Add α] [Sub α] [Mul α] [Div α] [Neg α] [NatCast α]

/-- The nine products one row `v` adds to `leftSide`: `leftSide[3j+i] += v[i]*v[j]` (`j` outer, `i` inner). -/
def rowOuter (v : V3 α) : M3 α :=
  ⟨v.x * v.x, v.y * v.x, v.z * v.x,
   v.x * v.y, v.y * v.y, v.z * v.y,
   v.x * v.z, v.y * v.z, v.z * v.z⟩

/-- One round of the assembly loop: `rightSide = rightSide.Add(v.Scale(b[i]))`, then the nine `+=`. -/
def step (st : M3 α × V3 α) (row : V3 α × α) : M3 α × V3 α :=
  (st.1.add (rowOuter row.1), st.2.add (row.1.scale row.2))

def zeroM : M3 α :=
  let z := ((0 : Nat) : α); ⟨z, z, z, z, z, z, z, z, z⟩
def zeroV : V3 α :=
  let z := ((0 : Nat) : α); ⟨z, z, z⟩

/-- `leftSide[0] += lambda; leftSide[4] += lambda; leftSide[8] += lambda`. -/
def addDiag (m : M3 α) (lambda : α) : M3 α :=
  { m with m0 := m.m0 + lambda, m4 := m.m4 + lambda, m8 := m.m8 + lambda }

/-- `leftSide`, `rightSide` as handed to `symEigDecomp` / used in the last line. -/
def normal (rows : List (V3 α × α)) (lambda : α) : M3 α × V3 α :=
  let st := rows.foldl step (zeroM, zeroV)
  (addDiag st.1 lambda, st.2)

variable [LT α] [DecidableLT α]

/-- `if s[i*4] > epsilon { s[i*4] = 1 / s[i*4] } else { s[i*4] = 0 }`. -/
def pinvEntry (eps x : α) : α := if eps < x then ((1 : Nat) : α) / x else ((0 : Nat) : α)

/-- The loop over the three diagonal entries (the other entries of `s` stay as `symEigDecomp` left them). -/
def pinvDiag (eps : α) (s : M3 α) : M3 α :=
  { s with m0 := pinvEntry eps s.m0, m4 := pinvEntry eps s.m4, m8 := pinvEntry eps s.m8 }

/-- `v.Mul(&s).Mul(v.Transpose()).MulColumn(rightSide)` after the eigenvalues were inverted. -/
def solveWith (s v : M3 α) (eps : α) (r : V3 α) : V3 α :=
  ((v.mul (pinvDiag eps s)).mul v.transpose).mulColumn r

/-- `LeastSquaresReg3(a, b, lambda, epsilon)`; `eig m = (s, v)` stands for `m.symEigDecomp(&s, &v)`. -/
def lsqReg3 (eig : M3 α → M3 α × M3 α) (rows : List (V3 α × α)) (lambda eps : α) : V3 α :=
  let n := normal rows lambda
  let sv := eig n.1
  solveWith sv.1 sv.2 eps n.2

/-- `LeastSquares3(a, b, epsilon) = LeastSquaresReg3(a, b, 0, epsilon)`. -/
def lsq3 (eig : M3 α → M3 α × M3 α) (rows : List (V3 α × α)) (eps : α) : V3 α :=
  lsqReg3 eig rows ((0 : Nat) : α) eps

/-- The three rows `√λ·e₁, √λ·e₂, √λ·e₃` with right-hand side 0 (ridge regression as an augmented
least-squares problem). -/
def ridgeRows (sq : α) : List (V3 α × α) :=
  let z := ((0 : Nat) : α)
  [(⟨sq, z, z⟩, z), (⟨z, sq, z⟩, z), (⟨z, z, sq⟩, z)]

end M3d.Num.Lsq
