import M3d.Model.Triangulate
/-!
# C14 — `model3d.ReadOFF`: the loop over the faces of a file

Core Lean only.

```go
triangles := make([]*Triangle, 0, capacity)          // capacity = min(NumFaces, maxImportPrealloc)
for i := 0; i < o.NumFaces(); i++ {
    face, err := o.ReadFace();               if err != nil { return nil, err }
    faceTris, err := triangulateFileFace(poly); if err != nil { return nil, err }
    triangles = append(triangles, faceTris...)
}
return triangles, nil
```

`readOffFaces tri faces` is that loop with the per-face routine `tri` (`triangulateFileFace`, `none` =
an error) as a parameter and the faces of the file as a list: the triangles of ALL faces, in file
order; the pre-allocated capacity is not part of the value.  `M3d.C14.readOFF_every_face` states what
the loop returns for files with any number of faces.

A file of the `offmesh` harness kind is a small TILE (vertex table + faces as lists of vertex ids)
repeated `R` times along a vector `T`: `copyPt r T p = p + r·T` are the coordinates of copy `r`.
The drop-a-coordinate charts `chartXY/YZ/ZX` are the exact affine charts in which the driver
evaluates the certificate of a planar face; a translation of space is a translation in each of them
(`M3d.C14.off_copy_cert_transfer`).
-/
namespace M3d.Tri

/-- The face loop of `ReadOFF`. -/
def readOffFaces {F T : Type} (tri : F → Option (List T)) : List F → Option (List T)
  | [] => some []
  | f :: fs =>
    match tri f with
    | none => none
    | some ts => (readOffFaces tri fs).map (ts ++ ·)

section Scalar
variable {α : Type}

/-- Translation of space by `t`. -/
def translate3 [Add α] (t p : P3 α) : P3 α := ⟨p.x + t.x, p.y + t.y, p.z + t.z⟩

/-- The point `p` of the tile in copy number `r` (as a scalar): `p + r·T`. -/
def copyPt [Add α] [Mul α] (r : α) (T p : P3 α) : P3 α := ⟨p.x + r * T.x, p.y + r * T.y, p.z + r * T.z⟩

/-- The three drop-a-coordinate charts (cyclic, so that each is orientation preserving seen from the
positive side of the dropped axis). -/
def chartXY (p : P3 α) : P2 α := ⟨p.x, p.y⟩
def chartYZ (p : P3 α) : P2 α := ⟨p.y, p.z⟩
def chartZX (p : P3 α) : P2 α := ⟨p.z, p.x⟩

end Scalar

end M3d.Tri
