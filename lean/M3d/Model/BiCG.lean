import M3d.Model.Numeric
/-!
# C17 model: `numerical/cg.go` — `BiCGSTAB` and `BiCGSTABSolver`  (core Lean only, executable)

Vectors are lists (`numerical.Vec`); the vector operations are the ones `VecN.*` models (`Vec.Add/Sub/Scale/Dot/Norm`,
tied by the `vec` kinds and `KernelsTiePoly`), here in their total form (equal lengths).  The linear operator `Op` is a
function parameter.  The struct fields of `BiCGSTAB` are the fields of `St`; `Iter` returns the new struct (its Go
result is the field `x`).
-/
namespace M3d.BiCG
open M3d.Num

variable {α : Type}

section Ops
variable [Add α] [Sub α] [Mul α] [Div α] [NatCast α]

/-- `Vec.Add` on vectors of equal length. -/
def vadd (v w : List α) : List α := List.zipWith (· + ·) v w
/-- `Vec.Sub` on vectors of equal length. -/
def vsub (v w : List α) : List α := List.zipWith (· - ·) v w
/-- `Vec.Dot`: `res += x*y` starting from 0. -/
def vdot (v w : List α) : α := (v.zip w).foldl (fun r xy => r + xy.1 * xy.2) ((0 : Nat) : α)

/-- A dense operator `v ↦ M·v`, row by row, `sum += M[i][j]*v[j]` from 0 (the closure the harness passes as `Op`). -/
def denseOp (rows : List (List α)) (v : List α) : List α := rows.map fun row => vdot row v

/-- The fields of `numerical.BiCGSTAB` (without `Op` and `B`). -/
structure St (α : Type) where
  x : List α
  r : List α
  rHat : List α
  rho : α
  alpha : α
  w : α
  v : List α
  p : List α
  term : Bool

/-- `NewBiCGSTAB(op, b, initGuess)`; `none` = `nil` initial guess. -/
def init (op : List α → List α) (b : List α) (guess : Option (List α)) : St α :=
  let g := guess.getD (VecN.zeros b)
  let r := vsub b (op g)
  { x := g, r := r, rHat := r, rho := ((1 : Nat) : α), alpha := ((1 : Nat) : α), w := ((1 : Nat) : α),
    v := VecN.zeros b, p := VecN.zeros b, term := false }

variable [BEq α]

/-- `BiCGSTAB.Iter()`. -/
def iter (sqrt : α → α) (op : List α → List α) (s : St α) : St α :=
  if s.term then s
  else if VecN.norm sqrt s.r == ((0 : Nat) : α) then { s with term := true }
  else
    let rhoI := vdot s.rHat s.r
    let beta := (rhoI / s.rho) * (s.alpha / s.w)
    let pI := vadd s.r (VecN.scale (vsub s.p (VecN.scale s.v s.w)) beta)
    let vI := op pI
    let alpha := rhoI / vdot s.rHat vI
    let h := vadd s.x (VecN.scale pI alpha)
    let sv := vsub s.r (VecN.scale vI alpha)
    let t := op sv
    if VecN.norm sqrt t == ((0 : Nat) : α) then { s with alpha := alpha, term := true, x := h }
    else
      let wI := vdot t sv / vdot t t
      let xI := vadd h (VecN.scale sv wI)
      let rI := vsub sv (VecN.scale t wI)
      { x := xI, r := rI, rHat := s.rHat, rho := rhoI, alpha := alpha, w := wI, v := vI, p := pI, term := false }

def iterN (sqrt : α → α) (op : List α → List α) : Nat → St α → St α
  | 0, s => s
  | k + 1, s => iterN sqrt op k (iter sqrt op s)

/-- The error sums of `SolveLinearSystem`: `sqErr += e*e; absErr += |e|` over `op(solution).Sub(b)`. -/
def errSums (abs : α → α) (op : List α → List α) (b sol : List α) : α × α :=
  (vsub (op sol) b).foldl (fun (acc : α × α) e => (acc.1 + e * e, acc.2 + abs e)) (((0 : Nat) : α), ((0 : Nat) : α))

inductive SolveRes (α : Type) where
  /-- the loop ended: solution, number of `Iter()` calls, whether it ended through the tolerance test -/
  | done (sol : List α) (iters : Nat) (byTol : Bool)
  /-- `panic("NaN detected during solving")` -/
  | nanPanic (iters : Nat)

variable [LT α] [DecidableLT α]

/-- The loop of `BiCGSTABSolver.SolveLinearSystem`: `bound` more rounds at most (`MaxIters`, or the cap of the caller
when `MaxIters == 0`), `i` rounds done. -/
def solveLoop (sqrt abs : α → α) (isNaN : α → Bool) (op : List α → List α) (b : List α) (mse mae : α) :
    Nat → Nat → St α → SolveRes α
  | 0, i, s => .done s.x i false
  | bound + 1, i, s =>
    let s' := iter sqrt op s
    if mse == ((0 : Nat) : α) && mae == ((0 : Nat) : α) then solveLoop sqrt abs isNaN op b mse mae bound (i + 1) s'
    else
      let e := errSums abs op b s'.x
      if isNaN e.2 then .nanPanic (i + 1)
      else if e.1 < mse * ((b.length : Nat) : α) ∨ e.2 < mae * ((b.length : Nat) : α) then .done s'.x (i + 1) true
      else solveLoop sqrt abs isNaN op b mse mae bound (i + 1) s'

/-- `BiCGSTABSolver.SolveLinearSystem(op, b, initGuess)` with `MaxIters = bound > 0` (for `MaxIters == 0` the bound
is the caller's cap and reaching it means "still running"). -/
def solve (sqrt abs : α → α) (isNaN : α → Bool) (op : List α → List α) (b : List α) (guess : Option (List α))
    (bound : Nat) (mse mae : α) : SolveRes α :=
  if b.isEmpty then .done [] 0 false
  else solveLoop sqrt abs isNaN op b mse mae bound 0 (init op b guess)

end Ops

end M3d.BiCG
