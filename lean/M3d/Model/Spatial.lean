import M3d.Model.Prune
import M3d.Model.Box
/-!
# Models of the spatial indexes (C08) — core-only, executable

| Go (templates ⇒ model3d + model2d)                          | here |
|---|---|
| `sortBounders` (any comparison / sort algorithm)             | input `sorted : List (List Nat)` — one list of object ids per axis, each a permutation of the ids |
| `splitBounders` (flag by position, stable partition)         | `splitBounders` |
| `groupBounders` / `GroupBounders` / `GroupTriangles`         | `groupBounders` (axis choice = arbitrary oracle; `bestSplitAxis3/2` is the real one) |
| `newBVH` / `NewBVHAreaDensity`                               | `newBVH` (axis + split index = arbitrary oracle) producing a `Shape` |
| `GroupedTrianglesToCollider`, `GroupedCollidersToCollider`, `GroupedSegmentsToCollider`, `newMeshDistFunc` recursion `tris[:n/2]`, `tris[n/2:]` | `halve` producing a `Shape` |
| `NewJoinedCollider` (+ flattening of equal-bounds children in 3D) | `newJoined` on `Prune.Forest` |
| `BVHToCollider`, `BVHToObject`                               | `Shape.toForest` |
| `JoinedCollider.RayCollisions/FirstRayCollision/SphereCollision`, `joinedMultiCollider.*`, `JoinedObject.Cast`+`FilteredObject.Cast` | `Prune.Forest.collect/count/best/any` with the prefilters of `Model/Box.lean` (`joinedRay3`, …) |
| `meshDistFunc.Dist`                                          | `MDF.dist` |
| `NewCoordTree`/`newCoordTreeSorted`                          | `kdBuild` |
| `CoordTree.Contains/nearestNeighbor/knn/sphereCollision/Slice`, `knnResults` | `KD.contains/nn/knn/sphere/slice`, `knnInsert` |

Objects are ids (`Nat`); their behaviour is a record of functions (`Leaf3`, `Leaf2`), so that the
theorems hold for arbitrary leaves (triangles, segments, interpolated-normal triangles, nested
colliders, render objects).
-/
namespace M3d.Spatial
open M3d.Prune M3d.Box

/-! ## 1. Grouping and BVH construction (ids only) -/

/-- `splitBounders`: the objects in the first `mid` positions of the list for `axis` get
`Flag = true`; the list for `axis` is cut at `mid`, every other list is stably partitioned by the
flag.  (The Go code writes flagged objects to positions `0,1,…` and the others to `mid,mid+1,…`
of a fresh array and then cuts it at `mid`; the two coincide because the lists are permutations
of each other — `split_filter_length` in the lemmas.) -/
def splitBounders (sorted : List (List Nat)) (axis mid : Nat) : List (List Nat) × List (List Nat) :=
  let ax := sorted.getD axis []
  let flagged := ax.take mid
  let parts := sorted.zipIdx.map fun (l, i) =>
    if i = axis then (l.take mid, l.drop mid)
    else (l.filter (fun id => flagged.contains id), l.filter (fun id => !flagged.contains id))
  (parts.map (·.1), parts.map (·.2))

/-- `groupBounders`; the output slice is returned.  `fuel` ≥ number of objects. -/
def groupBounders (bestAxis : List (List Nat) → Nat) : Nat → List (List Nat) → List Nat
  | 0, _ => []
  | fuel + 1, sorted =>
      let l0 := sorted.getD 0 []
      let n := l0.length
      if n = 2 then l0
      else if n = 1 then l0
      else if n = 0 then []
      else
        let mid := n / 2
        let axis := bestAxis sorted
        let sep := splitBounders sorted axis mid
        groupBounders bestAxis fuel sep.1 ++ groupBounders bestAxis fuel sep.2

/-- Binary hierarchy of objects without bounds (`BVH[B]`; also the recursion shape of
`GroupedTrianglesToCollider` and `newMeshDistFunc`). -/
inductive Shape (ι : Type) where
  | leaf : ι → Shape ι
  | node : Shape ι → Shape ι → Shape ι
deriving DecidableEq, Repr

namespace Shape
variable {ι : Type}
def leaves : Shape ι → List ι
  | leaf i => [i]
  | node l r => leaves l ++ leaves r
def map {κ : Type} (f : ι → κ) : Shape ι → Shape κ
  | leaf i => leaf (f i)
  | node l r => node (map f l) (map f r)
end Shape

/-- `newBVH`: `split` returns the chosen axis and split index (in Go: the axis with the strictly
smallest score, the index from `areaDensityBVHSplit`).  `none` = the Go code panics
("empty sorted objects") or does not terminate. -/
def newBVH (split : List (List Nat) → Nat × Nat) : Nat → List (List Nat) → Option (Shape Nat)
  | 0, _ => none
  | fuel + 1, sorted =>
      let l0 := sorted.getD 0 []
      let n := l0.length
      if n = 0 then none
      else if n = 1 then some (.leaf (l0.getD 0 0))
      else if n = 2 then some (.node (.leaf (l0.getD 0 0)) (.leaf (l0.getD 1 0)))
      else
        let (axis, idx) := split sorted
        let sep := splitBounders sorted axis idx
        match newBVH split fuel sep.1, newBVH split fuel sep.2 with
        | some a, some b => some (.node a b)
        | _, _ => none

/-- The recursion `xs[:len/2]`, `xs[len/2:]` down to single elements. -/
def halveF {ι : Type} : Nat → List ι → Option (Shape ι)
  | 0, _ => none
  | fuel + 1, l =>
      match l with
      | [] => none
      | [a] => some (.leaf a)
      | _ :: _ :: _ =>
          let mid := l.length / 2
          match halveF fuel (l.take mid), halveF fuel (l.drop mid) with
          | some a, some b => some (.node a b)
          | _, _ => none

def halve {ι : Type} (l : List ι) : Option (Shape ι) := halveF l.length l

/-! ### The real axis oracle (`bestSplitAxis`, `multipleBoundsArea`, `boundsArea`) -/
section
variable {α : Type} [Add α] [Sub α] [Mul α] [LT α] [DecidableLT α] [OfNat α 0] [OfNat α 2]

/-- `boundsArea` (3D): `2 * (dx*(dy+dz) + dy*dz)`. -/
def boundsArea3 (b : Box3 α) : α :=
  let dx := b.max.x - b.min.x
  let dy := b.max.y - b.min.y
  let dz := b.max.z - b.min.z
  2 * (dx * (dy + dz) + dy * dz)

/-- `boundsArea` (2D): the perimeter `2 * (dx + dy)`. -/
def boundsArea2 (b : Box2 α) : α :=
  let dx := b.max.x - b.min.x
  let dy := b.max.y - b.min.y
  2 * (dx + dy)

/-- `multipleBoundsArea` on a non-empty list of boxes. -/
def multiArea {β : Type} (union : β → β → β) (area : β → α) (boxes : List β) : α :=
  match boxes with
  | [] => 0
  | b :: bs => area (bs.foldl union b)

/-- `bestSplitAxis`: first axis with the strictly smallest sum of the two half areas. -/
def bestSplitAxis {β : Type} (union : β → β → β) (area : β → α) (boxOf : Nat → β)
    (sorted : List (List Nat)) : Nat :=
  let mid := (sorted.getD 0 []).length / 2
  let areaFor := fun (l : List Nat) =>
    multiArea union area ((l.take mid).map boxOf) + multiArea union area ((l.drop mid).map boxOf)
  match sorted with
  | [] => 0
  | l :: ls =>
      (ls.zipIdx.foldl (fun (acc : Nat × α) (li : List Nat × Nat) =>
        let a := areaFor li.1
        if a < acc.2 then (li.2 + 1, a) else acc) (0, areaFor l)).1
end

/-! ### The real split oracle of `NewBVHAreaDensity` (`areaDensityBVHSplit` + the axis choice of `newBVH`) -/
section
variable {α β : Type} [Add α] [Mul α] [LT α] [DecidableLT α] [OfNat α 0]

/-- Running unions from the left: `[b0, b0∪b1, b0∪b1∪b2, …]` (`min = min.Min(t.Min); max = max.Max(t.Max)`). -/
def prefixUnions (union : β → β → β) : List β → List β
  | [] => []
  | b :: bs => (bs.foldl (fun (acc : β × List β) x => (union acc.1 x, union acc.1 x :: acc.2)) (b, [b])).2.reverse

/-- Running unions from the right (the loop that fills `cache`): entry `i` is the union of `faces[i:]`. -/
def suffixUnions (union : β → β → β) (l : List β) : List β := (prefixUnions union l.reverse).reverse

/-- `areaDensityBVHSplit(faces, cache)`: `boxes` are the bounds of `faces` in the order of one axis, `cnt` is
`float64(·)`.  For `i = 1 … len-2`: `score = area(faces[0..i]) * i + area(faces[i+1..]) * (len-i-1)`; the first
strictly smallest score wins (`score < bestScore || i == 1`), the returned index is `i + 1`.  Fewer than three
faces: the loop does not run, `(0, 0)`. -/
def areaDensitySplit (union : β → β → β) (area : β → α) (cnt : Nat → α) (boxes : List β) : Nat × α :=
  match boxes with
  | [] => (0, 0)
  | b0 :: _ =>
      let m := boxes.length
      let pre := prefixUnions union boxes
      let suf := suffixUnions union boxes
      (List.range' 1 (m - 2)).foldl (fun (acc : Nat × α) i =>
        let score := area (pre.getD i b0) * cnt i + area (suf.getD (i + 1) b0) * cnt (m - i - 1)
        if score < acc.2 ∨ i = 1 then (i + 1, score) else acc) (0, 0)

/-- The split `newBVH` performs with `areaDensityBVHSplit`: the splitter runs on every axis; 3D: x if its score
is strictly below both others, else y if strictly below both others, else z; 2D: x if strictly below y, else y. -/
def bvhSplit (union : β → β → β) (area : β → α) (cnt : Nat → α) (boxOf : Nat → β)
    (sorted : List (List Nat)) : Nat × Nat :=
  match sorted.map (fun l => areaDensitySplit union area cnt (l.map boxOf)) with
  | [x, y] => if x.2 < y.2 then (0, x.1) else (1, y.1)
  | [x, y, z] =>
      if x.2 < y.2 ∧ x.2 < z.2 then (0, x.1)
      else if y.2 < x.2 ∧ y.2 < z.2 then (1, y.1)
      else (2, z.1)
  | _ => (0, 1)
end

/-! ## 2. Joined colliders / joined objects -/
section
variable {ι β : Type}

/-- Bounds of the top-level trees of a forest: `other[0].Min()`, then `.Min(c.Min())` …  -/
def topBounds (boxOf : ι → β) (union : β → β → β) : Forest ι β → Option β → Option β
  | .nil, acc => acc
  | .leaf i r, acc =>
      topBounds boxOf union r (match acc with | none => some (boxOf i) | some b => some (union b (boxOf i)))
  | .node b _ r, acc =>
      topBounds boxOf union r (match acc with | none => some b | some b0 => some (union b0 b))

/-- The flattening loop of the 3D `NewJoinedCollider`: a child that is itself a joined collider
with exactly the new bounds is replaced by its children. -/
def flattenInto [DecidableEq β] (bx : β) : Forest ι β → Forest ι β
  | .nil => .nil
  | .leaf i r => .leaf i (flattenInto bx r)
  | .node b c r => if b = bx then Forest.append c (flattenInto bx r) else .node b c (flattenInto bx r)

/-- `NewJoinedCollider(children)` (`flatten = true` in model3d, `false` in model2d and for
`BVHToObject`).  An empty child list gives the empty forest (model2d: a collider that answers
nothing; model3d would panic). -/
def newJoined [DecidableEq β] (flatten : Bool) (boxOf : ι → β) (union : β → β → β)
    (children : Forest ι β) : Forest ι β :=
  match topBounds boxOf union children none with
  | none => .nil
  | some bx => .node bx (if flatten then flattenInto bx children else children) .nil

/-- `BVHToCollider` / `BVHToObject`; together with `halve` also `GroupedTrianglesToCollider`,
`GroupedCollidersToCollider`, `GroupedSegmentsToCollider`. -/
def Shape.toForest [DecidableEq β] (flatten : Bool) (boxOf : ι → β) (union : β → β → β) :
    Shape ι → Forest ι β
  | .leaf i => .leaf i .nil
  | .node l r =>
      newJoined flatten boxOf union
        (Forest.append (Shape.toForest flatten boxOf union l) (Shape.toForest flatten boxOf union r))

/-- `BVHToCollider` / `BVHToObject` on a `BVH[B]` whose branches have ANY number of children
("a leaf, or a branch with two or more children"; hand-built / externally grouped hierarchies).
The BVH is an ordered forest without bounds (`Forest ι Unit`, first-child / next-sibling: `node ()
children rest` is a branch followed by its siblings); the function converts a list of sibling BVH
nodes into the list of their colliders / objects: every branch becomes
`NewJoinedCollider(converted children)` resp. `FilteredObject{JoinedObject{converted children},
BoundsRect}` — the loop `for _, x := range b.Branch { other = append(other, convert(x)) }`. -/
def bvhJoin [DecidableEq β] (flatten : Bool) (boxOf : ι → β) (union : β → β → β) :
    Forest ι Unit → Forest ι β
  | .nil => .nil
  | .leaf i r => .leaf i (bvhJoin flatten boxOf union r)
  | .node _ c r =>
      Forest.append (newJoined flatten boxOf union (bvhJoin flatten boxOf union c))
        (bvhJoin flatten boxOf union r)

/-- `GroupedTrianglesToCollider(tris)`; the empty slice gives `nullCollider` (empty forest). -/
def grouped [DecidableEq β] (flatten : Bool) (boxOf : ι → β) (union : β → β → β) (l : List ι) :
    Forest ι β :=
  match halve l with
  | none => .nil
  | some s => s.toForest flatten boxOf union
end

/-- A ray hit: the parameter along the ray and an opaque payload (normal, extra, material). -/
structure Hit (α : Type) where
  scale : α
  tag : Nat
deriving DecidableEq, Repr

/-- Behaviour of a 3D leaf (triangle, nested collider, render object): a record of functions. -/
structure Leaf3 (α : Type) where
  id : Nat                                    -- identity of the object (the pointer)
  box : Box3 α
  ray : V3 α → V3 α → List (Hit α)           -- RayCollisions (callback order)
  first : V3 α → V3 α → Option (Hit α)        -- FirstRayCollision / Object.Cast
  sphere : V3 α → α → Bool                    -- SphereCollision
  seg : V3 α → V3 α → Bool                    -- SegmentCollision (two end points)
  rect : Box3 α → Bool                        -- RectCollision
  tri : V3 α → V3 α → V3 α → List Nat         -- TriangleCollisions (opaque segment ids)

/-- Behaviour of a 2D leaf (segment, nested collider). -/
structure Leaf2 (α : Type) where
  id : Nat
  box : Box2 α
  ray : V2 α → V2 α → List (Hit α)
  first : V2 α → V2 α → Option (Hit α)
  sphere : V2 α → α → Bool                    -- CircleCollision
  seg : V2 α → V2 α → Bool
  rect : Box2 α → Bool

section
variable {α : Type} [Add α] [Sub α] [Mul α] [Div α] [Neg α] [LT α] [LE α]
  [DecidableLT α] [DecidableLE α] [DecidableEq α] [OfNat α 0] [OfNat α 1]

/-- `collision.Scale < closest.Scale` -/
def closer (h c : Hit α) : Bool := decide (h.scale < c.scale)

/-- `JoinedCollider.RayCollisions`: the hits passed to the callback, in order. -/
def joinedRay3 (o d : V3 α) (f : Forest (Leaf3 α) (Box3 α)) : List (Hit α) :=
  f.collect (fun b => rayAdmits (rayBounds3 o d b)) (fun l => l.ray o d)
/-- … and its return value (the count). -/
def joinedRayCount3 (o d : V3 α) (f : Forest (Leaf3 α) (Box3 α)) : Nat :=
  f.count (fun b => rayAdmits (rayBounds3 o d b)) (fun l => (l.ray o d).length)
/-- `JoinedCollider.FirstRayCollision`; also `FilteredObject{JoinedObject}.Cast` of `BVHToObject`. -/
def joinedFirst3 (o d : V3 α) (f : Forest (Leaf3 α) (Box3 α)) : Option (Hit α) :=
  f.best (fun b => rayAdmits (rayBounds3 o d b)) (fun l => l.first o d) closer none
/-- `JoinedCollider.SphereCollision`. -/
def joinedSphere3 (c : V3 α) (r : α) (f : Forest (Leaf3 α) (Box3 α)) : Bool :=
  f.any (fun b => sphereTouches3 c r b) (fun l => l.sphere c r)
/-- `joinedMultiCollider.SegmentCollision`. -/
def joinedSeg3 (p q : V3 α) (f : Forest (Leaf3 α) (Box3 α)) : Bool :=
  f.any (fun b => segAdmits (rayBounds3 p (q.sub p) b)) (fun l => l.seg p q)
/-- `joinedMultiCollider.RectCollision`. -/
def joinedRect3 (r : Box3 α) (f : Forest (Leaf3 α) (Box3 α)) : Bool :=
  f.any (fun b => rectAdmits3 r b) (fun l => l.rect r)
/-- Bounding box of a query triangle (`t.Min()`, `t.Max()`). -/
def triBox (a b c : V3 α) : Box3 α := ⟨(a.min b).min c, (a.max b).max c⟩
/-- `joinedMultiCollider.TriangleCollisions`. -/
def joinedTri3 (a b c : V3 α) (f : Forest (Leaf3 α) (Box3 α)) : List Nat :=
  f.collect (fun bx => triAdmits3 (triBox a b c) bx) (fun l => l.tri a b c)

def joinedRay2 (o d : V2 α) (f : Forest (Leaf2 α) (Box2 α)) : List (Hit α) :=
  f.collect (fun b => rayAdmits (rayBounds2 o d b)) (fun l => l.ray o d)
def joinedRayCount2 (o d : V2 α) (f : Forest (Leaf2 α) (Box2 α)) : Nat :=
  f.count (fun b => rayAdmits (rayBounds2 o d b)) (fun l => (l.ray o d).length)
def joinedFirst2 (o d : V2 α) (f : Forest (Leaf2 α) (Box2 α)) : Option (Hit α) :=
  f.best (fun b => rayAdmits (rayBounds2 o d b)) (fun l => l.first o d) closer none
def joinedSphere2 (c : V2 α) (r : α) (f : Forest (Leaf2 α) (Box2 α)) : Bool :=
  f.any (fun b => sphereTouches2 c r b) (fun l => l.sphere c r)
def joinedSeg2 (p q : V2 α) (f : Forest (Leaf2 α) (Box2 α)) : Bool :=
  f.any (fun b => segAdmits (rayBounds2 p (q.sub p) b)) (fun l => l.seg p q)
def joinedRect2 (r : Box2 α) (f : Forest (Leaf2 α) (Box2 α)) : Bool :=
  f.any (fun b => rectAdmits2 r b) (fun l => l.rect r)
end

/-! ## 3. `meshDistFunc` -/

/-- `meshDistFunc`: every node (leaves included) carries its bounds. -/
inductive MDF (ι β : Type) where
  | leaf : β → ι → MDF ι β
  | node : β → MDF ι β → MDF ι β → MDF ι β

namespace MDF
variable {ι β : Type}
def box : MDF ι β → β
  | leaf b _ => b
  | node b _ _ => b
def leaves : MDF ι β → List ι
  | leaf _ i => [i]
  | node _ l r => leaves l ++ leaves r
end MDF

/-- `newMeshDistFunc` on the recursion shape. -/
def Shape.toMDF {ι β : Type} (boxOf : ι → β) (union : β → β → β) : Shape ι → MDF ι β
  | .leaf i => .leaf (boxOf i) i
  | .node l r =>
      let t1 := Shape.toMDF boxOf union l
      let t2 := Shape.toMDF boxOf union r
      .node (union t1.box t2.box) t1 t2

section
variable {ι β α : Type} [Mul α] [LT α] [DecidableLT α]

/-- `dist < *curDist` with `*curDist = +∞` encoded as `none`. -/
def ltCur (d : α) : Option (α × ι) → Bool
  | none => true
  | some (c, _) => decide (d < c)

/-- `boundDists[i] > (*curDist)*(*curDist)` -/
def exceeds (b : α) : Option (α × ι) → Bool
  | none => false
  | some (c, _) => decide (c * c < b)

/-- `meshDistFunc.Dist`: `bd` is `pointToBoundsDistSquared(c, ·)`, `d i` the distance from `c` to
face `i`; the state is `(*curDist, *curFace)`. -/
def MDF.dist (bd : β → α) (d : ι → α) : MDF ι β → Option (α × ι) → Option (α × ι)
  | .leaf _ i, cur => if ltCur (d i) cur then some (d i, i) else cur
  | .node _ l r, cur =>
      let b0 := bd l.box
      let b1 := bd r.box
      if b1 < b0 then
        let cur1 := if exceeds b1 cur then cur else MDF.dist bd d r cur
        if exceeds b0 cur1 then cur1 else MDF.dist bd d l cur1
      else
        let cur1 := if exceeds b0 cur then cur else MDF.dist bd d l cur
        if exceeds b1 cur1 then cur1 else MDF.dist bd d r cur1

/-- Linear scan: first face with the minimal distance. -/
def scanDist (d : ι → α) (l : List ι) (cur : Option (α × ι)) : Option (α × ι) :=
  l.foldl (fun s i => if ltCur (d i) s then some (d i, i) else s) cur
end

/-! ## 4. `CoordTree` -/

/-- `CoordTree`: `nil` is the nil pointer. -/
inductive KD (P : Type) where
  | nil : KD P
  | node : P → Nat → KD P → KD P → KD P     -- Coord, SplitAxis, LessThan, GreaterEqual
deriving Repr

namespace KD
variable {P : Type}
/-- `Slice`. -/
def slice : KD P → List P
  | nil => []
  | node c _ l g => slice l ++ c :: slice g
def map {Q : Type} (f : P → Q) : KD P → KD Q
  | nil => nil
  | node c a l g => node (f c) a (map f l) (map f g)
end KD

section
variable {α : Type} [LT α] [DecidableLT α]

/-- `newCoordTreeSorted` over point ids; `cv id axis` is the coordinate.  `coords` holds one
list of ids per axis.  `fuel` ≥ number of points. -/
def kdBuild (dim : Nat) (cv : Nat → Nat → α) : Nat → List (List Nat) → Nat → KD Nat
  | 0, _, _ => .nil
  | fuel + 1, coords, axis =>
      let l0 := coords.getD 0 []
      if l0.length = 0 then .nil
      else if l0.length = 1 then .node (l0.getD 0 0) 0 .nil .nil
      else
        let la := coords.getD axis []
        let split := la.getD (la.length / 2) 0
        let sv := cv split axis
        let left := coords.map (fun l => l.filter (fun c => c != split && decide (cv c axis < sv)))
        let right := coords.map (fun l => l.filter (fun c => c != split && !decide (cv c axis < sv)))
        let next := (axis + 1) % dim
        .node split axis (kdBuild dim cv fuel left next) (kdBuild dim cv fuel right next)

/-- The ordering invariant: everything in `LessThan` is `<` the split value on the split axis,
everything in `GreaterEqual` is not. -/
def KD.Inv {P : Type} (coord : P → Nat → α) : KD P → Prop
  | .nil => True
  | .node c ax l g =>
      (∀ q ∈ l.slice, coord q ax < coord c ax) ∧ (∀ q ∈ g.slice, ¬ coord q ax < coord c ax) ∧
        KD.Inv coord l ∧ KD.Inv coord g
end

section
variable {P α : Type} [Sub α] [Mul α] [LT α] [LE α] [DecidableLT α] [DecidableLE α] [OfNat α 0]

/-- `Contains`. -/
def KD.contains [DecidableEq P] (coord : P → Nat → α) : KD P → P → Bool
  | .nil, _ => false
  | .node c ax l g, p =>
      if c = p then true
      else if coord p ax < coord c ax then KD.contains coord l p
      else KD.contains coord g p

/-- `d < *bound` with `+∞` = `none`. -/
def ltBound (d : α) : Option (α × P) → Bool
  | none => true
  | some (b, _) => decide (d < b)

/-- `nearestNeighbor`; state = `(*bound, *res)`. -/
def KD.nn (coord : P → Nat → α) (sq : P → P → α) (p : P) : KD P → Option (α × P) → Option (α × P)
  | .nil, s => s
  | .node c ax l g, s =>
      let dist := sq p c
      let s1 := if ltBound dist s then some (dist, c) else s
      let planeDist := coord c ax - coord p ax
      let s2 := if 0 < planeDist then KD.nn coord sq p l s1 else KD.nn coord sq p g s1
      if 0 < planeDist ∧ ltBound (planeDist * planeDist) s2 = true then KD.nn coord sq p g s2
      else if ¬ 0 < planeDist ∧ ltBound (planeDist * planeDist) s2 = true then KD.nn coord sq p l s2
      else s2

/-- Linear-scan nearest neighbour (first point with the minimal squared distance). -/
def scanNN (sq : P → P → α) (p : P) (l : List P) (s : Option (α × P)) : Option (α × P) :=
  l.foldl (fun s c => if ltBound (sq p c) s then some (sq p c, c) else s) s

/-- `knnResults.MaxDist`: `+∞` (`none`) while fewer than `Max` results are stored. -/
def knnMaxDist (k : Nat) (res : List (α × P)) : Option α :=
  if res.length < k then none else (res[k - 1]?).map (·.1)

/-- `d >= s.MaxDist()` -/
def geMax (d : α) : Option α → Bool
  | none => false
  | some m => !decide (d < m)

/-- Insert before the first stored distance `≥ d` (`sort.SearchFloat64s`). -/
def insertAt (c : P) (d : α) : List (α × P) → List (α × P)
  | [] => [(d, c)]
  | (e, q) :: r => if e < d then (e, q) :: insertAt c d r else (d, c) :: (e, q) :: r

/-- `knnResults.Insert`. -/
def knnInsert (k : Nat) (res : List (α × P)) (c : P) (d : α) : List (α × P) :=
  if geMax d (knnMaxDist k res) then res else (insertAt c d res).take k

/-- `pd*pd < res.MaxDist()` -/
def ltMax (x : α) : Option α → Bool
  | none => true
  | some m => decide (x < m)

/-- `knn`. -/
def KD.knn (coord : P → Nat → α) (sq : P → P → α) (k : Nat) (p : P) :
    KD P → List (α × P) → List (α × P)
  | .nil, s => s
  | .node c ax l g, s =>
      let s1 := knnInsert k s c (sq p c)
      let planeDist := coord c ax - coord p ax
      let s2 := if 0 < planeDist then KD.knn coord sq k p l s1 else KD.knn coord sq k p g s1
      if 0 < planeDist ∧ ltMax (planeDist * planeDist) (knnMaxDist k s2) = true then KD.knn coord sq k p g s2
      else if ¬ 0 < planeDist ∧ ltMax (planeDist * planeDist) (knnMaxDist k s2) = true then KD.knn coord sq k p l s2
      else s2

/-- `KNN`: `k = 0` returns nothing without touching the tree. -/
def KD.KNN (coord : P → Nat → α) (sq : P → P → α) (k : Nat) (p : P) (t : KD P) : List (α × P) :=
  if k = 0 then [] else KD.knn coord sq k p t []

/-- A table of k-nearest answers: the queries `(k, p)` are issued one after the other against the
same tree and ALL answers are read afterwards (`nbrs[i] = tree.KNN(k_i, p_i)`, a k-NN graph).
A returned slice is a value: an answer, once returned, is what the caller holds — later queries
have no access to it. -/
def KD.knnTable (coord : P → Nat → α) (sq : P → P → α) (t : KD P) (qs : List (Nat × P)) :
    List (List (α × P)) :=
  qs.map fun q => KD.KNN coord sq q.1 q.2 t

/-- Linear scan with the same bounded insertion. -/
def scanKNN (sq : P → P → α) (k : Nat) (p : P) (l : List P) (s : List (α × P)) : List (α × P) :=
  l.foldl (fun s c => knnInsert k s c (sq p c)) s

/-- `sphereCollision` (argument: `r*r`). -/
def KD.sphere (coord : P → Nat → α) (sq : P → P → α) (p : P) (r2 : α) : KD P → Bool
  | .nil => false
  | .node c ax l g =>
      if sq p c ≤ r2 then true
      else
        let planeDist := coord c ax - coord p ax
        if (if 0 < planeDist then KD.sphere coord sq p r2 l else KD.sphere coord sq p r2 g) then true
        else if 0 < planeDist ∧ planeDist * planeDist ≤ r2 then KD.sphere coord sq p r2 g
        else if ¬ 0 < planeDist ∧ planeDist * planeDist ≤ r2 then KD.sphere coord sq p r2 l
        else false
end

/-- Coordinate accessors used to instantiate the k-d tree at `V3` / `V2` (`Coord.Array()[axis]`). -/
def coord3 {α : Type} [OfNat α 0] (p : V3 α) (ax : Nat) : α :=
  match ax with | 0 => p.x | 1 => p.y | 2 => p.z | _ => 0
def coord2 {α : Type} [OfNat α 0] (p : V2 α) (ax : Nat) : α :=
  match ax with | 0 => p.x | 1 => p.y | _ => 0

end M3d.Spatial
