import M3d.Model.TransformNest
/-!
# C05 — scene graphs: transformed colliders inside multi-member colliders inside transformed colliders

Core Lean only.  `TransformCollider(t, c)` accepts ANY `Collider` as `c`; a scene graph uses a collider with
several members (`model3d.JoinedCollider`, or any user type with a member list), some of which are transformed
colliders themselves.  Such a collider hands the SAME `*Ray` it received to one member after the other, and a
`RayCollisions` callback may cast further rays (shadow rays) at transformed colliders while the outer query is
still running.  Two descriptions of that program are given here:

* **value semantics** (`groupCollider`, `Scene.collider`): colliders are records of functions of the ray
  VALUE; a group concatenates / sums / takes the nearest of / disjoins the answers of its members, a
  transformed member is `transformCollider` of `TransformNest.lean`;
* **pointer semantics** (`Scene.run`): the Go program with its `*Ray` pointers.  The store is the list of all
  `Ray` objects allocated so far, a collider is handed the ADDRESS of a ray and reads it when it needs it;
  `transformedCollider.innerRay` allocates (`&Ray{…}` = append a cell, the new address is the old length); a
  group passes the address it was given to every member in turn; a leaf reads the ray and, for every collision
  it reports, runs the caller's callback `onHit`, an arbitrary store transformer (for shadow rays: allocate the
  secondary ray, run a whole scene on it).

`M3d.C05.scene_pointer_semantics` proves that the two agree for every scene and every callback that only
allocates; `M3d.C05.transform_group_distrib` pushes a transform through a group.
-/
namespace M3d.Tf

section Scene3
variable {α : Type} [Add α] [Sub α] [Mul α] [Div α] [Neg α] [OfNat α 0] [OfNat α 1]
  [LT α] [DecidableLT α] [LE α] [DecidableLE α]

/-- One step of the `FirstRayCollision` loop of a multi-member collider (`JoinedCollider.FirstRayCollision`):
`if collision, collides := c.FirstRayCollision(r); collides { if collision.Scale < closest.Scale || !anyCollides
{ closest = collision; anyCollides = true } }`. -/
def groupFirstStep (r : Ray α) (acc : Hit α × Bool) (c : Collider α) : Hit α × Bool :=
  let res := c.first r
  if res.2 then (if decide (res.1.scale < acc.1.scale) || !acc.2 then (res.1, true) else acc) else acc

/-- A collider with the member list `m :: ms` that hands every query to each member in turn (what
`JoinedCollider` does for a ray / sphere that meets its bounds): `RayCollisions` reports the members'
collisions one member after the other and returns the sum of the counts, `FirstRayCollision` keeps the
collision with the smallest parameter (the earlier member on a tie), `SphereCollision` is the disjunction;
the bounds are the union of the members' bounds. -/
def groupCollider (m : Collider α) (ms : List (Collider α)) : Collider α :=
  { lo := ms.foldl (fun a c => a.min c.lo) m.lo,
    hi := ms.foldl (fun a c => a.max c.hi) m.hi,
    hits := fun r => (m :: ms).flatMap (fun c => c.hits r),
    count := fun r => ((m :: ms).map (fun c => c.count r)).sum,
    first := fun r => (m :: ms).foldl (groupFirstStep r) (⟨0, V3.zero, 0⟩, false),
    sphere := fun p rad => (m :: ms).any (fun c => c.sphere p rad) }

/-- A scene graph.  `leaf c`: any collider that is not one of the two combinators; `pair a b`: a two-member
group (longer member lists are nested pairs: the collisions come in the same order); `xform t s`:
`TransformCollider(t, s)`. -/
inductive Scene (α : Type) where
  | leaf (c : Collider α)
  | pair (a b : Scene α)
  | xform (t : Xf α) (s : Scene α)

/-- Value semantics of a scene: the `Collider` value the constructors of the library build. -/
def Scene.collider (sqrtF : α → α) : Scene α → Collider α
  | .leaf c => c
  | .pair a b => groupCollider (a.collider sqrtF) [b.collider sqrtF]
  | .xform t s => transformCollider sqrtF t (s.collider sqrtF)

/-- Pointer semantics of `RayCollisions(r, f)` on a scene: `addr` is the pointer `r`, `st` the store of `Ray`
objects, `onHit` what the caller's callback does to the store each time it is called.  Returns the store
afterwards and the collisions handed to the callback (mapped by every `outerCollision` on the way out).  A
dangling pointer (not produced by these programs) yields no collision. -/
def Scene.run (sqrtF : α → α) (onHit : List (Ray α) → List (Ray α)) :
    Scene α → Nat → List (Ray α) → List (Ray α) × List (Hit α)
  | .leaf c, addr, st =>
      match st[addr]? with
      | none => (st, [])
      | some r => let hs := c.hits r; (hs.foldl (fun s _ => onHit s) st, hs)
  | .pair a b, addr, st =>
      let ra := a.run sqrtF onHit addr st
      let rb := b.run sqrtF onHit addr ra.1
      (rb.1, ra.2 ++ rb.2)
  | .xform t s, addr, st =>
      match st[addr]? with
      | none => (st, [])
      | some r =>
          -- `t.c.RayCollisions(t.innerRay(r), …)`: `innerRay` returns `&Ray{…}`, a new object
          let res := s.run sqrtF onHit st.length (st ++ [innerRay t.inverse r])
          (res.1, res.2.map (outerCollision sqrtF t))

/-- The callback of a renderer that casts a secondary ray `sec` at the scene `sub` on every collision:
it allocates the ray and runs `sub.RayCollisions(&sec, g)` with a callback `g` that touches no ray. -/
def shadowCallback (sqrtF : α → α) (sub : Scene α) (sec : Ray α) (st : List (Ray α)) : List (Ray α) :=
  (sub.run sqrtF (fun s => s) st.length (st ++ [sec])).1

/-- The same program with the inner rays RECYCLED instead of allocated (what a free list does when the ray is
returned to it before the wrapped collider has finished): every `innerRay` call writes into cell `pool`.
Not the library's code — used only to show that `scene_pointer_semantics` is a statement about the allocation
(see the example next to it). -/
def Scene.runPooled (sqrtF : α → α) (pool : Nat) : Scene α → Nat → List (Ray α) → List (Ray α) × List (Hit α)
  | .leaf c, addr, st =>
      match st[addr]? with
      | none => (st, [])
      | some r => (st, c.hits r)
  | .pair a b, addr, st =>
      let ra := a.runPooled sqrtF pool addr st
      let rb := b.runPooled sqrtF pool addr ra.1
      (rb.1, ra.2 ++ rb.2)
  | .xform t s, addr, st =>
      match st[addr]? with
      | none => (st, [])
      | some r =>
          let res := s.runPooled sqrtF pool pool (st.set pool (innerRay t.inverse r))
          (res.1, res.2.map (outerCollision sqrtF t))

/-- A test collider whose answers depend on the ray it is shown: the listed collisions with
`dot a origin + dot b direction` added to every parameter (the harness' `probe3`). -/
def probeCollider (lo hi a b : V3 α) (hs : List (Hit α)) : Collider α :=
  let shift : Ray α → Hit α → Hit α := fun r h => { h with scale := h.scale + (a.dot r.origin + b.dot r.dir) }
  { lo := lo, hi := hi,
    hits := fun r => hs.map (shift r),
    count := fun _ => hs.length,
    first := fun r => match hs with
      | [] => (⟨0, V3.zero, 0⟩, false)
      | h :: _ => (shift r h, true),
    sphere := fun p rad => decide (a.dot p ≤ rad) }

end Scene3

end M3d.Tf
