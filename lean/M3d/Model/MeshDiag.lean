import M3d.Model.Surface
/-!
# C11 — mesh diagnostics, repair and nesting: executable models (core Lean only)

Models of `model3d/mesh_ops.go` (`NeedsRepair`, `InconsistentEdges`, `SingularVertices`,
`maybeFaceOrientations`, `RepairNormalsMajority`, `RepairNormals`, `Repair`), `ptr_mesh.go`
(`ptrCoord.Clusters`), `mesh_hierarchy.go` (`uncheckedMeshToHierarchy`, `insertLeaf`,
`removeAllConnected`, `MeshHierarchy.Contains`, `FullMesh`) and their `model2d` twins, on id soups
(`M3d.Surface`): a vertex id stands for a distinct coordinate, a face is a triple of ids.

Conventions.
* A Go mesh is a *set of face pointers* iterated in map order.  The model takes the faces as a
  list **in an arbitrary order** (every theorem is for all lists, hence for every iteration
  order) and gives a face the pointer identity of its position (`Face = Nat × Tri`, `enum`).
* A Go counting map `m[k]++` is represented by the list of keys inserted so far; its value at `k`
  is `List.count k` (C09 proves the real maps behave like ordinary maps).
* Loops whose Go bound is "until the work list is empty" carry a fuel argument; the theorems
  instantiate it with the number of faces/vertices and show that this never runs out.
* Geometric tests (`Solid.Contains`) are function parameters (oracles).
-/
namespace M3d.MeshDiag
open M3d.Surface

/-! ## Faces with identity -/

/-- A face together with its pointer identity (its position in the iteration order). -/
abbrev Face := Nat × Tri

def enumFrom (n : Nat) : List Tri → List Face
  | [] => []
  | t :: ts => (n, t) :: enumFrom (n + 1) ts

/-- The faces of a mesh with their identities. -/
def enum (ts : List Tri) : List Face := enumFrom 0 ts

/-! ## `NeedsRepair` -/

/-- `NewSegment(p1, p2)` for every side of every face, in iteration order. -/
def segsOf (ts : List Tri) : List Edge := (dirEdges ts).map undirected

/-- The first loop of `NeedsRepair`: `if counts.Add(seg, 1) > 2 { return true }`.
`seen` is the counting map (see the conventions); `none` is the early exit. -/
def scanCounts : List Edge → List Edge → Option (List Edge)
  | [], seen => some seen
  | e :: rest, seen => if seen.count e + 1 > 2 then none else scanCounts rest (e :: seen)

/-- `Mesh.NeedsRepair`: early exit on a third use of an edge, then `ValueRange` looking for a
count different from 2. -/
def needsRepair (ts : List Tri) : Bool :=
  match scanCounts (segsOf ts) [] with
  | none => true
  | some seen => seen.eraseDups.any fun e => seen.count e != 2

/-- Definition: the number of (face, side) incidences of the undirected edge `e`. -/
def edgeMult (ts : List Tri) (e : Edge) : Nat := (segsOf ts).count (undirected e)

/-! ## `InconsistentEdges` -/

/-- `Mesh.InconsistentEdges`: `edges[edge]++` for every directed edge, then the keys with
count > 1 (in map order: here first-occurrence order; the harness sorts). -/
def inconsistentEdges (ts : List Tri) : List Edge :=
  (dirEdges ts).eraseDups.filter fun e => (dirEdges ts).count e > 1

/-! ## `SingularVertices` -/

/-- `Triangle.inCommon`: how many corner *positions* of `s` hold a vertex of `t`. -/
def inCommon (s t : Tri) : Nat := (triVerts s).countP fun a => (triVerts t).contains a

/-- `Triangle.SharesEdge`. -/
def sharesEdge (s t : Tri) : Bool := inCommon s t == 2

def hasVert (v : Nat) (t : Tri) : Bool := (triVerts t).contains v

/-- `getVertexToFace().Value(v)`: the faces at `v` in iteration order. -/
def trisAt (v : Nat) (ts : List Tri) : List Tri := ts.filter (hasVert v)

/-- The same with face identities (the search below works on slice indices). -/
def facesAt (v : Nat) (fs : List Face) : List Face := fs.filter fun f => hasVert v f.2

/-- `expandTri.inCommon(tris[visitIdx]) >= 2` on faces with identity: both faces contain the
vertex, so they share an edge at it (coincident faces included; before fix 5660fd7 the test was
`SharesEdge`, i.e. `== 2`, which never joined coincident faces). -/
def fanAdj (s t : Face) : Bool := decide (inCommon s.2 t.2 ≥ 2)

/-- The inner `for i := 0; i < len(unvisited); i++` loop of `SingularVertices` with its
swap-with-last removal: returns (what stays unvisited, what was pushed — both in Go's order). -/
def sweepAux {α : Type} (p : α → Bool) : Nat → List α → List α × List α
  | 0, _ => ([], [])
  | _ + 1, [] => ([], [])
  | n + 1, x :: rest =>
    if p x then
      match rest with
      | [] => ([], [x])
      | a :: b =>
        let r := sweepAux p n ((a :: b).getLast (List.cons_ne_nil a b) :: (a :: b).dropLast)
        (r.1, x :: r.2)
    else
      let r := sweepAux p n rest
      (x :: r.1, r.2)

/-- The loop runs at most `len(unvisited)` times (each iteration either advances `i` or shrinks
the slice): the fuel of `sweepAux`. -/
def sweep {α : Type} (p : α → Bool) (l : List α) : List α × List α := sweepAux p l.length l

/-- The outer `for len(unvisited) > 0 && len(visitQueue) > 0` loop: `stack` has its top at the
head; returns the faces never reached. -/
def fanSearch : Nat → List Face → List Face → List Face
  | 0, _, unv => unv
  | _ + 1, [], unv => unv
  | n + 1, x :: stack, unv =>
    if unv.isEmpty then unv else
      let r := sweep (fanAdj x) unv
      fanSearch n (r.2.reverse ++ stack) r.1

/-- What is left unvisited for vertex `v`. -/
def fanUnvisited (ts : List Tri) (v : Nat) : List Face :=
  match facesAt v (enum ts) with
  | [] => []
  | t :: rest => fanSearch (rest.length + 1) [t] rest

/-- `Mesh.SingularVertices` (in first-occurrence order of the vertices; the harness sorts). -/
def singularVertices (ts : List Tri) : List Nat :=
  (verts ts).filter fun v => !(fanUnvisited ts v).isEmpty

/-! ## Generic breadth-first extraction (shared by `Clusters`, `removeAllConnected`) -/

/-- Take the head `x` of the queue, move every still unvisited element adjacent to `x` to the
back of the queue, repeat.  Returns (visited, in visiting order; never visited). -/
def bfs {α : Type} (adj : α → α → Bool) : Nat → List α → List α → List α × List α
  | 0, queue, unv => (queue, unv)
  | _ + 1, [], unv => ([], unv)
  | n + 1, x :: queue, unv =>
    let r := bfs adj n (queue ++ unv.filter (adj x)) (unv.filter fun y => !adj x y)
    (x :: r.1, r.2)

/-- Repeatedly split off the breadth-first family of the first unvisited element. -/
def families {α : Type} (adj : α → α → Bool) : Nat → List α → List (List α)
  | 0, _ => []
  | _, [] => []
  | n + 1, x :: rest =>
    let r := bfs adj (rest.length + 1) [x] rest
    r.1 :: families adj n r.2

/-! ## `ptrCoord.Clusters` -/

/-- Two faces at `p` are joined when they share a vertex other than `p` (the loop
`for _, c := range next.Coords { if c == p {continue}; for _, t1 := range c.Triangles …`). -/
def adjAt (p : Nat) (s t : Face) : Bool := (triVerts s.2).any fun c => c != p && hasVert c t.2

/-- `ptrCoord.Clusters` for the vertex `p` of the mesh `ts`. -/
def clusters (ts : List Tri) (p : Nat) : List (List Face) :=
  let fs := facesAt p (enum ts)
  families (adjAt p) fs.length fs

/-! ## `maybeFaceOrientations`, `RepairNormalsMajority` -/

/-- `t1[0], t1[1] = t1[1], t1[0]`. -/
def flipTri (t : Tri) : Tri := (t.2.1, t.1, t.2.2)

/-- `Mesh.Neighbors`: another face holding at least two of `f`'s corners. -/
def isNeighbor (f g : Face) : Bool := f.1 != g.1 && decide (inCommon f.2 g.2 > 1)

/-- Register the (possibly flipped) edges one by one; `none` = `return nil` on a seen edge. -/
def addEdges : List Edge → List Edge → Option (List Edge)
  | [], seen => some seen
  | e :: es, seen => if seen.contains e then none else addEdges es (e :: seen)

inductive GroupRes where
  | ok (group : List (Face × Bool)) (remaining : List Face)
  | notOrientable
  | impossible

/-- The `for len(queue) > 0` loop of `maybeFaceOrientations` for one group. -/
def orientGroup : Nat → List Face → List Face → List (Face × Bool) → List Edge → GroupRes
  | 0, _, rem, group, _ => .ok group rem
  | _ + 1, [], rem, group, _ => .ok group rem
  | n + 1, next :: queue, rem, group, seen =>
    let es := triEdges next.2
    let foundUnflipped := es.any fun e => seen.contains e
    let foundFlipped := es.any fun e => seen.contains (swap e)
    if !foundFlipped && !foundUnflipped then .impossible
    else if foundFlipped && foundUnflipped then .notOrientable
    else
      match addEdges (if foundUnflipped then es.map swap else es) seen with
      | none => .notOrientable
      | some seen' =>
        orientGroup n (queue ++ rem.filter (isNeighbor next)) (rem.filter fun g => !isNeighbor next g)
          (group ++ [(next, foundUnflipped)]) seen'

inductive Orient where
  | groups (gs : List (List (Face × Bool)))
  | notOrientable
  | impossible

/-- The `for len(remaining) > 0` loop of `maybeFaceOrientations`; `all` = every face of the mesh
(`m.Neighbors(startTri)` is not restricted to `remaining`). -/
def orientAll (all : List Face) : Nat → List Face → List (List (Face × Bool)) → Orient
  | 0, _, gs => .groups gs
  | _ + 1, [], gs => .groups gs
  | n + 1, start :: rem, gs =>
    let queue := all.filter (isNeighbor start)
    match orientGroup (all.length + 1) queue (rem.filter fun g => !queue.contains g)
        [(start, false)] (triEdges start.2) with
    | .ok g rem' => orientAll all n rem' (gs ++ [g])
    | .notOrientable => .notOrientable
    | .impossible => .impossible

/-- `Mesh.maybeFaceOrientations`. -/
def faceOrientations (ts : List Tri) : Orient :=
  orientAll (enum ts) (ts.length + 1) (enum ts) []

/-- The per-group vote of `RepairNormalsMajority`: `invert := numTrue > len(group)/2`,
`flipFlags[k] = v == !invert`. -/
def majorityFlags (g : List (Face × Bool)) : List (Face × Bool) :=
  let invert := decide (g.countP (·.2) > g.length / 2)
  g.map fun p => (p.1, p.2 == !invert)

def applyFlags (fl : List (Face × Bool)) : List Tri :=
  fl.map fun p => if p.2 then flipTri p.1.2 else p.1.2

/-- `Mesh.RepairNormalsMajority`: the flip flags per group (`none` = panic). -/
def repairNormalsMajority (ts : List Tri) : Option (List (List (Face × Bool))) :=
  match faceOrientations ts with
  | .groups gs => some (gs.map majorityFlags)
  | _ => none

/-! ## `RepairNormals` (3-D and 2-D): even–odd flip, containment as an oracle -/

/-- `inside f` = `solid.Contains(center(f) + epsilon * normal(f))`. -/
def repairNormals (inside : Face → Bool) (ts : List Tri) : List Tri × Nat :=
  ((enum ts).map fun f => if inside f then flipTri f.2 else f.2, (enum ts).countP inside)

def repairNormals2 (inside : Nat × Seg → Bool) (ss : List Seg) : List Seg × Nat :=
  let fs := (List.range ss.length).zip ss
  (fs.map fun f => if inside f then swap f.2 else f.2, fs.countP inside)

/-! ## `Repair`: merge vertices whose grid hashes chain together -/

structure EqClass (H : Type) where
  elements : List Nat
  hashes : List H
  canonical : Nat

/-- Append the hashes of an absorbed class that are not yet present (the `found` loop). -/
def mergeHashes {H : Type} [BEq H] (acc : List H) (hs : List H) : List H :=
  hs.foldl (fun a h => if a.contains h then a else a ++ [h]) acc

/-- One `KeyRange` step for vertex `c` with hashes `hs`.  `hashToClass[h]` is the live class whose
`Hashes` hold `h` (every hash of a new class is re-pointed to it, so there are no stale entries);
with no class hit the merged class is just `{c}`. -/
def repairStep {H : Type} [BEq H] (hashOf : Nat → List H) (classes : List (EqClass H)) (c : Nat) :
    List (EqClass H) :=
  let hs := hashOf c
  let hit := classes.filter fun k => hs.any k.hashes.contains
  let miss := classes.filter fun k => !hs.any k.hashes.contains
  miss ++ [hit.foldl (fun acc k => ⟨acc.elements ++ k.elements, mergeHashes acc.hashes k.hashes, c⟩)
    ⟨[c], hs, c⟩]

def repairClasses {H : Type} [BEq H] (hashOf : Nat → List H) (vs : List Nat) : List (EqClass H) :=
  vs.foldl (repairStep hashOf) []

/-- `coordToClass[c].Canonical` (identity for a vertex in no class — does not happen). -/
def canonOf {H : Type} (classes : List (EqClass H)) (v : Nat) : Nat :=
  match classes.find? fun k => k.elements.contains v with
  | some k => k.canonical
  | none => v

/-- `Mesh.Repair` on ids: `vs` is the `KeyRange` order of the vertices. -/
def repair {H : Type} [BEq H] (hashOf : Nat → List H) (vs : List Nat) (ts : List Tri) : List Tri :=
  relabel (canonOf (repairClasses hashOf vs)) ts

def repair2 {H : Type} [BEq H] (hashOf : Nat → List H) (vs : List Nat) (ss : List Seg) : List Seg :=
  relabelSegs (canonOf (repairClasses hashOf vs)) ss

/-- Definition: two vertices are *linked* when they share a grid hash. -/
def linked {H : Type} [BEq H] (hashOf : Nat → List H) (a b : Nat) : Bool :=
  (hashOf a).any (hashOf b).contains

/-! ## 2-D `Manifold`, `InconsistentVertices` -/

def segHas (v : Nat) (s : Seg) : Bool := s.1 == v || s.2 == v

/-- `getVertexToFace().Value(v)` in 2-D. -/
def segsAt (v : Nat) (ss : List Seg) : List Seg := ss.filter (segHas v)

/-- `model2d.Mesh.Manifold`: every vertex has exactly two segments (`Range` with early exit). -/
def manifold2 (ss : List Seg) : Bool := (segVerts ss).all fun v => (segsAt v ss).length == 2

/-- `model2d.Mesh.InconsistentVertices`. -/
def inconsistentVertices2 (ss : List Seg) : List Nat :=
  (segVerts ss).filter fun v =>
    let numFirst := (segsAt v ss).countP fun s => s.1 == v
    let numSecond := (segsAt v ss).countP fun s => !(s.1 == v)
    decide (numFirst > 1) || decide (numSecond > 1)

/-! ## Mesh hierarchy -/

/-- A forest in first-child / next-sibling form: `node x kids sibs` is the tree with root payload
`x` and children `kids`, followed by the trees `sibs` (a Go `[]*MeshHierarchy`). -/
inductive Forest (α : Type) where
  | nil
  | node (x : α) (kids : Forest α) (sibs : Forest α)

namespace Forest

/-- `MeshHierarchy.insertLeaf` seen from the `Children` slice: descend into the first child whose
solid contains the new mesh's vertex, otherwise append a new leaf. -/
def insertLeaf {α : Type} (enc : α → α → Bool) (x : α) : Forest α → Forest α
  | nil => node x nil nil
  | node y kids sibs =>
    if enc y x then node y (insertLeaf enc x kids) sibs else node y kids (insertLeaf enc x sibs)

/-- The body of `ClosedMeshLoop`: the first root whose solid contains `minVertex` receives the
mesh through `insertLeaf` (which tests `mesh.VertexSlice()[0]`, oracle `encIn`), otherwise a new
root is appended. -/
def insertTop {α : Type} (encTop encIn : α → α → Bool) (x : α) : Forest α → Forest α
  | nil => node x nil nil
  | node y kids sibs =>
    if encTop y x then node y (insertLeaf encIn x kids) sibs
    else node y kids (insertTop encTop encIn x sibs)

/-- All payloads, parents before children, left to right. -/
def nodes {α : Type} : Forest α → List α
  | nil => []
  | node x kids sibs => x :: (nodes kids ++ nodes sibs)

/-- `MeshHierarchy.FullMesh` of every tree of the forest, concatenated. -/
def fullMesh {α β : Type} (mesh : α → List β) : Forest α → List β
  | nil => []
  | node x kids sibs => mesh x ++ (fullMesh mesh kids ++ fullMesh mesh sibs)

/-- `MeshHierarchy.Contains` OR-ed over the trees of the forest. -/
def contains {α : Type} (inside : α → Bool) : Forest α → Bool
  | nil => false
  | node x kids sibs => (inside x && !contains inside kids) || contains inside sibs

/-- The proper ancestors of the first node with payload satisfying `p` (root first). -/
def ancestors {α : Type} (p : α → Bool) : Forest α → Option (List α)
  | nil => none
  | node x kids sibs =>
    if p x then some [] else
    match ancestors p kids with
    | some l => some (x :: l)
    | none => ancestors p sibs

end Forest

/-- Two faces are connected when they share a vertex (`removeAllConnected` walks
`t.Coords → c.Triangles`). -/
def sharesVert (s t : Face) : Bool := (triVerts s.2).any fun c => hasVert c t.2

/-- `removeAllConnected(pm, c)`: (the stripped faces, what stays in the mesh). -/
def removeAllConnected (rem : List Face) (c : Nat) : List Face × List Face :=
  bfs sharesVert (rem.length + 1) (facesAt c rem) (rem.filter fun f => !hasVert c f.2)

/-- `coordInMesh`: the first face of `c.Triangles` (creation order = iteration order of the whole
mesh `all`) is still linked into the mesh. -/
def coordInMesh (all rem : List Face) (c : Nat) : Bool :=
  match (facesAt c all).head? with
  | some f => rem.contains f
  | none => false

/-- A stripped component: the sweep vertex it was found from, and its faces. -/
abbrev Comp := Nat × List Face

/-- `uncheckedMeshToHierarchy`: `sorted` is the vertex order of `sortedCoords` (increasing dot
product with `arbitraryAxis`). -/
def hierLoop (all : List Face) (encTop encIn : Comp → Comp → Bool) :
    List Nat → List Face → Forest Comp → Forest Comp
  | [], _, f => f
  | v :: vs, rem, f =>
    if coordInMesh all rem v then
      let r := removeAllConnected rem v
      hierLoop all encTop encIn vs r.2 (Forest.insertTop encTop encIn (v, r.1) f)
    else hierLoop all encTop encIn vs rem f

def meshToHierarchy (encTop encIn : Comp → Comp → Bool) (sorted : List Nat) (ts : List Tri) :
    Forest Comp :=
  hierLoop (enum ts) encTop encIn sorted (enum ts) .nil

/-! ### 2-D hierarchy: components are traced along outgoing segments -/

/-- 2-D `removeAllConnected`: follow `Outgoing(c)[0]` until back at `first`; `none` = the
"mesh is non-manifold" panic. -/
def traceLoop (ss : List Seg) (first : Nat) : Nat → Nat → Option (List Seg)
  | 0, _ => some []
  | n + 1, c =>
    let outs := ss.filter fun s => s.1 == c
    let ins := ss.filter fun s => s.2 == c
    match outs, ins with
    | [o], [_] =>
      if o.2 == first then some [(c, o.2)]
      else (traceLoop ss first n o.2).map fun l => (c, o.2) :: l
    | _, _ => none

abbrev Comp2 := Nat × List Seg

/-- 2-D `uncheckedMeshToHierarchy`; `alive` = the vertices still in the pointer list. -/
def hierLoop2 (ss : List Seg) (encTop encIn : Comp2 → Comp2 → Bool) :
    List Nat → List Nat → Forest Comp2 → Option (Forest Comp2)
  | [], _, f => some f
  | v :: vs, alive, f =>
    if alive.contains v then
      match traceLoop ss v (alive.length + 1) v with
      | none => none
      | some comp =>
        hierLoop2 ss encTop encIn vs (alive.filter fun a => !(comp.map (·.1)).contains a)
          (Forest.insertTop encTop encIn (v, comp) f)
    else hierLoop2 ss encTop encIn vs alive f

def meshToHierarchy2 (encTop encIn : Comp2 → Comp2 → Bool) (sorted : List Nat) (ss : List Seg) :
    Option (Forest Comp2) :=
  hierLoop2 ss encTop encIn sorted (segVerts ss) .nil

/-! ## Definitions the diagnostics are compared with -/

/-- Reachability through a symmetric-or-not adjacency restricted to a universe `U`. -/
inductive Reach {α : Type} (adj : α → α → Bool) (U : List α) : α → α → Prop where
  | refl (a : α) : Reach adj U a a
  | step {a b c : α} : Reach adj U a b → c ∈ U → adj b c = true → Reach adj U a c

/-- The fan graph at `v` (the faces at `v`, joined when they share an edge) is connected. -/
def FanGraphConnected (ts : List Tri) (v : Nat) : Prop :=
  ∀ s ∈ facesAt v (enum ts), ∀ t ∈ facesAt v (enum ts), Reach fanAdj (facesAt v (enum ts)) s t

/-- Executable closure: everything of `U` reachable from `start` (naive iteration, `n` rounds). -/
def closure {α : Type} [BEq α] (adj : α → α → Bool) (U : List α) : Nat → List α → List α
  | 0, s => s
  | n + 1, s =>
    closure adj U n (s ++ U.filter fun y => !s.contains y && s.any fun x => adj x y)

end M3d.MeshDiag
