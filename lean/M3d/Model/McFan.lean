import M3d.Model.MarchingMesh
/-!
# The fan of triangles round a marching-cubes vertex as a path, and links in the whole-lattice mesh
(property C01, second half of the 3-D statement: no vertex pinches two sheets; core-only)

`fanIsOutwardPath` (Model/Marching.lean) says that round the vertex on a sign-changing cube edge the cell's
triangles form one simple path from one of the two faces through that edge to the other, winding
counter-clockwise about inside→outside.  `fanPathOk` below states the same with an explicit vertex list
(`fanPath`) and explicit start / end faces (`seFaces`), in the form the local→global lift
(`Lemmas/McFan*.lean`) consumes: the four cells round a lattice edge then chain head-to-tail into ONE cycle.
-/
namespace M3d.Marching

/-- axis of a cube edge -/
def axisOf (v : Vtx) : Nat := if (v.1 ^^^ v.2) == 1 then 0 else if (v.1 ^^^ v.2) == 2 then 1 else 2

/-- follow the arcs from `p`, consuming each arc once, and list the vertices met -/
def pathFrom : Nat → List DEdge → Vtx → List Vtx
  | 0, _, p => [p]
  | fuel + 1, arcs, p =>
    match arcs.find? (fun a => a.1 == p) with
    | some a => p :: pathFrom fuel (arcs.erase a) a.2
    | none => [p]

/-- the vertices of the fan round `v`, from the arc whose start is no arc's end -/
def fanPath (row : List (List Nat)) (v : Vtx) : List Vtx :=
  let arcs := fanArcs row v
  match arcs.find? (fun a => !(arcs.any fun b => b.2 == a.1)) with
  | none => []
  | some a0 => pathFrom arcs.length arcs a0.1

/-- Start and end face of the fan of cube edge `v` (`dPos`: the LOWER end of `v` is the inside one).
With `k` the axis of `v` and `(a, b, k)` a cyclic permutation of the axes, the cell lies in the quadrant
`(ba, bb)` of the plane orthogonal to `v` (`ba` = bit `a` of `v`'s corners …); going counter-clockwise about
`+k` the quadrants are `(0,0) → (1,0) → (1,1) → (0,1)`, so the fan leaves through face `(a, ba)` when
`ba = bb` and through `(b, bb)` otherwise; clockwise (`dPos = false`) the roles are swapped. -/
def seFaces (v : Vtx) (dPos : Bool) : Face × Face :=
  let k := axisOf v
  let a := (k + 1) % 3
  let b := (k + 2) % 3
  let ba := bit v.1 a
  let bb := bit v.1 b
  let ccw : Face × Face := if ba == bb then ((b, bb), (a, ba)) else ((a, ba), (b, bb))
  if dPos then ccw else (ccw.2, ccw.1)

/-- The fan round `v` is the simple path `fanPath row v`: the arcs are exactly its consecutive pairs, its
first vertex lies on the start face only, its last on the end face only, all others on neither. -/
def fanPathOk (cfg : Nat) (row : List (List Nat)) (v : Vtx) : Bool :=
  let arcs := fanArcs row v
  let P := fanPath row v
  let se := seFaces v (inside cfg v.1)
  P.length == arcs.length + 1 && decide (P.Nodup) && arcs.isPerm (P.zip P.tail) &&
  (match P.head?, P.getLast? with
   | some h, some l => vtxOnFace se.1 h && !vtxOnFace se.2 h && vtxOnFace se.2 l && !vtxOnFace se.1 l
   | _, _ => false) &&
  ((P.drop 1).dropLast.all fun p => !vtxOnFace se.1 p && !vtxOnFace se.2 p)

def fanPathsOk (cfg : Nat) (row : List (List Nat)) : Bool :=
  cubeEdges.all fun e => !signChange cfg e || fanPathOk cfg row e

/-- the local facts of a 256-row table that the fan lift consumes -/
def mcFanLocalOk (table : List (List (List Nat))) : Bool :=
  (List.range 256).all fun cfg =>
    rowWellFormed cfg (getRow table cfg) && fanPathsOk cfg (getRow table cfg)

/-! ### links in a mesh over doubled lattice positions -/

/-- the edge of `t` opposite to `V`, oriented as in `t` -/
def grot (V : GV) (t : GV × GV × GV) : Option (GV × GV) :=
  if t.1 = V then some (t.2.1, t.2.2)
  else if t.2.1 = V then some (t.2.2, t.1)
  else if t.2.2 = V then some (t.1, t.2.1)
  else none

/-- the link of `V`: one directed edge per incident triangle -/
def glink (V : GV) (m : List (GV × GV × GV)) : List (GV × GV) := m.filterMap (grot V)

/-- the directed edges of the closed cycle `l₀ → l₁ → … → l₀` -/
def gcycleEdges : List GV → List (GV × GV)
  | [] => []
  | a :: t => List.zip (a :: t) (t ++ [a])

/-- `es` is (a rearrangement of) the edges of ONE simple closed cycle -/
def GFanCycle (es : List (GV × GV)) : Prop := ∃ l : List GV, l.Nodup ∧ es.Perm (gcycleEdges l)

end M3d.Marching
