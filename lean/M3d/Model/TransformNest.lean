import M3d.Model.Transform
import M3d.Model.Transform2
/-!
# C05 — nested wrappers: `TransformCollider(t₂, TransformCollider(t₁, c))` and friends

Core Lean only.  `TransformSolid`, `TransformSDF`, `TransformCollider`, `TransformMetaball` return values of the
interface they wrap, so they can be applied to their own results (a scene graph that positions a part in a
sub-assembly and then the sub-assembly in the scene).  The Go code has no special case for that: the outer
wrapper simply calls the methods of the inner one.  Here the wrappers are therefore given as functions from
object to object (`transformCollider` packages `tcRayCollisions`/`tcFirst`/`tcSphere`/`tcBounds` of
`Transform.lean` into a `Collider` value) and `nest…` folds them over a list of transforms, innermost first.

`Xf.ofList [t₁,…,tₙ]` is the slice `JoinedTransform{t₁,…,tₙ}` (applies `t₁` first).
`M3d/Props/C05.lean` proves `nest… [t₁,…,tₙ] x = transform… (ofList [t₁,…,tₙ]) x`.
-/
namespace M3d.Tf

/-- The slice `JoinedTransform{t₁,…,tₙ}`. -/
def Xf.ofList {α : Type} : List (Xf α) → Xf α
  | [] => .jnil
  | t :: ts => .jcons t (Xf.ofList ts)

/-- The 2-D slice `JoinedTransform{t₁,…,tₙ}`. -/
def Xf2.ofList {α : Type} : List (Xf2 α) → Xf2 α
  | [] => .jnil
  | t :: ts => .jcons t (Xf2.ofList ts)

section Nest3
variable {α : Type} [Add α] [Sub α] [Mul α] [Div α] [Neg α] [OfNat α 0] [OfNat α 1]
  [LT α] [DecidableLT α] [LE α] [DecidableLE α]

/-- `TransformCollider(t, c)` as a `Collider` value: `Min/Max` = `tcBounds`, `RayCollisions` = `tcRayCollisions`
(the collisions handed to a non-nil callback and the return value), `FirstRayCollision` = `tcFirst`,
`SphereCollision` = `tcSphere`. -/
def transformCollider (sqrtF : α → α) (t : Xf α) (c : Collider α) : Collider α :=
  let b := t.applyBounds c.lo c.hi
  { lo := b.1, hi := b.2,
    hits := fun r => (c.hits (innerRay t.inverse r)).map (outerCollision sqrtF t),
    count := fun r => c.count (innerRay t.inverse r),
    first := fun r => tcFirst sqrtF t c r,
    sphere := fun p rad => tcSphere t c p rad }

/-- `TransformSolid(tₙ, … TransformSolid(t₁, s))` for `ts = [t₁,…,tₙ]`. -/
def nestSolid [BEq α] (ts : List (Xf α)) (s : Solid α) : Solid α :=
  ts.foldl (fun s t => transformSolid t s) s

/-- `TransformSDF(tₙ, … TransformSDF(t₁, s))`. -/
def nestSDF (ts : List (Xf α)) (s : SDF α) : SDF α :=
  ts.foldl (fun s t => transformSDF t s) s

/-- `TransformMetaball(tₙ, … TransformMetaball(t₁, m))`. -/
def nestMetaball (ts : List (Xf α)) (m : Metaball α) : Metaball α :=
  ts.foldl (fun m t => transformMetaball t m) m

/-- `TransformCollider(tₙ, … TransformCollider(t₁, c))`. -/
def nestCollider (sqrtF : α → α) (ts : List (Xf α)) (c : Collider α) : Collider α :=
  ts.foldl (fun c t => transformCollider sqrtF t c) c

/-- What `RayCollisions(r, f)` of a collider value does: return value and the collisions passed to `f`
(`withCb = false`: `f == nil`). -/
def colliderRayCollisions (c : Collider α) (r : Ray α) (withCb : Bool) : RCResult α :=
  .ok (c.count r) (if withCb then c.hits r else [])

end Nest3

section Nest2
variable {α : Type} [Add α] [Sub α] [Mul α] [Div α] [Neg α] [OfNat α 0] [OfNat α 1]
  [LE α] [DecidableLE α]

/-- 2-D `TransformCollider(t, c)` as a `Collider` value. -/
def transformCollider2 (sqrtF : α → α) (t : Xf2 α) (c : Collider2 α) : Collider2 α :=
  let b := t.applyBounds c.lo c.hi
  { lo := b.1, hi := b.2,
    hits := fun r => (c.hits (innerRay2 t.inverse r)).map (outerCollision2 sqrtF t),
    count := fun r => c.count (innerRay2 t.inverse r),
    first := fun r => tcFirst2 sqrtF t c r,
    circle := fun p rad => tcCircle2 t c p rad }

/-- 2-D nested `TransformSolid`. -/
def nestSolid2 [BEq α] (ts : List (Xf2 α)) (s : Solid2 α) : Solid2 α :=
  ts.foldl (fun s t => transformSolid2 t s) s

/-- 2-D nested `TransformSDF`. -/
def nestSDF2 (ts : List (Xf2 α)) (s : SDF2 α) : SDF2 α :=
  ts.foldl (fun s t => transformSDF2 t s) s

/-- 2-D nested `TransformMetaball`. -/
def nestMetaball2 (ts : List (Xf2 α)) (m : Metaball2 α) : Metaball2 α :=
  ts.foldl (fun m t => transformMetaball2 t m) m

/-- 2-D nested `TransformCollider`. -/
def nestCollider2 (sqrtF : α → α) (ts : List (Xf2 α)) (c : Collider2 α) : Collider2 α :=
  ts.foldl (fun c t => transformCollider2 sqrtF t c) c

/-- 2-D `RayCollisions(r, f)` of a collider value. -/
def colliderRayCollisions2 (c : Collider2 α) (r : Ray2 α) (withCb : Bool) : RCResult2 α :=
  .ok (c.count r) (if withCb then c.hits r else [])

end Nest2

end M3d.Tf
