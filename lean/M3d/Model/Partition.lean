import M3d.Model.MarchingMesh
/-!
# Partitions of index ranges: block splitting, slab ring, sliding windows, raster tiles (core-only)

Executable models of the *work-distribution* code of the meshing routines (property C12):

* `Block`, `Block.split`, `pieces`, `rejected`  — `mcBlock.Split/Volume/Pieces` (model3d/mc.go);
  `Block2 …` the 2-D twin `msBlock` (model2d/marching.go).  The filter is an oracle `g : Block → Bool`
  (in Go: `f(m.Bounds(delta*1e-3))`).
* `mcFilterMesh` — `MarchingCubesFilter`: the root block is cut into the block queue with
  `divideVolume = max(Volume/4096, 64)`, a *schedule* (which worker received which queue blocks, in
  which order the per-worker meshes were merged) is a list of lists of blocks; every worker cuts its
  blocks again with `subDivideVolume = 64` and scans the leaf cells z,y,x.
* `scan` — `squareSpacer.Scan`: the ring of `g+1` layer caches and its fetch schedule.
* `DcState`, `dcAppend`, `dcShift`, `dcRun` — the z-window of `dcCubeLayout` (model3d/dc.go): edge
  storage abstracted to *slots* (slot `2l` = the X- and Y-edges of local row `l`, slot `2l+1` = its
  Z-edges; `XYZXYZ…XY`), `UsableEdges`, the per-edge `Triangulated` flag, `Shift`, `Remaining`.
* `tiles`, `tilePixels`, `rasterFilter`, `rasterPlain` — the tiles of `Rasterizer.RasterizeSolidFilter`.

Everything is over `Nat` indices; solids enter only as lattice labellings / oracles.
-/
namespace M3d.Partition
open M3d.Marching

/-! ## 1. `mcBlock` -/

/-- `mcBlock{min:[x0,y0,z0], max:[x1,y1,z1]}`: the cells `x0 ≤ x < x1`, … -/
structure Block where
  x0 : Nat
  x1 : Nat
  y0 : Nat
  y1 : Nat
  z0 : Nat
  z1 : Nat
deriving DecidableEq, Repr

namespace Block

def lenX (b : Block) : Nat := b.x1 - b.x0
def lenY (b : Block) : Nat := b.y1 - b.y0
def lenZ (b : Block) : Nat := b.z1 - b.z0

/-- `mcBlock.Volume` (for blocks with `min ≤ max`, the only ones the code creates). -/
def volume (b : Block) : Nat := b.lenX * b.lenY * b.lenZ

/-- The axis `mcBlock.Split` halves: Y if it is a longest axis, else Z if it is, else X. -/
def splitAxis (b : Block) : Nat :=
  if b.lenY ≥ b.lenX ∧ b.lenY ≥ b.lenZ then 1
  else if b.lenZ ≥ b.lenX ∧ b.lenZ ≥ b.lenY then 2
  else 0

/-- `mcBlock.Split`: halve the chosen axis at `(max+min)/2`. -/
def split (b : Block) : Block × Block :=
  if b.splitAxis = 0 then
    ({ b with x1 := (b.x1 + b.x0) / 2 }, { b with x0 := (b.x1 + b.x0) / 2 })
  else if b.splitAxis = 1 then
    ({ b with y1 := (b.y1 + b.y0) / 2 }, { b with y0 := (b.y1 + b.y0) / 2 })
  else
    ({ b with z1 := (b.z1 + b.z0) / 2 }, { b with z0 := (b.z1 + b.z0) / 2 })

/-- The cells of a block in the order the worker loop visits them (z outermost, x innermost). -/
def cells (b : Block) : List (Nat × Nat × Nat) :=
  (List.range' b.z0 b.lenZ).flatMap fun z =>
    (List.range' b.y0 b.lenY).flatMap fun y =>
      (List.range' b.x0 b.lenX).map fun x => (x, y, z)

/-- Membership of a cell, as a proposition. -/
def Mem (b : Block) (c : Nat × Nat × Nat) : Prop :=
  b.x0 ≤ c.1 ∧ c.1 < b.x1 ∧ b.y0 ≤ c.2.1 ∧ c.2.1 < b.y1 ∧ b.z0 ≤ c.2.2 ∧ c.2.2 < b.z1

theorem two_le_of_mul (a b c : Nat) (h : 2 ≤ a * b * c) (hb : b ≤ a) (hc : c ≤ a) : 2 ≤ a := by
  apply Classical.byContradiction
  intro hn
  have ha : a ≤ 1 := by omega
  have h1 : a * b ≤ 1 * 1 := Nat.mul_le_mul ha (by omega)
  have h2 : a * b * c ≤ 1 * 1 * 1 := Nat.mul_le_mul h1 (by omega)
  omega

theorem pos_of_mul3 (a b c : Nat) (h : 2 ≤ a * b * c) : 0 < a ∧ 0 < b ∧ 0 < c := by
  refine ⟨?_, ?_, ?_⟩ <;> apply Nat.pos_of_ne_zero <;> intro h0 <;> subst h0 <;> simp at h

/-- Both halves of a block of volume ≥ 2 are strictly smaller: the measure under which `Pieces`
terminates. -/
theorem split_volume_lt (b : Block) (h : 2 ≤ b.volume) :
    b.split.1.volume < b.volume ∧ b.split.2.volume < b.volume := by
  unfold volume at h
  obtain ⟨px, py, pz⟩ := pos_of_mul3 _ _ _ h
  unfold split
  by_cases h0 : b.splitAxis = 0
  · -- X is the longest axis
    have hx : b.lenY ≤ b.lenX ∧ b.lenZ ≤ b.lenX := by
      unfold splitAxis at h0
      by_cases c1 : b.lenY ≥ b.lenX ∧ b.lenY ≥ b.lenZ
      · simp [c1] at h0
      · by_cases c2 : b.lenZ ≥ b.lenX ∧ b.lenZ ≥ b.lenY
        · simp [c1, c2] at h0
        · omega
    have h2 : 2 ≤ b.lenX := two_le_of_mul b.lenX b.lenY b.lenZ h hx.1 hx.2
    simp only [h0, if_true]
    unfold lenX at h2
    have e1 : (b.x1 + b.x0) / 2 - b.x0 < b.lenX := by unfold lenX; omega
    have e2 : b.x1 - (b.x1 + b.x0) / 2 < b.lenX := by unfold lenX; omega
    constructor
    · show ((b.x1 + b.x0) / 2 - b.x0) * b.lenY * b.lenZ < b.lenX * b.lenY * b.lenZ
      exact Nat.mul_lt_mul_of_lt_of_le (Nat.mul_lt_mul_of_lt_of_le e1 (Nat.le_refl _) py) (Nat.le_refl _) pz
    · show (b.x1 - (b.x1 + b.x0) / 2) * b.lenY * b.lenZ < b.lenX * b.lenY * b.lenZ
      exact Nat.mul_lt_mul_of_lt_of_le (Nat.mul_lt_mul_of_lt_of_le e2 (Nat.le_refl _) py) (Nat.le_refl _) pz
  · by_cases h1 : b.splitAxis = 1
    · have hy : b.lenX ≤ b.lenY ∧ b.lenZ ≤ b.lenY := by
        unfold splitAxis at h1
        by_cases c1 : b.lenY ≥ b.lenX ∧ b.lenY ≥ b.lenZ
        · omega
        · by_cases c2 : b.lenZ ≥ b.lenX ∧ b.lenZ ≥ b.lenY
          · simp [c1, c2] at h1
          · simp [c1, c2] at h1
      have h2 : 2 ≤ b.lenY := by
        apply two_le_of_mul b.lenY b.lenX b.lenZ _ hy.1 hy.2
        rw [Nat.mul_comm b.lenY b.lenX]; exact h
      simp only [h1, if_true]
      unfold lenY at h2
      have e1 : (b.y1 + b.y0) / 2 - b.y0 < b.lenY := by unfold lenY; omega
      have e2 : b.y1 - (b.y1 + b.y0) / 2 < b.lenY := by unfold lenY; omega
      constructor
      · show b.lenX * ((b.y1 + b.y0) / 2 - b.y0) * b.lenZ < b.lenX * b.lenY * b.lenZ
        exact Nat.mul_lt_mul_of_lt_of_le (Nat.mul_lt_mul_of_le_of_lt (Nat.le_refl _) e1 px) (Nat.le_refl _) pz
      · show b.lenX * (b.y1 - (b.y1 + b.y0) / 2) * b.lenZ < b.lenX * b.lenY * b.lenZ
        exact Nat.mul_lt_mul_of_lt_of_le (Nat.mul_lt_mul_of_le_of_lt (Nat.le_refl _) e2 px) (Nat.le_refl _) pz
    · have hz : b.lenX ≤ b.lenZ ∧ b.lenY ≤ b.lenZ := by
        unfold splitAxis at h0 h1
        by_cases c1 : b.lenY ≥ b.lenX ∧ b.lenY ≥ b.lenZ
        · simp [c1] at h1
        · by_cases c2 : b.lenZ ≥ b.lenX ∧ b.lenZ ≥ b.lenY
          · omega
          · simp [c1, c2] at h0
      have h2 : 2 ≤ b.lenZ := by
        apply two_le_of_mul b.lenZ b.lenX b.lenY _ hz.1 hz.2
        rw [Nat.mul_comm b.lenZ b.lenX, Nat.mul_assoc, Nat.mul_comm b.lenZ b.lenY, ← Nat.mul_assoc]
        exact h
      simp only [h0, h1, if_false]
      unfold lenZ at h2
      have e1 : (b.z1 + b.z0) / 2 - b.z0 < b.lenZ := by unfold lenZ; omega
      have e2 : b.z1 - (b.z1 + b.z0) / 2 < b.lenZ := by unfold lenZ; omega
      have pxy : 0 < b.lenX * b.lenY := Nat.mul_pos px py
      constructor
      · show b.lenX * b.lenY * ((b.z1 + b.z0) / 2 - b.z0) < b.lenX * b.lenY * b.lenZ
        exact Nat.mul_lt_mul_of_le_of_lt (Nat.le_refl _) e1 pxy
      · show b.lenX * b.lenY * (b.z1 - (b.z1 + b.z0) / 2) < b.lenX * b.lenY * b.lenZ
        exact Nat.mul_lt_mul_of_le_of_lt (Nat.le_refl _) e2 pxy

end Block

/-- `mcBlock.Pieces(minVolume, g, f)`: the blocks handed to `f`, in call order.  `g` is the filter
oracle.  `minVolume ≥ 1` (the code uses 64 and `max(Volume/4096, 64)`); termination is by `Volume`. -/
def pieces (minVol : Nat) (hpos : 0 < minVol) (g : Block → Bool) (b : Block) : List Block :=
  if g b = false then []
  else if b.volume / 2 < minVol then [b]
  else pieces minVol hpos g b.split.1 ++ pieces minVol hpos g b.split.2
termination_by b.volume
decreasing_by
  · exact (Block.split_volume_lt b (by omega)).1
  · exact (Block.split_volume_lt b (by omega)).2

/-- The blocks at which the recursion of `Pieces` stopped because the filter said no. -/
def rejected (minVol : Nat) (hpos : 0 < minVol) (g : Block → Bool) (b : Block) : List Block :=
  if g b = false then [b]
  else if b.volume / 2 < minVol then []
  else rejected minVol hpos g b.split.1 ++ rejected minVol hpos g b.split.2
termination_by b.volume
decreasing_by
  · exact (Block.split_volume_lt b (by omega)).1
  · exact (Block.split_volume_lt b (by omega)).2

/-! ## 2. `msBlock` (2-D twin) -/

structure Block2 where
  x0 : Nat
  x1 : Nat
  y0 : Nat
  y1 : Nat
deriving DecidableEq, Repr

namespace Block2

def lenX (b : Block2) : Nat := b.x1 - b.x0
def lenY (b : Block2) : Nat := b.y1 - b.y0

/-- `msBlock.Area`. -/
def area (b : Block2) : Nat := b.lenX * b.lenY

/-- `msBlock.Split` halves Y when `lenY ≥ lenX`, else X. -/
def splitAxis (b : Block2) : Nat := if b.lenY ≥ b.lenX then 1 else 0

def split (b : Block2) : Block2 × Block2 :=
  if b.splitAxis = 0 then
    ({ b with x1 := (b.x1 + b.x0) / 2 }, { b with x0 := (b.x1 + b.x0) / 2 })
  else
    ({ b with y1 := (b.y1 + b.y0) / 2 }, { b with y0 := (b.y1 + b.y0) / 2 })

def cells (b : Block2) : List (Nat × Nat) :=
  (List.range' b.y0 b.lenY).flatMap fun y => (List.range' b.x0 b.lenX).map fun x => (x, y)

def Mem (b : Block2) (c : Nat × Nat) : Prop :=
  b.x0 ≤ c.1 ∧ c.1 < b.x1 ∧ b.y0 ≤ c.2 ∧ c.2 < b.y1

theorem split_area_lt (b : Block2) (h : 2 ≤ b.area) :
    b.split.1.area < b.area ∧ b.split.2.area < b.area := by
  unfold area at h
  have px : 0 < b.lenX := by
    apply Nat.pos_of_ne_zero; intro h0; rw [h0] at h; simp at h
  have py : 0 < b.lenY := by
    apply Nat.pos_of_ne_zero; intro h0; rw [h0] at h; simp at h
  unfold split
  by_cases h0 : b.splitAxis = 0
  · have hx : b.lenY < b.lenX := by
      unfold splitAxis at h0
      split at h0 <;> omega
    have h2 : 2 ≤ b.lenX := by omega
    simp only [h0, if_true]
    unfold lenX at h2
    have e1 : (b.x1 + b.x0) / 2 - b.x0 < b.lenX := by unfold lenX; omega
    have e2 : b.x1 - (b.x1 + b.x0) / 2 < b.lenX := by unfold lenX; omega
    constructor
    · show ((b.x1 + b.x0) / 2 - b.x0) * b.lenY < b.lenX * b.lenY
      exact Nat.mul_lt_mul_of_lt_of_le e1 (Nat.le_refl _) py
    · show (b.x1 - (b.x1 + b.x0) / 2) * b.lenY < b.lenX * b.lenY
      exact Nat.mul_lt_mul_of_lt_of_le e2 (Nat.le_refl _) py
  · have hy : b.lenX ≤ b.lenY := by
      unfold splitAxis at h0
      split at h0 <;> omega
    have h2 : 2 ≤ b.lenY := by
      apply Classical.byContradiction
      intro hn
      have h1 : b.lenX * b.lenY ≤ 1 * 1 := Nat.mul_le_mul (by omega) (by omega)
      omega
    simp only [h0, if_false]
    unfold lenY at h2
    have e1 : (b.y1 + b.y0) / 2 - b.y0 < b.lenY := by unfold lenY; omega
    have e2 : b.y1 - (b.y1 + b.y0) / 2 < b.lenY := by unfold lenY; omega
    constructor
    · show b.lenX * ((b.y1 + b.y0) / 2 - b.y0) < b.lenX * b.lenY
      exact Nat.mul_lt_mul_of_le_of_lt (Nat.le_refl _) e1 px
    · show b.lenX * (b.y1 - (b.y1 + b.y0) / 2) < b.lenX * b.lenY
      exact Nat.mul_lt_mul_of_le_of_lt (Nat.le_refl _) e2 px

end Block2

/-- `msBlock.Pieces`. -/
def pieces2 (minArea : Nat) (hpos : 0 < minArea) (g : Block2 → Bool) (b : Block2) : List Block2 :=
  if g b = false then []
  else if b.area / 2 < minArea then [b]
  else pieces2 minArea hpos g b.split.1 ++ pieces2 minArea hpos g b.split.2
termination_by b.area
decreasing_by
  · exact (Block2.split_area_lt b (by omega)).1
  · exact (Block2.split_area_lt b (by omega)).2

def rejected2 (minArea : Nat) (hpos : 0 < minArea) (g : Block2 → Bool) (b : Block2) : List Block2 :=
  if g b = false then [b]
  else if b.area / 2 < minArea then []
  else rejected2 minArea hpos g b.split.1 ++ rejected2 minArea hpos g b.split.2
termination_by b.area
decreasing_by
  · exact (Block2.split_area_lt b (by omega)).1
  · exact (Block2.split_area_lt b (by omega)).2

/-! ## 3. `MarchingCubesFilter` / `MarchingSquaresFilter` -/

abbrev Tri3 := GV × GV × GV
abbrev Seg2 := GV2 × GV2

/-- The triangles one cell contributes (`table[bits]` mapped through `t.Triangle(corners)`), in
doubled lattice coordinates — the same expression as inside `M3d.Marching.mcMesh`. -/
def cellTris (table : List (List (List Nat))) (lab : Nat → Nat → Nat → Bool)
    (c : Nat × Nat × Nat) : List Tri3 :=
  (getRow table (cellCfg lab c.1 c.2.1 c.2.2)).filterMap fun r => match r with
    | [a0, a1, b0, b1, c0, c1] =>
      some (gvOf c.1 c.2.1 c.2.2 a0 a1, gvOf c.1 c.2.1 c.2.2 b0 b1, gvOf c.1 c.2.1 c.2.2 c0 c1)
    | _ => none

def cellSegs (table : List (List (List Nat))) (lab : Nat → Nat → Bool) (c : Nat × Nat) : List Seg2 :=
  (getRow table (cellCfg2 lab c.1 c.2)).filterMap fun r => match r with
    | [a0, a1, b0, b1] => some (gv2Of c.1 c.2 a0 a1, gv2Of c.1 c.2 b0 b1)
    | _ => none

/-- What the worker closure adds for one leaf block. -/
def blockMesh (table : List (List (List Nat))) (lab : Nat → Nat → Nat → Bool) (b : Block) : List Tri3 :=
  b.cells.flatMap (cellTris table lab)

def blockMesh2 (table : List (List (List Nat))) (lab : Nat → Nat → Bool) (b : Block2) : List Seg2 :=
  b.cells.flatMap (cellSegs table lab)

/-- `newMcBlock(spacer)`: all cells of a lattice with `nx × ny × nz` cells. -/
def rootBlock (nx ny nz : Nat) : Block := ⟨0, nx, 0, ny, 0, nz⟩
def rootBlock2 (nx ny : Nat) : Block2 := ⟨0, nx, 0, ny⟩

def subDivideVolume : Nat := 64
theorem subDivideVolume_pos : 0 < subDivideVolume := by decide

/-- `essentials.MaxInt(rootBlock.Volume()/4096, subDivideVolume)`. -/
def divideVolume (v : Nat) : Nat := max (v / 4096) subDivideVolume
theorem divideVolume_pos (v : Nat) : 0 < divideVolume v := by
  unfold divideVolume subDivideVolume; omega

/-- The blocks the main goroutine pushes into `blockQueue`, in order. -/
def blockQueue (g : Block → Bool) (root : Block) : List Block :=
  pieces (divideVolume root.volume) (divideVolume_pos _) g root

def blockQueue2 (g : Block2 → Bool) (root : Block2) : List Block2 :=
  pieces2 (divideVolume root.area) (divideVolume_pos _) g root

/-- One worker goroutine: the mesh it builds from the queue blocks it happened to receive. -/
def workerMesh (table : List (List (List Nat))) (lab : Nat → Nat → Nat → Bool) (g : Block → Bool)
    (blocks : List Block) : List Tri3 :=
  blocks.flatMap fun blk => (pieces subDivideVolume subDivideVolume_pos g blk).flatMap (blockMesh table lab)

def workerMesh2 (table : List (List (List Nat))) (lab : Nat → Nat → Bool) (g : Block2 → Bool)
    (blocks : List Block2) : List Seg2 :=
  blocks.flatMap fun blk => (pieces2 subDivideVolume subDivideVolume_pos g blk).flatMap (blockMesh2 table lab)

/-- `MarchingCubesFilter` for one schedule: `sched` lists, in the order the per-worker meshes were
received from `outputs` and merged with `AddMesh`, the queue blocks each worker processed. -/
def mcFilterMesh (table : List (List (List Nat))) (lab : Nat → Nat → Nat → Bool) (g : Block → Bool)
    (sched : List (List Block)) : List Tri3 :=
  sched.flatMap (workerMesh table lab g)

def msFilterMesh (table : List (List (List Nat))) (lab : Nat → Nat → Bool) (g : Block2 → Bool)
    (sched : List (List Block2)) : List Seg2 :=
  sched.flatMap (workerMesh2 table lab g)

/-- A schedule is admissible for a queue when the blocks handed to the workers are, together,
exactly the queue (each block received by exactly one worker). -/
def Schedule (queue : List Block) (sched : List (List Block)) : Prop := sched.flatten.Perm queue
def Schedule2 (queue : List Block2) (sched : List (List Block2)) : Prop := sched.flatten.Perm queue

/-- The filter only says no to blocks all of whose cells have eight equally labelled corners. -/
def uniformCell (lab : Nat → Nat → Nat → Bool) (c : Nat × Nat × Nat) : Prop :=
  ∀ k, k < 8 → lab (c.1 + cornerOff k 0) (c.2.1 + cornerOff k 1) (c.2.2 + cornerOff k 2) = lab c.1 c.2.1 c.2.2

def uniformCell2 (lab : Nat → Nat → Bool) (c : Nat × Nat) : Prop :=
  ∀ k, k < 4 → lab (c.1 + cornerOff k 0) (c.2 + cornerOff k 1) = lab c.1 c.2

/-! ## 4. `squareSpacer.Scan` -/

/-- One iteration `nextZ = z` of the loop of `Scan`: the state is which layer each cache holds (or
is fetching) and the calls `f(z, caches[prev], caches[cur])` made so far, as
`(z, layer in bottom cache, layer in top cache)`. -/
def scanStep (g nz : Nat) (st : (Nat → Nat) × List (Nat × Nat × Nat)) (z : Nat) :
    (Nat → Nat) × List (Nat × Nat × Nat) :=
  let prev := (z - 1) % (g + 1)
  let cur := z % (g + 1)
  (if z + g < nz then fun j => if j = prev then z + g else st.1 j else st.1,
   st.2 ++ [(z, st.1 prev, st.1 cur)])

/-- `Scan` with `GOMAXPROCS = procs` on `nz = len(Zs)` layers: `g = min(procs, nz-1)`, `g+1` caches,
cache `i` first fetches layer `i`. -/
def scan (procs nz : Nat) : List (Nat × Nat × Nat) :=
  ((List.range' 1 (nz - 1)).foldl (scanStep (min procs (nz - 1)) nz) (fun i => i, [])).2

/-- configuration of cell `(x,y)` between a bottom layer `zb` and a top layer `zt` (what
`bottomCache.GetSquare | topCache.GetSquare << 4` reads) -/
def cellCfgLayers (lab : Nat → Nat → Nat → Bool) (x y zb zt : Nat) : Nat :=
  (List.range 8).foldl (fun acc c =>
    if lab (x + cornerOff c 0) (y + cornerOff c 1) (if cornerOff c 2 = 0 then zb else zt)
    then acc + 2 ^ c else acc) 0

/-- `MarchingCubes` through the slab pipeline (`nx ny` cells per row/column, `nzp` lattice layers). -/
def mcScanMesh (table : List (List (List Nat))) (nx ny nzp procs : Nat)
    (lab : Nat → Nat → Nat → Bool) : List Tri3 :=
  (scan procs nzp).flatMap fun s => (List.range ny).flatMap fun y => (List.range nx).flatMap fun x =>
    (getRow table (cellCfgLayers lab x y s.2.1 s.2.2)).filterMap fun r => match r with
      | [a0, a1, b0, b1, c0, c1] =>
        some (gvOf x y (s.1 - 1) a0 a1, gvOf x y (s.1 - 1) b0 b1, gvOf x y (s.1 - 1) c0 c1)
      | _ => none

/-! ## 5. `dcCubeLayout`: the sliding z-window of dual contouring -/

/-- `ZOffset` and the `Triangulated` flag of every edge slot of the buffer (slot `2l` = X/Y edges of
local row `l`, slot `2l+1` = Z edges of local row `l`; a buffer of `B` rows has `2B-1` slots).  One
flag per slot = one fixed edge position within the rows; flags of different edges do not interact. -/
structure DcState where
  zOff : Nat
  flags : Nat → Bool

def dcInit : DcState := ⟨0, fun _ => false⟩

def dcSlots (B : Nat) : Nat := 2 * B - 1

/-- `BufRows`: `bufSize == 0` means `DefaultDualContouringBufferSize`; then
`essentials.MinInt(essentials.MaxInt(bufSize/(len(Xs)*len(Ys)), 4), len(Zs))`. -/
def dcBufRows (bufSize nx ny nz : Nat) : Nat :=
  min (max ((if bufSize = 0 then 1000000 else bufSize) / (nx * ny)) 4) nz

/-- `Remaining()`. -/
def dcRemaining (nz B : Nat) (s : DcState) : Nat := nz - (B + s.zOff)

/-- `UsableEdges()` in slots: everything, minus the X/Y edges of the top row unless at the bottom. -/
def dcUsable (nz B : Nat) (s : DcState) : Nat :=
  if s.zOff + B = nz then dcSlots B else dcSlots B - 1

/-- `appendMesh`: every usable, active, not yet triangulated edge is triangulated and flagged.
Output: `(global slot, local slot)` of the edges triangulated in this window. -/
def dcAppend (nz B : Nat) (active : Nat → Bool) (s : DcState) : List (Nat × Nat) × DcState :=
  let u := dcUsable nz B s
  (((List.range u).filter fun i => !s.flags i && active (2 * s.zOff + i)).map fun i => (2 * s.zOff + i, i),
   { s with flags := fun i => s.flags i || (decide (i < u) && active (2 * s.zOff + i)) })

/-- `Shift()`: move up by `min(Remaining, BufRows-2)` rows; records (flags included) are copied down,
the freed rows are zeroed. -/
def dcShift (nz B : Nat) (s : DcState) : DcState :=
  let r := min (dcRemaining nz B s) (B - 2)
  { zOff := s.zOff + r,
    flags := fun i => if i + 2 * r < dcSlots B then s.flags (i + 2 * r) else false }

/-- The loop of `DualContouring.mesh`: append, stop when nothing remains, else shift.  `2 < B`
holds for every `BufRows` the constructor can produce when `len(Zs) ≥ 3`. -/
def dcRun (nz B : Nat) (hB : 2 < B) (active : Nat → Bool) (s : DcState) : List (List (Nat × Nat)) :=
  if _h : dcRemaining nz B (dcAppend nz B active s).2 = 0 then [(dcAppend nz B active s).1]
  else (dcAppend nz B active s).1 :: dcRun nz B hB active (dcShift nz B (dcAppend nz B active s).2)
termination_by dcRemaining nz B s
decreasing_by
  simp only [dcRemaining, dcAppend, dcShift] at *
  omega

/-- Lattice edges with differently labelled ends, as `(axis, x, y, z)`, row by row in storage order
(`nx ny nz` lattice points per axis). -/
def dcActiveEdges (lab : Nat → Nat → Nat → Bool) (nx ny nz : Nat) : List (Nat × Nat × Nat × Nat) :=
  (List.range nz).flatMap fun z =>
    ((List.range ny).flatMap fun y => (List.range (nx - 1)).filterMap fun x =>
      if lab x y z != lab (x + 1) y z then some (0, x, y, z) else none) ++
    ((List.range (ny - 1)).flatMap fun y => (List.range nx).filterMap fun x =>
      if lab x y z != lab x (y + 1) z then some (1, x, y, z) else none) ++
    (if z + 1 < nz then
      (List.range ny).flatMap fun y => (List.range nx).filterMap fun x =>
        if lab x y z != lab x y (z + 1) then some (2, x, y, z) else none
     else [])

/-! ## 6. `RasterizeSolidFilter` tiles -/

/-- `essentials.MaxInt(1, 16/r.subsamples())`. -/
def filterSize (subsamples : Nat) : Nat := max 1 (16 / subsamples)

/-- `for y := 0; y < n; y += fs`. -/
def tileStarts (n fs : Nat) : List Nat := (List.range ((n + fs - 1) / fs)).map (· * fs)

structure Tile where
  x : Nat
  y : Nat
  nextX : Nat
  nextY : Nat
deriving DecidableEq, Repr

def tiles (w h fs : Nat) : List Tile :=
  (tileStarts h fs).flatMap fun y => (tileStarts w fs).map fun x =>
    ⟨x, y, min w (x + fs), min h (y + fs)⟩

def tilePixels (t : Tile) : List (Nat × Nat) :=
  (List.range' t.y (t.nextY - t.y)).flatMap fun sy =>
    (List.range' t.x (t.nextX - t.x)).map fun sx => (sx, sy)

def allPixels (w h : Nat) : List (Nat × Nat) :=
  (List.range h).flatMap fun y => (List.range w).map fun x => (x, y)

/-- The pixel writes of `RasterizeSolidFilter`: a tile the filter keeps is rendered pixel by pixel,
a skipped tile is filled with the colour of its mid point. -/
def rasterFilter (w h fs : Nat) (keep : Tile → Bool) (fill : Tile → Nat) (render : Nat × Nat → Nat) :
    List ((Nat × Nat) × Nat) :=
  (tiles w h fs).flatMap fun t => (tilePixels t).map fun p => (p, if keep t then render p else fill t)

/-- The pixel writes of `RasterizeSolid`. -/
def rasterPlain (w h : Nat) (render : Nat × Nat → Nat) : List ((Nat × Nat) × Nat) :=
  (allPixels w h).map fun p => (p, render p)

/-- `1 - rasterizePixel`, then `uint8(floor(px*255.999))`, as a function of how many of the `n`
sub-samples are inside: abstract except for the two values the tile fill relies on. -/
structure Shade where
  f : Nat → Nat → Nat
  full : ∀ n, 0 < n → f n n = 0
  empty : ∀ n, f 0 n = 255

/-- number of sub-samples of a pixel that are inside -/
def insideCount {P : Type} (contains : P → Bool) (samples : List P) : Nat := (samples.filter contains).length

def renderPixel {P : Type} (sh : Shade) (contains : P → Bool) (samples : Nat × Nat → List P) (p : Nat × Nat) : Nat :=
  sh.f (insideCount contains (samples p)) (samples p).length

def fillTile {P : Type} (contains : P → Bool) (mid : Tile → P) (t : Tile) : Nat :=
  if contains (mid t) then 0 else 255

end M3d.Partition
