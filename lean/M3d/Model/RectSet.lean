/-!
# Executable model of `toolbox3d.RectSet` and its solid (C04)

Source: `/repo/toolbox3d/rect_set.go`.  Core Lean only.

* a coordinate triple (`model3d.Coord3D`, and the per-axis array `[3]…`) is a `V3`; `get axis` /
  `set axis` are `Array()[axis]` and `arr[axis] = v` (axes are 0, 1, 2);
* the Go map `rects map[model3d.Rect]bool` is a duplicate-free list (iteration order is never
  observable: every loop over it is a commutative update or a filter);
* `splits [3][]float64` are three ascending duplicate-free lists;
* `rectSlice()` additionally returns `len(rects)` zero rects in front — `splitRect` of the zero
  rect always answers "no split" (`0 >= v || 0 <= v`), so they are omitted here;
* NaN coordinates are excluded.
-/
namespace M3d.RectSet

structure V3 (α : Type) where
  x : α
  y : α
  z : α
deriving DecidableEq

def V3.get {α} (v : V3 α) : Nat → α
  | 0 => v.x
  | 1 => v.y
  | _ => v.z

def V3.set {α} (v : V3 α) (i : Nat) (a : α) : V3 α :=
  match i with
  | 0 => { v with x := a }
  | 1 => { v with y := a }
  | _ => { v with z := a }

structure Rect (α : Type) where
  lo : V3 α
  hi : V3 α
deriving DecidableEq

section
variable {α : Type} [LE α] [DecidableLE α] [LT α] [DecidableLT α] [DecidableEq α] [OfNat α 0]

/-- `Rect.Contains`. -/
def Rect.contains (r : Rect α) (p : V3 α) : Bool :=
  [0, 1, 2].all fun i => decide (r.lo.get i ≤ p.get i) && decide (p.get i ≤ r.hi.get i)

/-- Package-level `splitRect(r, axis, value)`; `none` = `ok == false`. -/
def splitRect (r : Rect α) (axis : Nat) (value : α) : Option (Rect α × Rect α) :=
  if value ≤ r.lo.get axis ∨ r.hi.get axis ≤ value then none
  else some (⟨r.lo, r.hi.set axis value⟩, ⟨r.lo.set axis value, r.hi⟩)

/-- Set insertion into the map-as-list. -/
def insertRect (rs : List (Rect α)) (r : Rect α) : List (Rect α) :=
  if r ∈ rs then rs else rs ++ [r]

structure RS (α : Type) where
  rects : List (Rect α)
  splits : V3 (List α)

def RS.empty : RS α := ⟨[], ⟨[], [], []⟩⟩

/-- `sort.SearchFloat64s` on an ascending list: least index whose entry is `≥ v`. -/
def searchGE (xs : List α) (v : α) : Nat := (xs.takeWhile fun x => decide (x < v)).length

def insertAt (xs : List α) (idx : Nat) (v : α) : List α := xs.take idx ++ v :: xs.drop idx

/-- The loop of `addSplit` over the snapshot `rectSlice()`, editing the map. -/
def splitAll (rects : List (Rect α)) (axis : Nat) (value : α) : List (Rect α) :=
  rects.foldl (fun acc r =>
    match splitRect r axis value with
    | some (r1, r2) => insertRect (insertRect (acc.erase r) r1) r2
    | none => acc) rects

/-- `RectSet.addSplit`. -/
def addSplit (s : RS α) (axis : Nat) (value : α) : RS α :=
  let xs := s.splits.get axis
  let idx := searchGE xs value
  if idx = xs.length then ⟨s.rects, s.splits.set axis (xs ++ [value])⟩
  else if xs.getD idx 0 = value then s
  else
    let splits := s.splits.set axis (insertAt xs idx value)
    if idx > 0 then ⟨splitAll s.rects axis value, splits⟩
    else ⟨s.rects, splits⟩

/-- `RectSet.addRectSplits`. -/
def addRectSplits (s : RS α) (r : Rect α) : RS α :=
  [0, 1, 2].foldl (fun s axis =>
    addSplit (addSplit s axis (r.lo.get axis)) axis (r.hi.get axis)) s

/-- `RectSet.splitRectAxis`: state of the loop is (pieces so far, remaining rect). -/
def splitRectAxisLoop (axis : Nat) : List (Rect α) × Rect α → List α → List (Rect α) × Rect α
  | acc, [] => acc
  | acc, v :: vs =>
    match splitRect acc.2 axis v with
    | some (r1, r2) => splitRectAxisLoop axis (acc.1 ++ [r1], r2) vs
    | none => splitRectAxisLoop axis acc vs

def splitRectAxis (splits : List α) (r : Rect α) (axis : Nat) : List (Rect α) :=
  let res := splitRectAxisLoop axis ([], r) splits
  res.1 ++ [res.2]

/-- Method `RectSet.splitRect`. -/
def splitRectAll (splits : V3 (List α)) (r : Rect α) : List (Rect α) :=
  [0, 1, 2].foldl (fun rects axis =>
    rects.flatMap fun r => splitRectAxis (splits.get axis) r axis) [r]

/-- Ascending duplicate-free insertion (the effect of map-dedup + `sort.Float64s`). -/
def insertSortedU (v : α) : List α → List α
  | [] => [v]
  | x :: xs => if v < x then v :: x :: xs else if v = x then x :: xs else x :: insertSortedU v xs

/-- `RectSet.rebuildSplits`. -/
def rebuildAxis (rects : List (Rect α)) (axis : Nat) : List α :=
  rects.foldl (fun acc r => insertSortedU (r.hi.get axis) (insertSortedU (r.lo.get axis) acc)) []

def rebuildSplits (rects : List (Rect α)) : V3 (List α) :=
  ⟨rebuildAxis rects 0, rebuildAxis rects 1, rebuildAxis rects 2⟩

/-- `RectSet.Add`. -/
def RS.add (s : RS α) (r : Rect α) : RS α :=
  let s := addRectSplits s r
  ⟨(splitRectAll s.splits r).foldl insertRect s.rects, s.splits⟩

/-- `RectSet.Remove`. -/
def RS.remove (s : RS α) (r : Rect α) : RS α :=
  let s := addRectSplits s r
  let rects := (splitRectAll s.splits r).foldl (fun acc p => acc.erase p) s.rects
  ⟨rects, rebuildSplits rects⟩

/-- The first loop of `AddRectSet` / `RemoveRectSet`: adopt every split of the other set. -/
def addSplitsOf (s : RS α) (other : V3 (List α)) : RS α :=
  [0, 1, 2].foldl (fun s axis => (other.get axis).foldl (fun s v => addSplit s axis v) s) s

/-- `RectSet.AddRectSet`. -/
def RS.addSet (s s1 : RS α) : RS α :=
  let s := addSplitsOf s s1.splits
  ⟨s1.rects.foldl (fun acc r => (splitRectAll s.splits r).foldl insertRect acc) s.rects, s.splits⟩

/-- `RectSet.RemoveRectSet`. -/
def RS.removeSet (s s1 : RS α) : RS α :=
  let s := addSplitsOf s s1.splits
  let rects := s1.rects.foldl (fun acc r => (splitRectAll s.splits r).foldl (fun a p => a.erase p) acc) s.rects
  ⟨rects, rebuildSplits rects⟩

/-- `RectSet.Min()` / `Max()`. -/
def RS.min (s : RS α) : V3 α :=
  if s.rects.isEmpty then ⟨0, 0, 0⟩
  else ⟨s.splits.x.getD 0 0, s.splits.y.getD 0 0, s.splits.z.getD 0 0⟩
def RS.max (s : RS α) : V3 α :=
  if s.rects.isEmpty then ⟨0, 0, 0⟩
  else ⟨s.splits.x.getD (s.splits.x.length - 1) 0, s.splits.y.getD (s.splits.y.length - 1) 0,
        s.splits.z.getD (s.splits.z.length - 1) 0⟩

/-! ## The solid -/

inductive Tree (α : Type) where
  | empty : Tree α
  | single (r : Rect α) : Tree α
  | many (rects : List (Rect α)) : Tree α
  | node (axis : Nat) (cutoff : α) (below above : Tree α) (lo hi : V3 α) : Tree α

/-- `splitRectSet`: the LAST axis with the most splits (`>=`), cutoff = its middle split. -/
def splitAxis (splits : V3 (List α)) : Nat × Nat :=
  [0, 1, 2].foldl (fun (acc : Nat × Nat) i =>
    let l := (splits.get i).length
    if l ≥ acc.2 then (i, l) else acc) (0, 0)

def splitRectSet (s : RS α) : RS α × RS α × Nat × α :=
  let (axis, len) := splitAxis s.splits
  let cutoff := (s.splits.get axis).getD (len / 2) 0
  let r1 := s.rects.filter fun r => decide (r.lo.get axis < cutoff)
  let r2 := s.rects.filter fun r => !decide (r.lo.get axis < cutoff)
  (⟨r1, rebuildSplits r1⟩, ⟨r2, rebuildSplits r2⟩, axis, cutoff)

/-- `newRectSetSolid`.  `fuel` only makes the recursion structural: both halves of a split that
separates the rects are strictly smaller, and a split that does not separate them ends the recursion
(`many`), so `fuel = number of rects` always suffices (`Lemmas/RectSetInv.lean`). -/
def build : Nat → RS α → Option (Tree α)
  | 0, _ => none
  | fuel + 1, s =>
    match s.rects with
    | [] => some .empty
    | [r] => some (.single r)
    | _ =>
      let (s1, s2, axis, cutoff) := splitRectSet s
      if s1.rects.isEmpty || s2.rects.isEmpty then some (.many s.rects)
      else
        match build fuel s1, build fuel s2 with
        | some b, some a => some (.node axis cutoff b a s.min s.max)
        | _, _ => none

/-- `rectSetSolid.Contains`. -/
def Tree.contains : Tree α → V3 α → Bool
  | .empty, _ => false
  | .single r, p => r.contains p
  | .many rs, p => rs.any fun r => r.contains p
  | .node axis cutoff below above lo hi, p =>
    if !((⟨lo, hi⟩ : Rect α).contains p) then false
    else if p.get axis < cutoff then below.contains p
    else if cutoff < p.get axis then above.contains p
    else (if below.contains p then true else above.contains p)

/-- The rects at the leaves. -/
def Tree.rects : Tree α → List (Rect α)
  | .empty => []
  | .single r => [r]
  | .many rs => rs
  | .node _ _ b a _ _ => b.rects ++ a.rects

/-- Executable form of the per-node facts the descent relies on
(`Lemmas/RectSetTree.lean` proves it implies `Tree.WellSplit`). -/
def Tree.wellSplitB : Tree α → Bool
  | .empty => true
  | .single _ => true
  | .many _ => true
  | .node axis cutoff b a lo hi =>
    b.wellSplitB && a.wellSplitB && decide (axis < 3) &&
    b.rects.all (fun r => decide (r.hi.get axis ≤ cutoff)) &&
    a.rects.all (fun r => decide (cutoff ≤ r.lo.get axis)) &&
    (b.rects ++ a.rects).all (fun r => [0, 1, 2].all fun i =>
      decide (lo.get i ≤ r.lo.get i) && decide (r.hi.get i ≤ hi.get i))

/-! ## Histories and what they mean as point sets -/

/-- A way to arrive at a `RectSet` value: `NewRectSet()`, `Add`, `Remove`, `AddRectSet`, `RemoveRectSet`. -/
inductive Hist (α : Type) where
  | new : Hist α
  | add (h : Hist α) (r : Rect α) : Hist α
  | remove (h : Hist α) (r : Rect α) : Hist α
  | addSet (h h1 : Hist α) : Hist α
  | removeSet (h h1 : Hist α) : Hist α

/-- The `RectSet` value a history produces. -/
def Hist.eval : Hist α → RS α
  | .new => RS.empty
  | .add h r => h.eval.add r
  | .remove h r => h.eval.remove r
  | .addSet h h1 => h.eval.addSet h1.eval
  | .removeSet h h1 => h.eval.removeSet h1.eval

/-- The point set a history denotes: boxes added, minus boxes removed, in order. -/
def Hist.sem : Hist α → V3 α → Bool
  | .new, _ => false
  | .add h r, p => h.sem p || r.contains p
  | .remove h r, p => h.sem p && !(r.contains p)
  | .addSet h h1, p => h.sem p || h1.sem p
  | .removeSet h h1, p => h.sem p && !(h1.sem p)

/-- Every box of the history. -/
def Hist.boxes : Hist α → List (Rect α)
  | .new => []
  | .add h r => r :: h.boxes
  | .remove h r => r :: h.boxes
  | .addSet h h1 => h.boxes ++ h1.boxes
  | .removeSet h h1 => h.boxes ++ h1.boxes

end
end M3d.RectSet
