/-!
# Executable model of `toolbox3d.RectSet` and its solid (C04)

Source: `/repo/toolbox3d/rect_set.go`.  Core Lean only.

* a `Rect` is its two corners as coordinate lists (length 3; entry `axis` read with `getD`);
* the Go map `rects map[model3d.Rect]bool` is a duplicate-free list (iteration order is never
  observable: every loop over it is a commutative update or a filter);
* `splits [3][]float64` are three ascending duplicate-free lists;
* `rectSlice()` additionally returns `len(rects)` zero rects in front — `splitRect` of the zero
  rect always answers "no split" (`0 >= v || 0 <= v`), so they are omitted here;
* NaN coordinates are excluded.
-/
namespace M3d.RectSet

structure Rect (α : Type) where
  lo : List α
  hi : List α
deriving DecidableEq

section
variable {α : Type} [LE α] [DecidableLE α] [LT α] [DecidableLT α] [DecidableEq α] [OfNat α 0]

/-- `Rect.Contains`. -/
def Rect.contains (r : Rect α) (p : List α) : Bool :=
  (List.range 3).all fun i => decide (r.lo.getD i 0 ≤ p.getD i 0) && decide (p.getD i 0 ≤ r.hi.getD i 0)

/-- Package-level `splitRect(r, axis, value)`; `none` = `ok == false`. -/
def splitRect (r : Rect α) (axis : Nat) (value : α) : Option (Rect α × Rect α) :=
  if value ≤ r.lo.getD axis 0 ∨ r.hi.getD axis 0 ≤ value then none
  else some (⟨r.lo, r.hi.set axis value⟩, ⟨r.lo.set axis value, r.hi⟩)

/-- Set insertion into the map-as-list. -/
def insertRect (rs : List (Rect α)) (r : Rect α) : List (Rect α) :=
  if r ∈ rs then rs else rs ++ [r]

structure RS (α : Type) where
  rects : List (Rect α)
  splits : List (List α)      -- three lists

def RS.empty : RS α := ⟨[], [[], [], []]⟩

/-- `sort.SearchFloat64s` on an ascending list: least index whose entry is `≥ v`. -/
def searchGE (xs : List α) (v : α) : Nat := (xs.takeWhile fun x => decide (x < v)).length

def insertAt (xs : List α) (idx : Nat) (v : α) : List α := xs.take idx ++ v :: xs.drop idx

/-- `RectSet.addSplit`. -/
def addSplit (s : RS α) (axis : Nat) (value : α) : RS α :=
  let xs := s.splits.getD axis []
  let idx := searchGE xs value
  if idx = xs.length then ⟨s.rects, s.splits.set axis (xs ++ [value])⟩
  else if xs.getD idx 0 = value then s
  else
    let splits := s.splits.set axis (insertAt xs idx value)
    if idx > 0 then
      -- loop over the snapshot `rectSlice()`, editing the map
      let rects := s.rects.foldl (fun acc r =>
        match splitRect r axis value with
        | some (r1, r2) => insertRect (insertRect (acc.erase r) r1) r2
        | none => acc) s.rects
      ⟨rects, splits⟩
    else ⟨s.rects, splits⟩

/-- `RectSet.addRectSplits`. -/
def addRectSplits (s : RS α) (r : Rect α) : RS α :=
  (List.range 3).foldl (fun s axis =>
    addSplit (addSplit s axis (r.lo.getD axis 0)) axis (r.hi.getD axis 0)) s

/-- `RectSet.splitRectAxis`. -/
def splitRectAxis (splits : List α) (r : Rect α) (axis : Nat) : List (Rect α) :=
  let (res, last) := splits.foldl (fun (acc : List (Rect α) × Rect α) v =>
    match splitRect acc.2 axis v with
    | some (r1, r2) => (acc.1 ++ [r1], r2)
    | none => acc) ([], r)
  res ++ [last]

/-- Method `RectSet.splitRect`. -/
def splitRectAll (s : RS α) (r : Rect α) : List (Rect α) :=
  (List.range 3).foldl (fun rects axis =>
    rects.flatMap fun r => splitRectAxis (s.splits.getD axis []) r axis) [r]

/-- Ascending duplicate-free insertion (the effect of map-dedup + `sort.Float64s`). -/
def insertSortedU (v : α) : List α → List α
  | [] => [v]
  | x :: xs => if v < x then v :: x :: xs else if v = x then x :: xs else x :: insertSortedU v xs

/-- `RectSet.rebuildSplits`. -/
def rebuildSplits (rects : List (Rect α)) : List (List α) :=
  (List.range 3).map fun axis =>
    rects.foldl (fun acc r => insertSortedU (r.hi.getD axis 0) (insertSortedU (r.lo.getD axis 0) acc)) []

/-- `RectSet.Add`. -/
def RS.add (s : RS α) (r : Rect α) : RS α :=
  let s := addRectSplits s r
  ⟨(splitRectAll s r).foldl insertRect s.rects, s.splits⟩

/-- `RectSet.Remove`. -/
def RS.remove (s : RS α) (r : Rect α) : RS α :=
  let s := addRectSplits s r
  let rects := (splitRectAll s r).foldl (fun acc p => acc.erase p) s.rects
  ⟨rects, rebuildSplits rects⟩

/-- `RectSet.Min()` / `Max()`. -/
def RS.min (s : RS α) : List α :=
  if s.rects.isEmpty then [0, 0, 0] else s.splits.map fun xs => xs.getD 0 0
def RS.max (s : RS α) : List α :=
  if s.rects.isEmpty then [0, 0, 0] else s.splits.map fun xs => xs.getD (xs.length - 1) 0

/-! ## The solid -/

inductive Tree (α : Type) where
  | empty : Tree α
  | single (r : Rect α) : Tree α
  | node (axis : Nat) (cutoff : α) (below above : Tree α) (lo hi : List α) : Tree α

/-- `splitRectSet`: the LAST axis with the most splits (`>=`), cutoff = its middle split. -/
def splitAxis (splits : List (List α)) : Nat × Nat :=
  (List.range 3).foldl (fun (acc : Nat × Nat) i =>
    let l := (splits.getD i []).length
    if l ≥ acc.2 then (i, l) else acc) (0, 0)

def splitRectSet (s : RS α) : RS α × RS α × Nat × α :=
  let (axis, len) := splitAxis s.splits
  let cutoff := (s.splits.getD axis []).getD (len / 2) 0
  let r1 := s.rects.filter fun r => decide (r.lo.getD axis 0 < cutoff)
  let r2 := s.rects.filter fun r => !decide (r.lo.getD axis 0 < cutoff)
  (⟨r1, rebuildSplits r1⟩, ⟨r2, rebuildSplits r2⟩, axis, cutoff)

/-- `newRectSetSolid`.  The Go recursion has no counter; `fuel` makes it structural and
`none` means "did not finish within `fuel` levels" (happens in Go, as unbounded recursion,
for zero-thickness rects). -/
def build : Nat → RS α → Option (Tree α)
  | 0, _ => none
  | fuel + 1, s =>
    match s.rects with
    | [] => some .empty
    | [r] => some (.single r)
    | _ =>
      let (s1, s2, axis, cutoff) := splitRectSet s
      match build fuel s1, build fuel s2 with
      | some b, some a => some (.node axis cutoff b a s.min s.max)
      | _, _ => none

/-- `rectSetSolid.Contains`. -/
def Tree.contains : Tree α → List α → Bool
  | .empty, _ => false
  | .single r, p => r.contains p
  | .node axis cutoff below above lo hi, p =>
    if !((⟨lo, hi⟩ : Rect α).contains p) then false
    else if p.getD axis 0 < cutoff then below.contains p
    else if cutoff < p.getD axis 0 then above.contains p
    else (if below.contains p then true else above.contains p)

/-- The rects at the leaves. -/
def Tree.rects : Tree α → List (Rect α)
  | .empty => []
  | .single r => [r]
  | .node _ _ b a _ _ => b.rects ++ a.rects

/-- Executable form of the per-node facts the descent relies on (checked by the driver on every
tree it builds; `Lemmas/RectSetTree.lean` proves it implies `Tree.WellSplit`). -/
def Tree.wellSplitB : Tree α → Bool
  | .empty => true
  | .single _ => true
  | .node axis cutoff b a lo hi =>
    b.wellSplitB && a.wellSplitB && decide (axis < 3) &&
    b.rects.all (fun r => decide (r.hi.getD axis 0 ≤ cutoff)) &&
    a.rects.all (fun r => decide (cutoff ≤ r.lo.getD axis 0)) &&
    (b.rects ++ a.rects).all (fun r => (List.range 3).all fun i =>
      decide (lo.getD i 0 ≤ r.lo.getD i 0) && decide (r.hi.getD i 0 ≤ hi.getD i 0))

end
end M3d.RectSet
