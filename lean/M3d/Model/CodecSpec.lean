import M3d.Model.CodecMesh
/-!
# Text written *to the formats' specifications* (there is no ASCII-STL or OFF writer in the library):
the Lean twins of the writers in harness/cmd/c15, used to state `stl_ascii_spec` / `off_spec`.
-/
namespace M3d.Codec

/-- one facet of an ASCII STL file; `r` = 12 float32 words (normal, three vertices) -/
def stlAsciiFacet (fmt32 : Nat → Bytes) (r : Rec) : Bytes :=
  let f := fun (w : UInt32) => fmt32 w.toNat
  let v := fun (i : Nat) => line (ascii "vertex" :: ((r.drop i).take 3).map f)
  line (ascii "facet" :: ascii "normal" :: (r.take 3).map f) ++
  line [ascii "outer", ascii "loop"] ++ v 3 ++ v 6 ++ v 9 ++
  line [ascii "endloop"] ++ line [ascii "endfacet"]

/-- `solid m3d` … `endsolid m3d` -/
def stlAsciiSpec (fmt32 : Nat → Bytes) (ts : List Rec) : Bytes :=
  line [ascii "solid", ascii "m3d"] ++ ts.flatMap (stlAsciiFacet fmt32) ++ line [ascii "endsolid", ascii "m3d"]

/-- OFF text: header, counts, vertices, faces -/
def offSpec (fmt64 : Nat → Bytes) (verts : List V3) (faces : List (List Nat)) : Bytes :=
  line [ascii "OFF"] ++ line [fmtNat verts.length, fmtNat faces.length, fmtNat 0] ++
  verts.flatMap (fun v => line [fmt64 v.1.toNat, fmt64 v.2.1.toNat, fmt64 v.2.2.toNat]) ++
  faces.flatMap (fun f => line (fmtNat f.length :: f.map fmtNat))

end M3d.Codec
