import M3d.Model.CodecMesh
/-!
# Allocation ledger of the triangulator behind `model3d.ReadOFF`  (C16)

`ReadOFF` hands every face with more than three corners to `TriangulateFace` → `model2d.Triangulate`
(ear clipping).  The ledger counts the polygon storage that is *alive at the same time* (16 bytes per 2-D
point, 48 per triangle):

* before repair 5aacb9a every ear was cut from a fresh copy of the polygon and the function recursed on
  it: at the deepest level one filtered copy (`removeColinearPoints`) and one working copy of every size
  `n, n−1, …, 4` were alive (`triLiveUnrepaired`);
* repaired: one working copy, the ears, the result (`triLive`).

Accounting model (like `stlLedger`/`offLedger`): tied to the code by the measured bound of the
correspondence (kind `offm`, big-polygon files), not compared number for number.  Core-only.
-/
namespace M3d.Codec

/-- bytes of polygon copies alive at the deepest level of the unrepaired recursion on `n` corners -/
def triLiveUnrepaired : Nat → Nat
  | 0 => 0
  | n+1 => if n + 1 ≤ 3 then 0 else 2 * 16 * (n + 1) + triLiveUnrepaired n

/-- repaired: the working copy, the ears cut so far, the result -/
def triLive (n : Nat) : Nat := 16 * n + 48 * (n - 2) + 48 * (n - 2)

/-- the face line `k i₁ … i_k` of an OFF file: number of corners handed to the triangulator -/
def faceCorners (ln : Bytes) : Nat := (fields ln).length - 1

end M3d.Codec
