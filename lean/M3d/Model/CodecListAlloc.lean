import M3d.Model.CodecPly
/-!
# The capacity ledger of `PLYElement.decodeInstance`'s list loop (fileformats/ply.go)

```go
capacity := intLen; if capacity > plyMaxListPrealloc { capacity = plyMaxListPrealloc }
subValues := make([]PLYValue, 0, capacity)
for j := 0; j < intLen; j++ {
    subValue, err := readValue(prop.ElemType); if err != nil { return nil, err }
    subValues = append(subValues, subValue)
}
```

The declared length `intLen` comes from the file.  The slice is modelled by its `(len, cap)`; Go's
`append` is the parameter `g`: the capacity requested when a value is appended to a full slice of
that length (`runtime.growslice`; the theorems assume `g l ≤ 2·l + c`, `5·l ≤ 4·g l`, `l < g l`).
The driver does not run `g`: it is given the requests the REAL loop made and checks them against
`requestsOK`, the specification that every trace of this model meets and that implies the linear bound.
A *request* is `(entries stored when it was made, capacity requested)`; 16 bytes per slot.
Core-only.
-/
namespace M3d.Codec

/-- `(len, cap)` of `subValues` -/
structure SliceSt where
  len : Nat
  cap : Nat
  deriving DecidableEq, Repr

/-- one `subValues = append(subValues, v)`: the new state and the request made, if any -/
def appendStep (g : Nat → Nat) (s : SliceSt) : SliceSt × Option (Nat × Nat) :=
  if s.len = s.cap then (⟨s.len + 1, g s.len⟩, some (s.len, g s.len))
  else (⟨s.len + 1, s.cap⟩, none)

/-- the requests made while `k` values are read and appended -/
def appendLoop (g : Nat → Nat) : Nat → SliceSt → List (Nat × Nat)
  | 0, _ => []
  | k+1, s =>
    match appendStep g s with
    | (s', some r) => r :: appendLoop g k s'
    | (s', none) => appendLoop g k s'

/-- the slice after `k` appends -/
def appendEnd (g : Nat → Nat) : Nat → SliceSt → SliceSt
  | 0, s => s
  | k+1, s => appendEnd g k (appendStep g s).1

/-- the bounded pre-allocation: `make([]PLYValue, 0, min(intLen, plyMaxListPrealloc))` -/
def listCap0 (declared : Nat) : Nat := min declared plyMaxPrealloc

/-- Every capacity request of one list property whose length field says `declared` and of which
`k` entries could really be read (`k = declared`: the list decoded; `k < declared`: the input ended
or an entry was bad after `k` entries). -/
def listRequests (g : Nat → Nat) (declared k : Nat) : List (Nat × Nat) :=
  (0, listCap0 declared) :: appendLoop g k ⟨0, listCap0 declared⟩

def sumSlots : List (Nat × Nat) → Nat
  | [] => 0
  | r :: rs => r.2 + sumSlots rs

/-- slots (16 bytes each) requested for one list property -/
def listSlots (g : Nat → Nat) (declared k : Nat) : Nat := sumSlots (listRequests g declared k)

/-- The policy of the seeded change C16-3 ("grow to the final size once"): when the bounded
pre-allocation is full the slice is re-allocated with the *declared* length as its capacity. -/
def growToDeclared (declared : Nat) : Nat → Nat := fun _ => declared

/-- Go 1.23 `growslice` for one appended element, before the rounding to a size class
(`nextslicecap`): doubling below 256 entries, then `l + (l + 768)/4`.  Only used in `example`s. -/
def goNextCap (l : Nat) : Nat := if l < 256 then max 1 (2 * l) else l + (l + 768) / 4

/-- the number of binary scalars the list loop reads before it stops (all `n`, or up to the first
short read) -/
def scalarsRead (e : Endian) (k : Kind) : Nat → Bytes → Nat
  | 0, _ => 0
  | n+1, bs =>
    match readScalarBin e k bs with
    | .error _ => 0
    | .ok (_, bs') => 1 + scalarsRead e k n bs'

/-- the number of tokens the ASCII list loop parses before it stops -/
def tokensRead (ft : FloatText) (k : Kind) : Nat → List Bytes → Nat
  | 0, _ => 0
  | _+1, [] => 0
  | n+1, t :: ts =>
    match parseScalar ft k t with
    | none => 0
    | some _ => 1 + tokensRead ft k n ts

/-- Slots requested by `DecodeInstanceBinary` for one row, **whether or not the row decodes**: every
list property reached contributes its requests for the entries that were really there. -/
def rowSlotsBin (g : Nat → Nat) (e : Endian) : List PProp → Bytes → Nat
  | [], _ => 0
  | p :: ps, bs =>
    match p.lenType with
    | none =>
      match readScalarBin e p.elemType.kind bs with
      | .error _ => 0
      | .ok (_, bs') => rowSlotsBin g e ps bs'
    | some lt =>
      match readScalarBin e lt.kind bs with
      | .error _ => 0
      | .ok (lv, bs') =>
        match lengthValue lv with
        | none => 0
        | some n =>
          if n < 0 then 0
          else
            let k := scalarsRead e p.elemType.kind n.toNat bs'
            listSlots g n.toNat k +
              (if k < n.toNat then 0 else rowSlotsBin g e ps (bs'.drop (k * p.elemType.kind.size)))

/-- `NewPLYHeaderRead` **before** repair 910e191: after each of the `h` header bytes the whole prefix read
so far was converted to a string (`strings.HasSuffix(string(data), "end_header\\n")`): 1 + 2 + … + h bytes.
(The repaired reader compares the last 11 bytes in place; its share of `plyLedger` is `2·|input|`.) -/
def plyHeaderAllocUnrepaired (h : Nat) : Nat := h * (h + 1) / 2

/-! ## the specification of a capacity trace (what the driver checks on the REAL requests) -/

/-- slack of the growth policy: `append` never asks for more than `2·len + 512` slots
(doubling, or 1.25× + 192, rounded up to a size class / page) -/
def goAppendSlack : Nat := 512

/-- Growth requests `(stored, cap)` after a capacity `prev`, while at most `k` entries are read: each is
made only when the previous capacity is used up (`prev ≤ stored`), before the last entry (`stored < k`),
asks for at most `2·stored + c`, and for at least `5/4·stored` (so that the total is amortised). -/
def traceOK (c k : Nat) : Nat → List (Nat × Nat) → Bool
  | _, [] => true
  | prev, (l, cp) :: rest =>
    decide (prev ≤ l) && decide (l < k) && decide (cp ≤ 2 * l + c) && decide (5 * l ≤ 4 * cp) && traceOK c k cp rest

/-- All requests of one list property (`declared` entries declared, `k` read): a first request made
before any entry is read may be as large as the bounded pre-allocation `min(declared, 4096)`; everything
else follows the growth policy.  No request may be sized by `declared` beyond that. -/
def requestsOK (c declared k : Nat) : List (Nat × Nat) → Bool
  | [] => true
  | (l, cp) :: rest =>
    if l = 0 ∧ cp ≤ listCap0 declared then traceOK c k cp rest else traceOK c k 0 ((l, cp) :: rest)

end M3d.Codec
