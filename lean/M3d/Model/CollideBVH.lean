import M3d.Model.CollideQuery
/-!
# C07 — `BVHToCollider` over a `BVH` whose branches have any number of children

Core Lean only, generic scalar.  `model3d.BVH[B]` / `model2d.BVH[B]` (bvh.go) is "a leaf, or a branch with two *or more*
children"; `NewBVHAreaDensity` only makes binary branches, but the type is public and `BVHToCollider` converts EVERY
element of `b.Branch`:

    other := make([]Collider, len(b.Branch))
    for i, b1 := range b.Branch { other[i] = BVHToCollider(b1) }
    return joinedMultiCollider{NewJoinedCollider(other)}

`WTree L` is the slice `b.Branch` (a forest): `nil` = no more children, `leafCons l rest` = a child `&BVH{Leaf: l}`
followed by the remaining children, `nodeCons kids rest` = a child `&BVH{Branch: kids}` followed by the remaining
children.  The collider of a branch node is a `joinedMultiCollider` whose `colliders` are the children's colliders in
order, whose bounds are the left fold `res.min = res.min.Min(c.Min())`, `res.max = res.max.Max(c.Max())` starting from
the first child (`NewJoinedCollider`), and whose queries are: the node's bounds test, then the children in order.

Not modelled: the flattening step of `NewJoinedCollider` (a child joined collider whose bounds equal the new node's is
replaced by its children — the skipped bounds test is the test the parent has just passed, so every query is answered
the same); an empty `Branch` with a nil `Leaf` (`NewJoinedCollider` indexes `other[0]`: a panic; not a BVH by the
documentation of the type) is skipped by `wtBoundAcc`.
-/
namespace M3d.Col

/-- the children of a `BVH` branch, in order (see the module comment) -/
inductive WTree (L : Type) where
  | nil : WTree L
  | leafCons : L → WTree L → WTree L
  | nodeCons : WTree L → WTree L → WTree L

namespace WTree
variable {L : Type}

/-- the primitives stored below a branch, left to right -/
def leaves : WTree L → List L
  | .nil => []
  | .leafCons l r => l :: r.leaves
  | .nodeCons c r => c.leaves ++ r.leaves

/-- `len(b.Branch)` -/
def width : WTree L → Nat
  | .nil => 0
  | .leafCons _ r => r.width + 1
  | .nodeCons _ r => r.width + 1

/-- the largest `len(Branch)` of the node and of all nodes below it -/
def maxWidth : WTree L → Nat
  | .nil => 0
  | .leafCons _ r => max (r.maxWidth) (r.width + 1)
  | .nodeCons c r => max c.maxWidth (max r.maxWidth (r.width + 1))

end WTree

section Generic
variable {L B S : Type}

/-- one step of the bounds loop of `NewJoinedCollider`: the first child initialises, later ones are joined on the
right (`res.min.Min(c.Min())`) -/
def accJoin (j : B → B → B) (acc : Option B) (b : B) : B :=
  match acc with
  | none => b
  | some a => j a b

/-- the bounds of `NewJoinedCollider(children)`, folded from the left over the children's own bounds (a leaf child:
`leafB`; a branch child: the bounds of its own `NewJoinedCollider`). -/
def wtBoundAcc (leafB : L → B) (j : B → B → B) : Option B → WTree L → Option B
  | acc, .nil => acc
  | acc, .leafCons l r => wtBoundAcc leafB j (some (accJoin j acc (leafB l))) r
  | acc, .nodeCons c r =>
    match wtBoundAcc leafB j none c with
    | none => wtBoundAcc leafB j acc r
    | some b => wtBoundAcc leafB j (some (accJoin j acc b)) r

/-- a bounds test as a function of the node: `test` on the bounds `NewJoinedCollider` stored -/
def wtGate (leafB : L → B) (j : B → B → B) (test : B → Bool) (n : WTree L) : Bool :=
  match wtBoundAcc leafB j none n with
  | some b => test b
  | none => false

/-- the loop `for _, c := range j.colliders { if c.Query(…) { return true } }; return false` over the children of a
node, each branch child being a `joinedMultiCollider` itself (its bounds test `gate`, then its own loop) -/
def wtAnyKids (gate : WTree L → Bool) (leafQ : L → Bool) : WTree L → Bool
  | .nil => false
  | .leafCons l r => leafQ l || wtAnyKids gate leafQ r
  | .nodeCons c r => (gate c && wtAnyKids gate leafQ c) || wtAnyKids gate leafQ r

/-- a Boolean query (`SphereCollision/CircleCollision`, `SegmentCollision`, `RectCollision`) of
`BVHToCollider(&BVH{Branch: n})` -/
def wtAny (gate : WTree L → Bool) (leafQ : L → Bool) (n : WTree L) : Bool :=
  gate n && wtAnyKids gate leafQ n

/-- the loop `for _, c := range j.colliders { res = append(res, c.TriangleCollisions(t)...) }` -/
def wtListKids (gate : WTree L → Bool) (leafQ : L → List S) : WTree L → List S
  | .nil => []
  | .leafCons l r => leafQ l ++ wtListKids gate leafQ r
  | .nodeCons c r => (if gate c then wtListKids gate leafQ c else []) ++ wtListKids gate leafQ r

/-- `joinedMultiCollider.TriangleCollisions` of `BVHToCollider(&BVH{Branch: n})` -/
def wtList (gate : WTree L → Bool) (leafQ : L → List S) (n : WTree L) : List S :=
  if gate n then wtListKids gate leafQ n else []

end Generic

section Rays
variable {α R H L : Type} [LT α] [DecidableLT α]

/-- the slice `other` of `BVHToCollider`: the colliders of the children, in order (a branch child is the
`JoinedCollider` of its own children behind its ray/bounds test `admits`) -/
def wtColliders (tOf : H → α) (admits : WTree L → R → Bool) (leafC : L → Collider R H) : WTree L → List (Collider R H)
  | .nil => []
  | .leafCons l r => leafC l :: wtColliders tOf admits leafC r
  | .nodeCons c r => joined tOf (admits c) (wtColliders tOf admits leafC c) :: wtColliders tOf admits leafC r

/-- `BVHToCollider(&BVH{Branch: n})` as a ray collider (`JoinedCollider.RayCollisions / FirstRayCollision`) -/
def wtCollider (tOf : H → α) (admits : WTree L → R → Bool) (leafC : L → Collider R H) (n : WTree L) : Collider R H :=
  joined tOf (admits n) (wtColliders tOf admits leafC n)

end Rays

section Faithful
variable {α : Type} [Add α] [Sub α] [Mul α] [Div α] [Neg α] [LT α] [LE α] [DecidableLT α] [DecidableLE α]
  [OfNat α 0] [OfNat α 1]

/-- `(min, max)` of a 2-D collider -/
abbrev Box2 (α : Type) := V2 α × V2 α
/-- `(min, max)` of a 3-D collider -/
abbrev Box3 (α : Type) := V3 α × V3 α

/-- `res.min.Min(c.Min())`, `res.max.Max(c.Max())` (2-D) -/
def box2Join (a b : Box2 α) : Box2 α := (a.1.min b.1, a.2.max b.2)
/-- `res.min.Min(c.Min())`, `res.max.Max(c.Max())` (3-D) -/
def box3Join (a b : Box3 α) : Box3 α := (a.1.min b.1, a.2.max b.2)
/-- `Segment.Min()`, `Segment.Max()` -/
def seg2Box (s : V2 α × V2 α) : Box2 α := (s.1.min s.2, s.1.max s.2)
/-- `Triangle.Min()`, `Triangle.Max()` -/
def triBox (t : Tri3 α) : Box3 α := (triMin t, triMax t)

/-- 2-D `BVHToCollider(&BVH{Branch: n}).RectCollision(lo, hi)` -/
def bvhRect2 (sqrtF : α → α) (eps : α) (n : WTree (V2 α × V2 α)) (lo hi : V2 α) : Bool :=
  wtAny (wtGate seg2Box box2Join fun b => rectOverlap2 lo hi b.1 b.2) (fun s => seg2Rect sqrtF eps s.1 s.2 lo hi) n

/-- 2-D `BVHToCollider(&BVH{Branch: n}).SegmentCollision(q)` -/
def bvhSegment2 (sqrtF : α → α) (eps : α) (n : WTree (V2 α × V2 α)) (q0 q1 : V2 α) : Bool :=
  wtAny (wtGate seg2Box box2Join fun b => segAdmits (axes2 q0 (q1.sub q0) b.1 b.2))
    (fun s => seg2Segment sqrtF eps s.1 s.2 q0 q1) n

/-- 3-D `BVHToCollider(&BVH{Branch: n}).SegmentCollision(s0, s1)` -/
def bvhSegment3 (sqrtF : α → α) (eps : α) (n : WTree (Tri3 α)) (s0 s1 : V3 α) : Bool :=
  wtAny (wtGate triBox box3Join fun b => segAdmits (axes3 s0 (s1.sub s0) b.1 b.2))
    (fun l => triSegment sqrtF eps l.1 l.2.1 l.2.2 s0 s1) n

/-- 3-D `BVHToCollider(&BVH{Branch: n}).TriangleCollisions(q)` -/
def bvhTriTri (sqrtF : α → α) (eps : α) (n : WTree (Tri3 α)) (q : Tri3 α) : List (V3 α × V3 α) :=
  wtList (wtGate triBox box3Join fun b => boxOverlap3 (triMin q) (triMax q) b.1 b.2)
    (fun l => (triTri sqrtF eps l q).toList) n

/-- the bounds test of 3-D `BVHToCollider(&BVH{Branch: n}).RectCollision(lo, hi)` at the node `n` -/
def bvhRectGate3 (lo hi : V3 α) (n : WTree (Tri3 α)) : Bool :=
  wtGate triBox box3Join (fun b => rectOverlap3 lo hi b.1 b.2) n

end Faithful

/-- what `BVHToCollider` does when — as in the seeded change C07-14 — only `Branch[0]` and `Branch[1]` are converted:
the third and later children of every node are dropped.  (Used by the non-vacuity examples only.) -/
def WTree.firstTwo {L : Type} : WTree L → WTree L
  | .nil => .nil
  | .leafCons l .nil => .leafCons l .nil
  | .leafCons l (.leafCons l' _) => .leafCons l (.leafCons l' .nil)
  | .leafCons l (.nodeCons c _) => .leafCons l (.nodeCons c.firstTwo .nil)
  | .nodeCons c .nil => .nodeCons c.firstTwo .nil
  | .nodeCons c (.leafCons l' _) => .nodeCons c.firstTwo (.leafCons l' .nil)
  | .nodeCons c (.nodeCons c' _) => .nodeCons c.firstTwo (.nodeCons c'.firstTwo .nil)

/-- the driver's encoding of a BVH shape: preorder tokens, `none` = a leaf child (`L`), `some k` = a branch child
with `k` children (`B k`); the primitives are consumed left to right.  Returns the forest of `cnt` children. -/
def parseKids {L : Type} : Nat → Nat → List (Option Nat) → List L → Option (WTree L × List (Option Nat) × List L)
  | 0, _, _, _ => none
  | _ + 1, 0, toks, prims => some (.nil, toks, prims)
  | fuel + 1, cnt + 1, none :: toks, p :: prims =>
    match parseKids fuel cnt toks prims with
    | some (rest, toks', prims') => some (.leafCons p rest, toks', prims')
    | none => none
  | fuel + 1, cnt + 1, some k :: toks, prims =>
    match parseKids fuel k toks prims with
    | some (kids, toks', prims') =>
      match parseKids fuel cnt toks' prims' with
      | some (rest, toks'', prims'') => some (.nodeCons kids rest, toks'', prims'')
      | none => none
    | none => none
  | _ + 1, _ + 1, _, _ => none

end M3d.Col
