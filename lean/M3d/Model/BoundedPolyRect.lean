import M3d.Model.BoundedPoly
/-!
# `NewConvexPolytopeRect` and `polytopeSolid` for C03 (core Lean only, generic scalar)

Sources modelled: `templates/polytope.template` (→ `model2d/polytope.go`, `model3d/polytope.go`):

* `NewConvexPolytopeRect(min, max)`: the six (3-D) / four (2-D) axis constraints in source order
  (`rectCons3`, `rectCons2`);
* `polytopeSolid{P, MinVal, MaxVal}` with `Contains(c) = InBounds(p, c) && p.P.Contains(c)` — the model is
  `polytopeS` of `M3d/Model/Bounded.lean`; `rectPolyS3/rectPolyS2` are `NewConvexPolytopeRect(min, max).Solid()`
  with the box taken from the model of `Mesh()` (`vertsBox ∘ meshVerts3/2`, `M3d/Model/BoundedPoly.lean`).

The tie to the regenerated source is `M3d/Lemmas/KernelsTiePolytope.lean`.
-/
namespace M3d.Bd

section Ops
variable {α : Type} [Add α] [Sub α] [Mul α] [Div α] [Neg α] [LE α] [LT α]
  [DecidableLE α] [DecidableLT α] [OfNat α 0] [OfNat α 1]

/-- `NewConvexPolytopeRect(min, max)` (3-D): `{X(1), max.X}, {X(-1), -min.X}, {Y(1), max.Y}, …` -/
def rectCons3 (lo hi : Pt α) : List (Pt α × α) :=
  [(mk3 1 0 0, hi.x), (mk3 (-1) 0 0, -lo.x), (mk3 0 1 0, hi.y), (mk3 0 (-1) 0, -lo.y),
   (mk3 0 0 1, hi.z), (mk3 0 0 (-1), -lo.z)]

/-- `model2d.NewConvexPolytopeRect(min, max)` (the unused third slot of the normals is zero) -/
def rectCons2 (lo hi : Pt α) : List (Pt α × α) :=
  [(mk3 1 0 0, hi.x), (mk3 (-1) 0 0, -lo.x), (mk3 0 1 0, hi.y), (mk3 0 (-1) 0, -lo.y)]

/-- `NewConvexPolytopeRect(min, max).Solid()` with the box of the model of `Mesh()` (3-D) -/
def rectPolyS3 (sq : α → α) (tol : α) (lo hi : Pt α) : Solid α :=
  polytopeS true (vertsBox (meshVerts3 sq tol (rectCons3 lo hi))) (rectCons3 lo hi)

/-- `model2d.NewConvexPolytopeRect(min, max).Solid()` with the box of the model of `Mesh()` -/
def rectPolyS2 (sq : α → α) (tol : α) (lo hi : Pt α) : Solid α :=
  polytopeS false (vertsBox (meshVerts2 sq tol (rectCons2 lo hi))) (rectCons2 lo hi)

end Ops
end M3d.Bd
