/-!
# Executable models of render3d's samplers, densities and area lights (property C19)

Core Lean only.  Every function is generic over the scalar `α` and mirrors the Go code
operation by operation (same association order), so that the `Float` instance reproduces the
Go result bit for bit wherever the Go code uses only `+ - * / sqrt`; the same definitions are
the ones the theorems in `M3d/Props/C19.lean` talk about (instantiated at an ordered field).

libm results (`cos`, `sin`, `pow` with a non-integer exponent, `acos`) never appear here: the
functions take them as arguments (the harness computes them with the very expression the Go
code uses and passes them in; see notes/C19.md).

Anchors: /repo/render3d/material.go, focus_point.go, light.go; /repo/model3d/coords.go.
-/
namespace M3d.RS

/-- Square root as an optional operation of the scalar. -/
class HasSqrt (α : Type) where
  sqrt : α → α

instance : HasSqrt Float := ⟨Float.sqrt⟩

structure V3 (α : Type) where
  x : α
  y : α
  z : α

section
variable {α : Type} [Add α] [Sub α] [Mul α] [Div α] [Neg α] [LT α] [DecidableLT α]
  [OfNat α 0] [OfNat α 1] [OfNat α 2] [OfNat α 4] [HasSqrt α]

/-! ## model3d.Coord3D -/

def sqrt (x : α) : α := HasSqrt.sqrt x
/-- `math.Abs` (up to the sign of zero). -/
def absS (x : α) : α := if x < 0 then -x else x
/-- `math.Max` on non-NaN arguments. -/
def maxS (x y : α) : α := if y < x then x else y
/-- `math.Min` on non-NaN arguments. -/
def minS (x y : α) : α := if x < y then x else y

def V3.add (a b : V3 α) : V3 α := ⟨a.x + b.x, a.y + b.y, a.z + b.z⟩
/-- `Coord3D.Sub` is `c.Add(c1.Scale(-1))`, which is `a - b` exactly. -/
def V3.sub (a b : V3 α) : V3 α := ⟨a.x - b.x, a.y - b.y, a.z - b.z⟩
def V3.scale (a : V3 α) (s : α) : V3 α := ⟨a.x * s, a.y * s, a.z * s⟩
/-- `Scale(-1)`. -/
def V3.neg (a : V3 α) : V3 α := ⟨-a.x, -a.y, -a.z⟩
def V3.dot (a b : V3 α) : α := a.x * b.x + a.y * b.y + a.z * b.z
def V3.cross (a b : V3 α) : V3 α :=
  ⟨a.y * b.z - a.z * b.y, a.z * b.x - a.x * b.z, a.x * b.y - a.y * b.x⟩
def V3.sum (a : V3 α) : α := a.x + a.y + a.z
def V3.normSq (a : V3 α) : α := a.x * a.x + a.y * a.y + a.z * a.z
def V3.norm (a : V3 α) : α := sqrt (a.x * a.x + a.y * a.y + a.z * a.z)
def V3.normalize (a : V3 α) : V3 α := a.scale (1 / a.norm)
def V3.dist (a b : V3 α) : α :=
  let d1 := a.x - b.x
  let d2 := a.y - b.y
  let d3 := a.z - b.z
  sqrt (d1 * d1 + d2 * d2 + d3 * d3)

/-- First vector of `Coord3D.OrthoBasis` before normalisation. -/
def orthoRaw1 (c : V3 α) : V3 α :=
  let ax := absS c.x
  let ay := absS c.y
  let az := absS c.z
  if ay < ax ∧ az < ax then ⟨c.y / ax, (-c.x) / ax, 0⟩
  else
    let m := if az < ay then ay else az
    ⟨0, c.z / m, (-c.y) / m⟩

/-- Second vector of `Coord3D.OrthoBasis` before normalisation (`basis1 × c`). -/
def orthoRaw2 (c : V3 α) : V3 α :=
  let b := orthoRaw1 c
  ⟨b.y * c.z - b.z * c.y, b.z * c.x - b.x * c.z, b.x * c.y - b.y * c.x⟩

/-- `Coord3D.OrthoBasis`. -/
def orthoBasis (c : V3 α) : V3 α × V3 α := ((orthoRaw1 c).normalize, (orthoRaw2 c).normalize)

/-- `c.ProjectOut(c1)`. -/
def projectOut (c c1 : V3 α) : V3 α :=
  let n := c1.normalize
  c.sub (n.scale (n.dot c))

/-- `c.Reflect(c1).Scale(-1)` (the two negations cancel exactly): the mirror image of `c1`
about the plane with normal `c`. -/
def reflectNeg (c c1 : V3 α) : V3 α :=
  let n := c.normalize
  c1.add (n.scale ((-2) * n.dot c1))

/-- `c.Reflect(c1)`. -/
def reflect (c c1 : V3 α) : V3 α := (reflectNeg c c1).neg

/-- The point on the unit circle of the plane spanned by `x`,`z`:
`xAxis.Scale(cos).Add(zAxis.Scale(sin))`. -/
def lonPoint (x z : V3 α) (c s : α) : V3 α := (x.scale c).add (z.scale s)

/-! ## Constants of the Go code (passed in so that the `Float` run uses the very doubles
the Go compiler produced by exact constant folding) -/

structure Consts (α : Type) where
  /-- `cosineEpsilon` -/
  eps : α
  /-- `1 - cosineEpsilon` (folded) -/
  oneMinusEps : α
  /-- `2 / cosineEpsilon` (folded) -/
  twoOverEps : α
  /-- `math.Pi` -/
  pi : α
  /-- `1e-5` in `HGMaterial` -/
  hgEps : α
  /-- `1 - 1e-5` (folded) -/
  hgMax : α

/-! ## Schlick reflectance: `RefractMaterial.reflectAmount` -/

/-- `math.Pow(x, 5)` as Go evaluates it (square-and-multiply on the mantissa:
`x·((x²)²)`; exact scaling aside these are the same three roundings). -/
def pow5 (x : α) : α := x * ((x * x) * (x * x))

/-- Normal-incidence reflectance `((n−1)/(n+1))²` as the code computes it. -/
def schlickR0 (ior : α) : α :=
  let x := (ior - 1) / (ior + 1)
  x * x

/-- Schlick's approximation as a function of the cosine, `R₀ + (1−R₀)(1−cos)⁵`. -/
def schlick (ior cos : α) : α :=
  let r0 := schlickR0 ior
  r0 + (1 - r0) * pow5 (1 - cos)

/-- `RefractMaterial.reflectAmount(normal, source)` (after repair of F12). -/
def reflectAmount (ior : α) (normal source : V3 α) : α :=
  schlick ior (absS (normal.dot source))

/-- The expression the code had before the repair (`r0 * (1 - r0) * pow`), kept to state
what was wrong with it (`M3d.C19.reflectAmount_before_fix_not_schlick`). -/
def reflectAmountF12 (ior cos : α) : α :=
  let r0 := schlickR0 ior
  r0 * (1 - r0) * pow5 (1 - cos)

/-! ## RefractMaterial -/

/-- `RefractMaterial.refract`. -/
def refract (ior : α) (normal source : V3 α) : V3 α :=
  let sinePart := projectOut source normal
  let down : Bool := normal.dot source < 0
  let sineScale := if down then 1 / ior else ior
  let cosinePart := if down then normal.neg else normal
  let sinePart := sinePart.scale sineScale
  let sineNorm := sinePart.norm
  if 1 < absS sineNorm then reflectNeg normal source
  else sinePart.add (cosinePart.scale (sqrt (1 - sineNorm * sineNorm)))

/-- `RefractMaterial.refractInverse`. -/
def refractInverse (ior : α) (normal dest : V3 α) : V3 α := (refract ior normal dest.neg).neg

/-- `maximumCosine`. -/
def maximumCosine (k : Consts α) (c1 c2 : α) : α := maxS (maxS (absS c1) (absS c2)) k.eps

/-- `RefractMaterial.refractBSDF`. -/
def refractBSDF (k : Consts α) (ior : α) (normal source dest : V3 α) : α :=
  let refracted := refract ior normal source
  if dest.dot refracted < k.oneMinusEps then 0
  else
    let scale := 1 / maxS k.eps (absS (dest.dot normal))
    scale * 2 / k.eps

/-- `RefractMaterial.reflectBSDF`. -/
def reflectBSDF (k : Consts α) (normal source dest : V3 α) : α :=
  let reflected := reflectNeg normal source
  if dest.dot reflected < k.oneMinusEps then 0
  else
    let scale := 1 / maximumCosine k (dest.dot normal) (source.dot normal)
    scale * 2 / k.eps

/-- The two lobe weights `(refract, reflect)` used by `RefractMaterial.BSDF`. -/
def lobeWeights (ior : α) (normal source : V3 α) : α × α :=
  let r := reflectAmount ior normal source
  (1 - r, r)

/-- `RefractMaterial.BSDF` (`hasSpec` is `SpecularColor != Color{}`). -/
def refractMatBSDF (k : Consts α) (ior : α) (hasSpec : Bool) (refractColor specColor : V3 α)
    (normal source dest : V3 α) : V3 α :=
  if !hasSpec then refractColor.scale (refractBSDF k ior normal source dest)
  else
    let w := lobeWeights ior normal source
    let refr := w.1 * refractBSDF k ior normal source dest
    let refl := w.2 * reflectBSDF k normal source dest
    (refractColor.scale refr).add (specColor.scale refl)

/-- `RefractMaterial.SampleSource` with the uniform draw `u` made explicit
(`u` is ignored when there is no specular colour: no draw is made). -/
def refractSampleSource (ior : α) (hasSpec : Bool) (normal dest : V3 α) (u : α) : V3 α :=
  if !hasSpec then refractInverse ior normal dest
  else
    let r := reflectAmount ior normal dest
    -- `if gen.Float64() >= reflect { refract } else { mirror }` (after the boundary repair)
    if u < r then reflectNeg normal dest else refractInverse ior normal dest

/-- `RefractMaterial.SourceDensity`. -/
def refractSourceDensity (k : Consts α) (ior : α) (hasSpec : Bool) (normal source dest : V3 α) : α :=
  if !hasSpec then
    let refracted := refractInverse ior normal dest
    if source.dot refracted < k.oneMinusEps then 0 else k.twoOverEps
  else
    let r := reflectAmount ior normal dest
    let reflected := reflectNeg normal dest
    let refracted := refractInverse ior normal dest
    let d0 : α := 0
    let d1 := if source.dot refracted < k.oneMinusEps then d0 else d0 + (1 - r)
    let d2 := if source.dot reflected < k.oneMinusEps then d1 else d1 + r
    d2 * 2 / k.eps

/-- `RefractMaterial.SampleDest`. -/
def refractSampleDest (ior : α) (hasSpec : Bool) (normal source : V3 α) (u : α) : V3 α :=
  refractSampleSource ior hasSpec normal.neg source u

/-- `RefractMaterial.DestDensity`. -/
def refractDestDensity (k : Consts α) (ior : α) (hasSpec : Bool) (normal source dest : V3 α) : α :=
  refractSourceDensity k ior hasSpec normal.neg dest source

/-! ## LambertMaterial -/

/-- `LambertMaterial.SampleSource` with the draws explicit: `u` the first uniform,
`(c, s) = (cos lon, sin lon)` for `lon = u₂·2π`. -/
def lambertSample (normal : V3 α) (u c s : α) : V3 α :=
  let cosLat := sqrt u
  let sinLat := sqrt (1 - u)
  let b := orthoBasis normal
  let lp := lonPoint b.1 b.2 c s
  (normal.scale (-cosLat)).add (lp.scale sinLat)

/-- `LambertMaterial.SourceDensity`. -/
def lambertDensity (normal source : V3 α) : α :=
  let nd := -(normal.dot source)
  if nd < 0 then 0 else 4 * nd

/-- `LambertMaterial.BSDF`. -/
def lambertBSDF (diffuse : V3 α) (normal source dest : V3 α) : V3 α :=
  if dest.dot normal < 0 ∨ 0 < source.dot normal then ⟨0, 0, 0⟩ else diffuse.scale 4

/-! ## Phong lobe (`sampleAroundDirection` / `densityAroundDirection`) and PhongMaterial -/

/-- `sampleAroundDirection` with `cosLat = pow(v, 1/(alpha+1))` and `(c,s)` passed in. -/
def aroundDirSample (direction : V3 α) (cosLat c s : α) : V3 α :=
  let b := orthoBasis direction
  let sinLat := sqrt (1 - cosLat * cosLat)
  let lp := lonPoint b.1 b.2 c s
  (direction.scale cosLat).add (lp.scale sinLat)

/-- `densityAroundDirection`; `p2 = pow(pow(dot, alpha+1), 1/(alpha+1) - 1)` passed in. -/
def aroundDirDensity (alpha : α) (direction sample : V3 α) (p2 : α) : α :=
  if direction.dot sample < 0 then 0 else 2 * (alpha + 1) / p2

/-- `x^n` by repeated multiplication. -/
def npow (x : α) : Nat → α
  | 0 => 1
  | n + 1 => npow x n * x

/-- The closed form of `densityAroundDirection` for a natural exponent: `2(a+1)·dotᵃ`. -/
def phongLobeDensity (a : Nat) (aS : α) (dot : α) : α :=
  if dot < 0 then 0 else 2 * (aS + 1) * npow dot a

/-- `PhongMaterial.SourceDensity` given the specular lobe's density `spec`. -/
def phongSourceDensity (hasDiffuse : Bool) (spec : α) (normal source : V3 α) : α :=
  if !hasDiffuse then spec else (spec + lambertDensity normal source) / 2

/-- `PhongMaterial.SampleSource`: `bit` is `gen.Intn(2)` (drawn only when there is a diffuse
term); the specular branch samples around the mirror direction of `dest`. -/
def phongSampleSource (hasDiffuse : Bool) (bit : Nat) (normal dest : V3 α) (cosLat u c s : α) : V3 α :=
  if !hasDiffuse || bit == 0 then aroundDirSample (reflectNeg normal dest) cosLat c s
  else lambertSample normal u c s

/-- `PhongMaterial.BSDF`; `powRef = pow(refDot, alpha)` passed in. -/
def phongBSDF (k : Consts α) (alpha : α) (noFlux hasDiffuse : Bool) (specular diffuse : V3 α)
    (normal source dest : V3 α) (powRef : α) : V3 α :=
  let destDot := dest.dot normal
  let sourceDot := -(source.dot normal)
  if destDot < 0 ∨ sourceDot < 0 then ⟨0, 0, 0⟩
  else
    let color : V3 α := if hasDiffuse then diffuse.scale 4 else ⟨0, 0, 0⟩
    let refDot := (reflectNeg normal source).dot dest
    if refDot < 0 then color
    else
      let i1 := powRef * (1 + alpha)
      let i2 := if noFlux then i1 else i1 / maximumCosine k sourceDot destDot
      color.add (specular.scale (2 * i2))

/-! ## HGMaterial -/

/-- `HGMaterial.numericalG`. -/
def hgNumericalG (k : Consts α) (g : α) : α :=
  if absS g < k.hgEps then k.hgEps else maxS (minS g k.hgMax) (-k.hgMax)

/-- The cosine drawn by `HGMaterial.SampleSource` for `s = 2u − 1` and numerical `g`. -/
def hgCos (g s : α) : α :=
  let g2 := g * g
  let powTerm := (1 - g2) / (1 + g * s)
  (1 + g2 - powTerm * powTerm) / (2 * g)

/-- `math.Max(-1, math.Min(1, x))`. -/
def clampUnit (x : α) : α := maxS (-1) (minS 1 x)

/-- `HGMaterial.SampleSource` with the draws explicit (the cosine is clamped into `[-1,1]`
before the square root: repair of the NaN finding). -/
def hgSample (k : Consts α) (gRaw : α) (dest : V3 α) (u c s : α) : V3 α :=
  let sv := u * 2 - 1
  let cosTheta := clampUnit (hgCos (hgNumericalG k gRaw) sv)
  let sinTheta := sqrt (1 - cosTheta * cosTheta)
  let b := orthoBasis dest
  let ortho := lonPoint b.1 b.2 c s
  (dest.scale cosTheta).add (ortho.scale sinTheta)

/-- The argument of `pow(·, 3/2)` in `HGMaterial.cosDensity`. -/
def hgDivisor (g cos : α) : α := 1 + g * g - 2 * g * cos

/-- `HGMaterial.cosDensity` given `p = pow(divisor, 3/2)`. -/
def hgCosDensity (g p : α) : α := (1 - g * g) / p

/-- `HGMaterial.BSDF` given `dens = cosDensity(source·dest)`. -/
def hgBSDF (k : Consts α) (scatter : V3 α) (ignoreNormals : Bool) (normal source : V3 α) (dens : α) : V3 α :=
  let d := if ignoreNormals then dens else dens / maxS k.hgEps (absS (source.dot normal))
  scatter.scale d

/-! ## Mixtures: JoinedMaterial -/

/-- `JoinedMaterial.BSDF`: the lobes' BSDF values added up in order. -/
def joinBSDF (bs : List (V3 α)) : V3 α := bs.foldl V3.add ⟨0, 0, 0⟩


/-- The lobe index chosen by `JoinedMaterial.SampleSource/SampleDest` for the draw `p`:
subtract the probabilities in turn, stop at the first negative remainder or at the last entry. -/
def joinSelectFrom (i : Nat) (p : α) : List α → Nat
  | [] => i
  | [_] => i
  | q :: r :: rest => if p - q < 0 then i else joinSelectFrom (i + 1) (p - q) (r :: rest)

def joinSelect (probs : List α) (p : α) : Nat := joinSelectFrom 0 p probs

/-- `JoinedMaterial.SourceDensity/DestDensity`: `density += prob[i] * density_i` in order. -/
def joinDensity (probs dens : List α) : α :=
  (probs.zip dens).foldl (fun acc pd => acc + pd.1 * pd.2) 0

/-! ## Focus points -/

/-- `SphereFocusPoint.focusInfo`: `(minCos, dir)`. -/
def focusInfo (center : V3 α) (radius : α) (point : V3 α) : α × V3 α :=
  let direction := point.sub center
  let dist := direction.norm
  if dist < radius then (0, direction.scale (1 / dist))
  else
    let ratio := radius / dist
    (sqrt (1 - ratio * ratio), direction.scale (1 / dist))

/-- The cosine drawn by `sampleAroundUniform`: `1 − u·(1 − minCos)` (the code then takes
`acos` and `cos`/`sin` of it). -/
def capCos (minCos u : α) : α := 1 - u * (1 - minCos)

/-- `sampleAroundUniform` given `(cl, sl) = (cos lat, sin lat)` and `(c,s)` of the longitude. -/
def aroundUniformSample (direction : V3 α) (cl sl c s : α) : V3 α :=
  let b := orthoBasis direction
  let lp := lonPoint b.1 b.2 c s
  (direction.scale cl).add (lp.scale sl)

/-- `densityAroundUniform`. -/
def aroundUniformDensity (minCos : α) (direction sample : V3 α) : α :=
  if direction.dot sample < minCos then 0 else 2 / (1 - minCos)

/-- `SphereFocusPoint.FocusDensity`: `focus` is `focusMaterial(mat)`, `matDensity` is
`mat.SourceDensity(normal, source, dest)`. -/
def sphereFocusDensity (center : V3 α) (radius : α) (point : V3 α) (focus : Bool) (matDensity : α)
    (source : V3 α) : α :=
  if center.dist point < radius ∨ focus = false then matDensity
  else
    let fi := focusInfo center radius point
    aroundUniformDensity fi.1 fi.2 source

/-- `SphereFocusPoint.SampleFocus`: `matSample` is `mat.SampleSource(gen, normal, dest)`. -/
def sphereFocusSample (center : V3 α) (radius : α) (point : V3 α) (focus : Bool) (matSample : V3 α)
    (cl sl c s : α) : V3 α :=
  if center.dist point < radius ∨ focus = false then matSample
  else aroundUniformSample (focusInfo center radius point).2 cl sl c s

/-- The direction `PhongFocusPoint` concentrates on: `point.Sub(Target).Normalize()`. -/
def phongFocusDir (target point : V3 α) : V3 α := (point.sub target).normalize

/-- `PhongFocusPoint.FocusDensity`: `same` is `p.Target == point`. -/
def phongFocusDensity (target point : V3 α) (same focus : Bool) (alpha matDensity : α) (source : V3 α)
    (p2 : α) : α :=
  if same = true ∨ focus = false then matDensity
  else aroundDirDensity alpha (phongFocusDir target point) source p2

/-- `PhongFocusPoint.SampleFocus`. -/
def phongFocusSample (target point : V3 α) (same focus : Bool) (matSample : V3 α) (cosLat c s : α) : V3 α :=
  if same = true ∨ focus = false then matSample
  else aroundDirSample (phongFocusDir target point) cosLat c s

/-! ## Cumulative-weight part selection (`MeshAreaLight`, `joinedAreaLight`) -/

/-- `sort.Search(n, f)`: Go's binary search, `fuel` bounding the iterations. -/
def searchGo (f : Nat → Bool) : Nat → Nat → Nat → Nat
  | 0, i, _ => i
  | fuel + 1, i, j =>
    if i < j then
      let h := (i + j) / 2
      if f h then searchGo f fuel i h else searchGo f fuel (h + 1) j
    else i

/-- `sort.SearchFloat64s(a, x)`: smallest index with `a[i] >= x` (by binary search). -/
def searchFloat64s (a : List α) (x : α) : Nat :=
  searchGo (fun h => !decide (a.getD h 0 < x)) a.length 0 a.length

/-- The running totals `cumu[i] = w₀ + … + wᵢ` (accumulated left to right from `acc`). -/
def cumuFrom (acc : α) : List α → List α
  | [] => []
  | w :: ws => (acc + w) :: cumuFrom (acc + w) ws

def cumu (ws : List α) : List α := cumuFrom 0 ws

def total (ws : List α) : α := ws.foldl (· + ·) 0

/-- Part index chosen by `SampleLight` of `MeshAreaLight` / `joinedAreaLight` for the draw `u`. -/
def selectIdx (ws : List α) (u : α) : Nat :=
  let c := cumu ws
  let i := searchFloat64s c (u * total ws)
  if i = c.length then i - 1 else i

/-! ## Area lights -/

/-- `SphereAreaLight.SampleLight` for an accepted Gaussian triple `g`: `(point, normal)`. -/
def sphereSample (center : V3 α) (radius : α) (g : V3 α) : V3 α × V3 α :=
  let n := g.norm
  let normal := g.scale (1 / n)
  (center.add (normal.scale radius), normal)

/-- The rejection test in `SphereAreaLight.SampleLight` (`n > 0.01 && n < 100.0`). -/
def sphereAccept (lo hi : α) (g : V3 α) : Bool := lo < g.norm ∧ g.norm < hi

/-- `SphereAreaLight.TotalEmission`. -/
def sphereTotalEmission (k : Consts α) (emission : V3 α) (radius : α) : α :=
  emission.sum * 4 * k.pi * radius * radius

/-- `sideArea` of `NewCylinderAreaLight` (one cap). -/
def cylSideArea (k : Consts α) (r : α) : α := r * r * k.pi
/-- `shaftArea` of `NewCylinderAreaLight`. -/
def cylShaftArea (k : Consts α) (p1 p2 : V3 α) (r : α) : α := 2 * r * k.pi * p2.dist p1

/-- Which part `CylinderAreaLight.SampleLight` samples for the second draw `u2`:
0 = cap at P1, 1 = cap at P2, 2 = shaft. -/
def cylPart (k : Consts α) (p1 p2 : V3 α) (r u2 : α) : Nat :=
  let side := cylSideArea k r
  let totalArea := cylShaftArea k p1 p2 r + 2 * side
  let part := u2 * totalArea
  if part < 2 * side then (if part < side then 0 else 1) else 2

/-- `CylinderAreaLight.SampleLight` with the draws explicit: `(c,s) = (cos θ, sin θ)` of the
first draw, `u2` selects the part, `u3` is the third draw.  `(point, normal)`.
The shaft branch is the code after the repair of F13 (`radialPart.Scale(Radius)`). -/
def cylSample (k : Consts α) (p1 p2 : V3 α) (r c s u2 u3 : α) : V3 α × V3 α :=
  let unscaledAxis := p2.sub p1
  let axis := unscaledAxis.normalize
  let b := orthoBasis axis
  let radialPart := lonPoint b.1 b.2 c s
  let part := cylPart k p1 p2 r u2
  if part = 0 then (p1.add (radialPart.scale (r * sqrt u3)), axis.neg)
  else if part = 1 then (p2.add (radialPart.scale (r * sqrt u3)), axis)
  else ((p1.add (unscaledAxis.scale u3)).add (radialPart.scale r), radialPart)

/-- The shaft point the code produced before the repair of F13 (unit radial offset). -/
def cylShaftPointF13 (p1 axisVec radial : V3 α) (t : α) : V3 α :=
  (p1.add (axisVec.scale t)).add radial

/-- `CylinderAreaLight.TotalEmission`. -/
def cylTotalEmission (k : Consts α) (emission : V3 α) (p1 p2 : V3 α) (r : α) : α :=
  emission.sum * (cylShaftArea k p1 p2 r + 2 * cylSideArea k r)

structure Tri (α : Type) where
  a : V3 α
  b : V3 α
  c : V3 α

def Tri.crossProduct (t : Tri α) : V3 α := (t.b.sub t.a).cross (t.c.sub t.a)
/-- `Triangle.Area`. -/
def Tri.area (t : Tri α) : α := t.crossProduct.norm / 2
/-- `Triangle.Normal`. -/
def Tri.normal (t : Tri α) : V3 α := t.crossProduct.normalize

/-- The barycentric weights `(1−r₁, r₁(1−r₂), r₁r₂)` used by `MeshAreaLight.SampleLight`. -/
def triBary (r1 r2 : α) : α × α × α := (1 - r1, r1 * (1 - r2), r1 * r2)

/-- The sampled point of a triangle for `r1 = sqrt(u₂)`, `r2 = u₃`. -/
def triPoint (t : Tri α) (r1 r2 : α) : V3 α :=
  let w := triBary r1 r2
  ((t.a.scale w.1).add (t.b.scale w.2.1)).add (t.c.scale w.2.2)

/-- `MeshAreaLight.SampleLight`: `(triangle index, point, normal)`; `none` for an empty mesh
(the Go code panics). -/
def meshSample (tris : List (Tri α)) (u1 u2 u3 : α) : Option (Nat × V3 α × V3 α) :=
  let i := selectIdx (tris.map Tri.area) u1
  match tris[i]? with
  | none => none
  | some t => some (i, triPoint t (sqrt u2) u3, t.normal)

/-- `MeshAreaLight.TotalEmission` (`totalArea * emission.Sum()`). -/
def meshTotalEmission (tris : List (Tri α)) (emission : V3 α) : α :=
  total (tris.map Tri.area) * emission.sum

end

end M3d.RS
