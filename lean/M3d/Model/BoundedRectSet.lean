import M3d.Model.RectSet
import M3d.Model.RectSetProg
/-!
# `toolbox3d.RectSet` objects as bounded solids (C03)

Source: `/repo/toolbox3d/rect_set.go`.  Core Lean only.

The value model of a `RectSet` (`RS`: the rect map as a duplicate-free list, three ascending split
lists; `RS.add/remove/addSet/removeSet`, `RS.min/max`, `build` = `newRectSetSolid`) and the model of
programs over `*RectSet` **objects** (`Cmd`, `progStates`: the heap is a store of *values*, i.e. no
object shares a split slice or the rect map with another one) are those of `Model/RectSet.lean` /
`Model/RectSetProg.lean`.  This file adds what C03 observes of a set: the box `Solid()` reports and
the per-point requirement the correspondence prints.
-/
namespace M3d.RectSet
section
variable {α : Type} [LE α] [DecidableLE α] [LT α] [DecidableLT α] [DecidableEq α] [OfNat α 0]

/-- `Min()/Max()` of `newRectSetSolid(rs)`: the zero value for the empty node, the rect itself for a
`singleRect` node, otherwise (`rects` leaf or inner node) the cached `rs.Min(), rs.Max()`. -/
def solidBox (s : RS α) : Rect α :=
  match s.rects with
  | [] => ⟨⟨0, 0, 0⟩, ⟨0, 0, 0⟩⟩
  | [r] => r
  | _ => ⟨s.min, s.max⟩

/-- The underlying definition of the set: some stored rect contains the point. -/
def RS.anyRect (s : RS α) (p : V3 α) : Bool := s.rects.any fun r => r.contains p

/-- What one `Solid()` call has to answer on the probe points: `1` (valid bounds) and per point whether
some rect stored in the receiver at the time of the call contains it; `Y` marks a point where the
model of the split tree itself disagrees (impossible: `M3d.C03.rectset_program_bounds`), `D` a
non-terminating `newRectSetSolid`. -/
def solidAnswer (s : RS α) (pts : List (V3 α)) : String :=
  match solidOf s with
  | none => "D"
  | some t =>
    "1:" ++ String.join (pts.map fun p =>
      let spec := s.anyRect p
      if t.contains p != spec then "Y"
      else if spec && !((solidBox s).contains p) then "Y"
      else if spec then "1" else "0")

/-- The answers of all `Solid()` calls of a program (every object starts as `NewRectSet()`). -/
def progAnswers (cs : List (Cmd α)) (pts : List (V3 α)) : List String :=
  (progStates (fun _ => RS.empty) cs).map fun s => solidAnswer s pts

end
end M3d.RectSet
