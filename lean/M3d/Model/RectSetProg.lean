import M3d.Model.RectSet
/-!
# Programs over `toolbox3d.RectSet` objects: the life cycle of a set and of its solids (C04)

Source: `/repo/toolbox3d/rect_set.go`.  Core Lean only.

`Model/RectSet.lean` models one `RectSet` *value* and what `newRectSetSolid` builds from it.  A Go
program, however, works with `*RectSet` **objects**: it calls `Solid()` any number of times between
mutations, passes one object to `AddRectSet` / `RemoveRectSet` of another (or of itself), keeps using
the argument afterwards, and keeps the solids it obtained earlier.  This file models that:

* the heap is a store `Nat → RS α` (variable index → current value of the object; every variable
  starts as `NewRectSet()`);
* `Cmd` is one statement: `Add`, `Remove`, `AddRectSet`, `RemoveRectSet` (receiver `i`, argument `j`,
  `i = j` allowed), `v_i = NewRectSet()`, and `Solid()`;
* **`Solid()` does not change the receiver** (`RectSet.Solid` is `return newRectSetSolid(r)`, which
  only reads `r.rects` / `r.splits` and copies every rect into freshly allocated nodes), and the other
  statements change only the receiver (`AddRectSet(r1)` ranges over `r1.splits` / `r1.rects` without
  writing to them; with `r1 == r` every split is already present and every piece of a stored rect is
  that rect, so the map is only re-assigned existing keys / emptied key by key — the value semantics
  below gives the same result);
* the value returned by `Solid()` is a tree that shares nothing with the set (`Tree α` is a value).

`progStates` / `runProg` give the receiver's value at, and the solid returned by, each `Solid()`
call of a program; `solidCalls` gives the receiver's *history* (`Hist`) at each call, which is what
`Props/C04.lean` needs to apply the theorems about histories.
-/
namespace M3d.RectSet

/-- One statement of a program over the objects `v_0, v_1, …`. -/
inductive Cmd (α : Type) where
  | add (i : Nat) (r : Rect α) : Cmd α        -- `v_i.Add(&r)`
  | remove (i : Nat) (r : Rect α) : Cmd α     -- `v_i.Remove(&r)`
  | addSet (i j : Nat) : Cmd α                -- `v_i.AddRectSet(v_j)`
  | removeSet (i j : Nat) : Cmd α             -- `v_i.RemoveRectSet(v_j)`
  | reset (i : Nat) : Cmd α                   -- `v_i = NewRectSet()`
  | solid (i : Nat) : Cmd α                   -- `v_i.Solid()` (the result is kept)

/-- Store update. -/
def upd {β : Type} (st : Nat → β) (i : Nat) (v : β) : Nat → β := fun k => if k = i then v else st k

section
variable {α : Type} [LE α] [DecidableLE α] [LT α] [DecidableLT α] [DecidableEq α] [OfNat α 0]

/-- Effect of a statement on the objects. -/
def Cmd.apply (st : Nat → RS α) : Cmd α → Nat → RS α
  | .add i r => upd st i ((st i).add r)
  | .remove i r => upd st i ((st i).remove r)
  | .addSet i j => upd st i ((st i).addSet (st j))
  | .removeSet i j => upd st i ((st i).removeSet (st j))
  | .reset i => upd st i RS.empty
  | .solid _ => st

/-- The receiver's value if the statement is a `Solid()` call. -/
def Cmd.obs (st : Nat → RS α) : Cmd α → List (RS α)
  | .solid i => [st i]
  | _ => []

/-- The receiver's value at each `Solid()` call of the program, in order. -/
def progStates : (Nat → RS α) → List (Cmd α) → List (RS α)
  | _, [] => []
  | st, c :: cs => c.obs st ++ progStates (c.apply st) cs

/-- `RectSet.Solid()`: `newRectSetSolid(r)` (`none` = the recursion would not terminate). -/
def solidOf (s : RS α) : Option (Tree α) := build (s.rects.length + 1) s

/-- The solids returned by the `Solid()` calls of the program, in order. -/
def runProg (st : Nat → RS α) (cs : List (Cmd α)) : List (Option (Tree α)) :=
  (progStates st cs).map solidOf

/-- The same statements on histories instead of values. -/
def Cmd.applyH (hs : Nat → Hist α) : Cmd α → Nat → Hist α
  | .add i r => upd hs i (.add (hs i) r)
  | .remove i r => upd hs i (.remove (hs i) r)
  | .addSet i j => upd hs i (.addSet (hs i) (hs j))
  | .removeSet i j => upd hs i (.removeSet (hs i) (hs j))
  | .reset i => upd hs i .new
  | .solid _ => hs

def Cmd.obsH (hs : Nat → Hist α) : Cmd α → List (Hist α)
  | .solid i => [hs i]
  | _ => []

/-- How the receiver of each `Solid()` call came about. -/
def solidCalls : (Nat → Hist α) → List (Cmd α) → List (Hist α)
  | _, [] => []
  | hs, c :: cs => c.obsH hs ++ solidCalls (c.applyH hs) cs

/-- Drop the `Solid()` calls. -/
def Cmd.isSolid : Cmd α → Bool
  | .solid _ => true
  | _ => false

/-- The objects after the whole program. -/
def progFinal (st : Nat → RS α) (cs : List (Cmd α)) : Nat → RS α :=
  cs.foldl (fun st c => c.apply st) st

end
end M3d.RectSet
