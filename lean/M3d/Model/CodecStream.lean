import M3d.Model.CodecStl
/-!
# The STL reader over an `io.Reader` that delivers its bytes in pieces (C15)

`M3d.Codec.stlDecode` (CodecStl.lean) describes `fileformats.NewSTLReader` + the `ReadTriangle` loop as a
function of the *bytes* of the file.  The real reader gets the bytes from an `io.Reader`, and
`Read(p)` may hand out fewer bytes than `len(p)` although more follow (pipes, sockets, chunked bodies,
`io.MultiReader`, `iotest.OneByteReader`, …).  This file models the reader at that level:

* `Src` — an `io.Reader` as its client sees it: the successive deliveries (`chunks`), and whether the
  delivery that exhausts the data already reports `io.EOF` (`eager`, like `iotest.DataErrReader`) or the
  next call does.  Every run of a deterministic client against any reader is the run against the `Src`
  whose chunks are the deliveries that reader made (a delivery never exceeds `len(p)`).
* `Rd` — `io.MultiReader(bytes.NewReader(pre), src)` (with `pre = []`: the plain reader).
* `readFull` — `io.ReadFull`/`io.ReadAtLeast`'s loop.
* `BufRd`, `fill`, `readSlice`, `readString`, `BufRd.read`, `readFullBuf` — `bufio.Reader` with its 4096-byte
  buffer (as the queue of unread bytes), `fill` (one successful `Read`, at most 100 empty ones),
  `ReadSlice`, `ReadString` (`collectFragments`), `Read`, and `io.ReadFull` on a `bufio.Reader`.
* `newReader`, `readBinRecs`, `asciiLoop`, `stlDecodeSrc` — `NewSTLReader`, `newSTLReaderASCII/Binary`,
  `readBinary`, `readASCII` and the caller's loop until `io.EOF`, over those.

Loops that Go writes as `for { … }` take a fuel argument; `stlDecodeSrc` supplies more than any of them
can use (`M3d/Lemmas/CodecStream.lean` proves that it is never exhausted).  Core-only, executable.
-/
namespace M3d.Codec.Stream
open M3d.Codec

/-- An `io.Reader` as seen by its client. -/
structure Src where
  chunks : List Bytes
  eager : Bool
  deriving Repr

/-- all bytes the reader will deliver -/
def Src.bytes (s : Src) : Bytes := s.chunks.flatten

/-- `Read(p)` with `len(p) = k`: data, `err == io.EOF`, the reader afterwards.  A delivery larger than
`k` is handed out in pieces. -/
def Src.read (s : Src) (k : Nat) : Bytes × Bool × Src :=
  match s.chunks with
  | [] => ([], true, s)
  | c :: cs =>
    if c.length ≤ k then (c, s.eager && cs.isEmpty, ⟨cs, s.eager⟩)
    else (c.take k, false, ⟨c.drop k :: cs, s.eager⟩)

/-- `io.MultiReader(bytes.NewReader(pre), src)`; `pre = []` is `src` itself.  (`bytes.Reader.Read`
copies `min(len(p), rest)` bytes with a nil error and returns `0, io.EOF` once it is empty, upon which
the multi-reader moves on to `src` within the same call.) -/
structure Rd where
  pre : Bytes
  src : Src
  deriving Repr

def Rd.bytes (r : Rd) : Bytes := r.pre ++ r.src.bytes

def Rd.read (r : Rd) (k : Nat) : Bytes × Bool × Rd :=
  if r.pre.isEmpty then
    match r.src.read k with
    | (d, e, s') => (d, e, ⟨[], s'⟩)
  else (r.pre.take k, false, ⟨r.pre.drop k, r.src⟩)

/-- `io.ReadAtLeast(r, buf, len(buf))` = `io.ReadFull`: `for n < min && err == nil { nn, err = r.Read(buf[n:]); n += nn }`.
Returns the bytes read (`n`) and the reader; the call failed iff fewer than `need` bytes came
(`io.EOF` if none, `io.ErrUnexpectedEOF` otherwise). -/
def readFullAux : Nat → Rd → Nat → Bytes → Bytes × Rd
  | 0, r, _, acc => (acc, r)
  | f+1, r, need, acc =>
    if need = 0 then (acc, r)
    else
      match r.read need with
      | (d, eof, r') =>
        if eof then (acc ++ d, r') else readFullAux f r' (need - d.length) (acc ++ d)

def readFull (fuel : Nat) (r : Rd) (k : Nat) : Bytes × Rd := readFullAux fuel r k []

/-! ## `bufio.Reader` -/

/-- `b.err` -/
inductive BErr
  | none | eof | noProgress
  deriving DecidableEq, Repr

/-- `bufio.Reader`: `buf` = the unread bytes `b.buf[b.r:b.w]`, `err` = the pending read error. -/
structure BufRd where
  buf : Bytes
  err : BErr
  rd : Rd
  deriving Repr

def BufRd.bytes (b : BufRd) : Bytes := b.buf ++ b.rd.bytes

/-- `defaultBufSize` -/
def bufSize : Nat := 4096

/-- `(*bufio.Reader).fill`: slide the unread bytes to the front, then `Read` into the free space until
something arrives (`maxConsecutiveEmptyReads = 100`). -/
def fill : Nat → BufRd → BufRd
  | 0, b => { b with err := .noProgress }
  | i+1, b =>
    match b.rd.read (bufSize - b.buf.length) with
    | (d, eof, rd') =>
      if eof then ⟨b.buf ++ d, .eof, rd'⟩
      else if d.isEmpty then fill i { b with rd := rd' }
      else ⟨b.buf ++ d, b.err, rd'⟩

/-- how a `ReadSlice` ended -/
inductive SliceEnd
  | found                 -- delimiter found, `err == nil`
  | failed (e : BErr)     -- the pending error, returned with everything buffered
  | full                  -- `bufio.ErrBufferFull`
  deriving DecidableEq, Repr

/-- `(*bufio.Reader).ReadSlice('\n')`. -/
def readSlice : Nat → BufRd → Bytes × SliceEnd × BufRd
  | 0, b => ([], .failed .noProgress, b)
  | f+1, b =>
    match readLine b.buf with
    | (line, rest, true) => (line, .found, { b with buf := rest })
    | (_, _, false) =>
      if b.err ≠ .none then (b.buf, .failed b.err, { b with buf := [], err := .none })
      else if bufSize ≤ b.buf.length then (b.buf, .full, { b with buf := [] })
      else readSlice f (fill 100 b)

/-- `(*bufio.Reader).ReadString('\n')` = `collectFragments`: full buffers are accumulated until the
delimiter or an error. -/
def readString (fuel : Nat) : Nat → BufRd → Bytes → Bytes × SliceEnd × BufRd
  | 0, b, acc => (acc, .failed .noProgress, b)
  | f+1, b, acc =>
    match readSlice fuel b with
    | (frag, .full, b') => readString fuel f b' (acc ++ frag)
    | (frag, e, b') => (acc ++ frag, e, b')

/-! ### `bufio.Reader.Read` and `io.ReadFull` on it (how `PLYReader` consumes binary values and the header) -/

/-- `(*bufio.Reader).Read(p)` with `len(p) = k`: buffered bytes first; with an empty buffer a pending
error is reported, a large `p` is filled by ONE `Read` of the source, a small one from the buffer after
ONE `Read` of the source into it. -/
def BufRd.read (b : BufRd) (k : Nat) : Bytes × BErr × BufRd :=
  if k = 0 then
    if b.buf.isEmpty then ([], b.err, { b with err := .none }) else ([], .none, b)
  else if b.buf.isEmpty then
    if b.err ≠ .none then ([], b.err, { b with err := .none })
    else if bufSize ≤ k then
      match b.rd.read k with
      | (d, eof, rd') => (d, if eof then .eof else .none, ⟨[], .none, rd'⟩)
    else
      match b.rd.read bufSize with
      | (d, eof, rd') =>
        if d.isEmpty then ([], if eof then .eof else .none, ⟨[], .none, rd'⟩)
        else (d.take k, .none, ⟨d.drop k, if eof then .eof else .none, rd'⟩)
  else (b.buf.take k, .none, { b with buf := b.buf.drop k })

/-- `io.ReadFull(br, buf[:need])` on a `bufio.Reader`. -/
def readFullBufAux : Nat → BufRd → Nat → Bytes → Bytes × BufRd
  | 0, b, _, acc => (acc, b)
  | f+1, b, need, acc =>
    if need = 0 then (acc, b)
    else
      match b.read need with
      | (d, err, b') =>
        if err ≠ .none then (acc ++ d, b') else readFullBufAux f b' (need - d.length) (acc ++ d)

def readFullBuf (fuel : Nat) (b : BufRd) (k : Nat) : Bytes × BufRd := readFullBufAux fuel b k []

/-! ## `fileformats.STLReader` -/

/-- `newSTLReaderBinary`: `io.ReadFull(r, header[:80])`, `binary.Read(r, LittleEndian, &numTris)`
(= `io.ReadFull` of 4 bytes). -/
def newReaderBinary (fuel : Nat) (r : Rd) : Except Err (Nat × Rd) :=
  match readFull fuel r 80 with
  | (hdr, r1) =>
    if hdr.length < 80 then .error .unexpectedEOF
    else
      match readFull fuel r1 4 with
      | (cnt, r2) =>
        if cnt.length < 4 then .error .unexpectedEOF
        else .ok ((unle32 cnt).toNat, r2)

/-- `readBinary` called until `io.EOF`: `n` = declared triangles not yet read (`readTris == numTris`
⇒ `io.EOF`); `io.ReadFull(s.r, data[:50])` returning nothing is the clean end, a partial record
`io.ErrUnexpectedEOF`. -/
def readBinRecs (fuel : Nat) : Nat → Rd → Except Err (List Rec)
  | 0, _ => .ok []
  | n+1, r =>
    match readFull fuel r 50 with
    | (data, r') =>
      if data.isEmpty then .ok []
      else if data.length < 50 then .error .unexpectedEOF
      else
        match readBinRecs fuel n r' with
        | .ok rest => .ok (words32 (data.take 48) :: rest)
        | .error e => .error e

/-- what one iteration of `readASCII`'s loop decides from the line `ReadString` returned -/
inductive LineAct
  | stop (res : Except Err (List Rec))
  | next (normal verts : List UInt32) (acc : List Rec)

/-- One iteration of `readASCII` (flattened with the caller's loop as in `stlAsciiLoop`): `found =
false` is `io.EOF` from `ReadString`. -/
def lineStep (pf32 : Bytes → Option UInt32) (line : Bytes) (found : Bool) (normal verts : List UInt32)
    (acc : List Rec) : LineAct :=
  if found = false then
    if tokEndsolid.isPrefixOf (trimLeftAux line.length line) then .stop (.ok acc.reverse)
    else .stop (.error .unexpectedEOF)
  else
    let toks := fields line
    match toks with
    | [] => .next normal verts acc
    | t0 :: _ =>
      if t0 = tokEndsolid then .stop (.ok acc.reverse)
      else if t0 = tokEndfacet then
        if verts.length = 9 then .next [0, 0, 0] [] ((normal ++ verts) :: acc)
        else .stop (.error .bad)
      else if t0 = tokFacet then
        if toks.length ≠ 5 then .stop (.error .bad)
        else match stlParseVec pf32 toks with
          | none => .stop (.error .bad)
          | some n => .next n verts acc
      else if t0 = tokVertex then
        if toks.length ≠ 4 then .stop (.error .bad)
        else if verts.length = 9 then .stop (.error .bad)
        else match stlParseVec pf32 toks with
          | none => .stop (.error .bad)
          | some v => .next normal (verts ++ v) acc
      else .next normal verts acc

/-- `readASCII` until `io.EOF`/an error, line after line from the `bufio.Reader`. -/
def asciiLoop (pf32 : Bytes → Option UInt32) (fuel : Nat) : Nat → BufRd → List UInt32 → List UInt32 →
    List Rec → Except Err (List Rec)
  | 0, _, _, _, _ => .error .bad
  | f+1, b, normal, verts, acc =>
    match readString fuel fuel b [] with
    | (_, .full, _) => .error .bad           -- not a result of ReadString
    | (_, .failed .noProgress, _) => .error .bad   -- `else if err != nil { return err }`
    | (_, .failed .none, _) => .error .bad
    | (line, e, b') =>
      match lineStep pf32 line (e == .found) normal verts acc with
      | .stop res => res
      | .next n v a => asciiLoop pf32 fuel f b' n v a

/-- `NewSTLReader` + `ReadTriangle` until `io.EOF` (the loop of `model3d.readSTL`) on a reader:
`io.ReadFull(r, chunk[:512])`; nothing read ⇒ error; `resetReader` = the chunk, followed by `r` iff
`ReadFull` succeeded; sniff the chunk; ASCII: `bufio.NewReader(resetReader)`, skip the first line;
binary: header + records. -/
def stlDecodeFuel (fuel : Nat) (pf32 : Bytes → Option UInt32) (s : Src) : Except Err (List Rec) :=
  match readFull fuel ⟨[], s⟩ 512 with
  | (chunk, r1) =>
    if chunk.isEmpty then .error .unexpectedEOF
    else
      let reset : Rd := if chunk.length = 512 then ⟨chunk, r1.src⟩ else ⟨chunk, ⟨[], false⟩⟩
      if stlIsAscii chunk then
        match readString fuel fuel ⟨[], .none, reset⟩ [] with
        | (_, .found, b) => asciiLoop pf32 fuel fuel b [0, 0, 0] [] []
        | _ => .error .bad
      else
        match newReaderBinary fuel reset with
        | .ok (n, r) => readBinRecs fuel n r
        | .error e => .error e

def stlDecodeSrc (pf32 : Bytes → Option UInt32) (s : Src) : Except Err (List Rec) :=
  stlDecodeFuel (s.bytes.length + s.chunks.length + 4) pf32 s

/-- `model3d.readSTL` on a reader -/
def stlDecodeMeshSrc (widen : UInt32 → UInt64) (pf32 : Bytes → Option UInt32) (s : Src) :
    Except Err (List Tri64) :=
  match stlDecodeSrc pf32 s with
  | .ok rs => .ok (rs.map fun r => (r.drop 3).map widen)
  | .error e => .error e

/-! ### The seeded variant: sniffing with ONE `Read` (used only in `example`s) -/

/-- `NewSTLReader` as changed by seeded C15-7: `n, err := r.Read(chunk)`, `moreData := n == len(chunk)`. -/
def stlDecodeFuelOneRead (fuel : Nat) (pf32 : Bytes → Option UInt32) (s : Src) : Except Err (List Rec) :=
  match Rd.read ⟨[], s⟩ 512 with
  | (chunk, _, r1) =>
    if chunk.isEmpty then .error .unexpectedEOF
    else
      let reset : Rd := if chunk.length = 512 then ⟨chunk, r1.src⟩ else ⟨chunk, ⟨[], false⟩⟩
      if stlIsAscii chunk then
        match readString fuel fuel ⟨[], .none, reset⟩ [] with
        | (_, .found, b) => asciiLoop pf32 fuel fuel b [0, 0, 0] [] []
        | _ => .error .bad
      else
        match newReaderBinary fuel reset with
        | .ok (n, r) => readBinRecs fuel n r
        | .error e => .error e

/-! ### Splitting a byte string into deliveries (driver, examples) -/

/-- cut `bs` into pieces of the given sizes (zero sizes skipped); what is left is one last piece -/
def splitSizes : List Nat → Bytes → List Bytes
  | [], bs => if bs.isEmpty then [] else [bs]
  | k :: ks, bs =>
    if bs.isEmpty then []
    else if k = 0 then splitSizes ks bs
    else bs.take k :: splitSizes ks (bs.drop k)

end M3d.Codec.Stream
