import M3d.Model.Surface
/-!
# Model of `Mesh.FlipDelaunay` (C10): the flip decision, the loop, and its termination measure

Core Lean only.

```go
for changed { changed = false
  res.Iterate(func(t *Triangle) { for _, seg := range t.Segments() {
      tris := res.Find(seg[0], seg[1]);  if len(tris) != 2 { return }
      sum := angle at o1 + angle at o2                      // the two corners opposite seg; since /repo 9d5c866
                                                            // atan2(|v1×v2|, v1·v2) (was acos(v1/|v1| · v2/|v2|))
      if sum < math.Pi+1e-8 { continue }                    // already locally Delaunay
      if len(res.Find(o1, o2)) > 0 { continue }             // flipped edge exists already
      res.Remove(tris[0]); res.Remove(tris[1])
      // p1, p2 ordered so that tris[0] is (o1, p1, p2) up to rotation (since /repo 48d8902 by the
      // winding of tris[0] — what `flipEdge` below always modelled —, before by comparing normals)
      res.Add(&Triangle{o1, o2, p2}); res.Add(&Triangle{p1, o2, o1}); changed = true; break }})}
```

* `wantsFlip pi tol sum` — the decision as a function of the computed opposite-angle sum
  (`tol = 1e-8`); `wantsFlipNoTol` is the textbook test `sum <= pi` without tolerance.
* `quadLoop` — the outer loop restricted to one pair of triangles: the state is which diagonal
  of the quadrilateral is present; `c0`, `c1` are the COMPUTED sums for the two diagonals.
* `iterLoop` — any loop `for { s' := step(s); if none {break} }` with fuel.
* `flipEdge` — the surgery on id soups, with the duplicate-edge guard.
* flat patches with integer coordinates: `orient`, `inCircle`, the lifted measure
  `measure = Σ orient(t)·(|a|²+|b|²+|c|²)` (six times the volume under the triangulation lifted
  to the paraboloid `z = x²+y²`) and the flip relation `FlatFlip`.
-/
namespace M3d.FlipLoop
open M3d.Surface

/-! ## The decision -/

/-- `!(sum < math.Pi+1e-8)`: the edge is flipped (unless the guard forbids it). -/
def wantsFlip {α : Type} [LT α] [DecidableLT α] [Add α] (pi tol sum : α) : Bool :=
  !decide (sum < pi + tol)

/-- The test without tolerance, `!(sum <= math.Pi)`. -/
def wantsFlipNoTol {α : Type} [LE α] [DecidableLE α] (pi sum : α) : Bool :=
  !decide (sum ≤ pi)

/-- The flip loop on ONE quadrilateral: `d = false` — the diagonal whose computed opposite-angle
sum is `c0` is present, `d = true` — the other one (computed sum `c1`).  Every sweep of the real
loop re-tests the present diagonal; a flip toggles `d`.  `none` = still running. -/
def quadLoop {α : Type} (flip : α → Bool) (c0 c1 : α) : Nat → Bool → Option Bool
  | 0, _ => none
  | fuel + 1, d => if flip (if d then c1 else c0) then quadLoop flip c0 c1 fuel (!d) else some d

/-! ## Loops with a measure -/

/-- `for { match step s with none => return s | some s' => s = s' }`, fuel-bounded. -/
def iterLoop {σ : Type} (step : σ → Option σ) : Nat → σ → Option σ
  | 0, _ => none
  | n + 1, s =>
    match step s with
    | none => some s
    | some s' => iterLoop step n s'

/-! ## The surgery on id soups -/

/-- The corner of `t` opposite the directed edge `a → b`, if `t` traverses it. -/
def oppOf (t : Tri) (a b : Nat) : Option Nat :=
  if t.1 = a ∧ t.2.1 = b then some t.2.2
  else if t.2.1 = a ∧ t.2.2 = b then some t.1
  else if t.2.2 = a ∧ t.1 = b then some t.2.1
  else none

/-- The first triangle traversing `a → b`, with its opposite corner. -/
def findOpp (ts : List Tri) (a b : Nat) : Option (Tri × Nat) :=
  ts.findSome? fun t => (oppOf t a b).map fun o => (t, o)

def hasEdge (ts : List Tri) (a b : Nat) : Bool :=
  (dirEdges ts).contains (a, b) || (dirEdges ts).contains (b, a)

/-- `FlipDelaunay`'s surgery on the edge `p1 p2` (`t0 ∋ p1→p2` with opposite corner `o1`,
`t1 ∋ p2→p1` with `o2`): `none` when the edge has not exactly this configuration or the guard
`len(res.Find(o1, o2)) > 0` fires. -/
def flipEdge (ts : List Tri) (p1 p2 : Nat) : Option (List Tri) :=
  match findOpp ts p1 p2, findOpp ts p2 p1 with
  | some (t0, o1), some (t1, o2) =>
    if hasEdge ts o1 o2 then none
    else some ((o1, o2, p2) :: (p1, o2, o1) :: (ts.erase t0).erase t1)
  | _, _ => none

/-- One sweep step: the first edge (in the order `order ts` — Go: map iteration) that the
decision `dec` wants flipped and whose surgery is possible. -/
def flipStep (dec : List Tri → Nat → Nat → Bool) (order : List Tri → List Edge) (ts : List Tri) :
    Option (List Tri) :=
  (order ts).findSome? fun e => if dec ts e.1 e.2 then flipEdge ts e.1 e.2 else none

/-- `FlipDelaunay` with the geometric decision and the iteration order as parameters. -/
def flipLoop (dec : List Tri → Nat → Nat → Bool) (order : List Tri → List Edge) :
    Nat → List Tri → Option (List Tri) := iterLoop (flipStep dec order)

/-! ## Flat patches: exact geometry -/

section Flat
variable {α : Type} [Add α] [Sub α] [Mul α]

abbrev Pt (α : Type) := α × α
abbrev CTri (α : Type) := Pt α × Pt α × Pt α

/-- Twice the signed area of `a b c` (positive = counter-clockwise). -/
def orient (a b c : Pt α) : α := (b.1 - a.1) * (c.2 - a.2) - (b.2 - a.2) * (c.1 - a.1)

def lift (a : Pt α) : α := a.1 * a.1 + a.2 * a.2

def dot (u w : Pt α) : α := u.1 * w.1 + u.2 * w.2
def cross (u w : Pt α) : α := u.1 * w.2 - u.2 * w.1
def psub (a b : Pt α) : Pt α := (a.1 - b.1, a.2 - b.2)

/-- The in-circle determinant: for counter-clockwise `a b c` it is positive iff `d` lies
strictly inside the circle through `a b c`, zero iff the four points are co-circular. -/
def inCircle (a b c d : Pt α) : α :=
  let ax := a.1 - d.1; let ay := a.2 - d.2
  let bx := b.1 - d.1; let byy := b.2 - d.2
  let cx := c.1 - d.1; let cy := c.2 - d.2
  ax * (byy * (cx * cx + cy * cy) - (bx * bx + byy * byy) * cy)
    - ay * (bx * (cx * cx + cy * cy) - (bx * bx + byy * byy) * cx)
    + (ax * ax + ay * ay) * (bx * cy - byy * cx)

/-- `|u1||u2||w1||w2| · sin(α + β)` for the angles `α` at `o1` and `β` at `o2` opposite the edge
`p1 p2` (`sin α cos β + cos α sin β` with `sin = cross/len²`, `cos = dot/len²`). -/
def sinSumScaled (p1 p2 o1 o2 : Pt α) : α :=
  cross (psub p1 o1) (psub p2 o1) * dot (psub p1 o2) (psub p2 o2)
    + dot (psub p1 o1) (psub p2 o1) * cross (psub p2 o2) (psub p1 o2)

def triMeasure (t : CTri α) : α := orient t.1 t.2.1 t.2.2 * (lift t.1 + lift t.2.1 + lift t.2.2)

end Flat

/-- The lifted measure of a flat triangulation with integer coordinates. -/
def measure (s : List (CTri Int)) : Int := (s.map triMeasure).sum

def AllCcw (s : List (CTri Int)) : Prop := ∀ t ∈ s, 0 < orient t.1 t.2.1 t.2.2

/-- `t` is `u` up to a rotation of the corner order. -/
def IsRot {α : Type} (t u : CTri α) : Prop :=
  t = u ∨ t = (u.2.1, u.2.2, u.1) ∨ t = (u.2.2, u.1, u.2.1)

/-- One flip inside a flat patch: the triangles `(o1,p1,p2)` and `(o2,p2,p1)` (any rotation,
anywhere in the list) are replaced by `(o1,o2,p2)` and `(p1,o2,o1)` — exactly the triangles the
Go code adds — when the decision `wants p1 p2 o1 o2` holds; the quadrilateral is strictly
convex (both new triangles counter-clockwise; in a flat patch the angle test can only succeed
on a convex quadrilateral). -/
inductive FlatFlip (wants : Pt Int → Pt Int → Pt Int → Pt Int → Bool) :
    List (CTri Int) → List (CTri Int) → Prop
  | mk (o1 p1 p2 o2 : Pt Int) (t0 t1 : CTri Int) (rest s : List (CTri Int)) :
      s.Perm (t0 :: t1 :: rest) → IsRot t0 (o1, p1, p2) → IsRot t1 (o2, p2, p1) →
      wants p1 p2 o1 o2 = true → 0 < orient o1 o2 p2 → 0 < orient p1 o2 o1 →
      FlatFlip wants s ((o1, o2, p2) :: (p1, o2, o1) :: rest)

end M3d.FlipLoop
