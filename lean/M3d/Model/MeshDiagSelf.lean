import M3d.Model.CollideBVH
/-!
# C11 — `Mesh.SelfIntersections` (core-only model)

```go
func (m *Mesh) SelfIntersections() int {
	var res int
	collider := MeshToCollider(m)
	m.Iterate(func(t *Triangle) { res += len(collider.TriangleCollisions(t)) })
	return res
}
```

`MeshToCollider(m)` is a bounding-volume hierarchy over the faces of `m` (`M3d.Col.WTree`, the n-ary model of
`BVHToCollider` / `joinedMultiCollider` that C07 owns — reused read-only): `bvhTriTri` is its
`TriangleCollisions` with the bounds test of `joinedMultiCollider.TriangleCollisions` at every node and
`Triangle.TriangleCollisions` (`triTri`) at the leaves.  The *definition* of the diagnostic is the exhaustive sum
over all ordered pairs of faces of what `Triangle.TriangleCollisions` reports (`selfIntersectionsDef`).
-/
namespace M3d.MeshDiagSelf
open M3d.Col

section
variable {α : Type} [Add α] [Sub α] [Mul α] [Div α] [Neg α] [LT α] [LE α] [DecidableLT α] [DecidableLE α]
  [OfNat α 0] [OfNat α 1]

/-- `Mesh.SelfIntersections()`: `tree` = the hierarchy `MeshToCollider` built over the faces (any shape),
`faces` = the faces in the order `m.Iterate` visits them (any order). -/
def selfIntersections (sqrtF : α → α) (eps : α) (tree : WTree (Tri3 α)) (faces : List (Tri3 α)) : Nat :=
  (faces.map fun q => (bvhTriTri sqrtF eps tree q).length).sum

/-- the exhaustive definition: the number of ordered pairs `(T, q)` of faces for which
`T.TriangleCollisions(q)` reports a segment -/
def selfIntersectionsDef (sqrtF : α → α) (eps : α) (faces : List (Tri3 α)) : Nat :=
  (faces.map fun q => (faces.filter fun T => (triTri sqrtF eps T q).isSome).length).sum

/-- a bounds test that asks for a common VOLUME of the two boxes (`min >= max` on some axis rejects) — the shape of
the seeded change C11-13; the source rejects on `min > max` (`M3d.Col.boxOverlap3`). -/
def boxOverlapVol3 (lo hi jlo jhi : V3 α) : Bool :=
  let mn := lo.max jlo
  let mx := hi.min jhi
  !(decide (mx.x ≤ mn.x) || decide (mx.y ≤ mn.y) || decide (mx.z ≤ mn.z))

/-- `TriangleCollisions` of the hierarchy with the volume test at every node -/
def bvhTriTriVol (sqrtF : α → α) (eps : α) (n : WTree (Tri3 α)) (q : Tri3 α) : List (V3 α × V3 α) :=
  wtList (wtGate triBox box3Join fun b => boxOverlapVol3 (triMin q) (triMax q) b.1 b.2)
    (fun l => (triTri sqrtF eps l q).toList) n

/-- `SelfIntersections` over that hierarchy -/
def selfIntersectionsVol (sqrtF : α → α) (eps : α) (tree : WTree (Tri3 α)) (faces : List (Tri3 α)) : Nat :=
  (faces.map fun q => (bvhTriTriVol sqrtF eps tree q).length).sum

end

/-- all leaves as the children of one branch -/
def flatTree {L : Type} (ls : List L) : WTree L := ls.foldr WTree.leafCons WTree.nil

/-- a binary hierarchy by halving the list (the driver's stand-in for the hierarchy `MeshToCollider` builds; the
theorems hold for every hierarchy) -/
def splitTree {L : Type} : Nat → List L → WTree L
  | 0, ls => flatTree ls
  | f + 1, ls =>
    if ls.length ≤ 2 then flatTree ls
    else
      let h := ls.length / 2
      .nodeCons (splitTree f (ls.take h)) (.nodeCons (splitTree f (ls.drop h)) .nil)

end M3d.MeshDiagSelf
