/-!
# Dual contouring: the index arithmetic of `dcCubeLayout` and the quads of `appendMesh`
(model3d/dc.go).  Core-only, executable.

`nx ny` are `len(Xs)`, `len(Ys)` (numbers of lattice *points*), `rows` is `BufRows` (number of
z-layers of points held in the buffer; the whole lattice when no shifting is needed).

Every Go function is written exactly as in the source: decode the flat index into `(x, y, z)`,
do the small coordinate step, encode again.  `cubeAt` returns `-1` in Go for a cube that does not
exist; here that is `none`.
-/
namespace M3d.DC

/-- `edgeCounts()` -/
def xCount (nx ny : Nat) : Nat := (nx - 1) * ny
def yCount (nx ny : Nat) : Nat := (ny - 1) * nx
def zCount (nx ny : Nat) : Nat := nx * ny
/-- Edges per z-layer: X-edges, then Y-edges, then Z-edges. -/
def layerEdges (nx ny : Nat) : Nat := xCount nx ny + yCount nx ny + zCount nx ny

/-- `len(Edges) = (xCount+yCount)*bufRows + zCount*(bufRows-1)` -/
def numEdges (nx ny rows : Nat) : Nat := (xCount nx ny + yCount nx ny) * rows + zCount nx ny * (rows - 1)
/-- `len(Cubes)` -/
def numCubes (nx ny rows : Nat) : Nat := (nx - 1) * (ny - 1) * (rows - 1)
/-- `len(Corners)` -/
def numCorners (nx ny rows : Nat) : Nat := nx * ny * rows

/-- `cornerIdx(x, y, z)` -/
def cornerIdx (nx ny x y z : Nat) : Nat := x + (y + z * ny) * nx

/-- the index `cubeAt` returns for an existing cube -/
def cubeIdx (nx ny x y z : Nat) : Nat := x + (y + z * (ny - 1)) * (nx - 1)

/-- `cubeCoord(c)` -/
def cubeCoord (nx ny c : Nat) : Nat × Nat × Nat :=
  (c % (nx - 1), (c / (nx - 1)) % (ny - 1), c / (nx - 1) / (ny - 1))

def xEdgeIdx (nx ny x y z : Nat) : Nat := z * layerEdges nx ny + (nx - 1) * y + x
def yEdgeIdx (nx ny x y z : Nat) : Nat := z * layerEdges nx ny + xCount nx ny + nx * y + x
def zEdgeIdx (nx ny x y z : Nat) : Nat := z * layerEdges nx ny + xCount nx ny + yCount nx ny + nx * y + x

/-- A lattice edge in coordinates: axis (0 = X, 1 = Y, 2 = Z) and its lower corner. -/
structure EdgeC where
  axis : Nat
  x : Nat
  y : Nat
  z : Nat
deriving DecidableEq, Repr

/-- The decoding shared by `EdgeCorners` and `EdgeCubes`:
`z := e / (xc+yc+zc); e %= …; if e < xc {…} else if e < xc+yc {…} else {…}`. -/
def edgeDecode (nx ny e : Nat) : EdgeC :=
  let z := e / layerEdges nx ny
  let r := e % layerEdges nx ny
  if r < xCount nx ny then ⟨0, r % (nx - 1), r / (nx - 1), z⟩
  else if r < xCount nx ny + yCount nx ny then
    let r := r - xCount nx ny
    ⟨1, r % nx, r / nx, z⟩
  else
    let r := r - (xCount nx ny + yCount nx ny)
    ⟨2, r % nx, r / nx, z⟩

def edgeEncode (nx ny : Nat) (e : EdgeC) : Nat :=
  match e.axis with
  | 0 => xEdgeIdx nx ny e.x e.y e.z
  | 1 => yEdgeIdx nx ny e.x e.y e.z
  | _ => zEdgeIdx nx ny e.x e.y e.z

/-- `EdgeCorners(e)`: the two ends, lower one first. -/
def edgeCornersC (e : EdgeC) : (Nat × Nat × Nat) × (Nat × Nat × Nat) :=
  match e.axis with
  | 0 => ((e.x, e.y, e.z), (e.x + 1, e.y, e.z))
  | 1 => ((e.x, e.y, e.z), (e.x, e.y + 1, e.z))
  | _ => ((e.x, e.y, e.z), (e.x, e.y, e.z + 1))

def edgeCorners (nx ny e : Nat) : Nat × Nat :=
  let c := edgeCornersC (edgeDecode nx ny e)
  (cornerIdx nx ny c.1.1 c.1.2.1 c.1.2.2, cornerIdx nx ny c.2.1 c.2.2.1 c.2.2.2)

/-- `cubeAt(x, y, z)` on `Int` coordinates: `-1` (here `none`) outside
`0 ≤ x < len(Xs)-1, 0 ≤ y < len(Ys)-1, 0 ≤ z < BufRows-1`. -/
def cubeAt (nx ny rows : Nat) (x y z : Int) : Option (Nat × Nat × Nat) :=
  if z < 0 || x < 0 || y < 0 || x ≥ (nx : Int) - 1 || y ≥ (ny : Int) - 1 || z ≥ (rows : Int) - 1 then none
  else some (x.toNat, y.toNat, z.toNat)

/-- The four cubes round an edge in the fixed cyclic order of `EdgeCubes`. -/
def edgeCubesC (nx ny rows : Nat) (e : EdgeC) : List (Option (Nat × Nat × Nat)) :=
  let x : Int := e.x; let y : Int := e.y; let z : Int := e.z
  match e.axis with
  | 0 => [cubeAt nx ny rows x y (z-1), cubeAt nx ny rows x (y-1) (z-1), cubeAt nx ny rows x (y-1) z, cubeAt nx ny rows x y z]
  | 1 => [cubeAt nx ny rows (x-1) y z, cubeAt nx ny rows (x-1) y (z-1), cubeAt nx ny rows x y (z-1), cubeAt nx ny rows x y z]
  | _ => [cubeAt nx ny rows x (y-1) z, cubeAt nx ny rows (x-1) (y-1) z, cubeAt nx ny rows (x-1) y z, cubeAt nx ny rows x y z]

/-- `EdgeCubes(e)` on flat indices. -/
def edgeCubes (nx ny rows e : Nat) : List (Option Nat) :=
  (edgeCubesC nx ny rows (edgeDecode nx ny e)).map fun o => o.map fun c => cubeIdx nx ny c.1 c.2.1 c.2.2

/-- `CubeEdges(c)` in coordinates, in the order of the Go array literal. -/
def cubeEdgesC (x y z : Nat) : List EdgeC :=
  [⟨0, x, y, z⟩, ⟨1, x, y, z⟩, ⟨1, x+1, y, z⟩, ⟨0, x, y+1, z⟩,
   ⟨2, x, y, z⟩, ⟨2, x+1, y, z⟩, ⟨2, x, y+1, z⟩, ⟨2, x+1, y+1, z⟩,
   ⟨0, x, y, z+1⟩, ⟨1, x, y, z+1⟩, ⟨1, x+1, y, z+1⟩, ⟨0, x, y+1, z+1⟩]

/-- `CubeEdges(c)` on flat indices. -/
def cubeEdges (nx ny c : Nat) : List Nat :=
  let p := cubeCoord nx ny c
  (cubeEdgesC p.1 p.2.1 p.2.2).map (edgeEncode nx ny)

/-- `CubeCorners(c)` on flat indices: `result[k + 2j + 4i] = (x+k) + ((y+j) + (z+i)·ny)·nx`. -/
def cubeCorners (nx ny c : Nat) : List Nat :=
  let p := cubeCoord nx ny c
  [0,1,2,3,4,5,6,7].map fun n => cornerIdx nx ny (p.1 + n % 2) (p.2.1 + n / 2 % 2) (p.2.2 + n / 4)

/-- Is `e` a lattice edge of the `nx × ny × rows` point lattice? (X/Y-edges exist in every layer,
Z-edges in all but the last.) -/
def validEdge (nx ny rows : Nat) (e : EdgeC) : Bool :=
  match e.axis with
  | 0 => e.x + 1 < nx && e.y < ny && e.z < rows
  | 1 => e.x < nx && e.y + 1 < ny && e.z < rows
  | 2 => e.x < nx && e.y < ny && e.z + 1 < rows
  | _ => false

def validCube (nx ny rows x y z : Nat) : Bool := x + 1 < nx && y + 1 < ny && z + 1 < rows

/-! ### `populateEdges` / `appendMesh` on a labelling of the lattice points -/

abbrev Lab := Nat → Nat → Nat → Bool

/-- `edge.Active = (c1.Value != c2.Value)` -/
def active (lab : Lab) (e : EdgeC) : Bool :=
  let c := edgeCornersC e
  lab c.1.1 c.1.2.1 c.1.2.2 != lab c.2.1 c.2.2.1 c.2.2.2

/-- The quad `appendMesh` emits for an active edge: the four `EdgeCubes` (all must exist — the Go
code panics otherwise, here `none`), reversed `vs[0..3] = vs[3], vs[2], vs[1], vs[0]` when the edge's
first corner is inside. -/
def quadOf (nx ny rows : Nat) (lab : Lab) (e : EdgeC) : Option (List (Nat × Nat × Nat)) :=
  match (edgeCubesC nx ny rows e).mapM id with
  | none => none
  | some cs => if lab e.x e.y e.z then some cs.reverse else some cs

/-- All lattice edges in index order. -/
def allEdges (nx ny rows : Nat) : List EdgeC :=
  ((List.range (numEdges nx ny rows)).map (edgeDecode nx ny))

/-- `appendMesh` over the whole lattice: one entry per active edge; `none` inside = panic. -/
def quads (nx ny rows : Nat) (lab : Lab) : List (EdgeC × Option (List (Nat × Nat × Nat))) :=
  ((allEdges nx ny rows).filter (active lab)).map fun e => (e, quadOf nx ny rows lab e)

/-! ### Orientation of a quad built from cube centres

Cube `(x,y,z)` has centre `(2x+1, 2y+1, 2z+1)` in doubled lattice units.  -/

def centre (c : Nat × Nat × Nat) : Int × Int × Int := (2 * c.1 + 1, 2 * c.2.1 + 1, 2 * c.2.2 + 1)

def isub (a b : Int × Int × Int) : Int × Int × Int := (a.1 - b.1, a.2.1 - b.2.1, a.2.2 - b.2.2)
def icross (a b : Int × Int × Int) : Int × Int × Int :=
  (a.2.1 * b.2.2 - a.2.2 * b.2.1, a.2.2 * b.1 - a.1 * b.2.2, a.1 * b.2.1 - a.2.1 * b.1)
def comp (a : Int × Int × Int) : Nat → Int
  | 0 => a.1
  | 1 => a.2.1
  | _ => a.2.2

/-- Component along axis `k` of the normal `(b-a) × (c-a)` of triangle `a b c`. -/
def triNormalAxis (k : Nat) (a b c : Int × Int × Int) : Int := comp (icross (isub b a) (isub c a)) k

/-- For a quad `[v0,v1,v2,v3]` both triangulations `triangulateQuad` can choose —
`(v0,v1,v2),(v0,v2,v3)` and `(v1,v2,v3),(v1,v3,v0)` — have all four normals pointing along
`+axis` (`dir = true`) resp. `-axis`. -/
def quadNormalsAlong (k : Nat) (dir : Bool) (q : List (Nat × Nat × Nat)) : Bool :=
  match q.map centre with
  | [v0, v1, v2, v3] =>
    [triNormalAxis k v0 v1 v2, triNormalAxis k v0 v2 v3, triNormalAxis k v1 v2 v3, triNormalAxis k v1 v3 v0].all
      fun n => if dir then decide (0 < n) else decide (n < 0)
  | _ => false

/-- The orientation requirement for edge `e` under labelling `lab`: the normals point from the
contained end to the excluded one (`+axis` iff the lower corner is the contained one). -/
def quadOrientedOk (nx ny rows : Nat) (lab : Lab) (e : EdgeC) : Bool :=
  match quadOf nx ny rows lab e with
  | some q => quadNormalsAlong e.axis (lab e.x e.y e.z) q
  | none => false

/-! ### `Clip`: `p.Max(minPoint.AddScalar(margin)).Min(maxPoint.AddScalar(-margin))`, per coordinate -/

section
variable {α : Type} [LT α] [DecidableLT α] [Add α] [Neg α]
/-- `math.Max` / `math.Min` on non-NaN values. -/
def smax (a b : α) : α := if a < b then b else a
def smin (a b : α) : α := if b < a then b else a
/-- One coordinate of the clipped vertex: cell `[lo, hi]`, absolute margin `m = CubeMargin·Delta`. -/
def clip1 (p lo hi m : α) : α := smin (smax p (lo + m)) (hi + -m)
end

end M3d.DC
