import M3d.Model.Surface
/-!
# Models of the mesh-processing operations (C10)

Core Lean only.  Two layers:

* *geometric rules* generic over the scalar (`V3 α`, `V2 α`): where `SubdivideEdges`,
  `loopSubdivision`, 2-D `Subdivide` (Chaikin) and `Blur` put vertices, signed volume / area.
  Proved over every field in `Lemmas/MeshOps.lean`, executed at `Rat` by the driver on the real
  coordinates (exact mode: dyadic inputs, so the Go float arithmetic is exact).
* *combinatorial cores* over vertex ids (`Surface.Tri`, `Surface.Seg`): loop re-triangulation of
  decimation with an arbitrary chord oracle, 2-D vertex removal, the 2-D elimination loops
  (`Decimate`, `EliminateColinear`) with the geometric decisions as oracle parameters.
-/
namespace M3d.MeshOps
open M3d.Surface

/-! ## Scalars and vectors -/

structure V3 (α : Type) where
  x : α
  y : α
  z : α
deriving DecidableEq, Repr

structure V2 (α : Type) where
  x : α
  y : α
deriving DecidableEq, Repr

namespace V3
variable {α : Type}
def add [Add α] (a b : V3 α) : V3 α := ⟨a.x + b.x, a.y + b.y, a.z + b.z⟩
def scale [Mul α] (a : V3 α) (s : α) : V3 α := ⟨a.x * s, a.y * s, a.z * s⟩
def zero [OfNat α 0] : V3 α := ⟨0, 0, 0⟩
/-- `det [a b c]`: six times the signed volume of the tetrahedron `0 a b c`. -/
def det [Add α] [Sub α] [Mul α] (a b c : V3 α) : α :=
  a.x * (b.y * c.z - b.z * c.y) - a.y * (b.x * c.z - b.z * c.x) + a.z * (b.x * c.y - b.y * c.x)
end V3

namespace V2
variable {α : Type}
def add [Add α] (a b : V2 α) : V2 α := ⟨a.x + b.x, a.y + b.y⟩
def scale [Mul α] (a : V2 α) (s : α) : V2 α := ⟨a.x * s, a.y * s⟩
def zero [OfNat α 0] : V2 α := ⟨0, 0⟩
/-- `a × b`: twice the signed area of the triangle `0 a b`. -/
def cross [Sub α] [Mul α] (a b : V2 α) : α := a.x * b.y - a.y * b.x
end V2

section Geometry
variable {α : Type} [Add α] [Sub α] [Mul α] [Div α] [NatCast α] [OfNat α 0] [OfNat α 1]

/-- `c1.Scale(1-t).Add(c2.Scale(t))`, the interpolation of `divideSegment`. -/
def lerp3 (c1 c2 : V3 α) (t : α) : V3 α := (c1.scale (1 - t)).add (c2.scale t)

/-- `divideSegment(c1, c2, result)` with `len(result) = L` (exact arithmetic: the explicit
ordering of the end points in the Go code only matters for rounding, see `divide_symm`). -/
def divideSegment (c1 c2 : V3 α) (L : Nat) : List (V3 α) :=
  if L = 1 then [c1]
  else (List.range L).map fun i =>
    if i = 0 then c1 else if i + 1 = L then c2 else lerp3 c1 c2 ((i : α) / ((L - 1 : Nat) : α))

/-- The `n²` triangles `SubdivideEdges` emits for one face. -/
def subdivideTri (n : Nat) (d : V3 α) (t : V3 α × V3 α × V3 α) : List (V3 α × V3 α × V3 α) :=
  let side1 := divideSegment t.1 t.2.1 (n + 1)
  let side2 := divideSegment t.1 t.2.2 (n + 1)
  (List.range n).flatMap fun i =>
    let narrow := divideSegment (side1.getD i d) (side2.getD i d) (i + 1)
    let wide := divideSegment (side1.getD (i + 1) d) (side2.getD (i + 1) d) (i + 2)
    (List.range (i + 1)).flatMap fun j =>
      (narrow.getD j d, wide.getD j d, wide.getD (j + 1) d) ::
        (if j > 0 then [(narrow.getD j d, narrow.getD (j - 1) d, wide.getD j d)] else [])

def subdivideEdges (n : Nat) (d : V3 α) (ts : List (V3 α × V3 α × V3 α)) : List (V3 α × V3 α × V3 α) :=
  ts.flatMap (subdivideTri n d)

/-- Six times the signed volume enclosed by a triangle soup. -/
def volume6 (ts : List (V3 α × V3 α × V3 α)) : α :=
  ts.foldl (fun acc t => acc + V3.det t.1 t.2.1 t.2.2) 0

/-- Twice the signed area enclosed by a segment soup (shoelace). -/
def area2 (ss : List (V2 α × V2 α)) : α :=
  ss.foldl (fun acc s => acc + V2.cross s.1 s.2) 0

/-! ### Loop subdivision masks -/

/-- `beta` of `loopSubdivision` for a vertex with `k` neighbours. -/
def loopBeta (k : Nat) : α := if k = 3 then (3 : Nat) / (16 : Nat) else (3 : Nat) / ((8 * k : Nat) : α)

/-- New position of an old vertex: `corner.Scale(1 - k*beta).Add(sum.Scale(beta))`. -/
def loopCorner (c : V3 α) (nbrs : List (V3 α)) : V3 α :=
  let k := nbrs.length
  let s := nbrs.foldl V3.add V3.zero
  (c.scale (1 - (k : α) * loopBeta k)).add (s.scale (loopBeta k))

/-- Edge point: `(a+b)*3/8 + (o1+o2)*1/8`. -/
def loopEdge (a b o1 o2 : V3 α) : V3 α :=
  ((a.add b).scale ((3 : Nat) / (8 : Nat) : α)).add ((o1.add o2).scale ((1 : Nat) / (8 : Nat) : α))

/-! ### Blur -/

/-- One `Blur(rate)` step for one vertex (`rate ≠ -1` branch):
`avg.Scale(rate).Add(c.Scale(1-rate))` with `avg = sum / k`. -/
def blurPoint (rate : α) (c : V3 α) (nbrs : List (V3 α)) : V3 α :=
  if nbrs.isEmpty then c else
  let avg := (nbrs.foldl V3.add V3.zero).scale ((1 : Nat) / (nbrs.length : α))
  (avg.scale rate).add (c.scale (1 - rate))

/-- The `rate == -1` branch: the mean of the vertex and its neighbours. -/
def blurPointMean (c : V3 α) (nbrs : List (V3 α)) : V3 α :=
  if nbrs.isEmpty then c else
  ((nbrs.foldl V3.add V3.zero).add c).scale ((1 : Nat) / ((nbrs.length + 1 : Nat) : α))

/-- 2-D `Mesh.Blur`: `c.Scale(1-rate).Add(sum.Scale(rate/count))`. -/
def blurPoint2 (rate : α) (c : V2 α) (nbrs : List (V2 α)) : V2 α :=
  (c.scale (1 - rate)).add ((nbrs.foldl V2.add V2.zero).scale (rate / (nbrs.length : α)))

/-! ### Chaikin corner cutting (2-D `Subdivide`) -/

/-- `p.Scale(0.75).Add(q.Scale(0.25))`. -/
def chaikinPoint (p q : V2 α) : V2 α :=
  (p.scale ((3 : Nat) / (4 : Nat) : α)).add (q.scale ((1 : Nat) / (4 : Nat) : α))

end Geometry

/-! ## Combinatorial cores over vertex ids -/

/-! ### Chaikin topology: every segment `(p,q)` yields `(pq¹, pq³)` and the corner cut
`(pq³, qr¹)` where `(q,r)` is the other segment at `q`.  New vertices are named by the
directed segment they lie on and which quarter: `2*idx` (near start), `2*idx+1` (near end). -/

/-- Index of the first segment starting at `v`. -/
def segFrom (ss : List Seg) (v : Nat) : Option Nat := ss.findIdx? (fun s => s.1 == v)

def chaikinSegs (ss : List Seg) : List Seg :=
  (List.range ss.length).flatMap fun i =>
    match ss[i]? with
    | none => []
    | some s =>
      match segFrom ss s.2 with
      | none => [(2 * i, 2 * i + 1)]
      | some j => [(2 * i, 2 * i + 1), (2 * i + 1, 2 * j)]

/-! ### 2-D vertex removal (`Decimate`, `EliminateColinear`) -/

/-- The segment ending at `v` and the one starting at `v` (`vertexNeighbors` on a consistently
oriented mesh returns `(prev, next)`). -/
def prevOf (ss : List Seg) (v : Nat) : Option Nat := (ss.find? (fun s => s.2 == v)).map (·.1)
def succOf (ss : List Seg) (v : Nat) : Option Nat := (ss.find? (fun s => s.1 == v)).map (·.2)

/-- Remove every segment touching `v` and bridge its two neighbours
(`for s in res.Find(v) {res.Remove(s)}; res.Add(&Segment{n1, n2})`). -/
def bridge (ss : List Seg) (v n1 n2 : Nat) : List Seg :=
  (n1, n2) :: ss.filter (fun s => s.1 != v && s.2 != v)

/-- `removeVertex`: neighbours read from the mesh `src`, surgery done on `res`. -/
def removeVertexFrom (src res : List Seg) (v : Nat) : List Seg :=
  match prevOf src v, succOf src v with
  | some p, some n => bridge res v p n
  | _, _ => res

/-- **`EliminateColinear` as written before the repair** (defect F8): neighbours and
eligibility are read from the ORIGINAL mesh `m`, the surgery is done on `res`.  `pick` chooses
the next eligible vertex (Go: map iteration order), `col m v` is the colinearity test
`vertexNormalDifference(m, v) < epsilon`.  Fuel-bounded because this loop need not terminate. -/
def elimColinearBuggy (col : List Seg → Nat → Bool) (pick : List Nat → Nat) (m : List Seg) :
    Nat → List Nat → List Seg → Option (List Seg)
  | 0, _, _ => none
  | fuel + 1, eligible, res =>
    if eligible.isEmpty then some res else
    let next := pick eligible
    let eligible := eligible.filter (· != next)
    match prevOf m next, succOf m next with
    | some n1, some n2 =>
      let res := bridge res next n1 n2
      let upd := fun (el : List Nat) (c : Nat) =>
        if col m c then (if el.contains c then el else c :: el) else el.filter (· != c)
      elimColinearBuggy col pick m fuel (upd (upd eligible n1) n2) res
    | _, _ => elimColinearBuggy col pick m fuel eligible res

/-- `vertexNormalDifference(res, c) < epsilon` with the geometry as an oracle on the three
points involved: false unless `c` has exactly one predecessor and one successor. -/
def colAt (col3 : Nat → Nat → Nat → Bool) (res : List Seg) (c : Nat) : Bool :=
  match prevOf res c, succOf res c with
  | some p, some n => col3 p c n
  | _, _ => false

/-- One iteration shared by the 2-D elimination loops **as they are after the repair** (all
reads from the mesh `res` being edited).  `next` has been chosen; it leaves the candidate set;
its neighbours are read from `res`; unless `skip` (Decimate: the bridge would duplicate a
segment) the two segments at `next` are replaced by the bridge and the two neighbours are
re-evaluated (`readd`).  -/
def removalStep (skip : List Seg → Nat → Nat → Nat → Bool) (readd : List Seg → Nat → Bool)
    (next : Nat) (cands : List Nat) (res : List Seg) : List Nat × List Seg :=
  let cands := cands.filter (· != next)
  match prevOf res next, succOf res next with
  | some n1, some n2 =>
    if skip res next n1 n2 then (cands, res) else
    let res' := bridge res next n1 n2
    let upd := fun (cs : List Nat) (c : Nat) =>
      if readd res' c then (if cs.contains c then cs else c :: cs) else cs.filter (· != c)
    (upd (upd cands n1) n2, res')
  | _, _ => (cands, res)

/-- The loop: `pick` chooses the next candidate (`none` = loop condition false / `break`). -/
def removalLoop (pick : List Nat → List Seg → Option Nat) (skip : List Seg → Nat → Nat → Nat → Bool)
    (readd : List Seg → Nat → Bool) : Nat → List Nat → List Seg → Option (List Seg)
  | 0, _, _ => none
  | fuel + 1, cands, res =>
    match pick cands res with
    | none => some res
    | some next =>
      let st := removalStep skip readd next cands res
      removalLoop pick skip readd fuel st.1 st.2

/-- Fuel that always suffices (`removal_loop_terminates`): the measure `3·|res| + |cands|`
strictly decreases. -/
def removalFuel (cands : List Nat) (res : List Seg) : Nat := 3 * res.length + cands.length + 1

/-- **2-D `EliminateColinear` after the repair** — `order` is Go's map iteration order. -/
def elimColinear (col3 : Nat → Nat → Nat → Bool) (order : List Nat → Option Nat) (m : List Seg) :
    Option (List Seg) :=
  let eligible := (segVerts m).filter (colAt col3 m)
  removalLoop (fun cands _ => order cands) (fun _ _ _ _ => false) (colAt col3)
    (removalFuel eligible m) eligible m

/-- `EliminateColinear` with the slip "re-check the neighbours against the ORIGINAL mesh `m`"
(`vertexNormalDifference(m, c)` instead of `(res, c)`): a vertex keeps its initial status however
much the outline has bent in the meantime.  Only used to show that
`eliminate_colinear_bridges_meet_criterion` separates it from the code as it is. -/
def elimColinearStale (col3 : Nat → Nat → Nat → Bool) (order : List Nat → Option Nat) (m : List Seg) :
    Option (List Seg) :=
  let eligible := (segVerts m).filter (colAt col3 m)
  removalLoop (fun cands _ => order cands) (fun _ _ _ _ => false) (fun _ c => colAt col3 m c)
    (removalFuel eligible m) eligible m

/-- **2-D `Decimate`**: `argmin` is the smallest-area choice among the candidates that have two
neighbours (`none` = `break`); a bridge that would duplicate a segment is skipped. -/
def decimate2 (argmin : List Nat → List Seg → Option Nat) (maxV : Nat) (m : List Seg) : Option (List Seg) :=
  let cands := segVerts m
  removalLoop (fun cands res => if cands.length > maxV then argmin cands res else none)
    (fun res _ n1 n2 => n1 == n2 || res.contains (n1, n2) || res.contains (n2, n1))
    (fun _ _ => true) (removalFuel cands m) cands m

/-! ### Decimation: re-triangulating the hole left by a removed vertex -/

/-- `fillLoop` with an arbitrary chord oracle: for a loop of ≥ 4 vertices the oracle proposes
a chord `(i, j)`; the two sub-loops `l[i..j]` and `l[j..i]` (`newSubloop`) are filled
recursively.  `none` = the Go code gives up (returns nil).  A loop of 3 gives the single
triangle `(l0, l2, l1)` (orientation reversed w.r.t. the loop, as in the Go code). -/
def fillLoop (chord : List Nat → Option (Nat × Nat)) : Nat → List Nat → Option (List Tri)
  | 0, _ => none
  | fuel + 1, l =>
    match l with
    | [a, b, c] => some [(a, c, b)]
    | _ =>
      if l.length < 4 then none else
      match chord l with
      | none => none
      | some (i, j) =>
        -- the Go loops only consider i + 2 ≤ j < len and i + len - j ≥ 2
        if i + 2 ≤ j ∧ j < l.length ∧ i + l.length - j ≥ 2 then
          let loop1 := (l.drop i).take (j - i + 1)
          let loop2 := l.drop j ++ l.take (i + 1)
          match fillLoop chord fuel loop1, fillLoop chord fuel loop2 with
          | some t1, some t2 => some (t1 ++ t2)
          | _, _ => none
        else none

/-- Boundary of a triangle list: directed edges whose reverse is not present (with
multiplicity, by cancelling). -/
def boundary (ts : List Tri) : List Edge :=
  let es := dirEdges ts
  es.filter fun e => es.count e != es.count (swap e) || false

end M3d.MeshOps
