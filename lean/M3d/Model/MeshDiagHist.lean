import M3d.Model.MeshDiag
/-!
# C11 — the diagnostics on a mesh WITH A HISTORY (core Lean only)

`model3d.Mesh` is a set of face pointers plus a lazily built, incrementally maintained vertex
index (`vertexToFace`, a `CoordToSlice[*Triangle]`): `getVertexToFace` builds it on first use,
`Add` appends to the slices when it exists, `Remove` deletes with `essentials.UnorderedDelete`
(swap with the last element), so that the order of a slice depends on the whole history.
`SingularVertices` reads the slices (its stack search starts from `tris[0]` of the slice);
`NeedsRepair` and `InconsistentEdges` range over the face set only.

This file models the state (`MeshSt`), the operations (`MeshOp`: `Add`, `Remove`, and `touch` =
any call that builds the index, `copy` = continue with `m.Copy()`) and the diagnostics on a state.  `M3d/Lemmas/MeshDiagHist.lean`
proves the index invariant for every history; `M3d/Props/C11.lean` states that the diagnostics of
a state are those of its current face set (history independence), and which index-based shortcuts
in front of `NeedsRepair` are sound.
-/
namespace M3d.MeshDiag
open M3d.Surface

/-- `uniqueVertices(face, f)`: the corners of a face, a repeated corner once. -/
def uniqueVerts (t : Tri) : List Nat :=
  [t.1] ++ (if t.2.1 ≠ t.1 then [t.2.1] else []) ++
    (if t.2.2 ≠ t.1 ∧ t.2.2 ≠ t.2.1 then [t.2.2] else [])

/-- `CoordToSlice[*Triangle]` as an association list (its `Range` order is arbitrary). -/
abbrev VIndex := List (Nat × List Face)

/-- `v2f.Value(v)` (nil when absent). -/
def ixValue : VIndex → Nat → List Face
  | [], _ => []
  | e :: r, v => if e.1 = v then e.2 else ixValue r v

/-- `v2f.Append(v, f)`. -/
def ixAppend : VIndex → Nat → Face → VIndex
  | [], v, f => [(v, [f])]
  | e :: r, v, f => if e.1 = v then (e.1, e.2 ++ [f]) :: r else e :: ixAppend r v f

/-- `v2f.Store(v, s)`. -/
def ixStore : VIndex → Nat → List Face → VIndex
  | [], v, s => [(v, s)]
  | e :: r, v, s => if e.1 = v then (e.1, s) :: r else e :: ixStore r v s

/-- `v2f.Delete(v)`. -/
def ixDelete : VIndex → Nat → VIndex
  | [], _ => []
  | e :: r, v => if e.1 = v then r else e :: ixDelete r v

/-- `for i, f1 := range s { if f1 == f { essentials.UnorderedDelete(&s, i); break } }`: the first
occurrence of `f` is overwritten by the last element, the last element is dropped. -/
def swapRemove (f : Face) : List Face → List Face
  | [] => []
  | x :: rest =>
    if x = f then
      match rest.getLast? with
      | none => []
      | some l => l :: rest.dropLast
    else x :: swapRemove f rest

/-- `Mesh.removeFaceFromVertex`. -/
def removeFaceFromVertex (ix : VIndex) (f : Face) (v : Nat) : VIndex :=
  let s := swapRemove f (ixValue ix v)
  if s.isEmpty then ixDelete ix v else ixStore ix v s

/-- The `uniqueVertices(f, func(p) { v2f.Append(p, f) })` of `Add` and `getVertexToFace`. -/
def ixAddFace (ix : VIndex) (f : Face) : VIndex :=
  (uniqueVerts f.2).foldl (fun ix v => ixAppend ix v f) ix

def ixRemoveFace (ix : VIndex) (f : Face) : VIndex :=
  (uniqueVerts f.2).foldl (fun ix v => removeFaceFromVertex ix f v) ix

/-- `getVertexToFace` when the index does not exist yet (faces in map order). -/
def buildIx (fs : List Face) : VIndex := fs.foldl ixAddFace []

/-- The mesh: the face set (a list without repetition, in an arbitrary order; a face is its
pointer identity with its corners) and the index if it has been built. -/
structure MeshSt where
  faces : List Face
  index : Option VIndex

def MeshSt.empty : MeshSt := ⟨[], none⟩

def MeshSt.tris (st : MeshSt) : List Tri := st.faces.map (·.2)

/-- `Mesh.Add`. -/
def MeshSt.add (st : MeshSt) (f : Face) : MeshSt :=
  if f ∈ st.faces then st
  else ⟨st.faces ++ [f], st.index.map fun ix => ixAddFace ix f⟩

/-- `Mesh.Remove`. -/
def MeshSt.remove (st : MeshSt) (f : Face) : MeshSt :=
  if f ∈ st.faces then ⟨st.faces.erase f, st.index.map fun ix => ixRemoveFace ix f⟩
  else st

/-- Any call that goes through `getVertexToFace` (`Find`, `Neighbors`, `VertexSlice`,
`SingularVertices`, `Repair`, `Orientable`, …). -/
def MeshSt.touch (st : MeshSt) : MeshSt :=
  match st.index with
  | some _ => st
  | none => ⟨st.faces, some (buildIx st.faces)⟩

/-- `m = m.Copy()`: a new mesh holding the same face pointers; its index is not built. -/
def MeshSt.copy (st : MeshSt) : MeshSt := ⟨st.faces, none⟩

inductive MeshOp where
  | add (f : Face)
  | remove (f : Face)
  | touch
  | copy

def MeshSt.step (st : MeshSt) : MeshOp → MeshSt
  | .add f => st.add f
  | .remove f => st.remove f
  | .touch => st.touch
  | .copy => st.copy

/-- The state after a history. -/
def MeshSt.run (st : MeshSt) (ops : List MeshOp) : MeshSt := ops.foldl MeshSt.step st

/-! ## the diagnostics on a state -/

/-- `Mesh.NeedsRepair`: ranges over `m.faces`; the index is not consulted. -/
def needsRepairSt (st : MeshSt) : Bool := needsRepair st.tris

/-- `Mesh.InconsistentEdges`: ranges over `m.faces`. -/
def inconsistentEdgesSt (st : MeshSt) : List Edge := inconsistentEdges st.tris

/-- The stack search of `SingularVertices` on one slice of the index (`tris`), in the order the
history left it in. -/
def sliceUnvisited : List Face → List Face
  | [] => []
  | t :: rest => fanSearch (rest.length + 1) [t] rest

/-- `Mesh.SingularVertices` on a state: `getVertexToFace().Range(func(vertex, tris) …)`. -/
def singularVerticesSt (st : MeshSt) : List Nat :=
  match st.touch.index with
  | some ix => (ix.filter fun e => !(sliceUnvisited e.2).isEmpty).map (·.1)
  | none => []

/-- `NeedsRepair` with a cheap test in front of the edge scan that looks at the index when it
happens to be built (`if v2f := m.getVertexToFaceOrNil(); v2f != nil { … return true }`). -/
def needsRepairPre (pre : VIndex → Bool) (st : MeshSt) : Bool :=
  match st.index with
  | some ix => if pre ix then true else needsRepair st.tris
  | none => needsRepair st.tris

/-- "Some vertex has fewer than `k` triangles". -/
def fanBelow (k : Nat) (ix : VIndex) : Bool := ix.any fun e => decide (e.2.length < k)

/-! ## definitions on faces with identity -/

/-- The fan graph at `v` (faces at `v` of the current face set, adjacent when they share an edge
at `v`) is connected. -/
def FanGraphConnectedF (fs : List Face) (v : Nat) : Prop :=
  ∀ s ∈ facesAt v fs, ∀ t ∈ facesAt v fs, Reach fanAdj (facesAt v fs) s t

/-! ## 2-D: `model2d.Mesh` is the same template (`templates/mesh.template`) -/

/-- A segment `(a, b)` as a face of the shared mesh model: `uniqueVertices` of `(a, b, b)` are the
distinct ends of the segment. -/
def segTri (s : Seg) : Tri := (s.1, s.2, s.2)

def segOfTri (t : Tri) : Seg := (t.1, t.2.1)

/-- The segments of a 2-D mesh state. -/
def MeshSt.segs (st : MeshSt) : List Seg := st.faces.map fun f => segOfTri f.2

/-- `model2d.Mesh.Manifold` on a state: `getVertexToFace().Range(func(_, s) { if len(s) != 2 … })`
over the slices of the index. -/
def manifoldSt (st : MeshSt) : Bool :=
  match st.touch.index with
  | some ix => ix.all fun e => e.2.length == 2
  | none => true

end M3d.MeshDiag
