import M3d.Model.Transform
import M3d.Model.Transform2
import M3d.Model.TransformNest
/-!
# C05 — histories of one transform object (in-place edits, `Inverse()`, wrappers built along the way)

Core Lean only.  The Go transform types are mutable: `Translate.Offset`, `Scale.Scale`, `VecScale.Scale`, the
`AxisSqueeze` fields and `Matrix3Transform.Matrix` are exported, `Matrix` is a *pointer* whose target has the
in-place mutators `Scale`, `InvertInPlace` (and plain `*xf.Matrix = …`), and a `JoinedTransform` is a slice
whose elements can be stored to.  The property "`t.Inverse()` is the inverse of `t`" therefore has to hold for
`t` **as it is when `Inverse()` is called**, whatever happened to the object before — and for everything that asks
for the inverse (`TransformSolid/SDF/Collider/Metaball`, `MarchingCubesConj`).

Two models of a history:

* the **value semantics** (`Mut.apply`, `Xf.mutAt`, `HStep.run`): every object of a history has a current value
  (an `Xf`); an in-place edit of object `i` replaces the value of object `i` and of nothing else; `Inverse()` on
  object `i` yields a *new* object whose value is `Xf.inverse` of the **current** value of `i`.  This is what the
  driver runs (`c05 hist3` / `hist2`) and what the property demands;
* the **heap semantics** (`Hist.Cell`, `Hist.readIn`, `Hist.goInverse`): structs, matrices and slices are cells of a
  heap, a transform object is the address of its cell, `Matrix3Transform.Matrix` is an address, `Inverse()`
  allocates (`&Matrix3Transform{Matrix: m.Matrix.Inverse()}`, `&Translate{…}`, `append(res, j[i].Inverse())`).
  `M3d/Props/C05.lean` proves that the heap semantics *is* the value semantics: `Inverse()` reads the current
  content of the receiver, builds its result entirely in fresh cells and leaves every existing cell alone, so the
  result is the inverse of the receiver as it is now, is not aliased with anything, and no later edit of it can
  reach the receiver or any earlier result (`M3d.C05.inverse_fresh`, `history_value_semantics`, …).
-/
namespace M3d.Tf

/-! ## value semantics, 3-D -/

/-- The elements of a `JoinedTransform` value (`none`: the value is not a slice). -/
def Xf.members? {α : Type} : Xf α → Option (List (Xf α))
  | .jnil => some []
  | .jcons t r => r.members?.map (t :: ·)
  | _ => none

/-- One in-place edit of a transform object, addressed to the struct / matrix / slice it applies to. -/
inductive Mut (α : Type) where
  /-- `t.Offset = v` (`*Translate`) -/
  | setOffset (v : V3 α)
  /-- `s.Scale = x` (`*Scale`) -/
  | setScale (s : α)
  /-- `v.Scale = x` (`*VecScale`) -/
  | setVec (v : V3 α)
  /-- `*a = AxisSqueeze{axis, lo, hi, ratio}` (`*toolbox3d.AxisSqueeze`, field stores) -/
  | setSqueeze (axis : Nat) (lo hi ratio : α)
  /-- `t.Matrix.Scale(s)` — in place, the pointer `t.Matrix` is unchanged -/
  | matScale (s : α)
  /-- `*t.Matrix = m` — in place, the pointer is unchanged -/
  | matAssign (m : M3 α)
  /-- `t.Matrix.InvertInPlace()` -/
  | matInvert
  /-- `t.Matrix = &m` — the pointer is replaced -/
  | matPtr (m : M3 α)
  /-- `j[k] = x` -/
  | jset (k : Nat) (x : Xf α)
  /-- `j = append(j, x)` -/
  | japp (x : Xf α)
  /-- `j[a], j[b] = j[b], j[a]` -/
  | jswap (a b : Nat)

/-- The value of the edited object after the edit (`none`: the edit does not apply to this kind of object).
`orthoMatrix3Transform` (the result of `Rotation`) is unexported and has no mutable state a caller can reach. -/
def Mut.apply {α : Type} [Add α] [Sub α] [Mul α] [Div α] [OfNat α 1] : Mut α → Xf α → Option (Xf α)
  | .setOffset v, .translate _ => some (.translate v)
  | .setScale s, .scale _ => some (.scale s)
  | .setVec v, .vecScale _ => some (.vecScale v)
  | .setSqueeze ax lo hi r, .squeeze _ _ _ _ => some (.squeeze ax lo hi r)
  | .matScale s, .matrix m => some (.matrix (m.scale s))
  | .matAssign m', .matrix _ => some (.matrix m')
  | .matInvert, .matrix m => some (.matrix m.inverse)
  | .matPtr m', .matrix _ => some (.matrix m')
  | .jset k x, t => t.members?.bind fun l => if k < l.length then some (Xf.ofList (l.set k x)) else none
  | .japp x, t => t.members?.map fun l => Xf.ofList (l ++ [x])
  | .jswap a b, t => t.members?.bind fun l =>
      match l[a]?, l[b]? with
      | some x, some y => some (Xf.ofList ((l.set a y).set b x))
      | _, _ => none
  | _, _ => none

/-- Apply `f` to the member reached by descending through slice elements `path` (`j[k₁].(JoinedTransform)[k₂]…`);
the slices on the way are stored to in place, so the whole object changes value. -/
def Xf.mutAt {α : Type} (f : Xf α → Option (Xf α)) : List Nat → Xf α → Option (Xf α)
  | [], t => f t
  | k :: ks, t => do
      let l ← t.members?
      let m ← l[k]?
      let m' ← Xf.mutAt f ks m
      some (Xf.ofList (l.set k m'))

/-- The objects of a history: `objs[i]` is the current value of object `i`; `snaps[w]` is the value a wrapper
(`TransformSolid/SDF/Collider/Metaball`, which ask for `Inverse()` and `ApplyBounds` when they are built) was
built from. -/
structure HState (α : Type) where
  objs : List (Xf α)
  snaps : List (Xf α)

/-- The state-changing steps of a history (observations — `Apply`, `Inverse().Apply`, queries of wrappers built
on the spot — do not change any value). -/
inductive HStep (α : Type) where
  /-- `objs = append(objs, objs[i].Inverse())` -/
  | inv (i : Nat)
  /-- an in-place edit of object `i` at `path` -/
  | mut (i : Nat) (path : List Nat) (μ : Mut α)
  /-- wrappers of object `i` are built now -/
  | snap (i : Nat)

/-- Value semantics of one step. -/
def HStep.run {α : Type} [Add α] [Sub α] [Mul α] [Div α] [Neg α] [OfNat α 1] :
    HStep α → HState α → Option (HState α)
  | .inv i, st => st.objs[i]?.map fun t => { st with objs := st.objs ++ [t.inverse] }
  | .mut i path μ, st => do
      let t ← st.objs[i]?
      let t' ← Xf.mutAt μ.apply path t
      some { st with objs := st.objs.set i t' }
  | .snap i, st => st.objs[i]?.map fun t => { st with snaps := st.snaps ++ [t] }

/-- Value semantics of a history. -/
def runHistory {α : Type} [Add α] [Sub α] [Mul α] [Div α] [Neg α] [OfNat α 1] :
    List (HStep α) → HState α → Option (HState α)
  | [], st => some st
  | s :: ss, st => (s.run st).bind (runHistory ss)


/-! ## heap semantics (3-D): pointers, in-place stores, allocation in `Inverse()` -/

namespace Hist

/-- One heap cell. -/
inductive Cell (α : Type) where
  /-- a struct whose fields are values: `Translate`, `Scale`, `VecScale`, `toolbox3d.AxisSqueeze` (`t` is that value) -/
  | prim (t : Xf α)
  /-- a `Matrix3` array -/
  | mat (m : M3 α)
  /-- a `Matrix3Transform` struct: its field `Matrix` is the address `p` -/
  | mxf (p : Nat)
  /-- an `orthoMatrix3Transform` struct (embeds a `Matrix3Transform`) -/
  | oxf (p : Nat)
  /-- the backing array of a `JoinedTransform`: the interface values are addresses of the members -/
  | slice (ps : List Nat)

/-- Is the value a struct of value fields (`Translate`, `Scale`, `VecScale`, `AxisSqueeze`)? -/
def isStruct {α : Type} : Xf α → Bool
  | .translate _ => true
  | .scale _ => true
  | .vecScale _ => true
  | .squeeze _ _ _ _ => true
  | _ => false

/-- The heap: addresses are indices; allocation appends. -/
abbrev Heap (α : Type) := List (Cell α)

/-- `f` on every element, all of which must succeed. -/
def allSome {β γ : Type} (f : β → Option γ) : List β → Option (List γ)
  | [] => some []
  | a :: as =>
      match f a, allSome f as with
      | some b, some bs => some (b :: bs)
      | _, _ => none

/-- The value (`Xf`) an object denotes: follow the pointers from address `a`, touching only cells whose address
satisfies `S` (the object's footprint), to nesting depth at most `n` (fuel). -/
def readIn {α : Type} (S : Nat → Bool) : Nat → Heap α → Nat → Option (Xf α)
  | 0, _, _ => none
  | n + 1, h, a =>
      if S a then
        match h[a]? with
        | some (.prim t) => if isStruct t then some t else none
        | some (.mxf p) =>
            if S p then (match h[p]? with | some (.mat m) => some (.matrix m) | _ => none) else none
        | some (.oxf p) =>
            if S p then (match h[p]? with | some (.mat m) => some (.ortho m) | _ => none) else none
        | some (.slice ps) => (allSome (readIn S n h) ps).map Xf.ofList
        | _ => none
      else none

/-- `new(T)` / `&T{…}`: the new cell gets the next address. -/
def alloc {α : Type} (h : Heap α) (c : Cell α) : Heap α × Nat := (h ++ [c], h.length)

/-- `for … { res = append(res, j[i].Inverse()) }` over the addresses `ps` (already in loop order), `inv` being the
members' `Inverse()`; the heap is threaded through. -/
def invMembers {α : Type} (inv : Heap α → Nat → Option (Heap α × Nat)) :
    List Nat → Heap α → List Nat → Option (Heap α × List Nat)
  | [], h, res => some (h, res)
  | p :: ps, h, res =>
      match inv h p with
      | some r => invMembers inv ps r.1 (res ++ [r.2])
      | none => none

/-- The Go method `Inverse()` on the object at address `a` (dynamic dispatch on the cell):
* `&Translate{Offset: t.Offset.Scale(-1)}`, `&Scale{Scale: 1 / s.Scale}`, `&VecScale{…}`, `&AxisSqueeze{…}`: one new struct
  built from the **current** field values;
* `&Matrix3Transform{Matrix: m.Matrix.Inverse()}`: `Matrix3.Inverse()` copies the current content of `*m.Matrix` into
  a new array and inverts that (`res := *m; res.InvertInPlace(); return &res`), then a new struct points at it;
* `orthoMatrix3Transform`: the same, wrapped;
* `JoinedTransform`: a new slice of the members' `Inverse()` results, last member first. -/
def goInverse {α : Type} [Add α] [Sub α] [Mul α] [Div α] [Neg α] [OfNat α 1] :
    Nat → Heap α → Nat → Option (Heap α × Nat)
  | 0, _, _ => none
  | n + 1, h, a =>
      match h[a]? with
      | some (.prim t) => some (alloc h (.prim t.inverse))
      | some (.mxf p) =>
          match h[p]? with
          | some (.mat m) =>
              let r := alloc h (.mat m.inverse)
              some (alloc r.1 (.mxf r.2))
          | _ => none
      | some (.oxf p) =>
          match h[p]? with
          | some (.mat m) =>
              let r := alloc h (.mat m.inverse)
              some (alloc r.1 (.oxf r.2))
          | _ => none
      | some (.slice ps) =>
          (invMembers (goInverse n) ps.reverse h []).map fun r => alloc r.1 (.slice r.2)
      | _ => none

/-- A transform object of a history: the address of its struct / slice, its footprint (the cells it is made of)
and a bound on its nesting depth. -/
structure Obj where
  addr : Nat
  own : Nat → Bool
  fuel : Nat

/-- Heap and object table of a history. -/
structure HeapState (α : Type) where
  heap : Heap α
  objs : List Obj

/-- The current value of object `i`. -/
def HeapState.value {α : Type} (σ : HeapState α) (i : Nat) : Option (Xf α) :=
  σ.objs[i]?.bind fun o => readIn o.own o.fuel σ.heap o.addr

/-- The steps of a history on the heap. -/
inductive HeapStep (α : Type) where
  /-- `objs = append(objs, objs[i].Inverse())` -/
  | inv (i : Nat)
  /-- an in-place store into cell `b` of object `i` (`t.Offset = v`, `m.Scale(s)`, `*t.Matrix = m`, `InvertInPlace`,
  `t.Matrix = p`, `j[k] = x`) -/
  | store (i : Nat) (b : Nat) (c : Cell α)
  /-- object `i` allocates a cell of its own (`&m` in `t.Matrix = &m`, a new member) -/
  | grow (i : Nat) (c : Cell α)

/-- The object an edit is addressed to (`Inverse()` edits nothing). -/
def HeapStep.target {α : Type} : HeapStep α → Option Nat
  | .inv _ => none
  | .store i _ _ => some i
  | .grow i _ => some i

/-- Heap semantics of one step.  The result of `Inverse()` owns exactly the cells allocated by the call. -/
def HeapStep.run {α : Type} [Add α] [Sub α] [Mul α] [Div α] [Neg α] [OfNat α 1] :
    HeapStep α → HeapState α → Option (HeapState α)
  | .inv i, σ => do
      let o ← σ.objs[i]?
      let r ← goInverse o.fuel σ.heap o.addr
      some { heap := r.1,
             objs := σ.objs ++ [⟨r.2, fun b => decide (σ.heap.length ≤ b) && decide (b < r.1.length), o.fuel⟩] }
  | .store i b c, σ => do
      let o ← σ.objs[i]?
      if o.own b && decide (b < σ.heap.length) then some { σ with heap := σ.heap.set b c } else none
  | .grow i c, σ => do
      let o ← σ.objs[i]?
      some { heap := σ.heap ++ [c],
             objs := σ.objs.set i ⟨o.addr, fun b => o.own b || b == σ.heap.length, o.fuel⟩ }

/-- Heap semantics of a history. -/
def runHeap {α : Type} [Add α] [Sub α] [Mul α] [Div α] [Neg α] [OfNat α 1] :
    List (HeapStep α) → HeapState α → Option (HeapState α)
  | [], σ => some σ
  | s :: ss, σ => (s.run σ).bind (runHeap ss)

/-- How an edit of a *flat* object (a struct of values or a `Matrix3Transform`; `path = []`) is carried out on the
heap: field stores overwrite the struct, `Scale` / `*p = m` / `InvertInPlace` overwrite the matrix the struct points
at, `t.Matrix = &m` allocates a matrix and redirects the pointer. -/
def flatEdit {α : Type} [Add α] [Sub α] [Mul α] [Div α] [Neg α] [OfNat α 1] (i : Nat) (σ : HeapState α) :
    Mut α → Option (List (HeapStep α))
  | .setOffset v => σ.objs[i]?.map fun o => [.store i o.addr (.prim (.translate v))]
  | .setScale s => σ.objs[i]?.map fun o => [.store i o.addr (.prim (.scale s))]
  | .setVec v => σ.objs[i]?.map fun o => [.store i o.addr (.prim (.vecScale v))]
  | .setSqueeze ax lo hi r => σ.objs[i]?.map fun o => [.store i o.addr (.prim (.squeeze ax lo hi r))]
  | .matScale s => do
      let o ← σ.objs[i]?
      match σ.heap[o.addr]? with
      | some (.mxf p) => match σ.heap[p]? with
          | some (.mat m) => some [.store i p (.mat (m.scale s))]
          | _ => none
      | _ => none
  | .matAssign m' => do
      let o ← σ.objs[i]?
      match σ.heap[o.addr]? with
      | some (.mxf p) => some [.store i p (.mat m')]
      | _ => none
  | .matInvert => do
      let o ← σ.objs[i]?
      match σ.heap[o.addr]? with
      | some (.mxf p) => match σ.heap[p]? with
          | some (.mat m) => some [.store i p (.mat m.inverse)]
          | _ => none
      | _ => none
  | .matPtr m' => do
      let o ← σ.objs[i]?
      match σ.heap[o.addr]? with
      | some (.mxf _) => some [.grow i (.mat m'), .store i o.addr (.mxf σ.heap.length)]
      | _ => none
  | _ => none

/-- The heap steps of a history step on flat objects. -/
def compileFlat {α : Type} [Add α] [Sub α] [Mul α] [Div α] [Neg α] [OfNat α 1] (σ : HeapState α) :
    HStep α → Option (List (HeapStep α))
  | .inv i => some [.inv i]
  | .mut i [] μ => flatEdit i σ μ
  | .snap _ => some []
  | _ => none

end Hist

/-! ## value semantics, 2-D (the same text over `Xf2` / `V2` / `M2`) -/

/-- The elements of a 2-D `JoinedTransform` value. -/
def Xf2.members? {α : Type} : Xf2 α → Option (List (Xf2 α))
  | .jnil => some []
  | .jcons t r => r.members?.map (t :: ·)
  | _ => none

/-- One in-place edit of a `model2d` transform object. -/
inductive Mut2 (α : Type) where
  | setOffset (v : V2 α)
  | setScale (s : α)
  | setVec (v : V2 α)
  | matScale (s : α)
  | matAssign (m : M2 α)
  | matInvert
  | matPtr (m : M2 α)
  | jset (k : Nat) (x : Xf2 α)
  | japp (x : Xf2 α)
  | jswap (a b : Nat)

/-- The value of the edited 2-D object after the edit. -/
def Mut2.apply {α : Type} [Sub α] [Mul α] [Div α] [Neg α] [OfNat α 1] : Mut2 α → Xf2 α → Option (Xf2 α)
  | .setOffset v, .translate _ => some (.translate v)
  | .setScale s, .scale _ => some (.scale s)
  | .setVec v, .vecScale _ => some (.vecScale v)
  | .matScale s, .matrix m => some (.matrix (m.scale s))
  | .matAssign m', .matrix _ => some (.matrix m')
  | .matInvert, .matrix m => some (.matrix m.inverse)
  | .matPtr m', .matrix _ => some (.matrix m')
  | .jset k x, t => t.members?.bind fun l => if k < l.length then some (Xf2.ofList (l.set k x)) else none
  | .japp x, t => t.members?.map fun l => Xf2.ofList (l ++ [x])
  | .jswap a b, t => t.members?.bind fun l =>
      match l[a]?, l[b]? with
      | some x, some y => some (Xf2.ofList ((l.set a y).set b x))
      | _, _ => none
  | _, _ => none

/-- 2-D `mutAt`. -/
def Xf2.mutAt {α : Type} (f : Xf2 α → Option (Xf2 α)) : List Nat → Xf2 α → Option (Xf2 α)
  | [], t => f t
  | k :: ks, t => do
      let l ← t.members?
      let m ← l[k]?
      let m' ← Xf2.mutAt f ks m
      some (Xf2.ofList (l.set k m'))

structure HState2 (α : Type) where
  objs : List (Xf2 α)
  snaps : List (Xf2 α)

inductive HStep2 (α : Type) where
  | inv (i : Nat)
  | mut (i : Nat) (path : List Nat) (μ : Mut2 α)
  | snap (i : Nat)

def HStep2.run {α : Type} [Sub α] [Mul α] [Div α] [Neg α] [OfNat α 1] :
    HStep2 α → HState2 α → Option (HState2 α)
  | .inv i, st => st.objs[i]?.map fun t => { st with objs := st.objs ++ [t.inverse] }
  | .mut i path μ, st => do
      let t ← st.objs[i]?
      let t' ← Xf2.mutAt μ.apply path t
      some { st with objs := st.objs.set i t' }
  | .snap i, st => st.objs[i]?.map fun t => { st with snaps := st.snaps ++ [t] }

def runHistory2 {α : Type} [Sub α] [Mul α] [Div α] [Neg α] [OfNat α 1] :
    List (HStep2 α) → HState2 α → Option (HState2 α)
  | [], st => some st
  | s :: ss, st => (s.run st).bind (runHistory2 ss)

end M3d.Tf
