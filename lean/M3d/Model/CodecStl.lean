import M3d.Model.CodecBytes
/-!
# STL codec (fileformats/stl.go, model3d/export.go writeSTL, model3d/import.go readSTL)

A float32 is its bit pattern (`UInt32`); a triangle record is the list of its 12 words
(normal x y z, then the three vertices).  `round32 : UInt64 → UInt32` (Go's `float32(x)`) and
`widen : UInt32 → UInt64` (`float64(f)`) are parameters at the mesh level.
Errors are values; `io.EOF` from `ReadTriangle` is the *clean end* of the stream.
-/
namespace M3d.Codec

/-- decoder failure modes -/
inductive Err
  | unexpectedEOF   -- io.ErrUnexpectedEOF / short read
  | bad             -- any other error (syntax, range, validation)
  deriving DecidableEq, Repr

abbrev Rec := List UInt32   -- 12 words

/-! ## Writer -/

def zeros (n : Nat) : Bytes := List.replicate n 0

/-- `STLWriter.WriteTriangle`: 12 float32 little-endian, then 2 attribute bytes. -/
def stlEncodeRec (r : Rec) : Bytes := r.flatMap le32 ++ [0, 0]

/-- `NewSTLWriter` + `WriteTriangle`×n : 80 zero bytes, count, records. -/
def stlEncode (ts : List Rec) : Bytes :=
  zeros 80 ++ le32 (UInt32.ofNat ts.length) ++ ts.flatMap stlEncodeRec

/-! ## Reader -/

def solidBytes : Bytes := [115, 111, 108, 105, 100]   -- "solid"

/-- `isSTLChunkASCII` on the first ≤ 512 bytes. -/
def stlIsAscii (chunk : Bytes) : Bool :=
  decide (5 ≤ chunk.length) && (chunk.take 5 == solidBytes) && chunk.all fun x => x != 0 && x ≤ 127

/-- `STLReader.readBinary` repeated by the caller until `io.EOF`: `n` = declared triangles not yet
read.  A record boundary at end of input is a *clean* EOF (ReadFull returns io.EOF with 0 bytes
read), a partial record is `ErrUnexpectedEOF`.  Structural in the declared count. -/
def stlReadBinRecs : Nat → Bytes → Except Err (List Rec)
  | 0, _ => .ok []
  | n+1, bs =>
    if bs.isEmpty then .ok []
    else if bs.length < 50 then .error .unexpectedEOF
    else
      match stlReadBinRecs n (bs.drop 50) with
      | .ok rest => .ok (words32 (bs.take 48) :: rest)
      | .error e => .error e

/-- `newSTLReaderBinary`: header and declared count. -/
def stlBinHeader (bs : Bytes) : Except Err (Nat × Bytes) :=
  if bs.length < 84 then .error .unexpectedEOF
  else .ok ((unle32 ((bs.drop 80).take 4)).toNat, bs.drop 84)

/-! ### ASCII -/

def tokFacet : Bytes := ascii "facet"
def tokVertex : Bytes := ascii "vertex"
def tokEndfacet : Bytes := ascii "endfacet"
def tokEndsolid : Bytes := ascii "endsolid"

/-- `parseSTLVector`: the last three tokens, each through `ParseFloat(·, 32)`. -/
def stlParseVec (pf32 : Bytes → Option UInt32) (toks : List Bytes) : Option (List UInt32) :=
  ((toks.drop (toks.length - 3)).mapM pf32)

/-- `readSTL`'s loop over `STLReader.ReadTriangle` → `readASCII`, flattened into one loop over
lines: `normal` (3 words) and `verts` (≤ 9 words) are the facet being assembled, `acc` the triangles
already returned (reversed).  Every iteration consumes a whole line, so the recursion is on strictly
shorter input — this *is* the progress proof of the ASCII reader. -/
def stlAsciiLoop (pf32 : Bytes → Option UInt32) (bs : Bytes) (normal verts : List UInt32)
    (acc : List Rec) : Except Err (List Rec) :=
  match h : readLine bs with
  | (line, rest, found) =>
    if hf : found = false then
      -- io.EOF from ReadString: clean only on an `endsolid` line
      if tokEndsolid.isPrefixOf (trimLeftAux line.length line) then .ok acc.reverse
      else .error .unexpectedEOF
    else
      have hlt : rest.length < bs.length := by
        have hf' : found = true := by simpa using hf
        subst hf'
        exact readLine_rest_lt bs line rest true h (readLine_found_ne_nil bs line rest h)
      let toks := fields line
      match toks with
      | [] => stlAsciiLoop pf32 rest normal verts acc
      | t0 :: _ =>
        if t0 = tokEndsolid then .ok acc.reverse
        else if t0 = tokEndfacet then
          if verts.length = 9 then stlAsciiLoop pf32 rest [0, 0, 0] [] ((normal ++ verts) :: acc)
          else .error .bad
        else if t0 = tokFacet then
          if toks.length ≠ 5 then .error .bad
          else match stlParseVec pf32 toks with
            | none => .error .bad
            | some n => stlAsciiLoop pf32 rest n verts acc
        else if t0 = tokVertex then
          if toks.length ≠ 4 then .error .bad
          else if verts.length = 9 then .error .bad
          else match stlParseVec pf32 toks with
            | none => .error .bad
            | some v => stlAsciiLoop pf32 rest normal (verts ++ v) acc
        else stlAsciiLoop pf32 rest normal verts acc
termination_by bs.length

/-- `newSTLReaderASCII`: the first line must end in a newline. -/
def stlAsciiHeader (bs : Bytes) : Except Err Bytes :=
  match readLine bs with
  | (_, rest, true) => .ok rest
  | (_, _, false) => .error .bad

/-- `fileformats.NewSTLReader` + the `ReadTriangle` loop of `model3d.readSTL`: all records of a file. -/
def stlDecode (pf32 : Bytes → Option UInt32) (bs : Bytes) : Except Err (List Rec) :=
  if bs.isEmpty then .error .unexpectedEOF
  else if stlIsAscii (bs.take 512) then
    match stlAsciiHeader bs with
    | .ok rest => stlAsciiLoop pf32 rest [0, 0, 0] [] []
    | .error e => .error e
  else
    match stlBinHeader bs with
    | .ok (n, rest) => stlReadBinRecs n rest
    | .error e => .error e

/-- binary files need no number parser -/
def noParse32 : Bytes → Option UInt32 := fun _ => none

/-! ## Mesh level (`model3d.EncodeSTL`, `model3d.ReadSTL`) -/

/-- a triangle of the mesh API: 9 float64 bit patterns -/
abbrev Tri64 := List UInt64

/-- `writeSTL`: each triangle becomes `castVector32(normal) ++ castVector32(vertices)`.  The normal is
whatever `Triangle.Normal()` returns (a parameter: the reader discards it). -/
def stlEncodeMesh (round32 : UInt64 → UInt32) (normalOf : Tri64 → List UInt64) (ts : List Tri64) : Bytes :=
  stlEncode (ts.map fun t => (normalOf t).map round32 ++ t.map round32)

/-- `readSTL`: drops the normal, widens the 9 coordinates. -/
def stlDecodeMesh (widen : UInt32 → UInt64) (pf32 : Bytes → Option UInt32) (bs : Bytes) :
    Except Err (List Tri64) :=
  match stlDecode pf32 bs with
  | .ok rs => .ok (rs.map fun r => (r.drop 3).map widen)
  | .error e => .error e

/-! ## Allocation ledger (bytes requested by `make`/buffers whose size does not come from bytes already read)

`readSTL` (repaired): `bufio.NewReader` 4096 + sniff chunk 512 + header 80 + the triangle slice
pre-allocation `8·min(count, stlMaxPrealloc)`; everything else grows with records actually read
(72-byte triangles + amortised slice growth ≤ 16 per entry). -/
def stlMaxPrealloc : Nat := 65536

/-- triangle count declared by a binary header (0 for ASCII / unreadable headers) -/
def stlDeclared (bs : Bytes) : Nat :=
  if bs.isEmpty || stlIsAscii (bs.take 512) then 0
  else match stlBinHeader bs with
    | .ok (n, _) => n
    | .error _ => 0

/-- triangles actually materialised before the decoder returns -/
def stlRead (bs : Bytes) : Nat :=
  match stlDecode noParse32 bs with
  | .ok rs => rs.length
  | .error _ => bs.length / 50

def stlLedger (bs : Bytes) : Nat :=
  (4096 + 512 + 80) + 8 * min (stlDeclared bs) stlMaxPrealloc + 88 * stlRead bs

/-- the ledger of the code **before** the repair: `make([]*Triangle, 0, NumTriangles())`. -/
def stlLedgerUnrepaired (bs : Bytes) : Nat :=
  (4096 + 512 + 80) + 8 * stlDeclared bs

end M3d.Codec
