import M3d.Model.MeshDiag
import M3d.Gen.HierAxis
/-!
# The sweep of `uncheckedMeshToHierarchy` seen geometrically (core-only, generic scalar)

`mesh_hierarchy.go` visits the vertices by increasing dot product with `arbitraryAxis` and asks,
for the first vertex `minVertex` of a not yet stripped component, every root `x` whether
`x.MeshSolid.Contains(minVertex)`.  This file has the small geometric vocabulary needed to state

* when a cheap test placed *before* that containment call ("the sweep has already passed the
  bounding box of `x`, skip it") is harmless: `rootKeep` is the general shape of such a test,
  `farCorner` the bounding-box corner for which it is sound, `maxCorner` (Go's `x.Max()`) the
  corner for which it is sound only when no component of the axis is negative — the 2-D axis
  `(0.95, 0.27)` has none, the 3-D axis `(0.95, 0.27, -0.148)` has one;
* the order hypothesis of `hierarchy_nesting` in terms of the sweep key (`SweepSorted`).

Theorems: `M3d/Lemmas/MeshDiagSweep.lean`, `M3d/Props/C11.lean`.
-/
namespace M3d.MeshDiag
open M3d.Surface

structure Vec3 (α : Type) where
  x : α
  y : α
  z : α
deriving DecidableEq, Repr

section
variable {α : Type}

/-- `Coord3D.Dot`. -/
def vdot [Add α] [Mul α] (a b : Vec3 α) : α := a.x * b.x + a.y * b.y + a.z * b.z

/-- `p` lies in the axis-aligned box `[mn, mx]`. -/
def InBox [LE α] (mn mx p : Vec3 α) : Prop :=
  mn.x ≤ p.x ∧ p.x ≤ mx.x ∧ mn.y ≤ p.y ∧ p.y ≤ mx.y ∧ mn.z ≤ p.z ∧ p.z ≤ mx.z

/-- The corner of the box `[mn, mx]` that is furthest along `axis`: per coordinate the maximum
where the axis points up, the minimum where it points down. -/
def farCorner [OfNat α 0] [LE α] [DecidableLE α] (axis mn mx : Vec3 α) : Vec3 α :=
  ⟨if (0 : α) ≤ axis.x then mx.x else mn.x,
   if (0 : α) ≤ axis.y then mx.y else mn.y,
   if (0 : α) ≤ axis.z then mx.z else mn.z⟩

/-- Go's `x.Max()` (the corner with the three maxima). -/
def maxCorner (_mn mx : Vec3 α) : Vec3 α := mx

/-- A test placed in front of the root-level containment call of `ClosedMeshLoop`: the root `y`
is only asked when `keep y x`; otherwise the loop moves on to the next root. -/
def rootKeep (keep encTop : Comp → Comp → Bool) : Comp → Comp → Bool :=
  fun y x => keep y x && encTop y x

/-- The bounding-box shortcut: skip the root `y` when the projection of the chosen corner of its
bounding box on the axis is smaller than that of the new component's sweep vertex
(`if corner.Dot(axis) < minVertex.Dot(axis) { continue }`). -/
def cornerKeep [Add α] [Mul α] [LT α] [DecidableLT α] (axis : Vec3 α) (corner : Comp → Vec3 α)
    (pos : Nat → Vec3 α) : Comp → Comp → Bool :=
  fun y x => !decide (vdot (corner y) axis < vdot (pos x.1) axis)

/-- The sweep order: `sorted` lists the vertices by non-decreasing key (`sort.Sort` over
`c.Dot(arbitraryAxis)`; ties in any order). -/
def SweepSorted [LE α] (key : Nat → α) (sorted : List Nat) : Prop :=
  sorted.Pairwise fun v w => key v ≤ key w

instance [LE α] [DecidableLE α] (key : Nat → α) (sorted : List Nat) : Decidable (SweepSorted key sorted) := by
  unfold SweepSorted; infer_instance

/-- All vertex ids of a component's faces. -/
def compVerts (x : Comp) : List Nat := x.2.flatMap fun f => triVerts f.2

end
/-! ## The sweep axes of the current source (`M3d/Gen/HierAxis.lean`, regenerated on every run) -/

/-- `(n, p)` ↦ `n / 10^p`: the exact value of a decimal literal. -/
def decRat (d : Int × Nat) : Rat := (d.1 : Rat) / ((10 ^ d.2 : Nat) : Rat)

/-- `model3d.arbitraryAxis`, the literals of the source taken exactly (the float64 values are
their roundings: same signs). -/
def axis3Q : Vec3 Rat :=
  match M3d.Gen.HierAxis.axis3D with
  | [x, y, z] => ⟨decRat x, decRat y, decRat z⟩
  | _ => ⟨0, 0, 0⟩

/-- `model2d.arbitraryAxis` (no third component). -/
def axis2Q : Vec3 Rat :=
  match M3d.Gen.HierAxis.axis2D with
  | [x, y] => ⟨decRat x, decRat y, 0⟩
  | _ => ⟨0, 0, 0⟩

end M3d.MeshDiag
