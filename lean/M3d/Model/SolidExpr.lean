import M3d.Model.SolidAlg
/-!
# Nested solid combinators (C04)

Source: `/repo/templates/solid.template` (→ `model2d/solid.go`, `model3d/solid.go`).  Core Lean only.

`Model/SolidAlg.lean` models each combinator on a list of operand *predicates* (or of bounded
leaves).  Real programs nest them: a `JoinedSolid` whose operands are optimized joins, intersections,
differences and multiplexers of further combinators.  What an inner combinator hands to the outer one
is a `Solid` — a `Contains` **and the bounds it reports** — and the accelerated forms
(`Optimize`, `SolidMux`) prune by those bounds.  This file models the nesting:

* `Expr` is an expression over leaf solids: `JoinedSolid`, `JoinedSolid.Optimize()`, `NewSolidMux`
  (used as a `Solid`), `IntersectedSolid`, `SubtractedSolid`; operand lists are non-empty (`Exprs`);
  the `Optimize` / `SolidMux` nodes carry the reordering `GroupBounders` applies at that node;
* `Expr.toSolid` builds the solid the Go code builds, bottom-up, with the bounds each combinator
  reports: `JoinedSolid.Min/Max` (`joinedBox`), `IntersectedSolid.Min/Max` (`interBox`: the largest
  `Min`, the smallest `Max`, the latter raised to the former — "prevent negative area"),
  `SubtractedSolid.Min/Max` (those of `Positive`), the cached bounds of `Optimize`, the `bbox` of the mux;
* `Expr.eval` is the pointwise boolean formula (the specification).
-/
namespace M3d.SolidAlg

section
variable {α : Type} [LE α] [DecidableLE α]

/-- `IntersectedSolid.Min()` / `Max()` of a non-empty list. -/
def interBox (first : Solid α) (rest : List (Solid α)) : Box α :=
  let lo : Pt α := rest.foldl (fun b s => fun i => maxOf (b i) (s.box.lo i)) first.box.lo
  let hi : Pt α := rest.foldl (fun b s => fun i => minOf (b i) (s.box.hi i)) first.box.hi
  ⟨lo, fun i => maxOf (hi i) (lo i)⟩

/-- A `JoinedSolid` value as a `Solid` (`none` = empty list: `Min()` would index out of range). -/
def joinedSolid : List (Solid α) → Option (Solid α)
  | [] => none
  | a :: rest => some ⟨joinedBox a rest, joined ((a :: rest).map (·.f))⟩

/-- An `IntersectedSolid` value as a `Solid`. -/
def interSolid : List (Solid α) → Option (Solid α)
  | [] => none
  | a :: rest => some ⟨interBox a rest, intersected ((a :: rest).map (·.f))⟩

/-- A `SubtractedSolid` value as a `Solid`. -/
def subSolid (pos neg : Solid α) : Solid α := ⟨pos.box, subtracted pos.f neg.f⟩

/-- `SolidMux.Min()/Max()`: the `bbox` of the root. -/
def Mux.box? : Mux α → Option (Box α)
  | .empty => none
  | .leaf box _ _ => some box
  | .node box _ _ _ => some box

/-- A `*SolidMux` used as a `Solid`. -/
def muxSolid (n : Nat) (m : Mux α) : Option (Solid α) :=
  (m.box?).map fun b => ⟨b, m.contains n⟩

end

mutual
/-- A nest of combinators over leaf solids. -/
inductive Expr (α : Type) where
  | leaf (s : Solid α) : Expr α
  | join (es : Exprs α) : Expr α
  | opt (g : List (Solid α) → List (Solid α)) (es : Exprs α) : Expr α
  | mux (g : List (Nat × Solid α) → List (Nat × Solid α)) (es : Exprs α) : Expr α
  | inter (es : Exprs α) : Expr α
  | sub (a b : Expr α) : Expr α
/-- A non-empty operand list. -/
inductive Exprs (α : Type) where
  | one (e : Expr α) : Exprs α
  | cons (e : Expr α) (es : Exprs α) : Exprs α
end

def Exprs.length {α : Type} : Exprs α → Nat
  | .one _ => 1
  | .cons _ es => es.length + 1

section
variable {α : Type} [LE α] [DecidableLE α]

mutual
/-- The solid the Go code builds for the expression (`none` = it would not terminate / panic). -/
def Expr.toSolid (n : Nat) : Expr α → Option (Solid α)
  | .leaf s => some s
  | .join es => (es.toSolids n).bind joinedSolid
  | .opt g es => (es.toSolids n).bind (optimize n g)
  | .mux g es => (es.toSolids n).bind fun l => (newMux g l).bind (muxSolid n)
  | .inter es => (es.toSolids n).bind interSolid
  | .sub a b =>
    match a.toSolid n, b.toSolid n with
    | some sa, some sb => some (subSolid sa sb)
    | _, _ => none
def Exprs.toSolids (n : Nat) : Exprs α → Option (List (Solid α))
  | .one e => (e.toSolid n).map fun s => [s]
  | .cons e es =>
    match e.toSolid n, es.toSolids n with
    | some s, some l => some (s :: l)
    | _, _ => none
end

mutual
/-- The specification: the pointwise boolean formula. -/
def Expr.eval : Expr α → Pt α → Bool
  | .leaf s, p => s.f p
  | .join es, p => (es.evals p).any id
  | .opt _ es, p => (es.evals p).any id
  | .mux _ es, p => (es.evals p).any id
  | .inter es, p => (es.evals p).all id
  | .sub a b, p => a.eval p && !(b.eval p)
def Exprs.evals : Exprs α → Pt α → List Bool
  | .one e, p => [e.eval p]
  | .cons e es, p => e.eval p :: es.evals p
end

end
end M3d.SolidAlg
