import M3d.Model.Surface
/-!
# Models for C18 — surface parameterisation (`/repo/model3d/parameterization.go`)

Core Lean only.  Combinatorial parts work on triangle-id soups (`M3d.Surface.Tri`: vertex ids stand
for distinct coordinates); numeric parts are generic over the scalar and are proved over ordered
fields, executed at `Rat` (exact mode) and `Float`.

* `Bd`, `Bd.toggle`, `Bd.addTri`, `wouldDivide`  — the `segments` / `vertices` bookkeeping and the
  boundary-division test of `nextMeshPlaneGraphs`;
* `GState`, `addTriangle`, `growLoop`, `nextCharts`, `planeGraphs` — chart growth as a state machine
  with an arbitrary `Policy` (choice of the first triangle, of the queue element, stopping,
  split index of the sphere case); `prioPolicy` is the splay-tree priority queue of the Go code
  (max priority, ties to the smaller UID), `areaStop`/`areaExceed`/`areaSplit` the area limits and
  the cumulative-area split;
* `boundarySeq` — `boundarySequence`;
* `arcParams` — cumulative arc-length parameters of `CircleBoundary`;
* `floaterRow`, `rowResidual` — one row of the linear system of `floater97`;
* `QT`, `buildQT`, `joined`, `toBounds` — `paramQuadTree` / `Joined` / `MeshUVMap.ToBounds`;
* `bary2`, `atBary3`, `findContains` — `model2d.Triangle.Barycentric`, `Triangle.AtBarycentric`,
  `tri2dLookup.findContains`;
* `uvValid` — the executable validity checker for a UV layout (orientation, pairwise
  interior-disjointness by separating edges, coordinates in a box).
-/
namespace M3d.Param
open M3d.Surface

/-! ## 1. Boundary bookkeeping of `nextMeshPlaneGraphs` -/

/-- `NewSegment`: the canonical (sorted) representative of an undirected segment. -/
def useg (a b : Nat) : Edge := if a ≤ b then (a, b) else (b, a)

/-- `Triangle.Segments()`. -/
def triSegs (t : Tri) : List Edge := [useg t.1 t.2.1, useg t.2.1 t.2.2, useg t.2.2 t.1]

/-- All segments of a soup, with multiplicity. -/
def segsAll (ts : List Tri) : List Edge := ts.flatMap triSegs

/-- `segments` (an `EdgeMap[bool]`, here a duplicate-free list) and `vertices` (a
`CoordToNumber[int]` of reference counts, here a multiset: one occurrence per reference; an entry
that reaches 0 is deleted in Go, which a multiset does by itself). -/
structure Bd where
  segs : List Edge
  vcnt : List Nat
deriving Repr

def Bd.empty : Bd := ⟨[], []⟩

/-- `vertices.Value(c)`. -/
def Bd.refcount (b : Bd) (v : Nat) : Nat := b.vcnt.count v

/-- One iteration of the `for _, seg := range t.Segments()` loop of `addTriangle`. -/
def Bd.toggle (b : Bd) (s : Edge) : Bd :=
  if b.segs.contains s then ⟨b.segs.erase s, (b.vcnt.erase s.1).erase s.2⟩
  else ⟨s :: b.segs, s.1 :: s.2 :: b.vcnt⟩

def Bd.addTri (b : Bd) (t : Tri) : Bd := (triSegs t).foldl Bd.toggle b

/-- Which of the three segments of `t` are on the tracked boundary. -/
def onBd (b : Bd) (t : Tri) : Bool × Bool × Bool :=
  (b.segs.contains (useg t.1 t.2.1), b.segs.contains (useg t.2.1 t.2.2), b.segs.contains (useg t.2.2 t.1))

/-- The `wouldDivideBoundary` test: some corner of `t` is on the boundary (reference count > 0)
although neither segment of `t` at that corner is a boundary segment. -/
def wouldDivide (b : Bd) (t : Tri) : Bool :=
  let (s0, s1, s2) := onBd b t
  (decide (0 < b.refcount t.1) && !(s0 || s2)) ||
  (decide (0 < b.refcount t.2.1) && !(s0 || s1)) ||
  (decide (0 < b.refcount t.2.2) && !(s1 || s2))

/-- Number of segments of `t` that are boundary segments. -/
def sharedCount (b : Bd) (t : Tri) : Nat :=
  ((triSegs t).filter b.segs.contains).length

/-! ## 2. Chart growth -/

/-- `meshDiscsQueueNode`. Priorities are integers (the harness drives the real code with an
integer-valued priority function so that comparisons are exact). -/
structure QN where
  tri : Tri
  prio : Int
  uid : Nat
deriving Repr

structure GState where
  tris : List Tri      -- `tris`, in order of addition
  bd : Bd              -- `segments`, `vertices`
  rest : List Tri      -- the mesh `m` (triangles not yet assigned)
  queue : List QN      -- `neighborQueue` / `inQueue`
  uid : Nat            -- `neighborQueueUID`
deriving Repr

/-- Everything in the Go code that depends on geometry or on tie-breaking is a parameter. -/
structure Policy where
  /-- `priority(orig, newTri)` -/
  prio : Option Tri → Tri → Int
  /-- index (mod length) of the first triangle in the remaining mesh -/
  first : List Tri → Nat
  /-- index (mod length) of the queue node popped next -/
  choose : GState → Nat
  /-- the `maxSize` / `maxArea` loop condition -/
  stop : GState → Bool
  /-- the `cumArea + next.Area() > maxArea` break -/
  exceed : GState → Tri → Bool
  /-- split index of the sphere case -/
  split : List Tri → Nat

/-- Number of corners of `t` that are corners of `s` (`neighborsWithCounts`). -/
def sharedVerts (t s : Tri) : Nat := ((triVerts t).filter (triVerts s).contains).length

/-- `m.Neighbors(t)`: triangles of the mesh with at least two corners in common. -/
def neighbors (rest : List Tri) (t : Tri) : List Tri := rest.filter fun s => decide (2 ≤ sharedVerts t s)

/-- Insert or raise the priority of a queue node (the `inQueue` logic of `addTriangle`). -/
def qpush (q : List QN) (node : QN) : List QN :=
  match q.find? (fun o => o.tri == node.tri) with
  | none => node :: q
  | some old => if old.prio < node.prio then node :: q.filter (fun o => o.tri != node.tri) else q

def pushAll (prio : Option Tri → Tri → Int) (t : Tri) : List Tri → List QN × Nat → List QN × Nat
  | [], s => s
  | n :: ns, (q, u) => pushAll prio t ns (qpush q ⟨n, prio (some t) n, u⟩, u + 1)

/-- The closure `addTriangle`. -/
def addTriangle (prio : Option Tri → Tri → Int) (st : GState) (t : Tri) : GState :=
  let rest := st.rest.erase t
  let qu := pushAll prio t (neighbors rest t) (st.queue, st.uid)
  { tris := st.tris ++ [t], bd := st.bd.addTri t, rest := rest, queue := qu.1, uid := qu.2 }

/-- The priority-first search loop; `fuel` bounds the number of iterations (every iteration
either removes a triangle from `rest` or a node from the queue without adding one, so
`(|rest|+1)²` iterations always suffice; the theorems hold for every fuel). -/
def growLoop (P : Policy) : Nat → GState → GState
  | 0, st => st
  | n + 1, st =>
    if st.queue.isEmpty || P.stop st then st else
    match st.queue[P.choose st % st.queue.length]? with
    | none => st
    | some node =>
      let st1 := { st with queue := st.queue.filter fun o => o.tri != node.tri }
      if wouldDivide st1.bd node.tri then growLoop P n st1
      else if P.exceed st1 node.tri then st1
      else growLoop P n (addTriangle P.prio st1 node.tri)

def GState.init (m : List Tri) : GState := ⟨[], Bd.empty, m, [], 0⟩

/-- `nextMeshPlaneGraphs`: the charts produced by one call and the remaining mesh. -/
def nextCharts (P : Policy) (hasExisting : Bool) (fuel : Nat) (m : List Tri) : Option (List (List Tri) × List Tri) :=
  match m[P.first m % m.length]? with
  | none => none
  | some t1 =>
    let st := growLoop P fuel (addTriangle P.prio (GState.init m) t1)
    if !hasExisting && st.bd.segs.isEmpty then
      let idx := min (P.split st.tris) (st.tris.length - 1)
      some ([st.tris.take idx, st.tris.drop idx], st.rest)
    else some ([st.tris], st.rest)

/-- The outer loops of `MeshToPlaneGraphsLimited` / `SplitPlaneGraph`. -/
def planeGraphs (P : Policy) (hasExisting : Bool) (fuel : Nat) : Nat → List Tri → List (List Tri)
  | 0, _ => []
  | n + 1, m =>
    match nextCharts P hasExisting fuel m with
    | none => []
    | some (cs, rest) => cs ++ planeGraphs P hasExisting fuel n rest

/-! ### The Go priority queue as a policy -/

/-- `meshDiscsQueueNode.Compare`: `a` is strictly better than `b`. -/
def qbetter (a b : QN) : Bool := b.prio < a.prio || (a.prio == b.prio && a.uid < b.uid)

/-- Index of `neighborQueue.Max()`. -/
def bestIdx : List QN → Nat
  | [] => 0
  | a :: q =>
    let rec go (best : QN) (bi : Nat) (i : Nat) : List QN → Nat
      | [] => bi
      | b :: r => if qbetter b best then go b i (i + 1) r else go best bi (i + 1) r
    go a 0 1 q

/-- Index of the first triangle of largest `prio none` (Go: the last strict improvement in map
order — the harness uses distinct priorities). -/
def firstIdx (prio : Option Tri → Tri → Int) : List Tri → Nat
  | [] => 0
  | a :: q =>
    let rec go (best : Int) (bi : Nat) (i : Nat) : List Tri → Nat
      | [] => bi
      | b :: r => if best < prio none b then go (prio none b) i (i + 1) r else go best bi (i + 1) r
    go (prio none a) 0 1 q

/-- `cumAreas[len-1]`, summed in the order of addition. -/
def cumArea {α} [Add α] (area : Tri → α) : List Tri → Option α
  | [] => none
  | t :: ts => some (ts.foldl (fun s x => s + area x) (area t))

def cumAreas {α} [Add α] (area : Tri → α) : List Tri → List α
  | [] => []
  | t :: ts => (ts.foldl (fun (acc : List α × α) x => (acc.1 ++ [acc.2 + area x], acc.2 + area x)) ([area t], area t)).1

/-- `sort.SearchFloat64s(a, x)`: least index with `a[i] ≥ x` (`len` if none); `a` is ascending. -/
def searchGE {α} [LE α] [DecidableLE α] (x : α) : List α → Nat
  | [] => 0
  | a :: r => if x ≤ a then 0 else searchGE x r + 1

/-- The loop condition `(maxSize == 0 || len(tris) < maxSize) && (maxArea == 0 || cum < maxArea)`
negated. `maxArea = none` stands for 0. -/
def areaStop {α} [Add α] [LT α] [DecidableLT α] (area : Tri → α) (maxSize : Nat) (maxArea : Option α)
    (st : GState) : Bool :=
  (maxSize != 0 && !decide (st.tris.length < maxSize)) ||
  (match maxArea, cumArea area st.tris with
   | some a, some c => !decide (c < a)
   | _, _ => false)

def areaExceed {α} [Add α] [LT α] [DecidableLT α] (area : Tri → α) (maxArea : Option α)
    (st : GState) (t : Tri) : Bool :=
  match maxArea, cumArea area st.tris with
  | some a, some c => decide (a < c + area t)
  | _, _ => false

def areaSplit {α} [Add α] [Div α] [OfNat α 2] [LE α] [DecidableLE α] (area : Tri → α) (tris : List Tri) : Nat :=
  match cumArea area tris with
  | none => 0
  | some tot => searchGE (tot / 2) (cumAreas area tris)

/-- The policy of the Go code for a given priority function and area limits. -/
def prioPolicy {α} [Add α] [Div α] [OfNat α 2] [LT α] [DecidableLT α] [LE α] [DecidableLE α]
    (prio : Option Tri → Tri → Int) (area : Tri → α) (maxSize : Nat) (maxArea : Option α) : Policy where
  prio := prio
  first := firstIdx prio
  choose := fun st => bestIdx st.queue
  stop := areaStop area maxSize maxArea
  exceed := areaExceed area maxArea
  split := areaSplit area

/-! ## 3. Boundary of a chart, `boundarySequence`, disc decider -/

/-- `len(m.Find(p1, p2))`: number of triangles having both `a` and `b` as corners. -/
def findCount (ts : List Tri) (a b : Nat) : Nat :=
  (ts.filter fun t => (triVerts t).contains a && (triVerts t).contains b).length

/-- The directed boundary edges as `boundarySequence` collects them (`vertexToNext`). -/
def bdyEdgesFind (ts : List Tri) : List Edge := (dirEdges ts).filter fun e => findCount ts e.1 e.2 == 1

/-- Directed edges whose reverse is not in the soup (the boundary of an oriented chart). -/
def bdyEdges (ts : List Tri) : List Edge := (dirEdges ts).filter fun e => !(dirEdges ts).contains (swap e)

/-- `boundarySequence` started at `start`: follow `vertexToNext` until back at the start;
`none` for the panics (vertex without successor; several boundary components; no boundary). -/
def boundarySeq (ts : List Tri) (start : Nat) : Option (List Nat) :=
  let es := bdyEdgesFind ts
  let nv := (es.map (·.1)).eraseDups.length
  if es.isEmpty then none else
  let rec go : Nat → Nat → List Nat → Option (List Nat)
    | 0, _, _ => none
    | f + 1, cur, acc =>
      if cur == start then some acc.reverse else
      match es.find? (fun e => e.1 == cur) with
      | none => none
      | some e => go f e.2 (cur :: acc)
  -- `Store` overwrites: the LAST stored successor wins; with one outgoing edge per vertex
  -- (every valid boundary) first and last coincide.
  match es.find? (fun e => e.1 == start) with
  | none => none
  | some e =>
    match go (nv + 1) e.2 [start] with
    | none => none
    | some res => if res.length < nv then none else some res

/-- Every directed edge at most once: oriented and edge-manifold (with boundary). -/
def orientedEdges (ts : List Tri) : Bool := (dirEdges ts).all fun e => (dirEdges ts).count e == 1

def OrientedEdges (ts : List Tri) : Prop := ∀ e ∈ dirEdges ts, (dirEdges ts).count e = 1

/-- Triangles reachable from the seeds by crossing shared (undirected) edges, `n` rounds. -/
def adjacent (s t : Tri) : Bool := (triEdges s).any fun e => (triEdges t).contains (swap e) || (triEdges t).contains e

/-- Breadth-first search over the adjacency graph: what is left of `unvisited` after exhausting
the `frontier` (at most `fuel` rounds). -/
def reachF : Nat → List Tri → List Tri → List Tri
  | 0, _, unvisited => unvisited
  | n + 1, frontier, unvisited =>
    if frontier.isEmpty then unvisited else
    let p := unvisited.partition fun t => frontier.any fun s => adjacent s t
    reachF n p.1 p.2

def connected (ts : List Tri) : Bool :=
  match ts with
  | [] => false
  | t :: r => (reachF ts.length [t] r).isEmpty

/-- The link of a boundary vertex must be one open path: its edges are a cycle with one edge
removed, i.e. adding the closing edge gives a `fanCycle`.  `closing` = (last, first). -/
def linkOK (ts : List Tri) (v : Nat) : Bool :=
  let l := link v ts
  if fanCycle l then true else
  -- open fan: exactly one start (no incoming) and one end (no outgoing)
  let startsOnly := l.filter fun e => !(l.map (·.2)).contains e.1
  let endsOnly := l.filter fun e => !(l.map (·.1)).contains e.2
  match startsOnly, endsOnly with
  | [s], [e] => fanCycle ((e.2, s.1) :: l)
  | _, _ => false

/-- Executable "is a topological disc": non-degenerate, oriented edge-manifold, vertex-manifold
(every link one cycle or one path), connected, exactly one simple boundary cycle, `V − E + F = 1`. -/
def isDisc (ts : List Tri) : Bool :=
  noDegenerate ts && orientedEdges ts && (verts ts).all (linkOK ts) && connected ts &&
  !(bdyEdges ts).isEmpty && fanCycle (bdyEdges ts) && euler ts == 1

/-! ## 4. Numeric part: vectors -/

structure V2 (α : Type) where
  x : α
  y : α
deriving Repr, BEq, DecidableEq

structure V3 (α : Type) where
  x : α
  y : α
  z : α
deriving Repr, BEq, DecidableEq

section Num
variable {α : Type}

def V2.add [Add α] (a b : V2 α) : V2 α := ⟨a.x + b.x, a.y + b.y⟩
def V2.sub [Sub α] (a b : V2 α) : V2 α := ⟨a.x - b.x, a.y - b.y⟩
def V2.scale [Mul α] (a : V2 α) (s : α) : V2 α := ⟨a.x * s, a.y * s⟩
def V3.add [Add α] (a b : V3 α) : V3 α := ⟨a.x + b.x, a.y + b.y, a.z + b.z⟩
def V3.scale [Mul α] (a : V3 α) (s : α) : V3 α := ⟨a.x * s, a.y * s, a.z * s⟩

/-! ## 5. Arc-length placement (`CircleBoundary`) -/

/-- Running sums `l₀, l₀+l₁, …`. -/
def runSums [Add α] (acc : α) : List α → List α
  | [] => []
  | l :: ls => (acc + l) :: runSums (acc + l) ls

/-- The parameter in (0,1] of boundary point `i+1`: `curLength / totalLength`; the angle is
`2π` times it. -/
def arcParams [Add α] [Div α] [OfNat α 0] (ls : List α) : List α :=
  let tot := ls.foldl (· + ·) 0
  (runSums 0 ls).map (· / tot)

/-! ## 6. One row of the linear system of `floater97` -/

/-- A neighbour of the centre: an interior vertex (a variable, column `j`) or a boundary vertex
(a constant position). -/
inductive Nb (α : Type) where
  | var (j : Nat) (w : α)
  | fixed (p : V2 α) (w : α)

def Nb.weight : Nb α → α
  | .var _ w => w
  | .fixed _ w => w

structure Row (α : Type) where
  diag : α
  offs : List (Nat × α)
  bias : V2 α

/-- `matrix.Set(i,i,-1)`, `matrix.Set(i,j,weight)` for interior neighbours,
`bias[i] += boundary(neighbour) * (-weight)` for boundary neighbours. -/
def floaterRow [Add α] [Mul α] [Neg α] [OfNat α 0] [OfNat α 1] (nbs : List (Nb α)) : Row α :=
  nbs.foldl (fun r nb =>
    match nb with
    | .var j w => { r with offs := r.offs ++ [(j, w)] }
    | .fixed p w => { r with bias := r.bias.add (p.scale (-w)) })
    ⟨-1, [], ⟨0, 0⟩⟩

/-- `Σ weights` (the Go code panics unless `|Σ − 1| ≤ 1e-4` and every weight is `≥ 0`). -/
def totalWeight [Add α] [OfNat α 0] (nbs : List (Nb α)) : α := nbs.foldl (fun s nb => s + nb.weight) 0

/-- The `neighbors` map of `floater97`: all other corners of the triangles at `c`, each once. -/
def vertNbrs (ts : List Tri) (c : Nat) : List Nat :=
  ((ts.filter fun t => (triVerts t).contains c).flatMap fun t => (triVerts t).filter (· != c)).eraseDups

/-- The neighbour list of the centre `c` as the loop of `floater97` sees it; `none` when an edge
weight is missing (Go panics). -/
def nbList (ts : List Tri) (bpos : Nat → Option (V2 α)) (w : Nat → Nat → Option α) (c : Nat) : Option (List (Nb α)) :=
  (vertNbrs ts c).mapM fun n =>
    match w c n with
    | none => none
    | some wt => match bpos n with
      | some p => some (Nb.fixed p wt)
      | none => some (Nb.var n wt)

/-- All rows of the system: one per vertex without a boundary position. -/
def floaterSystem [Add α] [Mul α] [Neg α] [OfNat α 0] [OfNat α 1] (ts : List Tri) (bpos : Nat → Option (V2 α))
    (w : Nat → Nat → Option α) : Option (List (Nat × Row α)) :=
  ((verts ts).filter fun v => (bpos v).isNone).mapM fun c =>
    (nbList ts bpos w c).map fun nbs => (c, floaterRow nbs)

/-- Left-hand side minus right-hand side of the row at the solution `x` (x-coordinate if
`c = false`, else y), centre `i`. -/
def rowLhs [Add α] [Mul α] [OfNat α 0] (r : Row α) (i : Nat) (x : Nat → α) : α :=
  r.offs.foldl (fun s jw => s + jw.2 * x jw.1) (r.diag * x i)

/-- The weighted sum `Σ wⱼ pⱼ` over all neighbours (variables looked up in `x`, `y`). -/
def nbSum [Add α] [Mul α] [OfNat α 0] (nbs : List (Nb α)) (x y : Nat → α) : V2 α :=
  nbs.foldl (fun s nb =>
    match nb with
    | .var j w => s.add ⟨w * x j, w * y j⟩
    | .fixed p w => s.add ⟨w * p.x, w * p.y⟩) ⟨0, 0⟩

/-- Weighted mean `Σ wᵢ pᵢ / Σ wᵢ` of scalars. -/
def wsum [Add α] [Mul α] [OfNat α 0] : List (α × α) → α
  | [] => 0
  | (w, p) :: r => w * p + wsum r

def wtot [Add α] [OfNat α 0] : List (α × α) → α
  | [] => 0
  | (w, _) :: r => w + wtot r

def weightedMean [Add α] [Mul α] [Div α] [OfNat α 0] (l : List (α × α)) : α := wsum l / wtot l

/-! ## 7. Quad-tree packing -/

structure Rect (α : Type) where
  lo : V2 α
  hi : V2 α
deriving Repr, BEq, DecidableEq

/-- `paramQuadTree`: a leaf (chart id), two branches, or up to four branches (`empty` = absent). -/
inductive QT where
  | empty
  | leaf (id : Nat)
  | n2 (a b : QT)
  | n4 (a b c d : QT)
deriving Repr

/-- `min.AddScalar(border)`, `max.AddScalar(-border)`. -/
def Rect.shrink [Add α] [Sub α] (r : Rect α) (b : α) : Rect α :=
  ⟨⟨r.lo.x + b, r.lo.y + b⟩, ⟨r.hi.x - b, r.hi.y - b⟩⟩

/-- The cells of the leaves (before the border is applied), following `Joined`. -/
def cells [Add α] [Sub α] [Div α] [OfNat α 2] [LT α] [DecidableLT α] (r : Rect α) : QT → List (Nat × Rect α)
  | .empty => []
  | .leaf id => [(id, r)]
  | .n2 a b =>
    if r.hi.x - r.lo.x < r.hi.y - r.lo.y then
      let mp := (r.lo.y + r.hi.y) / 2
      cells ⟨r.lo, ⟨r.hi.x, mp⟩⟩ a ++ cells ⟨⟨r.lo.x, mp⟩, r.hi⟩ b
    else
      let mp := (r.lo.x + r.hi.x) / 2
      cells ⟨r.lo, ⟨mp, r.hi.y⟩⟩ a ++ cells ⟨⟨mp, r.lo.y⟩, r.hi⟩ b
  | .n4 a b c d =>
    let mx := (r.lo.x + r.hi.x) / 2
    let my := (r.lo.y + r.hi.y) / 2
    cells ⟨r.lo, ⟨mx, my⟩⟩ a ++ cells ⟨⟨mx, r.lo.y⟩, ⟨r.hi.x, my⟩⟩ b ++
    cells ⟨⟨r.lo.x, my⟩, ⟨mx, r.hi.y⟩⟩ c ++ cells ⟨⟨mx, my⟩, r.hi⟩ d

/-- `Joined`: the target rectangle of every chart: its cell shrunk by the border. -/
def joined [Add α] [Sub α] [Div α] [OfNat α 2] [LT α] [DecidableLT α] (border : α) (r : Rect α) (t : QT) :
    List (Nat × Rect α) :=
  (cells r t).map fun c => (c.1, c.2.shrink border)

/-- Index of the first minimum of the four pile totals (`assignmentsTotals[j] < minArea`). -/
def argmin4 [LT α] [DecidableLT α] (t0 t1 t2 t3 : α) : Nat :=
  let (m, k) := if t1 < t0 then (t1, 1) else (t0, 0)
  let (m, k) := if t2 < m then (t2, 2) else (m, k)
  if t3 < m then 3 else k

structure Piles (α : Type) where
  p0 : List (Nat × α)
  p1 : List (Nat × α)
  p2 : List (Nat × α)
  p3 : List (Nat × α)
  t0 : α
  t1 : α
  t2 : α
  t3 : α

/-- Greedy assignment of `buildParamQuadTree` (charts given as `(id, area)`, already sorted). -/
def assign4 [Add α] [OfNat α 0] [LT α] [DecidableLT α] (ps : List (Nat × α)) : Piles α :=
  ps.foldl (fun st p =>
    match argmin4 st.t0 st.t1 st.t2 st.t3 with
    | 0 => { st with p0 := st.p0 ++ [p], t0 := st.t0 + p.2 }
    | 1 => { st with p1 := st.p1 ++ [p], t1 := st.t1 + p.2 }
    | 2 => { st with p2 := st.p2 ++ [p], t2 := st.t2 + p.2 }
    | _ => { st with p3 := st.p3 ++ [p], t3 := st.t3 + p.2 })
    ⟨[], [], [], [], 0, 0, 0, 0⟩

def leafOrEmpty : List (Nat × α) → Nat → QT
  | l, i => match l[i]? with
    | some p => .leaf p.1
    | none => .empty

/-- `buildParamQuadTree`; `fuel` bounds the recursion depth (the Go recursion does not terminate
when five or more charts all have area 0 — see notes/C18.md). -/
def buildQT [Add α] [OfNat α 0] [LT α] [DecidableLT α] : Nat → List (Nat × α) → QT
  | 0, _ => .empty
  | f + 1, ps =>
    match ps with
    | [] => .n4 .empty .empty .empty .empty
    | [p] => .leaf p.1
    | [p, q] => .n2 (.leaf p.1) (.leaf q.1)
    | _ =>
      if ps.length ≤ 4 then .n4 (leafOrEmpty ps 0) (leafOrEmpty ps 1) (leafOrEmpty ps 2) (leafOrEmpty ps 3)
      else
        let a := assign4 ps
        .n4 (buildQT f a.p0) (buildQT f a.p1) (buildQT f a.p2) (buildQT f a.p3)

/-- `VoodooSort` by decreasing area (stable insertion; the harness uses distinct areas). -/
def sortDesc [LT α] [DecidableLT α] (ps : List (Nat × α)) : List (Nat × α) :=
  ps.foldl (fun acc p =>
    let rec ins : List (Nat × α) → List (Nat × α)
      | [] => [p]
      | q :: r => if q.2 < p.2 then p :: q :: r else q :: ins r
    ins acc) []

/-- `ToBounds` applied to one coordinate: `(c − oldMin) * ((max − min) / (oldMax − oldMin)) + min`. -/
def toBounds1 [Add α] [Sub α] [Mul α] [Div α] (omin omax nmin nmax c : α) : α :=
  (c - omin) * ((nmax - nmin) / (omax - omin)) + nmin

def toBounds [Add α] [Sub α] [Mul α] [Div α] (old new : Rect α) (c : V2 α) : V2 α :=
  ⟨toBounds1 old.lo.x old.hi.x new.lo.x new.hi.x c.x, toBounds1 old.lo.y old.hi.y new.lo.y new.hi.y c.y⟩

/-- `Bounds2D` of a list of points (`none` for the empty map). -/
def bounds2 [LT α] [DecidableLT α] : List (V2 α) → Option (Rect α)
  | [] => none
  | p :: ps => some (ps.foldl (fun r c =>
      ⟨⟨if c.x < r.lo.x then c.x else r.lo.x, if c.y < r.lo.y then c.y else r.lo.y⟩,
       ⟨if r.hi.x < c.x then c.x else r.hi.x, if r.hi.y < c.y then c.y else r.hi.y⟩⟩) ⟨p, p⟩)

/-! ## 8. `MapFn`: barycentric coordinates in the UV triangle, interpolation in 3-D -/

structure Tri2 (α : Type) where
  a : V2 α
  b : V2 α
  c : V2 α
deriving Repr

structure Tri3 (α : Type) where
  a : V3 α
  b : V3 α
  c : V3 α
deriving Repr

/-- `model2d.NewTriangle` (non-degenerate branch: `invMat = adj / det`) followed by
`Triangle.Barycentric`. -/
def bary2 [Add α] [Sub α] [Mul α] [Div α] [Neg α] [OfNat α 1] (t : Tri2 α) (p : V2 α) : α × α × α :=
  let v1 := t.b.sub t.a
  let v2 := t.c.sub t.a
  -- row-major [v1.x v2.x; v1.y v2.y]
  let det := v1.x * v2.y - v2.x * v1.y
  let s := 1 / det
  let i0 := v2.y * s
  let i1 := (-v2.x) * s
  let i2 := (-v1.y) * s
  let i3 := v1.x * s
  let q := p.sub t.a
  let sx := i0 * q.x + i1 * q.y
  let sy := i2 * q.x + i3 * q.y
  (1 - (sx + sy), sx, sy)

/-- `Triangle.AtBarycentric` (3-D). -/
def atBary3 [Add α] [Mul α] [OfNat α 0] (t : Tri3 α) (w : α × α × α) : V3 α :=
  (((⟨0, 0, 0⟩ : V3 α).add (t.a.scale w.1)).add (t.b.scale w.2.1)).add (t.c.scale w.2.2)

/-- `Triangle.AtBarycentric` (2-D). -/
def atBary2 [Add α] [Mul α] [OfNat α 0] (t : Tri2 α) (w : α × α × α) : V2 α :=
  (((⟨0, 0⟩ : V2 α).add (t.a.scale w.1)).add (t.b.scale w.2.1)).add (t.c.scale w.2.2)

def min3 [LT α] [DecidableLT α] (a b c : α) : α :=
  let m := if b < a then b else a
  if c < m then c else m
def max3 [LT α] [DecidableLT α] (a b c : α) : α :=
  let m := if a < b then b else a
  if m < c then c else m

/-- `model2d.InBounds(t, p)`. -/
def inBounds2 [LT α] [DecidableLT α] (t : Tri2 α) (p : V2 α) : Bool :=
  !decide (p.x < min3 t.a.x t.b.x t.c.x) && !decide (max3 t.a.x t.b.x t.c.x < p.x) &&
  !decide (p.y < min3 t.a.y t.b.y t.c.y) && !decide (max3 t.a.y t.b.y t.c.y < p.y)

/-- `findContains` over the leaves in tree order: the first triangle whose bounds contain `p` and
whose barycentric coordinates are all `≥ 0`. -/
def findContains [Add α] [Sub α] [Mul α] [Div α] [Neg α] [OfNat α 0] [OfNat α 1] [LT α] [DecidableLT α]
    (ts : List (Tri2 α)) (p : V2 α) : Option (Nat × (α × α × α)) :=
  let rec go (i : Nat) : List (Tri2 α) → Option (Nat × (α × α × α))
    | [] => none
    | t :: r =>
      let w := bary2 t p
      if inBounds2 t p && !decide (w.1 < 0) && !decide (w.2.1 < 0) && !decide (w.2.2 < 0) then some (i, w)
      else go (i + 1) r
  go 0 ts

/-- `MapFn` (containment branch). -/
def mapFn [Add α] [Sub α] [Mul α] [Div α] [Neg α] [OfNat α 0] [OfNat α 1] [LT α] [DecidableLT α]
    (uv : List (Tri2 α)) (t3 : List (Tri3 α)) (p : V2 α) : Option (V3 α × Nat) :=
  match findContains uv p with
  | none => none
  | some (i, w) => match t3[i]? with
    | none => none
    | some t => some (atBary3 t w, i)

/-! ## 9. The UV validity checker -/

/-- Twice the signed area of `(a, b, c)`. -/
def orient [Sub α] [Mul α] (a b c : V2 α) : α := (b.x - a.x) * (c.y - a.y) - (c.x - a.x) * (b.y - a.y)

def Tri2.orient [Sub α] [Mul α] (t : Tri2 α) : α := M3d.Param.orient t.a t.b t.c

def Tri2.flip (t : Tri2 α) : Tri2 α := ⟨t.a, t.c, t.b⟩

/-- All three corners of `t` are on the closed right-hand side of the directed line `a → b`. -/
def sepBy [Sub α] [Mul α] [OfNat α 0] [LE α] [DecidableLE α] (a b : V2 α) (t : Tri2 α) : Bool :=
  decide (orient a b t.a ≤ 0) && decide (orient a b t.b ≤ 0) && decide (orient a b t.c ≤ 0)

/-- For counter-clockwise `s`, `t`: some edge line of one has the other entirely on its outer
side (separating-axis test for convex polygons; exact in `ℚ`). -/
def triDisjoint [Sub α] [Mul α] [OfNat α 0] [LE α] [DecidableLE α] (s t : Tri2 α) : Bool :=
  sepBy s.a s.b t || sepBy s.b s.c t || sepBy s.c s.a t ||
  sepBy t.a t.b s || sepBy t.b t.c s || sepBy t.c t.a s

/-- The bounding boxes are strictly separated along an axis (cheap prefilter). -/
def bboxSep [LT α] [DecidableLT α] (s t : Tri2 α) : Bool :=
  decide (max3 s.a.x s.b.x s.c.x < min3 t.a.x t.b.x t.c.x) || decide (max3 t.a.x t.b.x t.c.x < min3 s.a.x s.b.x s.c.x) ||
  decide (max3 s.a.y s.b.y s.c.y < min3 t.a.y t.b.y t.c.y) || decide (max3 t.a.y t.b.y t.c.y < min3 s.a.y s.b.y s.c.y)

def triDisjointF [Sub α] [Mul α] [OfNat α 0] [LT α] [DecidableLT α] [LE α] [DecidableLE α] (s t : Tri2 α) : Bool :=
  bboxSep s t || triDisjoint s t

def pairwiseB {β} (f : β → β → Bool) : List β → Bool
  | [] => true
  | x :: r => r.all (f x) && pairwiseB f r

def inBox [LE α] [DecidableLE α] (lo hi : α) (p : V2 α) : Bool :=
  decide (lo ≤ p.x) && decide (p.x ≤ hi) && decide (lo ≤ p.y) && decide (p.y ≤ hi)

def Tri2.inBox [LE α] [DecidableLE α] (lo hi : α) (t : Tri2 α) : Bool :=
  M3d.Param.inBox lo hi t.a && M3d.Param.inBox lo hi t.b && M3d.Param.inBox lo hi t.c

/-- All triangles strictly counter-clockwise, pairwise interior-disjoint, all corners in
`[lo,hi]²`. -/
def uvValidCCW [Sub α] [Mul α] [OfNat α 0] [LT α] [DecidableLT α] [LE α] [DecidableLE α] (lo hi : α) (ts : List (Tri2 α)) : Bool :=
  ts.all (fun t => decide (0 < t.orient)) && pairwiseB triDisjointF ts && ts.all (Tri2.inBox lo hi)

/-- The checker: the layout is valid with all triangles counter-clockwise or all clockwise. -/
def uvValid [Sub α] [Mul α] [OfNat α 0] [LT α] [DecidableLT α] [LE α] [DecidableLE α] (lo hi : α) (ts : List (Tri2 α)) : Bool :=
  uvValidCCW lo hi ts || uvValidCCW lo hi (ts.map Tri2.flip)

/-! ## 10. `MapFn` outside the triangulation: the nearest triangle
(`model2d.Triangle.genericSDF`, `model2d.Rect.genericSDF`, `newTri2dLookup`, `tri2dLookup.findNearest`) -/

def dot2 [Add α] [Mul α] (a b : V2 α) : α := a.x * b.x + a.y * b.y

/-- `a.SquaredDist(b)`. -/
def dist2 [Add α] [Sub α] [Mul α] (a b : V2 α) : α := dot2 (a.sub b) (a.sub b)

/-- One iteration of the edge loop of `Triangle.genericSDF` for the segment `p1 → p2`:
`dot = v·(c − p1)/|v|²`; the closest point is `p1` (`dot ≤ 0`), `p2` (`dot ≥ 1`) or `p1 + dot·v`.
Returns the squared distance of that point from `c` and its weights on `(p1, p2)`. -/
def segNearest [Add α] [Sub α] [Mul α] [Div α] [OfNat α 0] [OfNat α 1] [LE α] [DecidableLE α]
    (p1 p2 c : V2 α) : α × (α × α) :=
  let v := p2.sub p1
  let d := dot2 v (c.sub p1) / dot2 v v
  if d ≤ 0 then (dist2 p1 c, (1, 0))
  else if 1 ≤ d then (dist2 p2 c, (0, 1))
  else (dist2 (p1.add (v.scale d)) c, (1 - d, d))

/-- The point with weights `w` on the segment. -/
def segPoint [Add α] [Mul α] (p1 p2 : V2 α) (w : α × α) : V2 α := (p1.scale w.1).add (p2.scale w.2)

/-- `Triangle.BarycentricSDF` for a query outside the triangle: the squared distance of the
closest boundary point (first of the three edges `a→b`, `b→c`, `c→a` that is strictly closer
wins) and its barycentric coordinates (`bary[e] = 1 − dot`, `bary[e+1] = dot`, or 1 at a corner). -/
def triNearest [Add α] [Sub α] [Mul α] [Div α] [OfNat α 0] [OfNat α 1] [LE α] [DecidableLE α] [LT α] [DecidableLT α]
    (t : Tri2 α) (c : V2 α) : α × (α × α × α) :=
  let e0 := segNearest t.a t.b c
  let e1 := segNearest t.b t.c c
  let e2 := segNearest t.c t.a c
  let m : α × (α × α × α) := (e0.1, (e0.2.1, e0.2.2, 0))
  let m := if e1.1 < m.1 then (e1.1, (0, e1.2.1, e1.2.2)) else m
  if e2.1 < m.1 then (e2.1, (e2.2.2, 0, e2.2.1)) else m

/-- `Rect.Contains`. -/
def rectContains [LT α] [DecidableLT α] (r : Rect α) (c : V2 α) : Bool :=
  !decide (c.x < r.lo.x) && !decide (c.y < r.lo.y) && !decide (r.hi.x < c.x) && !decide (r.hi.y < c.y)

/-- `math.Max(math.Min(x, hi), lo)`. -/
def clamp1 [LT α] [DecidableLT α] (lo hi x : α) : α :=
  let m := if hi < x then hi else x
  if m < lo then lo else m

def minOf [LT α] [DecidableLT α] (a b : α) : α := if b < a then b else a
def maxOf [LT α] [DecidableLT α] (a b : α) : α := if a < b then b else a

/-- `−Rect.SDF(c)·|Rect.SDF(c)|`: the squared distance from `c` to the rectangle when `c` is
outside, minus the squared distance to the nearest side when it is inside.  `findNearest`
compares the signed distances of the two children and the negated best distance so far; `s ↦ s·|s|`
is strictly increasing, so these comparisons are the comparisons of these values and of the squared
best distance. -/
def rectLB [Add α] [Sub α] [Mul α] [Neg α] [LT α] [DecidableLT α] (r : Rect α) (c : V2 α) : α :=
  let d := minOf (minOf (c.x - r.lo.x) (r.hi.x - c.x)) (minOf (c.y - r.lo.y) (r.hi.y - c.y))
  if rectContains r c then -(d * d)
  else dist2 c ⟨clamp1 r.lo.x r.hi.x c.x, clamp1 r.lo.y r.hi.y c.y⟩

/-- `BoundsRect(triangle)`. -/
def triBounds [LT α] [DecidableLT α] (t : Tri2 α) : Rect α :=
  ⟨⟨min3 t.a.x t.b.x t.c.x, min3 t.a.y t.b.y t.c.y⟩, ⟨max3 t.a.x t.b.x t.c.x, max3 t.a.y t.b.y t.c.y⟩⟩

/-- `NewRect(ch1.Min().Min(ch2.Min()), ch1.Max().Max(ch2.Max()))`. -/
def Rect.join [LT α] [DecidableLT α] (a b : Rect α) : Rect α :=
  ⟨⟨minOf a.lo.x b.lo.x, minOf a.lo.y b.lo.y⟩, ⟨maxOf a.hi.x b.hi.x, maxOf a.hi.y b.hi.y⟩⟩

end Num

/-! ### The bounding hierarchy and its nearest-item search (generic in items, bounds and keys) -/

/-- `tri2dLookup`: a leaf holds one item, every node (leaves too) has a bound. -/
inductive NTree (ι β : Type) where
  | leaf (b : β) (i : ι)
  | node (b : β) (l r : NTree ι β)

namespace NTree
variable {ι β K : Type}

def bound : NTree ι β → β
  | leaf b _ => b
  | node b _ _ => b

def items : NTree ι β → List ι
  | leaf _ i => [i]
  | node _ l r => items l ++ items r

end NTree

/-- `newTri2dLookup`: one item → leaf; otherwise split the list at `len/2`, build both halves and
join their bounds.  `none` for the empty list (the Go code does not terminate on it). -/
def buildTree {ι β : Type} (bnd : ι → β) (join : β → β → β) : Nat → List ι → Option (NTree ι β)
  | _, [] => none
  | _, [i] => some (.leaf (bnd i) i)
  | 0, _ :: _ :: _ => none
  | f + 1, i :: j :: l =>
    let all := i :: j :: l
    let k := all.length / 2
    match buildTree bnd join f (all.take k), buildTree bnd join f (all.drop k) with
    | some a, some b => some (.node (join a.bound b.bound) a b)
    | _, _ => none

/-- The running answer of `findNearest`: the best item and its key (`none` = `+Inf`, no item). -/
abbrev Best (ι K : Type) := Option (ι × K)

/-- The leaf case: `if sdf > -*distBound { … }`, i.e. the new item wins only when strictly closer. -/
def stepBest {ι K : Type} [LT K] [DecidableLT K] (key : ι → K) (s : Best ι K) (i : ι) : Best ι K :=
  match s with
  | none => some (i, key i)
  | some (j, d) => if key i < d then some (i, key i) else some (j, d)

/-- `!(d < -*distBound)`: a child whose bound value `b` exceeds the best key so far is skipped. -/
def admitB {ι K : Type} [LT K] [DecidableLT K] (b : K) (s : Best ι K) : Bool :=
  match s with
  | none => true
  | some (_, d) => !decide (d < b)

/-- `tri2dLookup.findNearest`: at an inner node take the child with the smaller bound value first
(`if ds[0] < ds[1] { swap }` on signed distances, i.e. the second child first iff its bound value is
strictly smaller), and `break` at the first child whose bound value exceeds the best key so far. -/
def nearestGo {ι β K : Type} [LT K] [DecidableLT K] (lb : β → K) (key : ι → K) : NTree ι β → Best ι K → Best ι K
  | .leaf _ i, s => stepBest key s i
  | .node _ l r, s =>
    if lb r.bound < lb l.bound then
      if admitB (lb r.bound) s then
        let s1 := nearestGo lb key r s
        if admitB (lb l.bound) s1 then nearestGo lb key l s1 else s1
      else s
    else
      if admitB (lb l.bound) s then
        let s1 := nearestGo lb key l s
        if admitB (lb r.bound) s1 then nearestGo lb key r s1 else s1
      else s

/-- Linear scan: the first item with the smallest key. -/
def scanBest {ι K : Type} [LT K] [DecidableLT K] (key : ι → K) (l : List ι) : Best ι K := l.foldl (stepBest key) none

section Num2
variable {α : Type}

/-- `tri2dLookup.Find` behind `MapFn`: the first triangle (in the order given to `newTri2dLookup`)
that contains `p`, else the nearest one by `findNearest`; with the barycentric coordinates. -/
def findUV [Add α] [Sub α] [Mul α] [Div α] [Neg α] [OfNat α 0] [OfNat α 1] [LT α] [DecidableLT α] [LE α] [DecidableLE α]
    (ts : List (Tri2 α)) (p : V2 α) : Option (Nat × (α × α × α)) :=
  match findContains ts p with
  | some r => some r
  | none =>
    match buildTree (fun (it : Tri2 α × Nat) => triBounds it.1) Rect.join ts.length ts.zipIdx with
    | none => none
    | some tree =>
      (nearestGo (fun r => rectLB r p) (fun (it : Tri2 α × Nat) => (triNearest it.1 p).1) tree none).map
        fun r => (r.1.2, (triNearest r.1.1 p).2)

end Num2

/-! ## 11. The result map of `floater97`; histories of solves over ONE boundary map

Go `*CoordMap`s are pointers into a heap of maps: the model keeps the heap explicit so that
"the solver does not modify the caller's boundary map" is a statement (a frame property), not a
tautology. -/

/-- A `CoordMap` as an association list over vertex ids (`Store` replaces or appends). -/
abbrev AMap (β : Type) := List (Nat × β)

def AMap.load {β : Type} : AMap β → Nat → Option β
  | [], _ => none
  | (k', v) :: r, k => if k' = k then some v else AMap.load r k

def AMap.store {β : Type} : AMap β → Nat → β → AMap β
  | [], k, v => [(k, v)]
  | (k', v') :: r, k, v => if k' = k then (k, v) :: r else (k', v') :: AMap.store r k v

/-- The heap: pointer `r` is the `r`-th map. -/
abbrev Heap (β : Type) := List (AMap β)

def Heap.get {β : Type} (h : Heap β) (r : Nat) : AMap β := h.getD r []

/-- `NewCoordMap()`: a fresh empty map; its pointer is the old heap size. -/
def Heap.alloc {β : Type} (h : Heap β) : Heap β × Nat := (h ++ [[]], h.length)

/-- `(*r).Store(k, v)`. -/
def Heap.store {β : Type} : Heap β → Nat → Nat → β → Heap β
  | [], _, _, _ => []
  | m :: h, 0, k, v => m.store k v :: h
  | m :: h, r + 1, k, v => m :: Heap.store h r k v

/-- `floater97` from the solver on.  `bref` is the caller's boundary map, `verts` is
`m.VertexSlice()`, `sol` the solved position per non-boundary vertex (an oracle: whatever the
solver returned for these weights).  `nonBoundary` = vertices without an entry in `*bref`;
`result := NewCoordMap()`; `boundary.Range(result.Store)`; `result.Store(nonBoundary[i], solution[i])`.
Returns the new heap and the result pointer. -/
def floaterStore {β : Type} (h : Heap β) (bref : Nat) (verts : List Nat) (sol : Nat → β) : Heap β × Nat :=
  let nonB := verts.filter fun v => ((h.get bref).load v).isNone
  let (h1, rref) := h.alloc
  let h2 := (h1.get bref).foldl (fun h kv => h.store rref kv.1 kv.2) h1
  let h3 := nonB.foldl (fun h v => h.store rref v (sol v)) h2
  (h3, rref)

/-- A history of solves that all receive the SAME boundary pointer (several weightings compared
over one boundary; `Floater97` followed by `StretchMinimizingParameterization`, which itself calls
`floater97` once per iteration): one solution oracle per solve.  Returns the final heap and the
result pointers in order. -/
def solveHist {β : Type} (bref : Nat) (verts : List Nat) : Heap β → List (Nat → β) → Heap β × List Nat
  | h, [] => (h, [])
  | h, sol :: rest =>
    let (h1, rr) := floaterStore h bref verts sol
    let (h2, rs) := solveHist bref verts h1 rest
    (h2, rr :: rs)

/-! ## 12. The recursion of `BuildAutomaticUVMap` -/

/-- `handleDisc`: a disc is either appended to the atlas or replaced by the pieces of
`SplitPlaneGraph`, each handled at depth + 1.  It is split only if it has more than one triangle
and the oracle `want` says so: `canSplit` (depth below `automaticUVMapMaxRecursion`, area above the
minimum) and boundary or final stretch above the limit, or (since `fix: 6c979e5`) the solver's
parameterisation has a flipped or degenerate triangle — then regardless of depth and area.  `fuel`
bounds the recursion depth; the real one is at most `automaticUVMapMaxRecursion` plus the number
of triangles (a forced split strictly shrinks the disc). -/
def handleDisc (split : List Tri → List (List Tri)) (want : Nat → List Tri → Bool) : Nat → Nat → List Tri → List (List Tri)
  | 0, _, disc => [disc]
  | f + 1, depth, disc =>
    if decide (1 < disc.length) && want depth disc then
      (split disc).flatMap (handleDisc split want f (depth + 1))
    else [disc]

/-- The charts of the atlas: `MeshToPlaneGraphsLimited` (`first`), then `handleDisc` on each. -/
def atlasCharts (first split : List Tri → List (List Tri)) (want : Nat → List Tri → Bool) (fuel : Nat) (m : List Tri) :
    List (List Tri) :=
  (first m).flatMap (handleDisc split want fuel 0)

end M3d.Param
