import M3d.Model.MeshOps
import M3d.Model.ArapOp
/-!
# The linear step of `ARAP` (`arapOperator.Targets / Apply / SqueezeDelta / squeezedMatrix`, `ARAP.energy`) (C10)

Core Lean only, generic over the scalar.  Every iteration of `ARAP.deformMap` solves

    squeezedMatrix · x = Squeeze(Targets(rotations)) + SqueezeDelta()

for the free vertices and fills in the constrained ones (`Unsqueeze`).  `ARAP` keeps TWO weight
tables over the same adjacency lists: `weights` (the "linear" scheme: matrix, right-hand side,
energy) and `rotWeights` (the "rotation" scheme: covariance matrices of `rotations`).  The model
takes the adjacency-with-weights of vertex `i` as ONE list `rows i = [(n₀, w₀), (n₁, w₁), …]`
(`neighbors[i]` zipped with `weights[i]`) and performs the same floating-point operations in the
same order as the Go code (accumulation by `foldl`, `Sub = Add(Scale(-1))`, `w / 2`,
`Matrix3.MulColumn`), so that it can be executed at `Float` (bit for bit) and at `Rat` (exact).
-/
namespace M3d.ArapLin
open M3d.MeshOps

/-- `model3d.Matrix3` (column-major `[9]float64`; `MulColumn` reads it row by row as written). -/
structure Mat3 (α : Type) where
  m0 : α
  m1 : α
  m2 : α
  m3 : α
  m4 : α
  m5 : α
  m6 : α
  m7 : α
  m8 : α
deriving DecidableEq, Repr

section Defs
variable {α : Type} [Add α] [Mul α] [Div α] [Neg α] [OfNat α 0] [OfNat α 1] [OfNat α 2]

/-- `rotation[i] = x + m2[i]` of `Targets`. -/
def Mat3.add (a b : Mat3 α) : Mat3 α :=
  ⟨a.m0 + b.m0, a.m1 + b.m1, a.m2 + b.m2, a.m3 + b.m3, a.m4 + b.m4, a.m5 + b.m5, a.m6 + b.m6, a.m7 + b.m7, a.m8 + b.m8⟩

/-- `Matrix3.MulColumn`. -/
def Mat3.mulCol (m : Mat3 α) (c : V3 α) : V3 α :=
  ⟨m.m0 * c.x + m.m1 * c.y + m.m2 * c.z, m.m3 * c.x + m.m4 * c.y + m.m5 * c.z, m.m6 * c.x + m.m7 * c.y + m.m8 * c.z⟩

/-- `Coord3D.Sub`: `c.Add(c1.Scale(-1))`. -/
def sub (a b : V3 α) : V3 α := a.add (b.scale (-1))

/-- `Coord3D.Dot`. -/
def dot (a b : V3 α) : α := a.x * b.x + a.y * b.y + a.z * b.z

/-- The image of a point under the motion `x ↦ R x + t`. -/
def rigid (R : Mat3 α) (t : V3 α) (x : V3 α) : V3 α := (R.mulCol x).add t

/-- One entry of `Targets(rotations)`: `Σ_j (rot_i + rot_{n_j}) · ((p_i - p_{n_j}) · (w_ij / 2))`. -/
def targetRow (p : Nat → V3 α) (rot : Nat → Mat3 α) (i : Nat) (row : List (Nat × α)) : V3 α :=
  row.foldl (fun acc nw =>
    acc.add (((rot i).add (rot nw.1)).mulCol ((sub (p i) (p nw.1)).scale (nw.2 / 2)))) V3.zero

/-- `arapOperator.Targets`: one entry per vertex, `rows` = the LINEAR weight table. -/
def targets (n : Nat) (rows : Nat → List (Nat × α)) (p : Nat → V3 α) (rot : Nat → Mat3 α) : List (V3 α) :=
  (List.range n).map fun i => targetRow p rot i (rows i)

/-- One entry of `Apply(v)`: `Σ_j [p·w_ij − (n_j free ? v[sq n_j]·w_ij)]` (`pi` = the vertex's own entry of `v`). -/
def applyRow (f2s : Nat → Option Nat) (v : Nat → V3 α) (pi : V3 α) (row : List (Nat × α)) : V3 α :=
  row.foldl (fun acc nw =>
    match f2s nw.1 with
    | some s => sub (acc.add (pi.scale nw.2)) ((v s).scale nw.2)
    | none => acc.add (pi.scale nw.2)) V3.zero

/-- One entry of `SqueezeDelta()`: `Σ_{j : n_j constrained} constraints[n_j]·w_ij`. -/
def deltaRow (f2s : Nat → Option Nat) (cons : Nat → V3 α) (row : List (Nat × α)) : V3 α :=
  row.foldl (fun acc nw =>
    match f2s nw.1 with
    | some _ => acc
    | none => acc.add ((cons nw.1).scale nw.2)) V3.zero

/-- One row of `squeezedMatrix()` as the list of `Set(r, col, x)` calls: `-w` at the free
neighbours (in neighbour order), then the diagonal `Σ_j w_ij` (accumulated in neighbour order). -/
def matRow (f2s : Nat → Option Nat) (r : Nat) (row : List (Nat × α)) : List (Nat × α) :=
  let st := row.foldl (fun (st : List (Nat × α) × α) nw =>
    match f2s nw.1 with
    | some s => (st.1 ++ [(s, -nw.2)], st.2 + nw.2)
    | none => (st.1, st.2 + nw.2)) (([] : List (Nat × α)), (0 : α))
  st.1 ++ [(r, st.2)]

/-- A sparse matrix row times a vector of points. -/
def rowDot (mrow : List (Nat × α)) (v : Nat → V3 α) : V3 α :=
  mrow.foldl (fun acc cx => acc.add ((v cx.1).scale cx.2)) V3.zero

/-- `ARAP.energy`: `Σ_i Σ_j w_ij · |out_i − out_{n_j} − rot_i (p_i − p_{n_j})|²`. -/
def energy (n : Nat) (rows : Nat → List (Nat × α)) (p out : Nat → V3 α) (rot : Nat → Mat3 α) : α :=
  (List.range n).foldl (fun e i =>
    (rows i).foldl (fun e nw =>
      let rotated := (rot i).mulCol (sub (p i) (p nw.1))
      let diff := sub (sub (out i) (out nw.1)) rotated
      e + nw.2 * dot diff diff) e) 0

/-! ### The squeezed system of an operator (`M3d.ArapOp.Op`) -/

def f2sFn (op : ArapOp.Op (V3 α)) (i : Nat) : Option Nat := op.f2s.getD i none

/-- `a.constraints[i]` (Go's zero value for a missing key). -/
def consFn (op : ArapOp.Op (V3 α)) (i : Nat) : V3 α := (ArapOp.lookup op.cons i).getD V3.zero

def vecFn (v : List (V3 α)) (i : Nat) : V3 α := v.getD i V3.zero

/-- `Apply(v)` for a squeezed vector `v`. -/
def applyOp (op : ArapOp.Op (V3 α)) (rows : Nat → List (Nat × α)) (v : List (V3 α)) : List (V3 α) :=
  (List.range op.s2f.length).map fun r => applyRow (f2sFn op) (vecFn v) (vecFn v r) (rows (op.s2f.getD r 0))

/-- `SqueezeDelta()`. -/
def squeezeDelta (op : ArapOp.Op (V3 α)) (rows : Nat → List (Nat × α)) : List (V3 α) :=
  op.s2f.map fun full => deltaRow (f2sFn op) (consFn op) (rows full)

/-- `squeezedMatrix()`, row by row. -/
def matrix (op : ArapOp.Op (V3 α)) (rows : Nat → List (Nat × α)) : List (List (Nat × α)) :=
  (List.range op.s2f.length).map fun r => matRow (f2sFn op) r (rows (op.s2f.getD r 0))

/-- The right-hand side `LinSolve` hands to the factorisation: `Squeeze(b) + SqueezeDelta()`. -/
def rhs (op : ArapOp.Op (V3 α)) (rows : Nat → List (Nat × α)) (b : List (V3 α)) : List (V3 α) :=
  List.zipWith V3.add (ArapOp.squeeze op V3.zero b) (squeezeDelta op rows)

end Defs

end M3d.ArapLin
