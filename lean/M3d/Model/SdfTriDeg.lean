import M3d.Model.Sdf
/-!
# C06 — 3-D `Triangle.Closest` / `Triangle.Dist` with the running minimum spelled out (degenerate triangles)

`model3d/primitives.go`:

```go
func (t *Triangle) Dist(c Coord3D) float64 {
	… components := mat.MulColumn(c.Sub(t[0]))
	if components.X >= 0 && components.Y >= 0 && components.X+components.Y <= 1 { return math.Abs(components.Z) }
	result := math.Inf(1)
	for _, s := range t.Segments() {
		if d := s.Dist(c); d < result { result = d }
	}
	if result == math.Inf(1) { return c.Dist(t[0]) }   // no edge has a distance: the three corners are one point
	return result
}
func (t *Triangle) Closest(c Coord3D) Coord3D {
	… closestDist := math.Inf(1); closestPoint := t[0]
	for _, s := range t.Segments() {
		c1 := s.Closest(c)
		if d := c1.Dist(c); d < closestDist { closestDist = d; closestPoint = c1 }
	}
	return closestPoint
}
```

`triDist`/`triClosest` of `Model/Sdf.lean` let the first edge win against `math.Inf(1)` (`pickMin`), which is the
code on every triangle whose three edges have a distance.  A triangle with a repeated corner has an edge of length 0:
`Segment.Closest` of `{p, p}` is `0 · (1/0) = NaN`, its distance is NaN, and `d < result` is false for it — the edge is
skipped, exactly as the NaN leaves of `meshDistFunc.Dist` (`scanStep`).  The normal of such a triangle is `0 · (1/0)`
as well, all `components` are NaN and the in-plane shortcut is not taken.  Here the loops are the scan `scanWith` from
`math.Inf(1)` (`none`) with the float test `notNaN` (`x ≤ x`): at `Float` this performs the Go operations also when
an edge distance is NaN; a scan result `none` is the untouched `math.Inf(1)` (all three corners are the same point): `Dist`
then returns `c.Dist(t[0])` and `Closest` the untouched `t[0]` (before /repo's repair of this case: `+Inf` and `Coord3D{}`).

Core Lean only.
-/
namespace M3d.Sdf

section
variable {α : Type} [Add α] [Sub α] [Mul α] [Div α] [Neg α] [LT α] [DecidableLT α] [LE α] [DecidableLE α]
  [OfNat α 0] [OfNat α 1]

/-- `t.Segments()`: `NewSegment(t[i], t[(i+1)%3])` -/
def triSegments (t0 t1 t2 : V3 α) : List (V3 α × V3 α) :=
  [newSegment3 t0 t1, newSegment3 t1 t2, newSegment3 t2 t0]

/-- one iteration of the edge loop of `Triangle.Closest`: `c1 := s.Closest(c); d := c1.Dist(c)`; `none` = `d` is NaN
(the test `d < closestDist` fails whatever `closestDist` is) -/
def triEdgeLeafC (E : Env α) (c : V3 α) (s : V3 α × V3 α) : Option (α × V3 α) :=
  let c1 := segClosest3 E s.1 s.2 c
  let d := c1.dist E c
  if notNaN d then some (d, c1) else none

/-- one iteration of the edge loop of `Triangle.Dist`: `d := s.Dist(c)` -/
def triEdgeLeafD (E : Env α) (c : V3 α) (s : V3 α × V3 α) : Option (α × Unit) :=
  let d := segDist3 E s.1 s.2 c
  if notNaN d then some (d, ()) else none

/-- `Triangle.Closest`, the edge loop started from `closestDist = +Inf`, `closestPoint = t[0]` -/
def triClosestN (E : Env α) (t0 t1 t2 c : V3 α) : V3 α :=
  let k := triComponents E t0 t1 t2 c
  if triInside k then (t0.add ((t1.sub t0).scale k.x)).add ((t2.sub t0).scale k.y)
  else match scanWith (triEdgeLeafC E c) (triSegments t0 t1 t2) with
    | some x => x.2
    | none => t0

/-- `Triangle.Dist`, the edge loop started from `result = +Inf`; `if result == math.Inf(1) { return c.Dist(t[0]) }`
(still `+Inf` after the loop = `none`: no edge has a distance) -/
def triDistN (E : Env α) (t0 t1 t2 c : V3 α) : α :=
  let k := triComponents E t0 t1 t2 c
  if triInside k then absS k.z
  else ((scanWith (triEdgeLeafD E c) (triSegments t0 t1 t2)).map (·.1)).getD (c.dist E t0)

/-- leaf evaluation of the 3-D `meshDistFunc.Dist` with `triClosestN` and the NaN test -/
def meshLeafN (E : Env α) (c : V3 α) (f : Tri α × Nat) : Option (α × V3 α × Nat) :=
  let cp := triClosestN E f.1.a f.1.b f.1.c c
  let d := cp.dist E c
  if notNaN d then some (d, cp, f.2) else none

/-- 3-D `meshDistFunc.Dist` as the linear scan, faces evaluated by `triClosestN` -/
def meshScanN (E : Env α) (faces : List (Tri α × Nat)) (c : V3 α) : Option (α × V3 α × Nat) :=
  scanWith (meshLeafN E c) faces

/-- The edge loop of `Triangle.Closest` on a triangle whose normal is NaN, without `sqrt` (executed at `Rat` in exact
mode): zero-length edges skipped (their distance is NaN in the float run), squared distances compared.
Result: (squared distance, point). -/
def triEdgeScanQ (t0 t1 t2 c : V3 α) : Option (α × V3 α) :=
  scanWith (fun s : V3 α × V3 α =>
      if vecEq3 s.1 s.2 then none
      else
        let p := segClosestQ3 s.1 s.2 c
        some (p.sqDist c, p))
    (triSegments t0 t1 t2)

end
end M3d.Sdf
