import M3d.Model.SolidAlg
/-!
# `SmoothJoin` / `SmoothJoinV2` as SOLIDS: the bounds wrapper around the closure (C04)

Source: `/repo/templates/solid.template` (→ `model2d/solid.go`, `model3d/solid.go`).  Core Lean only.

`SmoothJoin(radius, sdfs...)` is

    min, max := sdfs[0].Min(), sdfs[0].Max()
    for _, s := range sdfs[1:] { min = min.Min(s.Min()); max = max.Max(s.Max()) }
    return CheckedFuncSolid(min.AddScalar(-radius), max.AddScalar(radius), closure)

`Model/SolidAlg.lean` models the closure on the list of distances the operands report at one point
(`smoothJoin`, `smoothJoinV2`).  Here the operands are fields over the whole space with their own
bounds, the result is a `Solid` (bounds + `Contains`), and `Contains` is the bounds test of
`CheckedFuncSolid` followed by the closure — so that one solid can be asked at many points, inside,
in the margin of width `radius` around, and outside the joint bounds of its operands.
-/
namespace M3d.SolidAlg

/-- An `SDF` operand: reported bounds and the signed distance field. -/
structure Sdf (α : Type) where
  box : Box α
  d : Pt α → α

/-- A `NormalSDF` operand: reported bounds and the field of (distance, normal). -/
structure NSdf (α : Type) where
  box : Box α
  dn : Pt α → α × Pt α

/-- `min.AddScalar(-radius)`, `max.AddScalar(radius)`. -/
def Box.expand {α} [Add α] [Neg α] (b : Box α) (r : α) : Box α :=
  ⟨fun i => b.lo i + -r, fun i => b.hi i + r⟩

/-- `min = sdfs[0].Min(); for … { min = min.Min(s.Min()) }` and the same for `max`. -/
def boxesJoin {α} [LE α] [DecidableLE α] (first : Box α) (rest : List (Box α)) : Box α :=
  rest.foldl Box.join first

section
variable {α : Type} [LE α] [DecidableLE α] [LT α] [DecidableLT α] [OfNat α 0] [Add α] [Mul α] [Neg α]

/-- `SmoothJoin(radius, first, rest...)`. -/
def smoothSolid (n : Nat) (r : α) (first : Sdf α) (rest : List (Sdf α)) : Solid α :=
  let b := (boxesJoin first.box (rest.map (·.box))).expand r
  ⟨b, fun p => b.contains n p && smoothJoin r ((first :: rest).map (·.d p))⟩

/-- `SmoothJoinV2(radius, first, rest...)`. -/
def smoothSolidV2 [OfNat α 1] [Sub α] (n : Nat) (sqrt abs : α → α) (r : α) (first : NSdf α)
    (rest : List (NSdf α)) : Solid α :=
  let b := (boxesJoin first.box (rest.map (·.box))).expand r
  ⟨b, fun p => b.contains n p && smoothJoinV2 n sqrt abs r ((first :: rest).map (·.dn p))⟩

end
end M3d.SolidAlg
