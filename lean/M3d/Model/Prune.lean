/-!
# Branch-and-bound over bounding hierarchies (core-only, executable)

A reusable model of "hierarchy with a bound per inner node, query skips a subtree when its
bound does not adm the query / cannot beat the best answer so far".

Two tree shapes:

* `BTree ι β` — the plain binary tree: leaves carry items, inner nodes carry a bound;
* `Forest ι β` — ordered forests in first-child / next-sibling form, i.e. nodes with any number
  of children (a `JoinedCollider` after flattening, a `JoinedObject`, …).  `BTree.toForest` embeds
  the binary trees, so every theorem about forests is a theorem about binary trees.

The searches are generic in the state `σ` (best-so-far, a counter, a list of hits, a flag):

* `search adm step` — the general pruned left-to-right fold; `adm b s = false` skips the subtree;
* `any`, `collect`, `count` — early-exit / state-independent prefilter variants;
* `visited` — the trace of items actually evaluated (used only to tie the model to the code).

`M3d/Lemmas/Prune.lean` proves: for EVERY bound that is *sound* (a skipped item could not have
changed the state), each search equals the linear scan `List.foldl` / `any` / `flatMap` / `sum`
over `items`.
-/
namespace M3d.Prune

/-- Binary bounding hierarchy: items at the leaves, a bound at every inner node. -/
inductive BTree (ι β : Type) where
  | leaf : ι → BTree ι β
  | node : β → BTree ι β → BTree ι β → BTree ι β

/-- Ordered forest (a list of trees) in first-child/next-sibling form.
`leaf i rest` is the tree `i` followed by its siblings `rest`;
`node b children rest` is an inner node with bound `b`, followed by its siblings. -/
inductive Forest (ι β : Type) where
  | nil  : Forest ι β
  | leaf : ι → Forest ι β → Forest ι β
  | node : β → Forest ι β → Forest ι β → Forest ι β

namespace Forest
variable {ι β σ γ : Type}

/-- All items, left to right (the linear scan ranges over this list). -/
def items : Forest ι β → List ι
  | nil => []
  | leaf i r => i :: items r
  | node _ c r => items c ++ items r

/-- Concatenation of sibling lists. -/
def append : Forest ι β → Forest ι β → Forest ι β
  | nil, g => g
  | leaf i r, g => leaf i (append r g)
  | node b c r, g => node b c (append r g)

/-- Number of trees at the top level. -/
def width : Forest ι β → Nat
  | nil => 0
  | leaf _ r => width r + 1
  | node _ _ r => width r + 1

/-- Pruned left-to-right fold: a subtree whose bound does not `adm` the current state is skipped. -/
def search (adm : β → σ → Bool) (step : σ → ι → σ) : Forest ι β → σ → σ
  | nil, s => s
  | leaf i r, s => search adm step r (step s i)
  | node b c r, s => search adm step r (if adm b s then search adm step c s else s)

/-- The items `search` actually evaluates, in order (trace; the state is threaded the same way). -/
def visited (adm : β → σ → Bool) (step : σ → ι → σ) : Forest ι β → σ → List ι × σ
  | nil, s => ([], s)
  | leaf i r, s =>
      let (v, s') := visited adm step r (step s i)
      (i :: v, s')
  | node b c r, s =>
      if adm b s then
        let (v1, s1) := visited adm step c s
        let (v2, s2) := visited adm step r s1
        (v1 ++ v2, s2)
      else visited adm step r s

/-- Early-exit existential query with a state-independent prefilter (`SphereCollision`, …). -/
def any (adm : β → Bool) (p : ι → Bool) : Forest ι β → Bool
  | nil => false
  | leaf i r => p i || any adm p r
  | node b c r => (adm b && any adm p c) || any adm p r

/-- Collect all answers with a state-independent prefilter (`RayCollisions`, `TriangleCollisions`). -/
def collect (adm : β → Bool) (f : ι → List γ) : Forest ι β → List γ
  | nil => []
  | leaf i r => f i ++ collect adm f r
  | node b c r => (if adm b then collect adm f c else []) ++ collect adm f r

/-- Count answers with a state-independent prefilter (the `int` returned by `RayCollisions`). -/
def count (adm : β → Bool) (f : ι → Nat) : Forest ι β → Nat
  | nil => 0
  | leaf i r => f i + count adm f r
  | node b c r => (if adm b then count adm f c else 0) + count adm f r

/-- Keep the better of the running answer `s` and a new candidate (candidate wins only when
strictly `better`): `if !found || c.Scale < coll.Scale { coll = c }`. -/
def merge (better : γ → γ → Bool) : Option γ → Option γ → Option γ
  | s, none => s
  | none, some h => some h
  | some c, some h => if better h c then some h else some c

/-- "Closest of the children": every node computes the best answer of its own children from
scratch (`none` if its bound does not adm the query) and the parent keeps the better one with
`better` — the shape of `JoinedCollider.FirstRayCollision` and `JoinedObject.Cast`. -/
def best (adm : β → Bool) (f : ι → Option γ) (better : γ → γ → Bool) :
    Forest ι β → Option γ → Option γ
  | nil, s => s
  | leaf i r, s => best adm f better r (merge better s (f i))
  | node b c r, s =>
      best adm f better r (merge better s (if adm b then best adm f better c none else none))

/-- Every bound covers every item below it. -/
def Sound (covers : β → ι → Prop) : Forest ι β → Prop
  | nil => True
  | leaf _ r => Sound covers r
  | node b c r => (∀ i ∈ items c, covers b i) ∧ Sound covers c ∧ Sound covers r

end Forest

namespace BTree
variable {ι β σ : Type}

def items : BTree ι β → List ι
  | leaf i => [i]
  | node _ l r => items l ++ items r

/-- A binary tree as a one-tree forest. -/
def toForest : BTree ι β → Forest ι β
  | leaf i => .leaf i .nil
  | node b l r => .node b (Forest.append (toForest l) (toForest r)) .nil

/-- Pruned search on the binary tree, written directly. -/
def search (adm : β → σ → Bool) (step : σ → ι → σ) : BTree ι β → σ → σ
  | leaf i, s => step s i
  | node b l r, s => if adm b s then search adm step r (search adm step l s) else s

/-- Early-exit existential query. -/
def any (adm : β → Bool) (p : ι → Bool) : BTree ι β → Bool
  | leaf i => p i
  | node b l r => adm b && (any adm p l || any adm p r)

def Sound (covers : β → ι → Prop) : BTree ι β → Prop
  | leaf _ => True
  | node b l r => (∀ i ∈ items l ++ items r, covers b i) ∧ Sound covers l ∧ Sound covers r

end BTree

/-! ### Keeping the minimum -/

/-- `if v < s then v else s` — the Go idiom `if d < best { best = d }` on a running minimum
that starts at `+∞` (`none`). -/
def minStep {α : Type} [LT α] [DecidableLT α] (s : Option α) (v : α) : Option α :=
  match s with
  | none => some v
  | some c => if v < c then some v else some c

/-- Linear-scan minimum of a list (first-minimal element kept), starting from `s`. -/
def scanMin {α : Type} [LT α] [DecidableLT α] (s : Option α) (vs : List α) : Option α :=
  vs.foldl minStep s

end M3d.Prune
