import M3d.Model.Bounded
/-!
Model of `toolbox3d.TriangularLine` (line_join.go; core-only): `CheckedFuncSolid(p1.Min(p2) - (t,t,t),
p1.Max(p2) + (t,t,t), g)` where `g c` = "the projection of `c` on the line is between the endpoints and
`seg.L1Dist(c) < t`".  `Segment.L1Dist` is the minimum of the L1 distance over the candidate parameters of
`Segment.ClosestL1` (0, 1 and the parameters at which one coordinate of the moving point equals that of `c`).
The projection test `0 ≤ (c-p2)·dir ≤ |p1-p2|` with `dir = (p1-p2)/|p1-p2|` is stated without the square root
as `0 ≤ (c-p2)·d ≤ d·d` with `d = p1-p2` (the same predicate over the reals for `p1 ≠ p2`).
-/
namespace M3d.Bd
section TriLine
variable {α : Type} [Add α] [Sub α] [Mul α] [Div α] [Neg α] [LE α] [LT α]
  [DecidableLE α] [DecidableLT α] [OfNat α 0] [OfNat α 1]

/-- one coordinate of `p0.Add(v.Scale(t))`, `v = p1 - p0` -/
def segC (a b t : α) : α := a + (b - a) * t
def segAt (p0 p1 : Pt α) (t : α) : Pt α :=
  mk3 (segC (p0 0) (p1 0) t) (segC (p0 1) (p1 1) t) (segC (p0 2) (p1 2) t)
/-- `Coord3D.L1Dist` -/
def l1 (a b : Pt α) : α := sabs (a 0 - b 0) + sabs (a 1 - b 1) + sabs (a 2 - b 2)
/-- the candidate of axis `i` in `ClosestL1`: skipped when `v[i] == 0` or `t` not in `(0, 1)` -/
def l1Cand (p0 p1 c : Pt α) (i : Fin 3) : Option α :=
  if p1 i - p0 i ≤ 0 ∧ 0 ≤ p1 i - p0 i then none
  else if 0 < (c i - p0 i) / (p1 i - p0 i) ∧ (c i - p0 i) / (p1 i - p0 i) < 1 then
    some ((c i - p0 i) / (p1 i - p0 i))
  else none
def l1Cands (p0 p1 c : Pt α) : List α :=
  0 :: 1 :: (l1Cand p0 p1 c 0).toList ++ ((l1Cand p0 p1 c 1).toList ++ (l1Cand p0 p1 c 2).toList)
/-- the membership test passed to `CheckedFuncSolid` by `TriangularLine(th, p1, p2)` -/
def triDef (th : α) (p1 p2 c : Pt α) : Bool :=
  decide (0 ≤ pdot (psub c p2) (psub p1 p2)) &&
  decide (pdot (psub c p2) (psub p1 p2) ≤ pdot (psub p1 p2) (psub p1 p2)) &&
  (l1Cands p1 p2 c).any (fun t => decide (l1 (segAt p1 p2 t) c < th))
/-- the box passed to `CheckedFuncSolid` -/
def triBox (th : α) (p1 p2 : Pt α) : Box α :=
  ⟨psub (pmin p1 p2) (mk3 th th th), padd (pmax p1 p2) (mk3 th th th)⟩
/-- `TriangularLine(th, p1, p2)` -/
def triLineS (th : α) (p1 p2 : Pt α) : Solid α := checkedS true (triBox th p1 p2) (triDef th p1 p2)

end TriLine
end M3d.Bd
