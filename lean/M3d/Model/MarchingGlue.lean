import M3d.Model.Transform
import M3d.Model.Transform2
import M3d.Model.TransformNest
import M3d.Model.MarchingFilter
/-!
# The wrappers round the marching / dual-contouring meshers (core-only, property C02)

* `spacerCount` / `spacerAt` — `newSquareSpacer`: `for x := min - delta; x <= max + delta; x += delta`.
* `conjSolid3` / `conjBack3` (+ 2-D) — `MarchingCubesConj(s, delta, iters, xforms...)`:
  `joined := JoinedTransform(xforms); solid := TransformSolid(joined, s);
  mesh := MarchingCubesSearch(solid, delta, iters); return mesh.Transform(joined.Inverse())`.
  The transforms themselves are C05's model `M3d.Tf.Xf` (`M3d/Model/Transform.lean`).
  `conjBackForward3` is the *other* order (each member's inverse, first to last) — not what the code
  does; it is here for the counter-example that the order matters.
* `c2fTotal` — `MarchingSquaresC2F` / `MarchingCubesC2F`: `extraSpace += 2 * bigDelta * math.Sqrt(3)`
  (`s3` stands for `math.Sqrt(3)`), `rectExpand2/3` — `r.Expand(extraSpace)`, `nearVertex2/3` — the
  executable form of "some vertex of the coarse mesh is within `D` (max-norm) of the lattice point".
* `DcOptions`, `dualContourOptions`, `dualContourInteriorOptions` — the `DualContouring` literals the
  two convenience wrappers build (fields that are not set keep Go's zero value).
-/
namespace M3d.MarchingGlue
open M3d.Tf M3d.MarchingFilter

/-! ## `newSquareSpacer` -/

/-- number of lattice values `min - δ + i·δ ≤ max + δ` (exact arithmetic, `δ > 0`, `min ≤ max`) -/
def spacerCount (lo hi d : Rat) : Nat := ((hi - lo + 2 * d) / d).floor.toNat + 1

/-- the `i`-th lattice value -/
def spacerAt (lo d : Rat) (i : Nat) : Rat := lo - d + (i : Rat) * d

/-! ## `MarchingCubesConj` / `MarchingSquaresConj` -/

section Conj
variable {α : Type} [Add α] [Sub α] [Mul α] [Div α] [Neg α] [OfNat α 0] [OfNat α 1]
  [LT α] [DecidableLT α] [LE α] [DecidableLE α]

/-- `solid := TransformSolid(JoinedTransform(xforms), s)` -/
def conjSolid3 [BEq α] (ts : List (Xf α)) (s : Solid α) : Solid α := transformSolid (Xf.ofList ts) s

/-- one vertex through `mesh.Transform(joined.Inverse())` -/
def conjBack3 (ts : List (Xf α)) (v : V3 α) : V3 α := (Xf.ofList ts).inverse.apply v

/-- NOT the code: every member's inverse, applied first to last -/
def conjBackForward3 (ts : List (Xf α)) (v : V3 α) : V3 α := ts.foldl (fun c t => t.inverse.apply c) v

/-- 2-D: `solid := TransformSolid(JoinedTransform(xforms), s)` -/
def conjSolid2 [BEq α] (ts : List (Xf2 α)) (s : Solid2 α) : Solid2 α := transformSolid2 (Xf2.ofList ts) s

/-- 2-D: one vertex through `mesh.Transform(joined.Inverse())` -/
def conjBack2 (ts : List (Xf2 α)) (v : V2 α) : V2 α := (Xf2.ofList ts).inverse.apply v

def conjBackForward2 (ts : List (Xf2 α)) (v : V2 α) : V2 α := ts.foldl (fun c t => t.inverse.apply c) v

end Conj

/-! ## coarse-to-fine -/

section C2F
variable {α : Type}

/-- `extraSpace += 2 * bigDelta * math.Sqrt(3)` (both `MarchingSquaresC2F` and `MarchingCubesC2F`) -/
def c2fTotal [Add α] [Mul α] [OfNat α 2] (s3 bigDelta extraSpace : α) : α :=
  extraSpace + 2 * bigDelta * s3

/-- `model2d.Rect.Expand(delta)` -/
def rectExpand2 [Add α] [Neg α] (r : Rect2 α) (e : α) : Rect2 α :=
  ⟨r.minX + -e, r.minY + -e, r.maxX + e, r.maxY + e⟩

/-- `model3d.Rect.Expand(delta)` -/
def rectExpand3 [Add α] [Neg α] (r : Rect3 α) (e : α) : Rect3 α :=
  ⟨r.minX + -e, r.minY + -e, r.minZ + -e, r.maxX + e, r.maxY + e, r.maxZ + e⟩

/-- `|a - b| ≤ D` without `abs` -/
def within [Add α] [LE α] [DecidableLE α] (a b D : α) : Bool := decide (a ≤ b + D) && decide (b ≤ a + D)

/-- some vertex of `W` is within `D` of `(x, y)` in the max-norm -/
def nearVertex2 [Add α] [LE α] [DecidableLE α] (W : List (α × α)) (D x y : α) : Bool :=
  W.any fun w => within w.1 x D && within w.2 y D

def nearVertex3 [Add α] [LE α] [DecidableLE α] (W : List (α × α × α)) (D x y z : α) : Bool :=
  W.any fun w => within w.1 x D && within w.2.1 y D && within w.2.2 z D

end C2F

/-! ## `DualContour` / `DualContourInterior` -/

/-- the fields of `DualContouring` that the convenience wrappers can set (all others stay zero:
`NoJitter = false`, `MaxGos = 0`, `BufferSize = 0`, `CubeMargin = 0` = the default margin, …) -/
structure DcOptions (α : Type) where
  delta : α
  repair : Bool
  clip : Bool
  wantInterior : Bool

/-- `DualContour(s, delta, repair, clip)`: `&DualContouring{S: …, Delta: delta, Repair: repair, Clip: clip}`, `Mesh()` -/
def dualContourOptions {α : Type} (delta : α) (repair clip : Bool) : DcOptions α :=
  { delta := delta, repair := repair, clip := clip, wantInterior := false }

/-- `DualContourInterior(s, delta, repair, clip)`: the same literal, `MeshInterior()` -/
def dualContourInteriorOptions {α : Type} (delta : α) (repair clip : Bool) : DcOptions α :=
  { delta := delta, repair := repair, clip := clip, wantInterior := true }

end M3d.MarchingGlue
