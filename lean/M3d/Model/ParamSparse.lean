import M3d.Model.Param
/-!
# Model of `numerical.SparseMatrix` (`/repo/numerical/sparse_matrix.go`) and of the way `floater97` fills it

Core-only (compiled into `drv_c18`).  The Go type keeps two parallel arrays of slices: `rows[i][k]` is the value
of the `k`-th entry that was `Set` in row `i`, `indices[i][k]` its column.  Pointers → values: a slice is a list,
`append` on `rows[row]` is `List.modify row (· ++ [x])` — a row owns its storage, whatever its length; that
ownership (no aliasing between the backing arrays of different rows) is exactly what the correspondence kind
`sparse` checks of the real code.

* `SM.new`, `SM.set`, `SM.entries` (`Iterate`), `SM.apply` (`Apply`: `res[row] += x[indices[col]] * value`, in the
  order of the entries, starting from `0` — runs bit for bit at `Float`), `SM.applyV2` (`ApplyVec2`),
  `SM.transpose` (`Transpose`: `res.Set(j, i, x)` for `i` ascending, entries in order), `SM.permute` (`Permute`);
* `SM.build n ops` — a matrix of size `n` after the `Set` calls `ops`, in that order;
* `floaterOps` / `floaterMatrix` — the `Set` calls of `floater97`: for the `k`-th unknown `Set(k, k, -1)` followed
  by one `Set(k, index(neighbour), weight)` per interior neighbour (`M3d.Param.floaterRow` has them as `offs`).
-/
namespace M3d.Sparse
open M3d.Param

variable {α : Type}

/-- `numerical.SparseMatrix` -/
structure SM (α : Type) where
  rows : List (List α)
  indices : List (List Nat)
deriving Repr

/-- `NewSparseMatrix(size)` -/
def SM.new (n : Nat) : SM α := ⟨List.replicate n [], List.replicate n []⟩

def SM.size (s : SM α) : Nat := s.rows.length

/-- `Set(row, col, x)`: `s.rows[row] = append(s.rows[row], x); s.indices[row] = append(s.indices[row], col)` -/
def SM.set (s : SM α) (row col : Nat) (x : α) : SM α :=
  ⟨s.rows.modify row (· ++ [x]), s.indices.modify row (· ++ [col])⟩

/-- What `Iterate(row, f)` enumerates: `(col, value)` in the order the entries were set. -/
def SM.entries (s : SM α) (row : Nat) : List (Nat × α) := (s.indices.getD row []).zip (s.rows.getD row [])

/-- The matrix after the calls `Set(o.1, o.2.1, o.2.2)` for `o` in `ops`, in order, on `NewSparseMatrix(n)`. -/
def SM.build (n : Nat) (ops : List (Nat × Nat × α)) : SM α :=
  ops.foldl (fun s o => s.set o.1 o.2.1 o.2.2) (SM.new n)

/-- One row of `Apply`: `res += x[col] * value` over the entries, from `0`. -/
def dotRow [Add α] [Mul α] (zero : α) (x : List α) (es : List (Nat × α)) : α :=
  es.foldl (fun acc cv => acc + x.getD cv.1 zero * cv.2) zero

/-- `Apply(x)` (`len(x)` results; the Go code panics when the matrix is larger than `x`). -/
def SM.apply [Add α] [Mul α] [OfNat α 0] (s : SM α) (x : List α) : List α :=
  (List.range x.length).map fun i => dotRow 0 x (s.entries i)

/-- `ApplyVec2(x)`: `res[row] = res[row].Add(x[col].Scale(value))` is `Apply` per component. -/
def SM.applyV2 [Add α] [Mul α] [OfNat α 0] (s : SM α) (x : List (α × α)) : List (α × α) :=
  (s.apply (x.map Prod.fst)).zip (s.apply (x.map Prod.snd))

/-- `Transpose()` -/
def SM.transpose (s : SM α) : SM α :=
  (List.range s.size).foldl (fun res i => (s.entries i).foldl (fun res jx => res.set jx.1 i jx.2) res) (SM.new s.size)

/-- `permInv[j] = i` for `perm[i] = j`. -/
def permInv (perm : List Nat) : List Nat :=
  perm.zipIdx.foldl (fun inv ji => inv.set ji.1 ji.2) (List.replicate perm.length 0)

/-- `Permute(perm)`: row `i` of the result is row `perm[i]` with every column `k` renamed `permInv[k]`. -/
def SM.permute (s : SM α) (perm : List Nat) : SM α :=
  let inv := permInv perm
  ⟨perm.map fun j => s.rows.getD j [], perm.map fun j => (s.indices.getD j []).map fun k => inv.getD k 0⟩

/-! ## The `Set` calls of `floater97` -/

/-- The calls for the `k`-th unknown: `matrix.Set(k, k, -1)`, then `matrix.Set(k, j, weight)` per interior neighbour. -/
def rowOps (col : Nat → Nat) (k : Nat) (r : Row α) : List (Nat × Nat × α) :=
  (k, k, r.diag) :: r.offs.map fun jw => (k, col jw.1, jw.2)

/-- … for the unknowns `k, k+1, …` in order. -/
def opsFrom (col : Nat → Nat) : Nat → List (Row α) → List (Nat × Nat × α)
  | _, [] => []
  | k, r :: rs => rowOps col k r ++ opsFrom col (k + 1) rs

/-- All `Set` calls of `floater97` for the system `sys` (centre vertex, row), `nonBoundaryToIndex` = position in `sys`. -/
def floaterOps (sys : List (Nat × Row α)) : List (Nat × Nat × α) :=
  opsFrom (fun v => (sys.map Prod.fst).idxOf v) 0 (sys.map Prod.snd)

/-- The `SparseMatrix` whose `Apply` `floater97` hands to the solver. -/
def floaterMatrix (sys : List (Nat × Row α)) : SM α := SM.build sys.length (floaterOps sys)

end M3d.Sparse
