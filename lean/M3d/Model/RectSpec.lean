/-!
# A union of boxes as a point set, and exact orientation tests of a triangle soup against it
(property C01, `RectSet.Mesh()`; core-only, executed at `Rat` on the exact values of the floats)

`RectSet` (toolbox3d/rect_set.go) keeps the union of the added boxes; `Mesh()` is documented to create
"a manifold 3D mesh from the set of rects".  C01: closed oriented manifold, normals from the contained to
the excluded side.  The specification below knows nothing about how the mesh is made — only the boxes:

* `member boxes p` — the point set (closed boxes);
* the **grid** of all box coordinates per axis (`RectSet.splits`) with one extra layer around it, one
  generic sample point per grid cell (fractions `fx, fy, fz` of the cell, never on a grid plane);
* `windingColumn` — exact ray casting along `+x` through a column of sample points: for a closed surface
  the signed number of crossings beyond a point is its winding number; a surface whose normals point from
  the contained to the excluded side has winding number 1 at every contained sample and 0 at every
  excluded one;
* `triOutward` — per triangle: stepping a quarter of the thinnest grid gap off the centroid along the
  normal leaves the point set, stepping against it enters it;
* `unionVol`, `unionArea` — exact volume and surface area of the union from the grid decomposition.

`Mesh()` pulls the midpoints of singular edges by `ε ≤ min(10⁻⁵·diagonal, 0.1·thinnest gap)` into the
boxes (and singular vertices by `0.01·ε`), so the surface stays within `0.1·gap` of the exact boundary:
sample points (≥ gap/3 from every grid plane) keep their winding number, the quarter-gap probes stay on
their side, and the volume differs from the exact one by at most `2·ε·area` (exactly 0 when every
mesh vertex is a grid point, i.e. nothing was pulled).
-/
namespace M3d.RectSpec

abbrev P3 := Rat × Rat × Rat

structure Box where
  lo : P3
  hi : P3

def inBox (b : Box) (p : P3) : Bool :=
  decide (b.lo.1 ≤ p.1) && decide (p.1 ≤ b.hi.1) && decide (b.lo.2.1 ≤ p.2.1) && decide (p.2.1 ≤ b.hi.2.1) &&
  decide (b.lo.2.2 ≤ p.2.2) && decide (p.2.2 ≤ b.hi.2.2)

/-- the union of the (closed) boxes -/
def member (bs : List Box) (p : P3) : Bool := bs.any fun b => inBox b p

def insertSorted (x : Rat) : List Rat → List Rat
  | [] => [x]
  | y :: r => if x < y then x :: y :: r else if x == y then y :: r else y :: insertSorted x r

/-- sorted distinct values -/
def sortDedup (l : List Rat) : List Rat := l.foldl (fun acc x => insertSorted x acc) []

/-- the grid coordinates along axis `k` (0,1,2): every box end point (`RectSet.splits[k]`) -/
def splits (bs : List Box) (k : Nat) : List Rat :=
  let c : P3 → Rat := fun p => if k == 0 then p.1 else if k == 1 then p.2.1 else p.2.2
  sortDedup (bs.flatMap fun b => [c b.lo, c b.hi])

def gapsOf : List Rat → List Rat
  | a :: b :: r => (b - a) :: gapsOf (b :: r)
  | _ => []

def minList (d : Rat) (l : List Rat) : Rat := l.foldl (fun m x => if x < m then x else m) d

/-- the splits with one extra plane `pad` below and above -/
def padded (s : List Rat) (pad : Rat) : List Rat :=
  match s, s.getLast? with
  | a :: _, some z => (a - pad) :: s ++ [z + pad]
  | _, _ => s

/-- the cells `(lo, hi)` of consecutive planes -/
def cellsOf : List Rat → List (Rat × Rat)
  | a :: b :: r => (a, b) :: cellsOf (b :: r)
  | _ => []

def frac (c : Rat × Rat) (f : Rat) : Rat := c.1 + (c.2 - c.1) * f

/-! ### exact ray casting along +x -/

def orient2 (py pz ay az b_y bz : Rat) : Rat := (ay - py) * (bz - pz) - (az - pz) * (b_y - py)

/-- What the line `{(x, py, pz)}` does with the triangle `a b c`: `none` = degenerate position (the line
meets an edge or a vertex of the projected triangle, or the projection is a segment containing the
point); `some none` = misses; `some (some (x, s))` = crosses the interior at abscissa `x`, `s = +1` if the
triangle's normal has a positive `x` component (the line leaves through the front), `-1` otherwise. -/
def lineHit (py pz : Rat) (a b c : P3) : Option (Option (Rat × Int)) :=
  let ymin := min a.2.1 (min b.2.1 c.2.1); let ymax := max a.2.1 (max b.2.1 c.2.1)
  let zmin := min a.2.2 (min b.2.2 c.2.2); let zmax := max a.2.2 (max b.2.2 c.2.2)
  if py < ymin || ymax < py || pz < zmin || zmax < pz then some none else
  let o1 := orient2 py pz a.2.1 a.2.2 b.2.1 b.2.2
  let o2 := orient2 py pz b.2.1 b.2.2 c.2.1 c.2.2
  let o3 := orient2 py pz c.2.1 c.2.2 a.2.1 a.2.2
  if 0 < o1 && 0 < o2 && 0 < o3 then
    some (some ((o2 * a.1 + o3 * b.1 + o1 * c.1) / (o1 + o2 + o3), 1))
  else if o1 < 0 && o2 < 0 && o3 < 0 then
    some (some ((o2 * a.1 + o3 * b.1 + o1 * c.1) / (o1 + o2 + o3), -1))
  else if (0 < o1 || 0 < o2 || 0 < o3) && (o1 < 0 || o2 < 0 || o3 < 0) then some none
  else none

/-- all crossings of the line with the soup, or `none` if the position is degenerate -/
def lineHits (py pz : Rat) (tris : List (P3 × P3 × P3)) : Option (List (Rat × Int)) :=
  tris.foldl (fun acc t =>
    match acc with
    | none => none
    | some l =>
      match lineHit py pz t.1 t.2.1 t.2.2 with
      | none => none
      | some none => some l
      | some (some h) => some (h :: l)) (some [])

/-- signed number of crossings beyond abscissa `x` (`none` if a crossing is exactly at `x`) -/
def windingAt (hits : List (Rat × Int)) (x : Rat) : Option Int :=
  hits.foldl (fun acc h =>
    match acc with
    | none => none
    | some w => if h.1 == x then none else if x < h.1 then some (w + h.2) else some w) (some 0)

/-! ### per-triangle probe -/

def sub3 (a b : P3) : P3 := (a.1 - b.1, a.2.1 - b.2.1, a.2.2 - b.2.2)
def cross3 (u v : P3) : P3 :=
  (u.2.1 * v.2.2 - u.2.2 * v.2.1, u.2.2 * v.1 - u.1 * v.2.2, u.1 * v.2.1 - u.2.1 * v.1)
def absR (x : Rat) : Rat := if x < 0 then -x else x

/-- the probe is `step` long in the max-norm: `centroid ± step · n / ‖n‖∞` -/
def triOutward (bs : List Box) (step : Rat) (t : P3 × P3 × P3) : Bool :=
  let a := t.1; let b := t.2.1; let c := t.2.2
  let n := cross3 (sub3 b a) (sub3 c a)
  let s := max (absR n.1) (max (absR n.2.1) (absR n.2.2))
  if s == 0 then false else
  let g : P3 := ((a.1 + b.1 + c.1) / 3, (a.2.1 + b.2.1 + c.2.1) / 3, (a.2.2 + b.2.2 + c.2.2) / 3)
  let k := step / s
  let pout : P3 := (g.1 + k * n.1, g.2.1 + k * n.2.1, g.2.2 + k * n.2.2)
  let pin : P3 := (g.1 - k * n.1, g.2.1 - k * n.2.1, g.2.2 - k * n.2.2)
  !member bs pout && member bs pin

/-- six times the signed volume -/
def vol6 (tris : List (P3 × P3 × P3)) : Rat :=
  tris.foldl (fun acc t =>
    let a := t.1; let b := t.2.1; let c := t.2.2
    acc + (a.1 * (b.2.1 * c.2.2 - b.2.2 * c.2.1) - a.2.1 * (b.1 * c.2.2 - b.2.2 * c.1)
      + a.2.2 * (b.1 * c.2.1 - b.2.1 * c.1))) 0

/-! ### the whole judgement -/

structure Verdict where
  tri : Bool        -- every triangle faces from the contained to the excluded side
  wind : Bool       -- winding number = membership at every grid-cell sample
  vol : Bool        -- volume = volume of the union (up to the documented pull)
  degenerate : Bool -- no generic position found (never expected)
  samples : Nat

/-- fractions used for the sample points of a cell (x, y, z): three generic points per cell; a set in
degenerate position for some column is skipped, at least one must not be -/
def fracSets : List (Rat × Rat × Rat) := [((1 : Rat) / 3, (2 : Rat) / 5, (3 : Rat) / 7), ((4 : Rat) / 9, (6 : Rat) / 11, (7 : Rat) / 13),
  ((5 : Rat) / 7, (9 : Rat) / 17, (11 : Rat) / 19)]

/-- winding check of all columns with one fraction set: `none` = degenerate, `some ok` -/
def windColumns (bs : List Box) (tris : List (P3 × P3 × P3)) (cx cy cz : List (Rat × Rat)) (f : Rat × Rat × Rat) :
    Option Bool :=
  cz.foldl (fun acc kz =>
    cy.foldl (fun acc ky =>
      match acc with
      | none => none
      | some ok =>
        let py := frac ky f.2.1; let pz := frac kz f.2.2
        match lineHits py pz tris with
        | none => none
        | some hits =>
          cx.foldl (fun acc kx =>
            match acc with
            | none => none
            | some ok =>
              let px := frac kx f.1
              match windingAt hits px with
              | none => none
              | some w => some (ok && (w == (if member bs (px, py, pz) then 1 else 0)))) (some ok)) acc) (some true)

/-- The judgement against the point set `member bs` with an explicit grid `sx sy sz`.  The grid must contain the
coordinate of every plane in which the boundary of the set has a face, and must be contained in the split lists of
the real `RectSet` (so that its thinnest gap bounds the real one from above): for a set built with `Add` /
`AddRectSet` only that is every box coordinate (`judge`); for histories with removals it is the list of ESSENTIAL
planes (`essentialSplits`). -/
def judgeWith (bs : List Box) (sx sy sz : List Rat) (tris : List (P3 × P3 × P3)) (onGrid : Bool)
    (minStep : Option Rat := none) : Verdict :=
  let gx := gapsOf sx; let gy := gapsOf sy; let gz := gapsOf sz
  let ext : Rat := (gx.foldl (· + ·) 0) + (gy.foldl (· + ·) 0) + (gz.foldl (· + ·) 0)
  let big : Rat := if ext == 0 then 1 else ext
  let mingap := minList big (gx ++ gy ++ gz)
  let cx := cellsOf (padded sx big); let cy := cellsOf (padded sy big); let cz := cellsOf (padded sz big)
  -- per-triangle probe: a quarter of the thinnest gap of the REAL split lists.  When the grid handed in may be
  -- coarser than the real one (`minStep = some m`, `m` ≤ a quarter of the thinnest real gap) the real gap is only
  -- known to lie between `4·m` and `mingap`, and the probe lengths `mingap/4, mingap/8, …` down to `m/2` are tried:
  -- one of them is within a factor 2 of the right one; an inward-facing triangle fails them all (they are all
  -- shorter than the thinnest feature of the set).
  let steps : List Rat := match minStep with
    | none => [mingap / 4]
    | some m => (List.range 200).filterMap fun k =>
        let st := mingap / 4 / ((2 : Rat) ^ k)
        if k == 0 || m / 2 ≤ st then some st else none
  let tri := tris.all fun t => steps.any fun st => triOutward bs st t
  -- exact volume and area of the union from the grid
  let f0 := ((1 : Rat) / 2, (1 : Rat) / 2, (1 : Rat) / 2)
  let inside : (Rat × Rat) → (Rat × Rat) → (Rat × Rat) → Bool := fun kx ky kz =>
    member bs (frac kx f0.1, frac ky f0.2.1, frac kz f0.2.2)
  let uvol : Rat := cz.foldl (fun acc kz => cy.foldl (fun acc ky => cx.foldl (fun acc kx =>
    if inside kx ky kz then acc + (kx.2 - kx.1) * (ky.2 - ky.1) * (kz.2 - kz.1) else acc) acc) acc) 0
  let pairs : List (Rat × Rat) → List ((Rat × Rat) × (Rat × Rat)) := fun l => l.zip (l.drop 1)
  let areaX : Rat := cz.foldl (fun acc kz => cy.foldl (fun acc ky => (pairs cx).foldl (fun acc p =>
    if inside p.1 ky kz != inside p.2 ky kz then acc + (ky.2 - ky.1) * (kz.2 - kz.1) else acc) acc) acc) 0
  let areaY : Rat := cz.foldl (fun acc kz => cx.foldl (fun acc kx => (pairs cy).foldl (fun acc p =>
    if inside kx p.1 kz != inside kx p.2 kz then acc + (kx.2 - kx.1) * (kz.2 - kz.1) else acc) acc) acc) 0
  let areaZ : Rat := cy.foldl (fun acc ky => cx.foldl (fun acc kx => (pairs cz).foldl (fun acc p =>
    if inside kx ky p.1 != inside kx ky p.2 then acc + (kx.2 - kx.1) * (ky.2 - ky.1) else acc) acc) acc) 0
  let area := areaX + areaY + areaZ
  -- ε of Mesh(): at most min(1e-5 · diagonal, 0.1 · thinnest gap); the diagonal is at most the sum of the extents
  let epsB := min (ext / 100000) (mingap / 10)
  let v6 := vol6 tris
  let d := absR (v6 - 6 * uvol)
  let vol := if onGrid then d == 0 else decide (d ≤ 6 * (2 * epsB * area))
  let w := fracSets.foldl (fun (acc : Option Bool) f =>
    match windColumns bs tris cx cy cz f with
    | none => acc
    | some r => some (r && acc.getD true)) none
  { tri := tri, wind := w.getD false, vol := vol, degenerate := w.isNone, samples := cx.length * cy.length * cz.length }

def judge (bs : List Box) (tris : List (P3 × P3 × P3)) (onGrid : Bool) : Verdict :=
  judgeWith bs (splits bs 0) (splits bs 1) (splits bs 2) tris onGrid

/-! ### histories with removals: the set as kept cells of the full grid, and its essential planes

`sem` is the point set of the history at GENERIC points (boxes added minus boxes removed, in order —
`M3d.RectSet.Hist.sem`); the set `RectSet` keeps is the union of the closed cells of the grid of all box
coordinates whose centre is in `sem`. -/

def midOf (c : Rat × Rat) : Rat := (c.1 + c.2) / 2

/-- the cells of the full grid `fx fy fz` (all box coordinates of the history) that the set keeps -/
def keptCells (sem : P3 → Bool) (fx fy fz : List Rat) : List Box :=
  (cellsOf fz).flatMap fun kz => (cellsOf fy).flatMap fun ky => (cellsOf fx).filterMap fun kx =>
    if sem (midOf kx, midOf ky, midOf kz) then some { lo := (kx.1, ky.1, kz.1), hi := (kx.2, ky.2, kz.2) } else none

/-- the coordinates of axis `k` whose plane separates a kept cell from a cell that is not kept (or from the outside):
the planes in which the boundary of the set has a face -/
def essentialSplits (sem : P3 → Bool) (fx fy fz : List Rat) (k : Nat) : List Rat :=
  let inR : List Rat → Rat → Bool := fun f v => match f.head?, f.getLast? with
    | some a, some z => decide (a < v) && decide (v < z)
    | _, _ => false
  let m : Rat → Rat → Rat → Bool := fun x y z => inR fx x && inR fy y && inR fz z && sem (x, y, z)
  let pad : List Rat → List Rat := fun f => padded f 1
  let own := if k == 0 then fx else if k == 1 then fy else fz
  let o1 := if k == 0 then fy else fx
  let o2 := if k == 2 then fy else fz
  let at3 : Rat → Rat → Rat → Bool := fun v a b => if k == 0 then m v a b else if k == 1 then m a v b else m a b v
  let pairs := (cellsOf (pad own)).zip ((cellsOf (pad own)).drop 1)
  pairs.filterMap fun p =>
    if (cellsOf o2).any fun c2 => (cellsOf o1).any fun c1 =>
        at3 (midOf p.1) (midOf c1) (midOf c2) != at3 (midOf p.2) (midOf c1) (midOf c2)
    then some p.1.2 else none

end M3d.RectSpec
