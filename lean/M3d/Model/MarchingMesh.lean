import M3d.Model.Marching

/-! ### 6. Whole-lattice meshes (what `MarchingCubes` / `MarchingSquares` compute from the table) -/
namespace M3d.Marching

/-- A mesh vertex in doubled lattice coordinates (exactly one coordinate is odd: the midpoint of a
lattice edge). -/
abbrev GV := Nat × Nat × Nat

def cornerOff (c k : Nat) : Nat := bit c k

def cellCfg (lab : Nat → Nat → Nat → Bool) (x y z : Nat) : Nat :=
  (List.range 8).foldl (fun acc c =>
    if lab (x + cornerOff c 0) (y + cornerOff c 1) (z + cornerOff c 2) then acc + 2 ^ c else acc) 0

def gvOf (x y z a b : Nat) : GV :=
  (2 * x + cornerOff a 0 + cornerOff b 0, 2 * y + cornerOff a 1 + cornerOff b 1,
   2 * z + cornerOff a 2 + cornerOff b 2)

/-- All triangles of a lattice with `nx × ny × nz` cells. -/
def mcMesh (table : List (List (List Nat))) (nx ny nz : Nat) (lab : Nat → Nat → Nat → Bool) :
    List (GV × GV × GV) :=
  (List.range nz).flatMap fun z => (List.range ny).flatMap fun y => (List.range nx).flatMap fun x =>
    (getRow table (cellCfg lab x y z)).filterMap fun r => match r with
      | [a0, a1, b0, b1, c0, c1] => some (gvOf x y z a0 a1, gvOf x y z b0 b1, gvOf x y z c0 c1)
      | _ => none

def cellCfg2 (lab : Nat → Nat → Bool) (x y : Nat) : Nat :=
  (List.range 4).foldl (fun acc c =>
    if lab (x + cornerOff c 0) (y + cornerOff c 1) then acc + 2 ^ c else acc) 0

abbrev GV2 := Nat × Nat

def gv2Of (x y a b : Nat) : GV2 :=
  (2 * x + cornerOff a 0 + cornerOff b 0, 2 * y + cornerOff a 1 + cornerOff b 1)

def msMesh (table : List (List (List Nat))) (nx ny : Nat) (lab : Nat → Nat → Bool) :
    List (GV2 × GV2) :=
  (List.range ny).flatMap fun y => (List.range nx).flatMap fun x =>
    (getRow table (cellCfg2 lab x y)).filterMap fun r => match r with
      | [a0, a1, b0, b1] => some (gv2Of x y a0 a1, gv2Of x y b0 b1)
      | _ => none

end M3d.Marching
