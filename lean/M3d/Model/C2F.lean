import M3d.Model.Partition
/-!
# Coarse-to-fine marching (`MarchingSquaresC2F`, `MarchingCubesC2F`): when does the coarse pass *see* a feature (core-only)

`MarchingSquaresC2F(s, bigDelta, smallDelta, extraSpace, iters)` meshes the solid at the coarse spacing
`Δ = bigDelta`, and then meshes at the fine spacing `δ = smallDelta` with the region filter
"the block's bounds, grown by `extraSpace + margin(Δ)`, meet the coarse mesh".

Both lattices start one spacing below `s.Min()`: fine points `fmin + i·δ` with `fmin = Min - δ`, coarse
points `Min - Δ + J·Δ`.  For an integer ratio `Δ = m·δ` the coarse point `J` therefore has the *fine
coordinate* `m·J - (m-1)`, the coarse cell `J` spans the fine coordinates `[m·J-(m-1), m·J+1]` and the
fine cell `i` spans `[i, i+1]`.

`nearAxis m R i J`: along one axis, the fine cell `i` and the coarse cell `J` are at most `R` fine
steps apart (closed intervals; `R = 0` means they touch).  `seenAll2/3 m R …` is the executable form of
"the coarse spacing still sees every feature, with reach `R`": every fine cell with a sign change is,
in the max-norm, within `R·δ` of a coarse cell with a sign change.  The C12 driver evaluates it with
`R = m` (reach = one coarse cell: the coarse cell the feature lies in, or one sharing a face, an edge
or a corner with it, is crossed by the coarse mesh).
-/
namespace M3d.C2F
open M3d.Marching M3d.Partition

/-- the cell has a sign change: its marching-squares configuration is neither 0 nor 15 -/
def mixed2 (lab : Nat → Nat → Bool) (c : Nat × Nat) : Bool :=
  cellCfg2 lab c.1 c.2 != 0 && cellCfg2 lab c.1 c.2 != 15

/-- the cell has a sign change: its marching-cubes configuration is neither 0 nor 255 -/
def mixed3 (lab : Nat → Nat → Nat → Bool) (c : Nat × Nat × Nat) : Bool :=
  cellCfg lab c.1 c.2.1 c.2.2 != 0 && cellCfg lab c.1 c.2.1 c.2.2 != 255

/-- `[i, i+1]` and `[m·J-(m-1), m·J+1]` are at most `R` apart (everything shifted by `m-1 ≥ 0`
to stay in `Nat`). -/
def nearAxis (m R i J : Nat) : Bool := decide (i ≤ m * J + 1 + R) && decide (m * J ≤ i + m + R)

def near2 (m R : Nat) (c J : Nat × Nat) : Bool := nearAxis m R c.1 J.1 && nearAxis m R c.2 J.2

def near3 (m R : Nat) (c J : Nat × Nat × Nat) : Bool :=
  nearAxis m R c.1 J.1 && nearAxis m R c.2.1 J.2.1 && nearAxis m R c.2.2 J.2.2

/-- the coarse cells with a sign change (`cnx × cny` coarse cells) -/
def coarseMixed2 (labC : Nat → Nat → Bool) (cnx cny : Nat) : List (Nat × Nat) :=
  (rootBlock2 cnx cny).cells.filter (mixed2 labC)

def coarseMixed3 (labC : Nat → Nat → Nat → Bool) (cnx cny cnz : Nat) : List (Nat × Nat × Nat) :=
  (rootBlock cnx cny cnz).cells.filter (mixed3 labC)

/-- every fine sign-change cell is within reach `R` of a coarse sign-change cell -/
def seenAll2 (m R : Nat) (labF labC : Nat → Nat → Bool) (nx ny cnx cny : Nat) : Bool :=
  (rootBlock2 nx ny).cells.all fun c =>
    !mixed2 labF c || (coarseMixed2 labC cnx cny).any (near2 m R c)

def seenAll3 (m R : Nat) (labF labC : Nat → Nat → Nat → Bool) (nx ny nz cnx cny cnz : Nat) : Bool :=
  (rootBlock nx ny nz).cells.all fun c =>
    !mixed3 labF c || (coarseMixed3 labC cnx cny cnz).any (near3 m R c)

/-- the same test with the list of coarse sign-change cells computed once (what the driver runs;
`seenAll2_fast_eq` is `rfl`-level) -/
def seenAll2Fast (m R : Nat) (labF labC : Nat → Nat → Bool) (nx ny cnx cny : Nat) : Bool :=
  let cm := coarseMixed2 labC cnx cny
  (rootBlock2 nx ny).cells.all fun c => !mixed2 labF c || cm.any (near2 m R c)

def seenAll3Fast (m R : Nat) (labF labC : Nat → Nat → Nat → Bool) (nx ny nz cnx cny cnz : Nat) : Bool :=
  let cm := coarseMixed3 labC cnx cny cnz
  (rootBlock nx ny nz).cells.all fun c => !mixed3 labF c || cm.any (near3 m R c)

theorem seenAll2Fast_eq (m R : Nat) (labF labC : Nat → Nat → Bool) (nx ny cnx cny : Nat) :
    seenAll2Fast m R labF labC nx ny cnx cny = seenAll2 m R labF labC nx ny cnx cny := rfl

theorem seenAll3Fast_eq (m R : Nat) (labF labC : Nat → Nat → Nat → Bool) (nx ny nz cnx cny cnz : Nat) :
    seenAll3Fast m R labF labC nx ny nz cnx cny cnz = seenAll3 m R labF labC nx ny nz cnx cny cnz := rfl

/-- The bisection of `msSearch` / `mcSearchPoint` along the lattice edge a vertex lies on: `f` is the
end of the edge outside the solid, `t` the end inside; `iters` halvings, then the midpoint.
(`for i := 0; i < iters; i++ { mid := (f+t)/2; if s.Contains(mid) { t = mid } else { f = mid } }; (f+t)/2`) -/
def searchAxis {α : Type} [Add α] [Div α] [OfNat α 2] (inside : α → Bool) : Nat → α → α → α
  | 0, f, t => (f + t) / 2
  | n + 1, f, t => if inside ((f + t) / 2) then searchAxis inside n f ((f + t) / 2)
      else searchAxis inside n ((f + t) / 2) t

end M3d.C2F
