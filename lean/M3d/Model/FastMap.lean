/-
Model of the coordinate-keyed "fast maps" of model3d / model2d
(templates/fast_maps.template: CoordMap, CoordToSlice, CoordToNumber, EdgeMap, ...).

Go:   type M struct { slowMap map[K]V ; fastMap map[uint64]cell{Key K; Value V} }
A Go map is modelled as an association list used through `get/put/del`
(`put` erases the old binding first, so lists stay duplicate-free).
The hash is an arbitrary function `h : K → UInt64` of the key *as compared by Go's ==*.
Core-only: this file is executed by the driver.
-/
namespace M3d.FastMap

/-! ### Go maps as association lists -/
section AL
variable {A B : Type} [DecidableEq A]

def get : List (A × B) → A → Option B
  | [], _ => none
  | (k, v) :: t, a => if k = a then some v else get t a

def del (m : List (A × B)) (a : A) : List (A × B) := m.filter (fun p => p.1 ≠ a)

def put (m : List (A × B)) (a : A) (b : B) : List (A × B) := (a, b) :: del m a

def keysOf (m : List (A × B)) : List A := m.map (·.1)

end AL

/-! ### The fast map -/

inductive FM (K V : Type) where
  | fast (m : List (UInt64 × (K × V)))
  | slow (m : List (K × V))
deriving Repr

variable {K V : Type} [DecidableEq K]

def empty : FM K V := .fast []

/-- `fastToSlow`: copy every cell into an ordinary map. -/
def toSlow : List (UInt64 × (K × V)) → List (K × V)
  | [] => []
  | (_, (k, v)) :: t => put (toSlow t) k v

def isFast : FM K V → Bool
  | .fast _ => true
  | .slow _ => false

def len : FM K V → Nat
  | .fast m => m.length
  | .slow m => m.length

def load (h : K → UInt64) : FM K V → K → Option V
  | .fast m, k =>
    match get m (h k) with
    | some (k', v) => if k' = k then some v else none
    | none => none
  | .slow m, k => get m k

def store (h : K → UInt64) : FM K V → K → V → FM K V
  | .fast m, k, v =>
    match get m (h k) with
    | some (k', _) => if k' = k then .fast (put m (h k) (k, v)) else .slow (put (toSlow m) k v)
    | none => .fast (put m (h k) (k, v))
  | .slow m, k, v => .slow (put m k v)

def delete (h : K → UInt64) : FM K V → K → FM K V
  | .fast m, k =>
    match get m (h k) with
    | some (k', _) => if k' = k then .fast (del m (h k)) else .fast m
    | none => .fast m
  | .slow m, k => .slow (del m k)

/-- All keys, in storage order (Go: map order, i.e. arbitrary). -/
def keys : FM K V → List K
  | .fast m => m.map (fun c => c.2.1)
  | .slow m => m.map (·.1)

def entries : FM K V → List (K × V)
  | .fast m => m.map (·.2)
  | .slow m => m

/-- `CoordToSlice.Append` exactly as the template writes it. -/
def append {T : Type} (h : K → UInt64) : FM K (List T) → K → T → FM K (List T)
  | .fast m, k, x =>
    match get m (h k) with
    | some (k', vs) =>
      if k' = k then .fast (put m (h k) (k, vs ++ [x]))
      else
        let s := toSlow m
        .slow (put s k ((get s k).getD [] ++ [x]))
    | none => .fast (put m (h k) (k, [x]))
  | .slow m, k, x => .slow (put m k ((get m k).getD [] ++ [x]))

/-- `CoordToNumber.Add` exactly as the template writes it (values in any additive type). -/
def addTo {T : Type} [Add T] (zero : T) (h : K → UInt64) : FM K T → K → T → FM K T
  | .fast m, k, x =>
    match get m (h k) with
    | some (k', v) =>
      if k' = k then .fast (put m (h k) (k, v + x))
      else
        let s := toSlow m
        .slow (put s k ((get s k).getD zero + x))
    | none => .fast (put m (h k) (k, zero + x))
  | .slow m, k, x => .slow (put m k ((get m k).getD zero + x))

/-! ### Operation histories (what the correspondence check replays) -/

inductive Op (K V : Type) where
  | store (k : K) (v : V)
  | delete (k : K)
  | load (k : K)
  | len
deriving Repr

inductive Out (V : Type) where
  | unit
  | val (v : Option V)
  | num (n : Nat)
deriving Repr, DecidableEq

def step (h : K → UInt64) (m : FM K V) : Op K V → FM K V × Out V
  | .store k v => (store h m k v, .unit)
  | .delete k => (delete h m k, .unit)
  | .load k => (m, .val (load h m k))
  | .len => (m, .num (len m))

def run (h : K → UInt64) : FM K V → List (Op K V) → List (Out V)
  | _, [] => []
  | m, op :: ops => let (m', o) := step h m op; o :: run h m' ops

/-- The reference: an ordinary map (duplicate-free association list). -/
def refStep (m : List (K × V)) : Op K V → List (K × V) × Out V
  | .store k v => (put m k v, .unit)
  | .delete k => (del m k, .unit)
  | .load k => (m, .val (get m k))
  | .len => (m, .num m.length)

def refRun : List (K × V) → List (Op K V) → List (Out V)
  | _, [] => []
  | m, op :: ops => let (m', o) := refStep m op; o :: refRun m' ops

end M3d.FastMap
