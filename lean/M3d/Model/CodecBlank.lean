import M3d.Model.CodecPly
/-!
# The head of `PLYReader.Read` (ASCII branch) with the run-time index made explicit  (C16)

`readRowAscii` (`Model/CodecPly.lean`) decides "is this a comment row" with the total test
`(fields ln).head? = some "comment"`.  The Go code evaluates

    line = strings.TrimSpace(line)
    … if line == "" (at io.EOF) → io.ErrUnexpectedEOF …
    if len(line) > 0 && strings.Fields(line)[0] == "comment" { return p.Read() }
    values, err = curElem.DecodeInstanceString(line)

where `strings.Fields(line)[0]` is an index expression that panics on an empty slice.  `rowHead` is that
code with the panic as a value and the function applied to the raw line (`TrimSpace` on the unchanged
tree) as a parameter `keep`; `M3d.C16.ply_row_head_no_panic` proves that for every `keep` with the
three properties of `TrimSpace` it never yields `panic` and equals the branch structure of `readRowAscii`.
Core-only.
-/
namespace M3d.Codec

/-- left half of `strings.TrimSpace` -/
def trimLeft (bs : Bytes) : Bytes := trimLeftAux bs.length bs

/-- `strings.TrimRight(s, "\r\n")`: what the seeded change C16-8 keeps of the raw line. -/
def trimRightCRLF (bs : Bytes) : Bytes :=
  (bs.reverse.dropWhile fun b => b = 13 || b = 10).reverse

/-- `len(line) > 0 && strings.Fields(line)[0] == "comment"`; `none` = index out of range (run-time panic). -/
def commentGuard (kept : Bytes) : Option Bool :=
  if kept.isEmpty then some false
  else
    match fields kept with
    | [] => none
    | t :: _ => some (decide (t = tokComment))

/-- what the ASCII branch of `Read` does with one raw line before the values are decoded -/
inductive RowHead
  | eofErr                      -- `io.ErrUnexpectedEOF`: no more input
  | comment                     -- `return p.Read()`
  | data (toks : List Bytes)    -- `DecodeInstanceString(line)` splits the line into these tokens
  | panic                       -- `strings.Fields(line)[0]` out of range
  deriving DecidableEq, Repr

/-- `raw` = what `ReadString('\n')` returned, `found` = it ended in a newline (no `io.EOF`). -/
def rowHead (keep : Bytes → Bytes) (raw : Bytes) (found : Bool) : RowHead :=
  let line := keep raw
  if !found && line.isEmpty then .eofErr
  else
    match commentGuard line with
    | none => .panic
    | some true => .comment
    | some false => .data (fields line)

/-- the same head as `readRowAscii` computes it (total: no index expression) -/
def rowHeadSpec (raw : Bytes) (found : Bool) : RowHead :=
  if !found && allSpace raw then .eofErr
  else if (fields raw).head? = some tokComment then .comment
  else .data (fields raw)

/-- what `Read` does after the head: the branch structure of `readRowAscii` is `rowHeadSpec` -/
def rowAfterHead (ft : FloatText) (el : Element) (rest : Bytes) (found : Bool) : RowHead → Except PErr (List PVal × Bytes × Nat)
  | .eofErr => .error .unexpectedEOF
  | .comment => if found then readRowAscii ft el rest else .error .unexpectedEOF
  | .data toks =>
    match decodeTokens ft el.props toks with
    | .error e => .error e
    | .ok (vs, [], a) => .ok (vs, rest, a)
    | .ok (_, _ :: _, _) => .error .bad
  | .panic => .error .bad   -- arbitrary: never reached for a `TrimSpace`-like `keep` (`M3d.C16.ply_row_head_no_panic`)

end M3d.Codec
