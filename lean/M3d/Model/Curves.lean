import M3d.Model.Numeric
/-!
# C17 models: `model2d/curves.go`  (core Lean only, executable)

`Coord.Scale/Add/Sub` are component-wise, and `BezierCurve.Eval/Split/Polynomials` apply the
same scalar formula to the X and to the Y coordinates (Split does so literally, axis by axis), so
the Bezier models work on one coordinate: a control polygon is a `List α`.  A 2-D curve is the
pair of its coordinate lists; the correspondence compares both coordinates.
-/
namespace M3d.Curves
open M3d.Num

variable {α : Type}

section Bezier
variable [Add α] [Sub α] [Mul α] [NatCast α]

/-- One round of linear interpolation (a row of `betas` in `Split`):
`row[i] = prev[i]*(1-t) + prev[i+1]*t`. -/
def dcStep (t : α) : List α → List α
  | a :: b :: rest => (a * (((1 : Nat) : α) - t) + b * t) :: dcStep t (b :: rest)
  | _ => []

def iter {β : Type} (f : β → β) : Nat → β → β
  | 0, x => x
  | n + 1, x => iter f n (f x)

/-- **Specification**: de Casteljau's algorithm — interpolate repeatedly until one point is left. -/
def deCasteljau (b : List α) (t : α) : α :=
  (iter (dcStep t) (b.length - 1) b).headD ((0 : Nat) : α)

/-- `recursiveBezierFast(b, i, t, tProd)`: `bs`/`cs` are `b[i:]` and `binomialCoeffs[len(b)-2][i:]`.
Returns `(sum, invTProd)`. -/
def fastAux (t : α) : List α → List Nat → α → α × α
  | [], _, _ => (((0 : Nat) : α), ((1 : Nat) : α))
  | bi :: bs, cs, tProd =>
    let r := fastAux t bs cs.tail (tProd * t)
    (r.1 + bi * (((cs.headD 0 : Nat) : α) * r.2 * tProd), r.2 * (((1 : Nat) : α) - t))

/-- `BezierCurve.Eval` on one coordinate.  `table` is `binomialCoeffs` (regenerated from the
source).  `fuel` bounds the recursion of the fallback branch (`len(b)` is enough).
For `len(b) < 2` Go panics; the model returns 0 and the driver reports `panic`. -/
def bezEvalFuel (table : List (List Nat)) : Nat → List α → α → α
  | _, [], _ => ((0 : Nat) : α)
  | _, [_], _ => ((0 : Nat) : α)
  | _, [b0, b1], t => b0 * (((1 : Nat) : α) - t) + b1 * t
  | _, [b0, b1, b2], t =>
    let t2 := t * t
    let invT := ((1 : Nat) : α) - t
    let invT2 := invT * invT
    b0 * invT2 + b1 * (((2 : Nat) : α) * invT * t) + b2 * t2
  | _, [b0, b1, b2, b3], t =>
    let t2 := t * t
    let t3 := t2 * t
    let invT := ((1 : Nat) : α) - t
    let invT2 := invT * invT
    let invT3 := invT2 * invT
    b0 * invT3 + b1 * (((3 : Nat) : α) * invT2 * t) + b2 * (((3 : Nat) : α) * invT * t2) + b3 * t3
  | fuel, b0 :: b1 :: b2 :: b3 :: b4 :: rest, t =>
    let b := b0 :: b1 :: b2 :: b3 :: b4 :: rest
    if b.length - 2 < table.length then
      (fastAux t b (table.getD (b.length - 2) []) ((1 : Nat) : α)).1
    else
      match fuel with
      | 0 => ((0 : Nat) : α)
      | fuel + 1 =>
        bezEvalFuel table fuel b.dropLast t * (((1 : Nat) : α) - t) + bezEvalFuel table fuel b.tail t * t

def bezEval (table : List (List Nat)) (b : List α) (t : α) : α := bezEvalFuel table b.length b t

/-- All rows of de Casteljau's triangle: `betas` in `Split` (`n+1` rows for `n` more steps). -/
def dcRows (t : α) : Nat → List α → List (List α)
  | 0, r => [r]
  | n + 1, r => r :: dcRows t n (dcStep t r)

/-- `BezierCurve.Split` on one coordinate: `c1[i] = betas[i][0]`, `c2[i] = betas[n-i][i]`. -/
def split (b : List α) (t : α) : List α × List α :=
  let n := b.length - 1
  let rows := dcRows t n b
  (rows.map (·.headD ((0 : Nat) : α)),
   (List.range (n + 1)).map fun i => (rows.getD (n - i) []).getD i ((0 : Nat) : α))

end Bezier

section BezPoly
variable [Add α] [Sub α] [Mul α] [Div α] [Neg α] [NatCast α] [DecidableEq α]

/-- `BezierCurve.Polynomials` on one coordinate. -/
def bezPolyFuel : Nat → List α → List α
  | _, [] => []
  | _, [b0] => [b0]
  | 0, _ => []
  | fuel + 1, b =>
    Poly.add (Poly.mul (bezPolyFuel fuel b.dropLast) [((1 : Nat) : α), -((1 : Nat) : α)])
             (Poly.mul (bezPolyFuel fuel b.tail) [((0 : Nat) : α), ((1 : Nat) : α)])

def bezPoly (b : List α) : List α := bezPolyFuel b.length b

end BezPoly

/-! ## SegmentCurve -/

structure Seg (α : Type) where
  ax : α
  ay : α
  bx : α
  by' : α
deriving Repr

section SegCurve
variable [Add α] [Sub α] [Mul α] [Div α] [NatCast α] [LT α] [DecidableLT α]

/-- `Segment.Length()` = `s[1].Sub(s[0]).Norm()` = `sqrt(v·v)`. -/
def segLen (sqrt : α → α) (s : Seg α) : α :=
  let vx := s.bx - s.ax
  let vy := s.by' - s.ay
  sqrt (vx * vx + vy * vy)

/-- The loop of `NewSegmentCurve`: start offsets (called `lengths` in Go) and the total. -/
def cumulative : α → List α → List α × α
  | acc, [] => ([], acc)
  | acc, l :: ls =>
    let r := cumulative (acc + l) ls
    (acc :: r.1, r.2)

/-- `sort.SearchFloat64s(a, x)`: least index with `a[i] >= x` (else `len(a)`); on a sorted slice
the binary search of the Go library returns exactly this. -/
def searchGE (x : α) : List α → Nat
  | [] => 0
  | a :: as => if a < x then searchGE x as + 1 else 0

/-- Point of a segment at offset `off` from its start. -/
def segPoint (sqrt : α → α) (s : Seg α) (off : α) : α × α :=
  let frac := off / segLen sqrt s
  (s.ax + (s.bx - s.ax) * frac, s.ay + (s.by' - s.ay) * frac)

def dummySeg : Seg α := ⟨((0 : Nat) : α), ((0 : Nat) : α), ((0 : Nat) : α), ((0 : Nat) : α)⟩

/-- `SegmentCurve.Eval` as it was before the repair (F7): the index found among the *start*
offsets is used as it is. -/
def segEvalOld (sqrt : α → α) (segs : List (Seg α)) (t : α) : α × α :=
  let ct := cumulative ((0 : Nat) : α) (segs.map (segLen sqrt))
  let l := t * ct.2
  let idx0 := searchGE l ct.1
  let idx := if idx0 = segs.length then idx0 - 1 else idx0
  let seg := segs.getD idx dummySeg
  segPoint sqrt seg (l - ct.1.getD idx ((0 : Nat) : α))

/-- `SegmentCurve.Eval` (repaired): step back one segment when the found start offset lies
beyond `l`. -/
def segEval (sqrt : α → α) (segs : List (Seg α)) (t : α) : α × α :=
  let ct := cumulative ((0 : Nat) : α) (segs.map (segLen sqrt))
  let l := t * ct.2
  let idx0 := searchGE l ct.1
  let idx := if idx0 = segs.length ∨ (0 < idx0 ∧ l < ct.1.getD idx0 ((0 : Nat) : α)) then idx0 - 1 else idx0
  let seg := segs.getD idx dummySeg
  segPoint sqrt seg (l - ct.1.getD idx ((0 : Nat) : α))

/-- **Specification**: walk along the polyline; the point at arclength `l` lies on the first
segment whose end has not been passed (the last segment takes everything beyond). -/
def walk (sqrt : α → α) : List (Seg α) → α → α × α
  | [], _ => (((0 : Nat) : α), ((0 : Nat) : α))
  | [s], l => segPoint sqrt s l
  | s :: rest, l =>
    if l < segLen sqrt s then segPoint sqrt s l else walk sqrt rest (l - segLen sqrt s)

/-- **Specification** of `SegmentCurve.Eval`: the point a fraction `t` of the way along. -/
def segSpec (sqrt : α → α) (segs : List (Seg α)) (t : α) : α × α :=
  walk sqrt segs (t * (cumulative ((0 : Nat) : α) (segs.map (segLen sqrt))).2)

end SegCurve

/-! ## JoinedCurve -/

section Joined
variable [Add α] [Sub α] [Mul α] [NatCast α] [IntCast α]

/-- `JoinedCurve.Eval`: which sub-curve and which sub-parameter.  `trunc` is Go's `int(·)`
conversion (toward zero).  `none` = index out of range (a Go panic; happens for `t ≥ 1 + 1/n`). -/
def joinedIndex (trunc : α → Int) (n : Nat) (t : α) : Option (Nat × α) :=
  let i0 : Int := trunc (t * ((n : Nat) : α))
  let i : Int := if i0 = (n : Int) then i0 - 1 else if i0 < 0 then 0 else i0
  if i < 0 ∨ (n : Int) ≤ i then none
  else some (i.toNat, t * ((n : Nat) : α) - ((i : Int) : α))

end Joined

/-! ## bisectionSearch -/

section Bisect
variable [Add α] [Div α] [NatCast α] [LE α] [DecidableLE α] [BEq α]

def bisectLoop (f : α → α) (x : α) : Nat → α → α → α × α
  | 0, lo, hi => (lo, hi)
  | n + 1, lo, hi =>
    let t := (lo + hi) / ((2 : Nat) : α)
    if f t ≤ x then bisectLoop f x n t hi else bisectLoop f x n lo t

/-- `bisectionSearch(x, f)`; `none` = NaN. -/
def bisectionSearch (f : α → α) (x : α) : Option α :=
  let x0 := f ((0 : Nat) : α)
  let x1 := f ((1 : Nat) : α)
  if x0 == x then some ((0 : Nat) : α)
  else if x1 == x then some ((1 : Nat) : α)
  else
    let e0 : Bool := decide (x0 ≤ x)
    let e1 : Bool := decide (x1 ≤ x)
    if e0 == e1 then none
    else
      let lh := if e1 then (((1 : Nat) : α), ((0 : Nat) : α)) else (((0 : Nat) : α), ((1 : Nat) : α))
      let r := bisectLoop f x 63 lh.1 lh.2
      some ((r.1 + r.2) / ((2 : Nat) : α))

end Bisect

end M3d.Curves
