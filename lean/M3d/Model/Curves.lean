import M3d.Model.Numeric
/-!
# C17 models: `model2d/curves.go`  (core Lean only, executable)

`Coord.Scale/Add/Sub` are component-wise, and `BezierCurve.Eval/Split/Polynomials` apply the
same scalar formula to the X and to the Y coordinates (Split does so literally, axis by axis), so
the Bezier models work on one coordinate: a control polygon is a `List α`.  A 2-D curve is the
pair of its coordinate lists; the correspondence compares both coordinates.
-/
namespace M3d.Curves
open M3d.Num

variable {α : Type}

section Bezier
variable [Add α] [Sub α] [Mul α] [NatCast α]

/-- One round of linear interpolation (a row of `betas` in `Split`):
`row[i] = prev[i]*(1-t) + prev[i+1]*t`. -/
def dcStep (t : α) : List α → List α
  | a :: b :: rest => (a * (((1 : Nat) : α) - t) + b * t) :: dcStep t (b :: rest)
  | _ => []

def iter {β : Type} (f : β → β) : Nat → β → β
  | 0, x => x
  | n + 1, x => iter f n (f x)

/-- **Specification**: de Casteljau's algorithm — interpolate repeatedly until one point is left. -/
def deCasteljau (b : List α) (t : α) : α :=
  (iter (dcStep t) (b.length - 1) b).headD ((0 : Nat) : α)

/-- `recursiveBezierFast(b, i, t, tProd)`: `bs`/`cs` are `b[i:]` and `binomialCoeffs[len(b)-2][i:]`.
Returns `(sum, invTProd)`. -/
def fastAux (t : α) : List α → List Nat → α → α × α
  | [], _, _ => (((0 : Nat) : α), ((1 : Nat) : α))
  | bi :: bs, cs, tProd =>
    let r := fastAux t bs cs.tail (tProd * t)
    (r.1 + bi * (((cs.headD 0 : Nat) : α) * r.2 * tProd), r.2 * (((1 : Nat) : α) - t))

/-- `BezierCurve.Eval` on one coordinate.  `table` is `binomialCoeffs` (regenerated from the
source).  `fuel` bounds the recursion of the fallback branch (`len(b)` is enough).
For `len(b) < 2` Go panics; the model returns 0 and the driver reports `panic`. -/
def bezEvalFuel (table : List (List Nat)) : Nat → List α → α → α
  | _, [], _ => ((0 : Nat) : α)
  | _, [_], _ => ((0 : Nat) : α)
  | _, [b0, b1], t => b0 * (((1 : Nat) : α) - t) + b1 * t
  | _, [b0, b1, b2], t =>
    let t2 := t * t
    let invT := ((1 : Nat) : α) - t
    let invT2 := invT * invT
    b0 * invT2 + b1 * (((2 : Nat) : α) * invT * t) + b2 * t2
  | _, [b0, b1, b2, b3], t =>
    let t2 := t * t
    let t3 := t2 * t
    let invT := ((1 : Nat) : α) - t
    let invT2 := invT * invT
    let invT3 := invT2 * invT
    b0 * invT3 + b1 * (((3 : Nat) : α) * invT2 * t) + b2 * (((3 : Nat) : α) * invT * t2) + b3 * t3
  | fuel, b0 :: b1 :: b2 :: b3 :: b4 :: rest, t =>
    let b := b0 :: b1 :: b2 :: b3 :: b4 :: rest
    if b.length - 2 < table.length then
      (fastAux t b (table.getD (b.length - 2) []) ((1 : Nat) : α)).1
    else
      match fuel with
      | 0 => ((0 : Nat) : α)
      | fuel + 1 =>
        bezEvalFuel table fuel b.dropLast t * (((1 : Nat) : α) - t) + bezEvalFuel table fuel b.tail t * t

def bezEval (table : List (List Nat)) (b : List α) (t : α) : α := bezEvalFuel table b.length b t

/-- All rows of de Casteljau's triangle: `betas` in `Split` (`n+1` rows for `n` more steps). -/
def dcRows (t : α) : Nat → List α → List (List α)
  | 0, r => [r]
  | n + 1, r => r :: dcRows t n (dcStep t r)

/-- `BezierCurve.Split` on one coordinate: `c1[i] = betas[i][0]`, `c2[i] = betas[n-i][i]`. -/
def split (b : List α) (t : α) : List α × List α :=
  let n := b.length - 1
  let rows := dcRows t n b
  (rows.map (·.headD ((0 : Nat) : α)),
   (List.range (n + 1)).map fun i => (rows.getD (n - i) []).getD i ((0 : Nat) : α))

/-! ### a curve value used more than once

`BezierCurve` is a slice: its methods receive the control points by reference, and a curve is normally used many
times (`InverseX` evaluates it 65 times, `JoinedCurve.Eval`, `Split` after `Eval`, …).  A method call is therefore
modelled as returning its result TOGETHER WITH the control points it leaves behind; the code as it stands only
reads them (`Eval` recurses on sub-slices, `Split` copies into its own `betas` rows). -/

inductive BezOp (α : Type) where
  | eval (t : α)
  | split (t : α)

inductive BezRes (α : Type) where
  | point (x : α)
  | halves (l r : List α)

/-- One method call on a curve value: result and the control points afterwards. -/
def bezStep (table : List (List Nat)) (b : List α) : BezOp α → BezRes α × List α
  | .eval t => (.point (bezEval table b t), b)
  | .split t => (.halves (split b t).1 (split b t).2, b)

/-- A sequence of method calls on ONE curve value: each call sees the control points the previous calls left. -/
def bezRun (table : List (List Nat)) : List α → List (BezOp α) → List (BezRes α) × List α
  | b, [] => ([], b)
  | b, op :: ops =>
    let r := bezStep table b op
    let rs := bezRun table r.2 ops
    (r.1 :: rs.1, rs.2)

/-- **Specification** of a call in such a sequence: the answer for the ORIGINAL control points `b`
(evaluation = de Casteljau's point). -/
def bezOpSpec (b : List α) : BezOp α → BezRes α
  | .eval t => .point (deCasteljau b t)
  | .split t => .halves (split b t).1 (split b t).2

end Bezier

section BezPoly
variable [Add α] [Sub α] [Mul α] [Div α] [Neg α] [NatCast α] [DecidableEq α]

/-- `BezierCurve.Polynomials` on one coordinate. -/
def bezPolyFuel : Nat → List α → List α
  | _, [] => []
  | _, [b0] => [b0]
  | 0, _ => []
  | fuel + 1, b =>
    Poly.add (Poly.mul (bezPolyFuel fuel b.dropLast) [((1 : Nat) : α), -((1 : Nat) : α)])
             (Poly.mul (bezPolyFuel fuel b.tail) [((0 : Nat) : α), ((1 : Nat) : α)])

def bezPoly (b : List α) : List α := bezPolyFuel b.length b

end BezPoly

/-! ## SegmentCurve -/

structure Seg (α : Type) where
  ax : α
  ay : α
  bx : α
  by' : α
deriving Repr

section SegCurve
variable [Add α] [Sub α] [Mul α] [Div α] [NatCast α] [LT α] [DecidableLT α] [BEq α]

/-- `Segment.Length()` = `s[1].Sub(s[0]).Norm()` = `sqrt(v·v)`. -/
def segLen (sqrt : α → α) (s : Seg α) : α :=
  let vx := s.bx - s.ax
  let vy := s.by' - s.ay
  sqrt (vx * vx + vy * vy)

/-- The loop of `NewSegmentCurve`: start offsets (called `lengths` in Go) and the total. -/
def cumulative : α → List α → List α × α
  | acc, [] => ([], acc)
  | acc, l :: ls =>
    let r := cumulative (acc + l) ls
    (acc :: r.1, r.2)

/-- `sort.SearchFloat64s(a, x)`: least index with `a[i] >= x` (else `len(a)`); on a sorted slice
the binary search of the Go library returns exactly this. -/
def searchGE (x : α) : List α → Nat
  | [] => 0
  | a :: as => if a < x then searchGE x as + 1 else 0

/-- Point of a segment at offset `off` from its start (the tail of `SegmentCurve.Eval`): a segment
of length zero (a repeated vertex of the polyline) is the point `seg[0]`; otherwise
`seg[0] + (seg[1]-seg[0])*(off/len)`. -/
def segPoint (sqrt : α → α) (s : Seg α) (off : α) : α × α :=
  let len := segLen sqrt s
  if len == ((0 : Nat) : α) then (s.ax, s.ay)
  else
    let frac := off / len
    (s.ax + (s.bx - s.ax) * frac, s.ay + (s.by' - s.ay) * frac)

/-- The tail of `SegmentCurve.Eval` before the zero-length guard was added: `off / 0` is `0/0` or
`x/0`, and the product with the zero vector is NaN; `none` = the NaN point. -/
def segPointNaN (sqrt : α → α) (s : Seg α) (off : α) : Option (α × α) :=
  let len := segLen sqrt s
  if len == ((0 : Nat) : α) then none
  else
    let frac := off / len
    some (s.ax + (s.bx - s.ax) * frac, s.ay + (s.by' - s.ay) * frac)

def dummySeg : Seg α := ⟨((0 : Nat) : α), ((0 : Nat) : α), ((0 : Nat) : α), ((0 : Nat) : α)⟩

/-- `SegmentCurve.Eval` as it was before the repair (F7): the index found among the *start*
offsets is used as it is. -/
def segEvalOld (sqrt : α → α) (segs : List (Seg α)) (t : α) : α × α :=
  let ct := cumulative ((0 : Nat) : α) (segs.map (segLen sqrt))
  let l := t * ct.2
  let idx0 := searchGE l ct.1
  let idx := if idx0 = segs.length then idx0 - 1 else idx0
  let seg := segs.getD idx dummySeg
  segPoint sqrt seg (l - ct.1.getD idx ((0 : Nat) : α))

/-- `SegmentCurve.Eval` on the fields of a `SegmentCurve` value (`segments`, `lengths` = start offsets,
`totalLength`), as repaired for F7: step back one segment when the found start offset lies beyond `l`. -/
def segEvalOn (sqrt : α → α) (segs : List (Seg α)) (starts : List α) (total : α) (t : α) : α × α :=
  let l := t * total
  let idx0 := searchGE l starts
  let idx := if idx0 = segs.length ∨ (0 < idx0 ∧ l < starts.getD idx0 ((0 : Nat) : α)) then idx0 - 1 else idx0
  let seg := segs.getD idx dummySeg
  segPoint sqrt seg (l - starts.getD idx ((0 : Nat) : α))

/-- `NewSegmentCurve(segs).Eval(t)`. -/
def segEval (sqrt : α → α) (segs : List (Seg α)) (t : α) : α × α :=
  let ct := cumulative ((0 : Nat) : α) (segs.map (segLen sqrt))
  segEvalOn sqrt segs ct.1 ct.2 t

/-- `SegmentCurve.Eval` as it was before the zero-length guard (index selection as repaired for F7, no
guard in the interpolation): `none` = `{NaN NaN}`. -/
def segEvalNaN (sqrt : α → α) (segs : List (Seg α)) (t : α) : Option (α × α) :=
  let ct := cumulative ((0 : Nat) : α) (segs.map (segLen sqrt))
  let l := t * ct.2
  let idx0 := searchGE l ct.1
  let idx := if idx0 = segs.length ∨ (0 < idx0 ∧ l < ct.1.getD idx0 ((0 : Nat) : α)) then idx0 - 1 else idx0
  let seg := segs.getD idx dummySeg
  segPointNaN sqrt seg (l - ct.1.getD idx ((0 : Nat) : α))

/-- The segments form a polyline: each one starts where the previous one ends ("a sequence of consecutive
segments along the curve", `NewSegmentCurve`). -/
def Connected : List (Seg α) → Prop
  | s :: s' :: rest => s.bx = s'.ax ∧ s.by' = s'.ay ∧ Connected (s' :: rest)
  | _ => True

/-- **Specification**: walk along the polyline; the point at arclength `l` lies on the first
segment whose end has not been passed (the last segment takes everything beyond).  For `l ≥ 0` a
segment of length zero (repeated vertex) is never entered unless it is the last one: it takes up no part
of the curve. -/
def walk (sqrt : α → α) : List (Seg α) → α → α × α
  | [], _ => (((0 : Nat) : α), ((0 : Nat) : α))
  | [s], l => segPoint sqrt s l
  | s :: rest, l =>
    if l < segLen sqrt s then segPoint sqrt s l else walk sqrt rest (l - segLen sqrt s)

/-- **Specification** of `SegmentCurve.Eval`: the point a fraction `t` of the way along. -/
def segSpec (sqrt : α → α) (segs : List (Seg α)) (t : α) : α × α :=
  walk sqrt segs (t * (cumulative ((0 : Nat) : α) (segs.map (segLen sqrt))).2)

end SegCurve

/-! ## JoinedCurve -/

section Joined
variable [Add α] [Sub α] [Mul α] [NatCast α] [IntCast α]

/-- `JoinedCurve.Eval`: which sub-curve and which sub-parameter.  `trunc` is Go's `int(·)`
conversion (toward zero).  `none` = index out of range (a Go panic; happens for `t ≥ 1 + 1/n`). -/
def joinedIndex (trunc : α → Int) (n : Nat) (t : α) : Option (Nat × α) :=
  let i0 : Int := trunc (t * ((n : Nat) : α))
  let i : Int := if i0 = (n : Int) then i0 - 1 else if i0 < 0 then 0 else i0
  if i < 0 ∨ (n : Int) ≤ i then none
  else some (i.toNat, t * ((n : Nat) : α) - ((i : Int) : α))

end Joined

/-! ## bisectionSearch -/

section Bisect
variable [Add α] [Div α] [NatCast α] [LE α] [DecidableLE α] [BEq α]

def bisectLoop (f : α → α) (x : α) : Nat → α → α → α × α
  | 0, lo, hi => (lo, hi)
  | n + 1, lo, hi =>
    let t := (lo + hi) / ((2 : Nat) : α)
    if f t ≤ x then bisectLoop f x n t hi else bisectLoop f x n lo t

/-- `bisectionSearch(x, f)`; `none` = NaN. -/
def bisectionSearch (f : α → α) (x : α) : Option α :=
  let x0 := f ((0 : Nat) : α)
  let x1 := f ((1 : Nat) : α)
  if x0 == x then some ((0 : Nat) : α)
  else if x1 == x then some ((1 : Nat) : α)
  else
    let e0 : Bool := decide (x0 ≤ x)
    let e1 : Bool := decide (x1 ≤ x)
    if e0 == e1 then none
    else
      let lh := if e1 then (((1 : Nat) : α), ((0 : Nat) : α)) else (((0 : Nat) : α), ((1 : Nat) : α))
      let r := bisectLoop f x 63 lh.1 lh.2
      some ((r.1 + r.2) / ((2 : Nat) : α))

/-- `CurveEvalX(c, x)`: the `y` value where the curve (given by its coordinate functions `fx`, `fy`) has abscissa `x`;
`none` = NaN (no bracket). -/
def curveEvalX (fx fy : α → α) (x : α) : Option α :=
  match bisectionSearch fx x with
  | none => none
  | some t => some (fy t)

end Bisect

/-! ## CurveMesh -/

section CurveMesh
variable [Div α] [NatCast α]

/-- The `k`-th sample of `CurveMesh(c, n)`: `c.Eval(0.0)` for the first, `c.Eval(float64(k)/float64(n))` after. -/
def meshSample {β : Type} (f : α → β) (n : Nat) : Nat → β
  | 0 => f ((0 : Nat) : α)
  | k + 1 => f (((k + 1 : Nat) : α) / ((n : Nat) : α))

/-- `CurveMesh(c, n)`: the segments in the order they are added (`c1` of a segment is the `c2` of the previous). -/
def curveMesh {β : Type} (f : α → β) (n : Nat) : List (β × β) :=
  (List.range n).map fun i => (meshSample f n i, meshSample f n (i + 1))

end CurveMesh

end M3d.Curves
