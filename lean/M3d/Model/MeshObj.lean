import M3d.Model.Mesh
/-!
# Mesh OBJECTS: programs over several `*Mesh` variables (C09, derived meshes)

In Go a mesh is a pointer (`*Mesh`) to an object holding the face set and the lazy vertex index.
`Copy`, `DeepCopy`, `MapCoords`, `Transform`, `Scale`, `Translate`, `Center`, `Rotate` and
`InvertNormals` are all written as `m1 := NewMesh(); …; m1.Add(face); …; return m1`: the result is
a NEW object, so a later `Add` / `Remove` / `AddMesh` through the result never changes what the
receiver answers (and vice versa).  This file models that pointer structure explicitly:

* `OState` — `heap`: the `*Mesh` objects allocated so far (object id = position), `vars`: the
  program's mesh variables (handle ↦ object id);
* `OOp` — one instruction on handles; `derive dst ids` is `vars[dst] = <one of the methods above>`
  whose result was built by `NewMesh()` + `Add` of the faces `ids` (in Go's map order of the
  receiver: the order is a parameter), `alias dst src` is `vars[dst] = vars[src]` — what NO method
  of the library does (it is what `Translate` does under the seeded change C09-15 when the offset
  is zero);
* `stepObj` / `runObj` — the program on objects, `stepVal` / `runVal` — the same program when
  every variable simply holds a mesh VALUE (no sharing possible);
* `view` — the mesh value behind each handle.

`Lemmas/MeshObj.lean` proves that for alias-free programs the two semantics agree
(`runObj_view`), and that every handle then holds a coherent mesh.  Core only.
-/
namespace M3d.MeshObj
open M3d.FastMap M3d.Mesh

/-- One instruction of a program over mesh variables. -/
inductive OOp where
  | add (v f : Nat)
  | remove (v f : Nat)
  /-- any index-forcing query through handle `v` (Find / Neighbors / VertexSlice / …) -/
  | touch (v : Nat)
  /-- `vars[v].AddMesh(vars[w])` -/
  | addMesh (v w : Nat)
  /-- `vars[dst] = vars[src].Copy() | DeepCopy() | MapCoords(f) | Translate(o) | …`: a new object
  built by `NewMesh()` and `Add` of the faces `ids` -/
  | derive (dst : Nat) (ids : List Nat)
  /-- `vars[dst] = vars[src]` (two names for ONE object) -/
  | alias (dst src : Nat)

def OOp.isAlias : OOp → Bool
  | .alias _ _ => true
  | _ => false

/-- `m1 := NewMesh(); for each face: m1.Add(face)`. -/
def build (h : Nat → UInt64) (tri : Nat → Tri) (ids : List Nat) : Mesh.Mesh :=
  ids.foldl (fun m f => m.add h tri f) Mesh.new

/-- `m.AddMesh(m1)` = `m1.Iterate(m.Add)` (no re-check can fail: `Add` never removes). -/
def addAll (h : Nat → UInt64) (tri : Nat → Tri) (m : Mesh.Mesh) (fs : List Nat) : Mesh.Mesh :=
  fs.foldl (fun m f => m.add h tri f) m

structure OState where
  heap : List Mesh.Mesh
  vars : List Nat

/-- The object behind handle `v` (an undefined handle denotes no object: id past the heap). -/
def OState.objOf (s : OState) (v : Nat) : Nat := s.vars.getD v s.heap.length

/-- The mesh value behind handle `v`. -/
def OState.deref (s : OState) (v : Nat) : Mesh.Mesh := s.heap.getD (s.objOf v) Mesh.new

/-- The mesh value behind every handle. -/
def OState.view (s : OState) : List Mesh.Mesh := s.vars.map fun o => s.heap.getD o Mesh.new

/-- `nv` variables, each initialised with its own `NewMesh()`. -/
def OState.init (nv : Nat) : OState :=
  { heap := List.replicate nv Mesh.new, vars := List.range nv }

/-- The program on objects: a mutation goes to the object behind the handle (and is seen through
every handle of that object). -/
def stepObj (h : Nat → UInt64) (tri : Nat → Tri) (s : OState) : OOp → OState
  | .add v f => { s with heap := s.heap.set (s.objOf v) ((s.deref v).add h tri f) }
  | .remove v f => { s with heap := s.heap.set (s.objOf v) ((s.deref v).remove h tri f) }
  | .touch v => { s with heap := s.heap.set (s.objOf v) ((s.deref v).withIndex h tri).1 }
  | .addMesh v w =>
    { s with heap := s.heap.set (s.objOf v) (addAll h tri (s.deref v) (s.deref w).faces) }
  | .derive dst ids => { heap := s.heap ++ [build h tri ids], vars := s.vars.set dst s.heap.length }
  | .alias dst src => { s with vars := s.vars.set dst (s.objOf src) }

def runObj (h : Nat → UInt64) (tri : Nat → Tri) (ops : List OOp) (s : OState) : OState :=
  ops.foldl (stepObj h tri) s

/-- The same program when a variable holds a mesh VALUE. -/
def stepVal (h : Nat → UInt64) (tri : Nat → Tri) (vals : List Mesh.Mesh) : OOp → List Mesh.Mesh
  | .add v f => vals.set v ((vals.getD v Mesh.new).add h tri f)
  | .remove v f => vals.set v ((vals.getD v Mesh.new).remove h tri f)
  | .touch v => vals.set v ((vals.getD v Mesh.new).withIndex h tri).1
  | .addMesh v w => vals.set v (addAll h tri (vals.getD v Mesh.new) (vals.getD w Mesh.new).faces)
  | .derive dst ids => vals.set dst (build h tri ids)
  | .alias dst src => vals.set dst (vals.getD src Mesh.new)

def runVal (h : Nat → UInt64) (tri : Nat → Tri) (ops : List OOp) (vals : List Mesh.Mesh) :
    List Mesh.Mesh :=
  ops.foldl (stepVal h tri) vals

/-! ### What a derived mesh has to contain -/

def mapTri (g : Nat → Nat) (t : Tri) : Tri := (g t.1, g t.2.1, g t.2.2)

/-- The faces (as values) of the mesh derived from the faces `src` by the coordinate map `g`
(`MapCoords`, `Transform`, `Scale`, `Translate`, `Center`, `Rotate`; `g = id`: `DeepCopy`). -/
def specMapped (tri : Nat → Tri) (g : Nat → Nat) (src : List Nat) : List Tri :=
  src.map fun f => mapTri g (tri f)

end M3d.MeshObj
