/-!
# Axis-aligned boxes and the prefilters of `bvh.go` (core-only, executable, generic scalar)

Models of (templates/bvh.template ⇒ model3d/bvh.go and model2d/bvh.go)

* `pointToBoundsDistSquared`  → `ptBoxDistSq3` / `ptBoxDistSq2`
* `sphereTouchesBounds` / `circleTouchesBounds` → `sphereTouches3` / `sphereTouches2`
* `rayCollisionWithBounds`    → `slabLoop` over the list of axes (`rayBounds3` / `rayBounds2`);
  `-∞`/`+∞` are `none` in the first/second component, a miss is `(0, -1)` exactly as in Go
* `JoinedCollider.rayCollidesWithBounds`, `Rect.FirstRayCollision`'s hit test → `rayAdmits`
* the segment test of `joinedMultiCollider.SegmentCollision` → `segAdmits`
* the box-overlap tests of `RectCollision` / `TriangleCollisions` → `rectAdmits3/2`, `triAdmits3`
* `Coord3D.Min/Max`, `BoundsUnion`, `NewJoinedCollider`'s bounds → `V3.min/max`, `Box3.union`

The scalar `α` only needs the operations used; theorems (`M3d/Lemmas/Box.lean`) are for every
linear ordered field, execution is at `Rat`.
-/
namespace M3d.Box

structure V3 (α : Type) where
  x : α
  y : α
  z : α
deriving DecidableEq, Repr

structure V2 (α : Type) where
  x : α
  y : α
deriving DecidableEq, Repr

structure Box3 (α : Type) where
  min : V3 α
  max : V3 α
deriving DecidableEq, Repr

structure Box2 (α : Type) where
  min : V2 α
  max : V2 α
deriving DecidableEq, Repr

section
variable {α : Type} [LT α] [DecidableLT α]

/-- `math.Min` on non-NaN values. -/
def smin (a b : α) : α := if b < a then b else a
/-- `math.Max` on non-NaN values. -/
def smax (a b : α) : α := if a < b then b else a

def V3.min (a b : V3 α) : V3 α := ⟨smin a.x b.x, smin a.y b.y, smin a.z b.z⟩
def V3.max (a b : V3 α) : V3 α := ⟨smax a.x b.x, smax a.y b.y, smax a.z b.z⟩
def V2.min (a b : V2 α) : V2 α := ⟨smin a.x b.x, smin a.y b.y⟩
def V2.max (a b : V2 α) : V2 α := ⟨smax a.x b.x, smax a.y b.y⟩

/-- Bounds of two bounders (`res.min = res.min.Min(c.Min())`, `res.max = res.max.Max(c.Max())`). -/
def Box3.union (a b : Box3 α) : Box3 α := ⟨a.min.min b.min, a.max.max b.max⟩
def Box2.union (a b : Box2 α) : Box2 α := ⟨a.min.min b.min, a.max.max b.max⟩

/-- The part of the box `r` inside the bounds `b` (`r.MinVal.Max(b.min)`, `r.MaxVal.Min(b.max)`: the two
corners `RectCollision`'s overlap test computes).  As a point set it is `r ∩ b` (`clip_contains`); the hierarchy
code uses it ONLY to decide whether to descend — the children are asked the caller's `r` (`joinedRect3/2`). -/
def Box3.clip (r b : Box3 α) : Box3 α := ⟨r.min.max b.min, r.max.min b.max⟩
def Box2.clip (r b : Box2 α) : Box2 α := ⟨r.min.max b.min, r.max.min b.max⟩
end

section
variable {α : Type} [LE α]
/-- `p` lies in the closed box. -/
def Box3.Contains (b : Box3 α) (p : V3 α) : Prop :=
  (b.min.x ≤ p.x ∧ p.x ≤ b.max.x) ∧ (b.min.y ≤ p.y ∧ p.y ≤ b.max.y) ∧ (b.min.z ≤ p.z ∧ p.z ≤ b.max.z)
def Box2.Contains (b : Box2 α) (p : V2 α) : Prop :=
  (b.min.x ≤ p.x ∧ p.x ≤ b.max.x) ∧ (b.min.y ≤ p.y ∧ p.y ≤ b.max.y)
/-- `a ⊆ b` for boxes given by corners (every point of `a` is a point of `b` when `a` is non-empty). -/
def Box3.Sub (a b : Box3 α) : Prop :=
  (b.min.x ≤ a.min.x ∧ a.max.x ≤ b.max.x) ∧ (b.min.y ≤ a.min.y ∧ a.max.y ≤ b.max.y) ∧
    (b.min.z ≤ a.min.z ∧ a.max.z ≤ b.max.z)
def Box2.Sub (a b : Box2 α) : Prop :=
  (b.min.x ≤ a.min.x ∧ a.max.x ≤ b.max.x) ∧ (b.min.y ≤ a.min.y ∧ a.max.y ≤ b.max.y)
end

section
variable {α : Type} [Add α] [Sub α] [Mul α]

/-- `Coord3D.SquaredDist`. -/
def V3.sqDist (c c1 : V3 α) : α :=
  let d1 := c.x - c1.x
  let d2 := c.y - c1.y
  let d3 := c.z - c1.z
  d1 * d1 + d2 * d2 + d3 * d3

def V2.sqDist (c c1 : V2 α) : α :=
  let d1 := c.x - c1.x
  let d2 := c.y - c1.y
  d1 * d1 + d2 * d2

/-- `Origin.Add(Direction.Scale(t))`. -/
def V3.along (o d : V3 α) (t : α) : V3 α := ⟨o.x + d.x * t, o.y + d.y * t, o.z + d.z * t⟩
def V2.along (o d : V2 α) (t : α) : V2 α := ⟨o.x + d.x * t, o.y + d.y * t⟩

def V3.sub (a b : V3 α) : V3 α := ⟨a.x - b.x, a.y - b.y, a.z - b.z⟩
def V2.sub (a b : V2 α) : V2 α := ⟨a.x - b.x, a.y - b.y⟩
end

section
variable {α : Type} [Add α] [Sub α] [Mul α] [LT α] [DecidableLT α] [OfNat α 0]

/-- One axis of `pointToBoundsDistSquared`. -/
def axDistSq (value lo hi : α) : α :=
  if value < lo then (lo - value) * (lo - value)
  else if hi < value then (hi - value) * (hi - value)
  else 0

/-- `pointToBoundsDistSquared` (3D). -/
def ptBoxDistSq3 (c : V3 α) (b : Box3 α) : α :=
  0 + axDistSq c.x b.min.x b.max.x + axDistSq c.y b.min.y b.max.y + axDistSq c.z b.min.z b.max.z

/-- `pointToBoundsDistSquared` (2D). -/
def ptBoxDistSq2 (c : V2 α) (b : Box2 α) : α :=
  0 + axDistSq c.x b.min.x b.max.x + axDistSq c.y b.min.y b.max.y
end

section
variable {α : Type} [Add α] [Sub α] [Mul α] [LT α] [LE α] [DecidableLT α] [DecidableLE α] [OfNat α 0]

/-- `sphereTouchesBounds`: `pointToBoundsDistSquared(center, min, max) <= r*r`. -/
def sphereTouches3 (c : V3 α) (r : α) (b : Box3 α) : Bool := decide (ptBoxDistSq3 c b ≤ r * r)
/-- `circleTouchesBounds`. -/
def sphereTouches2 (c : V2 α) (r : α) (b : Box2 α) : Bool := decide (ptBoxDistSq2 c b ≤ r * r)
end

/-- One axis of the slab test: ray origin / rate, box interval. -/
structure Ax (α : Type) where
  o : α
  d : α
  lo : α
  hi : α

section
variable {α : Type} [Add α] [Sub α] [Mul α] [Div α] [Neg α] [LT α] [LE α]
  [DecidableLT α] [DecidableLE α] [DecidableEq α] [OfNat α 0] [OfNat α 1]

/-- The value `rayCollisionWithBounds` returns for a miss: `return 0, -1`. -/
def slabMiss : Option α × Option α := (some 0, some (-1))

/-- The axis loop of `rayCollisionWithBounds`.  First component: `minFrac` (`none` = `-∞`),
second: `maxFrac` (`none` = `+∞`). -/
def slabLoop : List (Ax α) → Option α → Option α → Option α × Option α
  | [], mn, mx => (mn, mx)
  | a :: as, mn, mx =>
      if a.d = 0 then
        if a.o < a.lo ∨ a.hi < a.o then slabMiss else slabLoop as mn mx
      else
        let t1 := (a.lo - a.o) / a.d
        let t2 := (a.hi - a.o) / a.d
        let s1 := if t2 < t1 then t2 else t1
        let s2 := if t2 < t1 then t1 else t2
        if s2 < 0 then slabMiss
        else
          let mn' := match mn with
            | none => some s1
            | some m => if m < s1 then some s1 else some m
          let mx' := match mx with
            | none => some s2
            | some m => if s2 < m then some s2 else some m
          slabLoop as mn' mx'

/-- `rayCollisionWithBounds` (3D). -/
def rayBounds3 (o d : V3 α) (b : Box3 α) : Option α × Option α :=
  slabLoop [⟨o.x, d.x, b.min.x, b.max.x⟩, ⟨o.y, d.y, b.min.y, b.max.y⟩, ⟨o.z, d.z, b.min.z, b.max.z⟩]
    none none

/-- `rayCollisionWithBounds` (2D). -/
def rayBounds2 (o d : V2 α) (b : Box2 α) : Option α × Option α :=
  slabLoop [⟨o.x, d.x, b.min.x, b.max.x⟩, ⟨o.y, d.y, b.min.y, b.max.y⟩] none none

/-- `maxFrac >= minFrac && maxFrac >= 0` (`rayCollidesWithBounds`; `Rect.FirstRayCollision`
reports a hit under exactly the same condition). -/
def rayAdmits (r : Option α × Option α) : Bool :=
  (match r.2, r.1 with
    | none, _ => true
    | _, none => true
    | some mx, some mn => decide (mn ≤ mx)) &&
  (match r.2 with
    | none => true
    | some mx => decide (0 ≤ mx))

/-- `!(maxFrac < minFrac || maxFrac < 0 || minFrac > 1)` (`joinedMultiCollider.SegmentCollision`). -/
def segAdmits (r : Option α × Option α) : Bool :=
  !((match r.2, r.1 with
      | none, _ => false
      | _, none => false
      | some mx, some mn => decide (mx < mn)) ||
    (match r.2 with
      | none => false
      | some mx => decide (mx < 0)) ||
    (match r.1 with
      | none => false
      | some mn => decide (1 < mn)))

/-- `joinedMultiCollider.RectCollision`'s test: `min := r.Min.Max(j.min); max := r.Max.Min(j.max);
min.Min(max) != min ⇒ false`. -/
def rectAdmits3 (r b : Box3 α) : Bool :=
  let mn := r.min.max b.min
  let mx := r.max.min b.max
  decide (mn.min mx = mn)

def rectAdmits2 (r b : Box2 α) : Bool :=
  let mn := r.min.max b.min
  let mx := r.max.min b.max
  decide (mn.min mx = mn)

/-- `joinedMultiCollider.TriangleCollisions`'s test on the triangle's bounding box `t`:
`min.X > max.X || min.Y > max.Y || min.Z > max.Z ⇒ nil`. -/
def triAdmits3 (t b : Box3 α) : Bool :=
  let mn := t.min.max b.min
  let mx := t.max.min b.max
  !(decide (mx.x < mn.x) || decide (mx.y < mn.y) || decide (mx.z < mn.z))

end

end M3d.Box
