import M3d.Model.Conc
/-!
# Read-only queries on an immutable structure (C13; core Lean only)

The mechanism "immutable query structures after construction" (`JoinedCollider`,
`profileCollider`, `colorFuncObject`, `meshDistFunc`, …): a query reads the shared structure and
stages everything it computes in state that belongs to the call (locals, a buffer it allocated,
a material it allocated and returns).  In the interleaving semantics of `Model/Conc.lean` this
is an *ownership discipline* on plain accesses:

* every location is owned by at most one thread (`own t l`), or is `shared` (part of the
  structure; never written after construction), or is neither (never accessed);
* a thread writes only locations it owns and reads only locations it owns or shared ones.

`stepRO` is the per-step check, `progRO` the check for the first `n` threads of a program.
`Props/C13.lean` proves that such programs are race-free under every schedule and that every
thread computes exactly what it computes running alone (`owned_state_noninterference`).

`queryThread scratch f x` is the smallest query with staging: read the structure, stage
`f structure x` in `scratch`, do something else (the callback into a child / the caller doing
other work), consume `scratch`.  With `scratch` a location of the call (`queryLocalProg`) the
discipline holds; with `scratch` a field of the shared structure (`queryFieldProg`: the
`rayBuf` of a collider, the `mat` of an object, a move-to-front child list) it does not, and two
overlapping queries give one of them the other's answer.
-/
namespace M3d.Conc

/-- Does step `s` of thread `t` respect the ownership discipline?  Only straight-line plain
steps are admitted (a query takes no locks and uses no channels). -/
def stepRO (own : Tid → Loc → Bool) (shared : Loc → Bool) (t : Tid) : Step → Bool
  | .tau => true
  | .setReg _ => true
  | .read l => own t l || shared l
  | .write l _ => own t l
  | .writeF l _ => own t l
  | .rmw l _ => own t l
  | _ => false

/-- The discipline for threads `0 … n-1` of `p` (executable; used by the driver). -/
def progRO (own : Tid → Loc → Bool) (shared : Loc → Bool) (p : Program) (n : Nat) : Bool :=
  (List.range n).all fun t => (p t).all (stepRO own shared t)

/-- What thread `t` can observe of a configuration: its registers and the memory it may read. -/
structure View where
  pc : Nat
  reg : Val
  out : Val
  flag : Bool
  deriving DecidableEq, Repr

def viewOf (c : Config) (t : Tid) : View := ⟨(c.thr t).pc, (c.thr t).reg, (c.thr t).out, (c.thr t).flag⟩

/-- The sub-schedule of thread `t`: the same number of steps of `t`, nobody else running —
sequential use. -/
def alone (sched : Schedule) (t : Tid) : Schedule := sched.filter (· == t)

/-! ## The staged query -/

/-- The structure's data (set at construction, shared, immutable). -/
def STRUCT : Loc := 0
/-- A field of the structure used as staging area by the defective variant. -/
def FIELD : Loc := 1
/-- Call-local staging areas: the buffer / material allocated by the call of thread `t`. -/
def PRIV : Loc := 2

def queryThread (scratch : Loc) (f : Val → Val → Val) (x : Val) : List Step :=
  [ .read STRUCT,                       -- 0  look at the structure (2-D collider, child list, color func)
    .writeF scratch (fun s => f s x),   -- 1  stage the intermediate result for input `x`
    .tau,                               -- 2  callback into a child / return to the caller / other work
    .read scratch ]                     -- 3  consume the staged result: the answer

/-- Queries as the library has them: the staging area belongs to the call. -/
def queryLocalProg (f : Val → Val → Val) (xs : Tid → Val) : Program :=
  fun t => queryThread (PRIV + t) f (xs t)

/-- Queries that stage in a field of the shared structure (`p.rayBuf`, `c.mat`, `j.colliders`). -/
def queryFieldProg (f : Val → Val → Val) (xs : Tid → Val) : Program :=
  fun t => queryThread FIELD f (xs t)

def queryOwn : Tid → Loc → Bool := fun t l => l == PRIV + t
def queryShared : Loc → Bool := fun l => l == STRUCT

/-- The configuration after construction of a structure with data `s`. -/
def structInit (s : Val) : Config := { Config.init with mem := upd Config.init.mem STRUCT s }

/-- The schedule of the harness' *interrupted query* scenario: goroutine 0 runs its query up
to its `k`-th step and is parked there (inside a callback into user code), goroutine 1 runs a
complete query, goroutine 0 continues. -/
def interrupted (k : Nat) : Schedule := List.replicate k 0 ++ List.replicate 4 1 ++ List.replicate (4 - k) 0

/-! ## Memoisation behind a `sync.Map`: `model2d.CacheScalarFunc` -/

/-- The cache entry for one argument `x` (an atomic location; `0` = absent, otherwise the stored
value + 1) and the heap region of entry slots used by the defective variant. -/
def CACHE : Loc := 0
def SLOT : Loc := 1

/-- `cached(x)` as the library has it: `Load`; if present return it; otherwise compute `f x`
(the caller's own evaluation) and `Store` it.  `v = f x + 1`; the answer is left in `reg`. -/
def cacheThread (v : Val) : List Step :=
  [ .atomicLoad CACHE,   -- 0  value, ok := cache.Load(x)
    .jmpIfSet 2,         -- 1  if ok { return value }
    .setReg v,           -- 2  y := f(x)
    .atomicStore CACHE ] -- 3  cache.Store(x, y); return y

def cacheProg (v : Val) : Program := fun _ => cacheThread v

/-- "Claim the entry first": publish an empty slot, fill it after `f x` returned; callers that
find the entry read the slot without waiting for its owner.  The answer is left in `out`. -/
def cacheClaimThread (v : Val) (t : Tid) : List Step :=
  [ .atomicLoad CACHE,   -- 0  value, loaded := cache.LoadOrStore(x, new(float64))
    .jmpIfSet 3,         -- 1  if loaded → 5
    .setReg (t + 1),     -- 2  (the fresh slot)
    .atomicStore CACHE,  -- 3
    .writeAt SLOT v,     -- 4  *y = f(x)
    .readAt SLOT ]       -- 5  return *y

def cacheClaimProg (v : Val) : Program := fun t => cacheClaimThread v t

end M3d.Conc
